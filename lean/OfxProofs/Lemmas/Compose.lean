/-
Lemmas for C06.

Part 1 — `sorted` + `itertools.groupby` (any element type, any key with a total order):
  `filter_sortBy`    a stable sort keeps, for every key, the subsequence of elements with that key
  `sortBy_sorted`    the output is ordered by key
  `groupBy_flat`     (any list) the groups carrying key `k`, concatenated, are the elements with key `k`, in order
  `groupBy_keys_lt`  on a list ordered by key the group keys are strictly increasing (no key occurs twice)
  `group_sort`       the two together: one group per key present, holding that key's subsequence in original order

Part 2 — `Aggregate.__init__` as seen by attribute access (`construct_fieldVal`, `construct_items`).
-/
import OfxModel.Ofx.Compose
import OfxModel.Spec.Request
import OfxModel.Ofx.Types
import OfxProofs.Lemmas.ConvLawsWire
import OfxProofs.Lemmas.ConstructValid
import OfxProofs.Lemmas.WFBridge
import OfxModel.Ofx.WF

namespace Ofx.Compose
open Ofx

/-! ## Part 1: sorting and grouping -/

/-- `le` is a total order on the keys -/
structure IsOrder (le : κ → κ → Bool) : Prop where
  refl : ∀ a, le a a = true
  total : ∀ a b, le a b = true ∨ le b a = true
  trans : ∀ a b c, le a b = true → le b c = true → le a c = true
  antisymm : ∀ a b, le a b = true → le b a = true → a = b

section
variable {α κ : Type} [DecidableEq κ] (le : κ → κ → Bool) (key : α → κ)

theorem filter_insertBy (hrefl : ∀ a, le a a = true) (a : α) (l : List α) (k : κ) :
    (insertBy le key a l).filter (fun x => decide (key x = k)) =
      if key a = k then a :: l.filter (fun x => decide (key x = k)) else l.filter (fun x => decide (key x = k)) := by
  induction l with
  | nil => by_cases h : key a = k <;> simp [insertBy, h]
  | cons b l ih =>
    simp only [insertBy]
    split
    · by_cases h : key a = k <;> simp [List.filter_cons, h]
    · rename_i hab
      rw [List.filter_cons, ih]
      by_cases h : key a = k
      · have hb : key b ≠ k := by
          intro hb; apply hab; rw [h, hb]; exact hrefl k
        simp [h, hb, List.filter_cons]
      · by_cases hb : key b = k <;> simp [h, hb, List.filter_cons]

/-- stability: sorting does not disturb the subsequence of any one key -/
theorem filter_sortBy (hrefl : ∀ a, le a a = true) (l : List α) (k : κ) :
    (sortBy le key l).filter (fun x => decide (key x = k)) = l.filter (fun x => decide (key x = k)) := by
  induction l with
  | nil => rfl
  | cons a l ih =>
    simp only [sortBy, filter_insertBy le key hrefl, ih]
    by_cases h : key a = k <;> simp [h]

theorem mem_insertBy (a x : α) (l : List α) : x ∈ insertBy le key a l ↔ x = a ∨ x ∈ l := by
  induction l with
  | nil => simp [insertBy]
  | cons b l ih =>
    simp only [insertBy]
    split
    · simp
    · simp only [List.mem_cons, ih]
      exact or_left_comm

theorem mem_sortBy (x : α) (l : List α) : x ∈ sortBy le key l ↔ x ∈ l := by
  induction l with
  | nil => simp [sortBy]
  | cons a l ih => simp [sortBy, mem_insertBy, ih]

theorem insertBy_sorted (h : IsOrder le) (a : α) (l : List α)
    (hl : l.Pairwise (fun x y => le (key x) (key y) = true)) :
    (insertBy le key a l).Pairwise (fun x y => le (key x) (key y) = true) := by
  induction l with
  | nil => simp [insertBy]
  | cons b l ih =>
    rw [List.pairwise_cons] at hl
    simp only [insertBy]
    split
    · rename_i hab
      rw [List.pairwise_cons]
      refine ⟨?_, List.pairwise_cons.mpr hl⟩
      intro y hy
      rcases List.mem_cons.mp hy with rfl | hy
      · exact hab
      · exact h.trans _ _ _ hab (hl.1 y hy)
    · rename_i hab
      rw [List.pairwise_cons]
      refine ⟨?_, ih hl.2⟩
      intro y hy
      rcases (mem_insertBy le key a y l).mp hy with rfl | hy
      · rcases h.total (key y) (key b) with h1 | h1
        · exact absurd h1 hab
        · exact h1
      · exact hl.1 y hy

theorem sortBy_sorted (h : IsOrder le) (l : List α) :
    (sortBy le key l).Pairwise (fun x y => le (key x) (key y) = true) := by
  induction l with
  | nil => simp [sortBy]
  | cons a l ih => exact insertBy_sorted le key h a _ ih

/-! ### groupBy -/

theorem groupBy_cons_nil (a : α) (l : List α) (h : groupBy key l = []) :
    groupBy key (a :: l) = [(key a, [a])] := by
  rw [groupBy, h]

theorem groupBy_cons_cons (a : α) (l : List α) {k : κ} {g : List α} {rest : List (κ × List α)}
    (h : groupBy key l = (k, g) :: rest) :
    groupBy key (a :: l) = if key a = k then (k, a :: g) :: rest else (key a, [a]) :: (k, g) :: rest := by
  rw [groupBy, h]

/-- (any list) the groups with key `k`, concatenated in order, are the elements with key `k` in order -/
theorem groupBy_flat (l : List α) (k : κ) :
    ((groupBy key l).filter (fun p => decide (p.1 = k))).flatMap (·.2) = l.filter (fun x => decide (key x = k)) := by
  induction l with
  | nil => rfl
  | cons a l ih =>
    cases hg : groupBy key l with
    | nil =>
      rw [groupBy_cons_nil key a l hg]
      rw [hg] at ih
      simp only [List.filter_nil, List.flatMap_nil] at ih
      by_cases h : key a = k <;> simp [h, ← ih]
    | cons p rest =>
      obtain ⟨k', g⟩ := p
      rw [groupBy_cons_cons key a l hg]
      rw [hg] at ih
      by_cases hk : key a = k'
      · subst hk
        simp only [if_true]
        by_cases h : key a = k
        · simp only [h, List.filter_cons, decide_true, if_true, List.flatMap_cons] at ih ⊢
          simp [← ih]
        · simp only [h, List.filter_cons, decide_false, List.flatMap_cons] at ih ⊢
          simpa using ih
      · simp only [hk, if_false]
        by_cases h : key a = k
        · have h' : k' ≠ k := fun e => hk (h.trans e.symm)
          simp only [List.filter_cons, h, h', decide_true, decide_false, if_true, List.flatMap_cons] at ih ⊢
          simp [← ih]
        · simp only [List.filter_cons, h, decide_false, List.flatMap_cons] at ih ⊢
          simpa using ih

/-- every group is non-empty, homogeneous in its key, and made of elements of the list -/
theorem groupBy_mem (l : List α) (k : κ) (g : List α) (h : (k, g) ∈ groupBy key l) :
    g ≠ [] ∧ ∀ x ∈ g, key x = k ∧ x ∈ l := by
  induction l generalizing k g with
  | nil => simp [groupBy] at h
  | cons a l ih =>
    cases hg : groupBy key l with
    | nil =>
      rw [groupBy_cons_nil key a l hg] at h
      simp only [List.mem_singleton, Prod.mk.injEq] at h
      obtain ⟨rfl, rfl⟩ := h
      simp
    | cons p rest =>
      obtain ⟨k', g'⟩ := p
      rw [groupBy_cons_cons key a l hg] at h
      rw [hg] at ih
      by_cases hk : key a = k'
      · simp only [hk, if_true, List.mem_cons, Prod.mk.injEq] at h
        rcases h with ⟨rfl, rfl⟩ | h
        · have := ih k g' (by simp)
          refine ⟨by simp, ?_⟩
          intro x hx
          rcases List.mem_cons.mp hx with rfl | hx
          · exact ⟨hk, by simp⟩
          · exact ⟨(this.2 x hx).1, List.mem_cons_of_mem _ (this.2 x hx).2⟩
        · have := ih k g (by simp [h])
          exact ⟨this.1, fun x hx => ⟨(this.2 x hx).1, List.mem_cons_of_mem _ (this.2 x hx).2⟩⟩
      · simp only [hk, if_false, List.mem_cons, Prod.mk.injEq] at h
        rcases h with ⟨rfl, rfl⟩ | h
        · simp
        · have := ih k g (by simpa using h)
          exact ⟨this.1, fun x hx => ⟨(this.2 x hx).1, List.mem_cons_of_mem _ (this.2 x hx).2⟩⟩

/-- the first group carries the key of the first element -/
theorem groupBy_head (a : α) (l : List α) : ∃ g rest, groupBy key (a :: l) = (key a, g) :: rest := by
  cases hg : groupBy key l with
  | nil => exact ⟨_, _, groupBy_cons_nil key a l hg⟩
  | cons p rest =>
    obtain ⟨k', g'⟩ := p
    rw [groupBy_cons_cons key a l hg]
    by_cases hk : key a = k'
    · simp only [hk, if_true]; exact ⟨_, _, rfl⟩
    · simp only [hk, if_false]; exact ⟨_, _, rfl⟩

/-- on a list ordered by key, the group keys are strictly increasing -/
theorem groupBy_keys_lt (h : IsOrder le) (l : List α)
    (hl : l.Pairwise (fun x y => le (key x) (key y) = true)) :
    ((groupBy key l).map (·.1)).Pairwise (fun a b => le a b = true ∧ a ≠ b) := by
  induction l with
  | nil => simp [groupBy]
  | cons a l ih =>
    rw [List.pairwise_cons] at hl
    have ih := ih hl.2
    cases hg : groupBy key l with
    | nil => rw [groupBy_cons_nil key a l hg]; simp
    | cons p rest =>
      obtain ⟨k', g'⟩ := p
      rw [groupBy_cons_cons key a l hg]
      rw [hg] at ih
      by_cases hk : key a = k'
      · simpa only [hk, if_true, List.map_cons] using ih
      · simp only [hk, if_false, List.map_cons, List.pairwise_cons]
        refine ⟨?_, by simpa using ih⟩
        -- every later group key is the key of an element of `l`, all of which are ≥ key a;
        -- equality would force the first element of `l` to have key `key a` as well
        intro k'' hk''
        have hmem : ∃ g'', (k'', g'') ∈ groupBy key l := by
          rw [hg]
          rcases List.mem_cons.mp hk'' with rfl | hk''
          · exact ⟨g', by simp⟩
          · obtain ⟨p, hp, rfl⟩ := List.mem_map.mp hk''
            exact ⟨p.2, List.mem_cons_of_mem _ hp⟩
        obtain ⟨g'', hg''⟩ := hmem
        obtain ⟨hne, hall⟩ := groupBy_mem key l k'' g'' hg''
        obtain ⟨x, hx⟩ := List.exists_mem_of_ne_nil g'' hne
        obtain ⟨hxk, hxl⟩ := hall x hx
        have hax : le (key a) k'' = true := hxk ▸ hl.1 x hxl
        refine ⟨hax, ?_⟩
        intro heq
        -- first element of l
        cases l with
        | nil => simp [groupBy] at hg
        | cons b l' =>
          obtain ⟨g0, rest0, hhead⟩ := groupBy_head key b l'
          rw [hhead] at hg
          simp only [List.cons.injEq, Prod.mk.injEq] at hg
          have hbk : key b = k' := hg.1.1
          have hab : le (key a) (key b) = true := hl.1 b (by simp)
          have hbx : le (key b) (key x) = true := by
            rcases List.mem_cons.mp hxl with rfl | hxl'
            · exact h.refl _
            · exact (List.pairwise_cons.mp hl.2).1 x hxl'
          have : key b = key a := by
            apply h.antisymm _ _ _ hab
            rw [heq, ← hxk]; exact hbx
          exact hk (this.symm.trans hbk)

/-- **the core list lemma**: a stable sort by key followed by grouping on the same key partitions the list into
    its per-key subsequences, each in original order — one group per key that occurs, keys strictly increasing -/
theorem group_sort (h : IsOrder le) (l : List α) :
    ((groupBy key (sortBy le key l)).map (·.1)).Pairwise (fun a b => le a b = true ∧ a ≠ b) ∧
    (∀ k g, (k, g) ∈ groupBy key (sortBy le key l) → g ≠ [] ∧ g = l.filter (fun x => decide (key x = k))) ∧
    (∀ x ∈ l, ∃ g, (key x, g) ∈ groupBy key (sortBy le key l)) := by
  have hkeys := groupBy_keys_lt le key h _ (sortBy_sorted le key h l)
  refine ⟨hkeys, ?_, ?_⟩
  · intro k g hg
    refine ⟨(groupBy_mem key _ k g hg).1, ?_⟩
    rw [← filter_sortBy le key h.refl l k, ← groupBy_flat key (sortBy le key l) k]
    -- the only group with key k is (k, g)
    have hnodup : ((groupBy key (sortBy le key l)).map (·.1)).Pairwise (· ≠ ·) := hkeys.imp (fun h => h.2)
    generalize groupBy key (sortBy le key l) = gs at hg hnodup
    induction gs with
    | nil => simp at hg
    | cons p gs ih =>
      simp only [List.map_cons, List.pairwise_cons] at hnodup
      rcases List.mem_cons.mp hg with rfl | hg'
      · have : gs.filter (fun p => decide (p.1 = k)) = [] := by
          apply List.filter_eq_nil_iff.mpr
          intro q hq
          have := hnodup.1 q.1 (List.mem_map.mpr ⟨q, hq, rfl⟩)
          simpa using fun e => this e.symm
        simp [List.filter_cons, this]
      · have hp : p.1 ≠ k := by
          have := hnodup.1 k (List.mem_map.mpr ⟨(k, g), hg', rfl⟩)
          exact this
        simp only [List.filter_cons, hp, decide_false]
        exact ih hg' hnodup.2
  · intro x hx
    have hx' : x ∈ (sortBy le key l).filter (fun y => decide (key y = key x)) := by
      simp [mem_sortBy, hx]
    rw [← groupBy_flat key (sortBy le key l) (key x)] at hx'
    obtain ⟨p, hp, _⟩ := List.mem_flatMap.mp hx'
    obtain ⟨hp1, hp2⟩ := List.mem_filter.mp hp
    refine ⟨p.2, ?_⟩
    have : p.1 = key x := by simpa using hp2
    rw [← this]; exact hp1

end

open Ofx.Agg Ofx.Spec.Request

/-! ## Part 2: what a constructed instance holds -/

/-- the value an attribute holds after a faithful conversion: an empty text is `None` -/
def norm : Val → Val
  | .str [] => .none
  | v => v

def normNode : Node → Node
  | .val v => .val (norm v)
  | n => n

/-- `kwargs.get(k)` -/
def kwval (kw : List (Str × Node)) (k : Str) : Node := (lookup k kw).getD (.val .none)

/-- the shapes of value the composition code passes -/
inductive Shape where
  | text | flag | date | sub
  deriving DecidableEq, Repr

def Shape.ofKind : Kind → Option Shape
  | .string _ _ => some .text
  | .oneOf _ => some .text
  | .bool => some .flag
  | .datetime => some .date
  | .sub _ => some .sub
  | _ => none

def Shape.fits (Ptext : Str → Prop) : Shape → Node → Prop
  | _, .val .none => True
  | .text, .val (.str s) => Ptext s
  | .flag, .val (.bool _) => True
  | .date, .val (.dt _) => True
  | .sub, .agg _ _ _ => True
  | _, _ => False

/-- what C06 assumes of the element converters: on the shapes of value the client passes (texts satisfying
    `Ptext`, bools, datetimes, `None`) a conversion that succeeds returns the value itself, an empty text as `None` -/
structure ConvOK (cv : Conv) (Ptext : Str → Prop) : Prop where
  none : ∀ enums k r v', cv.convert enums k r .none = .ok v' → v' = .none
  text : ∀ enums k r s v', Shape.ofKind k = some .text → Ptext s → cv.convert enums k r (.str s) = .ok v' →
    v' = norm (.str s)
  flag : ∀ enums k r b v', Shape.ofKind k = some .flag → cv.convert enums k r (.bool b) = .ok v' → v' = .bool b
  date : ∀ enums k r d v', Shape.ofKind k = some .date → cv.convert enums k r (.dt d) = .ok v' → v' = .dt d

theorem getField_eq_lookup (k : Str) (l : List (Str × Node)) : getField k l = lookup k l := by
  induction l with
  | nil => rfl
  | cons p l ih => obtain ⟨k', v⟩ := p; simp [getField, lookup, ih]

theorem lookup_mem {k : Str} {l : List (Str × α)} {v : α} (h : lookup k l = some v) : (k, v) ∈ l := by
  induction l with
  | nil => simp [lookup] at h
  | cons p l ih =>
    obtain ⟨k', v'⟩ := p
    simp only [lookup] at h
    split at h
    · rename_i hk; simp only [Option.some.injEq] at h; subst hk; subst h; simp
    · exact List.mem_cons_of_mem _ (ih h)

section
variable {S : Schema} {cv : Conv} {Ptext : Str → Prop}

theorem setAttr_none (hcv : ConvOK cv Ptext) (a : Attr) (r : Option Node)
    (h : setAttr S cv a (.val .none) = .ok r) : r = none ∨ r = some (.val .none) := by
  unfold setAttr at h
  split at h
  · simp only [Except.ok.injEq] at h; exact Or.inl h.symm
  · rename_i t _
    simp only [convertSub] at h
    split at h
    · simp [Except.map] at h
    · simp only [Except.map, Except.ok.injEq] at h; exact Or.inr h.symm
  · simp only [Except.ok.injEq] at h; exact Or.inl h.symm
  · simp only [Except.ok.injEq] at h; exact Or.inl h.symm
  · simp only [Node.toVal, Except.map] at h
    split at h
    · simp at h
    · rename_i v hv
      simp only [Except.ok.injEq] at h
      rw [hcv.none _ _ _ _ hv] at h
      exact Or.inr h.symm

theorem setAttr_faithful (hcv : ConvOK cv Ptext) (a : Attr) (sh : Shape) (value : Node) (r : Option Node)
    (hsh : Shape.ofKind a.kind = some sh) (hfit : sh.fits Ptext value)
    (h : setAttr S cv a value = .ok r) : r = some (normNode value) := by
  unfold setAttr at h
  split at h
  · rename_i hk; rw [hk] at hsh; simp [Shape.ofKind] at hsh
  · -- sub
    rename_i t hk
    cases value with
    | val v =>
      cases v with
      | none =>
        simp only [convertSub] at h
        split at h
        · simp [Except.map] at h
        · simp only [Except.map, Except.ok.injEq] at h; subst h; rfl
      | _ => simp [convertSub, Except.map] at h
    | agg ci f i =>
      simp only [convertSub] at h
      split at h
      · simp only [Except.map, Except.ok.injEq] at h; subst h; rfl
      · simp [Except.map] at h
  · rename_i hk; rw [hk] at hsh; simp [Shape.ofKind] at hsh
  · rename_i hk; rw [hk] at hsh; simp [Shape.ofKind] at hsh
  · -- leaf kinds
    simp only [Except.map] at h
    split at h
    · simp at h
    · rename_i v' hv
      simp only [Except.ok.injEq] at h
      subst h
      cases value with
      | agg ci f i =>
        cases sh <;> simp [Shape.fits] at hfit
        -- sub shape with a leaf kind: impossible
        cases hka : a.kind <;> simp_all [Shape.ofKind]
      | val v =>
        simp only [Node.toVal] at hv
        cases v with
        | none => rw [hcv.none _ _ _ _ hv]; rfl
        | str s =>
          cases sh <;> simp [Shape.fits] at hfit
          rw [hcv.text _ _ _ _ _ hsh hfit hv]; rfl
        | bool b =>
          cases sh <;> simp [Shape.fits] at hfit
          rw [hcv.flag _ _ _ _ _ hsh hv]; rfl
        | dt d =>
          cases sh <;> simp [Shape.fits] at hfit
          rw [hcv.date _ _ _ _ _ hsh hv]; rfl
        | int i => cases sh <;> simp [Shape.fits] at hfit
        | dec d => cases sh <;> simp [Shape.fits] at hfit
        | tm t => cases sh <;> simp [Shape.fits] at hfit
        | other k => cases sh <;> simp [Shape.fits] at hfit

theorem setAttrs_cons_ok {a : Attr} {rest : List Attr} {kw : List (Str × Node)} {fields : List (Str × Node)}
    (h : setAttrs S cv (a :: rest) kw = .ok fields) :
    ∃ r more, setAttr S cv a (kwval kw a.name) = .ok r ∧ setAttrs S cv rest kw = .ok more ∧
      fields = (match r with | none => more | some v => (a.name, v) :: more) := by
  simp only [setAttrs, bind, Except.bind] at h
  split at h
  · simp at h
  · rename_i r hr
    split at h
    · simp at h
    · rename_i more hmore
      refine ⟨r, more, hr, hmore, ?_⟩
      cases r <;> simp [pure, Except.pure] at h <;> simp [h]

/-- every stored attribute comes from a spec attribute of that name, converted from the keyword of that name -/
theorem setAttrs_mem (attrs : List Attr) (kw : List (Str × Node)) (fields : List (Str × Node))
    (h : setAttrs S cv attrs kw = .ok fields) (k : Str) (v : Node) (hm : (k, v) ∈ fields) :
    ∃ a ∈ attrs, a.name = k ∧ setAttr S cv a (kwval kw k) = .ok (some v) := by
  induction attrs generalizing fields with
  | nil => simp [setAttrs] at h; subst h; simp at hm
  | cons a rest ih =>
    obtain ⟨r, more, hr, hmore, hf⟩ := setAttrs_cons_ok h
    subst hf
    cases r with
    | none =>
      obtain ⟨a', ha', hn, hs⟩ := ih more hmore hm
      exact ⟨a', List.mem_cons_of_mem _ ha', hn, hs⟩
    | some v' =>
      rcases List.mem_cons.mp hm with heq | hm'
      · simp only [Prod.mk.injEq] at heq
        obtain ⟨rfl, rfl⟩ := heq
        exact ⟨a, by simp, rfl, hr⟩
      · obtain ⟨a', ha', hn, hs⟩ := ih more hmore hm'
        exact ⟨a', List.mem_cons_of_mem _ ha', hn, hs⟩

theorem setAttrs_lookup_none (attrs : List Attr) (kw : List (Str × Node)) (fields : List (Str × Node))
    (h : setAttrs S cv attrs kw = .ok fields) (k : Str) (hk : ∀ a ∈ attrs, a.name ≠ k) :
    lookup k fields = none := by
  cases hl : lookup k fields with
  | none => rfl
  | some v =>
    obtain ⟨a, ha, hn, _⟩ := setAttrs_mem attrs kw fields h k v (lookup_mem hl)
    exact absurd hn (hk a ha)

theorem setAttrs_lookup (attrs : List Attr) (kw : List (Str × Node)) (fields : List (Str × Node))
    (h : setAttrs S cv attrs kw = .ok fields) (hnd : (attrs.map (·.name)).Nodup)
    (a : Attr) (ha : a ∈ attrs) :
    ∃ r, setAttr S cv a (kwval kw a.name) = .ok r ∧ lookup a.name fields = r := by
  induction attrs generalizing fields with
  | nil => simp at ha
  | cons a' rest ih =>
    obtain ⟨r, more, hr, hmore, hf⟩ := setAttrs_cons_ok h
    subst hf
    simp only [List.map_cons, List.nodup_cons] at hnd
    rcases List.mem_cons.mp ha with rfl | ha'
    · refine ⟨r, hr, ?_⟩
      cases r with
      | none =>
        apply setAttrs_lookup_none rest kw more hmore
        intro b hb hbn
        exact hnd.1 (List.mem_map.mpr ⟨b, hb, hbn⟩)
      | some v => simp [lookup]
    · obtain ⟨r', hr', hl'⟩ := ih more hmore hnd.2 ha'
      refine ⟨r', hr', ?_⟩
      have hne : a'.name ≠ a.name := fun e => hnd.1 (List.mem_map.mpr ⟨a, ha', e.symm⟩)
      cases r with
      | none => exact hl'
      | some v => simp [lookup, hne, hl']

/-- the schema facts the client relies on for one class: it is a plain (non-`ElementList`) aggregate, its non-list
    attribute names are pairwise distinct, and each keyword the client passes names an attribute of the expected shape -/
structure ClsFits (S : Schema) (name : String) (tbl : List (String × Shape)) (ci : Nat) (c : Cls) : Prop where
  idx : S.findIdx? name.toList = some ci
  cls : S.cls? ci = some c
  plain : c.elementList = false
  nodup : ((specNoList c).map (·.name)).Nodup
  attrs : ∀ k sh, (k, sh) ∈ tbl → ∃ a ∈ specNoList c, a.name = k.toList ∧ Shape.ofKind a.kind = some sh

/-- a keyword argument is `None` or fits the shape of the attribute it names -/
def KwFit (c : Cls) (Ptext : Str → Prop) (p : Str × Node) : Prop :=
  p.2 = .val .none ∨ ∃ a ∈ specNoList c, a.name = p.1 ∧ ∃ sh, Shape.ofKind a.kind = some sh ∧ sh.fits Ptext p.2

theorem kwFit_of {name : String} {tbl : List (String × Shape)} {ci : Nat} {c : Cls}
    (hc : ClsFits S name tbl ci c) {k : String} {sh : Shape} (hm : (k, sh) ∈ tbl) {v : Node}
    (hv : sh.fits Ptext v) : KwFit c Ptext (kv k v) := by
  obtain ⟨a, ha, hn, hs⟩ := hc.attrs k sh hm
  exact Or.inr ⟨a, ha, hn, sh, hs, hv⟩

theorem nodup_map_inj {α β : Type} (f : α → β) {l : List α} (h : (l.map f).Nodup) {a b : α}
    (ha : a ∈ l) (hb : b ∈ l) (hab : f a = f b) : a = b := by
  induction l with
  | nil => simp at ha
  | cons x l ih =>
    simp only [List.map_cons, List.nodup_cons] at h
    rcases List.mem_cons.mp ha with rfl | ha' <;> rcases List.mem_cons.mp hb with rfl | hb'
    · rfl
    · exact absurd (List.mem_map.mpr ⟨b, hb', hab.symm⟩) h.1
    · exact absurd (List.mem_map.mpr ⟨a, ha', hab⟩) h.1
    · exact ih h.2 ha' hb'

theorem mapM_same {f : Node → PyM Node} (hf : ∀ m m', f m = .ok m' → m' = m) {l l' : List Node}
    (h : l.mapM f = .ok l') : l' = l := by
  induction l generalizing l' with
  | nil => simp [List.mapM_nil, pure, Except.pure] at h; exact h
  | cons m rest ih =>
    simp only [List.mapM_cons, bind, Except.bind] at h
    split at h
    · simp at h
    · rename_i m' hm'
      split at h
      · simp at h
      · rename_i rest' hrest'
        simp only [pure, Except.pure, Except.ok.injEq] at h
        subst h
        rw [ih hrest', hf m m' hm']

theorem applyArgs_plain {c : Cls} (hp : c.elementList = false) {args items : List Node}
    (h : applyArgs S cv c args = .ok items) : items = args := by
  rw [applyArgs, if_neg (by simp [hp])] at h
  apply mapM_same _ h
  intro m m' hm
  cases m with
  | val v => simp [applyArg] at hm
  | agg ci f i =>
    simp only [applyArg] at hm
    split at hm
    · simp only [Except.ok.injEq] at hm; exact hm.symm
    · simp at hm

/-- `ClsFits` without the requirement that the class is a plain aggregate -/
structure ClsFits0 (S : Schema) (name : String) (tbl : List (String × Shape)) (ci : Nat) (c : Cls) : Prop where
  idx : S.findIdx? name.toList = some ci
  cls : S.cls? ci = some c
  nodup : ((specNoList c).map (·.name)).Nodup
  attrs : ∀ k sh, (k, sh) ∈ tbl → ∃ a ∈ specNoList c, a.name = k.toList ∧ Shape.ofKind a.kind = some sh

theorem ClsFits.to0 {S : Schema} {name : String} {tbl : List (String × Shape)} {ci : Nat} {c : Cls}
    (h : ClsFits S name tbl ci c) : ClsFits0 S name tbl ci c := ⟨h.idx, h.cls, h.nodup, h.attrs⟩

theorem kwFit_of0 {name : String} {tbl : List (String × Shape)} {ci : Nat} {c : Cls}
    (hc : ClsFits0 S name tbl ci c) {k : String} {sh : Shape} (hm : (k, sh) ∈ tbl) {v : Node}
    (hv : sh.fits Ptext v) : KwFit c Ptext (kv k v) := by
  obtain ⟨a, ha, hn, hs⟩ := hc.attrs k sh hm
  exact Or.inr ⟨a, ha, hn, sh, hs, hv⟩

/-- the same for any class, `ElementList` included (the list members are whatever `_apply_args` made of `args`):
    **what `Cls(*args, **kw)` holds**, read by attribute access: each attribute is the keyword of that name after a
    faithful conversion (`None` when no keyword of that name was passed); the list members are `args` -/
theorem mk_fields (hcv : ConvOK cv Ptext) {name : String} {tbl : List (String × Shape)} {ci : Nat} {c : Cls}
    (hc : ClsFits0 S name tbl ci c) {args : List Node} {kw : List (Str × Node)} {n : Node}
    (hkw : ∀ p ∈ kw, KwFit c Ptext p) (h : mk S cv name args kw = .ok n) :
    ∃ fields items, n = .agg ci fields items ∧ applyArgs S cv c args = .ok items ∧ isCls S name n = true ∧
      (∀ k : String, fieldVal n k = normNode (kwval kw k.toList)) ∧
      (∀ keep : List String, (∀ p ∈ kw, p.2 = .val .none ∨ p.1 ∈ keep.map String.toList) →
        othersNone keep n = true) := by
  simp only [mk, hc.idx, construct, hc.cls, bind, Except.bind] at h
  split at h
  · simp at h
  split at h
  · simp at h
  rename_i fields hfields
  split at h
  · simp at h
  rename_i items hitems
  split at h
  · simp at h
  simp only [pure, Except.pure, Except.ok.injEq] at h
  subst h
  -- the value stored for attribute `a`
  have hstored : ∀ a ∈ specNoList c, ∀ r, setAttr S cv a (kwval kw a.name) = .ok r →
      (r = none ∧ normNode (kwval kw a.name) = .val .none) ∨ r = some (normNode (kwval kw a.name)) := by
    intro a ha r hr
    cases hl : lookup a.name kw with
    | none =>
      have : kwval kw a.name = .val .none := by simp [kwval, hl]
      rw [this] at hr ⊢
      rcases setAttr_none hcv a r hr with rfl | rfl
      · exact Or.inl ⟨rfl, rfl⟩
      · exact Or.inr rfl
    | some v =>
      have hv : kwval kw a.name = v := by simp [kwval, hl]
      rw [hv] at hr ⊢
      rcases hkw _ (lookup_mem hl) with hnone | ⟨a', ha', hn', sh, hsh, hfit⟩
      · simp only at hnone; subst hnone
        rcases setAttr_none hcv a r hr with rfl | rfl
        · exact Or.inl ⟨rfl, rfl⟩
        · exact Or.inr rfl
      · have : a' = a := nodup_map_inj (·.name) hc.nodup ha' ha hn'
        subst this
        exact Or.inr (setAttr_faithful hcv a' sh v r hsh hfit hr)
  -- a keyword naming no attribute is `None`
  have hnoattr : ∀ k : Str, (¬ ∃ a ∈ specNoList c, a.name = k) → kwval kw k = .val .none := by
    intro k hno
    cases hl : lookup k kw with
    | none => simp [kwval, hl]
    | some v =>
      rcases hkw _ (lookup_mem hl) with hnone | ⟨a', ha', hn', _⟩
      · simp only at hnone; simp [kwval, hl, hnone]
      · exact absurd ⟨a', ha', hn'⟩ hno
  refine ⟨fields, items, rfl, hitems, ?_, ?_, ?_⟩
  · simp [isCls, Node.cls?, hc.idx]
  · intro k
    simp only [fieldVal, Node.fields, getField_eq_lookup]
    by_cases hex : ∃ a ∈ specNoList c, a.name = k.toList
    · obtain ⟨a, ha, hn⟩ := hex
      obtain ⟨r, hr, hl⟩ := setAttrs_lookup (specNoList c) kw fields hfields hc.nodup a ha
      rw [hn] at hl
      rw [hl]
      rcases hstored a ha r hr with ⟨rfl, hnone⟩ | rfl
      · rw [← hn, hnone]
      · simp [hn]
    · rw [setAttrs_lookup_none (specNoList c) kw fields hfields k.toList (fun a ha hn => hex ⟨a, ha, hn⟩),
        hnoattr _ hex]
      rfl
  · intro keep hkeep
    simp only [othersNone, Node.fields, List.all_eq_true, Bool.or_eq_true, List.any_eq_true, beq_iff_eq]
    intro p hp
    obtain ⟨a, ha, hn, hs⟩ := setAttrs_mem (specNoList c) kw fields hfields p.1 p.2 hp
    by_cases hin : p.1 ∈ keep.map String.toList
    · obtain ⟨k, hk, hkk⟩ := List.mem_map.mp hin
      exact Or.inl ⟨k, hk, hkk⟩
    · right
      have hnone : kwval kw p.1 = .val .none := by
        cases hl : lookup p.1 kw with
        | none => simp [kwval, hl]
        | some v =>
          rcases hkeep _ (lookup_mem hl) with h1 | h1
          · simp only at h1; simp [kwval, hl, h1]
          · exact absurd h1 hin
      rw [← hn] at hs hnone
      rcases hstored a ha _ hs with ⟨h1, _⟩ | h1
      · simp at h1
      · simp only [Option.some.injEq] at h1
        rw [h1, hnone]; rfl

/-- **what `Cls(*args, **kw)` holds**, read by attribute access: each attribute is the keyword of that name after a
    faithful conversion (`None` when no keyword of that name was passed); the list members are `args` -/
theorem mk_spec (hcv : ConvOK cv Ptext) {name : String} {tbl : List (String × Shape)} {ci : Nat} {c : Cls}
    (hc : ClsFits S name tbl ci c) {args : List Node} {kw : List (Str × Node)} {n : Node}
    (hkw : ∀ p ∈ kw, KwFit c Ptext p) (h : mk S cv name args kw = .ok n) :
    ∃ fields, n = .agg ci fields args ∧ isCls S name n = true ∧
      (∀ k : String, fieldVal n k = normNode (kwval kw k.toList)) ∧
      (∀ keep : List String, (∀ p ∈ kw, p.2 = .val .none ∨ p.1 ∈ keep.map String.toList) →
        othersNone keep n = true) := by
  simp only [mk, hc.idx, construct, hc.cls, bind, Except.bind] at h
  split at h
  · simp at h
  split at h
  · simp at h
  rename_i fields hfields
  split at h
  · simp at h
  rename_i items hitems
  split at h
  · simp at h
  simp only [pure, Except.pure, Except.ok.injEq] at h
  subst h
  have hitems := applyArgs_plain hc.plain hitems
  subst hitems
  -- the value stored for attribute `a`
  have hstored : ∀ a ∈ specNoList c, ∀ r, setAttr S cv a (kwval kw a.name) = .ok r →
      (r = none ∧ normNode (kwval kw a.name) = .val .none) ∨ r = some (normNode (kwval kw a.name)) := by
    intro a ha r hr
    cases hl : lookup a.name kw with
    | none =>
      have : kwval kw a.name = .val .none := by simp [kwval, hl]
      rw [this] at hr ⊢
      rcases setAttr_none hcv a r hr with rfl | rfl
      · exact Or.inl ⟨rfl, rfl⟩
      · exact Or.inr rfl
    | some v =>
      have hv : kwval kw a.name = v := by simp [kwval, hl]
      rw [hv] at hr ⊢
      rcases hkw _ (lookup_mem hl) with hnone | ⟨a', ha', hn', sh, hsh, hfit⟩
      · simp only at hnone; subst hnone
        rcases setAttr_none hcv a r hr with rfl | rfl
        · exact Or.inl ⟨rfl, rfl⟩
        · exact Or.inr rfl
      · have : a' = a := nodup_map_inj (·.name) hc.nodup ha' ha hn'
        subst this
        exact Or.inr (setAttr_faithful hcv a' sh v r hsh hfit hr)
  -- a keyword naming no attribute is `None`
  have hnoattr : ∀ k : Str, (¬ ∃ a ∈ specNoList c, a.name = k) → kwval kw k = .val .none := by
    intro k hno
    cases hl : lookup k kw with
    | none => simp [kwval, hl]
    | some v =>
      rcases hkw _ (lookup_mem hl) with hnone | ⟨a', ha', hn', _⟩
      · simp only at hnone; simp [kwval, hl, hnone]
      · exact absurd ⟨a', ha', hn'⟩ hno
  refine ⟨fields, rfl, ?_, ?_, ?_⟩
  · simp [isCls, Node.cls?, hc.idx]
  · intro k
    simp only [fieldVal, Node.fields, getField_eq_lookup]
    by_cases hex : ∃ a ∈ specNoList c, a.name = k.toList
    · obtain ⟨a, ha, hn⟩ := hex
      obtain ⟨r, hr, hl⟩ := setAttrs_lookup (specNoList c) kw fields hfields hc.nodup a ha
      rw [hn] at hl
      rw [hl]
      rcases hstored a ha r hr with ⟨rfl, hnone⟩ | rfl
      · rw [← hn, hnone]
      · simp [hn]
    · rw [setAttrs_lookup_none (specNoList c) kw fields hfields k.toList (fun a ha hn => hex ⟨a, ha, hn⟩),
        hnoattr _ hex]
      rfl
  · intro keep hkeep
    simp only [othersNone, Node.fields, List.all_eq_true, Bool.or_eq_true, List.any_eq_true, beq_iff_eq]
    intro p hp
    obtain ⟨a, ha, hn, hs⟩ := setAttrs_mem (specNoList c) kw fields hfields p.1 p.2 hp
    by_cases hin : p.1 ∈ keep.map String.toList
    · obtain ⟨k, hk, hkk⟩ := List.mem_map.mp hin
      exact Or.inl ⟨k, hk, hkk⟩
    · right
      have hnone : kwval kw p.1 = .val .none := by
        cases hl : lookup p.1 kw with
        | none => simp [kwval, hl]
        | some v =>
          rcases hkeep _ (lookup_mem hl) with h1 | h1
          · simp only at h1; simp [kwval, hl, h1]
          · exact absurd h1 hin
      rw [← hn] at hs hnone
      rcases hstored a ha _ hs with ⟨h1, _⟩ | h1
      · simp at h1
      · simp only [Option.some.injEq] at h1
        rw [h1, hnone]; rfl

end
/-! ## Part 3: the schema facts the client relies on (`ReqWF`), a decidable predicate on the schema -/

/-- for each class the client instantiates: the keywords it passes and the shape of value passed -/
abbrev tFI : List (String × Shape) :=
  [("org", .text), ("fid", .text)]
abbrev tSONRQ : List (String × Shape) :=
  [("dtclient", .date), ("userid", .text), ("userpass", .text), ("language", .text), ("fi", .sub),
   ("appid", .text), ("appver", .text), ("clientuid", .text)]
abbrev tSIGNONMSGS : List (String × Shape) :=
  [("sonrq", .sub)]
abbrev tBANKACCT : List (String × Shape) :=
  [("bankid", .text), ("acctid", .text), ("accttype", .text)]
abbrev tCCACCT : List (String × Shape) :=
  [("acctid", .text)]
abbrev tINVACCT : List (String × Shape) :=
  [("acctid", .text), ("brokerid", .text)]
abbrev tINCTRAN : List (String × Shape) :=
  [("dtstart", .date), ("dtend", .date), ("include", .flag)]
abbrev tINCPOS : List (String × Shape) :=
  [("dtasof", .date), ("include", .flag)]
abbrev tSTMTRQ : List (String × Shape) :=
  [("bankacctfrom", .sub), ("inctran", .sub)]
abbrev tSTMTENDRQ : List (String × Shape) :=
  [("bankacctfrom", .sub), ("dtstart", .date), ("dtend", .date)]
abbrev tCCSTMTRQ : List (String × Shape) :=
  [("ccacctfrom", .sub), ("inctran", .sub)]
abbrev tCCSTMTENDRQ : List (String × Shape) :=
  [("ccacctfrom", .sub), ("dtstart", .date), ("dtend", .date)]
abbrev tINVSTMTRQ : List (String × Shape) :=
  [("invacctfrom", .sub), ("inctran", .sub), ("incoo", .flag), ("incpos", .sub), ("incbal", .flag)]
abbrev tSTMTTRNRQ : List (String × Shape) :=
  [("trnuid", .text), ("stmtrq", .sub)]
abbrev tSTMTENDTRNRQ : List (String × Shape) :=
  [("trnuid", .text), ("stmtendrq", .sub)]
abbrev tCCSTMTTRNRQ : List (String × Shape) :=
  [("trnuid", .text), ("ccstmtrq", .sub)]
abbrev tCCSTMTENDTRNRQ : List (String × Shape) :=
  [("trnuid", .text), ("ccstmtendrq", .sub)]
abbrev tINVSTMTTRNRQ : List (String × Shape) :=
  [("trnuid", .text), ("invstmtrq", .sub)]
abbrev tMSGS : List (String × Shape) :=
  []
abbrev tOFX : List (String × Shape) :=
  [("signonmsgsrqv1", .sub), ("bankmsgsrqv1", .sub), ("creditcardmsgsrqv1", .sub),
   ("invstmtmsgsrqv1", .sub), ("signupmsgsrqv1", .sub), ("profmsgsrqv1", .sub), ("tax1099msgsrqv1", .sub)]
abbrev tACCTINFORQ : List (String × Shape) :=
  [("dtacctup", .date)]
abbrev tACCTINFOTRNRQ : List (String × Shape) :=
  [("trnuid", .text), ("acctinforq", .sub)]
abbrev tPROFRQ : List (String × Shape) :=
  [("clientrouting", .text), ("dtprofup", .date)]
abbrev tPROFTRNRQ : List (String × Shape) :=
  [("trnuid", .text), ("profrq", .sub)]
abbrev tTAXTRNRQ : List (String × Shape) :=
  [("trnuid", .text), ("tax1099rq", .sub)]
abbrev tTAXRQ : List (String × Shape) :=
  [("acctnum", .text), ("recid", .text)]

def reqTable : List (String × List (String × Shape)) :=
  [("FI", tFI),
   ("SONRQ", tSONRQ),
   ("SIGNONMSGSRQV1", tSIGNONMSGS),
   ("BANKACCTFROM", tBANKACCT),
   ("CCACCTFROM", tCCACCT),
   ("INVACCTFROM", tINVACCT),
   ("INCTRAN", tINCTRAN),
   ("INCPOS", tINCPOS),
   ("STMTRQ", tSTMTRQ),
   ("STMTENDRQ", tSTMTENDRQ),
   ("CCSTMTRQ", tCCSTMTRQ),
   ("CCSTMTENDRQ", tCCSTMTENDRQ),
   ("INVSTMTRQ", tINVSTMTRQ),
   ("STMTTRNRQ", tSTMTTRNRQ),
   ("STMTENDTRNRQ", tSTMTENDTRNRQ),
   ("CCSTMTTRNRQ", tCCSTMTTRNRQ),
   ("CCSTMTENDTRNRQ", tCCSTMTENDTRNRQ),
   ("INVSTMTTRNRQ", tINVSTMTTRNRQ),
   ("BANKMSGSRQV1", tMSGS),
   ("CREDITCARDMSGSRQV1", tMSGS),
   ("INVSTMTMSGSRQV1", tMSGS),
   ("OFX", tOFX),
   ("ACCTINFORQ", tACCTINFORQ),
   ("ACCTINFOTRNRQ", tACCTINFOTRNRQ),
   ("SIGNUPMSGSRQV1", tMSGS),
   ("PROFRQ", tPROFRQ),
   ("PROFTRNRQ", tPROFTRNRQ),
   ("PROFMSGSRQV1", tMSGS),
   ("TAX1099MSGSRQV1", tMSGS),
   ("TAX1099TRNRQ", tTAXTRNRQ)]

def clsFitsB (S : Schema) (name : String) (tbl : List (String × Shape)) : Bool :=
  match S.findIdx? name.toList with
  | none => false
  | some ci =>
    match S.cls? ci with
    | none => false
    | some c =>
      !c.elementList && nodupB ((specNoList c).map (·.name)) &&
        tbl.all (fun p => (specNoList c).any (fun a => decide (a.name = p.1.toList) && decide (Shape.ofKind a.kind = some p.2)))

/-- the classes the client instantiates exist under their names, are plain aggregates with distinct attribute names,
    and have the attributes the client sets, of the kind of value it passes -/
def ReqWF (S : Schema) : Bool := reqTable.all (fun p => clsFitsB S p.1 p.2)

theorem nodupB_nodup {α : Type} [DecidableEq α] (l : List α) (h : nodupB l = true) : l.Nodup := by
  induction l with
  | nil => exact List.nodup_nil
  | cons a l ih =>
    simp only [nodupB, Bool.and_eq_true, Bool.not_eq_eq_eq_not, Bool.not_true, List.contains_eq_mem,
      decide_eq_false_iff_not] at h
    exact List.nodup_cons.mpr ⟨h.1, ih h.2⟩

theorem clsFits_of {S : Schema} {name : String} {tbl : List (String × Shape)} (h : clsFitsB S name tbl = true) :
    ∃ ci c, ClsFits S name tbl ci c := by
  unfold clsFitsB at h
  split at h
  · simp at h
  rename_i ci hci
  split at h
  · simp at h
  rename_i c hc
  simp only [Bool.and_eq_true, Bool.not_eq_eq_eq_not, Bool.not_true, List.all_eq_true, List.any_eq_true,
    decide_eq_true_eq] at h
  refine ⟨ci, c, hci, hc, h.1.1, nodupB_nodup _ h.1.2, ?_⟩
  intro k sh hm
  obtain ⟨a, ha, hn, hs⟩ := h.2 (k, sh) hm
  exact ⟨a, ha, hn, hs⟩

theorem reqWF_cls {S : Schema} (h : ReqWF S = true) {name : String} {tbl : List (String × Shape)}
    (hm : (name, tbl) ∈ reqTable) : ∃ ci c, ClsFits S name tbl ci c := by
  simp only [ReqWF, List.all_eq_true] at h
  exact clsFits_of (h (name, tbl) hm)

/-! ## Part 4: the builders -/

section
variable {S : Schema} {cv : Conv} {Ptext : Str → Prop}

theorem bind_ok {α β : Type} {x : PyM α} {f : α → PyM β} {b : β} (h : (x >>= f) = .ok b) :
    ∃ a, x = .ok a ∧ f a = .ok b := by
  cases x with
  | error e => simp [bind, Except.bind] at h
  | ok a => exact ⟨a, rfl, by simpa [bind, Except.bind] using h⟩

@[simp] theorem normNode_agg (ci : Nat) (f : List (Str × Node)) (i : List Node) :
    normNode (.agg ci f i) = .agg ci f i := rfl
@[simp] theorem normNode_none : normNode (.val .none) = .val .none := rfl

theorem forall_kw_nil (P : Str × Node → Prop) : ∀ p ∈ ([] : List (Str × Node)), P p := by simp
theorem forall_kw_cons {P : Str × Node → Prop} {a : Str × Node} {l : List (Str × Node)} (ha : P a)
    (hl : ∀ p ∈ l, P p) : ∀ p ∈ a :: l, P p := by
  intro p hp
  rcases List.mem_cons.mp hp with rfl | hp
  · exact ha
  · exact hl p hp

theorem fits_osv {o : Option Str} (h : ∀ s, o = some s → Ptext s) : Shape.text.fits Ptext (osv o) := by
  cases o with
  | none => simp [osv, Shape.fits]
  | some s => simpa [osv, Shape.fits] using h s rfl
theorem fits_sv {s : Str} (h : Ptext s) : Shape.text.fits Ptext (sv s) := by simpa [sv, Shape.fits] using h
theorem fits_odt (o : Option DT) : Shape.date.fits Ptext (odt o) := by cases o <;> simp [odt, Shape.fits]
theorem fits_dt (d : DT) : Shape.date.fits Ptext (.val (.dt d)) := by simp [Shape.fits]
theorem fits_obv (o : Option Bool) : Shape.flag.fits Ptext (obv o) := by cases o <;> simp [obv, Shape.fits]
theorem fits_agg (ci : Nat) (f : List (Str × Node)) (i : List Node) : Shape.sub.fits Ptext (.agg ci f i) := by
  simp [Shape.fits]
theorem fits_none (sh : Shape) : sh.fits Ptext (.val .none) := by cases sh <;> simp [Shape.fits]

theorem want_ostr (o : Option Str) : Want.ok (.ostr o) (normNode (osv o)) = true := by
  cases o with
  | none => simp [osv, normNode, norm, Want.ok, emptyAsNone]
  | some s =>
    cases s with
    | nil => simp [osv, normNode, norm, Want.ok, emptyAsNone]
    | cons c cs => simp [osv, normNode, norm, Want.ok, emptyAsNone]
theorem want_sv (s : Str) : Want.ok (.ostr (some s)) (normNode (sv s)) = true := want_ostr (some s)
theorem want_date (o : Option DT) : Want.ok (.date o) (normNode (odt o)) = true := by
  cases o <;> simp [odt, normNode, norm, Want.ok, dtSame]
theorem want_dt (d : DT) : Want.ok (.date (some d)) (normNode (.val (.dt d))) = true := want_date (some d)
theorem want_bool (o : Option Bool) : Want.ok (.bool o) (normNode (obv o)) = true := by
  cases o <;> simp [obv, normNode, norm, Want.ok]
@[simp] theorem want_absent : Want.ok .absent (.val .none) = true := rfl
theorem want_anyStr {s : Str} (h : s ≠ []) : Want.ok .anyStr (normNode (sv s)) = true := by
  cases s with
  | nil => exact absurd rfl h
  | cons c cs => simp [sv, normNode, norm, Want.ok]

/-- all the texts of a configuration -/
def Cfg.texts (cfg : Cfg) : List Str :=
  [cfg.userid, cfg.appid, cfg.appver, cfg.language] ++ cfg.clientuid.toList ++ cfg.org.toList ++ cfg.fid.toList
    ++ cfg.bankid.toList ++ cfg.brokerid.toList

/-- `signon` places exactly what `expSonrq` describes: every clause of the sign-on part of `RequestSpec` holds -/
theorem signon_spec (hS : ReqWF S = true) (hcv : ConvOK cv Ptext) (cfg : Cfg) (userpass : Str)
    (userid : Option Str) (dtclient : DT) (htexts : ∀ s ∈ cfg.texts, Ptext s) (hpw : Ptext userpass)
    (huid : ∀ s, userid = some s → Ptext s) {so : Node}
    (h : signon S cv cfg userpass userid dtclient = .ok so) :
    signonClauses S cfg (orDefault userid cfg.userid) userpass dtclient so = [] ∧
      ∃ ci f, so = .agg ci f [] := by
  obtain ⟨ciF, cF, hcF⟩ := reqWF_cls hS (name := "FI") (tbl := tFI) (by simp [reqTable])
  obtain ⟨ciS, cS, hcS⟩ := reqWF_cls hS (name := "SONRQ") (tbl := tSONRQ) (by simp [reqTable])
  obtain ⟨ciM, cM, hcM⟩ := reqWF_cls hS (name := "SIGNONMSGSRQV1") (tbl := tSIGNONMSGS) (by simp [reqTable])
  simp only [Cfg.texts, List.mem_append, List.mem_cons, Option.mem_toList, List.mem_nil_iff, or_false] at htexts
  have huid' : Ptext (orDefault userid cfg.userid) := by
    cases userid with
    | none => exact htexts _ (by simp [orDefault])
    | some u => exact huid u rfl
  rw [signon] at h
  obtain ⟨fi, hfi, h⟩ := bind_ok h
  obtain ⟨sonrq, hsonrq, h⟩ := bind_ok h
  have hfi' : (wantFi cfg).ok S fi = true ∧ (fi = .val .none ∨ ∃ ci f, fi = .agg ci f []) := by
    rw [fiNode] at hfi
    by_cases horg : orgSet cfg = true
    · rw [if_pos horg] at hfi
      obtain ⟨fields, rfl, hcls, hfv, hoth⟩ := mk_spec hcv hcF
        (forall_kw_cons (kwFit_of hcF (k := "org") (sh := .text) (by simp) (fits_osv (fun s hs => htexts s (by simp [hs]))))
          (forall_kw_cons (kwFit_of hcF (k := "fid") (sh := .text) (by simp) (fits_osv (fun s hs => htexts s (by simp [hs]))))
            (forall_kw_nil _))) hfi
      refine ⟨?_, Or.inr ⟨_, _, rfl⟩⟩
      have ho := hoth ["org", "fid"] (by simp [kv])
      simp [wantFi, horg, Exp.ok, fieldsOk, fieldNames, all2, hcls, hfv, ho, Node.items, kwval, lookup, kv,
        want_ostr]
    · rw [if_neg horg] at hfi
      simp only [pure, Except.pure, Except.ok.injEq] at hfi
      subst hfi
      refine ⟨?_, Or.inl rfl⟩
      simp [wantFi, horg, Exp.ok, Want.ok]
  have hfifit : Shape.sub.fits Ptext fi := by
    rcases hfi'.2 with rfl | ⟨ci, f, rfl⟩ <;> simp [Shape.fits]
  have hfinorm : normNode fi = fi := by
    rcases hfi'.2 with rfl | ⟨ci, f, rfl⟩ <;> simp [normNode, norm]
  have hcu : ∀ s, (if cfg.version < 103 then none else cfg.clientuid) = some s → Ptext s := by
    intro s hs
    split at hs
    · simp at hs
    · exact htexts s (by simp [hs])
  obtain ⟨fS, rfl, hclsS, hfvS, hothS⟩ := mk_spec hcv hcS
    (forall_kw_cons (kwFit_of hcS (k := "dtclient") (sh := .date) (by simp) (fits_dt _))
    (forall_kw_cons (kwFit_of hcS (k := "userid") (sh := .text) (by simp) (fits_sv huid'))
    (forall_kw_cons (kwFit_of hcS (k := "userpass") (sh := .text) (by simp) (fits_sv hpw))
    (forall_kw_cons (kwFit_of hcS (k := "language") (sh := .text) (by simp) (fits_sv (htexts _ (by simp))))
    (forall_kw_cons (kwFit_of hcS (k := "fi") (sh := .sub) (by simp) hfifit)
    (forall_kw_cons (Or.inl rfl)
    (forall_kw_cons (kwFit_of hcS (k := "appid") (sh := .text) (by simp) (fits_sv (htexts _ (by simp))))
    (forall_kw_cons (kwFit_of hcS (k := "appver") (sh := .text) (by simp) (fits_sv (htexts _ (by simp))))
    (forall_kw_cons (kwFit_of hcS (k := "clientuid") (sh := .text) (by simp) (fits_osv hcu))
    (forall_kw_nil _)))))))))) hsonrq
  obtain ⟨fM, rfl, hclsM, hfvM, hothM⟩ := mk_spec hcv hcM
    (forall_kw_cons (kwFit_of hcM (k := "sonrq") (sh := .sub) (by simp) (fits_agg _ _ _)) (forall_kw_nil _)) h
  refine ⟨?_, _, _, rfl⟩
  have hoM := hothM ["sonrq"] (by simp [kv])
  have hoS := hothS ["dtclient", "userid", "userpass", "language", "fi", "appid", "appver", "clientuid"]
    (by simp [kv])
  have hcuw : (wantClientuid cfg).ok (normNode (osv (if cfg.version < 103 then none else cfg.clientuid))) = true := by
    unfold wantClientuid
    by_cases hv : cfg.version < 103
    · have : ¬ cfg.version ≥ 103 := by omega
      simp [hv, this, osv, want_absent]
    · have : cfg.version ≥ 103 := by omega
      simp [hv, this, want_ostr]
  simp [signonClauses, clause, expSonrq, fieldNames, Exp.ok, hclsM, hoM, hfvM, kwval, lookup, kv,
    hclsS, Node.items, hfvS, hoS, want_sv, want_dt, hcuw, hfinorm, hfi'.1]

theorem bankacct_spec (hS : ReqWF S = true) (hcv : ConvOK cv Ptext) (cfg : Cfg) (acctid accttype : Option Str)
    (hb : ∀ s, cfg.bankid = some s → Ptext s) (ha : ∀ s, acctid = some s → Ptext s)
    (ht : ∀ s, accttype = some s → Ptext s) {n : Node}
    (h : mk S cv "BANKACCTFROM" [] [kv "bankid" (osv cfg.bankid), kv "acctid" (osv acctid),
      kv "accttype" (osv accttype)] = .ok n) :
    (expBankAcct cfg acctid accttype).ok S n = true ∧ ∃ ci f, n = .agg ci f [] := by
  obtain ⟨ci, c, hc⟩ := reqWF_cls hS (name := "BANKACCTFROM") (tbl := tBANKACCT) (by simp [reqTable])
  obtain ⟨f, rfl, hcls, hfv, hoth⟩ := mk_spec hcv hc
    (forall_kw_cons (kwFit_of hc (k := "bankid") (sh := .text) (by simp) (fits_osv hb))
    (forall_kw_cons (kwFit_of hc (k := "acctid") (sh := .text) (by simp) (fits_osv ha))
    (forall_kw_cons (kwFit_of hc (k := "accttype") (sh := .text) (by simp) (fits_osv ht))
    (forall_kw_nil _)))) h
  refine ⟨?_, _, _, rfl⟩
  have ho := hoth ["bankid", "acctid", "accttype"] (by simp [kv])
  simp [expBankAcct, Exp.ok, fieldsOk, fieldNames, all2, hcls, hfv, ho, Node.items, kwval, lookup, kv, want_ostr]

theorem ccacct_spec (hS : ReqWF S = true) (hcv : ConvOK cv Ptext) (acctid : Option Str)
    (ha : ∀ s, acctid = some s → Ptext s) {n : Node}
    (h : mk S cv "CCACCTFROM" [] [kv "acctid" (osv acctid)] = .ok n) :
    (expCcAcct acctid).ok S n = true ∧ ∃ ci f, n = .agg ci f [] := by
  obtain ⟨ci, c, hc⟩ := reqWF_cls hS (name := "CCACCTFROM") (tbl := tCCACCT) (by simp [reqTable])
  obtain ⟨f, rfl, hcls, hfv, hoth⟩ := mk_spec hcv hc
    (forall_kw_cons (kwFit_of hc (k := "acctid") (sh := .text) (by simp) (fits_osv ha)) (forall_kw_nil _)) h
  refine ⟨?_, _, _, rfl⟩
  have ho := hoth ["acctid"] (by simp [kv])
  simp [expCcAcct, Exp.ok, fieldsOk, fieldNames, all2, hcls, hfv, ho, Node.items, kwval, lookup, kv, want_ostr]

theorem inctran_spec (hS : ReqWF S = true) (hcv : ConvOK cv Ptext) (dtstart dtend : Option DT)
    (inctran : Option Bool) {n : Node}
    (h : mk S cv "INCTRAN" [] [kv "dtstart" (odt dtstart), kv "dtend" (odt dtend), kv "include" (obv inctran)]
      = .ok n) :
    (expInctran dtstart dtend inctran).ok S n = true ∧ ∃ ci f, n = .agg ci f [] := by
  obtain ⟨ci, c, hc⟩ := reqWF_cls hS (name := "INCTRAN") (tbl := tINCTRAN) (by simp [reqTable])
  obtain ⟨f, rfl, hcls, hfv, hoth⟩ := mk_spec hcv hc
    (forall_kw_cons (kwFit_of hc (k := "dtstart") (sh := .date) (by simp) (fits_odt _))
    (forall_kw_cons (kwFit_of hc (k := "dtend") (sh := .date) (by simp) (fits_odt _))
    (forall_kw_cons (kwFit_of hc (k := "include") (sh := .flag) (by simp) (fits_obv _))
    (forall_kw_nil _)))) h
  refine ⟨?_, _, _, rfl⟩
  have ho := hoth ["dtstart", "dtend", "include"] (by simp [kv])
  simp [expInctran, Exp.ok, fieldsOk, fieldNames, all2, hcls, hfv, ho, Node.items, kwval, lookup, kv, want_date,
    want_bool]

/-- a transaction wrapper `NAME(trnuid=uuid, <inner>=rq)` around an already-built request aggregate -/
theorem trnrq_spec (hS : ReqWF S = true) (hcv : ConvOK cv Ptext) {name inner : String}
    {tbl : List (String × Shape)} (hm : (name, tbl) ∈ reqTable) (h1 : ("trnuid", Shape.text) ∈ tbl)
    (h2 : (inner, Shape.sub) ∈ tbl) (hne1 : inner ≠ "trnuid") {uuid : Str} (hu : Ptext uuid) (hne : uuid ≠ [])
    {ci' : Nat} {f' : List (Str × Node)} {i' : List Node} {e : Exp} (he : e.ok S (.agg ci' f' i') = true) {w : Node}
    (h : mk S cv name [] [kv "trnuid" (sv uuid), kv inner (.agg ci' f' i')] = .ok w) :
    (Exp.agg name [("trnuid", .leaf .anyStr), (inner, e)] []).ok S w = true ∧ isCls S name w = true ∧
      fieldVal w "trnuid" = .val (.str uuid) := by
  obtain ⟨ci, c, hc⟩ := reqWF_cls hS hm
  obtain ⟨f, rfl, hcls, hfv, hoth⟩ := mk_spec hcv hc
    (forall_kw_cons (kwFit_of hc (k := "trnuid") (sh := .text) h1 (fits_sv hu))
    (forall_kw_cons (kwFit_of hc (k := inner) (sh := .sub) h2 (fits_agg _ _ _))
    (forall_kw_nil _))) h
  have ho := hoth ["trnuid", inner] (by simp [kv])
  have hin : inner.toList ≠ "trnuid".toList := fun e => hne1 (String.toList_inj.mp e)
  have htr : fieldVal (Node.agg ci f []) "trnuid" = .val (.str uuid) := by
    rw [hfv]
    cases uuid with
    | nil => exact absurd rfl hne
    | cons c cs => simp [kwval, lookup, kv, sv, normNode, norm]
  refine ⟨?_, hcls, htr⟩
  have hin' : "trnuid".toList ≠ inner.toList := fun e => hin e.symm
  have hinner : fieldVal (Node.agg ci f []) inner = .agg ci' f' i' := by
    rw [hfv]
    simp only [kwval, lookup, kv, if_neg hin', if_true, Option.getD_some, normNode_agg]
  have hany : Want.ok .anyStr (.val (.str uuid)) = true := by
    cases uuid with
    | nil => exact absurd rfl hne
    | cons c cs => simp [Want.ok]
  simp [Exp.ok, fieldsOk, fieldNames, all2, hcls, ho, Node.items, htr, hinner, he, hany]

/-- the texts of a request -/
def Req.texts : Req → List Str
  | .stmt a t _ _ _ => a.toList ++ t.toList
  | .ccStmt a _ _ _ => a.toList
  | .invStmt a _ _ _ _ _ _ _ => a.toList
  | .stmtEnd a t _ _ => a.toList ++ t.toList
  | .ccStmtEnd a _ _ => a.toList

/-- **field placement**: the wrapper built for a request is of the wrapper class of its kind, carries the uuid it
    was given as TRNUID, and contains exactly what `expWrapper` says -/
theorem wrap_spec (hS : ReqWF S = true) (hcv : ConvOK cv Ptext) (cfg : Cfg) (rq : Req) (uuid : Str)
    (htexts : ∀ s ∈ cfg.texts, Ptext s) (hrq : ∀ s ∈ rq.texts, Ptext s) (hu : Ptext uuid) (hne : uuid ≠ [])
    {w : Node} (h : wrap S cv cfg rq uuid = .ok w) :
    (expWrapper cfg rq).ok S w = true ∧ isWrapper S rq.kind w = true ∧
      fieldVal w "trnuid" = .val (.str uuid) := by
  simp only [Cfg.texts, List.mem_append, List.mem_cons, Option.mem_toList, List.mem_nil_iff, or_false] at htexts
  have hbank : ∀ s, cfg.bankid = some s → Ptext s := fun s hs => htexts s (by simp [hs])
  have hbroker : ∀ s, cfg.brokerid = some s → Ptext s := fun s hs => htexts s (by simp [hs])
  cases rq with
  | stmt acctid accttype dtstart dtend inctran =>
    simp only [Req.texts, List.mem_append, Option.mem_toList] at hrq
    simp only [wrap, stmttrnrq] at h
    obtain ⟨acct, hacct, h⟩ := bind_ok h
    obtain ⟨inc, hinc, h⟩ := bind_ok h
    obtain ⟨rq, hrq', h⟩ := bind_ok h
    obtain ⟨hacctok, cia, fa, rfl⟩ := bankacct_spec hS hcv cfg acctid accttype hbank
      (fun s hs => hrq s (Or.inl hs)) (fun s hs => hrq s (Or.inr hs)) hacct
    obtain ⟨hincok, cii, fi, rfl⟩ := inctran_spec hS hcv dtstart dtend inctran hinc
    obtain ⟨ci, c, hc⟩ := reqWF_cls hS (name := "STMTRQ") (tbl := tSTMTRQ) (by simp [reqTable])
    obtain ⟨f, rfl, hcls, hfv, hoth⟩ := mk_spec hcv hc
      (forall_kw_cons (kwFit_of hc (k := "bankacctfrom") (sh := .sub) (by simp) (fits_agg _ _ _))
      (forall_kw_cons (kwFit_of hc (k := "inctran") (sh := .sub) (by simp) (fits_agg _ _ _))
      (forall_kw_nil _))) hrq'
    have ho := hoth ["bankacctfrom", "inctran"] (by simp [kv])
    have he : (Exp.agg "STMTRQ" [("bankacctfrom", expBankAcct cfg acctid accttype),
        ("inctran", expInctran dtstart dtend inctran)] []).ok S (.agg ci f []) = true := by
      simp [Exp.ok, fieldsOk, fieldNames, all2, hcls, hfv, ho, Node.items, kwval, lookup, kv, hacctok, hincok]
    exact trnrq_spec hS hcv (name := "STMTTRNRQ") (inner := "stmtrq") (tbl := tSTMTTRNRQ) (by simp [reqTable])
      (by simp) (by simp) (by decide) hu hne he h
  | stmtEnd acctid accttype dtstart dtend =>
    simp only [Req.texts, List.mem_append, Option.mem_toList] at hrq
    simp only [wrap, stmtendtrnrq] at h
    obtain ⟨acct, hacct, h⟩ := bind_ok h
    obtain ⟨rq, hrq', h⟩ := bind_ok h
    obtain ⟨hacctok, cia, fa, rfl⟩ := bankacct_spec hS hcv cfg acctid accttype hbank
      (fun s hs => hrq s (Or.inl hs)) (fun s hs => hrq s (Or.inr hs)) hacct
    obtain ⟨ci, c, hc⟩ := reqWF_cls hS (name := "STMTENDRQ") (tbl := tSTMTENDRQ) (by simp [reqTable])
    obtain ⟨f, rfl, hcls, hfv, hoth⟩ := mk_spec hcv hc
      (forall_kw_cons (kwFit_of hc (k := "bankacctfrom") (sh := .sub) (by simp) (fits_agg _ _ _))
      (forall_kw_cons (kwFit_of hc (k := "dtstart") (sh := .date) (by simp) (fits_odt _))
      (forall_kw_cons (kwFit_of hc (k := "dtend") (sh := .date) (by simp) (fits_odt _))
      (forall_kw_nil _)))) hrq'
    have ho := hoth ["bankacctfrom", "dtstart", "dtend"] (by simp [kv])
    have he : (Exp.agg "STMTENDRQ" [("bankacctfrom", expBankAcct cfg acctid accttype),
        ("dtstart", .leaf (.date dtstart)), ("dtend", .leaf (.date dtend))] []).ok S (.agg ci f []) = true := by
      simp [Exp.ok, fieldsOk, fieldNames, all2, hcls, hfv, ho, Node.items, kwval, lookup, kv, hacctok, want_date]
    exact trnrq_spec hS hcv (name := "STMTENDTRNRQ") (inner := "stmtendrq") (tbl := tSTMTENDTRNRQ)
      (by simp [reqTable]) (by simp) (by simp) (by decide) hu hne he h
  | ccStmt acctid dtstart dtend inctran =>
    simp only [Req.texts, Option.mem_toList] at hrq
    simp only [wrap, ccstmttrnrq] at h
    obtain ⟨acct, hacct, h⟩ := bind_ok h
    obtain ⟨inc, hinc, h⟩ := bind_ok h
    obtain ⟨rq, hrq', h⟩ := bind_ok h
    obtain ⟨hacctok, cia, fa, rfl⟩ := ccacct_spec hS hcv acctid (fun s hs => hrq s hs) hacct
    obtain ⟨hincok, cii, fi, rfl⟩ := inctran_spec hS hcv dtstart dtend inctran hinc
    obtain ⟨ci, c, hc⟩ := reqWF_cls hS (name := "CCSTMTRQ") (tbl := tCCSTMTRQ) (by simp [reqTable])
    obtain ⟨f, rfl, hcls, hfv, hoth⟩ := mk_spec hcv hc
      (forall_kw_cons (kwFit_of hc (k := "ccacctfrom") (sh := .sub) (by simp) (fits_agg _ _ _))
      (forall_kw_cons (kwFit_of hc (k := "inctran") (sh := .sub) (by simp) (fits_agg _ _ _))
      (forall_kw_nil _))) hrq'
    have ho := hoth ["ccacctfrom", "inctran"] (by simp [kv])
    have he : (Exp.agg "CCSTMTRQ" [("ccacctfrom", expCcAcct acctid),
        ("inctran", expInctran dtstart dtend inctran)] []).ok S (.agg ci f []) = true := by
      simp [Exp.ok, fieldsOk, fieldNames, all2, hcls, hfv, ho, Node.items, kwval, lookup, kv, hacctok, hincok]
    exact trnrq_spec hS hcv (name := "CCSTMTTRNRQ") (inner := "ccstmtrq") (tbl := tCCSTMTTRNRQ)
      (by simp [reqTable]) (by simp) (by simp) (by decide) hu hne he h
  | ccStmtEnd acctid dtstart dtend =>
    simp only [Req.texts, Option.mem_toList] at hrq
    simp only [wrap, ccstmtendtrnrq] at h
    obtain ⟨acct, hacct, h⟩ := bind_ok h
    obtain ⟨rq, hrq', h⟩ := bind_ok h
    obtain ⟨hacctok, cia, fa, rfl⟩ := ccacct_spec hS hcv acctid (fun s hs => hrq s hs) hacct
    obtain ⟨ci, c, hc⟩ := reqWF_cls hS (name := "CCSTMTENDRQ") (tbl := tCCSTMTENDRQ) (by simp [reqTable])
    obtain ⟨f, rfl, hcls, hfv, hoth⟩ := mk_spec hcv hc
      (forall_kw_cons (kwFit_of hc (k := "ccacctfrom") (sh := .sub) (by simp) (fits_agg _ _ _))
      (forall_kw_cons (kwFit_of hc (k := "dtstart") (sh := .date) (by simp) (fits_odt _))
      (forall_kw_cons (kwFit_of hc (k := "dtend") (sh := .date) (by simp) (fits_odt _))
      (forall_kw_nil _)))) hrq'
    have ho := hoth ["ccacctfrom", "dtstart", "dtend"] (by simp [kv])
    have he : (Exp.agg "CCSTMTENDRQ" [("ccacctfrom", expCcAcct acctid),
        ("dtstart", .leaf (.date dtstart)), ("dtend", .leaf (.date dtend))] []).ok S (.agg ci f []) = true := by
      simp [Exp.ok, fieldsOk, fieldNames, all2, hcls, hfv, ho, Node.items, kwval, lookup, kv, hacctok, want_date]
    exact trnrq_spec hS hcv (name := "CCSTMTENDTRNRQ") (inner := "ccstmtendrq") (tbl := tCCSTMTENDTRNRQ)
      (by simp [reqTable]) (by simp) (by simp) (by decide) hu hne he h
  | invStmt acctid dtstart dtend dtasof inctran incoo incpos incbal =>
    simp only [Req.texts, Option.mem_toList] at hrq
    simp only [wrap, invstmttrnrq] at h
    obtain ⟨acct, hacct, h⟩ := bind_ok h
    obtain ⟨inc, hinc, h⟩ := bind_ok h
    obtain ⟨pos, hpos, h⟩ := bind_ok h
    obtain ⟨rq, hrq', h⟩ := bind_ok h
    -- INVACCTFROM
    obtain ⟨cia, ca, hca⟩ := reqWF_cls hS (name := "INVACCTFROM") (tbl := tINVACCT) (by simp [reqTable])
    obtain ⟨fa, rfl, hclsa, hfva, hotha⟩ := mk_spec hcv hca
      (forall_kw_cons (kwFit_of hca (k := "acctid") (sh := .text) (by simp) (fits_osv (fun s hs => hrq s hs)))
      (forall_kw_cons (kwFit_of hca (k := "brokerid") (sh := .text) (by simp) (fits_osv hbroker))
      (forall_kw_nil _))) hacct
    have hoa := hotha ["brokerid", "acctid"] (by simp [kv])
    have hacctok : (Exp.agg "INVACCTFROM" [("brokerid", .leaf (.ostr cfg.brokerid)),
        ("acctid", .leaf (.ostr acctid))] []).ok S (.agg cia fa []) = true := by
      simp [Exp.ok, fieldsOk, fieldNames, all2, hclsa, hfva, hoa, Node.items, kwval, lookup, kv, want_ostr]
    -- INCTRAN or None
    have hincok : (if flagSet inctran then expInctran dtstart dtend inctran else .leaf .absent).ok S inc = true ∧
        Shape.sub.fits Ptext inc ∧ normNode inc = inc := by
      rw [invInctran] at hinc
      by_cases hf : flagSet inctran = true
      · rw [if_pos hf] at hinc
        obtain ⟨hok, cii, fi, rfl⟩ := inctran_spec hS hcv dtstart dtend inctran hinc
        simp [hf, hok, Shape.fits]
      · rw [if_neg hf] at hinc
        simp only [pure, Except.pure, Except.ok.injEq] at hinc
        subst hinc
        simp [hf, Exp.ok, Shape.fits]
    -- INCPOS
    obtain ⟨cip, cp, hcp⟩ := reqWF_cls hS (name := "INCPOS") (tbl := tINCPOS) (by simp [reqTable])
    obtain ⟨fp, rfl, hclsp, hfvp, hothp⟩ := mk_spec hcv hcp
      (forall_kw_cons (kwFit_of hcp (k := "dtasof") (sh := .date) (by simp) (fits_odt _))
      (forall_kw_cons (kwFit_of hcp (k := "include") (sh := .flag) (by simp) (fits_obv _))
      (forall_kw_nil _))) hpos
    have hop := hothp ["dtasof", "include"] (by simp [kv])
    have hposok : (Exp.agg "INCPOS" [("dtasof", .leaf (.date dtasof)), ("include", .leaf (.bool incpos))] []).ok S
        (.agg cip fp []) = true := by
      simp [Exp.ok, fieldsOk, fieldNames, all2, hclsp, hfvp, hop, Node.items, kwval, lookup, kv, want_date, want_bool]
    -- INVSTMTRQ
    obtain ⟨ci, c, hc⟩ := reqWF_cls hS (name := "INVSTMTRQ") (tbl := tINVSTMTRQ) (by simp [reqTable])
    obtain ⟨f, rfl, hcls, hfv, hoth⟩ := mk_spec hcv hc
      (forall_kw_cons (kwFit_of hc (k := "invacctfrom") (sh := .sub) (by simp) (fits_agg _ _ _))
      (forall_kw_cons (kwFit_of hc (k := "inctran") (sh := .sub) (by simp) hincok.2.1)
      (forall_kw_cons (kwFit_of hc (k := "incoo") (sh := .flag) (by simp) (fits_obv _))
      (forall_kw_cons (kwFit_of hc (k := "incpos") (sh := .sub) (by simp) (fits_agg _ _ _))
      (forall_kw_cons (kwFit_of hc (k := "incbal") (sh := .flag) (by simp) (fits_obv _))
      (forall_kw_nil _)))))) hrq'
    have ho := hoth ["invacctfrom", "inctran", "incoo", "incpos", "incbal"] (by simp [kv])
    have he : (Exp.agg "INVSTMTRQ"
        [("invacctfrom", .agg "INVACCTFROM" [("brokerid", .leaf (.ostr cfg.brokerid)),
                                             ("acctid", .leaf (.ostr acctid))] []),
         ("inctran", if flagSet inctran then expInctran dtstart dtend inctran else .leaf .absent),
         ("incoo", .leaf (.bool incoo)),
         ("incpos", .agg "INCPOS" [("dtasof", .leaf (.date dtasof)), ("include", .leaf (.bool incpos))] []),
         ("incbal", .leaf (.bool incbal))] []).ok S (.agg ci f []) = true := by
      simp [Exp.ok, fieldsOk, fieldNames, all2, hcls, hfv, ho, Node.items, kwval, lookup, kv, hincok.1,
        hincok.2.2, want_bool, hclsa, hfva, hoa, hclsp, hfvp, hop, want_ostr, want_date]
    exact trnrq_spec hS hcv (name := "INVSTMTTRNRQ") (inner := "invstmtrq") (tbl := tINVSTMTTRNRQ)
      (by simp [reqTable]) (by simp) (by simp) (by decide) hu hne he h

end
/-! ## Part 5: the converters of `ofxtools.Types` are faithful on entity-free texts -/

/-- the text contains no entity spelling that `saxutils.unescape` would rewrite -/
def EntityFree (s : Str) : Prop := unescape s = s

instance : DecidablePred EntityFree := fun s => inferInstanceAs (Decidable (unescape s = s))

theorem enforceRequired_none (r : Bool) (v' : Val) (h : Types.enforceRequired r .none = .ok v') : v' = .none := by
  simp only [Types.enforceRequired] at h
  split at h <;> simp at h
  exact h.symm

theorem convert_none (enums : List (List Str)) (k : Kind) (r : Bool) (v' : Val)
    (h : Types.convert enums k r .none = .ok v') : v' = .none := by
  induction k generalizing r with
  | bool => exact enforceRequired_none r v' (by simpa [Types.convert, Types.boolConvert] using h)
  | string l st => exact enforceRequired_none r v' (by simpa [Types.convert, Types.stringConvert] using h)
  | oneOf e =>
    simp only [Types.convert] at h
    split at h
    · exact enforceRequired_none r v' (by simpa [Types.oneOfConvert] using h)
    · simp at h
  | integer l => exact enforceRequired_none r v' (by simpa [Types.convert, Types.integerConvert] using h)
  | decimal q => exact enforceRequired_none r v' (by simpa [Types.convert, Types.decimalConvert] using h)
  | datetime =>
    simp only [Types.convert, DateTime.dtConvert, DateTime.dtConvertWith, DateTime.enforceRequired] at h
    split at h <;> simp at h
    exact h.symm
  | time =>
    simp only [Types.convert, DateTime.tmConvert, DateTime.tmConvertWith, DateTime.enforceRequired] at h
    split at h <;> simp at h
    exact h.symm
  | listElem k ir ih => exact ih ir (by simpa [Types.convert] using h)
  | sub c => simp [Types.convert] at h
  | listAgg c => simp [Types.convert] at h
  | unsupported => simp [Types.convert] at h

theorem conv_ok : ConvOK Types.conv EntityFree where
  none := fun enums k r v' h => convert_none enums k r v' h
  text := by
    intro enums k r s v' hk hs h
    cases k <;> simp [Shape.ofKind] at hk
    · -- string
      rename_i l st
      simp only [Types.conv, Types.convert, Types.stringConvert] at h
      split at h
      · rename_i hnil; subst hnil
        rw [enforceRequired_none r v' h]; rfl
      · rename_i hne
        rw [hs] at h
        simp only [Types.strEnforceLength, Except.map] at h
        have hlen : ∀ s', (match l with
            | some n => if List.length s > n ∧ st = true then Except.error Err.spec else Except.ok s
            | none => Except.ok s) = Except.ok s' → s' = s := by
          intro s' hs'
          split at hs'
          · split at hs' <;> simp at hs'
            exact hs'.symm
          · simp at hs'; exact hs'.symm
        have : v' = .str s := by
          split at h
          · simp at h
          · rename_i v hv
            simp only [Except.ok.injEq] at h
            rw [← h, hlen v hv]
        rw [this]
        cases s with
        | nil => exact absurd rfl hne
        | cons c cs => rfl
    · -- oneOf
      rename_i e
      simp only [Types.conv, Types.convert] at h
      split at h
      · simp only [Types.oneOfConvert] at h
        by_cases hnil : s = []
        · subst hnil
          simp only [if_true, Types.oneOfDefault] at h
          rw [enforceRequired_none r v' h]; rfl
        · simp only [hnil, if_false, Types.oneOfDefault] at h
          split at h <;> simp at h
          rw [← h]
          cases s with
          | nil => exact absurd rfl hnil
          | cons c cs => rfl
      · simp at h
  flag := by
    intro enums k r b v' hk h
    cases k <;> simp [Shape.ofKind] at hk
    simp only [Types.conv, Types.convert, Types.boolConvert, Except.ok.injEq] at h
    exact h.symm
  date := by
    intro enums k r d v' hk h
    cases k <;> simp [Shape.ofKind] at hk
    simp only [Types.conv, Types.convert, DateTime.dtConvert, DateTime.dtConvertWith, bind, Except.bind] at h
    split at h
    · simp at h
    · split at h <;> simp [pure, Except.pure] at h
      exact h.symm

/-! ## Part 6: list lemmas for the two-level grouping -/

/-- pointwise relation between two lists of equal length -/
inductive Rel2 {α β : Type} (R : α → β → Prop) : List α → List β → Prop
  | nil : Rel2 R [] []
  | cons {a : α} {b : β} {l : List α} {l' : List β} : R a b → Rel2 R l l' → Rel2 R (a :: l) (b :: l')

theorem rel2_append {α β : Type} {R : α → β → Prop} {l1 l2 : List α} {l1' l2' : List β}
    (h1 : Rel2 R l1 l1') (h2 : Rel2 R l2 l2') : Rel2 R (l1 ++ l2) (l1' ++ l2') := by
  induction h1 with
  | nil => exact h2
  | cons hab _ ih => exact .cons hab ih

theorem mapM_forall2 {α β : Type} {f : α → PyM β} {l : List α} {l' : List β} (h : l.mapM f = .ok l') :
    Rel2 (fun a b => f a = .ok b) l l' := by
  induction l generalizing l' with
  | nil => simp [List.mapM_nil, pure, Except.pure] at h; subst h; exact .nil
  | cons a l ih =>
    rw [List.mapM_cons] at h
    obtain ⟨b, hb, h⟩ := bind_ok h
    obtain ⟨bs, hbs, h⟩ := bind_ok h
    simp only [pure, Except.pure, Except.ok.injEq] at h
    subst h
    exact .cons hb (ih hbs)

theorem forall2_flatMap {α β γ δ : Type} {R : γ → δ → Prop} {f : α → List γ} {g : β → List δ}
    {l : List α} {l' : List β} (h : Rel2 (fun a b => Rel2 R (f a) (g b)) l l') :
    Rel2 R (l.flatMap f) (l'.flatMap g) := by
  induction h with
  | nil => exact .nil
  | cons hab _ ih => simp only [List.flatMap_cons]; exact rel2_append hab ih

theorem forall2_filter {α β : Type} {R : α → β → Prop} {p : α → Bool} {q : β → Bool} {l : List α} {l' : List β}
    (h : Rel2 R l l') (hpq : ∀ a b, R a b → p a = q b) :
    Rel2 R (l.filter p) (l'.filter q) := by
  induction h with
  | nil => exact .nil
  | @cons a b l l' hab _ ih =>
    have hq := hpq a b hab
    simp only [List.filter_cons]
    by_cases hp : p a = true
    · rw [if_pos hp, if_pos (hq ▸ hp)]
      exact .cons hab ih
    · rw [if_neg hp, if_neg (hq ▸ hp)]
      exact ih

theorem forall2_imp {α β : Type} {R R' : α → β → Prop} {l : List α} {l' : List β}
    (h : Rel2 R l l') (hi : ∀ a b, R a b → R' a b) : Rel2 R' l l' := by
  induction h with
  | nil => exact .nil
  | cons hab _ ih => exact .cons (hi _ _ hab) ih

theorem forall2_map_eq {α β γ : Type} {f : α → γ} {g : β → γ} {l : List α} {l' : List β}
    (h : Rel2 (fun a b => f a = g b) l l') : l.map f = l'.map g := by
  induction h with
  | nil => rfl
  | cons hab _ ih => simp [hab, ih]

theorem forall2_all2 {α β γ : Type} {P : γ → β → Bool} {f : α → γ} {l : List α} {ws : List β}
    (h : Rel2 (fun a w => P (f a) w = true) l ws) : all2 P (l.map f) ws = true := by
  induction h with
  | nil => rfl
  | cons hab _ ih => simp [all2, hab, ih]

theorem groupBy_flatten {α κ : Type} [DecidableEq κ] (key : α → κ) (l : List α) :
    (groupBy key l).flatMap (·.2) = l := by
  induction l with
  | nil => rfl
  | cons a l ih =>
    cases hg : groupBy key l with
    | nil =>
      rw [groupBy_cons_nil key a l hg]
      rw [hg] at ih
      simp at ih
      simp [← ih]
    | cons p rest =>
      obtain ⟨k, g⟩ := p
      rw [groupBy_cons_cons key a l hg]
      rw [hg] at ih
      split <;> simp [← ih]

/-- the groups with first component `m`, flattened, are the members of all groups that satisfy `q`, when `q`
    holds of exactly the members of those groups -/
theorem flatMap_filter_groups {κ β : Type} [DecidableEq κ] (m : κ) (q : β → Bool) (ts : List (κ × List β))
    (h : ∀ t ∈ ts, ∀ w ∈ t.2, q w = decide (t.1 = m)) :
    (ts.filter (fun t => decide (t.1 = m))).flatMap (·.2) = (ts.flatMap (·.2)).filter q := by
  induction ts with
  | nil => rfl
  | cons t ts ih =>
    have ih := ih (fun t' ht' => h t' (List.mem_cons_of_mem _ ht'))
    have ht := h t (by simp)
    simp only [List.filter_cons, List.flatMap_cons, List.filter_append]
    by_cases hm : t.1 = m
    · have : t.2.filter q = t.2 := List.filter_eq_self.mpr (fun w hw => by simp [ht w hw, hm])
      simp [hm, this, ih]
    · have : t.2.filter q = [] := List.filter_eq_nil_iff.mpr (fun w hw => by simp [ht w hw, hm])
      simp [hm, this, ih]

theorem zipIdx_filter_fst {α : Type} (p : α → Bool) (l : List α) (n : Nat) :
    ((l.zipIdx n).filter (fun a => p a.1)).map (·.1) = l.filter p := by
  induction l generalizing n with
  | nil => rfl
  | cons a l ih =>
    simp only [List.zipIdx_cons, List.filter_cons]
    split <;> simp [ih]

theorem zipIdx_ge {α : Type} (l : List α) (n : Nat) : ∀ a ∈ l.zipIdx n, n ≤ a.2 := by
  induction l generalizing n with
  | nil => simp
  | cons x l ih =>
    intro a ha
    simp only [List.zipIdx_cons, List.mem_cons] at ha
    rcases ha with rfl | ha
    · exact Nat.le_refl _
    · exact Nat.le_of_succ_le (ih (n + 1) a ha)

theorem zipIdx_pairwise {α : Type} (l : List α) (n : Nat) : (l.zipIdx n).Pairwise (fun a b => a.2 ≠ b.2) := by
  induction l generalizing n with
  | nil => simp
  | cons x l ih =>
    simp only [List.zipIdx_cons, List.pairwise_cons]
    refine ⟨?_, ih (n + 1)⟩
    intro a ha
    have := zipIdx_ge l (n + 1) a ha
    show n ≠ a.2
    omega

/-! ## Part 7: the statement request as a whole -/

theorem findIdx_inj {S : Schema} {a b : Str} {i : Nat} (ha : S.findIdx? a = some i) (hb : S.findIdx? b = some i) :
    a = b := by
  simp only [Schema.findIdx?] at ha hb
  rw [List.findIdx?_eq_some_iff_getElem] at ha hb
  obtain ⟨h1, ha, _⟩ := ha
  obtain ⟨_, hb, _⟩ := hb
  simp only [Bool.and_eq_true, beq_iff_eq] at ha hb
  exact ha.1.symm.trans hb.1

theorem isCls_unique {S : Schema} {a b : String} {n : Node} (ha : isCls S a n = true) (hb : isCls S b n = true) :
    a = b := by
  simp only [isCls] at ha hb
  split at ha
  · rename_i c i hc hi
    split at hb
    · rename_i c' i' hc' hi'
      simp only [beq_iff_eq] at ha hb
      rw [hc] at hc'
      simp only [Option.some.injEq] at hc'
      subst hc' ha hb
      exact String.toList_inj.mp (findIdx_inj hi hi')
    · simp at hb
  · simp at ha

theorem isWrapper_unique {S : Schema} {k k' : RKind} {w : Node} (h : isWrapper S k w = true)
    (h' : isWrapper S k' w = true) : k = k' := by
  have := isCls_unique h h'
  cases k <;> cases k' <;> simp [RKind.wrapperName] at this <;> rfl

theorem rel2_mem_right {α β : Type} {R : α → β → Prop} {l : List α} {l' : List β} (h : Rel2 R l l') {b : β}
    (hb : b ∈ l') : ∃ a ∈ l, R a b := by
  induction h with
  | nil => simp at hb
  | cons hab _ ih =>
    rcases List.mem_cons.mp hb with rfl | hb
    · exact ⟨_, by simp, hab⟩
    · obtain ⟨a, ha, hr⟩ := ih hb
      exact ⟨a, List.mem_cons_of_mem _ ha, hr⟩

theorem rel2_mem_left {α β : Type} {R : α → β → Prop} {l : List α} {l' : List β} (h : Rel2 R l l') {a : α}
    (ha : a ∈ l) : ∃ b ∈ l', R a b := by
  induction h with
  | nil => simp at ha
  | cons hab _ ih =>
    rcases List.mem_cons.mp ha with rfl | ha
    · exact ⟨_, by simp, hab⟩
    · obtain ⟨b, hb, hr⟩ := ih ha
      exact ⟨b, List.mem_cons_of_mem _ hb, hr⟩

theorem rel2_with_mem {α β : Type} {R : α → β → Prop} {l : List α} {l' : List β} (h : Rel2 R l l') :
    Rel2 (fun a b => R a b ∧ a ∈ l) l l' := by
  induction h with
  | nil => exact .nil
  | cons hab _ ih =>
    exact .cons ⟨hab, by simp⟩ (forall2_imp ih (fun a b h => ⟨h.1, List.mem_cons_of_mem _ h.2⟩))

section
variable {S : Schema} {cv : Conv}

/-- request at position `p.2` of the sorted list is wrapped into `w` -/
def Rw (S : Schema) (cv : Conv) (cfg : Cfg) (us : Nat → Str) (p : Req × Nat) (w : Node) : Prop :=
  wrap S cv cfg p.1 (us p.2) = .ok w

/-- `w` is a wrapper of one of the request kinds carried by message set `m` -/
def qm (S : Schema) (m : MsgSet) (w : Node) : Bool := (kindsUnder m).any (fun k => isWrapper S k w)

theorem mem_kindsUnder (k : RKind) (m : MsgSet) : k ∈ kindsUnder m ↔ k.msgset = m := by
  cases k <;> cases m <;> simp [kindsUnder, RKind.msgset]

theorem wrapGroup_inv {cfg : Cfg} {us : Nat → Str} {g : RKind × List (Req × Nat)} {t : MsgSet × List Node}
    (h : wrapGroup S cv cfg us g = .ok t) : t.1 = g.1.msgset ∧ Rel2 (Rw S cv cfg us) g.2 t.2 := by
  rw [wrapGroup] at h
  obtain ⟨ws, hws, h⟩ := bind_ok h
  simp only [pure, Except.pure, Except.ok.injEq] at h
  subst h
  exact ⟨rfl, mapM_forall2 hws⟩

theorem msgArgs_inv {g : MsgSet × List (MsgSet × List Node)} {e : Str × Node} (h : msgArgs S cv g = .ok e) :
    ∃ inst, e = kv g.1.attrName inst ∧ mk S cv g.1.className (g.2.flatMap (·.2)) [] = .ok inst := by
  rw [msgArgs] at h
  obtain ⟨inst, hinst, h⟩ := bind_ok h
  simp only [pure, Except.pure, Except.ok.injEq] at h
  exact ⟨inst, h.symm, hinst⟩

/-- the wrappers, flattened, stand in one-to-one correspondence with the sorted, numbered requests; and the members
    of the groups dispatched to message set `m` are exactly the wrappers of `m`'s kinds -/
theorem wrappers_flat {cfg : Cfg} {us : Nat → Str} (sz : List (Req × Nat)) (trnrqs : List (MsgSet × List Node))
    (hgroups : Rel2 (fun g t => t.1 = g.1.msgset ∧ Rel2 (Rw S cv cfg us) g.2 t.2)
      (groupBy (fun p : Req × Nat => p.1.kind) sz) trnrqs)
    (hwrap : ∀ p ∈ sz, ∀ w, Rw S cv cfg us p w → isWrapper S p.1.kind w = true) :
    Rel2 (Rw S cv cfg us) sz (trnrqs.flatMap (·.2)) ∧
    ∀ m, (trnrqs.filter (fun t => decide (t.1 = m))).flatMap (·.2) = (trnrqs.flatMap (·.2)).filter (qm S m) := by
  constructor
  · have := forall2_flatMap (f := fun g : RKind × List (Req × Nat) => g.2) (g := fun t : MsgSet × List Node => t.2)
      (forall2_imp hgroups (fun g t h => h.2))
    rwa [groupBy_flatten] at this
  · intro m
    apply flatMap_filter_groups
    intro t ht w hw
    obtain ⟨g, hg, ht1, hrel⟩ := rel2_mem_right hgroups ht
    obtain ⟨p, hp, hpw⟩ := rel2_mem_right hrel hw
    obtain ⟨_, hall⟩ := groupBy_mem (fun p : Req × Nat => p.1.kind) sz g.1 g.2 hg
    obtain ⟨hkind, hpsz⟩ := hall p hp
    have hw1 : isWrapper S g.1 w = true := hkind ▸ hwrap p hpsz w hpw
    rw [ht1]
    by_cases hm : g.1.msgset = m
    · simp only [hm, decide_true, qm, List.any_eq_true]
      exact ⟨g.1, (mem_kindsUnder _ _).mpr hm, hw1⟩
    · simp only [hm, decide_false, qm]
      apply Bool.eq_false_iff.mpr
      intro hany
      obtain ⟨k, hk, hkw⟩ := List.any_eq_true.mp hany
      have := isWrapper_unique hkw hw1
      subst this
      exact hm ((mem_kindsUnder _ _).mp hk)

/-- per kind: the wrappers of kind `k`, in order, stand against the sorted requests of kind `k`, in order -/
theorem wrappers_of_kind {cfg : Cfg} {us : Nat → Str} (sz : List (Req × Nat)) (allW : List Node)
    (hrel : Rel2 (Rw S cv cfg us) sz allW)
    (hwrap : ∀ p ∈ sz, ∀ w, Rw S cv cfg us p w → isWrapper S p.1.kind w = true) (k : RKind) :
    Rel2 (fun p w => Rw S cv cfg us p w ∧ p ∈ sz) (sz.filter (fun p => decide (p.1.kind = k)))
      (allW.filter (isWrapper S k)) := by
  apply forall2_filter (rel2_with_mem hrel)
  intro p w ⟨hpw, hp⟩
  have hw1 := hwrap p hp w hpw
  by_cases hk : p.1.kind = k
  · subst hk; simp [hw1]
  · simp only [hk, decide_false]
    symm
    apply Bool.eq_false_iff.mpr
    intro hkw
    exact hk (isWrapper_unique hw1 hkw)

end
theorem zipIdx_mem_fst {α : Type} (l : List α) (n : Nat) : ∀ a ∈ l.zipIdx n, a.1 ∈ l := by
  induction l generalizing n with
  | nil => simp
  | cons x l ih =>
    intro a ha
    simp only [List.zipIdx_cons, List.mem_cons] at ha
    rcases ha with rfl | ha
    · simp
    · exact List.mem_cons_of_mem _ (ih (n + 1) a ha)

theorem attrName_inj {m m' : MsgSet} (h : m.attrName.toList = m'.attrName.toList) : m = m' := by
  have := String.toList_inj.mp h
  cases m <;> cases m' <;> simp [MsgSet.attrName] at this <;> rfl

theorem lookup_msgs_none {Q : (MsgSet × List (MsgSet × List Node)) → Node → Prop}
    {gs : List (MsgSet × List (MsgSet × List Node))} {msgs : List (Str × Node)}
    (h : Rel2 (fun g e => ∃ inst, e = kv g.1.attrName inst ∧ Q g inst) gs msgs) (m : MsgSet)
    (hno : ∀ g ∈ gs, g.1 ≠ m) : lookup m.attrName.toList msgs = none := by
  induction h with
  | nil => rfl
  | @cons g e gs msgs hge _ ih =>
    obtain ⟨inst, rfl, _⟩ := hge
    have hne : g.1.attrName.toList ≠ m.attrName.toList := fun e => hno g (by simp) (attrName_inj e)
    simp only [kv, lookup, hne, if_false]
    exact ih (fun g' hg' => hno g' (List.mem_cons_of_mem _ hg'))

theorem lookup_msgs_some {Q : (MsgSet × List (MsgSet × List Node)) → Node → Prop}
    {gs : List (MsgSet × List (MsgSet × List Node))} {msgs : List (Str × Node)}
    (h : Rel2 (fun g e => ∃ inst, e = kv g.1.attrName inst ∧ Q g inst) gs msgs)
    (hnd : (gs.map (·.1)).Pairwise (· ≠ ·)) {g : MsgSet × List (MsgSet × List Node)} (hg : g ∈ gs) :
    ∃ inst, lookup g.1.attrName.toList msgs = some inst ∧ Q g inst := by
  induction h with
  | nil => simp at hg
  | @cons g' e gs msgs hge hrest ih =>
    obtain ⟨inst, rfl, hq⟩ := hge
    simp only [List.map_cons, List.pairwise_cons] at hnd
    rcases List.mem_cons.mp hg with rfl | hg'
    · exact ⟨inst, by simp [kv, lookup], hq⟩
    · have hne : g'.1 ≠ g.1 := hnd.1 g.1 (List.mem_map.mpr ⟨g, hg', rfl⟩)
      have hne' : g'.1.attrName.toList ≠ g.1.attrName.toList := fun e => hne (attrName_inj e)
      obtain ⟨inst', hl, hq'⟩ := ih hnd.2 hg'
      exact ⟨inst', by simp [kv, lookup, hne', hl], hq'⟩

/-! ## Part 8: assembling `RequestSpec` -/

section
variable {S : Schema} {cv : Conv} {Ptext : Str → Prop}

/-- one message set of the composed request satisfies its clauses -/
theorem msgset_clauses_ok (_hS : ReqWF S = true) (cfg : Cfg) (reqs : List Req) (us : Nat → Str) (m : MsgSet)
    (root : Node) (trnrqs : List (MsgSet × List Node))
    (hrel : Rel2 (Rw S cv cfg us) (sortBy RKind.le Req.kind reqs).zipIdx (trnrqs.flatMap (·.2)))
    (hwrap : ∀ p ∈ (sortBy RKind.le Req.kind reqs).zipIdx, ∀ w, Rw S cv cfg us p w →
      isWrapper S p.1.kind w = true ∧ (expWrapper cfg p.1).ok S w = true)
    -- what the root holds under `m`
    (hnode : (reqs.filter (fun r => decide (r.kind.msgset = m)) = [] ∧ fieldVal root m.attrName = .val .none) ∨
      (reqs.filter (fun r => decide (r.kind.msgset = m)) ≠ [] ∧ ∃ ci f, fieldVal root m.attrName =
          .agg ci f ((trnrqs.flatMap (·.2)).filter (qm S m)) ∧
        isCls S m.className (.agg ci f ((trnrqs.flatMap (·.2)).filter (qm S m))) = true ∧
        othersNone [] (.agg ci f ((trnrqs.flatMap (·.2)).filter (qm S m))) = true)) :
    msgsetClauses S cfg reqs m root = [] := by
  rcases hnode with ⟨hnil, hnone⟩ | ⟨hne, ci, f, hfv, hcls, hoth⟩
  · simp [msgsetClauses, hnil, hnone, clause, Node.isNone]
  · have hne' : (reqs.filter (fun r => decide (r.kind.msgset = m))).isEmpty = false := by
      cases hl : reqs.filter (fun r => decide (r.kind.msgset = m)) with
      | nil => exact absurd hl hne
      | cons a l => rfl
    simp only [msgsetClauses, hne', Bool.false_eq_true, if_false, hfv, hcls, hoth, Bool.and_self, clause, if_true,
      List.nil_append, Node.items]
    have hforeign : ((trnrqs.flatMap (·.2)).filter (qm S m)).all
        (fun w => (kindsUnder m).any (fun k => isWrapper S k w)) = true := by
      simp only [List.all_eq_true, List.mem_filter]
      intro w hw
      exact hw.2
    rw [hforeign]
    simp only [if_true, List.nil_append]
    -- each kind carried by m
    have hkind : ∀ k ∈ kindsUnder m,
        all2 (fun rq w => (expWrapper cfg rq).ok S w) (reqs.filter (fun r => decide (r.kind = k)))
          (((trnrqs.flatMap (·.2)).filter (qm S m)).filter (isWrapper S k)) = true := by
      intro k hk
      have hfil : ((trnrqs.flatMap (·.2)).filter (qm S m)).filter (isWrapper S k) =
          (trnrqs.flatMap (·.2)).filter (isWrapper S k) := by
        rw [List.filter_filter]
        apply List.filter_congr
        intro w _
        by_cases hw : isWrapper S k w = true
        · have : qm S m w = true := List.any_eq_true.mpr ⟨k, hk, hw⟩
          simp [hw, this]
        · simp [hw]
      rw [hfil]
      have h1 := wrappers_of_kind (S := S) (cv := cv) (cfg := cfg) (us := us) _ _ hrel
        (fun p hp w hpw => (hwrap p hp w hpw).1) k
      have h2 : Rel2 (fun p w => (fun rq w => (expWrapper cfg rq).ok S w) p.1 w = true)
          ((sortBy RKind.le Req.kind reqs).zipIdx.filter (fun p => decide (p.1.kind = k)))
          ((trnrqs.flatMap (·.2)).filter (isWrapper S k)) :=
        forall2_imp h1 (fun p w h => (hwrap p h.2 w h.1).2)
      have h3 := forall2_all2 (P := fun rq w => (expWrapper cfg rq).ok S w) (f := fun p : Req × Nat => p.1) h2
      rw [zipIdx_filter_fst (fun r : Req => decide (r.kind = k)), filter_sortBy RKind.le Req.kind] at h3
      · exact h3
      · intro a; cases a <;> decide
    apply List.flatMap_eq_nil_iff.mpr
    intro k hk
    rw [if_pos (hkind k hk)]

theorem nodupB_of_nodup {α : Type} [DecidableEq α] (l : List α) (h : l.Nodup) : nodupB l = true := by
  induction l with
  | nil => rfl
  | cons a l ih =>
    rw [List.nodup_cons] at h
    simp [nodupB, h.1, ih h.2]

theorem pairwise_inj {α β : Type} {g : α → β} {l : List α} (h : l.Pairwise (fun a b => g a ≠ g b)) {a b : α}
    (ha : a ∈ l) (hb : b ∈ l) (hab : g a = g b) : a = b := by
  induction l with
  | nil => simp at ha
  | cons x l ih =>
    rw [List.pairwise_cons] at h
    rcases List.mem_cons.mp ha with rfl | ha' <;> rcases List.mem_cons.mp hb with rfl | hb'
    · rfl
    · exact absurd hab (h.1 b hb')
    · exact absurd hab.symm (h.1 a ha')
    · exact ih h.2 ha' hb'

theorem nodup_filter_map {α β : Type} {g : α → β} {l : List α} (h : l.Pairwise (fun a b => g a ≠ g b))
    (p : α → Bool) : ((l.filter p).map g).Nodup := by
  rw [List.Nodup, List.pairwise_map]
  exact List.Pairwise.filter p h

/-- the images of three disjoint selections of a list with pairwise distinct images are, concatenated, distinct -/
theorem nodup_three {α β : Type} {g : α → β} {l : List α} (h : l.Pairwise (fun a b => g a ≠ g b))
    (p1 p2 p3 : α → Bool) (h12 : ∀ a, p1 a = true → p2 a = true → False)
    (h13 : ∀ a, p1 a = true → p3 a = true → False) (h23 : ∀ a, p2 a = true → p3 a = true → False) :
    ((l.filter p1).map g ++ ((l.filter p2).map g ++ (l.filter p3).map g)).Nodup := by
  have hdis : ∀ (p q : α → Bool), (∀ a, p a = true → q a = true → False) →
      ∀ x, x ∈ (l.filter p).map g → x ∈ (l.filter q).map g → False := by
    intro p q hpq x hx hy
    obtain ⟨a, ha, rfl⟩ := List.mem_map.mp hx
    obtain ⟨b, hb, hgb⟩ := List.mem_map.mp hy
    obtain ⟨hal, hpa⟩ := List.mem_filter.mp ha
    obtain ⟨hbl, hqb⟩ := List.mem_filter.mp hb
    have := pairwise_inj h hbl hal hgb
    subst this
    exact hpq _ hpa hqb
  rw [List.nodup_append]
  refine ⟨nodup_filter_map h p1, ?_, ?_⟩
  · rw [List.nodup_append]
    refine ⟨nodup_filter_map h p2, nodup_filter_map h p3, ?_⟩
    intro x hx y hy hxy
    subst hxy
    exact hdis p2 p3 h23 x hx hy
  · intro x hx y hy hxy
    subst hxy
    rcases List.mem_append.mp hy with hy | hy
    · exact hdis p1 p2 h12 x hx hy
    · exact hdis p1 p3 h13 x hx hy

theorem trnuid_clause_ok (us : Nat → Str) (hinj : ∀ i j, us i = us j → i = j) (l : List Req) (root : Node)
    (allW : List Node)
    (hrel : Rel2 (fun p w => fieldVal w "trnuid" = .val (.str (us p.2)) ∧
      ∀ m, qm S m w = decide (p.1.kind.msgset = m)) l.zipIdx allW)
    (hnodes : ∀ m : MsgSet, (fieldVal root m.attrName).items = allW.filter (qm S m)) :
    trnuidClause (allMsgSets.map (·.attrName)) root = [] := by
  have hm : ∀ m : MsgSet, (allW.filter (qm S m)).map (fun w => strOf (fieldVal w "trnuid")) =
      ((l.zipIdx).filter (fun p => decide (p.1.kind.msgset = m))).map (fun p => some (us p.2)) := by
    intro m
    have h1 := forall2_filter hrel (p := fun p => decide (p.1.kind.msgset = m)) (q := qm S m)
      (fun p w hr => (hr.2 m).symm)
    have h2 := forall2_imp h1 (R' := fun p w => some (us p.2) = strOf (fieldVal w "trnuid"))
      (fun p w hr => by rw [hr.1]; rfl)
    exact (forall2_map_eq h2).symm
  have hpw : (l.zipIdx).Pairwise (fun a b => (fun p : Req × Nat => some (us p.2)) a ≠ (fun p : Req × Nat => some (us p.2)) b) := by
    apply (zipIdx_pairwise l 0).imp
    intro a b hab heq
    simp only [Option.some.injEq] at heq
    exact hab (hinj _ _ heq)
  have hnd := nodup_three hpw (fun p => decide (p.1.kind.msgset = MsgSet.bank))
    (fun p => decide (p.1.kind.msgset = MsgSet.creditcard)) (fun p => decide (p.1.kind.msgset = MsgSet.invstmt))
    (by intro a h1 h2; simp only [decide_eq_true_eq] at h1 h2; rw [h1] at h2; cases h2)
    (by intro a h1 h2; simp only [decide_eq_true_eq] at h1 h2; rw [h1] at h2; cases h2)
    (by intro a h1 h2; simp only [decide_eq_true_eq] at h1 h2; rw [h1] at h2; cases h2)
  simp only [trnuidClause, trnuidsOf, allMsgSets, List.map_cons, List.map_nil, List.flatMap_cons, List.flatMap_nil,
    List.append_nil, hnodes, hm]
  rw [nodupB_of_nodup _ hnd]
  simp [clause]

/-- the order on request class names used by `sorted(requests, key=class name)` is a total order -/
theorem rkind_order : IsOrder RKind.le where
  refl := by intro a; cases a <;> decide
  total := by intro a b; cases a <;> cases b <;> decide
  trans := by intro a b c; cases a <;> cases b <;> cases c <;> decide
  antisymm := by intro a b; cases a <;> cases b <;> decide

/-- likewise for `trnrqs.sort(key=message-set class name)` -/
theorem msgset_order : IsOrder MsgSet.le where
  refl := by intro a; cases a <;> decide
  total := by intro a b; cases a <;> cases b <;> decide
  trans := by intro a b c; cases a <;> cases b <;> cases c <;> decide
  antisymm := by intro a b; cases a <;> cases b <;> decide

theorem lookup_cons_ne {α : Type} {k k' : Str} {v : α} {r : List (Str × α)} (h : k' ≠ k) :
    lookup k ((k', v) :: r) = lookup k r := by
  simp [lookup, h]

theorem mem_zipIdx_of_mem {α : Type} {l : List α} {a : α} (h : a ∈ l) (n : Nat) : ∃ i, (a, i) ∈ l.zipIdx n := by
  induction l generalizing n with
  | nil => simp at h
  | cons x l ih =>
    rcases List.mem_cons.mp h with rfl | h'
    · exact ⟨n, by simp [List.zipIdx_cons]⟩
    · obtain ⟨i, hi⟩ := ih h' (n + 1)
      exact ⟨i, by simp [List.zipIdx_cons, hi]⟩

theorem groupBy_exists {α κ : Type} [DecidableEq κ] (key : α → κ) {l : List α} {x : α} (hx : x ∈ l) :
    ∃ g, (key x, g) ∈ groupBy key l := by
  have hx' : x ∈ l.filter (fun y => decide (key y = key x)) := by simp [hx]
  rw [← groupBy_flat key l (key x)] at hx'
  obtain ⟨p, hp, _⟩ := List.mem_flatMap.mp hx'
  obtain ⟨hp1, hp2⟩ := List.mem_filter.mp hp
  have : p.1 = key x := by simpa using hp2
  exact ⟨p.2, this ▸ hp1⟩

theorem qm_of_wrapper {k : RKind} {w : Node} (h : isWrapper S k w = true) (m : MsgSet) :
    qm S m w = decide (k.msgset = m) := by
  by_cases hm : k.msgset = m
  · simp only [hm, decide_true, qm, List.any_eq_true]
    exact ⟨k, (mem_kindsUnder _ _).mpr hm, h⟩
  · simp only [hm, decide_false, qm]
    apply Bool.eq_false_iff.mpr
    intro hany
    obtain ⟨k', hk', hkw⟩ := List.any_eq_true.mp hany
    have := isWrapper_unique hkw h
    subst this
    exact hm ((mem_kindsUnder _ _).mp hk')

/-- **the statement request as a whole**: if composition succeeds the `OFX` instance satisfies every clause of
    `RequestSpec` -/
theorem requestStatements_spec (hS : ReqWF S = true) (hcv : ConvOK cv Ptext) (cfg : Cfg) (pw : Str)
    (reqs : List Req) (us : Nat → Str) (dtc : DT)
    (htexts : ∀ s ∈ cfg.texts, Ptext s) (hpw : Ptext pw) (hreqs : ∀ r ∈ reqs, ∀ s ∈ r.texts, Ptext s)
    (hinj : ∀ i j, us i = us j → i = j) (hune : ∀ i, us i ≠ []) (huP : ∀ i, Ptext (us i))
    {root : Node} (h : requestStatements S cv cfg pw reqs us dtc = .ok root) :
    check S cfg pw dtc reqs (Int.ofNat cfg.version) root = [] := by
  simp only [requestStatements] at h
  obtain ⟨trnrqs, htr, h⟩ := bind_ok h
  obtain ⟨msgs, hmsgs, h⟩ := bind_ok h
  obtain ⟨so, hso, h⟩ := bind_ok h
  -- the wrappers
  have hgroups := forall2_imp (mapM_forall2 htr) (fun g t hgt => wrapGroup_inv hgt)
  have hwrapAll : ∀ p ∈ (sortBy RKind.le Req.kind reqs).zipIdx, ∀ w, Rw S cv cfg us p w →
      (expWrapper cfg p.1).ok S w = true ∧ isWrapper S p.1.kind w = true ∧
        fieldVal w "trnuid" = .val (.str (us p.2)) := by
    intro p hp w hpw
    have hmem : p.1 ∈ reqs := (mem_sortBy RKind.le Req.kind p.1 reqs).mp (zipIdx_mem_fst _ 0 p hp)
    exact wrap_spec hS hcv cfg p.1 (us p.2) htexts (hreqs p.1 hmem) (huP _) (hune _) hpw
  obtain ⟨hrel, hitems⟩ := wrappers_flat _ trnrqs hgroups (fun p hp w hpw => (hwrapAll p hp w hpw).2.1)
  -- the message sets
  obtain ⟨hkeys2, hgrp2, hex2⟩ := group_sort MsgSet.le (fun t : MsgSet × List Node => t.1) msgset_order trnrqs
  have hmsgs' := forall2_imp (mapM_forall2 hmsgs) (fun g e hge => msgArgs_inv hge)
  -- the sign-on
  obtain ⟨hsoc, cis, fs, rfl⟩ := signon_spec hS hcv cfg pw none dtc htexts hpw (by simp) hso
  -- the root
  obtain ⟨ciO, cO, hcO⟩ := reqWF_cls hS (name := "OFX") (tbl := tOFX) (by simp [reqTable])
  have hmsgcls : ∀ m : MsgSet, ∃ ci c, ClsFits S m.className tMSGS ci c := by
    intro m; cases m <;> exact reqWF_cls hS (by simp [reqTable, MsgSet.className])
  have hkwfit : ∀ p ∈ (kv "signonmsgsrqv1" (.agg cis fs []) :: msgs), KwFit cO Ptext p := by
    apply forall_kw_cons (kwFit_of hcO (k := "signonmsgsrqv1") (sh := .sub) (by simp) (fits_agg _ _ _))
    intro e he
    obtain ⟨g, hg, inst, rfl, hmk⟩ := rel2_mem_right hmsgs' he
    obtain ⟨ciM, cM, hcM⟩ := hmsgcls g.1
    obtain ⟨f, rfl, _⟩ := mk_spec hcv hcM (forall_kw_nil _) hmk
    exact kwFit_of hcO (k := g.1.attrName) (sh := .sub) (by cases g.1 <;> simp [MsgSet.attrName]) (fits_agg _ _ _)
  have hkeep : ∀ p ∈ (kv "signonmsgsrqv1" (.agg cis fs []) :: msgs), p.2 = .val .none ∨
      p.1 ∈ ("signonmsgsrqv1" :: allMsgSets.map (·.attrName)).map String.toList := by
    apply forall_kw_cons
    · right; simp [kv]
    · intro e he
      obtain ⟨g, hg, inst, rfl, hmk⟩ := rel2_mem_right hmsgs' he
      right
      cases g.1 <;> simp [kv, allMsgSets, MsgSet.attrName]
  obtain ⟨fO, rfl, hclsO, hfvO, hothO⟩ := mk_spec hcv hcO hkwfit h
  have hothO' := hothO _ hkeep
  -- what the root holds under each message set
  have hval : ∀ m : MsgSet, fieldVal (.agg ciO fO []) m.attrName =
      normNode ((lookup m.attrName.toList msgs).getD (.val .none)) := by
    intro m
    rw [hfvO]
    have : "signonmsgsrqv1".toList ≠ m.attrName.toList := by
      intro e; have := String.toList_inj.mp e; cases m <;> simp [MsgSet.attrName] at this
    show normNode ((lookup m.attrName.toList (("signonmsgsrqv1".toList, _) :: msgs)).getD _) = _
    rw [lookup_cons_ne this]
  -- a request of message set m gives a group for m, and conversely
  have hreq_grp : ∀ r ∈ reqs, ∃ gs, (r.kind.msgset, gs) ∈
      groupBy (fun t : MsgSet × List Node => t.1) (sortBy MsgSet.le (fun t => t.1) trnrqs) := by
    intro r hr
    obtain ⟨i, hi⟩ := mem_zipIdx_of_mem ((mem_sortBy RKind.le Req.kind r reqs).mpr hr) 0
    obtain ⟨g1, hg1⟩ := groupBy_exists (fun p : Req × Nat => p.1.kind) hi
    obtain ⟨t, ht, ht1, _⟩ := rel2_mem_left hgroups hg1
    obtain ⟨gs, hgs⟩ := hex2 t ht
    exact ⟨gs, ht1 ▸ hgs⟩
  have hgrp_req : ∀ t ∈ trnrqs, ∃ r ∈ reqs, r.kind.msgset = t.1 := by
    intro t ht
    obtain ⟨g1, hg1, ht1, hrel1⟩ := rel2_mem_right hgroups ht
    obtain ⟨hne1, hall1⟩ := groupBy_mem (fun p : Req × Nat => p.1.kind) _ g1.1 g1.2 hg1
    obtain ⟨p, hp⟩ := List.exists_mem_of_ne_nil _ hne1
    obtain ⟨hk, hpsz⟩ := hall1 p hp
    refine ⟨p.1, (mem_sortBy RKind.le Req.kind p.1 reqs).mp (zipIdx_mem_fst _ 0 p hpsz), ?_⟩
    rw [ht1, ← hk]
  have hM : ∀ m : MsgSet,
      (reqs.filter (fun r => decide (r.kind.msgset = m)) = [] ∧
        fieldVal (.agg ciO fO []) m.attrName = .val .none ∧ (trnrqs.flatMap (·.2)).filter (qm S m) = []) ∨
      (reqs.filter (fun r => decide (r.kind.msgset = m)) ≠ [] ∧ ∃ ci f, fieldVal (.agg ciO fO []) m.attrName =
          .agg ci f ((trnrqs.flatMap (·.2)).filter (qm S m)) ∧
        isCls S m.className (.agg ci f ((trnrqs.flatMap (·.2)).filter (qm S m))) = true ∧
        othersNone [] (.agg ci f ((trnrqs.flatMap (·.2)).filter (qm S m))) = true) := by
    intro m
    by_cases hex : ∃ g ∈ groupBy (fun t : MsgSet × List Node => t.1) (sortBy MsgSet.le (fun t => t.1) trnrqs),
        g.1 = m
    · right
      obtain ⟨g, hg, rfl⟩ := hex
      obtain ⟨hgne, hgeq⟩ := hgrp2 g.1 g.2 hg
      refine ⟨?_, ?_⟩
      · -- some request belongs to this message set
        obtain ⟨t, ht⟩ := List.exists_mem_of_ne_nil _ hgne
        rw [hgeq] at ht
        obtain ⟨ht1, ht2⟩ := List.mem_filter.mp ht
        obtain ⟨r, hr, hrm⟩ := hgrp_req t ht1
        intro hnil
        have : r ∈ reqs.filter (fun r => decide (r.kind.msgset = g.1)) := by
          simp only [List.mem_filter, decide_eq_true_eq] at ht2 ⊢
          exact ⟨hr, hrm.trans ht2⟩
        rw [hnil] at this
        simp at this
      · obtain ⟨inst, hl, hmk⟩ := lookup_msgs_some hmsgs' (hkeys2.imp (fun h => h.2)) hg
        obtain ⟨ciM, cM, hcM⟩ := hmsgcls g.1
        obtain ⟨f, rfl, hclsM, _, hothM⟩ := mk_spec hcv hcM (forall_kw_nil _) hmk
        have hit : g.2.flatMap (·.2) = (trnrqs.flatMap (·.2)).filter (qm S g.1) := by
          rw [hgeq]; exact hitems g.1
        refine ⟨ciM, f, ?_, ?_, ?_⟩
        · rw [hval, hl, ← hit]; rfl
        · rw [← hit]; exact hclsM
        · rw [← hit]; exact hothM [] (by simp)
    · left
      have hno : ∀ g ∈ groupBy (fun t : MsgSet × List Node => t.1) (sortBy MsgSet.le (fun t => t.1) trnrqs),
          g.1 ≠ m := fun g hg hgm => hex ⟨g, hg, hgm⟩
      refine ⟨?_, ?_, ?_⟩
      · apply List.filter_eq_nil_iff.mpr
        intro r hr hrm
        simp only [decide_eq_true_eq] at hrm
        obtain ⟨gs, hgs⟩ := hreq_grp r hr
        exact hno _ hgs hrm
      · rw [hval, lookup_msgs_none hmsgs' m hno]; rfl
      · rw [← hitems m]
        have : trnrqs.filter (fun t => decide (t.1 = m)) = [] := by
          apply List.filter_eq_nil_iff.mpr
          intro t ht htm
          simp only [decide_eq_true_eq] at htm
          obtain ⟨gs, hgs⟩ := hex2 t ht
          exact hno _ hgs htm
        rw [this]; rfl
  -- assemble the clauses
  have hso' : fieldVal (.agg ciO fO []) "signonmsgsrqv1" = .agg cis fs [] := by
    rw [hfvO]; simp [kwval, lookup, kv]
  have hnodes : ∀ m : MsgSet, (fieldVal (.agg ciO fO []) m.attrName).items = (trnrqs.flatMap (·.2)).filter (qm S m) := by
    intro m
    rcases hM m with ⟨_, hnone, hnil⟩ | ⟨_, ci, f, hfv, _, _⟩
    · rw [hnone, hnil]; rfl
    · rw [hfv]; rfl
  have hrel' : Rel2 (fun p w => fieldVal w "trnuid" = .val (.str (us p.2)) ∧
      ∀ m, qm S m w = decide (p.1.kind.msgset = m)) (sortBy RKind.le Req.kind reqs).zipIdx (trnrqs.flatMap (·.2)) :=
    forall2_imp (rel2_with_mem hrel) (fun p w hpw =>
      ⟨(hwrapAll p hpw.2 w hpw.1).2.2, qm_of_wrapper (hwrapAll p hpw.2 w hpw.1).2.1⟩)
  have h1 : headerClause cfg.version (Int.ofNat cfg.version) = [] := by simp [headerClause, clause]
  have h2 : rootClauses S (allMsgSets.map (·.attrName)) (.agg ciO fO []) = [] := by
    simp [rootClauses, clause, hclsO, Node.items, hothO']
  have h3 : signonClauses S cfg cfg.userid pw dtc (fieldVal (.agg ciO fO []) "signonmsgsrqv1") = [] := by
    rw [hso']; exact hsoc
  have h4 : allMsgSets.flatMap (fun m => msgsetClauses S cfg reqs m (.agg ciO fO [])) = [] := by
    apply List.flatMap_eq_nil_iff.mpr
    intro m _
    apply msgset_clauses_ok hS cfg reqs us m _ trnrqs hrel
      (fun p hp w hpw => ⟨(hwrapAll p hp w hpw).2.1, (hwrapAll p hp w hpw).1⟩)
    rcases hM m with ⟨a, b, _⟩ | hr
    · exact Or.inl ⟨a, b⟩
    · exact Or.inr hr
  have h5 := trnuid_clause_ok us hinj (sortBy RKind.le Req.kind reqs) (.agg ciO fO []) _ hrel' hnodes
  simp only [check, h1, h2, h3, h4, h5, List.append_nil]

end
/-! ## Part 10: account-info and profile requests -/

section
variable {S : Schema} {cv : Conv} {Ptext : Str → Prop}

/-- a request made of the sign-on and one message set holding one wrapper -/
theorem single_spec (hS : ReqWF S = true) (hcv : ConvOK cv Ptext) (cfg : Cfg) (userid password : Str) (dtc : DT)
    (cfgVersion : Nat) {attr msgCls label : String} (hattr : (attr, Shape.sub) ∈ tOFX)
    (hattr' : attr ≠ "signonmsgsrqv1") (hmsg : (msgCls, tMSGS) ∈ reqTable) {uuid : Str}
    {cis : Nat} {fs : List (Str × Node)}
    (hsoc : signonClauses S cfg userid password dtc (.agg cis fs []) = [])
    {want : Exp} {trn : Node} (hwant : want.ok S trn = true) (htrn : fieldVal trn "trnuid" = .val (.str uuid))
    {msgs root : Node} (hmsgs : mk S cv msgCls [trn] [] = .ok msgs)
    (hroot : mk S cv "OFX" [] [kv "signonmsgsrqv1" (.agg cis fs []), kv attr msgs] = .ok root) :
    checkSingle S cfg userid password dtc (Int.ofNat cfgVersion) cfgVersion attr msgCls label want root = [] := by
  obtain ⟨ciM, cM, hcM⟩ := reqWF_cls hS hmsg
  obtain ⟨fM, rfl, hclsM, _, hothM⟩ := mk_spec hcv hcM (forall_kw_nil _) hmsgs
  obtain ⟨ciO, cO, hcO⟩ := reqWF_cls hS (name := "OFX") (tbl := tOFX) (by simp [reqTable])
  obtain ⟨fO, rfl, hclsO, hfvO, hothO⟩ := mk_spec hcv hcO
    (forall_kw_cons (kwFit_of hcO (k := "signonmsgsrqv1") (sh := .sub) (by simp) (fits_agg _ _ _))
    (forall_kw_cons (kwFit_of hcO (k := attr) (sh := .sub) hattr (fits_agg _ _ _))
    (forall_kw_nil _))) hroot
  have hne : "signonmsgsrqv1".toList ≠ attr.toList := fun e => hattr' (String.toList_inj.mp e).symm
  have hso' : fieldVal (.agg ciO fO []) "signonmsgsrqv1" = .agg cis fs [] := by
    rw [hfvO]; simp [kwval, lookup, kv]
  have hms' : fieldVal (.agg ciO fO []) attr = .agg ciM fM [trn] := by
    rw [hfvO]
    show normNode ((lookup attr.toList (("signonmsgsrqv1".toList, _) :: [(attr.toList, _)])).getD _) = _
    rw [lookup_cons_ne hne]
    simp [lookup]
  have hoth := hothO ["signonmsgsrqv1", attr] (by simp [kv])
  have hothM' := hothM [] (by simp)
  simp [checkSingle, headerClause, rootClauses, trnuidClause, trnuidsOf, clause, hclsO, Node.items, hoth, hso', hsoc,
    hms', hclsM, hothM', all2, hwant, htrn, strOf, nodupB]

/-- `request_accounts`: if composition succeeds the instance satisfies the account-info request spec -/
theorem requestAccounts_spec (hS : ReqWF S = true) (hcv : ConvOK cv Ptext) (cfg : Cfg) (pw : Str)
    (dtacctup : Option DT) (us : Nat → Str) (dtc : DT) (htexts : ∀ s ∈ cfg.texts, Ptext s) (hpw : Ptext pw)
    (hu : Ptext (us 0)) (hne : us 0 ≠ []) {root : Node}
    (h : requestAccounts S cv cfg pw dtacctup us dtc = .ok root) :
    checkAccounts S cfg pw dtc dtacctup (Int.ofNat cfg.version) root = [] := by
  simp only [requestAccounts] at h
  obtain ⟨so, hso, h1⟩ := bind_ok h
  obtain ⟨rq, hrq, h2⟩ := bind_ok h1
  obtain ⟨trn, htrn, h3⟩ := bind_ok h2
  obtain ⟨msgs, hmsgs, hroot⟩ := bind_ok h3
  clear h h1 h2 h3
  obtain ⟨hsoc, cis, fs, rfl⟩ := signon_spec hS hcv cfg pw none dtc htexts hpw (by simp) hso
  obtain ⟨ci, c, hc⟩ := reqWF_cls hS (name := "ACCTINFORQ") (tbl := tACCTINFORQ) (by simp [reqTable])
  obtain ⟨f, rfl, hcls, hfv, hoth⟩ := mk_spec hcv hc
    (forall_kw_cons (kwFit_of hc (k := "dtacctup") (sh := .date) (by simp) (fits_odt _)) (forall_kw_nil _)) hrq
  have ho := hoth ["dtacctup"] (by simp [kv])
  have he : (Exp.agg "ACCTINFORQ" [("dtacctup", .leaf (.date dtacctup))] []).ok S (.agg ci f []) = true := by
    simp [Exp.ok, fieldsOk, fieldNames, all2, hcls, hfv, ho, Node.items, kwval, lookup, kv, want_date]
  obtain ⟨hw, _, htr⟩ := trnrq_spec hS hcv (name := "ACCTINFOTRNRQ") (inner := "acctinforq")
    (tbl := tACCTINFOTRNRQ) (by simp [reqTable]) (by simp) (by simp) (by decide) hu hne he htrn
  exact single_spec hS hcv cfg cfg.userid pw dtc cfg.version (attr := "signupmsgsrqv1") (msgCls := "SIGNUPMSGSRQV1")
    (by simp) (by decide) (by simp [reqTable]) hsoc hw htr hmsgs hroot

/-- `_request_profile`: anonymous sign-on, PROFRQ with CLIENTROUTING NONE and the given (or the default) DTPROFUP -/
theorem requestProfile_spec (hS : ReqWF S = true) (hcv : ConvOK cv Ptext) (cfg : Cfg)
    (dtprofup : Option DT) (us : Nat → Str) (dtc : DT) (htexts : ∀ s ∈ cfg.texts, Ptext s)
    (hph : Ptext authPlaceholder) (hnone : Ptext "NONE".toList)
    (hu : Ptext (us 0)) (hne : us 0 ≠ []) {root : Node}
    (h : requestProfile S cv cfg dtprofup us dtc = .ok root) :
    checkProfile S cfg dtc dtprofup none (Int.ofNat cfg.version) root = [] := by
  simp only [requestProfile] at h
  obtain ⟨rq, hrq, h1⟩ := bind_ok h
  obtain ⟨trn, htrn, h2⟩ := bind_ok h1
  obtain ⟨so, hso, h3⟩ := bind_ok h2
  obtain ⟨msgs, hmsgs, hroot⟩ := bind_ok h3
  clear h h1 h2 h3
  obtain ⟨hsoc, cis, fs, rfl⟩ := signon_spec hS hcv cfg authPlaceholder (some authPlaceholder) dtc htexts hph
    (by intro s hs; simp only [Option.some.injEq] at hs; exact hs ▸ hph) hso
  obtain ⟨ci, c, hc⟩ := reqWF_cls hS (name := "PROFRQ") (tbl := tPROFRQ) (by simp [reqTable])
  obtain ⟨f, rfl, hcls, hfv, hoth⟩ := mk_spec hcv hc
    (forall_kw_cons (kwFit_of hc (k := "clientrouting") (sh := .text) (by simp) (fits_sv hnone))
    (forall_kw_cons (kwFit_of hc (k := "dtprofup") (sh := .date) (by simp) (fits_dt _)) (forall_kw_nil _))) hrq
  have ho := hoth ["clientrouting", "dtprofup"] (by simp [kv])
  have he : (Exp.agg "PROFRQ" [("clientrouting", .leaf (.str "NONE".toList)),
      ("dtprofup", .leaf (.date (some (orDefault dtprofup defaultDtprofup))))] []).ok S (.agg ci f []) = true := by
    have h1 : Want.ok (.str ['N', 'O', 'N', 'E']) (normNode (sv ['N', 'O', 'N', 'E'])) = true := by decide
    simp [Exp.ok, fieldsOk, fieldNames, all2, hcls, hfv, ho, Node.items, kwval, lookup, kv, want_dt, h1]
  obtain ⟨hw, _, htr⟩ := trnrq_spec hS hcv (name := "PROFTRNRQ") (inner := "profrq")
    (tbl := tPROFTRNRQ) (by simp [reqTable]) (by simp) (by simp) (by decide) hu hne he htrn
  exact single_spec hS hcv cfg authPlaceholder authPlaceholder dtc cfg.version (attr := "profmsgsrqv1")
    (msgCls := "PROFMSGSRQV1") (by simp) (by decide) (by simp [reqTable]) hsoc hw htr hmsgs hroot

end
/-! ## Part 11: the tax request (`TAX1099RQ` is an `ElementList`) -/

/-- the schema facts used for `TAX1099RQ`: found by name, distinct attribute names, `acctnum`/`recid` texts, an
    `ElementList` whose one `ListElement` attribute converts integers -/
def taxWFB (S : Schema) : Bool :=
  match S.findIdx? "TAX1099RQ".toList with
  | none => false
  | some ci =>
    match S.cls? ci with
    | none => false
    | some c =>
      c.elementList && nodupB ((specNoList c).map (·.name)) &&
        tTAXRQ.all (fun p => (specNoList c).any (fun a => decide (a.name = p.1.toList) &&
          decide (Shape.ofKind a.kind = some p.2))) &&
        (match c.spec.filter (fun a => a.kind.isListElem) with
         | [a] => (match a.kind with | .listElem (.integer _) _ => true | _ => false)
         | _ => false)

structure TaxWF (S : Schema) (ci : Nat) (c : Cls) : Prop where
  fits : ClsFits0 S "TAX1099RQ" tTAXRQ ci c
  el : c.elementList = true
  elem : ∃ a l ireq, c.spec.filter (fun a => a.kind.isListElem) = [a] ∧ a.kind = .listElem (.integer l) ireq

theorem taxWF_of {S : Schema} (h : taxWFB S = true) : ∃ ci c, TaxWF S ci c := by
  unfold taxWFB at h
  split at h
  · simp at h
  rename_i ci hci
  split at h
  · simp at h
  rename_i c hc
  simp only [Bool.and_eq_true, List.all_eq_true, List.any_eq_true, decide_eq_true_eq] at h
  obtain ⟨⟨⟨hel, hnd⟩, hattrs⟩, hle⟩ := h
  refine ⟨ci, c, ⟨hci, hc, nodupB_nodup _ hnd, ?_⟩, hel, ?_⟩
  · intro k sh hm
    obtain ⟨a, ha, hn, hs⟩ := hattrs (k, sh) hm
    exact ⟨a, ha, hn, hs⟩
  · split at hle
    · rename_i a ha
      split at hle
      · rename_i l ireq hk
        exact ⟨a, l, ireq, ha, hk⟩
      · simp at hle
    · simp at hle

/-- what C06 assumes of the integer converter on canonical decimal texts (tax years) -/
def ConvYear (cv : Conv) : Prop :=
  ∀ enums l r (j : Int) v', cv.convert enums (.integer l) r (.str (pyStrInt j)) = .ok v' → v' = .int j

theorem conv_year : ConvYear Types.conv := by
  intro enums l r j v' h
  simp only [Types.conv, Types.convert, Types.integerConvert] at h
  have hne : (pyStrInt j).length ≠ 0 := fun h0 => Ofx.Types.pyStrInt_ne_nil j (List.length_eq_zero_iff.mp h0)
  simp only [hne, if_false, pyIntParse_pyStrInt, bind, Except.bind] at h
  split at h
  · simp at h
  · simp only [pure, Except.pure, Except.ok.injEq] at h; exact h.symm

theorem want_ostr_orNone (o : Option Str) : Want.ok (.ostr o) (normNode (osv (orNone o))) = true := by
  cases o with
  | none => simp [orNone, osv, normNode, norm, Want.ok, emptyAsNone]
  | some s =>
    cases s with
    | nil => simp [orNone, osv, normNode, norm, Want.ok, emptyAsNone]
    | cons c cs => simp [orNone, osv, normNode, norm, Want.ok, emptyAsNone]

section
variable {S : Schema} {cv : Conv} {Ptext : Str → Prop}

/-- **the tax request**: `request_tax1099(password, *taxyears, acctnum=…, recid=…)` places the account number, the
    record id and the tax years exactly as given -/
theorem requestTax_spec (hS : ReqWF S = true) (hT : taxWFB S = true) (hcv : ConvOK cv Ptext) (hy : ConvYear cv)
    (cfg : Cfg) (pw : Str) (years : List Str) (acctnum recid : Option Str) (us : Nat → Str) (dtc : DT)
    (htexts : ∀ s ∈ cfg.texts, Ptext s) (hpw : Ptext pw)
    (hacct : ∀ s, acctnum = some s → Ptext s) (hrec : ∀ s, recid = some s → Ptext s)
    (hyears : ∀ y ∈ years, ∃ j : Int, y = pyStrInt j)
    (hu : Ptext (us 0)) (hne : us 0 ≠ []) {root : Node}
    (h : requestTax S cv cfg pw years acctnum recid us dtc = .ok root) :
    checkTax S cfg pw dtc years acctnum recid (Int.ofNat cfg.version) root = [] := by
  simp only [requestTax] at h
  obtain ⟨so, hso, h1⟩ := bind_ok h
  obtain ⟨rq, hrq, h2⟩ := bind_ok h1
  obtain ⟨trn, htrn, h3⟩ := bind_ok h2
  obtain ⟨msgs, hmsgs, hroot⟩ := bind_ok h3
  clear h h1 h2 h3
  obtain ⟨hsoc, cis, fs, rfl⟩ := signon_spec hS hcv cfg pw none dtc htexts hpw (by simp) hso
  obtain ⟨ci, c, hT⟩ := taxWF_of hT
  have horN : ∀ (o : Option Str), (∀ s, o = some s → Ptext s) → ∀ s, orNone o = some s → Ptext s := by
    intro o ho s hs
    cases o with
    | none => simp [orNone] at hs
    | some t =>
      simp only [orNone] at hs
      split at hs
      · simp at hs
      · simp only [Option.some.injEq] at hs; exact hs ▸ ho t rfl
  obtain ⟨f, items, rfl, hitems, hcls, hfv, hoth⟩ := mk_fields hcv hT.fits
    (forall_kw_cons (kwFit_of0 hT.fits (k := "acctnum") (sh := .text) (by simp) (fits_osv (horN _ hacct)))
    (forall_kw_cons (kwFit_of0 hT.fits (k := "recid") (sh := .text) (by simp) (fits_osv (horN _ hrec)))
    (forall_kw_nil _))) hrq
  -- the tax years
  have hit : all2 Want.ok (years.map Want.year) items = true := by
    obtain ⟨a, l, ireq, hfil, hk⟩ := hT.elem
    simp only [applyArgs, hT.el, if_true, hfil, hk] at hitems
    have hrel := mapM_forall2 hitems
    clear hitems hrq
    generalize items = its at hrel
    induction years generalizing its with
    | nil => cases hrel; rfl
    | cons y ys ih =>
      simp only [List.map_cons] at hrel
      cases hrel with
      | cons hab hrest =>
        obtain ⟨j, hj⟩ := hyears y (by simp)
        subst hj
        simp only [sv, Node.toVal, Except.map] at hab
        split at hab
        · simp at hab
        · rename_i v hv
          simp only [Except.ok.injEq] at hab
          subst hab
          rw [hy _ _ _ _ _ hv]
          simp only [List.map_cons, all2, Want.ok, decide_true, Bool.true_and]
          exact ih (fun y hy' => hyears y (List.mem_cons_of_mem _ hy')) _ hrest
  have ho := hoth ["acctnum", "recid"] (by simp [kv])
  have he : (expTaxRq years acctnum recid).ok S (.agg ci f items) = true := by
    simp [expTaxRq, Exp.ok, fieldsOk, fieldNames, hcls, hfv, ho, Node.items, kwval, lookup, kv, want_ostr_orNone, hit]
  obtain ⟨hw, _, htr⟩ := trnrq_spec hS hcv (name := "TAX1099TRNRQ") (inner := "tax1099rq")
    (tbl := tTAXTRNRQ) (by simp [reqTable]) (by simp) (by simp) (by decide) hu hne he htrn
  exact single_spec hS hcv cfg cfg.userid pw dtc cfg.version (attr := "tax1099msgsrqv1")
    (msgCls := "TAX1099MSGSRQV1") (by simp) (by decide) (by simp [reqTable]) hsoc hw htr hmsgs hroot

end
/-! ## Part 12: the composed request is a `Valid` instance (so the file round trip C01 applies) -/

/-- a datetime keyword satisfies `Pd` -/
def NodeWire (Pd : DT → Prop) : Node → Prop
  | .val (.dt d) => Pd d
  | _ => True

/-- what C06 assumes of the converters to land in the wire domain `Dom`: a conversion never yields `None` for a
    required element; texts satisfying `Ptext`, bools and datetimes satisfying `Pd` that are converted to themselves
    are in `Dom` -/
structure ConvInto (cv : Conv) (enums : List (List Str)) (Dom : Kind → Bool → Val → Prop) (Ptext : Str → Prop)
    (Pd : DT → Prop) : Prop where
  req_none : ∀ k r, k.isList = false → k.isUnsupported = false → Kind.subTarget k = none →
    cv.convert enums k r .none = .ok .none → r = false
  req_empty : ∀ k r, Shape.ofKind k = some .text → cv.convert enums k r (.str []) = .ok .none → r = false
  text : ∀ k r s, Shape.ofKind k = some .text → Ptext s → s ≠ [] → cv.convert enums k r (.str s) = .ok (.str s) →
    Dom k r (.str s)
  flag : ∀ k r b, Shape.ofKind k = some .flag → Dom k r (.bool b)
  date : ∀ k r d, Shape.ofKind k = some .date → Pd d → Dom k r (.dt d)

section
variable {S : Schema} {cv : Conv} {Ptext : Str → Prop} {Pd : DT → Prop} {esc : Str → Str}
  {Dom : Kind → Bool → Val → Prop}

/-- a keyword argument as `mk_valid` needs it: `None`, or a value fitting the shape of the attribute it names,
    datetimes in `Pd`, aggregates valid and of exactly the attribute's class -/
def KwWire (S : Schema) (cv : Conv) (esc : Str → Str) (Dom : Kind → Bool → Val → Prop) (c : Cls)
    (Ptext : Str → Prop) (Pd : DT → Prop) (p : Str × Node) : Prop :=
  p.2 = .val .none ∨ ∃ a ∈ specNoList c, a.name = p.1 ∧ ∃ sh, Shape.ofKind a.kind = some sh ∧ sh.fits Ptext p.2 ∧
    NodeWire Pd p.2 ∧ (∀ cj f i, p.2 = .agg cj f i → a.kind = .sub cj ∧ Valid S cv esc Dom p.2)

theorem KwWire.fit {c : Cls} {p : Str × Node} (h : KwWire S cv esc Dom c Ptext Pd p) : KwFit c Ptext p := by
  rcases h with h | ⟨a, ha, hn, sh, hs, hf, _⟩
  · exact Or.inl h
  · exact Or.inr ⟨a, ha, hn, sh, hs, hf⟩

/-- an attribute that was given `None` (or nothing) holds an admissible `None` -/
theorem fieldOk_none (hcv : ConvOK cv Ptext) (hinto : ConvInto cv S.enums Dom Ptext Pd) (a : Attr)
    (hnl : a.kind.isList = false) (hu : a.kind.isUnsupported = false)
    (hset : setAttr S cv a (.val .none) = .ok (some (.val .none))) : FieldOk Dom a (.val .none) := by
  unfold FieldOk
  split
  · rename_i t hst
    left
    refine ⟨rfl, ?_⟩
    have hk : a.kind = .sub t := by cases hka : a.kind <;> simp_all [Kind.subTarget]
    simp only [setAttr, hk, convertSub] at hset
    split at hset
    · simp [Except.map] at hset
    · rename_i hr; simpa using hr
  · rename_i hst
    refine ⟨.none, rfl, fun _ => ?_, fun hne => absurd rfl hne⟩
    have hconv : cv.convert S.enums a.kind a.required .none = .ok .none := by
      unfold setAttr at hset
      split at hset
      · simp at hset
      · rename_i t hk; simp [hk, Kind.subTarget] at hst
      · simp at hset
      · simp at hset
      · simp only [Node.toVal, Except.map] at hset
        split at hset
        · simp at hset
        · rename_i v' hv'
          have := hcv.none _ _ _ _ hv'
          subst this
          exact hv'
    exact hinto.req_none _ _ hnl hu hst hconv

/-- a leaf attribute that was given a wire value holds an admissible value -/
theorem fieldOk_leaf (hcv : ConvOK cv Ptext) (hinto : ConvInto cv S.enums Dom Ptext Pd) (a : Attr) (sh : Shape)
    (x : Val) (hsh : Shape.ofKind a.kind = some sh) (hsub : sh ≠ .sub) (hfit : sh.fits Ptext (.val x))
    (hwire : NodeWire Pd (.val x))
    (hset : setAttr S cv a (.val x) = .ok (some (normNode (.val x)))) : FieldOk Dom a (normNode (.val x)) := by
  have hst : Kind.subTarget a.kind = none := by
    cases hka : a.kind <;> simp_all [Kind.subTarget, Shape.ofKind]
  have hconv : cv.convert S.enums a.kind a.required x = .ok (norm x) := by
    unfold setAttr at hset
    split at hset
    · simp at hset
    · rename_i t hk; simp [hk, Kind.subTarget] at hst
    · simp at hset
    · simp at hset
    · simp only [Node.toVal, Except.map, normNode] at hset
      split at hset
      · simp at hset
      · rename_i v' hv'
        simp only [Except.ok.injEq, Option.some.injEq, Node.val.injEq] at hset
        rw [hset] at hv'; exact hv'
  unfold FieldOk
  rw [hst]
  refine ⟨norm x, rfl, ?_, ?_⟩
  · intro hn
    cases x with
    | none => 
      have hnl : a.kind.isList = false := by cases hka : a.kind <;> simp_all [Kind.isList, Shape.ofKind]
      have hu : a.kind.isUnsupported = false := by cases hka : a.kind <;> simp_all [Kind.isUnsupported, Shape.ofKind]
      exact hinto.req_none _ _ hnl hu hst hconv
    | str s =>
      cases s with
      | nil =>
        have hte : sh = .text := by cases sh <;> simp_all [Shape.fits]
        subst hte
        exact hinto.req_empty _ _ hsh hconv
      | cons ch cs => simp [norm] at hn
    | _ => simp [norm] at hn
  · intro hn
    cases x with
    | none => simp [norm] at hn
    | str s =>
      cases s with
      | nil => simp [norm] at hn
      | cons ch cs =>
        have hte : sh = .text := by cases sh <;> simp_all [Shape.fits]
        subst hte
        exact hinto.text _ _ _ hsh (by simpa [Shape.fits] using hfit) (by simp) hconv
    | bool b =>
      have hte : sh = .flag := by cases sh <;> simp_all [Shape.fits]
      subst hte
      exact hinto.flag _ _ _ hsh
    | dt d =>
      have hte : sh = .date := by cases sh <;> simp_all [Shape.fits]
      subst hte
      exact hinto.date _ _ _ hsh (by simpa [NodeWire] using hwire)
    | int i => cases sh <;> simp [Shape.fits] at hfit
    | dec d => cases sh <;> simp [Shape.fits] at hfit
    | tm t => cases sh <;> simp [Shape.fits] at hfit
    | other k => cases sh <;> simp [Shape.fits] at hfit

/-- **`Cls(*args, **kw)` is a `Valid` instance** when the class satisfies the round-trip premises, the keywords are
    wire values (`KwWire`), the list members are valid and `validate_args` accepts the written-back keywords -/
theorem mk_valid (hcv : ConvOK cv Ptext) (hinto : ConvInto cv S.enums Dom Ptext Pd) {name : String}
    {tbl : List (String × Shape)} {ci : Nat} {c : Cls} (hc : ClsFits S name tbl ci c) (hpl : ClsPlain S c ci)
    {args : List Node} {kw : List (Str × Node)} {n : Node}
    (hkw : ∀ p ∈ kw, KwWire S cv esc Dom c Ptext Pd p)
    (hargs : ∀ m ∈ args, Valid S cv esc Dom m ∧
      ∃ cj f i cjc, m = .agg cj f i ∧ S.cls? cj = some cjc ∧ '.' ∉ cjc.name)
    (hval : ∀ fields, setAttrs S cv (specNoList c) kw = .ok fields →
      validateArgs S c args (rawKwOf S cv esc fields c.spec) = .ok ())
    (h : mk S cv name args kw = .ok n) : Valid S cv esc Dom n := by
  simp only [mk, hc.idx] at h
  apply construct_valid S cv esc Dom hpl h _ hargs hval
  intro a ha hu v hset
  have hnl : a.kind.isList = false := by simpa [specNoList] using (List.mem_filter.mp ha).2
  have hnonecase : ∀ v, setAttr S cv a (.val .none) = .ok (some v) →
      FieldOk Dom a v ∧ (v.isAgg = true → Valid S cv esc Dom v) := by
    intro v hset
    rcases setAttr_none hcv a _ hset with h0 | h0
    · simp at h0
    · simp only [Option.some.injEq] at h0
      subst h0
      exact ⟨fieldOk_none hcv hinto a hnl hu hset, by simp [Node.isAgg]⟩
  cases hl : lookup a.name kw with
  | none =>
    rw [hl] at hset
    exact hnonecase v hset
  | some v0 =>
    rw [hl] at hset
    simp only [Option.getD_some] at hset
    rcases hkw _ (lookup_mem hl) with hnone | ⟨a', ha', hn', sh, hsh, hfit, hwire, hagg⟩
    · simp only at hnone
      subst hnone
      exact hnonecase v hset
    · have : a' = a := nodup_map_inj (·.name) hc.nodup ha' ha hn'
      subst this
      have hv := setAttr_faithful hcv a' sh v0 _ hsh hfit hset
      simp only [Option.some.injEq] at hv
      subst hv
      cases v0 with
      | agg cj f i =>
        obtain ⟨hk, hvalid⟩ := hagg cj f i rfl
        refine ⟨?_, fun _ => hvalid⟩
        unfold FieldOk
        simp only [hk, Kind.subTarget, normNode]
        exact Or.inr ⟨f, i, rfl⟩
      | val x =>
        by_cases hx : x = .none
        · subst hx
          exact hnonecase _ hset
        · have hsub : sh ≠ .sub := by
            intro e; subst e
            cases x with
            | none => exact hx rfl
            | _ => simp [Shape.fits] at hfit
          exact ⟨fieldOk_leaf hcv hinto a' sh x hsh hsub hfit hwire hset, by simp [normNode, Node.isAgg]⟩

end

/-! ### the class-level premises, as a decidable predicate on the schema -/

def wireClsB (S : Schema) (name : String) (tbl : List (String × Shape)) : Bool :=
  match S.findIdx? name.toList with
  | none => false
  | some ci =>
    match S.cls? ci with
    | none => false
    | some c =>
      !c.abstract && Ofx.WF.roundTripOk S c && !c.elementList && decide (c.groom = none) && decide (c.ungroom = none) &&
      !c.name.contains '.' &&
      tbl.all (fun p => p.2 != Shape.sub || (specNoList c).any (fun a => decide (a.name = p.1.toList) &&
        (match a.kind with
         | .sub t => decide (S.findIdx? (upper p.1.toList) = some t)
         | _ => false)))

/-- no hand-coded `validate_args`, no exclusivity groups -/
def trivValB (S : Schema) (name : String) : Bool :=
  match S.findIdx? name.toList with
  | none => false
  | some ci =>
    match S.cls? ci with
    | none => false
    | some c => decide (c.extra = .none) && c.optMutex.isEmpty && c.reqMutex.isEmpty

structure WireCls (S : Schema) (tbl : List (String × Shape)) (ci : Nat) (c : Cls) : Prop where
  plain : ClsPlain S c ci
  nodot : '.' ∉ c.name
  sub : ∀ k, (k, Shape.sub) ∈ tbl → ∃ a ∈ specNoList c, a.name = k.toList ∧ ∃ t, a.kind = .sub t ∧
    S.findIdx? (upper k.toList) = some t

theorem findIdx_name {S : Schema} {tag : Str} {ci : Nat} {c : Cls} (h : S.findIdx? tag = some ci)
    (hc : S.cls? ci = some c) : c.name = tag := by
  simp only [Schema.findIdx?] at h
  rw [List.findIdx?_eq_some_iff_getElem] at h
  obtain ⟨h1, ha, _⟩ := h
  simp only [Schema.cls?] at hc
  rw [List.getElem?_eq_getElem h1] at hc
  simp only [Option.some.injEq] at hc
  subst hc
  simp only [Bool.and_eq_true, beq_iff_eq] at ha
  exact ha.1

theorem wireCls_of {S : Schema} {name : String} {tbl : List (String × Shape)} {ci : Nat} {c : Cls}
    (hf : ClsFits S name tbl ci c) (h : wireClsB S name tbl = true) : WireCls S tbl ci c := by
  unfold wireClsB at h
  rw [hf.idx] at h
  simp only [hf.cls] at h
  simp only [Bool.and_eq_true, Bool.not_eq_eq_eq_not, Bool.not_true, decide_eq_true_eq, List.all_eq_true,
    Bool.or_eq_true, bne_iff_ne, ne_eq, List.any_eq_true] at h
  obtain ⟨⟨⟨⟨⟨⟨habs, hrt⟩, hel⟩, hg⟩, hug⟩, hdot⟩, hsub⟩ := h
  have hname := findIdx_name hf.idx hf.cls
  refine ⟨⟨hf.cls, habs, by rw [hname]; exact hf.idx, Ofx.WF.roundTripOk_clsWF S c hrt, hel, hg, hug⟩, ?_, ?_⟩
  · simpa using hdot
  · intro k hk
    rcases hsub (k, .sub) hk with h1 | ⟨a, ha, hn, hkind⟩
    · exact absurd rfl h1
    · refine ⟨a, ha, hn, ?_⟩
      split at hkind
      · rename_i t hka
        exact ⟨t, hka, by simpa using hkind⟩
      · simp at hkind

theorem trivVal_of {S : Schema} {name : String} {tbl : List (String × Shape)} {ci : Nat} {c : Cls}
    (hf : ClsFits S name tbl ci c) (h : trivValB S name = true) :
    c.extra = .none ∧ c.optMutex = [] ∧ c.reqMutex = [] := by
  unfold trivValB at h
  rw [hf.idx] at h
  simp only [hf.cls, Bool.and_eq_true, decide_eq_true_eq, List.isEmpty_iff] at h
  exact ⟨h.1.1, h.1.2, h.2⟩

/-- `validate_args` facts of the two request classes that have a hand-coded rule -/
def sonrqValB (S : Schema) : Bool :=
  match S.findIdx? "SONRQ".toList with
  | none => false
  | some ci =>
    match S.cls? ci with
    | none => false
    | some c => decide (c.extra = .sonrq) && c.optMutex.isEmpty && c.reqMutex.isEmpty

def ofxValB (S : Schema) : Bool :=
  match S.findIdx? "OFX".toList with
  | none => false
  | some ci =>
    match S.cls? ci with
    | none => false
    | some c => decide (c.extra = .ofx) && c.optMutex.isEmpty &&
        decide (c.reqMutex = [["signonmsgsrqv1".toList, "signonmsgsrsv1".toList]])

/-- the premises of the file round trip for every class the client instantiates -/
def WireWF (S : Schema) : Bool :=
  reqTable.all (fun p => wireClsB S p.1 p.2) &&
  reqTable.all (fun p => p.1 == "SONRQ" || p.1 == "OFX" || p.1 == "TAX1099MSGSRQV1" || trivValB S p.1) &&
  sonrqValB S && ofxValB S

theorem wireWF_cls {S : Schema} (h : WireWF S = true) {name : String} {tbl : List (String × Shape)}
    (hm : (name, tbl) ∈ reqTable) {ci : Nat} {c : Cls} (hf : ClsFits S name tbl ci c) : WireCls S tbl ci c := by
  simp only [WireWF, Bool.and_eq_true, List.all_eq_true] at h
  exact wireCls_of hf (h.1.1.1 (name, tbl) hm)

theorem wireWF_triv {S : Schema} (h : WireWF S = true) {name : String} {tbl : List (String × Shape)}
    (hm : (name, tbl) ∈ reqTable) (h1 : name ≠ "SONRQ") (h2 : name ≠ "OFX") (h3 : name ≠ "TAX1099MSGSRQV1")
    {ci : Nat} {c : Cls}
    (hf : ClsFits S name tbl ci c) : c.extra = .none ∧ c.optMutex = [] ∧ c.reqMutex = [] := by
  simp only [WireWF, Bool.and_eq_true, List.all_eq_true] at h
  have := h.1.1.2 (name, tbl) hm
  simp only [Bool.or_eq_true, beq_iff_eq, h1, h2, h3, false_or] at this
  exact trivVal_of hf this

theorem wireWF_sonrq {S : Schema} (h : WireWF S = true) {tbl : List (String × Shape)} {ci : Nat} {c : Cls}
    (hf : ClsFits S "SONRQ" tbl ci c) : c.extra = .sonrq ∧ c.optMutex = [] ∧ c.reqMutex = [] := by
  simp only [WireWF, Bool.and_eq_true] at h
  have := h.1.2
  unfold sonrqValB at this
  rw [hf.idx] at this
  simp only [hf.cls, Bool.and_eq_true, decide_eq_true_eq, List.isEmpty_iff] at this
  exact ⟨this.1.1, this.1.2, this.2⟩

theorem wireWF_ofx {S : Schema} (h : WireWF S = true) {tbl : List (String × Shape)} {ci : Nat} {c : Cls}
    (hf : ClsFits S "OFX" tbl ci c) : c.extra = .ofx ∧ c.optMutex = [] ∧
      c.reqMutex = [["signonmsgsrqv1".toList, "signonmsgsrsv1".toList]] := by
  simp only [WireWF, Bool.and_eq_true] at h
  have := h.2
  unfold ofxValB at this
  rw [hf.idx] at this
  simp only [hf.cls, Bool.and_eq_true, decide_eq_true_eq, List.isEmpty_iff] at this
  exact ⟨this.1.1, this.1.2, this.2⟩

section
variable {S : Schema} {cv : Conv} {Ptext : Str → Prop} {Pd : DT → Prop} {esc : Str → Str}
  {Dom : Kind → Bool → Val → Prop}

theorem kwWire_none {c : Cls} (k : String) : KwWire S cv esc Dom c Ptext Pd (kv k (.val .none)) := Or.inl rfl

theorem kwWire_leaf {name : String} {tbl : List (String × Shape)} {ci : Nat} {c : Cls}
    (hc : ClsFits S name tbl ci c) {k : String} {sh : Shape} (hm : (k, sh) ∈ tbl) {x : Val}
    (hv : sh.fits Ptext (.val x)) (hw : NodeWire Pd (.val x)) :
    KwWire S cv esc Dom c Ptext Pd (kv k (.val x)) := by
  obtain ⟨a, ha, hn, hs⟩ := hc.attrs k sh hm
  exact Or.inr ⟨a, ha, hn, sh, hs, hv, hw, by intro cj f i h; cases h⟩

theorem kwWire_osv {name : String} {tbl : List (String × Shape)} {ci : Nat} {c : Cls}
    (hc : ClsFits S name tbl ci c) {k : String} (hm : (k, Shape.text) ∈ tbl) {o : Option Str}
    (h : ∀ s, o = some s → Ptext s) : KwWire S cv esc Dom c Ptext Pd (kv k (osv o)) := by
  cases o with
  | none => exact Or.inl rfl
  | some s => exact kwWire_leaf hc hm (by simpa [Shape.fits] using h s rfl) (by simp [NodeWire])

theorem kwWire_sv {name : String} {tbl : List (String × Shape)} {ci : Nat} {c : Cls}
    (hc : ClsFits S name tbl ci c) {k : String} (hm : (k, Shape.text) ∈ tbl) {s : Str}
    (h : Ptext s) : KwWire S cv esc Dom c Ptext Pd (kv k (sv s)) :=
  kwWire_leaf hc hm (by simpa [Shape.fits] using h) (by simp [NodeWire])

theorem kwWire_odt {name : String} {tbl : List (String × Shape)} {ci : Nat} {c : Cls}
    (hc : ClsFits S name tbl ci c) {k : String} (hm : (k, Shape.date) ∈ tbl) {o : Option DT}
    (h : ∀ d, o = some d → Pd d) : KwWire S cv esc Dom c Ptext Pd (kv k (odt o)) := by
  cases o with
  | none => exact Or.inl rfl
  | some d => exact kwWire_leaf hc hm (by simp [Shape.fits]) (by simpa [NodeWire] using h d rfl)

theorem kwWire_obv {name : String} {tbl : List (String × Shape)} {ci : Nat} {c : Cls}
    (hc : ClsFits S name tbl ci c) {k : String} (hm : (k, Shape.flag) ∈ tbl) (o : Option Bool) :
    KwWire S cv esc Dom c Ptext Pd (kv k (obv o)) := by
  cases o with
  | none => exact Or.inl rfl
  | some b => exact kwWire_leaf hc hm (by simp [Shape.fits]) (by simp [NodeWire])

theorem kwWire_sub {tbl : List (String × Shape)} {ci : Nat} {c : Cls} (hw : WireCls S tbl ci c) {k : String}
    (hm : (k, Shape.sub) ∈ tbl) {cj : Nat} {f : List (Str × Node)} {i : List Node}
    (hidx : S.findIdx? (upper k.toList) = some cj) (hvalid : Valid S cv esc Dom (.agg cj f i)) :
    KwWire S cv esc Dom c Ptext Pd (kv k (.agg cj f i)) := by
  obtain ⟨a, ha, hn, t, hk, ht⟩ := hw.sub k hm
  rw [hidx] at ht
  simp only [Option.some.injEq] at ht
  subst ht
  refine Or.inr ⟨a, ha, hn, .sub, by simp [hk, Shape.ofKind], by simp [Shape.fits, kv], by simp [NodeWire, kv], ?_⟩
  intro cj' f' i' h
  simp only [kv, Node.agg.injEq] at h
  obtain ⟨rfl, rfl, rfl⟩ := h
  exact ⟨hk, hvalid⟩

/-- plain class without validation rules: `Cls(*args, **kw)` is `Valid` -/
theorem mk_valid_triv (hcv : ConvOK cv Ptext) (hinto : ConvInto cv S.enums Dom Ptext Pd) {name : String}
    {tbl : List (String × Shape)} {ci : Nat} {c : Cls} (hc : ClsFits S name tbl ci c) (hw : WireCls S tbl ci c)
    (ht : c.extra = .none ∧ c.optMutex = [] ∧ c.reqMutex = [])
    {args : List Node} {kw : List (Str × Node)} {n : Node}
    (hkw : ∀ p ∈ kw, KwWire S cv esc Dom c Ptext Pd p)
    (hargs : ∀ m ∈ args, Valid S cv esc Dom m ∧
      ∃ cj f i cjc, m = .agg cj f i ∧ S.cls? cj = some cjc ∧ '.' ∉ cjc.name)
    (h : mk S cv name args kw = .ok n) : Valid S cv esc Dom n :=
  mk_valid hcv hinto hc hw.plain hkw hargs (fun _ _ => validate_trivial S c _ _ ht.1 ht.2.1 ht.2.2) h

/-- a written-back keyword comes from a supported, non-repeated attribute whose field is written -/
theorem rawKwOf_lookup_some (fields : List (Str × Node)) : ∀ (L : List Attr) (k : Str) (r : Node),
    lookup k (rawKwOf S cv esc fields L) = some r →
    ∃ a ∈ L, a.name = k ∧ ∃ v, lookup a.name fields = some v ∧ rawField S cv esc a v = some r
  | [], k, r, h => by simp [rawKwOf, lookup] at h
  | b :: L, k, r, h => by
    have ih := fun h' => rawKwOf_lookup_some fields L k r h'
    have lift : (∃ a ∈ L, a.name = k ∧ ∃ v, lookup a.name fields = some v ∧ rawField S cv esc a v = some r) →
        ∃ a ∈ b :: L, a.name = k ∧ ∃ v, lookup a.name fields = some v ∧ rawField S cv esc a v = some r := by
      rintro ⟨a, ha, hr⟩; exact ⟨a, List.mem_cons_of_mem _ ha, hr⟩
    simp only [rawKwOf] at h
    split at h
    · exact lift (ih h)
    · split at h
      · rename_i v hv
        split at h
        · rename_i r' hr'
          simp only [lookup] at h
          split at h
          · rename_i hbk
            simp only [Option.some.injEq] at h
            subst h
            exact ⟨b, by simp, hbk, v, hv, hr'⟩
          · exact lift (ih h)
        · exact lift (ih h)
      · exact lift (ih h)

/-- `rawField` of a `None` field is nothing -/
theorem rawField_none (a : Attr) : rawField S cv esc a (.val .none) = none := rfl

/-- a keyword that was not passed (its field is `None` wherever it is stored) is not written back -/
theorem rawKw_absent (fields : List (Str × Node)) (L : List Attr) (k : Str)
    (h : ∀ v, lookup k fields = some v → v = .val .none) : lookup k (rawKwOf S cv esc fields L) = none := by
  cases hl : lookup k (rawKwOf S cv esc fields L) with
  | none => rfl
  | some r =>
    obtain ⟨a, _, hn, v, hv, hr⟩ := rawKwOf_lookup_some fields L k r hl
    rw [hn] at hv
    rw [h v hv, rawField_none] at hr
    cases hr

/-- a text field that holds a non-empty value of the wire domain is written back as a truthy keyword -/
theorem rawKw_truthy (laws : ConvLaws cv S.enums esc Dom) (fields : List (Str × Node)) (L : List Attr)
    (hnd : (L.map (·.name)).Nodup) (a : Attr) (ha : a ∈ L) (hl : a.kind.isList = false)
    (hu : a.kind.isUnsupported = false) (x : Val) (hx : x ≠ .none) (hf : lookup a.name fields = some (.val x))
    (hd : Dom a.kind a.required x) (k : String) (hk : a.name = k.toList) :
    kwTruthy (rawKwOf S cv esc fields L) k = true := by
  obtain ⟨s, hs, hne, _⟩ := laws.round _ _ _ hd hx
  have := lookup_rawKwOf S cv esc fields L hnd a ha hl hu _ hf
  have hraw : rawField S cv esc a (.val x) = some (.val (.str (esc s))) := by
    cases x with
    | none => exact absurd rfl hx
    | _ => simp [rawField, hs]
  rw [hraw, hk] at this
  simp only [kwTruthy, this, truthy]
  cases hes : esc s with
  | nil => exact absurd hes hne
  | cons _ _ => rfl

/-- a text keyword stored by `setattr`: where it is found in the instance dict, and that it is a wire value -/
theorem stored_text (hcv : ConvOK cv Ptext) (hinto : ConvInto cv S.enums Dom Ptext Pd) {name : String}
    {tbl : List (String × Shape)} {ci : Nat} {c : Cls} (hc : ClsFits S name tbl ci c) {k : String}
    (hm : (k, Shape.text) ∈ tbl) {kw : List (Str × Node)} {u : Str} (hkw : lookup k.toList kw = some (sv u))
    (hu : u ≠ []) (hP : Ptext u) {fields : List (Str × Node)}
    (hs : setAttrs S cv (specNoList c) kw = .ok fields) :
    ∃ a ∈ c.spec, a.name = k.toList ∧ a.kind.isList = false ∧ a.kind.isUnsupported = false ∧
      lookup a.name fields = some (.val (.str u)) ∧ Dom a.kind a.required (.str u) := by
  obtain ⟨a, ha, hn, hsh⟩ := hc.attrs k .text hm
  obtain ⟨r, hr, hl⟩ := setAttrs_lookup (specNoList c) kw fields hs hc.nodup a ha
  have hkv : kwval kw a.name = sv u := by simp [kwval, hn, hkw]
  rw [hkv] at hr
  have hfit : Shape.text.fits Ptext (sv u) := by simpa [sv, Shape.fits] using hP
  have hrv := setAttr_faithful hcv a .text (sv u) r hsh hfit hr
  subst hrv
  have hfo := fieldOk_leaf (Dom := Dom) (Pd := Pd) hcv hinto a .text (.str u) hsh (by decide) hfit
    (by simp [NodeWire]) hr
  have hnorm : normNode (.val (.str u)) = .val (.str u) := by
    cases u with
    | nil => exact absurd rfl hu
    | cons _ _ => rfl
  have hst : Kind.subTarget a.kind = none := by cases hka : a.kind <;> simp_all [Kind.subTarget, Shape.ofKind]
  rw [hnorm] at hfo
  unfold FieldOk at hfo
  rw [hst] at hfo
  obtain ⟨x, hx, _, hd⟩ := hfo
  simp only [Node.val.injEq] at hx
  subst hx
  refine ⟨a, (List.mem_filter.mp ha).1, hn, ?_, ?_, ?_, hd (by simp)⟩
  · cases hka : a.kind <;> simp_all [Kind.isList, Shape.ofKind]
  · cases hka : a.kind <;> simp_all [Kind.isUnsupported, Shape.ofKind]
  · rw [hl]; simp only [sv] ; rw [show normNode (Node.val (Val.str u)) = .val (.str u) from hnorm]

/-- a keyword that was not passed is stored as `None` (if at all) -/
theorem stored_absent (hcv : ConvOK cv Ptext) {c : Cls} {kw : List (Str × Node)} {k : Str}
    (hk : lookup k kw = none) {fields : List (Str × Node)} (hs : setAttrs S cv (specNoList c) kw = .ok fields) :
    ∀ v, lookup k fields = some v → v = .val .none := by
  intro v hv
  obtain ⟨a, _, hn, hset⟩ := setAttrs_mem (specNoList c) kw fields hs k v (lookup_mem hv)
  have : kwval kw k = .val .none := by simp [kwval, hk]
  rw [this] at hset
  rcases setAttr_none hcv a _ hset with h0 | h0
  · simp at h0
  · simpa using h0

end
/-! ## Part 13: the builders return `Valid` instances -/

section
variable {S : Schema} {cv : Conv} {Ptext : Str → Prop} {Pd : DT → Prop} {esc : Str → Str}
  {Dom : Kind → Bool → Val → Prop}

/-- the result of `mk` for a table class: an instance of that class, whose class has no dot in its name -/
theorem mk_shape {name : String} {tbl : List (String × Shape)} {ci : Nat} {c : Cls}
    (hc : ClsFits S name tbl ci c) {args : List Node} {kw : List (Str × Node)} {n : Node}
    (h : mk S cv name args kw = .ok n) : ∃ f, n = .agg ci f args := by
  simp only [mk, hc.idx] at h
  obtain ⟨c', fields, items, hc', _, _, ha, _, rfl⟩ := (construct_ok_iff S cv ci args kw n).mp h
  rw [hc.cls] at hc'; injection hc' with hc'; subst hc'
  exact ⟨fields, by rw [applyArgs_plain hc.plain ha]⟩

theorem extraRule_sonrq_ok {args : List Node} {kw : List (Str × Node)}
    (h : extraRule S .sonrq args kw = .ok ()) :
    (kwTruthy kw "userid" = true ∧ kwTruthy kw "userpass" = true) ∨ kwTruthy kw "userkey" = true := by
  simp only [extraRule] at h
  split at h
  · rename_i hc
    simp only [Bool.and_eq_true, Bool.or_eq_true] at hc
    rcases hc.1 with h1 | h1
    · exact Or.inl h1
    · exact Or.inr h1
  · simp at h

theorem signon_valid (hS : ReqWF S = true) (hW : WireWF S = true) (hcv : ConvOK cv Ptext)
    (hinto : ConvInto cv S.enums Dom Ptext Pd) (laws : ConvLaws cv S.enums esc Dom) (cfg : Cfg) (userpass : Str)
    (userid : Option Str) (dtclient : DT) (htexts : ∀ s ∈ cfg.texts, Ptext s) (hpw : Ptext userpass)
    (huid : ∀ s, userid = some s → Ptext s) (hdt : Pd dtclient) {so : Node}
    (h : signon S cv cfg userpass userid dtclient = .ok so) :
    Valid S cv esc Dom so ∧ ∃ ci f, so = .agg ci f [] ∧ S.findIdx? "SIGNONMSGSRQV1".toList = some ci := by
  obtain ⟨ciF, cF, hcF⟩ := reqWF_cls hS (name := "FI") (tbl := tFI) (by simp [reqTable])
  obtain ⟨ciS, cS, hcS⟩ := reqWF_cls hS (name := "SONRQ") (tbl := tSONRQ) (by simp [reqTable])
  obtain ⟨ciM, cM, hcM⟩ := reqWF_cls hS (name := "SIGNONMSGSRQV1") (tbl := tSIGNONMSGS) (by simp [reqTable])
  have hwF := wireWF_cls hW (by simp [reqTable]) hcF
  have hwS := wireWF_cls hW (by simp [reqTable]) hcS
  have hwM := wireWF_cls hW (by simp [reqTable]) hcM
  have htF := wireWF_triv hW (name := "FI") (by simp [reqTable]) (by decide) (by decide) (by decide) hcF
  have htM := wireWF_triv hW (name := "SIGNONMSGSRQV1") (by simp [reqTable]) (by decide) (by decide) (by decide) hcM
  have hxS := wireWF_sonrq hW hcS
  simp only [Cfg.texts, List.mem_append, List.mem_cons, Option.mem_toList, List.mem_nil_iff, or_false] at htexts
  have huid' : Ptext (orDefault userid cfg.userid) := by
    cases userid with
    | none => exact htexts _ (by simp [orDefault])
    | some u => exact huid u rfl
  rw [signon] at h
  obtain ⟨fi, hfi, h1⟩ := bind_ok h
  obtain ⟨sonrq, hsonrq, hmsgs⟩ := bind_ok h1
  clear h h1
  -- FI
  have hfiW : KwWire S cv esc Dom cS Ptext Pd (kv "fi" fi) := by
    rw [fiNode] at hfi
    by_cases horg : orgSet cfg = true
    · rw [if_pos horg] at hfi
      have hkw : ∀ p ∈ [kv "org" (osv cfg.org), kv "fid" (osv cfg.fid)], KwWire S cv esc Dom cF Ptext Pd p :=
        forall_kw_cons (kwWire_osv hcF (k := "org") (by simp) (fun s hs => htexts s (by simp [hs])))
          (forall_kw_cons (kwWire_osv hcF (k := "fid") (by simp) (fun s hs => htexts s (by simp [hs])))
            (forall_kw_nil _))
      have hv := mk_valid_triv hcv hinto hcF hwF htF hkw (by simp) hfi
      obtain ⟨f, rfl⟩ := mk_shape hcF hfi
      exact kwWire_sub hwS (k := "fi") (by simp)
        (by rw [show upper "fi".toList = "FI".toList from by decide]; exact hcF.idx) hv
    · rw [if_neg horg] at hfi
      simp only [pure, Except.pure, Except.ok.injEq] at hfi
      subst hfi
      exact kwWire_none _
  have hcu : ∀ s, (if cfg.version < 103 then none else cfg.clientuid) = some s → Ptext s := by
    intro s hs
    split at hs
    · simp at hs
    · exact htexts s (by simp [hs])
  -- SONRQ
  have hkwS : ∀ p ∈ [kv "dtclient" (Node.val (Val.dt dtclient)), kv "userid" (sv (orDefault userid cfg.userid)),
      kv "userpass" (sv userpass), kv "language" (sv cfg.language), kv "fi" fi, kv "sesscookie" (Node.val Val.none),
      kv "appid" (sv cfg.appid), kv "appver" (sv cfg.appver),
      kv "clientuid" (osv (if cfg.version < 103 then none else cfg.clientuid))],
      KwWire S cv esc Dom cS Ptext Pd p :=
    forall_kw_cons (kwWire_leaf hcS (k := "dtclient") (sh := .date) (by simp) (by simp [Shape.fits])
      (by simpa [NodeWire] using hdt))
    (forall_kw_cons (kwWire_sv hcS (k := "userid") (by simp) huid')
    (forall_kw_cons (kwWire_sv hcS (k := "userpass") (by simp) hpw)
    (forall_kw_cons (kwWire_sv hcS (k := "language") (by simp) (htexts _ (by simp)))
    (forall_kw_cons hfiW
    (forall_kw_cons (kwWire_none _)
    (forall_kw_cons (kwWire_sv hcS (k := "appid") (by simp) (htexts _ (by simp)))
    (forall_kw_cons (kwWire_sv hcS (k := "appver") (by simp) (htexts _ (by simp)))
    (forall_kw_cons (kwWire_osv hcS (k := "clientuid") (by simp) hcu)
    (forall_kw_nil _)))))))))
  -- user id and password are non-empty: the original `validate_args` accepted them
  have hne : orDefault userid cfg.userid ≠ [] ∧ userpass ≠ [] := by
    have hmk := hsonrq
    simp only [mk, hcS.idx] at hmk
    obtain ⟨c', _, _, _, hc', hx, _⟩ := C04_sound_kw S cv ciS _ _ _ hmk
    rw [hcS.cls] at hc'; injection hc' with hc'; subst hc'
    rw [hxS.1] at hx
    rcases extraRule_sonrq_ok hx with ⟨h1, h2⟩ | h3
    · have e1 : kwTruthy [kv "dtclient" (Node.val (Val.dt dtclient)), kv "userid" (sv (orDefault userid cfg.userid)),
          kv "userpass" (sv userpass), kv "language" (sv cfg.language), kv "fi" fi,
          kv "sesscookie" (Node.val Val.none), kv "appid" (sv cfg.appid), kv "appver" (sv cfg.appver),
          kv "clientuid" (osv (if cfg.version < 103 then none else cfg.clientuid))] "userid" =
          truthy (sv (orDefault userid cfg.userid)) := by simp [kwTruthy, lookup, kv]
      have e2 : kwTruthy [kv "dtclient" (Node.val (Val.dt dtclient)), kv "userid" (sv (orDefault userid cfg.userid)),
          kv "userpass" (sv userpass), kv "language" (sv cfg.language), kv "fi" fi,
          kv "sesscookie" (Node.val Val.none), kv "appid" (sv cfg.appid), kv "appver" (sv cfg.appver),
          kv "clientuid" (osv (if cfg.version < 103 then none else cfg.clientuid))] "userpass" =
          truthy (sv userpass) := by simp [kwTruthy, lookup, kv]
      rw [e1] at h1; rw [e2] at h2
      simp only [sv, truthy, Bool.not_eq_eq_eq_not, Bool.not_true, List.isEmpty_eq_false_iff] at h1 h2
      exact ⟨h1, h2⟩
    · simp [kwTruthy, lookup, kv] at h3
  -- SONRQ
  have hvS : Valid S cv esc Dom sonrq := by
    apply mk_valid hcv hinto hcS hwS.plain hkwS (by simp) _ hsonrq
    intro fields hsf
    obtain ⟨a1, ha1, hn1, hl1, hu1, hf1, hd1⟩ := stored_text hcv hinto hcS (k := "userid") (by simp)
      (u := orDefault userid cfg.userid) (by simp [lookup, kv]) hne.1 huid' hsf
    obtain ⟨a2, ha2, hn2, hl2, hu2, hf2, hd2⟩ := stored_text hcv hinto hcS (k := "userpass") (by simp)
      (u := userpass) (by simp [lookup, kv]) hne.2 hpw hsf
    have hk := stored_absent hcv (k := "userkey".toList) (by simp [lookup, kv]) hsf
    have t1 := rawKw_truthy laws fields cS.spec hwS.plain.wf.nodup a1 ha1 hl1 hu1 _ (by simp) hf1 hd1 "userid" hn1
    have t2 := rawKw_truthy laws fields cS.spec hwS.plain.wf.nodup a2 ha2 hl2 hu2 _ (by simp) hf2 hd2 "userpass" hn2
    have t3 : kwTruthy (rawKwOf S cv esc fields cS.spec) "userkey" = false := by
      unfold kwTruthy
      rw [rawKw_absent fields cS.spec _ hk]
    simp [validateArgs, hxS.1, hxS.2.1, hxS.2.2, extraRule, t1, t2, t3, enforceCount, bind, Except.bind]
  obtain ⟨fS, rfl⟩ := mk_shape hcS hsonrq
  have hvM := mk_valid_triv hcv hinto hcM hwM htM
    (forall_kw_cons (kwWire_sub hwM (k := "sonrq") (by simp)
      (by rw [show upper "sonrq".toList = "SONRQ".toList from by decide]; exact hcS.idx) hvS) (forall_kw_nil _))
    (by simp) hmsgs
  obtain ⟨fM, rfl⟩ := mk_shape hcM hmsgs
  exact ⟨hvM, ciM, fM, rfl, hcM.idx⟩

/-- the dates of a request -/
def Req.dates : Req → List DT
  | .stmt _ _ s e _ => s.toList ++ e.toList
  | .ccStmt _ s e _ => s.toList ++ e.toList
  | .invStmt _ s e a _ _ _ _ => s.toList ++ e.toList ++ a.toList
  | .stmtEnd _ _ s e => s.toList ++ e.toList
  | .ccStmtEnd _ s e => s.toList ++ e.toList

/-- a transaction wrapper around a valid request aggregate is valid -/
theorem trn_valid (hS : ReqWF S = true) (hW : WireWF S = true) (hcv : ConvOK cv Ptext)
    (hinto : ConvInto cv S.enums Dom Ptext Pd) {name inner : String} {tbl : List (String × Shape)}
    (hm : (name, tbl) ∈ reqTable) (h1 : ("trnuid", Shape.text) ∈ tbl) (h2 : (inner, Shape.sub) ∈ tbl)
    (hn1 : name ≠ "SONRQ") (hn2 : name ≠ "OFX") (hn3 : name ≠ "TAX1099MSGSRQV1") {uuid : Str} (hu : Ptext uuid)
    {cj : Nat} {f : List (Str × Node)} {i : List Node} (hidx : S.findIdx? (upper inner.toList) = some cj)
    (hv : Valid S cv esc Dom (.agg cj f i)) {w : Node}
    (h : mk S cv name [] [kv "trnuid" (sv uuid), kv inner (.agg cj f i)] = .ok w) :
    Valid S cv esc Dom w ∧ ∃ ci f' c, w = .agg ci f' [] ∧ S.cls? ci = some c ∧ '.' ∉ c.name := by
  obtain ⟨ci, c, hc⟩ := reqWF_cls hS hm
  have hw := wireWF_cls hW hm hc
  have ht := wireWF_triv hW hm hn1 hn2 hn3 hc
  have hvw := mk_valid_triv hcv hinto hc hw ht
    (forall_kw_cons (kwWire_sv hc (k := "trnuid") h1 hu)
    (forall_kw_cons (kwWire_sub hw (k := inner) h2 hidx hv) (forall_kw_nil _))) (by simp) h
  obtain ⟨f', rfl⟩ := mk_shape hc h
  exact ⟨hvw, ci, f', c, rfl, hc.cls, hw.nodot⟩

theorem bankacct_valid (hS : ReqWF S = true) (hW : WireWF S = true) (hcv : ConvOK cv Ptext)
    (hinto : ConvInto cv S.enums Dom Ptext Pd) (cfg : Cfg) (acctid accttype : Option Str)
    (hb : ∀ s, cfg.bankid = some s → Ptext s) (ha : ∀ s, acctid = some s → Ptext s)
    (ht : ∀ s, accttype = some s → Ptext s) {n : Node}
    (h : mk S cv "BANKACCTFROM" [] [kv "bankid" (osv cfg.bankid), kv "acctid" (osv acctid),
      kv "accttype" (osv accttype)] = .ok n) :
    ∃ ci f, n = .agg ci f [] ∧ S.findIdx? "BANKACCTFROM".toList = some ci ∧ Valid S cv esc Dom (.agg ci f []) := by
  obtain ⟨ci, c, hc⟩ := reqWF_cls hS (name := "BANKACCTFROM") (tbl := tBANKACCT) (by simp [reqTable])
  have hw := wireWF_cls hW (by simp [reqTable]) hc
  have htr := wireWF_triv hW (name := "BANKACCTFROM") (by simp [reqTable]) (by decide) (by decide) (by decide) hc
  have hv := mk_valid_triv (esc := esc) hcv hinto hc hw htr
    (forall_kw_cons (kwWire_osv hc (k := "bankid") (by simp) hb)
    (forall_kw_cons (kwWire_osv hc (k := "acctid") (by simp) ha)
    (forall_kw_cons (kwWire_osv hc (k := "accttype") (by simp) ht) (forall_kw_nil _)))) (by simp) h
  obtain ⟨f, rfl⟩ := mk_shape hc h
  exact ⟨ci, f, rfl, hc.idx, hv⟩

theorem ccacct_valid (hS : ReqWF S = true) (hW : WireWF S = true) (hcv : ConvOK cv Ptext)
    (hinto : ConvInto cv S.enums Dom Ptext Pd) (acctid : Option Str)
    (ha : ∀ s, acctid = some s → Ptext s) {n : Node}
    (h : mk S cv "CCACCTFROM" [] [kv "acctid" (osv acctid)] = .ok n) :
    ∃ ci f, n = .agg ci f [] ∧ S.findIdx? "CCACCTFROM".toList = some ci ∧ Valid S cv esc Dom (.agg ci f []) := by
  obtain ⟨ci, c, hc⟩ := reqWF_cls hS (name := "CCACCTFROM") (tbl := tCCACCT) (by simp [reqTable])
  have hw := wireWF_cls hW (by simp [reqTable]) hc
  have htr := wireWF_triv hW (name := "CCACCTFROM") (by simp [reqTable]) (by decide) (by decide) (by decide) hc
  have hv := mk_valid_triv (esc := esc) hcv hinto hc hw htr
    (forall_kw_cons (kwWire_osv hc (k := "acctid") (by simp) ha) (forall_kw_nil _)) (by simp) h
  obtain ⟨f, rfl⟩ := mk_shape hc h
  exact ⟨ci, f, rfl, hc.idx, hv⟩

theorem inctran_valid (hS : ReqWF S = true) (hW : WireWF S = true) (hcv : ConvOK cv Ptext)
    (hinto : ConvInto cv S.enums Dom Ptext Pd) (dtstart dtend : Option DT) (inctran : Option Bool)
    (h1 : ∀ d, dtstart = some d → Pd d) (h2 : ∀ d, dtend = some d → Pd d) {n : Node}
    (h : mk S cv "INCTRAN" [] [kv "dtstart" (odt dtstart), kv "dtend" (odt dtend), kv "include" (obv inctran)]
      = .ok n) :
    ∃ ci f, n = .agg ci f [] ∧ S.findIdx? "INCTRAN".toList = some ci ∧ Valid S cv esc Dom (.agg ci f []) := by
  obtain ⟨ci, c, hc⟩ := reqWF_cls hS (name := "INCTRAN") (tbl := tINCTRAN) (by simp [reqTable])
  have hw := wireWF_cls hW (by simp [reqTable]) hc
  have htr := wireWF_triv hW (name := "INCTRAN") (by simp [reqTable]) (by decide) (by decide) (by decide) hc
  have hv := mk_valid_triv (esc := esc) hcv hinto hc hw htr
    (forall_kw_cons (kwWire_odt hc (k := "dtstart") (by simp) h1)
    (forall_kw_cons (kwWire_odt hc (k := "dtend") (by simp) h2)
    (forall_kw_cons (kwWire_obv hc (k := "include") (by simp) inctran) (forall_kw_nil _)))) (by simp) h
  obtain ⟨f, rfl⟩ := mk_shape hc h
  exact ⟨ci, f, rfl, hc.idx, hv⟩

/-- every wrapper `wrap` builds is a `Valid` instance of an existing class -/
theorem wrap_valid (hS : ReqWF S = true) (hW : WireWF S = true) (hcv : ConvOK cv Ptext)
    (hinto : ConvInto cv S.enums Dom Ptext Pd) (cfg : Cfg) (rq : Req) (uuid : Str)
    (htexts : ∀ s ∈ cfg.texts, Ptext s) (hrq : ∀ s ∈ rq.texts, Ptext s) (hrd : ∀ d ∈ rq.dates, Pd d)
    (hu : Ptext uuid) {w : Node} (h : wrap S cv cfg rq uuid = .ok w) :
    Valid S cv esc Dom w ∧ ∃ ci f c, w = .agg ci f [] ∧ S.cls? ci = some c ∧ '.' ∉ c.name := by
  simp only [Cfg.texts, List.mem_append, List.mem_cons, Option.mem_toList, List.mem_nil_iff, or_false] at htexts
  have hbank : ∀ s, cfg.bankid = some s → Ptext s := fun s hs => htexts s (by simp [hs])
  have hbroker : ∀ s, cfg.brokerid = some s → Ptext s := fun s hs => htexts s (by simp [hs])
  cases rq with
  | stmt acctid accttype dtstart dtend inctran =>
    simp only [Req.texts, List.mem_append, Option.mem_toList] at hrq
    simp only [Req.dates, List.mem_append, Option.mem_toList] at hrd
    simp only [wrap, stmttrnrq] at h
    obtain ⟨acct, hacct, h1⟩ := bind_ok h
    obtain ⟨inc, hinc, h2⟩ := bind_ok h1
    obtain ⟨rq, hrq', htrn⟩ := bind_ok h2
    clear h h1 h2
    obtain ⟨cia, fa, rfl, hia, hva⟩ := bankacct_valid (esc := esc) hS hW hcv hinto cfg acctid accttype hbank
      (fun s hs => hrq s (Or.inl hs)) (fun s hs => hrq s (Or.inr hs)) hacct
    obtain ⟨cii, fi, rfl, hii, hvi⟩ := inctran_valid (esc := esc) hS hW hcv hinto dtstart dtend inctran
      (fun d hd => hrd d (Or.inl hd)) (fun d hd => hrd d (Or.inr hd)) hinc
    obtain ⟨ci, c, hc⟩ := reqWF_cls hS (name := "STMTRQ") (tbl := tSTMTRQ) (by simp [reqTable])
    have hw := wireWF_cls hW (by simp [reqTable]) hc
    have htr := wireWF_triv hW (name := "STMTRQ") (by simp [reqTable]) (by decide) (by decide) (by decide) hc
    have hv := mk_valid_triv (esc := esc) hcv hinto hc hw htr
      (forall_kw_cons (kwWire_sub hw (k := "bankacctfrom") (by simp)
        (by rw [show upper "bankacctfrom".toList = "BANKACCTFROM".toList from by decide]; exact hia) hva)
      (forall_kw_cons (kwWire_sub hw (k := "inctran") (by simp)
        (by rw [show upper "inctran".toList = "INCTRAN".toList from by decide]; exact hii) hvi)
      (forall_kw_nil _))) (by simp) hrq'
    obtain ⟨f, rfl⟩ := mk_shape hc hrq'
    exact trn_valid hS hW hcv hinto (name := "STMTTRNRQ") (inner := "stmtrq") (tbl := tSTMTTRNRQ)
      (by simp [reqTable]) (by simp) (by simp) (by decide) (by decide) (by decide) hu
      (by rw [show upper "stmtrq".toList = "STMTRQ".toList from by decide]; exact hc.idx) hv htrn
  | stmtEnd acctid accttype dtstart dtend =>
    simp only [Req.texts, List.mem_append, Option.mem_toList] at hrq
    simp only [Req.dates, List.mem_append, Option.mem_toList] at hrd
    simp only [wrap, stmtendtrnrq] at h
    obtain ⟨acct, hacct, h1⟩ := bind_ok h
    obtain ⟨rq, hrq', htrn⟩ := bind_ok h1
    clear h h1
    obtain ⟨cia, fa, rfl, hia, hva⟩ := bankacct_valid (esc := esc) hS hW hcv hinto cfg acctid accttype hbank
      (fun s hs => hrq s (Or.inl hs)) (fun s hs => hrq s (Or.inr hs)) hacct
    obtain ⟨ci, c, hc⟩ := reqWF_cls hS (name := "STMTENDRQ") (tbl := tSTMTENDRQ) (by simp [reqTable])
    have hw := wireWF_cls hW (by simp [reqTable]) hc
    have htr := wireWF_triv hW (name := "STMTENDRQ") (by simp [reqTable]) (by decide) (by decide) (by decide) hc
    have hv := mk_valid_triv (esc := esc) hcv hinto hc hw htr
      (forall_kw_cons (kwWire_sub hw (k := "bankacctfrom") (by simp)
        (by rw [show upper "bankacctfrom".toList = "BANKACCTFROM".toList from by decide]; exact hia) hva)
      (forall_kw_cons (kwWire_odt hc (k := "dtstart") (by simp) (fun d hd => hrd d (Or.inl hd)))
      (forall_kw_cons (kwWire_odt hc (k := "dtend") (by simp) (fun d hd => hrd d (Or.inr hd)))
      (forall_kw_nil _)))) (by simp) hrq'
    obtain ⟨f, rfl⟩ := mk_shape hc hrq'
    exact trn_valid hS hW hcv hinto (name := "STMTENDTRNRQ") (inner := "stmtendrq") (tbl := tSTMTENDTRNRQ)
      (by simp [reqTable]) (by simp) (by simp) (by decide) (by decide) (by decide) hu
      (by rw [show upper "stmtendrq".toList = "STMTENDRQ".toList from by decide]; exact hc.idx) hv htrn
  | ccStmt acctid dtstart dtend inctran =>
    simp only [Req.texts, Option.mem_toList] at hrq
    simp only [Req.dates, List.mem_append, Option.mem_toList] at hrd
    simp only [wrap, ccstmttrnrq] at h
    obtain ⟨acct, hacct, h1⟩ := bind_ok h
    obtain ⟨inc, hinc, h2⟩ := bind_ok h1
    obtain ⟨rq, hrq', htrn⟩ := bind_ok h2
    clear h h1 h2
    obtain ⟨cia, fa, rfl, hia, hva⟩ := ccacct_valid (esc := esc) hS hW hcv hinto acctid (fun s hs => hrq s hs) hacct
    obtain ⟨cii, fi, rfl, hii, hvi⟩ := inctran_valid (esc := esc) hS hW hcv hinto dtstart dtend inctran
      (fun d hd => hrd d (Or.inl hd)) (fun d hd => hrd d (Or.inr hd)) hinc
    obtain ⟨ci, c, hc⟩ := reqWF_cls hS (name := "CCSTMTRQ") (tbl := tCCSTMTRQ) (by simp [reqTable])
    have hw := wireWF_cls hW (by simp [reqTable]) hc
    have htr := wireWF_triv hW (name := "CCSTMTRQ") (by simp [reqTable]) (by decide) (by decide) (by decide) hc
    have hv := mk_valid_triv (esc := esc) hcv hinto hc hw htr
      (forall_kw_cons (kwWire_sub hw (k := "ccacctfrom") (by simp)
        (by rw [show upper "ccacctfrom".toList = "CCACCTFROM".toList from by decide]; exact hia) hva)
      (forall_kw_cons (kwWire_sub hw (k := "inctran") (by simp)
        (by rw [show upper "inctran".toList = "INCTRAN".toList from by decide]; exact hii) hvi)
      (forall_kw_nil _))) (by simp) hrq'
    obtain ⟨f, rfl⟩ := mk_shape hc hrq'
    exact trn_valid hS hW hcv hinto (name := "CCSTMTTRNRQ") (inner := "ccstmtrq") (tbl := tCCSTMTTRNRQ)
      (by simp [reqTable]) (by simp) (by simp) (by decide) (by decide) (by decide) hu
      (by rw [show upper "ccstmtrq".toList = "CCSTMTRQ".toList from by decide]; exact hc.idx) hv htrn
  | ccStmtEnd acctid dtstart dtend =>
    simp only [Req.texts, Option.mem_toList] at hrq
    simp only [Req.dates, List.mem_append, Option.mem_toList] at hrd
    simp only [wrap, ccstmtendtrnrq] at h
    obtain ⟨acct, hacct, h1⟩ := bind_ok h
    obtain ⟨rq, hrq', htrn⟩ := bind_ok h1
    clear h h1
    obtain ⟨cia, fa, rfl, hia, hva⟩ := ccacct_valid (esc := esc) hS hW hcv hinto acctid (fun s hs => hrq s hs) hacct
    obtain ⟨ci, c, hc⟩ := reqWF_cls hS (name := "CCSTMTENDRQ") (tbl := tCCSTMTENDRQ) (by simp [reqTable])
    have hw := wireWF_cls hW (by simp [reqTable]) hc
    have htr := wireWF_triv hW (name := "CCSTMTENDRQ") (by simp [reqTable]) (by decide) (by decide) (by decide) hc
    have hv := mk_valid_triv (esc := esc) hcv hinto hc hw htr
      (forall_kw_cons (kwWire_sub hw (k := "ccacctfrom") (by simp)
        (by rw [show upper "ccacctfrom".toList = "CCACCTFROM".toList from by decide]; exact hia) hva)
      (forall_kw_cons (kwWire_odt hc (k := "dtstart") (by simp) (fun d hd => hrd d (Or.inl hd)))
      (forall_kw_cons (kwWire_odt hc (k := "dtend") (by simp) (fun d hd => hrd d (Or.inr hd)))
      (forall_kw_nil _)))) (by simp) hrq'
    obtain ⟨f, rfl⟩ := mk_shape hc hrq'
    exact trn_valid hS hW hcv hinto (name := "CCSTMTENDTRNRQ") (inner := "ccstmtendrq") (tbl := tCCSTMTENDTRNRQ)
      (by simp [reqTable]) (by simp) (by simp) (by decide) (by decide) (by decide) hu
      (by rw [show upper "ccstmtendrq".toList = "CCSTMTENDRQ".toList from by decide]; exact hc.idx) hv htrn
  | invStmt acctid dtstart dtend dtasof inctran incoo incpos incbal =>
    simp only [Req.texts, Option.mem_toList] at hrq
    simp only [Req.dates, List.mem_append, Option.mem_toList] at hrd
    simp only [wrap, invstmttrnrq] at h
    obtain ⟨acct, hacct, h1⟩ := bind_ok h
    obtain ⟨inc, hinc, h2⟩ := bind_ok h1
    obtain ⟨pos, hpos, h3⟩ := bind_ok h2
    obtain ⟨rq, hrq', htrn⟩ := bind_ok h3
    clear h h1 h2 h3
    -- INVACCTFROM
    obtain ⟨cia, ca, hca⟩ := reqWF_cls hS (name := "INVACCTFROM") (tbl := tINVACCT) (by simp [reqTable])
    have hwa := wireWF_cls hW (by simp [reqTable]) hca
    have hta := wireWF_triv hW (name := "INVACCTFROM") (by simp [reqTable]) (by decide) (by decide) (by decide) hca
    have hva := mk_valid_triv (esc := esc) hcv hinto hca hwa hta
      (forall_kw_cons (kwWire_osv hca (k := "acctid") (by simp) (fun s hs => hrq s hs))
      (forall_kw_cons (kwWire_osv hca (k := "brokerid") (by simp) hbroker) (forall_kw_nil _))) (by simp) hacct
    obtain ⟨fa, rfl⟩ := mk_shape hca hacct
    -- INCPOS
    obtain ⟨cip, cp, hcp⟩ := reqWF_cls hS (name := "INCPOS") (tbl := tINCPOS) (by simp [reqTable])
    have hwp := wireWF_cls hW (by simp [reqTable]) hcp
    have htp := wireWF_triv hW (name := "INCPOS") (by simp [reqTable]) (by decide) (by decide) (by decide) hcp
    have hvp := mk_valid_triv (esc := esc) hcv hinto hcp hwp htp
      (forall_kw_cons (kwWire_odt hcp (k := "dtasof") (by simp) (fun d hd => hrd d (Or.inr hd)))
      (forall_kw_cons (kwWire_obv hcp (k := "include") (by simp) incpos) (forall_kw_nil _))) (by simp) hpos
    obtain ⟨fp, rfl⟩ := mk_shape hcp hpos
    -- INVSTMTRQ
    obtain ⟨ci, c, hc⟩ := reqWF_cls hS (name := "INVSTMTRQ") (tbl := tINVSTMTRQ) (by simp [reqTable])
    have hw := wireWF_cls hW (by simp [reqTable]) hc
    have htr := wireWF_triv hW (name := "INVSTMTRQ") (by simp [reqTable]) (by decide) (by decide) (by decide) hc
    have hincW : KwWire S cv esc Dom c Ptext Pd (kv "inctran" inc) := by
      rw [invInctran] at hinc
      by_cases hf : flagSet inctran = true
      · rw [if_pos hf] at hinc
        obtain ⟨cii, fi, rfl, hii, hvi⟩ := inctran_valid (esc := esc) hS hW hcv hinto dtstart dtend inctran
          (fun d hd => hrd d (Or.inl (Or.inl hd))) (fun d hd => hrd d (Or.inl (Or.inr hd))) hinc
        exact kwWire_sub hw (k := "inctran") (by simp)
          (by rw [show upper "inctran".toList = "INCTRAN".toList from by decide]; exact hii) hvi
      · rw [if_neg hf] at hinc
        simp only [pure, Except.pure, Except.ok.injEq] at hinc
        subst hinc
        exact kwWire_none _
    have hv := mk_valid_triv (esc := esc) hcv hinto hc hw htr
      (forall_kw_cons (kwWire_sub hw (k := "invacctfrom") (by simp)
        (by rw [show upper "invacctfrom".toList = "INVACCTFROM".toList from by decide]; exact hca.idx) hva)
      (forall_kw_cons hincW
      (forall_kw_cons (kwWire_obv hc (k := "incoo") (by simp) incoo)
      (forall_kw_cons (kwWire_sub hw (k := "incpos") (by simp)
        (by rw [show upper "incpos".toList = "INCPOS".toList from by decide]; exact hcp.idx) hvp)
      (forall_kw_cons (kwWire_obv hc (k := "incbal") (by simp) incbal)
      (forall_kw_nil _)))))) (by simp) hrq'
    obtain ⟨f, rfl⟩ := mk_shape hc hrq'
    exact trn_valid hS hW hcv hinto (name := "INVSTMTTRNRQ") (inner := "invstmtrq") (tbl := tINVSTMTTRNRQ)
      (by simp [reqTable]) (by simp) (by simp) (by decide) (by decide) (by decide) hu
      (by rw [show upper "invstmtrq".toList = "INVSTMTRQ".toList from by decide]; exact hc.idx) hv htrn

theorem lookup_none_of_not_key {α : Type} {k : Str} : ∀ {l : List (Str × α)}, (∀ e ∈ l, e.1 ≠ k) → lookup k l = none
  | [], _ => rfl
  | (k', v) :: r, h => by
    have h1 : k' ≠ k := h (k', v) (by simp)
    simp only [lookup, h1, if_false]
    exact lookup_none_of_not_key (fun e he => h e (List.mem_cons_of_mem _ he))

theorem lookup_some_key {α : Type} {k : Str} {l : List (Str × α)} {v : α} (h : lookup k l = some v) :
    k ∈ l.map (·.1) := List.mem_map.mpr ⟨(k, v), lookup_mem h, rfl⟩

theorem key_lookup_some {α : Type} {k : Str} : ∀ {l : List (Str × α)}, k ∈ l.map (·.1) → ∃ v, lookup k l = some v
  | [], h => by simp at h
  | (k', v) :: r, h => by
    by_cases hk : k' = k
    · exact ⟨v, by simp [lookup, hk]⟩
    · simp only [List.map_cons, List.mem_cons] at h
      rcases h with h | h
      · exact absurd h.symm hk
      · obtain ⟨w, hw⟩ := key_lookup_some h
        exact ⟨w, by simp [lookup, hk, hw]⟩

theorem allEqual_of_forall {α : Type} [DecidableEq α] (x : α) : ∀ (l : List α), (∀ y ∈ l, y = x) → allEqual l = true
  | [], _ => rfl
  | a :: l, h => by
    simp only [allEqual, List.all_eq_true, decide_eq_true_eq]
    intro y hy
    rw [h y (List.mem_cons_of_mem _ hy), h a (by simp)]

/-- `validate_args` of `OFX` accepts the written-back keywords of a request: every keyword is a `…MSGSRQV1` one and
    exactly the request sign-on is present -/
theorem ofx_validate (hcv : ConvOK cv Ptext) {tbl : List (String × Shape)} {ci : Nat} {c : Cls}
    (hc : ClsFits S "OFX" tbl ci c) (hsq : ("signonmsgsrqv1", Shape.sub) ∈ tbl) (hwf : ClsWF S c)
    (hx : c.extra = .ofx ∧ c.optMutex = [] ∧ c.reqMutex = [["signonmsgsrqv1".toList, "signonmsgsrsv1".toList]])
    {kw : List (Str × Node)} {cis : Nat} {fs : List (Str × Node)}
    (hso : lookup "signonmsgsrqv1".toList kw = some (.agg cis fs []))
    (hkeys : ∀ k ∈ kw.map (·.1), k ∈ ["signonmsgsrqv1", "bankmsgsrqv1", "creditcardmsgsrqv1",
      "invstmtmsgsrqv1", "signupmsgsrqv1", "profmsgsrqv1", "tax1099msgsrqv1"].map String.toList)
    (hkwfit : ∀ p ∈ kw, KwFit c Ptext p)
    {fields : List (Str × Node)} (hs : setAttrs S cv (specNoList c) kw = .ok fields) :
    validateArgs S c [] (rawKwOf S cv esc fields c.spec) = .ok () := by
  -- a written-back keyword was passed
  have hpassed : ∀ k r, lookup k (rawKwOf S cv esc fields c.spec) = some r → k ∈ kw.map (·.1) := by
    intro k r hr
    obtain ⟨a, _, hn, v, hv, hrf⟩ := rawKwOf_lookup_some fields c.spec k r hr
    cases hl : lookup k kw with
    | some w => exact lookup_some_key hl
    | none =>
      rw [hn] at hv
      have := stored_absent hcv hl hs v hv
      rw [this, rawField_none] at hrf
      cases hrf
  -- extra rule: all keys end alike
  have hall : allEqual ((rawKwOf S cv esc fields c.spec).map (fun p => lastN 7 p.1)) = true := by
    apply allEqual_of_forall "sgsrqv1".toList
    intro y hy
    obtain ⟨p, hp, rfl⟩ := List.mem_map.mp hy
    obtain ⟨r, hr⟩ := key_lookup_some (List.mem_map.mpr ⟨p, hp, rfl⟩)
    have hk := hkeys _ (hpassed _ _ hr)
    simp only [List.map_cons, List.map_nil, List.mem_cons, List.mem_nil_iff, or_false] at hk
    rcases hk with h | h | h | h | h | h | h <;> rw [h] <;> decide
  -- the request sign-on is written back, the response sign-on is not
  obtain ⟨a, ha, hn, hsh⟩ := hc.attrs _ _ hsq
  obtain ⟨r, hr, hl⟩ := setAttrs_lookup (specNoList c) kw fields hs hc.nodup a ha
  have hkv : kwval kw a.name = .agg cis fs [] := by unfold kwval; rw [hn, hso]; rfl
  rw [hkv] at hr
  have hrv := setAttr_faithful hcv a .sub _ r hsh (by simp [Shape.fits]) hr
  subst hrv
  have hnl : a.kind.isList = false := by cases hka : a.kind <;> simp_all [Kind.isList, Shape.ofKind]
  have hnu : a.kind.isUnsupported = false := by cases hka : a.kind <;> simp_all [Kind.isUnsupported, Shape.ofKind]
  have hq := lookup_rawKwOf S cv esc fields c.spec hwf.nodup a (List.mem_filter.mp ha).1 hnl hnu _ hl
  rw [hn] at hq
  have hq' : lookup "signonmsgsrqv1".toList (rawKwOf S cv esc fields c.spec) = some (.agg cis fs []) := by
    rw [hq]; rfl
  have hrs : lookup "signonmsgsrsv1".toList (rawKwOf S cv esc fields c.spec) = none := by
    apply rawKw_absent
    apply stored_absent hcv _ hs
    cases hl2 : lookup "signonmsgsrsv1".toList kw with
    | none => rfl
    | some w =>
      have := hkeys _ (lookup_some_key hl2)
      simp only [List.map_cons, List.map_nil, List.mem_cons, List.mem_nil_iff, or_false] at this
      rcases this with h | h | h | h | h | h | h <;> exact absurd h (by decide)
  have hcount : mutexCount (rawKwOf S cv esc fields c.spec)
      ["signonmsgsrqv1".toList, "signonmsgsrsv1".toList] = 1 := by
    simp only [mutexCount, List.filter, hq', hrs, given, List.length]
  simp only [validateArgs, hx.1, hx.2.1, hx.2.2, extraRule, hall, enforceCount, bind, Except.bind, if_true,
    List.all_nil, List.all_cons, hcount, decide_true, Bool.and_self]

/-- **the composed statement request is a `Valid` instance** (all the way down) -/
theorem requestStatements_valid (hS : ReqWF S = true) (hW : WireWF S = true) (hcv : ConvOK cv Ptext)
    (hinto : ConvInto cv S.enums Dom Ptext Pd) (laws : ConvLaws cv S.enums esc Dom) (cfg : Cfg) (pw : Str)
    (reqs : List Req) (us : Nat → Str) (dtc : DT)
    (htexts : ∀ s ∈ cfg.texts, Ptext s) (hpw : Ptext pw) (hreqs : ∀ r ∈ reqs, ∀ s ∈ r.texts, Ptext s)
    (hdates : ∀ r ∈ reqs, ∀ d ∈ r.dates, Pd d) (hdt : Pd dtc) (huP : ∀ i, Ptext (us i)) {root : Node}
    (h : requestStatements S cv cfg pw reqs us dtc = .ok root) : Valid S cv esc Dom root := by
  simp only [requestStatements] at h
  obtain ⟨trnrqs, htr, h1⟩ := bind_ok h
  obtain ⟨msgs, hmsgs, h2⟩ := bind_ok h1
  obtain ⟨so, hso, hroot⟩ := bind_ok h2
  clear h h1 h2
  -- the wrappers
  have hgroups := forall2_imp (mapM_forall2 htr) (fun g t hgt => wrapGroup_inv hgt)
  have hrel : Rel2 (Rw S cv cfg us) (sortBy RKind.le Req.kind reqs).zipIdx (trnrqs.flatMap (·.2)) := by
    have := forall2_flatMap (f := fun g : RKind × List (Req × Nat) => g.2) (g := fun t : MsgSet × List Node => t.2)
      (forall2_imp hgroups (fun g t h => h.2))
    rwa [groupBy_flatten] at this
  have hwv : ∀ w ∈ trnrqs.flatMap (·.2), Valid S cv esc Dom w ∧
      ∃ cj f i cjc, w = .agg cj f i ∧ S.cls? cj = some cjc ∧ '.' ∉ cjc.name := by
    intro w hw
    obtain ⟨p, hp, hpw'⟩ := rel2_mem_right hrel hw
    have hmem : p.1 ∈ reqs := (mem_sortBy RKind.le Req.kind p.1 reqs).mp (zipIdx_mem_fst _ 0 p hp)
    obtain ⟨hv, ci, f, c, rfl, hc, hd⟩ := wrap_valid (esc := esc) hS hW hcv hinto cfg p.1 (us p.2) htexts
      (hreqs p.1 hmem) (hdates p.1 hmem) (huP _) hpw'
    exact ⟨hv, ci, f, [], c, rfl, hc, hd⟩
  -- the message sets
  obtain ⟨_, hgrp2, _⟩ := group_sort MsgSet.le (fun t : MsgSet × List Node => t.1) msgset_order trnrqs
  have hmsgs' := forall2_imp (mapM_forall2 hmsgs) (fun g e hge => msgArgs_inv hge)
  obtain ⟨ciO, cO, hcO⟩ := reqWF_cls hS (name := "OFX") (tbl := tOFX) (by simp [reqTable])
  have hwO := wireWF_cls hW (by simp [reqTable]) hcO
  have hxO := wireWF_ofx hW hcO
  have hmsgW : ∀ e ∈ msgs, KwWire S cv esc Dom cO Ptext Pd e ∧
      e.1 ∈ ["bankmsgsrqv1", "creditcardmsgsrqv1", "invstmtmsgsrqv1"].map String.toList := by
    intro e he
    obtain ⟨g, hg, inst, rfl, hmk⟩ := rel2_mem_right hmsgs' he
    obtain ⟨_, hgeq⟩ := hgrp2 g.1 g.2 hg
    have hsub : ∀ w ∈ g.2.flatMap (·.2), w ∈ trnrqs.flatMap (·.2) := by
      intro w hw
      obtain ⟨t, ht, hwt⟩ := List.mem_flatMap.mp hw
      rw [hgeq] at ht
      exact List.mem_flatMap.mpr ⟨t, (List.mem_filter.mp ht).1, hwt⟩
    have hcls : ∃ ciM cM, ClsFits S g.1.className tMSGS ciM cM ∧ WireCls S tMSGS ciM cM ∧
        (cM.extra = .none ∧ cM.optMutex = [] ∧ cM.reqMutex = []) := by
      cases g.1
      · obtain ⟨ciM, cM, hcM⟩ := reqWF_cls hS (name := "BANKMSGSRQV1") (tbl := tMSGS) (by simp [reqTable])
        exact ⟨ciM, cM, hcM, wireWF_cls hW (by simp [reqTable]) hcM,
          wireWF_triv hW (name := "BANKMSGSRQV1") (by simp [reqTable]) (by decide) (by decide) (by decide) hcM⟩
      · obtain ⟨ciM, cM, hcM⟩ := reqWF_cls hS (name := "CREDITCARDMSGSRQV1") (tbl := tMSGS) (by simp [reqTable])
        exact ⟨ciM, cM, hcM, wireWF_cls hW (by simp [reqTable]) hcM,
          wireWF_triv hW (name := "CREDITCARDMSGSRQV1") (by simp [reqTable]) (by decide) (by decide) (by decide) hcM⟩
      · obtain ⟨ciM, cM, hcM⟩ := reqWF_cls hS (name := "INVSTMTMSGSRQV1") (tbl := tMSGS) (by simp [reqTable])
        exact ⟨ciM, cM, hcM, wireWF_cls hW (by simp [reqTable]) hcM,
          wireWF_triv hW (name := "INVSTMTMSGSRQV1") (by simp [reqTable]) (by decide) (by decide) (by decide) hcM⟩
    obtain ⟨ciM, cM, hcM, hwM, htM⟩ := hcls
    have hvM := mk_valid_triv (esc := esc) hcv hinto hcM hwM htM (forall_kw_nil _)
      (fun m hm => hwv m (hsub m hm)) hmk
    obtain ⟨fM, rfl⟩ := mk_shape hcM hmk
    refine ⟨?_, by cases g.1 <;> simp [kv, MsgSet.attrName]⟩
    exact kwWire_sub hwO (k := g.1.attrName) (by cases g.1 <;> simp [MsgSet.attrName])
      (by
        have : upper g.1.attrName.toList = g.1.className.toList := by cases g.1 <;> decide
        rw [this]; exact hcM.idx) hvM
  -- the sign-on
  obtain ⟨hvso, cis, fs, rfl, hsoidx⟩ := signon_valid (esc := esc) hS hW hcv hinto laws cfg pw none dtc htexts hpw
    (by simp) hdt hso
  -- the root
  have hkwO : ∀ p ∈ kv "signonmsgsrqv1" (.agg cis fs []) :: msgs, KwWire S cv esc Dom cO Ptext Pd p :=
    forall_kw_cons (kwWire_sub hwO (k := "signonmsgsrqv1") (by simp)
      (by rw [show upper "signonmsgsrqv1".toList = "SIGNONMSGSRQV1".toList from by decide]; exact hsoidx) hvso)
      (fun e he => (hmsgW e he).1)
  apply mk_valid hcv hinto hcO hwO.plain hkwO (by simp) _ hroot
  intro fields hsf
  apply ofx_validate hcv hcO (by simp) hwO.plain.wf hxO (cis := cis) (fs := fs) _ _
    (fun p hp => (hkwO p hp).fit) hsf
  · simp [lookup, kv]
  · intro k hk
    simp only [List.map_cons, List.mem_cons] at hk
    rcases hk with rfl | hk
    · simp [kv]
    · obtain ⟨e, he, rfl⟩ := List.mem_map.mp hk
      have := (hmsgW e he).2
      simp only [List.map_cons, List.map_nil, List.mem_cons, List.mem_nil_iff, or_false] at this ⊢
      rcases this with h | h | h
      · exact Or.inr (Or.inl h)
      · exact Or.inr (Or.inr (Or.inl h))
      · exact Or.inr (Or.inr (Or.inr (Or.inl h)))

end
section
open Ofx.Types
/-! ## Part 14: the real converters land in the wire domain -/

/-- a caller text that survives the wire: no entity spelling, no surrounding white space -/
def WireText (s : Str) : Prop := EntityFree s ∧ Spec.Wire.trimmedB s = true

instance : DecidablePred WireText := fun s => inferInstanceAs (Decidable (EntityFree s ∧ Spec.Wire.trimmedB s = true))

theorem ConvOK.mono {cv : Conv} {P Q : Str → Prop} (h : ConvOK cv P) (hpq : ∀ s, Q s → P s) : ConvOK cv Q where
  none := h.none
  text := fun enums k r s v' hk hq hc => h.text enums k r s v' hk (hpq s hq) hc
  flag := h.flag
  date := h.date

theorem conv_ok_wire : ConvOK Types.conv WireText := conv_ok.mono (fun _ h => h.1)

/-- enumeration members carry no markup and no surrounding white space -/
def enumsPlainB (enums : List (List Str)) : Bool :=
  enums.all (fun valid => valid.all (fun s => markupFree s && Spec.Wire.trimmedB s))

theorem enforceRequired_none_false (r : Bool) (h : Types.enforceRequired r .none = .ok .none) : r = false := by
  cases r <;> simp [Types.enforceRequired] at h ⊢

theorem dtEnforceRequired_false (r : Bool) (h : DateTime.enforceRequired r = .ok .none) : r = false := by
  cases r <;> simp [DateTime.enforceRequired] at h ⊢

theorem types_convInto (enums : List (List Str)) (he : enumsPlainB enums = true) :
    ConvInto Types.conv enums (typesDomWire enums) WireText DateTime.dtUtcMs where
  req_none := by
    intro k r hl hu hs h
    cases k with
    | bool => exact enforceRequired_none_false r (by simpa [Types.conv, Types.convert, Types.boolConvert] using h)
    | string l st =>
      exact enforceRequired_none_false r (by simpa [Types.conv, Types.convert, Types.stringConvert] using h)
    | oneOf e =>
      simp only [Types.conv, Types.convert] at h
      split at h
      · exact enforceRequired_none_false r (by simpa [Types.oneOfConvert] using h)
      · simp at h
    | integer l =>
      exact enforceRequired_none_false r (by simpa [Types.conv, Types.convert, Types.integerConvert] using h)
    | decimal q =>
      exact enforceRequired_none_false r (by simpa [Types.conv, Types.convert, Types.decimalConvert] using h)
    | datetime =>
      exact dtEnforceRequired_false r
        (by simpa [Types.conv, Types.convert, DateTime.dtConvert, DateTime.dtConvertWith] using h)
    | time =>
      exact dtEnforceRequired_false r
        (by simpa [Types.conv, Types.convert, DateTime.tmConvert, DateTime.tmConvertWith] using h)
    | listElem k ir => simp [Kind.isList] at hl
    | sub c => simp [Kind.subTarget] at hs
    | listAgg c => simp [Kind.isList] at hl
    | unsupported => simp [Kind.isUnsupported] at hu
  req_empty := by
    intro k r hk h
    cases k <;> simp [Shape.ofKind] at hk
    · exact enforceRequired_none_false r (by simpa [Types.conv, Types.convert, Types.stringConvert] using h)
    · simp only [Types.conv, Types.convert] at h
      split at h
      · exact enforceRequired_none_false r (by simpa [Types.oneOfConvert, Types.oneOfDefault] using h)
      · simp at h
  text := by
    intro k r s hk hw hne h
    cases k <;> simp [Shape.ofKind] at hk
    · rename_i l st
      refine ⟨⟨s, rfl, hne, ?_⟩, fun s' hs' => by injection hs' with hs'; subst hs'; exact hw.2⟩
      simp only [Types.conv, Types.convert, Types.stringConvert, hne, if_false] at h
      rw [hw.1, strEnforceLength_ok] at h
      split at h
      · assumption
      · simp [Except.map] at h
    · rename_i e
      simp only [Types.conv, Types.convert] at h
      split at h
      · rename_i valid hv
        simp only [Types.oneOfConvert, hne, if_false, Types.oneOfDefault] at h
        split at h
        · rename_i hmem
          have hvm : valid ∈ enums := List.mem_of_getElem? hv
          have := List.all_eq_true.mp (List.all_eq_true.mp he valid hvm) s hmem
          simp only [Bool.and_eq_true] at this
          exact ⟨⟨s, valid, rfl, hv, hmem, hne, this.1⟩,
            fun s' hs' => by injection hs' with hs'; subst hs'; exact this.2⟩
        · simp at h
      · simp at h
  flag := by
    intro k r b hk
    cases k <;> simp [Shape.ofKind] at hk
    exact ⟨b, rfl⟩
  date := by
    intro k r d hk hd
    cases k <;> simp [Shape.ofKind] at hk
    exact ⟨d, rfl, hd⟩

end

/-! ## Part 15: account-info, profile and tax requests are `Valid` instances -/

/-- `validate_args` of the message set of the tax request: only "at least one member" -/
def taxMsgsValB (S : Schema) : Bool :=
  match S.findIdx? "TAX1099MSGSRQV1".toList with
  | none => false
  | some ci =>
    match S.cls? ci with
    | none => false
    | some c => decide (c.extra = .tax1099msgsrqv1) && c.optMutex.isEmpty && c.reqMutex.isEmpty

section
variable {S : Schema} {cv : Conv} {Ptext : Str → Prop} {Pd : DT → Prop} {esc : Str → Str}
  {Dom : Kind → Bool → Val → Prop}

/-- a request made of the sign-on and one message set holding one wrapper is `Valid`; `hvalMsgs` is the message
    set's own `validate_args` on its one member -/
theorem single_valid (hS : ReqWF S = true) (hW : WireWF S = true) (hcv : ConvOK cv Ptext)
    (hinto : ConvInto cv S.enums Dom Ptext Pd) {attr msgCls : String} (hattr : (attr, Shape.sub) ∈ tOFX)
    (hattr' : attr ∈ ["signupmsgsrqv1", "profmsgsrqv1", "tax1099msgsrqv1"])
    (hmsg : (msgCls, tMSGS) ∈ reqTable) (hup : upper attr.toList = msgCls.toList)
    {cis : Nat} {fs : List (Str × Node)} (hvso : Valid S cv esc Dom (.agg cis fs []))
    (hsoidx : S.findIdx? "SIGNONMSGSRQV1".toList = some cis)
    {trn : Node} (hvtrn : Valid S cv esc Dom trn)
    (htrn : ∃ cj f i cjc, trn = .agg cj f i ∧ S.cls? cj = some cjc ∧ '.' ∉ cjc.name)
    (hvalMsgs : ∀ ci c, ClsFits S msgCls tMSGS ci c → ∀ kw, validateArgs S c [trn] kw = .ok ())
    {msgs root : Node} (hmsgs : mk S cv msgCls [trn] [] = .ok msgs)
    (hroot : mk S cv "OFX" [] [kv "signonmsgsrqv1" (.agg cis fs []), kv attr msgs] = .ok root) :
    Valid S cv esc Dom root := by
  obtain ⟨ciM, cM, hcM⟩ := reqWF_cls hS hmsg
  have hwM := wireWF_cls hW hmsg hcM
  have hvM : Valid S cv esc Dom msgs :=
    mk_valid hcv hinto hcM hwM.plain (forall_kw_nil _)
      (fun m hm => by simp only [List.mem_singleton] at hm; subst hm; exact ⟨hvtrn, htrn⟩)
      (fun _ _ => hvalMsgs ciM cM hcM _) hmsgs
  obtain ⟨fM, rfl⟩ := mk_shape hcM hmsgs
  obtain ⟨ciO, cO, hcO⟩ := reqWF_cls hS (name := "OFX") (tbl := tOFX) (by simp [reqTable])
  have hwO := wireWF_cls hW (by simp [reqTable]) hcO
  have hxO := wireWF_ofx hW hcO
  have hkwO : ∀ p ∈ [kv "signonmsgsrqv1" (.agg cis fs []), kv attr (.agg ciM fM [trn])],
      KwWire S cv esc Dom cO Ptext Pd p :=
    forall_kw_cons (kwWire_sub hwO (k := "signonmsgsrqv1") (by simp)
      (by rw [show upper "signonmsgsrqv1".toList = "SIGNONMSGSRQV1".toList from by decide]; exact hsoidx) hvso)
    (forall_kw_cons (kwWire_sub hwO (k := attr) hattr (by rw [hup]; exact hcM.idx) hvM) (forall_kw_nil _))
  apply mk_valid hcv hinto hcO hwO.plain hkwO (by simp) _ hroot
  intro fields hsf
  apply ofx_validate hcv hcO (by simp) hwO.plain.wf hxO (cis := cis) (fs := fs) _ _
    (fun p hp => (hkwO p hp).fit) hsf
  · simp [lookup, kv]
  · intro k hk
    simp only [List.map_cons, List.map_nil, List.mem_cons, List.mem_nil_iff, or_false, kv] at hk hattr' ⊢
    rcases hk with rfl | rfl
    · exact Or.inl rfl
    · rcases hattr' with rfl | rfl | rfl
      · exact Or.inr (Or.inr (Or.inr (Or.inr (Or.inl rfl))))
      · exact Or.inr (Or.inr (Or.inr (Or.inr (Or.inr (Or.inl rfl)))))
      · exact Or.inr (Or.inr (Or.inr (Or.inr (Or.inr (Or.inr rfl)))))

theorem requestAccounts_valid (hS : ReqWF S = true) (hW : WireWF S = true) (hcv : ConvOK cv Ptext)
    (hinto : ConvInto cv S.enums Dom Ptext Pd) (laws : ConvLaws cv S.enums esc Dom) (cfg : Cfg) (pw : Str)
    (dtacctup : Option DT) (us : Nat → Str) (dtc : DT) (htexts : ∀ s ∈ cfg.texts, Ptext s) (hpw : Ptext pw)
    (hd : ∀ d, dtacctup = some d → Pd d) (hdt : Pd dtc) (hu : Ptext (us 0)) {root : Node}
    (h : requestAccounts S cv cfg pw dtacctup us dtc = .ok root) : Valid S cv esc Dom root := by
  simp only [requestAccounts] at h
  obtain ⟨so, hso, h1⟩ := bind_ok h
  obtain ⟨rq, hrq, h2⟩ := bind_ok h1
  obtain ⟨trn, htrn, h3⟩ := bind_ok h2
  obtain ⟨msgs, hmsgs, hroot⟩ := bind_ok h3
  clear h h1 h2 h3
  obtain ⟨hvso, cis, fs, rfl, hsoidx⟩ := signon_valid (esc := esc) hS hW hcv hinto laws cfg pw none dtc htexts hpw
    (by simp) hdt hso
  obtain ⟨ci, c, hc⟩ := reqWF_cls hS (name := "ACCTINFORQ") (tbl := tACCTINFORQ) (by simp [reqTable])
  have hw := wireWF_cls hW (by simp [reqTable]) hc
  have htr := wireWF_triv hW (name := "ACCTINFORQ") (by simp [reqTable]) (by decide) (by decide) (by decide) hc
  have hv := mk_valid_triv (esc := esc) hcv hinto hc hw htr
    (forall_kw_cons (kwWire_odt hc (k := "dtacctup") (by simp) hd) (forall_kw_nil _)) (by simp) hrq
  obtain ⟨f, rfl⟩ := mk_shape hc hrq
  obtain ⟨hvt, cit, ft, ct, rfl, hct, hdot⟩ := trn_valid hS hW hcv hinto (name := "ACCTINFOTRNRQ")
    (inner := "acctinforq") (tbl := tACCTINFOTRNRQ) (by simp [reqTable]) (by simp) (by simp) (by decide) (by decide)
    (by decide) hu (by rw [show upper "acctinforq".toList = "ACCTINFORQ".toList from by decide]; exact hc.idx) hv htrn
  refine single_valid hS hW hcv hinto (attr := "signupmsgsrqv1") (msgCls := "SIGNUPMSGSRQV1") (by simp) (by simp)
    (by simp [reqTable]) (by decide) hvso hsoidx hvt ⟨cit, ft, [], ct, rfl, hct, hdot⟩ ?_ hmsgs hroot
  intro ciM cM hcM kw
  have := wireWF_triv hW (name := "SIGNUPMSGSRQV1") (by simp [reqTable]) (by decide) (by decide) (by decide) hcM
  exact validate_trivial S cM _ _ this.1 this.2.1 this.2.2

theorem requestProfile_valid (hS : ReqWF S = true) (hW : WireWF S = true) (hcv : ConvOK cv Ptext)
    (hinto : ConvInto cv S.enums Dom Ptext Pd) (laws : ConvLaws cv S.enums esc Dom) (cfg : Cfg)
    (dtprofup : Option DT) (us : Nat → Str) (dtc : DT) (htexts : ∀ s ∈ cfg.texts, Ptext s)
    (hph : Ptext authPlaceholder) (hnone : Ptext "NONE".toList)
    (hd : Pd (orDefault dtprofup defaultDtprofup)) (hdt : Pd dtc) (hu : Ptext (us 0)) {root : Node}
    (h : requestProfile S cv cfg dtprofup us dtc = .ok root) : Valid S cv esc Dom root := by
  simp only [requestProfile] at h
  obtain ⟨rq, hrq, h1⟩ := bind_ok h
  obtain ⟨trn, htrn, h2⟩ := bind_ok h1
  obtain ⟨so, hso, h3⟩ := bind_ok h2
  obtain ⟨msgs, hmsgs, hroot⟩ := bind_ok h3
  clear h h1 h2 h3
  obtain ⟨hvso, cis, fs, rfl, hsoidx⟩ := signon_valid (esc := esc) hS hW hcv hinto laws cfg authPlaceholder
    (some authPlaceholder) dtc htexts hph
    (by intro s hs; simp only [Option.some.injEq] at hs; exact hs ▸ hph) hdt hso
  obtain ⟨ci, c, hc⟩ := reqWF_cls hS (name := "PROFRQ") (tbl := tPROFRQ) (by simp [reqTable])
  have hw := wireWF_cls hW (by simp [reqTable]) hc
  have htr := wireWF_triv hW (name := "PROFRQ") (by simp [reqTable]) (by decide) (by decide) (by decide) hc
  have hv := mk_valid_triv (esc := esc) hcv hinto hc hw htr
    (forall_kw_cons (kwWire_sv hc (k := "clientrouting") (by simp) hnone)
    (forall_kw_cons (kwWire_leaf hc (k := "dtprofup") (sh := .date) (by simp) (by simp [Shape.fits])
      (by simpa [NodeWire] using hd)) (forall_kw_nil _))) (by simp) hrq
  obtain ⟨f, rfl⟩ := mk_shape hc hrq
  obtain ⟨hvt, cit, ft, ct, rfl, hct, hdot⟩ := trn_valid hS hW hcv hinto (name := "PROFTRNRQ")
    (inner := "profrq") (tbl := tPROFTRNRQ) (by simp [reqTable]) (by simp) (by simp) (by decide) (by decide)
    (by decide) hu (by rw [show upper "profrq".toList = "PROFRQ".toList from by decide]; exact hc.idx) hv htrn
  refine single_valid hS hW hcv hinto (attr := "profmsgsrqv1") (msgCls := "PROFMSGSRQV1") (by simp) (by simp)
    (by simp [reqTable]) (by decide) hvso hsoidx hvt ⟨cit, ft, [], ct, rfl, hct, hdot⟩ ?_ hmsgs hroot
  intro ciM cM hcM kw
  have := wireWF_triv hW (name := "PROFMSGSRQV1") (by simp [reqTable]) (by decide) (by decide) (by decide) hcM
  exact validate_trivial S cM _ _ this.1 this.2.1 this.2.2

/-- what `setattr` stored for wire keywords is admissible (the per-attribute premise of `construct_valid(_any)`) -/
theorem kw_fieldOk (hcv : ConvOK cv Ptext) (hinto : ConvInto cv S.enums Dom Ptext Pd) {c : Cls}
    (hnd : ((specNoList c).map (·.name)).Nodup) {kw : List (Str × Node)}
    (hkw : ∀ p ∈ kw, KwWire S cv esc Dom c Ptext Pd p) :
    ∀ a ∈ specNoList c, a.kind.isUnsupported = false → ∀ v,
      setAttr S cv a ((lookup a.name kw).getD (.val .none)) = .ok (some v) →
      FieldOk Dom a v ∧ (v.isAgg = true → Valid S cv esc Dom v) := by
  intro a ha hu v hset
  have hnl : a.kind.isList = false := by simpa [specNoList] using (List.mem_filter.mp ha).2
  have hnonecase : ∀ v, setAttr S cv a (.val .none) = .ok (some v) →
      FieldOk Dom a v ∧ (v.isAgg = true → Valid S cv esc Dom v) := by
    intro v hset
    rcases setAttr_none hcv a _ hset with h0 | h0
    · simp at h0
    · simp only [Option.some.injEq] at h0
      subst h0
      exact ⟨fieldOk_none hcv hinto a hnl hu hset, by simp [Node.isAgg]⟩
  cases hl : lookup a.name kw with
  | none =>
    rw [hl] at hset
    exact hnonecase v hset
  | some v0 =>
    rw [hl] at hset
    simp only [Option.getD_some] at hset
    rcases hkw _ (lookup_mem hl) with hnone | ⟨a', ha', hn', sh, hsh, hfit, hwire, hagg⟩
    · simp only at hnone
      subst hnone
      exact hnonecase v hset
    · have : a' = a := nodup_map_inj (·.name) hnd ha' ha hn'
      subst this
      have hv := setAttr_faithful hcv a' sh v0 _ hsh hfit hset
      simp only [Option.some.injEq] at hv
      subst hv
      cases v0 with
      | agg cj f i =>
        obtain ⟨hk, hvalid⟩ := hagg cj f i rfl
        refine ⟨?_, fun _ => hvalid⟩
        unfold FieldOk
        simp only [hk, Kind.subTarget, normNode]
        exact Or.inr ⟨f, i, rfl⟩
      | val x =>
        by_cases hx : x = .none
        · subst hx
          exact hnonecase _ hset
        · have hsub : sh ≠ .sub := by
            intro e; subst e
            cases x with
            | none => exact hx rfl
            | _ => simp [Shape.fits] at hfit
          exact ⟨fieldOk_leaf hcv hinto a' sh x hsh hsub hfit hwire hset, by simp [normNode, Node.isAgg]⟩


/-- what C06 assumes of the integer converter on canonical decimal texts, wire-domain side -/
def ConvYearDom (cv : Conv) (enums : List (List Str)) (Dom : Kind → Bool → Val → Prop) : Prop :=
  ∀ l r (j : Int) x, cv.convert enums (.integer l) r (.str (pyStrInt j)) = .ok x → Dom (.integer l) r x

theorem requestTax_valid (hS : ReqWF S = true) (hW : WireWF S = true) (hT : taxWFB S = true)
    (hTM : taxMsgsValB S = true)
    (hTany : ∀ ci c, S.findIdx? "TAX1099RQ".toList = some ci → S.cls? ci = some c →
      ClsAny S c ci ∧ c.extra = .none ∧ c.optMutex = [] ∧ c.reqMutex = [])
    (hcv : ConvOK cv Ptext) (hinto : ConvInto cv S.enums Dom Ptext Pd) (laws : ConvLaws cv S.enums esc Dom)
    (hy : ConvYear cv) (hyd : ConvYearDom cv S.enums Dom)
    (cfg : Cfg) (pw : Str) (years : List Str) (acctnum recid : Option Str) (us : Nat → Str) (dtc : DT)
    (htexts : ∀ s ∈ cfg.texts, Ptext s) (hpw : Ptext pw)
    (hacct : ∀ s, acctnum = some s → Ptext s) (hrec : ∀ s, recid = some s → Ptext s)
    (hyears : ∀ y ∈ years, ∃ j : Int, y = pyStrInt j) (hdt : Pd dtc) (hu : Ptext (us 0)) {root : Node}
    (h : requestTax S cv cfg pw years acctnum recid us dtc = .ok root) : Valid S cv esc Dom root := by
  simp only [requestTax] at h
  obtain ⟨so, hso, h1⟩ := bind_ok h
  obtain ⟨rq, hrq, h2⟩ := bind_ok h1
  obtain ⟨trn, htrn, h3⟩ := bind_ok h2
  obtain ⟨msgs, hmsgs, hroot⟩ := bind_ok h3
  clear h h1 h2 h3
  obtain ⟨hvso, cis, fs, rfl, hsoidx⟩ := signon_valid (esc := esc) hS hW hcv hinto laws cfg pw none dtc htexts hpw
    (by simp) hdt hso
  -- TAX1099RQ, an ElementList
  obtain ⟨ci, c, hT⟩ := taxWF_of hT
  obtain ⟨hany, htriv⟩ := hTany ci c hT.fits.idx hT.fits.cls
  have horN : ∀ (o : Option Str), (∀ s, o = some s → Ptext s) → ∀ s, orNone o = some s → Ptext s := by
    intro o ho s hs
    cases o with
    | none => simp [orNone] at hs
    | some t =>
      simp only [orNone] at hs
      split at hs
      · simp at hs
      · simp only [Option.some.injEq] at hs; exact hs ▸ ho t rfl
  have kwT : ∀ (k : String) (o : Option Str), (k, Shape.text) ∈ tTAXRQ → (∀ s, o = some s → Ptext s) →
      KwWire S cv esc Dom c Ptext Pd (kv k (osv o)) := by
    intro k o hm ho
    cases o with
    | none => exact Or.inl rfl
    | some s =>
      obtain ⟨a, ha, hn, hs⟩ := hT.fits.attrs k .text hm
      exact Or.inr ⟨a, ha, hn, .text, hs, by simpa [osv, kv, Shape.fits] using ho s rfl, by simp [NodeWire, kv, osv],
        by intro cj f i h; simp [kv, osv] at h⟩
  have hkw : ∀ p ∈ [kv "acctnum" (osv (orNone acctnum)), kv "recid" (osv (orNone recid))],
      KwWire S cv esc Dom c Ptext Pd p :=
    forall_kw_cons (kwT "acctnum" _ (by simp) (horN _ hacct))
      (forall_kw_cons (kwT "recid" _ (by simp) (horN _ hrec)) (forall_kw_nil _))
  have hvrq : Valid S cv esc Dom rq := by
    have hmk := hrq
    simp only [mk, hT.fits.idx] at hmk
    apply construct_valid_any S cv esc Dom hany hmk (kw_fieldOk hcv hinto hT.fits.nodup hkw)
    · intro hel; rw [hT.el] at hel; cases hel
    · intro _ a ha inner ireq hk m hm x hx
      obtain ⟨a0, l, ireq0, hfil, hk0⟩ := hT.elem
      have : a ∈ c.spec.filter (fun a => a.kind.isListElem) :=
        List.mem_filter.mpr ⟨ha, by rw [hk]; rfl⟩
      rw [hfil] at this
      simp only [List.mem_singleton] at this
      subst this
      rw [hk0] at hk
      injection hk with hk1 hk2
      subst hk1 hk2
      obtain ⟨y, hy', rfl⟩ := List.mem_map.mp hm
      obtain ⟨j, rfl⟩ := hyears y hy'
      simp only [sv, Node.toVal] at hx
      have hxj := hy _ _ _ _ _ hx
      exact ⟨by rw [hxj]; simp, hyd _ _ _ _ hx⟩
    · intro fields items _ _
      exact validate_trivial S c _ _ htriv.1 htriv.2.1 htriv.2.2
  obtain ⟨f, items, rfl, _, _⟩ := mk_fields hcv hT.fits (fun p hp => (hkw p hp).fit) hrq
  obtain ⟨hvt, cit, ft, ct, rfl, hct, hdot⟩ := trn_valid hS hW hcv hinto (name := "TAX1099TRNRQ")
    (inner := "tax1099rq") (tbl := tTAXTRNRQ) (by simp [reqTable]) (by simp) (by simp) (by decide) (by decide)
    (by decide) hu (by rw [show upper "tax1099rq".toList = "TAX1099RQ".toList from by decide]; exact hT.fits.idx)
    hvrq htrn
  refine single_valid hS hW hcv hinto (attr := "tax1099msgsrqv1") (msgCls := "TAX1099MSGSRQV1") (by simp) (by simp)
    (by simp [reqTable]) (by decide) hvso hsoidx hvt ⟨cit, ft, [], ct, rfl, hct, hdot⟩ ?_ hmsgs hroot
  intro ciM cM hcM kw
  unfold taxMsgsValB at hTM
  rw [hcM.idx] at hTM
  simp only [hcM.cls, Bool.and_eq_true, decide_eq_true_eq, List.isEmpty_iff] at hTM
  simp [validateArgs, hTM.1.1, hTM.1.2, hTM.2, extraRule, enforceCount, bind, Except.bind]

end
section
open Ofx.Types
/-! ## Part 16: remaining premises of the tax request's validity, by name -/

/-- `TAX1099RQ` is concrete and has no hand-coded `validate_args`, no exclusivity groups -/
def taxRqValB (S : Schema) : Bool :=
  match S.findIdx? "TAX1099RQ".toList with
  | none => false
  | some ci =>
    match S.cls? ci with
    | none => false
    | some c => !c.abstract && decide (c.extra = .none) && c.optMutex.isEmpty && c.reqMutex.isEmpty

theorem taxRqVal_of {S : Schema} (h : taxRqValB S = true) {ci : Nat} {c : Cls}
    (hi : S.findIdx? "TAX1099RQ".toList = some ci) (hc : S.cls? ci = some c) :
    c.abstract = false ∧ c.extra = .none ∧ c.optMutex = [] ∧ c.reqMutex = [] := by
  unfold taxRqValB at h
  rw [hi] at h
  simp only [hc, Bool.and_eq_true, Bool.not_eq_eq_eq_not, Bool.not_true, decide_eq_true_eq, List.isEmpty_iff] at h
  exact ⟨h.1.1.1, h.1.1.2, h.1.2, h.2⟩

theorem conv_yearDom (enums : List (List Str)) : ConvYearDom Types.conv enums (typesDomWire enums) := by
  intro l r j x h
  simp only [Types.conv, Types.convert, Types.integerConvert] at h
  have hne : (pyStrInt j).length ≠ 0 := fun h0 => Ofx.Types.pyStrInt_ne_nil j (List.length_eq_zero_iff.mp h0)
  simp only [hne, if_false, pyIntParse_pyStrInt, bind, Except.bind] at h
  rw [intEnforceLength_ok] at h
  split at h
  · simp at h
  · rename_i u hu
    simp only [pure, Except.pure, Except.ok.injEq] at h
    have hf : intFits l j = true := by
      by_cases hf : intFits l j = true
      · exact hf
      · rw [if_neg hf] at hu; cases hu
    exact ⟨j, h.symm, hf⟩

end

/-! ## Part 9: the header carries the version asked for -/

open Ofx.Header

def hdrVersion : Hdr → Int
  | .v1 h => h.version
  | .v2 h => h.version

theorem wrapValueError_ok {α : Type} {x : PyM α} {a : α} (h : wrapValueError x = .ok a) : x = .ok a := by
  unfold wrapValueError at h
  split at h <;> simp_all

theorem orElse_int (i : Int) (h : i ≠ 0) (d : Arg) : Arg.orElse (.int i) d = .int i := by
  unfold Arg.orElse
  split <;> simp_all

/-- the header object `make_header(version)` returns carries that version -/
theorem makeHeader_version (p1 : V1P) (p2 : V2P) (v : Nat) (s o n : Option Str) (hd : Hdr)
    (h : makeHeader p1 p2 (.int (Int.ofNat v)) s o n = .ok hd) : hdrVersion hd = Int.ofNat v := by
  simp only [makeHeader, toInt, bind, Except.bind, pure, Except.pure] at h
  by_cases h1 : Int.ofNat v / 100 = 1
  · simp only [h1, if_true] at h
    split at h
    · simp at h
    · rename_i h1v hc
      simp only [Except.ok.injEq] at h
      subst h
      have hc := wrapValueError_ok hc
      have hv0 : (Int.ofNat v) ≠ 0 := by intro e; rw [e] at h1; simp at h1
      obtain ⟨_, _, hc⟩ := bind_ok hc
      obtain ⟨_, _, hc⟩ := bind_ok hc
      obtain ⟨_, _, hc⟩ := bind_ok hc
      obtain ⟨v', hv', hc⟩ := bind_ok hc
      obtain ⟨v'', hv'', hc⟩ := bind_ok hc
      obtain ⟨_, _, hc⟩ := bind_ok hc
      obtain ⟨_, _, hc⟩ := bind_ok hc
      obtain ⟨_, _, hc⟩ := bind_ok hc
      obtain ⟨_, _, hc⟩ := bind_ok hc
      obtain ⟨_, _, hc⟩ := bind_ok hc
      obtain ⟨_, _, hc⟩ := bind_ok hc
      simp only [pure, Except.pure, Except.ok.injEq] at hc
      subst hc
      simp only [hdrVersion]
      have e1 : v' = Int.ofNat v := by
        rw [orElse_int _ hv0] at hv'
        simpa [toInt, pure, Except.pure] using hv'.symm
      have e2 : v'' = v' := by
        unfold integerConv at hv''
        split at hv''
        · split at hv'' <;> simp [throw, throwThe, MonadExceptOf.throw, pure, Except.pure] at hv''
          exact hv''.symm
        · simp [pure, Except.pure] at hv''; exact hv''.symm
      rw [e2, e1]
  · simp only [h1, if_false] at h
    by_cases h2 : Int.ofNat v / 100 = 2
    · simp only [h2, if_true] at h
      split at h
      · simp at h
      · rename_i h2v hc
        simp only [Except.ok.injEq] at h
        subst h
        rw [ctorV2] at hc
        have hc := wrapValueError_ok hc
        obtain ⟨v', hv', hc⟩ := bind_ok hc
        obtain ⟨v'', hv'', hc⟩ := bind_ok hc
        obtain ⟨_, _, hc⟩ := bind_ok hc
        obtain ⟨_, _, hc⟩ := bind_ok hc
        obtain ⟨_, _, hc⟩ := bind_ok hc
        obtain ⟨_, _, hc⟩ := bind_ok hc
        obtain ⟨_, _, hc⟩ := bind_ok hc
        simp only [pure, Except.pure, Except.ok.injEq] at hc
        subst hc
        simp only [hdrVersion]
        have e1 : v' = Int.ofNat v := by simpa [toInt, pure, Except.pure] using hv'.symm
        have e2 : v'' = v' := by
          unfold oneOfInt at hv''
          split at hv'' <;> simp [throw, throwThe, MonadExceptOf.throw, pure, Except.pure] at hv''
          exact hv''.symm
        rw [e2, e1]
    · split at h
      · rename_i h2'; exact absurd h2' h2
      · simp [throw, throwThe, MonadExceptOf.throw] at h

end Ofx.Compose
