/-
C18, the INI reader: the two "impossible" Python errors inside `_read` (`KeyError` / `AttributeError` on
`cursect[optname].append(…)`, modelled as `IniErr.internal`) are never reached, for any parser content and any text.
So `iniReadInto` fails only with the four `configparser` exceptions.
-/
import OfxProofs.Lemmas.IniRead

set_option linter.unusedSimpArgs false

namespace Ofx.IniText
open Ofx Ofx.Ofxget

/-- what `_read` maintains between two lines: `cursect` is a dict of the parser, and the option a continuation line
    would extend is present there with a list value -/
def RInv (st : RState) : Prop :=
  (∀ n, st.cur = .named n → (st.sections.lookup n).isSome = true) ∧
  (∀ k, st.openOpt = some k → ∃ l, (curSect st).lookup k = some (.lines l))

theorem curOk_of_inv (st : RState) (h : RInv st) (hc : st.cur ≠ .none) : CurOk st := by
  unfold CurOk
  cases hcur : st.cur with
  | none => exact absurd hcur hc
  | defaults => trivial
  | named n => exact h.1 n hcur

theorem append_inv (st : RState) (k : Name) (x : Str) (h : RInv st) (ho : st.openOpt = some k) :
    ∃ st', st.modCur (appendIn k x) = .ok st' ∧ RInv st' := by
  obtain ⟨hc, _, _⟩ := openOpt_spec st k ho
  have hok := curOk_of_inv st h hc
  obtain ⟨l, hl⟩ := h.2 k ho
  refine ⟨_, modCur_ok st _ _ hok (appendIn_lookup k x _ l hl), ?_, ?_⟩
  · intro n hn
    rw [setCurSect_cur] at hn
    rw [setCurSect_hasSection _ _ hok]
    exact h.1 n hn
  · intro k' hk'
    rw [openOpt_setCurSect, ho] at hk'
    cases hk'
    rw [curSect_setCurSect _ _ hok]
    exact ⟨_, lookup_mapSet_self k _ _⟩

theorem header_inv (st : RState) (name : Str) (_h : RInv st) :
    st.header name ≠ .error .internal ∧ ∀ st', st.header name = .ok st' → RInv st' := by
  unfold RState.header
  split
  · rename_i hex
    split
    · exact ⟨by simp, by intro st' h'; cases h'⟩
    · refine ⟨by simp [pure, Except.pure], ?_⟩
      intro st' h'
      simp only [pure, Except.pure, Except.ok.injEq] at h'
      subst h'
      refine ⟨?_, ?_⟩
      · intro n hn
        cases hn
        exact hex
      · intro k hk
        rw [openOpt_none _ rfl] at hk
        cases hk
  · split
    · refine ⟨by simp [pure, Except.pure], ?_⟩
      intro st' h'
      simp only [pure, Except.pure, Except.ok.injEq] at h'
      subst h'
      refine ⟨?_, ?_⟩
      · intro n hn
        cases hn
      · intro k hk
        rw [openOpt_none _ rfl] at hk
        cases hk
    · refine ⟨by simp [pure, Except.pure], ?_⟩
      intro st' h'
      simp only [pure, Except.pure, Except.ok.injEq] at h'
      subst h'
      refine ⟨?_, ?_⟩
      · intro n hn
        cases hn
        show ((st.sections ++ [(name, [])]).lookup name).isSome = true
        rw [lookup_append_single]
        simp
      · intro k hk
        rw [openOpt_none _ rfl] at hk
        cases hk

theorem setOpt_inv (st2 : RState) (key : Name) (v : Str) (hok : CurOk st2) (hname : st2.optname = some key)
    (hsec : ∀ n, st2.cur = .named n → (st2.sections.lookup n).isSome = true) :
    ∃ st', st2.modCur (fun d => .ok (mapSet key (.lines [v]) d)) = .ok st' ∧ RInv st' := by
  refine ⟨_, modCur_ok st2 _ _ hok rfl, ?_, ?_⟩
  · intro n hn
    rw [setCurSect_cur] at hn
    rw [setCurSect_hasSection _ _ hok]
    exact hsec n hn
  · intro k' hk'
    rw [openOpt_setCurSect] at hk'
    have := (openOpt_spec _ k' hk').2.1
    rw [hname] at this
    simp only [Option.some.injEq] at this
    subst this
    rw [curSect_setCurSect _ _ hok]
    exact ⟨_, lookup_mapSet_self _ _ _⟩

theorem option_inv (st : RState) (k v : Str) (h : RInv st) (hc : st.cur ≠ .none) :
    st.option k v ≠ .error .internal ∧ ∀ st', st.option k v = .ok st' → RInv st' := by
  have hok := curOk_of_inv st h hc
  unfold RState.option
  simp only
  split
  · exact ⟨by simp, by intro st' h'; cases h'⟩
  · obtain ⟨st1, hs1, hi1⟩ := setOpt_inv _ (lower (rstrip k)) v
      (show CurOk { st with bad := st.bad || k.isEmpty, optname := some (lower (rstrip k)),
                            seenOpt := (st.cur.name, lower (rstrip k)) :: st.seenOpt } from hok) rfl h.1
    rw [hs1]
    exact ⟨by simp, by intro st' h'; cases h'; exact hi1⟩

/-- the part of the loop body after the continuation test -/
def stepTail (st : RState) (value : Str) : Except IniErr RState :=
  match sectHeader value with
  | some name => st.header name
  | none =>
    match st.cur with
    | .none => .error .missingHeader
    | _ =>
      match optMatch value with
      | some kv => st.option kv.1 kv.2
      | none => .ok { st with bad := true }

theorem step_eq (st : RState) (line : Str) :
    step st line =
      if isCommentLine (strip line) then .ok st
      else if (strip line).isEmpty then
        (match st.openOpt with
         | some k => st.modCur (appendIn k [])
         | none => .ok st)
      else
        match (match st.openOpt with
               | some k => if indentOf line > st.indent then some k else none
               | none => none) with
        | some k => st.modCur (appendIn k (strip line))
        | none => stepTail { st with indent := indentOf line } (strip line) := rfl

theorem stepTail_inv (st : RState) (value : Str) (h : RInv st) :
    stepTail st value ≠ .error .internal ∧ ∀ st', stepTail st value = .ok st' → RInv st' := by
  unfold stepTail
  split
  · exact header_inv _ _ h
  · split
    · exact ⟨by simp, by intro st' h''; cases h''⟩
    · rename_i hcur
      split
      · exact option_inv _ _ _ h (by intro e; exact hcur e)
      · refine ⟨by simp, ?_⟩
        intro st' h''
        cases h''
        exact h

/-- **one line** never raises the internal errors and keeps the invariant -/
theorem step_inv (st : RState) (line : Str) (h : RInv st) :
    step st line ≠ .error .internal ∧ ∀ st', step st line = .ok st' → RInv st' := by
  have happ : ∀ k x, st.openOpt = some k →
      st.modCur (appendIn k x) ≠ .error .internal ∧ ∀ st', st.modCur (appendIn k x) = .ok st' → RInv st' := by
    intro k x ho
    obtain ⟨st1, hs1, hi1⟩ := append_inv st k x h ho
    rw [hs1]
    exact ⟨by simp, by intro st' h'; cases h'; exact hi1⟩
  have hsame : (Except.ok st : Except IniErr RState) ≠ .error .internal ∧
      ∀ st', (Except.ok st : Except IniErr RState) = .ok st' → RInv st' :=
    ⟨by simp, by intro st' h'; cases h'; exact h⟩
  have htail := stepTail_inv { st with indent := indentOf line } (strip line) h
  rw [step_eq]
  by_cases hc : isCommentLine (strip line) = true
  · simp only [hc, if_true]; exact hsame
  · simp only [hc, Bool.false_eq_true, if_false]
    by_cases he : (strip line).isEmpty = true
    · simp only [he, if_true]
      cases ho : st.openOpt with
      | none => exact hsame
      | some k => exact happ k [] ho
    · simp only [he, Bool.false_eq_true, if_false]
      cases ho : st.openOpt with
      | none => exact htail
      | some k =>
        by_cases hi : indentOf line > st.indent
        · simp only [hi, if_true]; exact happ k _ ho
        · simp only [hi, if_false]; exact htail

theorem foldlM_step_inv (lines : List Str) (st : RState) (h : RInv st) :
    lines.foldlM step st ≠ .error .internal := by
  induction lines generalizing st with
  | nil => simp [pure, Except.pure]
  | cons l rest ih =>
    obtain ⟨h1, h2⟩ := step_inv st l h
    simp only [List.foldlM_cons, bind, Except.bind]
    cases hs : step st l with
    | error e =>
      simp only
      intro he
      cases he
      exact h1 hs
    | ok st' => exact ih st' (h2 st' hs)

theorem inv_init (c : Ini) : RInv (RState.init c) := by
  refine ⟨?_, ?_⟩
  · intro n hn
    cases hn
  · intro k hk
    rw [openOpt_none _ rfl] at hk
    cases hk

/-- **iniReadInto_no_internal.**  For every parser content and every text, reading fails — if it fails — with one of
    the four `configparser` exceptions; the defensive branches of the model are dead. -/
theorem iniReadInto_no_internal (c0 : Ini) (text : Str) : iniReadInto c0 text ≠ .error .internal := by
  unfold iniReadInto
  have := foldlM_step_inv (splitLines text) (RState.init c0) (inv_init c0)
  cases hs : (splitLines text).foldlM step (RState.init c0) with
  | error e =>
    simp only [bind, Except.bind]
    intro he
    cases he
    exact this hs
  | ok st =>
    simp only [bind, Except.bind]
    split <;> simp [pure, Except.pure]

end Ofx.IniText
