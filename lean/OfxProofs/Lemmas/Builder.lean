/-
Lemmas about `Ofx.Builder`: `_groomstring` on padded data, and the effect of one regex match of each
shape on the builder state.
-/
import OfxModel.Ofx.Builder
import OfxModel.Spec.Renders
import OfxProofs.Lemmas.Lexer

namespace Ofx.Builder
open Ofx Ofx.Lexer Ofx.Spec

/-! ### `str.strip` -/

theorem ws_iff (w : Str) : ws w = true ↔ ∀ c ∈ w, isSpace c = true := by simp [ws]

theorem lstrip_ws (w s : Str) (hw : ws w = true) : lstrip (w ++ s) = lstrip s := by
  induction w with
  | nil => rfl
  | cons c cs ih =>
    have h := (ws_iff _).mp hw
    have hc : isSpace c = true := h c (by simp)
    simp only [List.cons_append, lstrip, hc, if_true]
    exact ih ((ws_iff _).mpr fun x hx => h x (by simp [hx]))

theorem lstrip_nonspace (c : Char) (s : Str) (h : isSpace c = false) : lstrip (c :: s) = c :: s := by
  simp [lstrip, h]

theorem lstrip_ws_nil (w : Str) (hw : ws w = true) : lstrip w = [] := by
  have := lstrip_ws w [] hw
  simpa [lstrip] using this

theorem ws_reverse (w : Str) (hw : ws w = true) : ws w.reverse = true := by
  simp only [ws, List.all_reverse] at hw ⊢; exact hw

/-- `(w1 + d + w2).strip() == d` for trimmed non-empty `d` -/
theorem strip_pad (w1 d w2 : Str) (h1 : ws w1 = true) (h2 : ws w2 = true) (hne : d ≠ []) (ht : trimmed d = true) :
    strip (w1 ++ (d ++ w2)) = d := by
  simp only [trimmed, Bool.and_eq_true] at ht
  obtain ⟨hh, hl⟩ := ht
  cases d with
  | nil => exact absurd rfl hne
  | cons c cs =>
    have hc : isSpace c = false := by simpa using hh
    unfold strip
    rw [lstrip_ws w1 _ h1]
    simp only [List.cons_append, lstrip_nonspace c _ hc]
    unfold rstrip
    have e : (c :: (cs ++ w2)).reverse = w2.reverse ++ (c :: cs).reverse := by simp
    rw [e, lstrip_ws _ _ (ws_reverse w2 h2)]
    -- the head of the reversed data is its last character
    cases hr : (c :: cs).reverse with
    | nil => simp at hr
    | cons z zs =>
      have hz : (c :: cs).getLast? = some z := by
        rw [List.getLast?_eq_head?_reverse, hr]; rfl
      rw [hz] at hl
      have hzs : isSpace z = false := by simpa using hl
      rw [lstrip_nonspace z zs hzs, ← hr, List.reverse_reverse]

theorem strip_ws (w : Str) (hw : ws w = true) : strip w = [] := by
  unfold strip rstrip
  rw [lstrip_ws_nil w hw]; rfl

/-! ### `_groomstring` -/

theorem groom_ws (w : Str) (hw : ws w = true) : groom (optStr w) = none := by
  cases w with
  | nil => rfl
  | cons c cs =>
    simp only [optStr, groom, strip_ws _ hw]

theorem groom_pad (w1 d w2 : Str) (h1 : ws w1 = true) (h2 : ws w2 = true) (hne : d ≠ []) (ht : trimmed d = true) :
    groom (optStr (w1 ++ (d ++ w2))) = some d := by
  have hs := strip_pad w1 d w2 h1 h2 hne ht
  cases hx : w1 ++ (d ++ w2) with
  | nil =>
    obtain ⟨-, h⟩ := List.append_eq_nil_iff.mp hx
    exact absurd (List.append_eq_nil_iff.mp h).1 hne
  | cons c cs =>
    rw [hx] at hs
    simp only [optStr, groom, hs]

/-! ### the builder state -/

/-- hand a finished element to the innermost open element, or make it the root -/
def St.emit (t : Tree) (st : St) : St :=
  match st.stack with
  | [] => { st with root := some t }
  | f :: fs => { st with stack := f.add t :: fs }

/-- a start tag is acceptable here -/
def St.CanStart (st : St) : Prop := st.stack ≠ [] ∨ st.root = none

def St.push (tag : Str) (st : St) : St := { st with stack := ⟨tag, none, []⟩ :: st.stack }

theorem start_ok (tag : Str) (st : St) (h : st.CanStart) : st.start tag = .ok (st.push tag) := by
  obtain ⟨stack, root⟩ := st
  cases stack with
  | nil =>
    cases h with
    | inl h => exact absurd rfl h
    | inr h => simp only at h; subst h; rfl
  | cons f fs => rfl

theorem end_push (tag : Str) (tx : Option Str) (cs : List Tree) (st : St) :
    St.end_ { st with stack := ⟨tag, tx, cs⟩ :: st.stack } = .ok (st.emit (.node tag tx none cs)) := by
  obtain ⟨stack, root⟩ := st
  cases stack with
  | nil => rfl
  | cons f fs => rfl

/-- the tag is a name: not empty and not an end tag -/
theorem tagOk_cons {t : Str} (h : tagOk t = true) : ∃ c cs, t = c :: cs ∧ c ≠ '/' ∧ ∀ x ∈ c :: cs, isNameChar x = true := by
  simp only [tagOk, Bool.and_eq_true, List.all_eq_true] at h
  cases t with
  | nil => simp at h
  | cons c cs => exact ⟨c, cs, rfl, name_ne_slash (h.2 c (by simp)), h.2⟩

theorem isEndTag_cons_ne (c : Char) (cs : Str) (h : c ≠ '/') : isEndTag (c :: cs) = false := by
  unfold isEndTag
  split
  · rename_i heq; cases heq; exact absurd rfl h
  · rfl

theorem feedMatch_name (t : Str) (text closetag : Option Str) (st : St) (ht : tagOk t = true)
    (hc : closetag = none ∨ closetag = some t) :
    feedMatch t text closetag st = startElem t text closetag st := by
  obtain ⟨c, cs, rfl, hne, -⟩ := tagOk_cons ht
  unfold feedMatch
  have h2 : (closetag == none || closetag == some (c :: cs)) = true := by
    cases hc with
    | inl h => subst h; rfl
    | inr h => subst h; simp
  simp only [List.isEmpty_cons, h2, Bool.not_true, Bool.false_eq_true, if_false, isEndTag_cons_ne c cs hne]

/-- a data element (either spelling, with or without end tag): start, data, end -/
theorem step_leaf (t d : Str) (cdata text closetag tail : Option Str) (len : Nat) (st : St)
    (ht : tagOk t = true) (hd : d ≠ []) (hc : closetag = none ∨ closetag = some t)
    (htail : groom tail = none)
    (hdata : (cdata = none ∧ groom text = some d) ∨ (cdata = some d ∧ groom text = none))
    (hst : st.CanStart) :
    step ⟨t, cdata, text, closetag, tail, len⟩ st = .ok (st.emit (Tree.leaf t d)) := by
  cases d with
  | nil => exact absurd rfl hd
  | cons a as =>
    unfold step
    simp only [htail, truthy]
    have key : ∀ tx : Option Str, tx = some (a :: as) →
        feedMatch t tx closetag st = .ok (st.emit (Tree.leaf t (a :: as))) := by
      intro tx htx; subst htx
      rw [feedMatch_name t _ closetag st ht hc]
      unfold startElem
      simp only [start_ok t st hst, bind, Except.bind]
      have := end_push t (some (a :: as)) [] st
      simpa [St.push, St.data, Tree.leaf] using this
    cases hdata with
    | inl h => obtain ⟨h1, h2⟩ := h; subst h1; simp only [h2]; exact key _ rfl
    | inr h => obtain ⟨h1, h2⟩ := h; subst h1; simp only [h2]; exact key _ rfl

/-- the start tag of an aggregate -/
theorem step_open (t : Str) (text : Option Str) (len : Nat) (st : St) (ht : tagOk t = true)
    (htext : groom text = none) (hst : st.CanStart) :
    step ⟨t, none, text, none, none, len⟩ st = .ok (st.push t) := by
  have h0 : groom none = none := rfl
  unfold step
  simp only [h0, truthy, htext, Bool.false_eq_true, if_false, Bool.and_self]
  rw [feedMatch_name t _ none st ht (Or.inl rfl)]
  unfold startElem
  simp only [start_ok t st hst, bind, Except.bind, truthy]
  rfl

/-- `<T></T>`: an empty aggregate -/
theorem step_empty (t : Str) (text tail : Option Str) (len : Nat) (st : St) (ht : tagOk t = true)
    (htext : groom text = none) (htail : groom tail = none) (hst : st.CanStart) :
    step ⟨t, none, text, some t, tail, len⟩ st = .ok (st.emit (Tree.agg t [])) := by
  obtain ⟨c, cs, rfl, hne, -⟩ := tagOk_cons ht
  unfold step
  simp only [htail, truthy, htext]
  rw [feedMatch_name _ _ _ st ht (Or.inr rfl)]
  unfold startElem
  simp only [start_ok _ st hst, bind, Except.bind, truthy]
  have := end_push (c :: cs) none [] st
  simpa [St.push, Tree.agg] using this

/-- an end tag pops the innermost open element, whatever its name -/
theorem step_end (name : Str) (text : Option Str) (len : Nat) (st : St) (htext : groom text = none) :
    step ⟨'/' :: name, none, text, none, none, len⟩ st = st.end_ := by
  have h0 : groom none = none := rfl
  unfold step
  simp only [h0, truthy, htext, Bool.false_eq_true, if_false, Bool.and_self]
  unfold feedMatch
  simp [truthy, isEndTag]

end Ofx.Builder
