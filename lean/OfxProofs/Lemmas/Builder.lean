/-
Lemmas about `Ofx.Builder`: `_groomstring` on padded data, and the effect of one regex match of each
shape on the builder state.
-/
import OfxModel.Ofx.Builder
import OfxModel.Spec.Renders
import OfxProofs.Lemmas.Lexer

namespace Ofx.Builder
open Ofx Ofx.Lexer Ofx.Spec

/-! ### `str.strip` -/

theorem ws_iff (w : Str) : ws w = true ↔ ∀ c ∈ w, isSpace c = true := by simp [ws]

theorem lstrip_ws (w s : Str) (hw : ws w = true) : lstrip (w ++ s) = lstrip s := by
  induction w with
  | nil => rfl
  | cons c cs ih =>
    have h := (ws_iff _).mp hw
    have hc : isSpace c = true := h c (by simp)
    simp only [List.cons_append, lstrip, hc, if_true]
    exact ih ((ws_iff _).mpr fun x hx => h x (by simp [hx]))

theorem lstrip_nonspace (c : Char) (s : Str) (h : isSpace c = false) : lstrip (c :: s) = c :: s := by
  simp [lstrip, h]

theorem lstrip_ws_nil (w : Str) (hw : ws w = true) : lstrip w = [] := by
  have := lstrip_ws w [] hw
  simpa [lstrip] using this

theorem ws_reverse (w : Str) (hw : ws w = true) : ws w.reverse = true := by
  simp only [ws, List.all_reverse] at hw ⊢; exact hw

/-- `(w1 + d + w2).strip() == d` for trimmed non-empty `d` -/
theorem strip_pad (w1 d w2 : Str) (h1 : ws w1 = true) (h2 : ws w2 = true) (hne : d ≠ []) (ht : trimmed d = true) :
    strip (w1 ++ (d ++ w2)) = d := by
  simp only [trimmed, Bool.and_eq_true] at ht
  obtain ⟨hh, hl⟩ := ht
  cases d with
  | nil => exact absurd rfl hne
  | cons c cs =>
    have hc : isSpace c = false := by simpa using hh
    unfold strip
    rw [lstrip_ws w1 _ h1]
    simp only [List.cons_append, lstrip_nonspace c _ hc]
    unfold rstrip
    have e : (c :: (cs ++ w2)).reverse = w2.reverse ++ (c :: cs).reverse := by simp
    rw [e, lstrip_ws _ _ (ws_reverse w2 h2)]
    -- the head of the reversed data is its last character
    cases hr : (c :: cs).reverse with
    | nil => simp at hr
    | cons z zs =>
      have hz : (c :: cs).getLast? = some z := by
        rw [List.getLast?_eq_head?_reverse, hr]; rfl
      rw [hz] at hl
      have hzs : isSpace z = false := by simpa using hl
      rw [lstrip_nonspace z zs hzs, ← hr, List.reverse_reverse]

theorem strip_ws (w : Str) (hw : ws w = true) : strip w = [] := by
  unfold strip rstrip
  rw [lstrip_ws_nil w hw]; rfl

theorem mem_lstrip (l : Str) (c : Char) (hc : c ∈ l) (hs : isSpace c = false) : c ∈ lstrip l := by
  induction l with
  | nil => cases hc
  | cons a as ih =>
    unfold lstrip
    by_cases ha : isSpace a = true
    · simp only [ha, if_true]
      rcases List.mem_cons.mp hc with rfl | h
      · rw [hs] at ha; cases ha
      · exact ih h
    · simp only [ha]; exact hc

/-- `x.strip()` is non-empty as soon as `x` has a non-whitespace character -/
theorem strip_ne_nil (x : Str) (c : Char) (hc : c ∈ x) (hs : isSpace c = false) : strip x ≠ [] := by
  unfold strip rstrip
  have h1 : c ∈ lstrip x := mem_lstrip x c hc hs
  have h2 : c ∈ lstrip (lstrip x).reverse := mem_lstrip _ c (by simpa using h1) hs
  intro e
  have : lstrip (lstrip x).reverse = [] := by simpa using e
  rw [this] at h2; cases h2

/-! ### `_groomstring` -/

theorem groom_ws (w : Str) (hw : ws w = true) : groom (optStr w) = none := by
  cases w with
  | nil => rfl
  | cons c cs =>
    simp only [optStr, groom, strip_ws _ hw]

theorem groom_pad (w1 d w2 : Str) (h1 : ws w1 = true) (h2 : ws w2 = true) (hne : d ≠ []) (ht : trimmed d = true) :
    groom (optStr (w1 ++ (d ++ w2))) = some d := by
  have hs := strip_pad w1 d w2 h1 h2 hne ht
  cases hx : w1 ++ (d ++ w2) with
  | nil =>
    obtain ⟨-, h⟩ := List.append_eq_nil_iff.mp hx
    exact absurd (List.append_eq_nil_iff.mp h).1 hne
  | cons c cs =>
    rw [hx] at hs
    simp only [optStr, groom, hs]

/-- `_groomstring` keeps something exactly when the string is not all whitespace -/
theorem truthy_groom (o : Option Str) : truthy (groom o) = !blank o := by
  cases o with
  | none => rfl
  | some x =>
    by_cases hb : x.all isSpace = true
    · have : strip x = [] := strip_ws x hb
      simp [groom, this, truthy, blank, hb]
    · have hb' : x.all isSpace = false := by simpa using hb
      obtain ⟨c, hc, hs⟩ : ∃ c, c ∈ x ∧ isSpace c = false := by
        simp only [List.all_eq_false] at hb'
        obtain ⟨c, hc, h⟩ := hb'
        exact ⟨c, hc, by simpa using h⟩
      have hne := strip_ne_nil x c hc hs
      simp only [groom, blank, hb']
      cases h : strip x with
      | nil => exact absurd h hne
      | cons a as => rfl

theorem groom_nonblank (x : Str) (c : Char) (hc : c ∈ x) (hs : isSpace c = false) : truthy (groom (optStr x)) = true := by
  cases x with
  | nil => cases hc
  | cons a as =>
    have : optStr (a :: as) = some (a :: as) := rfl
    rw [this, truthy_groom]
    simp only [blank, Bool.not_eq_true', List.all_eq_false]
    exact ⟨c, hc, by simp [hs]⟩

/-! ### the builder state -/

/-- hand a finished element to the innermost open element, or make it the root -/
def St.emit (t : Tree) (st : St) : St :=
  match st.stack with
  | [] => { st with root := some t }
  | f :: fs => { st with stack := f.add t :: fs }

/-- a start tag is acceptable here -/
def St.CanStart (st : St) : Prop := st.stack ≠ [] ∨ st.root = none

def St.push (tag : Str) (st : St) : St := { st with stack := ⟨tag, none, []⟩ :: st.stack }

theorem start_ok (tag : Str) (st : St) (h : st.CanStart) : st.start tag = .ok (st.push tag) := by
  obtain ⟨stack, root⟩ := st
  cases stack with
  | nil =>
    cases h with
    | inl h => exact absurd rfl h
    | inr h => simp only at h; subst h; rfl
  | cons f fs => rfl

/-- the end tag that matches the innermost open element closes it -/
theorem end_push (tag : Str) (tx : Option Str) (cs : List Tree) (st : St) :
    St.end_ tag { st with stack := ⟨tag, tx, cs⟩ :: st.stack } = .ok (st.emit (.node tag tx none cs)) := by
  obtain ⟨stack, root⟩ := st
  cases stack with
  | nil => simp [St.end_, St.emit, Frame.toTree]
  | cons f fs => simp [St.end_, St.emit, Frame.toTree]

/-- the tag is a name: not empty and not an end tag -/
theorem tagOk_cons {t : Str} (h : tagOk t = true) : ∃ c cs, t = c :: cs ∧ c ≠ '/' ∧ ∀ x ∈ c :: cs, isNameChar x = true := by
  simp only [tagOk, Bool.and_eq_true, List.all_eq_true] at h
  cases t with
  | nil => simp at h
  | cons c cs => exact ⟨c, cs, rfl, name_ne_slash (h.2 c (by simp)), h.2⟩

theorem isEndTag_cons_ne (c : Char) (cs : Str) (h : c ≠ '/') : isEndTag (c :: cs) = false := by
  unfold isEndTag
  split
  · rename_i heq; cases heq; exact absurd rfl h
  · rfl

theorem feedMatch_name (t : Str) (text closetag : Option Str) (st : St) (ht : tagOk t = true)
    (hc : closetag = none ∨ closetag = some t) :
    feedMatch t text closetag st = startElem t text closetag st := by
  obtain ⟨c, cs, rfl, hne, -⟩ := tagOk_cons ht
  unfold feedMatch
  have h2 : (closetag == none || closetag == some (c :: cs)) = true := by
    cases hc with
    | inl h => subst h; rfl
    | inr h => subst h; simp
  simp only [List.isEmpty_cons, h2, Bool.not_true, Bool.false_eq_true, if_false, isEndTag_cons_ne c cs hne]

/-- a data element (either spelling, with or without end tag): start, data, end -/
theorem step_leaf (t d : Str) (cdata text closetag tail : Option Str) (len : Nat) (st : St)
    (ht : tagOk t = true) (hd : d ≠ []) (hc : closetag = none ∨ closetag = some t)
    (htail : groom tail = none)
    (hdata : (cdata = none ∧ groom text = some d) ∨ (cdata = some d ∧ groom text = none))
    (hst : st.CanStart) :
    step ⟨t, cdata, text, closetag, tail, len⟩ st = .ok (st.emit (Tree.leaf t d)) := by
  cases d with
  | nil => exact absurd rfl hd
  | cons a as =>
    unfold step
    simp only [htail, truthy]
    have key : ∀ tx : Option Str, tx = some (a :: as) →
        feedMatch t tx closetag st = .ok (st.emit (Tree.leaf t (a :: as))) := by
      intro tx htx; subst htx
      rw [feedMatch_name t _ closetag st ht hc]
      unfold startElem
      simp only [start_ok t st hst, bind, Except.bind]
      have := end_push t (some (a :: as)) [] st
      simpa [St.push, St.data, Tree.leaf] using this
    cases hdata with
    | inl h => obtain ⟨h1, h2⟩ := h; subst h1; simp only [h2]; exact key _ rfl
    | inr h => obtain ⟨h1, h2⟩ := h; subst h1; simp only [h2]; exact key _ rfl

/-- the start tag of an aggregate -/
theorem step_open (t : Str) (text : Option Str) (len : Nat) (st : St) (ht : tagOk t = true)
    (htext : groom text = none) (hst : st.CanStart) :
    step ⟨t, none, text, none, none, len⟩ st = .ok (st.push t) := by
  have h0 : groom none = none := rfl
  unfold step
  simp only [h0, truthy, htext, Bool.false_eq_true, if_false, Bool.and_self]
  rw [feedMatch_name t _ none st ht (Or.inl rfl)]
  unfold startElem
  simp only [start_ok t st hst, bind, Except.bind, truthy]
  rfl

/-- `<T></T>`: an empty aggregate -/
theorem step_empty (t : Str) (text tail : Option Str) (len : Nat) (st : St) (ht : tagOk t = true)
    (htext : groom text = none) (htail : groom tail = none) (hst : st.CanStart) :
    step ⟨t, none, text, some t, tail, len⟩ st = .ok (st.emit (Tree.agg t [])) := by
  obtain ⟨c, cs, rfl, hne, -⟩ := tagOk_cons ht
  unfold step
  simp only [htail, truthy, htext]
  rw [feedMatch_name _ _ _ st ht (Or.inr rfl)]
  unfold startElem
  simp only [start_ok _ st hst, bind, Except.bind, truthy]
  have := end_push (c :: cs) none [] st
  simpa [St.push, Tree.agg] using this

/-- an end tag is handed to `end` with its name -/
theorem step_end (name : Str) (text : Option Str) (len : Nat) (st : St) (htext : groom text = none) :
    step ⟨'/' :: name, none, text, none, none, len⟩ st = st.end_ name := by
  have h0 : groom none = none := rfl
  unfold step
  simp only [h0, truthy, htext, Bool.false_eq_true, if_false, Bool.and_self]
  unfold feedMatch
  simp [truthy, isEndTag]

end Ofx.Builder
