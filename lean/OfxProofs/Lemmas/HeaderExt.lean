/-
Lemmas for the header refusal theorems in concrete form (C12Ext) and for the layout boundaries (C05Ext).

* where a marker word can occur inside a text made of `NAME:value<whitespace>` lines (`marker_infix_NF`):
  the "marker does not occur later" side condition is derived from the shape of the text;
* inversion of the v1 matcher on such a text (`v1_match_inv`): a match at the start of the text forces the
  sequence of field names and — up to whitespace around it — the character class of every value (values may be
  empty or contain whitespace: `InStrip`);
* the same for the v2 pattern on `NAME="value"` attributes.
-/
import OfxProofs.Props.C12

namespace Ofx.Header
open Ofx

/-! ### infixes and separators -/

/-- an infix that does not contain the separator lies on one side of it -/
theorem infix_sep {l a b : Str} {c : Char} (hc : c ∉ l) (h : l <:+: a ++ c :: b) : l <:+: a ∨ l <:+: b := by
  obtain ⟨x, y, hxy⟩ := h
  have h1 : (x ++ l) ++ y = a ++ c :: b := by simpa using hxy
  rcases List.append_eq_append_iff.1 h1 with ⟨a', ha, hb⟩ | ⟨c', ha, hb⟩
  · -- a ++ c :: b = (x ++ l) ++ a' ++ ...: here `a = (x ++ l) ++ a'`
    exact Or.inl ⟨x, a', by rw [ha]⟩
  · cases c' with
    | nil => exact Or.inl ⟨x, [], by simpa using ha⟩
    | cons d c'' =>
      simp only [List.cons_append, List.cons.injEq] at hb
      obtain ⟨hd, hb⟩ := hb
      subst hd
      rcases List.append_eq_append_iff.1 ha with ⟨a2, ha2, hb2⟩ | ⟨c2, ha2, hb2⟩
      · -- l = a2 ++ c :: c''
        exact absurd (by rw [hb2]; simp) hc
      · cases c2 with
        | nil =>
          simp only [List.nil_append] at hb2
          exact absurd (by rw [← hb2]; simp) hc
        | cons e c3 =>
          simp only [List.cons_append, List.cons.injEq] at hb2
          refine Or.inr ⟨c3, y, ?_⟩
          rw [hb, hb2.2]

theorem infix_nil_iff {l : Str} : l <:+: [] ↔ l = [] := by
  constructor
  · rintro ⟨x, y, h⟩
    simp at h
    exact h.2.1
  · rintro rfl; exact ⟨[], [], rfl⟩

/-- leading characters foreign to `l` can be skipped -/
theorem infix_skip {l w s : Str} (hl : l ≠ []) (hw : ∀ c ∈ w, c ∉ l) (h : l <:+: w ++ s) : l <:+: s := by
  induction w with
  | nil => simpa using h
  | cons c cs ih =>
    have : l <:+: [] ++ c :: (cs ++ s) := by simpa using h
    rcases infix_sep (hw c (by simp)) this with h0 | h1
    · exact absurd (infix_nil_iff.1 h0) hl
    · exact ih (fun d hd => hw d (by simp [hd])) h1

theorem not_infix_of_not_mem {l s : Str} {c : Char} (hc : c ∈ l) (hs : c ∉ s) : ¬ l <:+: s := by
  rintro ⟨x, y, h⟩
  exact hs (by rw [← h]; simp [hc])

/-- `nm:` inside `n:w` with no further colon: `nm` ends `n` -/
theorem marker_line {nm n w : Str} (hn : ':' ∉ n) (hw : ':' ∉ w) (h : nm ++ [':'] <:+: n ++ ':' :: w) :
    nm <:+ n := by
  obtain ⟨x, y, hxy⟩ := h
  have h1 : (x ++ nm) ++ ':' :: y = n ++ ':' :: w := by simpa using hxy
  rcases List.append_eq_append_iff.1 h1 with ⟨a', ha, hb⟩ | ⟨c', ha, hb⟩
  · cases a' with
    | nil => exact ⟨x, by simpa using ha.symm⟩
    | cons d a'' =>
      simp only [List.cons_append, List.cons.injEq] at hb
      exact absurd (by rw [ha, ← hb.1]; simp) hn
  · cases c' with
    | nil => exact ⟨x, by simpa using ha⟩
    | cons d c'' =>
      simp only [List.cons_append, List.cons.injEq] at hb
      exact absurd (by rw [hb.2]; simp) hw

/-! ### `tryDown`, captures -/

theorem tryDown_none (f : Nat → Option α) (m : Nat) (h : ∀ n, 0 < n → n ≤ m → f n = none) : tryDown f m = none := by
  induction m with
  | zero => rfl
  | succ m ih =>
    rw [tryDown, h (m + 1) (by omega) (by omega)]
    exact ih (fun n h1 h2 => h n h1 (by omega))

theorem tryDown_some_le (f : Nat → Option α) (n : Nat) (r : α) (h : tryDown f n = some r) :
    ∃ m, 0 < m ∧ m ≤ n ∧ f m = some r := by
  induction n with
  | zero => simp [tryDown] at h
  | succ n ih =>
    rw [tryDown] at h
    split at h
    · rename_i r' hr; cases h; exact ⟨n + 1, by omega, by omega, hr⟩
    · obtain ⟨m, h1, h2, h3⟩ := ih h
      exact ⟨m, h1, by omega, h3⟩

/-- a successful capture took a non-empty prefix inside the class run -/
theorem cap_inv (p : Char → Bool) (k : St → Str → Option Res) (st : St) (s : Str) (r : Res)
    (h : stepItem (.cap p) k st s = some r) :
    ∃ n, 0 < n ∧ n ≤ (s.takeWhile p).length ∧ k { st with caps := some (s.take n) :: st.caps } (s.drop n) = some r := by
  simp only [stepItem] at h
  exact tryDown_some_le _ _ _ h

theorem takeWhile_length_le (p : Char → Bool) (s : Str) : (s.takeWhile p).length ≤ s.length := by
  induction s with
  | nil => simp
  | cons c cs ih =>
    simp only [List.takeWhile]
    split <;> simp <;> omega

theorem takeWhile_all_of_length (p : Char → Bool) (s : Str) (h : (s.takeWhile p).length = s.length) :
    ∀ c ∈ s, p c = true := by
  induction s with
  | nil => intro c hc; cases hc
  | cons d ds ih =>
    simp only [List.takeWhile] at h
    split at h
    · rename_i hd
      simp at h
      intro c hc
      rcases List.mem_cons.1 hc with e | e
      · subst e; exact hd
      · exact ih h c e
    · simp at h

theorem takeWhile_append_stop (p : Char → Bool) (v s : Str) (hs : ∀ c ∈ s.head?, p c = false) :
    (v ++ s).takeWhile p = v.takeWhile p := by
  induction v with
  | nil =>
    cases s with
    | nil => rfl
    | cons c cs => simp [List.takeWhile, hs c (by simp)]
  | cons d ds ih =>
    simp only [List.cons_append, List.takeWhile]
    split
    · rw [ih]
    · rfl


/-! ### header text as a list of `NAME:value<whitespace>` lines -/

/-- one header line: name, value, the whitespace that follows the value -/
structure Fld where
  name : Str
  val : Str
  sep : Str

/-- the lines one after the other, then `R` -/
def NF : List Fld → Str → Str
  | [], R => R
  | f :: fs, R => f.name ++ ':' :: (f.val ++ (f.sep ++ NF fs R))

def names9 : List Str :=
  ["OFXHEADER".toList, "DATA".toList, "VERSION".toList, "SECURITY".toList, "ENCODING".toList, "CHARSET".toList,
   "COMPRESSION".toList, "OLDFILEUID".toList, "NEWFILEUID".toList]

/-- the name is one of the nine field names; the value is any text without colon (it may be empty and may contain
    whitespace); it is followed by at least one whitespace character -/
structure Fld.Good (f : Fld) : Prop where
  name : isName f.name
  name9 : f.name ∈ names9
  val_colon : ':' ∉ f.val
  sep_ne : f.sep ≠ []
  sep : allSpace f.sep

/-- what the marker lemma needs of a line -/
structure Fld.Weak (f : Fld) : Prop where
  name : ':' ∉ f.name
  val_colon : ':' ∉ f.val
  sep_ne : f.sep ≠ []
  sep : allSpace f.sep

theorem Fld.Good.weak {f : Fld} (g : f.Good) : f.Weak := ⟨g.name.2.1, g.val_colon, g.sep_ne, g.sep⟩

theorem NF_head (fs : List Fld) (B : Str) (hfs : ∀ f ∈ fs, f.Good) (hB : ∀ c ∈ B.head?, isSpace c = false) :
    ∀ c ∈ (NF fs B).head?, isSpace c = false := by
  cases fs with
  | nil => exact hB
  | cons f fs =>
    have g := hfs f (by simp)
    intro c hc
    obtain ⟨d, ds, hd⟩ := List.exists_cons_of_ne_nil g.name.1
    simp only [NF, hd, List.cons_append, List.head?_cons, Option.mem_def, Option.some.injEq] at hc
    subst hc
    exact g.name.2.2 d (by rw [hd]; simp)

/-- **where a marker can occur**: inside a text of good lines a marker `nm:` occurs only at the end of a line's
    name, or inside what follows the lines -/
theorem marker_infix_NF (nm : Str) (hns : ∀ c ∈ nm, isSpace c = false) (fs : List Fld) (R : Str)
    (hfs : ∀ f ∈ fs, f.Weak) (h : nm ++ [':'] <:+: NF fs R) :
    (∃ f ∈ fs, nm <:+ f.name) ∨ nm ++ [':'] <:+: R := by
  have hsp : ∀ c, isSpace c = true → c ∉ nm ++ [':'] := by
    intro c hc hm
    rcases List.mem_append.1 hm with hm | hm
    · rw [hns c hm] at hc; cases hc
    · simp at hm; subst hm; revert hc; decide
  induction fs with
  | nil => exact Or.inr h
  | cons f fs ih =>
    have g := hfs f (by simp)
    obtain ⟨c, sep', hsep⟩ := List.exists_cons_of_ne_nil g.sep_ne
    have e : NF (f :: fs) R = (f.name ++ ':' :: f.val) ++ c :: (sep' ++ NF fs R) := by
      simp [NF, hsep]
    rw [e] at h
    rcases infix_sep (hsp c (g.sep c (by rw [hsep]; simp))) h with h1 | h2
    · exact Or.inl ⟨f, by simp, marker_line g.name g.val_colon h1⟩
    · have h3 := infix_skip (by simp) (fun d hd => hsp d (g.sep d (by rw [hsep]; simp [hd]))) h2
      rcases ih (fun x hx => hfs x (by simp [hx])) h3 with ⟨x, hx, hs⟩ | hr
      · exact Or.inl ⟨x, by simp [hx], hs⟩
      · exact Or.inr hr

/-! ### the search: only a start in front of `OFXHEADER:` can match -/

theorem isPrefix_infix_of_suffix {l t s : Str} (hp : l <+: t) (hs : t <:+ s) : l <:+: s := by
  obtain ⟨y, hy⟩ := hp
  obtain ⟨x, hx⟩ := hs
  exact ⟨x, y, by rw [← hx, ← hy]; simp⟩

theorem dropWhile_suffix (p : Char → Bool) (s : Str) : s.dropWhile p <:+ s :=
  ⟨s.takeWhile p, List.takeWhile_append_dropWhile⟩

def ofxMarker : Str := "OFXHEADER".toList ++ [':']

theorem ofxMarker_ns' : ∀ c ∈ "OFXHEADER".toList, isSpace c = false := by decide

theorem reMatch_v1_none (s : Str) (h : ¬ ofxMarker <:+: s) : reMatch v1Regex s = none := by
  unfold reMatch
  rw [v1Regex_eq]
  simp only [fieldSegs, W0, C, matchSegs_item]
  simp only [stepItem]
  split
  · rename_i hp
    exact absurd (isPrefix_infix_of_suffix (List.isPrefixOf_iff_prefix.1 hp) (dropWhile_suffix _ _)) h
  · rfl

theorem infix_tail {l s : Str} {c : Char} (h : l <:+: s) : l <:+: c :: s := by
  obtain ⟨x, y, e⟩ := h
  exact ⟨c :: x, y, by rw [← e]; simp⟩

theorem reSearch_v1_none (s : Str) (h : ¬ ofxMarker <:+: s) : reSearch v1Regex s = none := by
  induction s with
  | nil => rw [reSearch]; exact reMatch_v1_none [] h
  | cons c cs ih =>
    rw [reSearch, reMatch_v1_none _ h]
    exact ih (fun hc => h (infix_tail hc))

/-- when the marker does not occur after the first character, searching is matching at the start -/
theorem reSearch_v1_eq_match (s : Str) (h : ¬ ofxMarker <:+: s.drop 1) : reSearch v1Regex s = reMatch v1Regex s := by
  cases s with
  | nil => rfl
  | cons c cs =>
    rw [reSearch]
    cases hm : reMatch v1Regex (c :: cs) with
    | some r => rfl
    | none => exact reSearch_v1_none cs (by simpa using h)


/-! ### inversion of the v1 matcher on a text of good lines -/

theorem lit_inv (l : Str) (k : St → Str → Option Res) (st : St) (s : Str) (r : Res)
    (h : stepItem (.lit l) k st s = some r) : ∃ t, s = l ++ t ∧ k st t = some r := by
  simp only [stepItem] at h
  split at h
  · rename_i hp
    obtain ⟨t, ht⟩ := List.isPrefixOf_iff_prefix.1 hp
    refine ⟨t, ht.symm, ?_⟩
    rw [← ht] at h
    simpa using h
  · cases h

/-- a continuation that fails on every text starting with a colon-free text (first character not whitespace)
    followed by a whitespace character -/
def WordFail (K : St → Str → Option Res) : Prop :=
  ∀ (st : St) (v c rest), v ≠ [] → ':' ∉ v → (∀ d ∈ v.head?, isSpace d = false) → isSpace c = true →
    K st (v ++ c :: rest) = none

/-- a continuation that fails on a text starting inside (not at the start of) one of the nine names -/
def NameFail (K : St → Str → Option Res) : Prop :=
  ∀ (st : St) (n : Str) (j : Nat) (rest : Str), n ∈ names9 → 0 < j → j ≤ n.length →
    K st (n.drop j ++ ':' :: rest) = none

/-- `nm:` is not a prefix of a colon-free word followed by whitespace -/
theorem lit_word_fail (nm v rest : Str) (c : Char) (hnm : ∀ d ∈ nm, isSpace d = false) (hv : ':' ∉ v)
    (hc : isSpace c = true) : (nm ++ [':']).isPrefixOf (v ++ c :: rest) = false := by
  cases h : (nm ++ [':']).isPrefixOf (v ++ c :: rest) with
  | false => rfl
  | true =>
    obtain ⟨t, ht⟩ := List.isPrefixOf_iff_prefix.1 h
    have h1 : nm ++ ':' :: t = v ++ c :: rest := by simpa using ht
    rcases List.append_eq_append_iff.1 h1 with ⟨a', ha, hb⟩ | ⟨c', ha, hb⟩
    · cases a' with
      | nil =>
        simp only [List.nil_append, List.cons.injEq] at hb
        rw [← hb.1] at hc; revert hc; decide
      | cons d a'' =>
        simp only [List.cons_append, List.cons.injEq] at hb
        exact absurd (by rw [ha, ← hb.1]; simp) hv
    · cases c' with
      | nil =>
        simp only [List.nil_append, List.cons.injEq] at hb
        rw [hb.1] at hc; revert hc; decide
      | cons d c'' =>
        simp only [List.cons_append, List.cons.injEq] at hb
        have : isSpace c = false := hnm c (by rw [ha, ← hb.1]; simp)
        rw [this] at hc; cases hc

theorem wordFail_lit (nm : Str) (k : St → Str → Option Res) (hnm : ∀ d ∈ nm, isSpace d = false) :
    WordFail (stepItem (.lit (nm ++ [':'])) k) := by
  intro st v c rest _ hv _ hc
  simp only [stepItem, lit_word_fail nm v rest c hnm hv hc]
  rfl

theorem wordFail_field (nm : Str) (p : Char → Bool) (next : List Seg) (hnm : ∀ d ∈ nm, isSpace d = false) :
    WordFail (matchSegs (fieldSegs nm p next)) := by
  simp only [fieldSegs, matchSegs_item]
  exact wordFail_lit nm _ hnm

theorem wordFail_opt : WordFail (matchSegs (.opt compItems :: tail8)) := by
  intro st v c rest h1 h2 h3 h4
  rw [matchSegs_opt, matchItems_comp, wordFail_lit _ _ (by decide) st v c rest h1 h2 h3 h4]
  exact wordFail_field _ _ _ (by decide) _ v c rest h1 h2 h3 h4

theorem names9_drop_ne : ∀ nm ∈ names9, ∀ n ∈ names9, ∀ j, j < 12 → 0 < j → nm ≠ n.drop j := by decide +kernel

theorem names9_len : ∀ n ∈ names9, n.length < 12 := by decide +kernel

theorem names9_nocolon : ∀ n ∈ names9, ':' ∉ n := by decide +kernel

theorem nameFail_lit (nm : Str) (k : St → Str → Option Res) (hnm : nm ∈ names9) :
    NameFail (stepItem (.lit (nm ++ [':'])) k) := by
  intro st n j rest hn hj hj2
  exact step_lit_fail nm (n.drop j) rest k st (names9_nocolon nm hnm)
    (fun h => names9_nocolon n hn (List.mem_of_mem_drop h))
    (names9_drop_ne nm hnm n hn j (by have := names9_len n hn; omega) hj)

theorem nameFail_field (nm : Str) (p : Char → Bool) (next : List Seg) (hnm : nm ∈ names9) :
    NameFail (matchSegs (fieldSegs nm p next)) := by
  simp only [fieldSegs, matchSegs_item]
  exact nameFail_lit nm _ hnm

theorem nameFail_opt : NameFail (matchSegs (.opt compItems :: tail8)) := by
  intro st n j rest h1 h2 h3
  rw [matchSegs_opt, matchItems_comp, nameFail_lit _ _ (by decide) st n j rest h1 h2 h3]
  exact nameFail_field _ _ _ (by decide) _ n j rest h1 h2 h3

/-- `v` is a value of class `p`, possibly with whitespace before and after it (what `\s*(class+)\s*` accepts) -/
def InStrip (p : Char → Bool) (v : Str) : Prop :=
  ∃ a core b, v = a ++ (core ++ b) ∧ allSpace a ∧ allSpace b ∧ inClass p core

theorem takeWhile_all (p : Char → Bool) (s : Str) : ∀ c ∈ s.takeWhile p, p c = true := by
  induction s with
  | nil => intro c hc; cases hc
  | cons d ds ih =>
    simp only [List.takeWhile]
    split
    · rename_i hd
      intro c hc
      rcases List.mem_cons.1 hc with e | e
      · subst e; exact hd
      · exact ih c e
    · intro c hc; cases hc

theorem head_dropWhile_space (s : Str) : ∀ c ∈ (s.dropWhile isSpace).head?, isSpace c = false := by
  induction s with
  | nil => intro c hc; cases hc
  | cons d ds ih =>
    simp only [List.dropWhile]
    split
    · exact ih
    · rename_i hd
      intro c hc
      simp at hc; subst hc
      simpa using hd

theorem dropWhile_append_ne (b s : Str) (h : b.dropWhile isSpace ≠ []) :
    (b ++ s).dropWhile isSpace = b.dropWhile isSpace ++ s := by
  induction b with
  | nil => exact absurd rfl h
  | cons c cs ih =>
    simp only [List.cons_append, List.dropWhile] at h ⊢
    split
    · rename_i hc; rw [hc] at h; exact ih h
    · rfl

theorem allSpace_of_dropWhile_nil (b : Str) (h : b.dropWhile isSpace = []) : allSpace b := by
  induction b with
  | nil => intro c hc; cases hc
  | cons c cs ih =>
    simp only [List.dropWhile] at h
    split at h
    · rename_i hc
      intro d hd
      rcases List.mem_cons.1 hd with e | e
      · subst e; exact hc
      · exact ih h d e
    · cases h

theorem take_takeWhile_all (p : Char → Bool) : ∀ (s : Str) (n : Nat), n ≤ (s.takeWhile p).length →
    ∀ c ∈ s.take n, p c = true
  | [], _, _ => by intro c hc; simp at hc
  | d :: ds, 0, _ => by intro c hc; simp at hc
  | d :: ds, n + 1, h => by
    simp only [List.takeWhile] at h
    split at h
    · rename_i hd
      intro c hc
      simp only [List.take_succ_cons, List.mem_cons] at hc
      rcases hc with e | e
      · subst e; exact hd
      · exact take_takeWhile_all p ds n (by simpa using h) c e
    · simp at h

theorem mem_of_mem_dropWhile' {p : Char → Bool} {c : Char} : ∀ {s : Str}, c ∈ s.dropWhile p → c ∈ s
  | [], h => h
  | d :: ds, h => by
    simp only [List.dropWhile] at h
    split at h
    · exact List.mem_cons_of_mem _ (mem_of_mem_dropWhile' h)
    · exact h

theorem allSpace_append {a b : Str} (ha : allSpace a) (hb : allSpace b) : allSpace (a ++ b) := by
  intro c hc
  rcases List.mem_append.1 hc with h | h
  · exact ha c h
  · exact hb c h

theorem dropWhile_nonspace (s : Str) (h : ∀ c ∈ s.head?, isSpace c = false) : s.dropWhile isSpace = s := by
  cases s with
  | nil => rfl
  | cons c cs => simp [List.dropWhile, h c (by simp)]

theorem head_append_ne (v s : Str) (hv : v ≠ []) : (v ++ s).head? = v.head? := by
  cases v with
  | nil => exact absurd rfl hv
  | cons c cs => rfl

/-- the head of the text: the literal `nm:` forces the first line's name (or fails on `<`) -/
theorem lit_NF_inv (nm : Str) (k : St → Str → Option Res) (st : St) (fs : List Fld) (B : Str) (r : Res)
    (hnm : ':' ∉ nm) (hlt : '<' ∉ nm) (hfs : ∀ f ∈ fs, f.Good) (hB : ∀ c ∈ B.head?, c = '<')
    (h : stepItem (.lit (nm ++ [':'])) k st (NF fs B) = some r) :
    ∃ f fs', fs = f :: fs' ∧ f.name = nm ∧ k st (f.val ++ (f.sep ++ NF fs' B)) = some r := by
  obtain ⟨t, ht, hk⟩ := lit_inv _ _ _ _ _ h
  cases fs with
  | nil =>
    simp only [NF] at ht
    exfalso
    cases nm with
    | nil =>
      rw [ht] at hB
      exact absurd (hB ':' (by simp)) (by decide)
    | cons d ds =>
      rw [ht] at hB
      have := hB d (by simp)
      exact hlt (by rw [this]; simp)
  | cons f fs' =>
    have g := hfs f (by simp)
    simp only [NF] at ht
    have h1 : f.name ++ ':' :: (f.val ++ (f.sep ++ NF fs' B)) = nm ++ ':' :: t := by simpa using ht
    have hn := colon_split g.name.2.1 hnm h1
    rw [hn] at h1
    have h2 := List.append_cancel_left h1
    simp only [List.cons.injEq, true_and] at h2
    exact ⟨f, fs', rfl, hn, by rw [h2]; exact hk⟩

theorem take_drop_word (v : Str) (n : Nat) (hn : n < v.length) (hv : ':' ∉ v) (hs : ∀ d ∈ v, isSpace d = false) :
    v.drop n ≠ [] ∧ ':' ∉ v.drop n ∧ ∀ d ∈ v.drop n, isSpace d = false := by
  refine ⟨?_, fun h => hv (List.mem_of_mem_drop h), fun d hd => hs d (List.mem_of_mem_drop hd)⟩
  intro h
  have := congrArg List.length h
  simp at this
  omega

/-- what follows the colon of a good line -/
theorem val_split (v : Str) : v = v.takeWhile isSpace ++ v.dropWhile isSpace := List.takeWhile_append_dropWhile.symm

/-- a capture cannot start on `<…` (or on nothing) -/
theorem cap_B_fail (p : Char → Bool) (k : St → Str → Option Res) (st : St) (B : Str) (hB : ∀ c ∈ B.head?, c = '<')
    (hplt : p '<' = false) : stepItem (.cap p) k st B = none := by
  cases hc : stepItem (.cap p) k st B with
  | none => rfl
  | some r =>
    exfalso
    obtain ⟨n, hn0, hn1, _⟩ := cap_inv p k st B r hc
    cases B with
    | nil => simp at hn1; omega
    | cons b bs =>
      have := hB b (by simp)
      subst this
      simp [List.takeWhile, hplt] at hn1
      omega

/-- a capture that starts on the next line's name is followed by a continuation that cannot go on inside a name -/
theorem cap_name_fail (p : Char → Bool) (K : St → Str → Option Res) (st : St) (f2 : Fld) (X : Str)
    (g2 : f2.Good) (hpc : p ':' = false) (hN : NameFail K) :
    stepItem (.cap p) (stepItem .ws0 K) st (f2.name ++ ':' :: X) = none := by
  cases hc : stepItem (.cap p) (stepItem .ws0 K) st (f2.name ++ ':' :: X) with
  | none => rfl
  | some r =>
    exfalso
    obtain ⟨n, hn0, hn1, hkn⟩ := cap_inv p _ st _ r hc
    have hle : n ≤ f2.name.length := Nat.le_trans hn1 (takeWhile_stop_le p f2.name X ':' hpc)
    rw [List.drop_append_of_le_length hle] at hkn
    simp only [stepItem.eq_2, dropWhile_nonspace _ (drop_name_head f2.name X n g2.name.2.2)] at hkn
    rw [hN _ f2.name n X g2.name9 hn0 hle] at hkn
    cases hkn

/-- one `NAME:\s*(class+)\s*` block in front of a continuation that fails on glued words and inside names: a
    match forces the first line to carry that name and a value that is — up to whitespace around it — wholly inside
    the class -/
theorem block_inv (nm : Str) (p : Char → Bool) (K : St → Str → Option Res) (st : St) (fs : List Fld) (B : Str)
    (r : Res) (hnm : ':' ∉ nm) (hlt : '<' ∉ nm) (hfs : ∀ f ∈ fs, f.Good) (hB : ∀ c ∈ B.head?, c = '<')
    (hp : ∀ c, p c = true → isSpace c = false) (hpc : p ':' = false) (hplt : p '<' = false)
    (hK : WordFail K) (hN : NameFail K)
    (h : stepItem (.lit (nm ++ [':'])) (stepItem .ws0 (stepItem (.cap p) (stepItem .ws0 K))) st (NF fs B) = some r) :
    ∃ f fs', fs = f :: fs' ∧ f.name = nm ∧ ∃ a core b, f.val = a ++ (core ++ b) ∧ allSpace a ∧ allSpace b ∧
      inClass p core ∧ K { st with caps := some core :: st.caps } (NF fs' B) = some r := by
  obtain ⟨f, fs', hfs', hn, hk⟩ := lit_NF_inv nm _ st fs B r hnm hlt hfs hB h
  subst hfs'
  have g := hfs f (by simp)
  have hfs2 : ∀ x ∈ fs', x.Good := fun x hx => hfs x (by simp [hx])
  refine ⟨f, fs', rfl, hn, ?_⟩
  obtain ⟨c, sep', hsep⟩ := List.exists_cons_of_ne_nil g.sep_ne
  have hcs : isSpace c = true := g.sep c (by rw [hsep]; simp)
  have hpcf : p c = false := by
    cases hpc' : p c with
    | false => rfl
    | true => rw [hp c hpc'] at hcs; cases hcs
  have hB' : ∀ c ∈ B.head?, isSpace c = false := by
    intro c hc; rw [hB c hc]; decide
  have hNFh := NF_head fs' B hfs2 hB'
  simp only [stepItem.eq_2] at hk
  by_cases hv1 : f.val.dropWhile isSpace = []
  · -- the value is all whitespace: the capture would have to start on the next line (or on the body)
    exfalso
    have hall : allSpace (f.val ++ f.sep) := allSpace_append (allSpace_of_dropWhile_nil _ hv1) g.sep
    have e : f.val ++ (f.sep ++ NF fs' B) = (f.val ++ f.sep) ++ NF fs' B := by simp
    rw [e, dropWhile_space _ _ hall hNFh] at hk
    cases fs' with
    | nil => simp only [NF] at hk; rw [cap_B_fail p _ st B hB hplt] at hk; cases hk
    | cons f2 fs2 =>
      simp only [NF] at hk
      rw [cap_name_fail p K st f2 _ (hfs2 f2 (by simp)) hpc hN] at hk
      cases hk
  · -- the value proper starts at `v1`
    have hv1h := head_dropWhile_space f.val
    rw [dropWhile_append_ne _ _ hv1] at hk
    obtain ⟨n, hn0, hn1, hkn⟩ := cap_inv p _ st _ r hk
    have htw : (f.val.dropWhile isSpace ++ (f.sep ++ NF fs' B)).takeWhile p = (f.val.dropWhile isSpace).takeWhile p := by
      apply takeWhile_append_stop
      intro d hd
      rw [hsep] at hd; simp at hd; subst hd
      exact hpcf
    rw [htw] at hn1
    have hle : n ≤ (f.val.dropWhile isSpace).length := Nat.le_trans hn1 (takeWhile_length_le p _)
    rw [List.drop_append_of_le_length hle, List.take_append_of_le_length hle] at hkn
    have hcore : inClass p ((f.val.dropWhile isSpace).take n) := by
      refine ⟨?_, take_takeWhile_all p _ n hn1⟩
      intro h0
      have := congrArg List.length h0
      simp at this
      rcases this with h1 | h1
      · omega
      · exact hv1 h1
    refine ⟨f.val.takeWhile isSpace, (f.val.dropWhile isSpace).take n, (f.val.dropWhile isSpace).drop n, ?_,
      takeWhile_all isSpace f.val, ?_, hcore, ?_⟩
    · rw [List.take_append_drop]; exact val_split f.val
    all_goals
      by_cases hb : ((f.val.dropWhile isSpace).drop n).dropWhile isSpace = []
      · have hbs := allSpace_of_dropWhile_nil _ hb
        first
        | exact hbs
        | (have e : (f.val.dropWhile isSpace).drop n ++ (f.sep ++ NF fs' B) =
              ((f.val.dropWhile isSpace).drop n ++ f.sep) ++ NF fs' B := by simp
           simp only [stepItem.eq_2, e, dropWhile_space _ _ (allSpace_append hbs g.sep) hNFh] at hkn
           exact hkn)
      · exfalso
        simp only [stepItem.eq_2, dropWhile_append_ne _ _ hb, hsep, List.cons_append] at hkn
        rw [hK _ _ c _ hb (fun hm => g.val_colon (mem_of_mem_dropWhile'
              (List.mem_of_mem_drop (mem_of_mem_dropWhile' hm))))
            (head_dropWhile_space _) hcs] at hkn
        cases hkn

/-- the last block `NEWFILEUID:\s*(class+)`: the pattern ends inside the value — or, when the value is all
    whitespace, inside the name of the line that follows -/
theorem last_inv (nm : Str) (p : Char → Bool) (st : St) (fs : List Fld) (B : Str)
    (r : Res) (hnm : ':' ∉ nm) (hlt : '<' ∉ nm) (hfs : ∀ f ∈ fs, f.Good) (hB : ∀ c ∈ B.head?, c = '<')
    (hp : ∀ c, p c = true → isSpace c = false) (hplt : p '<' = false)
    (h : stepItem (.lit (nm ++ [':'])) (stepItem .ws0 (stepItem (.cap p) finish)) st (NF fs B) = some r) :
    ∃ f fs', fs = f :: fs' ∧ f.name = nm ∧
      ((f.val.dropWhile isSpace).takeWhile p ≠ [] ∨ (allSpace f.val ∧ fs' ≠ [])) := by
  obtain ⟨f, fs', hfs', hn, hk⟩ := lit_NF_inv nm _ st fs B r hnm hlt hfs hB h
  subst hfs'
  have g := hfs f (by simp)
  have hfs2 : ∀ x ∈ fs', x.Good := fun x hx => hfs x (by simp [hx])
  refine ⟨f, fs', rfl, hn, ?_⟩
  obtain ⟨c, sep', hsep⟩ := List.exists_cons_of_ne_nil g.sep_ne
  have hcs : isSpace c = true := g.sep c (by rw [hsep]; simp)
  have hpcf : p c = false := by
    cases hpc' : p c with
    | false => rfl
    | true => rw [hp c hpc'] at hcs; cases hcs
  have hB' : ∀ c ∈ B.head?, isSpace c = false := by
    intro c hc; rw [hB c hc]; decide
  have hNFh := NF_head fs' B hfs2 hB'
  simp only [stepItem.eq_2] at hk
  by_cases hv1 : f.val.dropWhile isSpace = []
  · right
    refine ⟨allSpace_of_dropWhile_nil _ hv1, ?_⟩
    intro hnil
    subst hnil
    have hall : allSpace (f.val ++ f.sep) := allSpace_append (allSpace_of_dropWhile_nil _ hv1) g.sep
    have e : f.val ++ (f.sep ++ NF [] B) = (f.val ++ f.sep) ++ NF [] B := by simp
    rw [e, dropWhile_space _ _ hall hNFh] at hk
    simp only [NF] at hk
    rw [cap_B_fail p _ st B hB hplt] at hk
    cases hk
  · left
    rw [dropWhile_append_ne _ _ hv1] at hk
    obtain ⟨n, hn0, hn1, _⟩ := cap_inv p _ st _ r hk
    have htw : (f.val.dropWhile isSpace ++ (f.sep ++ NF fs' B)).takeWhile p = (f.val.dropWhile isSpace).takeWhile p := by
      apply takeWhile_append_stop
      intro d hd
      rw [hsep] at hd; simp at hd; subst hd
      exact hpcf
    rw [htw] at hn1
    intro h0
    rw [h0] at hn1
    simp at hn1
    omega

theorem matchSegs_field (nm : Str) (p : Char → Bool) (next : List Seg) :
    matchSegs (fieldSegs nm p next) =
      stepItem (.lit (nm ++ [':'])) (stepItem .ws0 (stepItem (.cap p) (stepItem .ws0 (matchSegs next)))) := rfl

theorem matchSegs_last :
    matchSegs lastSegs = stepItem (.lit ("NEWFILEUID".toList ++ [':'])) (stepItem .ws0 (stepItem (.cap isWordDash) finish)) := rfl

theorem wordFail_last : WordFail (matchSegs lastSegs) := by
  rw [matchSegs_last]; exact wordFail_lit _ _ (by decide)

theorem nameFail_last : NameFail (matchSegs lastSegs) := by
  rw [matchSegs_last]; exact nameFail_lit _ _ (by decide)

/-- what the tail of the pattern (`OLDFILEUID`, `NEWFILEUID`) forces -/
theorem tail8_inv (st : St) (fs : List Fld) (B : Str) (r : Res) (hfs : ∀ f ∈ fs, f.Good)
    (hB : ∀ c ∈ B.head?, c = '<') (h : matchSegs tail8 st (NF fs B) = some r) :
    ∃ f8 f9 rest, fs = f8 :: f9 :: rest ∧ (f8.name = "OLDFILEUID".toList ∧ InStrip isWordDash f8.val) ∧
      f9.name = "NEWFILEUID".toList ∧
      ((f9.val.dropWhile isSpace).takeWhile isWordDash ≠ [] ∨ (allSpace f9.val ∧ rest ≠ [])) := by
  rw [tail8, matchSegs_field] at h
  obtain ⟨f8, fs8, e8, n8, a8, c8, b8, v8, sa8, sb8, ic8, h8⟩ := block_inv _ _ _ _ _ _ _ (by decide) (by decide) hfs hB
    wordDash_not_space (by decide) (by decide) wordFail_last nameFail_last h
  subst e8
  rw [matchSegs_last] at h8
  obtain ⟨f9, fs9, e9, n9, c9⟩ := last_inv _ _ _ _ _ _ (by decide) (by decide)
    (fun x hx => hfs x (by simp [hx])) hB wordDash_not_space (by decide) h8
  subst e9
  exact ⟨f8, f9, fs9, rfl, ⟨n8, a8, c8, b8, v8, sa8, sb8, ic8⟩, n9, c9⟩

/-- **inversion of the v1 pattern**: a match at the start of a text of good lines followed by `<…` forces the
    names of the first nine (or, without COMPRESSION, eight) lines and the character class of every value (up to
    whitespace around it) -/
theorem v1_match_inv (fs : List Fld) (B : Str) (r : Res) (hfs : ∀ f ∈ fs, f.Good) (hB : ∀ c ∈ B.head?, c = '<')
    (h : reMatch v1Regex (NF fs B) = some r) :
    ∃ f1 f2 f3 f4 f5 f6 rest, fs = f1 :: f2 :: f3 :: f4 :: f5 :: f6 :: rest ∧
      (f1.name = "OFXHEADER".toList ∧ InStrip isDigit f1.val) ∧ (f2.name = "DATA".toList ∧ InStrip isUpper f2.val) ∧
      (f3.name = "VERSION".toList ∧ InStrip isDigit f3.val) ∧ (f4.name = "SECURITY".toList ∧ InStrip isWord f4.val) ∧
      (f5.name = "ENCODING".toList ∧ InStrip isUpDigDash f5.val) ∧
      (f6.name = "CHARSET".toList ∧ InStrip isWordDash f6.val) ∧
      ((∃ f7 f8 f9 rest', rest = f7 :: f8 :: f9 :: rest' ∧
          (f7.name = "COMPRESSION".toList ∧ InStrip isUpper f7.val) ∧
          (f8.name = "OLDFILEUID".toList ∧ InStrip isWordDash f8.val) ∧
          f9.name = "NEWFILEUID".toList ∧
          ((f9.val.dropWhile isSpace).takeWhile isWordDash ≠ [] ∨ (allSpace f9.val ∧ rest' ≠ []))) ∨
       (∃ f8 f9 rest', rest = f8 :: f9 :: rest' ∧
          (f8.name = "OLDFILEUID".toList ∧ InStrip isWordDash f8.val) ∧
          f9.name = "NEWFILEUID".toList ∧
          ((f9.val.dropWhile isSpace).takeWhile isWordDash ≠ [] ∨ (allSpace f9.val ∧ rest' ≠ [])))) := by
  have hB' : ∀ c ∈ B.head?, isSpace c = false := by
    intro c hc; rw [hB c hc]; decide
  unfold reMatch at h
  rw [v1Regex_eq, W0, matchSegs_item] at h
  simp only [stepItem.eq_2, dropWhile_nonspace _ (NF_head fs B hfs hB')] at h
  rw [matchSegs_field] at h
  obtain ⟨f1, fs1, e1, n1, a1, c1, b1, v1, sa1, sb1, ic1, h1⟩ := block_inv _ _ _ _ _ _ _ (by decide) (by decide) hfs hB
    digit_not_space (by decide) (by decide) (wordFail_field _ _ _ (by decide)) (nameFail_field _ _ _ (by decide)) h
  subst e1
  have hfs1 : ∀ x ∈ fs1, x.Good := fun x hx => hfs x (by simp [hx])
  rw [matchSegs_field] at h1
  obtain ⟨f2, fs2, e2, n2, a2, c2, b2, v2, sa2, sb2, ic2, h2⟩ := block_inv _ _ _ _ _ _ _ (by decide) (by decide) hfs1 hB
    upper_not_space (by decide) (by decide) (wordFail_field _ _ _ (by decide)) (nameFail_field _ _ _ (by decide)) h1
  subst e2
  have hfs2 : ∀ x ∈ fs2, x.Good := fun x hx => hfs1 x (by simp [hx])
  rw [matchSegs_field] at h2
  obtain ⟨f3, fs3, e3, n3, a3, c3, b3, v3, sa3, sb3, ic3, h3⟩ := block_inv _ _ _ _ _ _ _ (by decide) (by decide) hfs2 hB
    digit_not_space (by decide) (by decide) (wordFail_field _ _ _ (by decide)) (nameFail_field _ _ _ (by decide)) h2
  subst e3
  have hfs3 : ∀ x ∈ fs3, x.Good := fun x hx => hfs2 x (by simp [hx])
  rw [matchSegs_field] at h3
  obtain ⟨f4, fs4, e4, n4, a4, c4, b4, v4, sa4, sb4, ic4, h4⟩ := block_inv _ _ _ _ _ _ _ (by decide) (by decide) hfs3 hB
    word_not_space (by decide) (by decide) (wordFail_field _ _ _ (by decide)) (nameFail_field _ _ _ (by decide)) h3
  subst e4
  have hfs4 : ∀ x ∈ fs4, x.Good := fun x hx => hfs3 x (by simp [hx])
  rw [matchSegs_field] at h4
  obtain ⟨f5, fs5, e5, n5, a5, c5, b5, v5, sa5, sb5, ic5, h5⟩ := block_inv _ _ _ _ _ _ _ (by decide) (by decide) hfs4 hB
    upDigDash_not_space (by decide) (by decide) (wordFail_field _ _ _ (by decide)) (nameFail_field _ _ _ (by decide)) h4
  subst e5
  have hfs5 : ∀ x ∈ fs5, x.Good := fun x hx => hfs4 x (by simp [hx])
  rw [matchSegs_field] at h5
  obtain ⟨f6, fs6, e6, n6, a6, c6, b6, v6, sa6, sb6, ic6, h6⟩ := block_inv _ _ _ _ _ _ _ (by decide) (by decide) hfs5 hB
    wordDash_not_space (by decide) (by decide) wordFail_opt nameFail_opt h5
  subst e6
  have hfs6 : ∀ x ∈ fs6, x.Good := fun x hx => hfs5 x (by simp [hx])
  refine ⟨f1, f2, f3, f4, f5, f6, fs6, rfl, ⟨n1, a1, c1, b1, v1, sa1, sb1, ic1⟩, ⟨n2, a2, c2, b2, v2, sa2, sb2, ic2⟩,
    ⟨n3, a3, c3, b3, v3, sa3, sb3, ic3⟩, ⟨n4, a4, c4, b4, v4, sa4, sb4, ic4⟩, ⟨n5, a5, c5, b5, v5, sa5, sb5, ic5⟩,
    ⟨n6, a6, c6, b6, v6, sa6, sb6, ic6⟩, ?_⟩
  rw [matchSegs_opt] at h6
  split at h6
  · rename_i r' hr
    rw [matchItems_comp] at hr
    obtain ⟨f7, fs7, e7, n7, a7, c7, b7, v7, sa7, sb7, ic7, h7⟩ := block_inv _ _ _ _ _ _ _ (by decide) (by decide) hfs6 hB
      upper_not_space (by decide) (by decide) (by rw [tail8]; exact wordFail_field _ _ _ (by decide))
      (by rw [tail8]; exact nameFail_field _ _ _ (by decide)) hr
    subst e7
    obtain ⟨f8, f9, rest, e, a8, a9⟩ := tail8_inv _ _ _ _ (fun x hx => hfs6 x (by simp [hx])) hB h7
    subst e
    exact Or.inl ⟨f7, f8, f9, rest, rfl, ⟨n7, a7, c7, b7, v7, sa7, sb7, ic7⟩, a8, a9⟩
  · obtain ⟨f8, f9, rest, e, a8, a9⟩ := tail8_inv _ _ _ _ hfs6 hB h6
    exact Or.inr ⟨f8, f9, rest, e, a8, a9⟩

/-! ### the lines `OFXHeaderV1.__str__` writes, as a list of (name, value text) -/

/-- without the optional COMPRESSION line -/
def names8 : List Str :=
  ["OFXHEADER".toList, "DATA".toList, "VERSION".toList, "SECURITY".toList, "ENCODING".toList, "CHARSET".toList,
   "OLDFILEUID".toList, "NEWFILEUID".toList]

/-- the character class of the pattern group of a field -/
def clsOf (n : Str) : Char → Bool :=
  if n = "OFXHEADER".toList then isDigit else if n = "DATA".toList then isUpper
  else if n = "VERSION".toList then isDigit else if n = "SECURITY".toList then isWord
  else if n = "ENCODING".toList then isUpDigDash else if n = "COMPRESSION".toList then isUpper else isWordDash

abbrev NV := Str × Str

def linesOf (nvs : List NV) : List Fld := nvs.map fun nv => ⟨nv.1, nv.2, crlf⟩

/-- every line followed by CRLF, then the blank line -/
def renderLines (nvs : List NV) : Str := NF (linesOf nvs) crlf

/-- a line the refusal theorems speak about: one of the nine names; a value text without colon and without line
    feed (it may be empty and may contain other whitespace) -/
structure GoodNV (nv : NV) : Prop where
  name : nv.1 ∈ names9
  val_colon : ':' ∉ nv.2
  val_nolf : '\n' ∉ nv.2
  /-- the model's `\d`, `\w` are the ASCII classes; the theorems speak about ASCII header text -/
  val_ascii : ∀ c ∈ nv.2, c.toNat < 128

theorem names9_isName : ∀ n ∈ names9, isName n := by
  intro n hn
  simp only [names9, List.mem_cons, List.not_mem_nil, or_false] at hn
  rcases hn with h | h | h | h | h | h | h | h | h <;> subst h <;> exact ⟨by decide, by decide, by decide⟩

/-- the accepted shapes: the first nine names are the nine field names (or the first eight the eight mandatory
    ones), all values before the last one lie — up to whitespace around them — in their classes, the last one starts
    (after whitespace) inside its class, or is all whitespace and followed by a further line -/
def V1Shape (nvs : List NV) : Prop :=
  ∃ k, ((k = 8 ∧ (nvs.map Prod.fst).take 8 = names8) ∨ (k = 9 ∧ (nvs.map Prod.fst).take 9 = names9)) ∧
    (∀ nv ∈ nvs.take (k - 1), InStrip (clsOf nv.1) nv.2) ∧
    (∀ nv ∈ (nvs.drop (k - 1)).head?,
      (nv.2.dropWhile isSpace).takeWhile isWordDash ≠ [] ∨ (allSpace nv.2 ∧ nvs.drop k ≠ []))

theorem NF_append (fs : List Fld) (R S : Str) : NF fs R ++ S = NF fs (R ++ S) := by
  induction fs with
  | nil => rfl
  | cons f fs ih => simp [NF, ih]

/-- the whitespace after the last line joins its separator -/
def absorbLast (g : Str) : List Fld → List Fld
  | [] => []
  | [f] => [⟨f.name, f.val, f.sep ++ g⟩]
  | f :: f2 :: fs => f :: absorbLast g (f2 :: fs)

theorem NF_absorb (g B : Str) (fs : List Fld) (h : fs ≠ []) : NF fs (g ++ B) = NF (absorbLast g fs) B := by
  induction fs with
  | nil => exact absurd rfl h
  | cons f fs ih =>
    cases fs with
    | nil => simp [NF, absorbLast]
    | cons f2 fs => simp only [NF, absorbLast]; rw [← ih (by simp)]; rfl

theorem absorbLast_nv (g : Str) (fs : List Fld) :
    (absorbLast g fs).map (fun f => (f.name, f.val)) = fs.map (fun f => (f.name, f.val)) := by
  induction fs with
  | nil => rfl
  | cons f fs ih =>
    cases fs with
    | nil => rfl
    | cons f2 fs => simp only [absorbLast, List.map_cons] at ih ⊢; rw [ih]

theorem absorbLast_good (g : Str) (hg : allSpace g) (fs : List Fld) (h : ∀ f ∈ fs, f.Good) :
    ∀ f ∈ absorbLast g fs, f.Good := by
  induction fs with
  | nil => intro f hf; cases hf
  | cons f fs ih =>
    cases fs with
    | nil =>
      intro x hx
      simp only [absorbLast, List.mem_singleton] at hx
      subst hx
      have g0 := h f (by simp)
      exact ⟨g0.name, g0.name9, g0.val_colon, by simp [g0.sep_ne], by
        intro c hc
        rcases List.mem_append.1 hc with hc | hc
        · exact g0.sep c hc
        · exact hg c hc⟩
    | cons f2 fs =>
      intro x hx
      simp only [absorbLast, List.mem_cons] at hx
      rcases hx with hx | hx
      · subst hx; exact h _ (by simp)
      · exact ih (fun y hy => h y (by simp [hy])) x (by simpa [absorbLast] using hx)

theorem linesOf_good (nvs : List NV) (h : ∀ nv ∈ nvs, GoodNV nv) : ∀ f ∈ linesOf nvs, f.Good := by
  intro f hf
  simp only [linesOf, List.mem_map] at hf
  obtain ⟨nv, hnv, rfl⟩ := hf
  have g := h nv hnv
  exact ⟨names9_isName _ g.name, g.name, g.val_colon, by simp [crlf], by
    intro c hc; simp [crlf] at hc; rcases hc with hc | hc <;> subst hc <;> decide⟩

theorem linesOf_nv (nvs : List NV) : (linesOf nvs).map (fun f => (f.name, f.val)) = nvs := by
  induction nvs with
  | nil => rfl
  | cons nv nvs ih => simp only [linesOf, List.map_cons] at ih ⊢; rw [ih]

/-- the inversion, restated on (name, value) lists -/
theorem v1_shape_of_match (fs : List Fld) (B : Str) (r : Res) (hfs : ∀ f ∈ fs, f.Good) (hB : ∀ c ∈ B.head?, c = '<')
    (h : reMatch v1Regex (NF fs B) = some r) : V1Shape (fs.map fun f => (f.name, f.val)) := by
  obtain ⟨f1, f2, f3, f4, f5, f6, rest, e, a1, a2, a3, a4, a5, a6, hr⟩ := v1_match_inv fs B r hfs hB h
  subst e
  rcases hr with ⟨f7, f8, f9, rest', e, a7, a8, n9, c9⟩ | ⟨f8, f9, rest', e, a8, n9, c9⟩
  · subst e
    refine ⟨9, Or.inr ⟨rfl, ?_⟩, ?_, ?_⟩
    · simp [names9, a1.1, a2.1, a3.1, a4.1, a5.1, a6.1, a7.1, a8.1, n9]
    · intro nv hnv
      simp only [List.map_cons, Nat.add_one_sub_one, List.take_succ_cons, List.take_zero, List.mem_cons,
        List.not_mem_nil, or_false] at hnv
      rcases hnv with h | h | h | h | h | h | h | h <;> subst h <;> simp only
      · rw [a1.1]; exact a1.2
      · rw [a2.1]; exact a2.2
      · rw [a3.1]; exact a3.2
      · rw [a4.1]; exact a4.2
      · rw [a5.1]; exact a5.2
      · rw [a6.1]; exact a6.2
      · rw [a7.1]; exact a7.2
      · rw [a8.1]; exact a8.2
    · intro nv hnv
      simp at hnv
      subst hnv
      rcases c9 with c9 | ⟨c9, c9'⟩
      · exact Or.inl c9
      · exact Or.inr ⟨c9, by simpa using c9'⟩
  · subst e
    refine ⟨8, Or.inl ⟨rfl, ?_⟩, ?_, ?_⟩
    · simp [names8, a1.1, a2.1, a3.1, a4.1, a5.1, a6.1, a8.1, n9]
    · intro nv hnv
      simp only [List.map_cons, Nat.add_one_sub_one, List.take_succ_cons, List.take_zero, List.mem_cons,
        List.not_mem_nil, or_false] at hnv
      rcases hnv with h | h | h | h | h | h | h <;> subst h <;> simp only
      · rw [a1.1]; exact a1.2
      · rw [a2.1]; exact a2.2
      · rw [a3.1]; exact a3.2
      · rw [a4.1]; exact a4.2
      · rw [a5.1]; exact a5.2
      · rw [a6.1]; exact a6.2
      · rw [a8.1]; exact a8.2
    · intro nv hnv
      simp at hnv
      subst hnv
      rcases c9 with c9 | ⟨c9, c9'⟩
      · exact Or.inl c9
      · exact Or.inr ⟨c9, by simpa using c9'⟩

/-! ### searching through a line -/

theorem reSearch_none_match (segs : List Seg) (s : Str) (h : reSearch segs s = none) : reMatch segs s = none := by
  cases s with
  | nil => simpa [reSearch] using h
  | cons c cs =>
    rw [reSearch] at h
    split at h
    · cases h
    · rename_i hm; exact hm

/-- if no start inside `a` matches and nothing matches from `s` on, nothing matches from `a ++ s` on -/
theorem reSearch_none_through (segs : List Seg) (a s : Str)
    (h : ∀ a', a' ≠ [] → a' <:+ a → reMatch segs (a' ++ s) = none) (hs : reSearch segs s = none) :
    reSearch segs (a ++ s) = none := by
  induction a with
  | nil => exact hs
  | cons c cs ih =>
    rw [List.cons_append, reSearch]
    have := h (c :: cs) (by simp) (List.suffix_refl _)
    rw [List.cons_append] at this
    rw [this]
    exact ih (fun a' ha hsuf => h a' ha (List.IsSuffix.trans hsuf (List.suffix_cons c cs)))

theorem reMatch_v1_ws (w s : Str) (hw : allSpace w) : reMatch v1Regex (w ++ s) = reMatch v1Regex s := by
  unfold reMatch
  rw [v1Regex_eq, W0, matchSegs_item]
  simp only [stepItem.eq_2]
  congr 1
  induction w with
  | nil => rfl
  | cons c cs ih =>
    simp only [List.cons_append, List.dropWhile, hw c (by simp)]
    exact ih (fun d hd => hw d (by simp [hd]))

/-- a start on a non-space character matches only in front of `OFXHEADER:` -/
theorem reMatch_v1_none_head (s : Str) (hh : ∀ c ∈ s.head?, isSpace c = false)
    (hp : ofxMarker.isPrefixOf s = false) : reMatch v1Regex s = none := by
  unfold reMatch
  rw [v1Regex_eq, W0, matchSegs_item]
  simp only [stepItem.eq_2, dropWhile_nonspace s hh, fieldSegs, matchSegs_item]
  simp only [stepItem]
  rw [show "OFXHEADER".toList ++ [':'] = ofxMarker from rfl, hp]
  rfl

theorem suffix_allSpace {a' a : Str} (h : a' <:+ a) (ha : allSpace a) : allSpace a' := by
  obtain ⟨x, hx⟩ := h
  intro c hc
  exact ha c (by rw [← hx]; simp [hc])

theorem suffix_mem {a' a : Str} {c : Char} (h : a' <:+ a) (hc : c ∈ a') : c ∈ a := by
  obtain ⟨x, hx⟩ := h
  rw [← hx]; simp [hc]

/-- **no start inside a line but its first character can match**: if the pattern matches neither at the start
    of a good line nor anywhere after the line, it matches nowhere from the line on -/
theorem reSearch_v1_line (f : Fld) (s : Str) (g : f.Good) (hname : ¬ "OFXHEADER".toList <:+ f.name.drop 1)
    (hm : reMatch v1Regex (f.name ++ ':' :: (f.val ++ (f.sep ++ s))) = none)
    (hs : reSearch v1Regex s = none) :
    reSearch v1Regex (f.name ++ ':' :: (f.val ++ (f.sep ++ s))) = none := by
  -- through the separator
  have h1 : reSearch v1Regex (f.sep ++ s) = none := by
    apply reSearch_none_through _ _ _ _ hs
    intro a' _ hsuf
    rw [reMatch_v1_ws a' s (suffix_allSpace hsuf g.sep)]
    exact reSearch_none_match _ _ hs
  obtain ⟨c, sep', hsep⟩ := List.exists_cons_of_ne_nil g.sep_ne
  have hcs : isSpace c = true := g.sep c (by rw [hsep]; simp)
  -- through the value (any colon-free text)
  have h2' : ∀ a' : Str, a' <:+ f.val → reMatch v1Regex (a' ++ (f.sep ++ s)) = none := by
    intro a'
    induction a' with
    | nil =>
      intro _
      rw [List.nil_append, reMatch_v1_ws f.sep s g.sep]
      exact reSearch_none_match _ _ hs
    | cons d ds ih =>
      intro hsuf
      have hsuf' : ds <:+ f.val := List.IsSuffix.trans (List.suffix_cons d ds) hsuf
      by_cases hd : isSpace d = true
      · have e : (d :: ds) ++ (f.sep ++ s) = [d] ++ (ds ++ (f.sep ++ s)) := by simp
        rw [e, reMatch_v1_ws [d] _ (by intro x hx; simp at hx; subst hx; exact hd)]
        exact ih hsuf'
      · apply reMatch_v1_none_head
        · intro e he
          simp at he; subst he
          simpa using hd
        · rw [hsep]
          exact lit_word_fail _ (d :: ds) _ c ofxMarker_ns' (fun h => g.val_colon (suffix_mem hsuf h)) hcs
  have h2 : reSearch v1Regex (f.val ++ (f.sep ++ s)) = none := by
    apply reSearch_none_through _ _ _ _ h1
    intro a' _ hsuf
    exact h2' a' hsuf
  -- through the name and the colon
  have h3 : ∀ a', a' ≠ [] → a' <:+ f.name.drop 1 ++ [':'] →
      reMatch v1Regex (a' ++ (f.val ++ (f.sep ++ s))) = none := by
    intro a' ha hsuf
    -- `a' = n' ++ [':']` with `n'` a suffix of `f.name.drop 1`
    obtain ⟨x, hx⟩ := hsuf
    have hlast : ∃ n', a' = n' ++ [':'] ∧ n' <:+ f.name.drop 1 := by
      rcases List.eq_nil_or_concat a' with h0 | ⟨n', l, hl⟩
      · exact absurd h0 ha
      · rw [hl, List.concat_eq_append, ← List.append_assoc] at hx
        have := List.append_inj' hx rfl
        simp only [List.cons.injEq, and_true] at this
        refine ⟨n', by rw [hl, List.concat_eq_append, this.2], ⟨x, this.1⟩⟩
    obtain ⟨n', hn', hsuf'⟩ := hlast
    subst hn'
    have hmem : ∀ e ∈ n', e ∈ f.name := fun e he => List.mem_of_mem_drop (suffix_mem hsuf' he)
    apply reMatch_v1_none_head
    · intro e he
      cases n' with
      | nil => simp at he; subst he; decide
      | cons d ds => simp at he; subst he; exact g.name.2.2 d (hmem d (by simp))
    · have : (n' ++ [':']) ++ (f.val ++ (f.sep ++ s)) = n' ++ ':' :: (f.val ++ (f.sep ++ s)) := by simp
      rw [this]
      apply lit_colon_fail _ _ _ (by decide) (fun h => g.name.2.1 (hmem _ h))
      intro e
      exact hname (e ▸ hsuf')
  obtain ⟨d, ds, hd⟩ := List.exists_cons_of_ne_nil g.name.1
  have e : f.name ++ ':' :: (f.val ++ (f.sep ++ s)) = d :: ((ds ++ [':']) ++ (f.val ++ (f.sep ++ s))) := by
    rw [hd]; simp
  rw [e, reSearch, ← e, hm]
  apply reSearch_none_through _ _ _ _ h2
  intro a' ha hsuf
  exact h3 a' ha (by rw [hd]; simpa using hsuf)


/-! ### v2: the OFX declaration as a list of `NAME="value"` attributes -/

abbrev AV := Str × Str

/-- what follows an attribute: the closing text, or a blank and the next attributes -/
def AF : List AV → Str → Str
  | [], R => R
  | [a], R => a.1 ++ '=' :: '"' :: (a.2 ++ '"' :: R)
  | a :: b :: l, R => a.1 ++ '=' :: '"' :: (a.2 ++ '"' :: ' ' :: AF (b :: l) R)

def AFtail : List AV → Str → Str
  | [], R => R
  | b :: l, R => ' ' :: AF (b :: l) R

theorem AF_cons (a : AV) (rest : List AV) (R : Str) :
    AF (a :: rest) R = a.1 ++ '=' :: '"' :: (a.2 ++ '"' :: AFtail rest R) := by
  cases rest <;> rfl

structure GoodAV (a : AV) : Prop where
  name_ne : a.1 ≠ []
  name_eq : '=' ∉ a.1
  name_head : ∀ c ∈ a.1.head?, isSpace c = false ∧ c ≠ '?'
  name_lt : '<' ∉ a.1
  val_q : '"' ∉ a.2
  val_lt : '<' ∉ a.2
  /-- the model's `\d`, `\w` are the ASCII classes; the theorems speak about ASCII header text -/
  val_ascii : ∀ c ∈ a.2, c.toNat < 128

theorem eq_split {a b x y : Str} (ha : '=' ∉ a) (hb : '=' ∉ b) (h : a ++ '=' :: x = b ++ '=' :: y) : a = b := by
  rcases List.append_eq_append_iff.1 h with ⟨a', h1, h2⟩ | ⟨c', h1, h2⟩
  · cases a' with
    | nil => simpa using h1.symm
    | cons d a'' =>
      simp only [List.cons_append, List.cons.injEq] at h2
      exact absurd (by rw [h1, ← h2.1]; simp) hb
  · cases c' with
    | nil => simpa using h1
    | cons d c'' =>
      simp only [List.cons_append, List.cons.injEq] at h2
      exact absurd (by rw [h1, ← h2.1]; simp) ha

theorem AF_head (avs : List AV) (R : Str) (h : ∀ a ∈ avs, GoodAV a) (hR : ∀ c ∈ R.head?, c = '?') :
    ∀ c ∈ (AF avs R).head?, isSpace c = false := by
  cases avs with
  | nil => intro c hc; rw [hR c hc]; decide
  | cons a rest =>
    have g := h a (by simp)
    obtain ⟨d, ds, hd⟩ := List.exists_cons_of_ne_nil g.name_ne
    intro c hc
    rw [AF_cons, hd] at hc
    simp at hc; subst hc
    exact (g.name_head d (by rw [hd]; simp)).1

theorem lit_AF_inv (nm : Str) (k : St → Str → Option Res) (st : St) (avs : List AV) (R : Str) (r : Res)
    (hnm : '=' ∉ nm) (hq : '?' ∉ nm) (h : ∀ a ∈ avs, GoodAV a) (hR : ∀ c ∈ R.head?, c = '?')
    (hk : stepItem (.lit (nm ++ ['='])) k st (AF avs R) = some r) :
    ∃ a rest, avs = a :: rest ∧ a.1 = nm ∧ k st ('"' :: (a.2 ++ '"' :: AFtail rest R)) = some r := by
  obtain ⟨t, ht, hkt⟩ := lit_inv _ _ _ _ _ hk
  cases avs with
  | nil =>
    exfalso
    simp only [AF] at ht
    cases nm with
    | nil => rw [ht] at hR; exact absurd (hR '=' (by simp)) (by decide)
    | cons d ds =>
      rw [ht] at hR
      have := hR d (by simp)
      exact hq (by rw [this]; simp)
  | cons a rest =>
    have g := h a (by simp)
    rw [AF_cons] at ht
    have h1 : a.1 ++ '=' :: ('"' :: (a.2 ++ '"' :: AFtail rest R)) = nm ++ '=' :: t := by simpa using ht
    have hn := eq_split g.name_eq hnm h1
    rw [hn] at h1
    have h2 := List.append_cancel_left h1
    simp only [List.cons.injEq, true_and] at h2
    exact ⟨a, rest, rfl, hn, by rw [h2]; exact hkt⟩

/-- `NAME=(["'])(class+)\1` in front of `K` -/
def qfield (nm : Str) (p : Char → Bool) (K : St → Str → Option Res) : St → Str → Option Res :=
  stepItem (.lit (nm ++ ['='])) (stepItem .openq (stepItem (.cap p) (stepItem .closeq K)))

theorem closeq_inv (K : St → Str → Option Res) (st : St) (s : Str) (r : Res) (h : stepItem .closeq K st s = some r) :
    ∃ c cs, s = c :: cs ∧ st.quote = some c ∧ K st cs = some r := by
  cases s with
  | nil => simp [stepItem] at h
  | cons c cs =>
    simp only [stepItem] at h
    split at h
    · rename_i hq; exact ⟨c, cs, rfl, hq, h⟩
    · cases h

/-- a quoted attribute block matches only its own name with a value wholly inside the class -/
theorem qfield_inv (nm : Str) (p : Char → Bool) (K : St → Str → Option Res) (st : St) (avs : List AV) (R : Str)
    (r : Res) (hnm : '=' ∉ nm) (hq : '?' ∉ nm) (h : ∀ a ∈ avs, GoodAV a) (hR : ∀ c ∈ R.head?, c = '?')
    (hp : p '"' = false) (hk : qfield nm p K st (AF avs R) = some r) :
    ∃ a rest, avs = a :: rest ∧ a.1 = nm ∧ inClass p a.2 ∧
      K { caps := some a.2 :: st.caps, quote := some '"' } (AFtail rest R) = some r := by
  obtain ⟨a, rest, e, hn, hk1⟩ := lit_AF_inv nm _ st avs R r hnm hq h hR hk
  subst e
  have g := h a (by simp)
  refine ⟨a, rest, rfl, hn, ?_⟩
  rw [step_openq '"' _ _ _ (Or.inl rfl)] at hk1
  obtain ⟨n, hn0, hn1, hkn⟩ := cap_inv p _ _ _ r hk1
  have hle : n ≤ a.2.length := Nat.le_trans hn1 (takeWhile_stop_le p a.2 _ '"' hp)
  obtain ⟨c, cs, hs, hqc, hK⟩ := closeq_inv _ _ _ _ hkn
  simp only at hqc
  have hcq : c = '"' := by cases hqc; rfl
  subst hcq
  by_cases hlt : n < a.2.length
  · exfalso
    have e : (a.2 ++ '"' :: AFtail rest R).drop n = a.2.drop n ++ '"' :: AFtail rest R := by
      rw [List.drop_append_of_le_length (by omega)]
    rw [e] at hs
    have hne : a.2.drop n ≠ [] := by
      intro h0
      have := congrArg List.length h0
      simp at this; omega
    obtain ⟨d, ds, hd⟩ := List.exists_cons_of_ne_nil hne
    rw [hd] at hs
    simp only [List.cons_append, List.cons.injEq] at hs
    exact g.val_q (List.mem_of_mem_drop (by rw [hd, hs.1]; simp))
  · have hnv : n = a.2.length := by omega
    have htw : (a.2 ++ '"' :: AFtail rest R).takeWhile p = a.2.takeWhile p :=
      takeWhile_append_stop p a.2 _ (by intro d hd; simp at hd; subst hd; exact hp)
    rw [htw] at hn1
    have hall := takeWhile_all_of_length p a.2 (by have := takeWhile_length_le p a.2; omega)
    have hne : a.2 ≠ [] := by
      intro h0; rw [h0] at hnv; simp at hnv; omega
    refine ⟨⟨hne, hall⟩, ?_⟩
    have e1 : (a.2 ++ '"' :: AFtail rest R).drop n = '"' :: AFtail rest R := by rw [hnv]; simp
    have e2 : (a.2 ++ '"' :: AFtail rest R).take n = a.2 := by rw [hnv]; simp
    rw [e1] at hs
    simp only [List.cons.injEq, true_and] at hs
    rw [e2, ← hs] at hK
    exact hK

theorem ws1_AFtail (K : St → Str → Option Res) (st : St) (rest : List AV) (R : Str) (r : Res)
    (h : ∀ a ∈ rest, GoodAV a) (hR : ∀ c ∈ R.head?, c = '?')
    (hk : stepItem .ws1 K st (AFtail rest R) = some r) :
    ∃ b l, rest = b :: l ∧ K st (AF (b :: l) R) = some r := by
  cases rest with
  | nil =>
    exfalso
    simp only [AFtail] at hk
    cases R with
    | nil => simp [stepItem] at hk
    | cons c cs =>
      have := hR c (by simp)
      subst this
      simp [stepItem] at hk
      exact absurd hk.1 (by decide)
  | cons b l =>
    refine ⟨b, l, rfl, ?_⟩
    have hsp : isSpace ' ' = true := by decide
    simp only [AFtail, stepItem, hsp, if_true] at hk
    rwa [dropWhile_nonspace _ (AF_head _ R h hR)] at hk

theorem close_AFtail (K : St → Str → Option Res) (st : St) (rest : List AV) (R : Str) (r : Res)
    (h : ∀ a ∈ rest, GoodAV a)
    (hk : stepItem .ws0 (stepItem (.lit "?>".toList) K) st (AFtail rest R) = some r) : rest = [] := by
  cases rest with
  | nil => rfl
  | cons b l =>
    exfalso
    have g := h b (by simp)
    obtain ⟨d, ds, hd⟩ := List.exists_cons_of_ne_nil g.name_ne
    have hh := g.name_head d (by rw [hd]; simp)
    have hsp : isSpace ' ' = true := by decide
    simp only [AFtail, stepItem.eq_2, List.dropWhile, hsp] at hk
    rw [AF_cons, hd] at hk
    simp only [List.cons_append, List.dropWhile, hh.1] at hk
    simp only [stepItem] at hk
    have : "?>".toList.isPrefixOf (d :: (ds ++ '=' :: '"' :: (b.2 ++ '"' :: AFtail l R))) = false := by
      have e : "?>".toList = ['?', '>'] := by decide
      rw [e]
      simp [List.isPrefixOf]
      intro e2; exact absurd e2.symm hh.2
    rw [this] at hk
    cases hk

theorem v2_matcher_eq : matchSegs v2Regex =
    stepItem (.lit "<?OFX".toList) (stepItem .ws1
      (qfield "OFXHEADER".toList isDigit (stepItem .ws1
      (qfield "VERSION".toList isDigit (stepItem .ws1
      (qfield "SECURITY".toList isWord (stepItem .ws1
      (qfield "OLDFILEUID".toList isWordDash (stepItem .ws1
      (qfield "NEWFILEUID".toList isWordDash
        (stepItem .ws0 (stepItem (.lit "?>".toList) (stepItem .ws0 finish))))))))))))) := rfl

/-- `<?OFX`, a blank, the attributes, then `R` (which starts with `?>`) -/
def ofxDecl (avs : List AV) (R : Str) : Str := "<?OFX".toList ++ ' ' :: AF avs R

/-- **inversion of the v2 pattern**: a match at `<?OFX` forces exactly the five attributes, in order, each value
    wholly inside its class -/
theorem v2_match_inv (avs : List AV) (R : Str) (r : Res) (h : ∀ a ∈ avs, GoodAV a) (hR : ∀ c ∈ R.head?, c = '?')
    (hm : reMatch v2Regex (ofxDecl avs R) = some r) :
    ∃ v1 v2 v3 v4 v5, avs = [("OFXHEADER".toList, v1), ("VERSION".toList, v2), ("SECURITY".toList, v3),
        ("OLDFILEUID".toList, v4), ("NEWFILEUID".toList, v5)] ∧
      inClass isDigit v1 ∧ inClass isDigit v2 ∧ inClass isWord v3 ∧ inClass isWordDash v4 ∧ inClass isWordDash v5 := by
  unfold reMatch at hm
  rw [v2_matcher_eq, ofxDecl, step_lit] at hm
  have hsp : isSpace ' ' = true := by decide
  simp only [stepItem.eq_3, hsp, if_true] at hm
  rw [dropWhile_nonspace _ (AF_head _ R h hR)] at hm
  obtain ⟨a1, r1, e1, n1, c1, h1⟩ := qfield_inv _ _ _ _ _ _ _ (by decide) (by decide) h hR (by decide) hm
  subst e1
  have g1 : ∀ a ∈ r1, GoodAV a := fun a ha => h a (by simp [ha])
  obtain ⟨a2, r2, e2, h2⟩ := ws1_AFtail _ _ _ _ _ g1 hR h1
  subst e2
  obtain ⟨a2', r2', e2', n2, c2, h2'⟩ := qfield_inv _ _ _ _ _ _ _ (by decide) (by decide) g1 hR (by decide) h2
  cases e2'
  have g2 : ∀ a ∈ r2, GoodAV a := fun a ha => g1 a (by simp [ha])
  obtain ⟨a3, r3, e3, h3⟩ := ws1_AFtail _ _ _ _ _ g2 hR h2'
  subst e3
  obtain ⟨a3', r3', e3', n3, c3, h3'⟩ := qfield_inv _ _ _ _ _ _ _ (by decide) (by decide) g2 hR (by decide) h3
  cases e3'
  have g3 : ∀ a ∈ r3, GoodAV a := fun a ha => g2 a (by simp [ha])
  obtain ⟨a4, r4, e4, h4⟩ := ws1_AFtail _ _ _ _ _ g3 hR h3'
  subst e4
  obtain ⟨a4', r4', e4', n4, c4, h4'⟩ := qfield_inv _ _ _ _ _ _ _ (by decide) (by decide) g3 hR (by decide) h4
  cases e4'
  have g4 : ∀ a ∈ r4, GoodAV a := fun a ha => g3 a (by simp [ha])
  obtain ⟨a5, r5, e5, h5⟩ := ws1_AFtail _ _ _ _ _ g4 hR h4'
  subst e5
  obtain ⟨a5', r5', e5', n5, c5, h5'⟩ := qfield_inv _ _ _ _ _ _ _ (by decide) (by decide) g4 hR (by decide) h5
  cases e5'
  have g5 : ∀ a ∈ r5, GoodAV a := fun a ha => g4 a (by simp [ha])
  have e6 := close_AFtail _ _ _ _ _ g5 h5'
  subst e6
  refine ⟨a1.2, a2.2, a3.2, a4.2, a5.2, ?_, c1, c2, c3, c4, c5⟩
  rw [← n1, ← n2, ← n3, ← n4, ← n5]

/-! ### v2 search -/

def ofxOpen : Str := "<?OFX".toList

theorem reMatch_v2_none (s : Str) (h : ¬ ofxOpen <:+: s) : reMatch v2Regex s = none := by
  unfold reMatch
  rw [v2_matcher_eq]
  simp only [stepItem]
  split
  · rename_i hp
    exact absurd (isPrefix_infix_of_suffix (List.isPrefixOf_iff_prefix.1 hp) (List.suffix_refl _)) h
  · rfl

theorem reSearch_v2_none (s : Str) (h : ¬ ofxOpen <:+: s) : reSearch v2Regex s = none := by
  induction s with
  | nil => rw [reSearch]; exact reMatch_v2_none [] h
  | cons c cs ih =>
    rw [reSearch, reMatch_v2_none _ h]
    exact ih (fun hc => h (infix_tail hc))

theorem AF_append (avs : List AV) (R S : Str) : AF avs R ++ S = AF avs (R ++ S) := by
  induction avs with
  | nil => rfl
  | cons a rest ih =>
    cases rest with
    | nil => simp [AF]
    | cons b l => simp only [AF] at ih ⊢; simp [ih]

theorem AF_noLt (avs : List AV) (R : Str) (h : ∀ a ∈ avs, GoodAV a) (hR : '<' ∉ R) : '<' ∉ AF avs R := by
  induction avs with
  | nil => exact hR
  | cons a rest ih =>
    have g := h a (by simp)
    have ih' := ih (fun x hx => h x (by simp [hx]))
    cases rest with
    | nil =>
      simp only [AF, List.mem_append, List.mem_cons, not_or]
      exact ⟨g.name_lt, by decide, by decide, g.val_lt, by decide, hR⟩
    | cons b l =>
      simp only [AF, List.mem_append, List.mem_cons, not_or]
      exact ⟨g.name_lt, by decide, by decide, g.val_lt, by decide, by decide, ih'⟩

end Ofx.Header
