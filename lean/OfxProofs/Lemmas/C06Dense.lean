/-
Which composed requests have no childless aggregate?  From the request specification (`Ofx.Spec.Request.check`: what
the composed instance says, field by field, *and nothing else*) and the validity of the instance (attribute names
pairwise different), to `Ofx.Pipeline.dense`.

`expDense e` — the expectation `e` names, for every aggregate it describes, at least one attribute that must be set or
at least one list member.  `exp_dense`: an instance that meets a dense expectation is dense.
-/
import OfxProofs.Lemmas.Compose
import OfxProofs.Lemmas.C06Unclosed

namespace Ofx.C06
open Ofx Ofx.Compose Ofx.Agg Ofx.Spec.Request Ofx.Pipeline

/-- the expectation forces the element to be there -/
def wantPresent : Want → Bool
  | .str _ => true
  | .ostr o => (emptyAsNone o).isSome
  | .bool (some _) => true
  | .date (some _) => true
  | .year _ => true
  | .anyStr => true
  | _ => false

def expPresent : Exp → Bool
  | .leaf w => wantPresent w
  | .agg .. => true

mutual
  /-- every aggregate the expectation describes has an attribute that must be set, or a list member -/
  def expDense : Exp → Bool
    | .leaf _ => true
    | .agg _ fs items => (presentAny fs || !items.isEmpty) && denseAll fs
  def presentAny : List (String × Exp) → Bool
    | [] => false
    | (_, e) :: r => expPresent e || presentAny r
  def denseAll : List (String × Exp) → Bool
    | [] => true
    | (_, e) :: r => expDense e && denseAll r
end

theorem want_ok_val {w : Want} {n : Node} (h : w.ok n = true) : ∃ x, n = .val x := by
  cases n with
  | val x => exact ⟨x, rfl⟩
  | agg ci f i =>
    cases w <;> simp [Want.ok] at h
    all_goals (split at h <;> simp_all)

theorem want_present {w : Want} {n : Node} (h : w.ok n = true) (hp : wantPresent w = true) : n.isNone = false := by
  obtain ⟨x, rfl⟩ := want_ok_val h
  cases x <;> try rfl
  -- the stored value is `None`
  cases w with
  | ostr o =>
    simp only [wantPresent] at hp
    simp only [Want.ok] at h
    split at h <;> simp_all
  | bool b => cases b <;> simp [wantPresent, Want.ok] at hp h
  | date d => cases d <;> simp [wantPresent, Want.ok] at hp h
  | _ => simp [wantPresent, Want.ok] at hp h

theorem isCls_agg {S : Schema} {name : String} {n : Node} (h : isCls S name n = true) :
    ∃ ci f its, n = .agg ci f its := by
  cases n with
  | val x => simp [isCls, Node.cls?] at h
  | agg ci f its => exact ⟨ci, f, its, rfl⟩

theorem exp_present {S : Schema} {e : Exp} {n : Node} (h : e.ok S n = true) (hp : expPresent e = true) :
    n.isNone = false := by
  cases e with
  | leaf w => exact want_present (by simpa [Exp.ok] using h) (by simpa [expPresent] using hp)
  | agg cls fs items =>
    simp only [Exp.ok, Bool.and_eq_true] at h
    obtain ⟨ci, f, its, rfl⟩ := isCls_agg h.1.1.1
    rfl

theorem fieldNames_eq : ∀ fs : List (String × Exp), fieldNames fs = fs.map (·.1)
  | [] => by simp [fieldNames]
  | (k, e) :: r => by simp [fieldNames, fieldNames_eq r]

theorem fieldsOk_iff (S : Schema) (n : Node) : ∀ fs : List (String × Exp),
    fieldsOk S fs n = true ↔ ∀ p ∈ fs, p.2.ok S (fieldVal n p.1) = true
  | [] => by simp [fieldsOk]
  | (k, e) :: r => by simp [fieldsOk, fieldsOk_iff S n r]

theorem presentAny_iff : ∀ fs : List (String × Exp), presentAny fs = true ↔ ∃ p ∈ fs, expPresent p.2 = true
  | [] => by simp [presentAny]
  | (k, e) :: r => by simp [presentAny, presentAny_iff r]

theorem denseAll_iff : ∀ fs : List (String × Exp), denseAll fs = true ↔ ∀ p ∈ fs, expDense p.2 = true
  | [] => by simp [denseAll]
  | (k, e) :: r => by simp [denseAll, denseAll_iff r]

theorem all2_forall {α β : Type} (p : α → β → Bool) : ∀ (as : List α) (bs : List β), all2 p as bs = true →
    as.length = bs.length ∧ ∀ b ∈ bs, ∃ a ∈ as, p a b = true
  | [], [], _ => by simp
  | a :: as, b :: bs, h => by
    simp only [all2, Bool.and_eq_true] at h
    obtain ⟨hl, hm⟩ := all2_forall p as bs h.2
    refine ⟨by simp [hl], ?_⟩
    intro b' hb'
    simp only [List.mem_cons] at hb'
    rcases hb' with rfl | hb'
    · exact ⟨a, by simp, h.1⟩
    · obtain ⟨a', ha', hp⟩ := hm b' hb'
      exact ⟨a', by simp [ha'], hp⟩
  | [], _ :: _, h => by simp [all2] at h
  | _ :: _, [], h => by simp [all2] at h

/-- a stored value that is not `None` is an entry of the dict -/
theorem fieldVal_mem {n : Node} {k : String} (h : (fieldVal n k).isNone = false) :
    (k.toList, fieldVal n k) ∈ n.fields := by
  unfold fieldVal at h ⊢
  cases hg : getField k.toList n.fields with
  | none => simp [hg, Node.isNone] at h
  | some v =>
    simp only
    rw [getField_eq_lookup] at hg
    exact Ofx.Compose.lookup_mem hg

theorem lookup_of_mem_nodup' {α} (k : Str) (v : α) : ∀ (l : List (Str × α)), (l.map (·.1)).Nodup → (k, v) ∈ l →
    lookup k l = some v
  | [], _, h => by simp at h
  | (k', v') :: r, hn, h => by
    simp only [List.map_cons, List.nodup_cons] at hn
    simp only [List.mem_cons, Prod.mk.injEq] at h
    rcases h with ⟨rfl, rfl⟩ | h
    · simp [lookup]
    · have hne : k' ≠ k := by
        intro heq; subst heq
        exact hn.1 (List.mem_map.mpr ⟨(k', v), h, rfl⟩)
      simp [lookup, hne, lookup_of_mem_nodup' k v r hn.2 h]

theorem fieldVal_of_mem {n : Node} {k : String} {v : Node} (hnd : (n.fields.map (·.1)).Nodup)
    (hm : (k.toList, v) ∈ n.fields) : fieldVal n k = v := by
  unfold fieldVal
  rw [getField_eq_lookup, lookup_of_mem_nodup' _ _ _ hnd hm]

theorem dense_of_isNone {v : Node} (h : v.isNone = true) : dense v = true := by
  cases v with
  | val x => simp [dense]
  | agg _ _ _ => simp [Node.isNone] at h

theorem othersNone_mem {keep : List String} {n : Node} (h : othersNone keep n = true) :
    ∀ k v, (k, v) ∈ n.fields → (∃ k' ∈ keep, k'.toList = k) ∨ v.isNone = true := by
  intro k v hm
  simp only [othersNone, List.all_eq_true] at h
  have := h (k, v) hm
  simp only [Bool.or_eq_true, List.any_eq_true, beq_iff_eq] at this
  exact this

section
variable (S : Schema) (cv : Conv) (esc : Str → Str) (Dom : Kind → Bool → Val → Prop)

theorem validFields_mem : ∀ (fs : List (Str × Node)), ValidFields S cv esc Dom fs → ∀ k v, (k, v) ∈ fs →
    v.isAgg = true → Valid S cv esc Dom v
  | [], _, k, v, hm, _ => by simp at hm
  | (k0, w) :: r, h, k, v, hm, hagg => by
    obtain ⟨hw, hr⟩ := h
    simp only [List.mem_cons, Prod.mk.injEq] at hm
    rcases hm with ⟨_, rfl⟩ | hm
    · exact hw hagg
    · exact validFields_mem r hr k v hm hagg

theorem validItems_mem : ∀ (is : List Node), ValidItems S cv esc Dom is → ∀ v ∈ is,
    v.isAgg = true → Valid S cv esc Dom v
  | [], _, v, hm, _ => by simp at hm
  | w :: r, h, v, hm, hagg => by
    obtain ⟨hw, hr⟩ := h
    simp only [List.mem_cons] at hm
    rcases hm with rfl | hm
    · exact hw hagg
    · exact validItems_mem r hr v hm hagg

theorem valid_fieldVal {n : Node} (hvf : ValidFields S cv esc Dom n.fields) (k : String)
    (hagg : (fieldVal n k).isAgg = true) : Valid S cv esc Dom (fieldVal n k) := by
  have hnn : (fieldVal n k).isNone = false := by
    cases h : fieldVal n k with
    | val x => rw [h] at hagg; simp [Node.isAgg] at hagg
    | agg _ _ _ => rfl
  exact validFields_mem S cv esc Dom _ hvf _ _ (fieldVal_mem hnn) hagg

mutual
  /-- **an instance that meets a dense expectation is dense** (validity supplies: attribute names pairwise
      different, so every stored value is the one the expectation speaks of) -/
  theorem exp_dense : ∀ (e : Exp) (n : Node), e.ok S n = true → expDense e = true →
      (n.isAgg = true → Valid S cv esc Dom n) → dense n = true
    | .leaf w, n, h, _, _ => by
      obtain ⟨x, rfl⟩ := want_ok_val (w := w) (by simpa [Exp.ok] using h)
      simp [dense]
    | .agg cls fs items, n, h, hd, hv => by
      simp only [Exp.ok, Bool.and_eq_true] at h
      obtain ⟨⟨⟨hc, hitems⟩, hfs⟩, hoth⟩ := h
      obtain ⟨ci, f, its, rfl⟩ := isCls_agg hc
      have hval := hv rfl
      simp only [Valid] at hval
      obtain ⟨⟨c, ok⟩, hvf, hvi⟩ := hval
      have hnd : (f.map (·.1)).Nodup := NodeOk.keys_nodup S cv esc Dom ok
      simp only [expDense, Bool.and_eq_true] at hd
      have hsub := fields_dense fs (.agg ci f its) hfs hd.2 hvf
      obtain ⟨hlen, hits⟩ := all2_forall _ _ _ hitems
      simp only [Node.items] at hlen hits
      simp only [dense, Bool.and_eq_true]
      refine ⟨⟨?_, ?_⟩, ?_⟩
      · -- something is set
        have hd1 := hd.1
        simp only [Bool.or_eq_true, Bool.not_eq_true'] at hd1 ⊢
        rcases hd1 with hp | hi
        · left
          obtain ⟨p, hp, hpp⟩ := (presentAny_iff fs).mp hp
          have hok := (fieldsOk_iff S _ fs).mp hfs p hp
          have hnn := exp_present hok hpp
          have hm := fieldVal_mem hnn
          simp only [Node.fields] at hm
          rw [List.any_eq_true]
          exact ⟨_, hm, by simp [hnn]⟩
        · right
          cases its with
          | nil => cases items with
            | nil => simp at hi
            | cons _ _ => simp at hlen
          | cons _ _ => rfl
      · rw [denseFields_iff]
        intro ⟨k, v⟩ hm
        rcases othersNone_mem hoth k v hm with ⟨k', hk', rfl⟩ | hn
        · have := hsub k' hk'
          rw [fieldVal_of_mem (n := .agg ci f its) hnd hm] at this
          exact this
        · exact dense_of_isNone hn
      · rw [denseItems_iff]
        intro m hm
        obtain ⟨w, _, hw⟩ := hits m hm
        obtain ⟨x, rfl⟩ := want_ok_val hw
        simp [dense]
  theorem fields_dense : ∀ (fs : List (String × Exp)) (n : Node), fieldsOk S fs n = true → denseAll fs = true →
      ValidFields S cv esc Dom n.fields → ∀ k ∈ fieldNames fs, dense (fieldVal n k) = true
    | [], n, _, _, _ => by intro k hk; simp [fieldNames] at hk
    | (k0, e) :: r, n, h, hd, hvf => by
      simp only [fieldsOk, Bool.and_eq_true] at h
      simp only [denseAll, Bool.and_eq_true] at hd
      intro k hk
      simp only [fieldNames, List.mem_cons] at hk
      rcases hk with rfl | hk
      · exact exp_dense e (fieldVal n k) h.1 hd.1 (valid_fieldVal S cv esc Dom hvf k)
      · exact fields_dense r n h.2 hd.2 hvf k hk
end

/-! ### the clauses of the request specification -/

theorem clause_nil {name : String} {b : Bool} (h : clause name b = []) : b = true := by
  cases b <;> simp [clause] at h ⊢

/-- the sign-on message set, as one expectation -/
def expSignon (cfg : Cfg) (userid password : Str) (dtclient : DT) : Exp :=
  .agg "SIGNONMSGSRQV1" [("sonrq", .agg "SONRQ" (expSonrq cfg userid password dtclient) [])] []

theorem expSignon_dense (cfg : Cfg) (userid password : Str) (dtclient : DT) :
    expDense (expSignon cfg userid password dtclient) = true := by
  simp only [expSignon, expSonrq, wantFi]
  cases ho : orgSet cfg
  · simp [expDense, presentAny, denseAll, expPresent, wantPresent]
  · have : (emptyAsNone cfg.org).isSome = true := by
      unfold orgSet at ho
      cases hc : cfg.org with
      | none => simp [hc] at ho
      | some o => simp [hc] at ho; simp [emptyAsNone, ho]
    simp [expDense, presentAny, denseAll, expPresent, wantPresent, this]

theorem signon_ok {S : Schema} {cfg : Cfg} {userid password : Str} {dtclient : DT} {msgs : Node}
    (h : signonClauses S cfg userid password dtclient msgs = []) :
    (expSignon cfg userid password dtclient).ok S msgs = true := by
  simp only [signonClauses, List.append_eq_nil_iff, List.flatMap_eq_nil_iff] at h
  obtain ⟨⟨h1, h2⟩, h3⟩ := h
  have h1 := clause_nil h1
  have h3 := clause_nil h3
  simp only [Bool.and_eq_true] at h1
  obtain ⟨⟨⟨⟨a1, a2⟩, a3⟩, a4⟩, a5⟩ := h1
  have hf : fieldsOk S (expSonrq cfg userid password dtclient) (fieldVal msgs "sonrq") = true := by
    rw [fieldsOk_iff]
    intro p hp
    exact clause_nil (h2 p hp)
  have i1 : all2 Want.ok [] msgs.items = true := by
    cases hm : msgs.items with
    | nil => rfl
    | cons _ _ => simp [hm] at a2
  have i2 : all2 Want.ok [] (fieldVal msgs "sonrq").items = true := by
    cases hm : (fieldVal msgs "sonrq").items with
    | nil => rfl
    | cons _ _ => simp [hm] at a5
  simp only [expSignon, Exp.ok, fieldsOk, fieldNames, a1, a3, a4, i1, i2, hf, h3, Bool.and_self]

/-- a message set: an aggregate with nothing set but its list members -/
theorem msgs_dense {S : Schema} {cls : String} {node : Node} (hc : isCls S cls node = true)
    (ho : othersNone [] node = true) (hne : node.items ≠ []) (hw : ∀ w ∈ node.items, dense w = true) :
    dense node = true := by
  obtain ⟨ci, f, its, rfl⟩ := isCls_agg hc
  simp only [Node.items] at hne hw
  simp only [dense, Bool.and_eq_true]
  refine ⟨⟨?_, ?_⟩, (denseItems_iff its).mpr hw⟩
  · cases its with
    | nil => exact absurd rfl hne
    | cons _ _ => simp
  · rw [denseFields_iff]
    intro ⟨k, v⟩ hm
    rcases othersNone_mem ho k v hm with ⟨k', hk', _⟩ | hn
    · simp at hk'
    · exact dense_of_isNone hn

/-- the `OFX` root: the sign-on and the listed message sets, nothing else -/
theorem root_dense {S : Schema} {cfg : Cfg} {userid password : Str} {dtclient : DT} {attrs : List String}
    {root : Node} (hv : Valid S cv esc Dom root)
    (hr : rootClauses S attrs root = [])
    (hs : signonClauses S cfg userid password dtclient (fieldVal root "signonmsgsrqv1") = [])
    (ha : ∀ a ∈ attrs, dense (fieldVal root a) = true) : dense root = true := by
  simp only [rootClauses, List.append_eq_nil_iff] at hr
  have h1 := clause_nil hr.1
  have h2 := clause_nil hr.2
  simp only [Bool.and_eq_true] at h1
  obtain ⟨ci, f, its, rfl⟩ := isCls_agg h1.1
  have hval := hv
  simp only [Valid] at hval
  obtain ⟨⟨c, ok⟩, hvf, hvi⟩ := hval
  have hnd : (f.map (·.1)).Nodup := NodeOk.keys_nodup S cv esc Dom ok
  have hso := signon_ok hs
  have hsd : dense (fieldVal (.agg ci f its) "signonmsgsrqv1") = true :=
    exp_dense S cv esc Dom _ _ hso (expSignon_dense _ _ _ _)
      (valid_fieldVal S cv esc Dom (n := .agg ci f its) hvf _)
  have hits : its = [] := by simpa [Node.items] using h1.2
  subst hits
  simp only [dense, denseItems, Bool.and_eq_true, and_true]
  refine ⟨?_, ?_⟩
  · have hnn : (fieldVal (.agg ci f []) "signonmsgsrqv1").isNone = false :=
      exp_present hso (by simp [expSignon, expPresent])
    have hm := fieldVal_mem hnn
    simp only [Node.fields] at hm
    simp only [Bool.or_eq_true, List.any_eq_true]
    exact Or.inl ⟨_, hm, by simp [hnn]⟩
  · rw [denseFields_iff]
    intro ⟨k, v⟩ hm
    rcases othersNone_mem h2 k v hm with ⟨k', hk', rfl⟩ | hn
    · have hfv := fieldVal_of_mem (n := .agg ci f []) hnd hm
      simp only [List.mem_cons] at hk'
      rcases hk' with rfl | hk'
      · rw [hfv] at hsd; exact hsd
      · have := ha k' hk'
        rw [hfv] at this; exact this
    · exact dense_of_isNone hn

/-! ### statement requests -/

/-- the account id is given (it is a required field of the NamedTuple) and the include flags the aggregate needs
    are booleans (their defaults) — then every aggregate of the wrapper has something to say -/
def Req.given : Req → Bool
  | .stmt acctid _ _ _ inctran => (emptyAsNone acctid).isSome && inctran.isSome
  | .ccStmt acctid _ _ inctran => (emptyAsNone acctid).isSome && inctran.isSome
  | .invStmt acctid _ _ _ _ _ incpos _ => (emptyAsNone acctid).isSome && incpos.isSome
  | .stmtEnd acctid _ _ _ => (emptyAsNone acctid).isSome
  | .ccStmtEnd acctid _ _ => (emptyAsNone acctid).isSome

theorem expWrapper_dense (cfg : Cfg) (rq : Req) (h : Req.given rq = true) : expDense (expWrapper cfg rq) = true := by
  cases rq with
  | stmt acctid accttype dtstart dtend inctran =>
    simp only [Req.given, Bool.and_eq_true] at h
    obtain ⟨b, rfl⟩ := Option.isSome_iff_exists.mp h.2
    simp [expWrapper, expBankAcct, expInctran, expDense, presentAny, denseAll, expPresent, wantPresent, h.1]
  | ccStmt acctid dtstart dtend inctran =>
    simp only [Req.given, Bool.and_eq_true] at h
    obtain ⟨b, rfl⟩ := Option.isSome_iff_exists.mp h.2
    simp [expWrapper, expCcAcct, expInctran, expDense, presentAny, denseAll, expPresent, wantPresent, h.1]
  | invStmt acctid dtstart dtend dtasof inctran incoo incpos incbal =>
    simp only [Req.given, Bool.and_eq_true] at h
    obtain ⟨b, rfl⟩ := Option.isSome_iff_exists.mp h.2
    cases hf : flagSet inctran with
    | false =>
      simp [expWrapper, expDense, presentAny, denseAll, expPresent, wantPresent, h.1, hf]
    | true =>
      have : inctran = some true := by
        cases inctran with
        | none => simp [flagSet] at hf
        | some b => simp [flagSet] at hf; simp [hf]
      subst this
      simp [expWrapper, expInctran, expDense, presentAny, denseAll, expPresent, wantPresent, h.1, hf]
  | stmtEnd acctid accttype dtstart dtend =>
    simp only [Req.given] at h
    simp [expWrapper, expBankAcct, expDense, presentAny, denseAll, expPresent, wantPresent, h]
  | ccStmtEnd acctid dtstart dtend =>
    simp only [Req.given] at h
    simp [expWrapper, expCcAcct, expDense, presentAny, denseAll, expPresent, wantPresent, h]

theorem kind_under (k : RKind) : k ∈ kindsUnder k.msgset := by cases k <;> simp [kindsUnder, RKind.msgset]

/-- one message set of a statement request -/
theorem msgset_dense {S : Schema} {cfg : Cfg} {reqs : List Req} {m : MsgSet} {root : Node}
    (hvf : ValidFields S cv esc Dom root.fields)
    (hg : ∀ r ∈ reqs, Req.given r = true) (h : msgsetClauses S cfg reqs m root = []) :
    dense (fieldVal root m.attrName) = true := by
  simp only [msgsetClauses] at h
  split at h
  · exact dense_of_isNone (clause_nil h)
  · rename_i hasked
    simp only [List.append_eq_nil_iff, List.flatMap_eq_nil_iff] at h
    obtain ⟨⟨h1, h2⟩, h3⟩ := h
    have h1 := clause_nil h1
    have h2 := clause_nil h2
    simp only [Bool.and_eq_true] at h1
    have h3 : ∀ k ∈ kindsUnder m, all2 (fun rq w => (expWrapper cfg rq).ok S w)
        (reqs.filter (fun r => decide (r.kind = k)))
        ((fieldVal root m.attrName).items.filter (isWrapper S k)) = true := fun k hk => clause_nil (h3 k hk)
    -- validity of the members
    have hvi : ∀ w ∈ (fieldVal root m.attrName).items, w.isAgg = true → Valid S cv esc Dom w := by
      intro w hw hagg
      obtain ⟨ci, f, its, hn⟩ := isCls_agg h1.1
      have hval := valid_fieldVal S cv esc Dom hvf m.attrName (by rw [hn]; rfl)
      rw [hn] at hval hw
      simp only [Valid] at hval
      exact validItems_mem S cv esc Dom its hval.2.2 w hw hagg
    refine msgs_dense h1.1 h1.2 ?_ ?_
    · -- a request was made for this message set
      obtain ⟨r, hr, hrm⟩ : ∃ r ∈ reqs, r.kind.msgset = m := by
        cases hf : reqs.filter (fun r => decide (r.kind.msgset = m)) with
        | nil => simp [hf] at hasked
        | cons r _ =>
          have : r ∈ reqs.filter (fun r => decide (r.kind.msgset = m)) := by simp [hf]
          simp only [List.mem_filter, decide_eq_true_eq] at this
          exact ⟨r, this.1, this.2⟩
      have hk : r.kind ∈ kindsUnder m := by rw [← hrm]; exact kind_under _
      obtain ⟨hlen, _⟩ := all2_forall _ _ _ (h3 _ hk)
      have hrf : r ∈ reqs.filter (fun r' => decide (r'.kind = r.kind)) := by simp [hr]
      intro h0
      rw [h0] at hlen
      simp only [List.filter_nil, List.length_nil, List.length_eq_zero_iff] at hlen
      rw [hlen] at hrf
      simp at hrf
    · intro w hw
      have := (List.all_eq_true.mp h2) w hw
      simp only [List.any_eq_true] at this
      obtain ⟨k, hk, hkw⟩ := this
      obtain ⟨_, hall⟩ := all2_forall _ _ _ (h3 k hk)
      obtain ⟨rq, hrq, hok⟩ := hall w (by simp [hw, hkw])
      simp only [List.mem_filter] at hrq
      exact exp_dense S cv esc Dom _ _ hok (expWrapper_dense cfg rq (hg rq hrq.1)) (hvi w hw)

/-- **a composed statement request that meets its specification is dense** -/
theorem check_dense {S : Schema} {cfg : Cfg} {password : Str} {dtclient : DT} {reqs : List Req} {hv : Int}
    {root : Node} (hval : Valid S cv esc Dom root) (hg : ∀ r ∈ reqs, Req.given r = true)
    (h : check S cfg password dtclient reqs hv root = []) : dense root = true := by
  simp only [check, List.append_eq_nil_iff, List.flatMap_eq_nil_iff] at h
  obtain ⟨⟨⟨⟨_, hr⟩, hs⟩, hm⟩, _⟩ := h
  have hvf : ValidFields S cv esc Dom root.fields := by
    cases root with
    | val x => simp [Valid] at hval
    | agg ci f its => simp only [Valid] at hval; exact hval.2.1
  refine root_dense cv esc Dom hval hr hs ?_
  intro a ha
  simp only [List.mem_map] at ha
  obtain ⟨m, hm', rfl⟩ := ha
  exact msgset_dense cv esc Dom hvf hg (hm m hm')

/-- **a single-wrapper request (accounts, profile, tax) that meets its specification is dense, when the wrapper's
    expectation is** -/
theorem checkSingle_dense {S : Schema} {cfg : Cfg} {userid password : Str} {dtclient : DT} {hv : Int}
    {cfgVersion : Nat} {attr msgCls label : String} {want : Exp} {root : Node}
    (hval : Valid S cv esc Dom root) (hw : expDense want = true)
    (h : checkSingle S cfg userid password dtclient hv cfgVersion attr msgCls label want root = []) :
    dense root = true := by
  simp only [checkSingle, List.append_eq_nil_iff] at h
  obtain ⟨⟨⟨⟨⟨_, hr⟩, hs⟩, hshape⟩, hwr⟩, _⟩ := h
  have hvf : ValidFields S cv esc Dom root.fields := by
    cases root with
    | val x => simp [Valid] at hval
    | agg ci f its => simp only [Valid] at hval; exact hval.2.1
  have h1 := clause_nil hshape
  have h2 := clause_nil hwr
  simp only [Bool.and_eq_true] at h1
  refine root_dense cv esc Dom hval hr hs ?_
  intro a ha
  simp only [List.mem_singleton] at ha
  subst ha
  obtain ⟨hlen, hall⟩ := all2_forall _ _ _ h2
  have hvi : ∀ w ∈ (fieldVal root a).items, w.isAgg = true → Valid S cv esc Dom w := by
    intro w hw hagg
    obtain ⟨ci, f, its, hn⟩ := isCls_agg h1.1
    have hval' := valid_fieldVal S cv esc Dom hvf a (by rw [hn]; rfl)
    rw [hn] at hval' hw
    simp only [Valid] at hval'
    exact validItems_mem S cv esc Dom its hval'.2.2 w hw hagg
  refine msgs_dense h1.1 h1.2 ?_ ?_
  · intro h0; rw [h0] at hlen; simp at hlen
  · intro w hw'
    obtain ⟨e, he, hok⟩ := hall w hw'
    simp only [List.mem_singleton] at he
    subst he
    exact exp_dense S cv esc Dom _ _ hok hw (hvi w hw')

end
end Ofx.C06
