/-
The element converters (`Ofx.Types.conv`) satisfy the laws the aggregate round-trip theorem (C01,
`OfxProofs/Lemmas/AggRound.lean: ConvLaws`) needs, on an explicit domain of values:

* `typesDom`   — for the wire pipeline (`esc = _escape_cdata`): **every** non-empty string within its limit (entity
                 spellings and markup included — `unescape (escapeCdata s) = s`), every bool, every enumeration token
                 free of `& < >`, every integer within the declared length, every finite decimal with exponent ≤ 0
                 (at the quantum and within the context precision when a scale is declared), UTC millisecond
                 date-times and times, through any nesting of `ListElement`.
* `typesDomId` — for the direct `from_etree ∘ to_etree` (`esc = id`): the same, but strings must be free of the six
                 entity spellings (`entityFree`), since `String.unconvert` does not escape.

Date-time and time values in the domains are the ones the library itself produces on read: UTC (`tz = utc`), millisecond
resolution, valid fields, years 1000..9999 for date-times (`dtUtcMs`, `tmUtcMs`); the proofs rest on the date-time
layer's `C09_write`, `C09_write_roundtrip`, `C09_time_write`, `C09_time_write_roundtrip`.
-/
import OfxProofs.Lemmas.AggRound
import OfxProofs.Props.C10
import OfxProofs.Props.C09

namespace Ofx.Types
open Ofx Ofx.Agg

/-! ### `_escape_cdata` on texts without markup -/

/-- none of `& < >` -/
def markupFree (s : Str) : Bool := s.all (fun c => c != '&' && c != '<' && c != '>')

theorem escChar_plain (c : Char) (h : (c != '&' && c != '<' && c != '>') = true) : escChar c = [c] := by
  simp only [Bool.and_eq_true, bne_iff_ne, ne_eq] at h
  simp [escChar, h.1.1, h.1.2, h.2]

theorem escapeCdata_markupFree (s : Str) (h : markupFree s = true) : escapeCdata s = s := by
  induction s with
  | nil => exact escapeCdata_nil
  | cons c cs ih =>
    simp only [markupFree, List.all_cons, Bool.and_eq_true] at h
    rw [escapeCdata_cons, escChar_plain c (by simpa using h.1), ih (by simpa [markupFree] using h.2)]
    rfl

theorem escChar_ne_nil (c : Char) : escChar c ≠ [] := by
  unfold escChar
  split
  · simp
  · split
    · simp
    · split <;> simp

theorem escapeCdata_ne_nil (s : Str) (h : s ≠ []) : escapeCdata s ≠ [] := by
  obtain ⟨c, cs, rfl⟩ := List.exists_cons_of_ne_nil h
  rw [escapeCdata_cons]
  intro e
  exact escChar_ne_nil c (List.append_eq_nil_iff.mp e).1

theorem digitChar_markupFree : ∀ d, d < 10 → (digitChar d != '&' && digitChar d != '<' && digitChar d != '>') = true := by
  decide

theorem markupFree_digits (n : Nat) : markupFree (pyStrNat n) = true := by
  simp only [markupFree, pyStrNat, List.all_map, List.all_eq_true]
  intro d hd
  exact digitChar_markupFree d (natDigits_lt n d hd)

theorem markupFree_append (a b : Str) : markupFree (a ++ b) = (markupFree a && markupFree b) := by
  simp [markupFree]

theorem markupFree_cons (x : Char) (t : Str) :
    markupFree (x :: t) = ((x != '&' && x != '<' && x != '>') && markupFree t) := by simp [markupFree]

theorem markupFree_pyStrInt (i : Int) : markupFree (pyStrInt i) = true := by
  unfold pyStrInt
  split
  · have : ('-' :: pyStrNat i.natAbs) = ['-'] ++ pyStrNat i.natAbs := rfl
    rw [this, markupFree_append, markupFree_digits]; rfl
  · exact markupFree_digits _

theorem markupFree_signStr (neg : Bool) : markupFree (signStr neg) = true := by cases neg <;> rfl

theorem markupFree_sub (s : Str) (h : markupFree s = true) (t : Str) (ht : ∀ c ∈ t, c ∈ s) : markupFree t = true := by
  simp only [markupFree, List.all_eq_true] at *
  exact fun c hc => h c (ht c hc)

theorem markupFree_replicate (n : Nat) (c : Char) (h : (c != '&' && c != '<' && c != '>') = true) :
    markupFree (List.replicate n c) = true := by
  simp only [markupFree, List.all_eq_true]
  intro x hx
  rw [(List.mem_replicate.mp hx).2]; exact h

/-- `format(d, "f")` contains no markup -/
theorem markupFree_decFormatF (neg : Bool) (c : Nat) (e : Int) : markupFree (decFormatF (.fin neg c e)) = true := by
  rw [decFormatF_fin]
  have hd := markupFree_digits c
  have htk : ∀ k, markupFree ((pyStrNat c).take k) = true :=
    fun k => markupFree_sub _ hd _ (fun _ h => List.mem_of_mem_take h)
  have hdr : ∀ k, markupFree ((pyStrNat c).drop k) = true :=
    fun k => markupFree_sub _ hd _ (fun _ h => List.mem_of_mem_drop h)
  have cons : ∀ (x : Char) (t : Str), markupFree (x :: t) = ((x != '&' && x != '<' && x != '>') && markupFree t) := by
    intro x t; simp [markupFree]
  split
  · split
    · rw [markupFree_append, markupFree_signStr]; rfl
    · rw [markupFree_append, markupFree_append, markupFree_signStr, hd, markupFree_replicate _ _ (by decide)]; rfl
  · split
    · rw [markupFree_append, markupFree_signStr, cons, cons, markupFree_append,
        markupFree_replicate _ _ (by decide), hd]; rfl
    · rw [markupFree_append, markupFree_append, markupFree_signStr, htk, cons, hdr]; rfl

end Ofx.Types

/-! ### date-time and time values: UTC at millisecond resolution -/

namespace Ofx.DateTime
open Ofx Ofx.Cal Ofx.Spec.Instant Ofx.Types

theorem dch_markupFree (n : Nat) : (dch n != '&' && dch n != '<' && dch n != '>') = true := by
  have : dch n = digitChar (n % 10) := rfl
  rw [this]; exact digitChar_markupFree (n % 10) (Nat.mod_lt _ (by decide))

theorem markupFree_d2 (n : Nat) : markupFree (d2 n) = true := by
  simp [d2, markupFree_cons, dch_markupFree, markupFree]
theorem markupFree_d3 (n : Nat) : markupFree (d3 n) = true := by
  simp [d3, markupFree_cons, dch_markupFree, markupFree]
theorem markupFree_d4 (n : Nat) : markupFree (d4 n) = true := by
  simp [d4, markupFree_cons, dch_markupFree, markupFree]

theorem canonOff_utc_render : (canonOff 0 (some "UTC".toList)).render = "+0:UTC".toList := by decide +kernel

/-- the text written for a UTC value has no markup and is not empty -/
theorem markupFree_render_utc (p : Parts) (hdate : True) (htod : p.tod.isSome = true) (hms : p.ms.isSome = true)
    (hoff : p.off = some (canonOff 0 (some "UTC".toList))) : markupFree p.render = true ∧ p.render ≠ [] := by
  obtain ⟨date, tod, ms, off⟩ := p
  simp only at htod hms hoff
  subst hoff
  obtain ⟨⟨h, mi, s⟩, rfl⟩ := Option.isSome_iff_exists.mp htod
  obtain ⟨m, rfl⟩ := Option.isSome_iff_exists.mp hms
  cases date with
  | none =>
    constructor
    · simp only [Parts.render, canonOff_utc_render]
      simp [markupFree_append, markupFree_cons, markupFree_d2, markupFree_d3]
      decide
    · simp [Parts.render]
  | some x =>
    obtain ⟨y, m', d⟩ := x
    constructor
    · simp only [Parts.render, canonOff_utc_render]
      simp [markupFree_append, markupFree_cons, markupFree_d2, markupFree_d3, markupFree_d4]
      decide
    · simp [Parts.render]

/-- valid naive fields are determined by their position on the microsecond scale -/
theorem localUs_inj (a b : DT) (ha : dtValid a = true) (hb : dtValid b = true) (h : localUs a = localUs b) :
    a.year = b.year ∧ a.month = b.month ∧ a.day = b.day ∧ a.hour = b.hour ∧ a.minute = b.minute
      ∧ a.second = b.second ∧ a.us = b.us := by
  simp only [dtValid, validTod, Bool.and_eq_true, decide_eq_true_eq] at ha hb
  obtain ⟨⟨da, ⟨⟨a1, a2⟩, a3⟩⟩, a4⟩ := ha
  obtain ⟨⟨db, ⟨⟨b1, b2⟩, b3⟩⟩, b4⟩ := hb
  unfold localUs toUs at h
  have hN : ymd2ord a.year a.month a.day = ymd2ord b.year b.month b.day := by omega
  have hh : a.hour = b.hour := by omega
  have hmi : a.minute = b.minute := by omega
  have hs : a.second = b.second := by omega
  have hu : a.us = b.us := by omega
  rw [spec_validDate_eq] at da db
  simp only [Cal.validDate, Bool.and_eq_true, decide_eq_true_eq] at da db
  obtain ⟨⟨⟨⟨⟨ya, _⟩, ma1⟩, ma2⟩, dda1⟩, dda2⟩ := da
  obtain ⟨⟨⟨⟨⟨yb, _⟩, mb1⟩, mb2⟩, ddb1⟩, ddb2⟩ := db
  have ea := ord2ymd_ymd2ord a.year a.month a.day ya ⟨ma1, ma2⟩ ⟨dda1, dda2⟩
  have eb := ord2ymd_ymd2ord b.year b.month b.day yb ⟨mb1, mb2⟩ ⟨ddb1, ddb2⟩
  rw [hN, eb] at ea
  simp only [Prod.mk.injEq] at ea
  exact ⟨ea.1.symm, ea.2.1.symm, ea.2.2.symm, hh, hmi, hs, hu⟩

/-- UTC datetimes at millisecond resolution in years 1000..9999 -/
def dtUtcMs (d : DT) : Prop :=
  dtValid d = true ∧ d.tz = some utc ∧ d.us % 1000 = 0 ∧ us1000 ≤ localUs d ∧ localUs d < usEnd

theorem localUs_ms (d : DT) (h : d.us % 1000 = 0) : localUs d % 1000 = 0 := by
  unfold localUs toUs; omega

/-- **write, then read, a UTC millisecond datetime: the text has no markup and reads back to the value** -/
theorem dt_round_utc (r r' : Bool) (d : DT) (hd : dtUtcMs d) :
    ∃ s, dtUnconvert r (.dt d) = .ok (.str s) ∧ markupFree s = true ∧ s ≠ [] ∧
      dtConvert r' (.str s) = .ok (.dt d) := by
  obtain ⟨hv, htz, hms, hlo, hhi⟩ := hd
  have hmod := localUs_ms d hms
  have hoffU : utc.offUs = 0 := rfl
  have hname : ∀ n, utc.name = some n → '\n' ∉ n := by
    intro n hn; have : n = "UTC".toList := by simpa [utc] using hn.symm
    subst this; decide
  have hyear : us1000 ≤ localUs d + 500 ∧ localUs d + 500 < usEnd := by
    unfold us1000 usEnd at *; omega
  have hutc : minInstant ≤ roundMs (localUs d - utc.offUs) ∧ roundMs (localUs d - utc.offUs) < endInstant := by
    rw [hoffU]; unfold minInstant endInstant roundMs; unfold us1000 usEnd at *; omega
  obtain ⟨p, us, _, hun, _, _, htod, hpms, hpo, _⟩ :=
    C09_write r d utc hv htz (by decide) (by decide) hname hyear
  obtain ⟨text, v, hun', hc, hi, _⟩ :=
    C09_write_roundtrip Ofx.Generated.tzs r r' d utc hv htz (by decide) (by decide) hname hyear hutc
  have htext : text = p.render := by
    rw [hun] at hun'; injection hun' with h; injection h with h; exact h.symm
  subst htext
  have hpo' : p.off = some (canonOff 0 (some "UTC".toList)) := by rw [hpo]; rfl
  obtain ⟨hmf, hne⟩ := markupFree_render_utc p trivial htod hpms hpo'
  refine ⟨p.render, hun, hmf, hne, ?_⟩
  obtain ⟨x, rfl, hxv, hxtz, hxi⟩ := hi
  have hxl := dtInstantUs_local x utc hxv hxtz
  rw [hxl] at hxi
  injection hxi with hxi
  have hround : 1000 * roundMs (localUs d - utc.offUs) = localUs d := by
    rw [hoffU]; unfold roundMs; omega
  rw [hround, hoffU] at hxi
  have hinj := localUs_inj x d hxv hv (by omega)
  have : x = d := by
    cases x; cases d
    simp only at hinj hxtz htz
    obtain ⟨h1, h2, h3, h4, h5, h6, h7⟩ := hinj
    subst h1 h2 h3 h4 h5 h6 h7
    rw [hxtz, htz]
  rw [← this]
  exact hc

/-- UTC times at millisecond resolution -/
def tmUtcMs (t : TM) : Prop := tmValid t = true ∧ t.tz = some utc ∧ t.us % 1000 = 0

/-- **write, then read, a UTC millisecond time** -/
theorem tm_round_utc (r r' : Bool) (t : TM) (hd : tmUtcMs t) :
    ∃ s, tmUnconvert r (.tm t) = .ok (.str s) ∧ markupFree s = true ∧ s ≠ [] ∧
      tmConvert r' (.str s) = .ok (.tm t) := by
  obtain ⟨hv, htz, hms⟩ := hd
  have hoffU : utc.offUs = 0 := rfl
  have hname : ∀ n, utc.name = some n → '\n' ∉ n := by
    intro n hn; have : n = "UTC".toList := by simpa [utc] using hn.symm
    subst this; decide
  obtain ⟨p, hun, _, _, htod, hpms, hpo, _⟩ := C09_time_write r t utc hv htz (by decide) (by decide) hname
  obtain ⟨text, v, hun', hc, hi, _⟩ :=
    C09_time_write_roundtrip Ofx.Generated.tzs r r' t utc hv htz (by decide) (by decide) hname
  have htext : text = p.render := by
    rw [hun] at hun'; injection hun' with h; injection h with h; exact h.symm
  subst htext
  have hpo' : p.off = some (canonOff 0 (some "UTC".toList)) := by rw [hpo]; rfl
  obtain ⟨hmf, hne⟩ := markupFree_render_utc p trivial htod hpms hpo'
  refine ⟨p.render, hun, hmf, hne, ?_⟩
  obtain ⟨x, rfl, hxv, hxtz, hxi⟩ := hi
  rw [tmInstantUs_local x utc hxtz] at hxi
  injection hxi with hxi
  rw [hoffU] at hxi
  have hv' := hv
  simp only [tmValid, validTod, Bool.and_eq_true, decide_eq_true_eq] at hv' hxv
  obtain ⟨⟨⟨a1, a2⟩, a3⟩, a4⟩ := hv'
  obtain ⟨⟨⟨b1, b2⟩, b3⟩, b4⟩ := hxv
  unfold todUs roundMs at hxi
  have e : x.hour = t.hour ∧ x.minute = t.minute ∧ x.second = t.second ∧ x.us = t.us := by
    refine ⟨?_, ?_, ?_, ?_⟩ <;> omega
  have : x = t := by
    cases x; cases t
    simp only at e hxtz htz
    obtain ⟨h1, h2, h3, h4⟩ := e
    subst h1 h2 h3 h4
    rw [hxtz, htz]
  rw [← this]
  exact hc

end Ofx.DateTime

namespace Ofx.Types
open Ofx Ofx.Agg

/-! ### the domains -/

/-- values for which the wire pipeline (write, `_escape_cdata`, read) returns the value -/
def typesDom (enums : List (List Str)) : Kind → Bool → Val → Prop
  | .bool, _, v => ∃ b, v = .bool b
  | .string l st, _, v => ∃ s, v = .str s ∧ s ≠ [] ∧ fits l st s = true
  | .oneOf e, _, v => ∃ s valid, v = .str s ∧ enums[e]? = some valid ∧ s ∈ valid ∧ s ≠ [] ∧ markupFree s = true
  | .integer l, _, v => ∃ i, v = .int i ∧ intFits l i = true
  | .decimal none, _, v => ∃ neg c e, v = .dec (.fin neg c e) ∧ e ≤ 0
  | .decimal (some q), _, v => ∃ neg c, v = .dec (.fin neg c q) ∧ q ≤ 0 ∧ fitsPrec c = true
  | .datetime, _, v => ∃ d, v = .dt d ∧ Ofx.DateTime.dtUtcMs d
  | .time, _, v => ∃ t, v = .tm t ∧ Ofx.DateTime.tmUtcMs t
  | .listElem k ir, _, v => typesDom enums k ir v
  | _, _, _ => False

/-- values for which the direct `from_etree ∘ to_etree` returns the value: strings must be entity-free -/
def typesDomId (enums : List (List Str)) : Kind → Bool → Val → Prop
  | .bool, _, v => ∃ b, v = .bool b
  | .string l st, _, v => ∃ s, v = .str s ∧ s ≠ [] ∧ fits l st s = true ∧ entityFree s = true
  | .oneOf e, _, v => ∃ s valid, v = .str s ∧ enums[e]? = some valid ∧ s ∈ valid ∧ s ≠ []
  | .integer l, _, v => ∃ i, v = .int i ∧ intFits l i = true
  | .decimal none, _, v => ∃ neg c e, v = .dec (.fin neg c e) ∧ e ≤ 0
  | .decimal (some q), _, v => ∃ neg c, v = .dec (.fin neg c q) ∧ q ≤ 0 ∧ fitsPrec c = true
  | .datetime, _, v => ∃ d, v = .dt d ∧ Ofx.DateTime.dtUtcMs d
  | .time, _, v => ∃ t, v = .tm t ∧ Ofx.DateTime.tmUtcMs t
  | .listElem k ir, _, v => typesDomId enums k ir v
  | _, _, _ => False

/-- every branch of the domains is inhabited -/
example : typesDom [] .bool false (.bool true) := ⟨true, rfl⟩
example : typesDom [] (.string (some 12) true) true (.str "AT&T <&amp;>".toList) :=
  ⟨_, rfl, by decide, by decide⟩
example : typesDom [] (.string (some 2) false) false (.str "over-long, kept whole".toList) :=
  ⟨_, rfl, by decide, by decide⟩
example : typesDom [["CALL".toList, "PUT".toList]] (.oneOf 0) true (.str "PUT".toList) :=
  ⟨_, _, rfl, rfl, by decide, by decide, by decide⟩
example : typesDom [] (.integer (some 3)) false (.int (-999)) := ⟨_, rfl, by decide⟩
example : typesDom [] (.decimal none) false (.dec (.fin true 15065 (-2))) := ⟨_, _, _, rfl, by decide⟩
example : typesDom [] (.decimal (some (-2))) false (.dec (.fin false 0 (-2))) :=
  ⟨_, _, rfl, by decide, by decide⟩
example : typesDom [] (.listElem (.string (some 32) true) false) true (.str "a<b".toList) :=
  ⟨_, rfl, by decide, by decide⟩
example : typesDom [] .datetime false (.dt ⟨2024, 2, 29, 23, 59, 59, 999000, some Ofx.Spec.Instant.utc⟩) :=
  ⟨_, rfl, by unfold Ofx.DateTime.dtUtcMs; decide +kernel⟩
example : typesDom [] .time true (.tm ⟨23, 59, 59, 5000, some Ofx.Spec.Instant.utc⟩) :=
  ⟨_, rfl, by unfold Ofx.DateTime.tmUtcMs; decide +kernel⟩
example : typesDomId [] (.string none true) false (.str "AT&T; 100% <plain>".toList) :=
  ⟨_, rfl, by decide, by decide, by decide +kernel⟩

/-! ### the two laws -/

/-- an optional element accepts `None`, for every element kind (date-time and time included) -/
theorem typesConv_none_ok (enums : List (List Str)) (k : Kind) (hl : k.isList = false)
    (hu : k.isUnsupported = false) (hs : Kind.subTarget k = none) (he : Kind.enumOk enums k = true) :
    conv.convert enums k false .none = .ok .none := by
  cases k with
  | bool => rfl
  | string l st => rfl
  | oneOf e =>
    simp only [Kind.enumOk, decide_eq_true_eq] at he
    simp only [conv, convert]
    rw [List.getElem?_eq_getElem he]
    rfl
  | integer l => rfl
  | decimal q => rfl
  | datetime => exact (Ofx.DateTime.C09_none Ofx.Generated.tzs false).1
  | time => exact (Ofx.DateTime.C09_none Ofx.Generated.tzs false).2.2.1
  | listElem k ir => simp [Kind.isList] at hl
  | sub c => simp [Kind.subTarget] at hs
  | listAgg c => simp [Kind.isList] at hl
  | unsupported => simp [Kind.isUnsupported] at hu

/-- the round law through `_escape_cdata` -/
theorem typesConv_round_esc (enums : List (List Str)) (k : Kind) (r : Bool) (v : Val)
    (hd : typesDom enums k r v) (_hv : v ≠ .none) :
    ∃ s, conv.unconvert enums k r v = .ok (.str s) ∧ escapeCdata s ≠ [] ∧
      conv.convert enums k r (.str (escapeCdata s)) = .ok v := by
  induction k generalizing r with
  | bool =>
    obtain ⟨b, rfl⟩ := hd
    cases b
    · exact ⟨['N'], rfl, by decide, rfl⟩
    · exact ⟨['Y'], rfl, by decide, rfl⟩
  | string l st =>
    obtain ⟨s, rfl, hne, hf⟩ := hd
    refine ⟨s, ?_, escapeCdata_ne_nil s hne, ?_⟩
    · show stringUnconvert l st r (.str s) = _
      rw [C10_string_limits_write]; simp [hf]
    · show stringConvert l st r (.str (escapeCdata s)) = _
      rw [C10_string_limits_read l st r _ (escapeCdata_ne_nil s hne), unescape_escapeCdata]; simp [hf]
  | oneOf e =>
    obtain ⟨s, valid, rfl, he, hm, hne, hmf⟩ := hd
    have := C10_oneof_inv valid r s hm hne
    refine ⟨s, ?_, escapeCdata_ne_nil s hne, ?_⟩
    · simp only [conv, unconvert, he]; exact this.1
    · rw [escapeCdata_markupFree s hmf]; simp only [conv, convert, he]; exact this.2
  | integer l =>
    obtain ⟨i, rfl, hf⟩ := hd
    have := C10_integer_inv l r i hf
    have hmf := markupFree_pyStrInt i
    have hne : pyStrInt i ≠ [] := by
      unfold pyStrInt; split
      · simp
      · exact pyStrNat_ne_nil _
    exact ⟨_, this.1, escapeCdata_ne_nil _ hne, by rw [escapeCdata_markupFree _ hmf]; exact this.2⟩
  | decimal q =>
    cases q with
    | none =>
      obtain ⟨neg, c, e, rfl, he⟩ := hd
      have := C10_decimal_inv r neg c e he
      have hmf := markupFree_decFormatF neg c e
      have hne : decFormatF (.fin neg c e) ≠ [] := by
        intro h0
        have h2 := this.2
        rw [h0] at h2
        exact absurd h2 (by rw [show decimalConvert none r (.str []) = .error .decimal from rfl]; simp)
      exact ⟨_, this.1, escapeCdata_ne_nil _ hne, by rw [escapeCdata_markupFree _ hmf]; exact this.2⟩
    | some qe =>
      obtain ⟨neg, c, rfl, hq, hc⟩ := hd
      have := C10_decimal_inv_scaled qe hq r neg c hc
      have hmf := markupFree_decFormatF neg c qe
      have hne : decFormatF (.fin neg c qe) ≠ [] := by
        intro h0
        have h2 := this.2
        rw [h0] at h2
        exact absurd h2 (by rw [show decimalConvert (some qe) r (.str []) = .error .decimal from rfl]; simp)
      exact ⟨_, this.1, escapeCdata_ne_nil _ hne, by rw [escapeCdata_markupFree _ hmf]; exact this.2⟩
  | datetime =>
    obtain ⟨d, rfl, hdd⟩ := hd
    obtain ⟨s, hun, hmf, hne, hc⟩ := Ofx.DateTime.dt_round_utc r r d hdd
    exact ⟨s, hun, escapeCdata_ne_nil s hne, by rw [escapeCdata_markupFree s hmf]; exact hc⟩
  | time =>
    obtain ⟨t, rfl, hdt⟩ := hd
    obtain ⟨s, hun, hmf, hne, hc⟩ := Ofx.DateTime.tm_round_utc r r t hdt
    exact ⟨s, hun, escapeCdata_ne_nil s hne, by rw [escapeCdata_markupFree s hmf]; exact hc⟩
  | listElem k ir ih => exact ih ir hd
  | sub c => exact absurd hd (by simp [typesDom])
  | listAgg c => exact absurd hd (by simp [typesDom])
  | unsupported => exact absurd hd (by simp [typesDom])


/-- the round law for the direct path (`esc = id`) -/
theorem typesConv_round_id (enums : List (List Str)) (k : Kind) (r : Bool) (v : Val)
    (hd : typesDomId enums k r v) (_hv : v ≠ .none) :
    ∃ s, conv.unconvert enums k r v = .ok (.str s) ∧ id s ≠ [] ∧ conv.convert enums k r (.str (id s)) = .ok v := by
  induction k generalizing r with
  | bool =>
    obtain ⟨b, rfl⟩ := hd
    cases b
    · exact ⟨['N'], rfl, by decide, rfl⟩
    · exact ⟨['Y'], rfl, by decide, rfl⟩
  | string l st =>
    obtain ⟨s, rfl, hne, hf, hfree⟩ := hd
    have := C10_string_inv_partial l st r s hne hf hfree
    exact ⟨s, this.1, hne, this.2⟩
  | oneOf e =>
    obtain ⟨s, valid, rfl, he, hm, hne⟩ := hd
    have := C10_oneof_inv valid r s hm hne
    refine ⟨s, ?_, hne, ?_⟩
    · simp only [conv, unconvert, he]; exact this.1
    · simp only [conv, convert, he, id]; exact this.2
  | integer l =>
    obtain ⟨i, rfl, hf⟩ := hd
    have := C10_integer_inv l r i hf
    have hne : pyStrInt i ≠ [] := by
      unfold pyStrInt; split
      · simp
      · exact pyStrNat_ne_nil _
    exact ⟨_, this.1, hne, this.2⟩
  | decimal q =>
    cases q with
    | none =>
      obtain ⟨neg, c, e, rfl, he⟩ := hd
      have := C10_decimal_inv r neg c e he
      have hne : decFormatF (.fin neg c e) ≠ [] := by
        intro h0
        have h2 := this.2
        rw [h0] at h2
        exact absurd h2 (by rw [show decimalConvert none r (.str []) = .error .decimal from rfl]; simp)
      exact ⟨_, this.1, hne, this.2⟩
    | some qe =>
      obtain ⟨neg, c, rfl, hq, hc⟩ := hd
      have := C10_decimal_inv_scaled qe hq r neg c hc
      have hne : decFormatF (.fin neg c qe) ≠ [] := by
        intro h0
        have h2 := this.2
        rw [h0] at h2
        exact absurd h2 (by rw [show decimalConvert (some qe) r (.str []) = .error .decimal from rfl]; simp)
      exact ⟨_, this.1, hne, this.2⟩
  | datetime =>
    obtain ⟨d, rfl, hdd⟩ := hd
    obtain ⟨s, hun, _, hne, hc⟩ := Ofx.DateTime.dt_round_utc r r d hdd
    exact ⟨s, hun, hne, hc⟩
  | time =>
    obtain ⟨t, rfl, hdt⟩ := hd
    obtain ⟨s, hun, _, hne, hc⟩ := Ofx.DateTime.tm_round_utc r r t hdt
    exact ⟨s, hun, hne, hc⟩
  | listElem k ir ih => exact ih ir hd
  | sub c => exact absurd hd (by simp [typesDomId])
  | listAgg c => exact absurd hd (by simp [typesDomId])
  | unsupported => exact absurd hd (by simp [typesDomId])

/-- **the element converters satisfy the laws of the aggregate round trip through `_escape_cdata`** (the wire
    pipeline `parse ∘ serialize`), on `typesDom` -/
theorem typesConv_laws_esc (enums : List (List Str)) : ConvLaws conv enums escapeCdata (typesDom enums) where
  none_ok := typesConv_none_ok enums
  round := typesConv_round_esc enums

/-- **… and of the direct round trip `from_etree ∘ to_etree`** (`esc = id`), on `typesDomId` -/
theorem typesConv_laws_id (enums : List (List Str)) : ConvLaws conv enums id (typesDomId enums) where
  none_ok := typesConv_none_ok enums
  round := typesConv_round_id enums

end Ofx.Types
