/-
C03, type part, decimals — the deep version: on the whole lexical space `[+-]?[0-9]*[.,]?[0-9]*` (≥ 1 digit),
for every declared scale, `Decimal.convert` returns exactly the value `Spec.denoteDecimal` assigns, and refuses
(InvalidOperation) exactly when that value does not exist (more than 28 digits at the quantum).

* `ndigits_eq_numDigits`, `roundHalfEven_eq_nearestEven`, `quantize_eq_atQuantum` — the arithmetic
* `spanDigits_eq_takeWhile`, `digitsVal_map_digitOf`, `replace_comma`, `decParse_of_decChars` — the parser
* `decOfText_of_lex` — `Decimal(text)` with the comma fallback is sign / positional coefficient / −#fraction digits
* `convert_denotes_decimal` (+ `_denote`, `_cases`) — the converter
-/
import OfxProofs.Lemmas.Types
import OfxProofs.Lemmas.Dec

namespace Ofx
open Ofx.Spec

/-! ### arithmetic: digit count, half-even rounding, `quantize` -/

theorem natDigitsAux_length (fuel n : Nat) (acc : List Nat) :
    (natDigitsAux fuel n acc).length = numDigits.go fuel n acc.length := by
  induction fuel generalizing n acc with
  | zero => simp [natDigitsAux, numDigits.go]
  | succ f ih =>
    simp only [natDigitsAux, numDigits.go]
    split
    · simp
    · rw [ih]; simp

theorem ndigits_eq_numDigits (c : Nat) : ndigits c = numDigits c := by
  simpa [ndigits, natDigits, numDigits] using natDigitsAux_length (c + 1) c []

theorem roundHalfEven_eq_nearestEven (c k : Nat) : roundHalfEven c k = nearestEven c (10 ^ k) := by
  have hp : 0 < 10 ^ k := Nat.pow_pos (by decide)
  have hr : c - c / 10 ^ k * 10 ^ k = c % 10 ^ k := by
    have := Nat.div_add_mod c (10 ^ k)
    rw [Nat.mul_comm] at this
    omega
  have hlt : c % 10 ^ k < 10 ^ k := Nat.mod_lt _ hp
  unfold roundHalfEven nearestEven
  simp only [hr]
  generalize c / 10 ^ k = q at *
  generalize c % 10 ^ k = r at *
  generalize 10 ^ k = p at *
  by_cases h1 : 2 * r < p
  · have : ¬ (2 * r > p ∨ 2 * r = p ∧ q % 2 = 1) := by omega
    simp [h1, this]
  · by_cases h2 : 2 * r > p
    · simp [h1, h2]
    · have h3 : 2 * r = p := by omega
      by_cases h4 : q % 2 = 0
      · simp [h1, h2, h4]
      · have h5 : q % 2 = 1 := by omega
        simp [h3, h5]

theorem quantize_eq_atQuantum (neg : Bool) (c : Nat) (e qe : Int) :
    quantize (.fin neg c e) qe =
      (match atQuantum neg c e qe with | some d => .ok d | none => .error .decimal) := by
  unfold quantize atQuantum
  simp only [ndigits_eq_numDigits, roundHalfEven_eq_nearestEven, defaultPrec]
  by_cases hc : c = 0
  · simp [hc]
  · simp only [hc, if_false]
    by_cases h1 : e + (numDigits c : Int) - qe > ((28 : Nat) : Int)
    · have h1' : e + (numDigits c : Int) - qe > 28 := by simpa using h1
      simp [h1']
    · have h1' : ¬ (e + (numDigits c : Int) - qe > 28) := by simpa using h1
      simp only [h1, h1', if_false]
      split <;> (split <;> rfl)

/-! ### the parser on digit runs -/

theorem digitVal_of_not_isDigitC (c : Char) (h : isDigitC c = false) : digitVal c = none := by
  simp only [isDigitC, decide_eq_false_iff_not] at h
  simp [digitVal, h]

theorem spanDigits_eq_takeWhile (b : Str) :
    spanDigits b = ((b.takeWhile isDigitC).map digitOf, b.dropWhile isDigitC) := by
  induction b with
  | nil => rfl
  | cons c cs ih =>
    cases hc : isDigitC c
    · simp [spanDigits, digitVal_of_not_isDigitC c hc, List.takeWhile, List.dropWhile, hc]
    · simp [spanDigits, digitVal_of_isDigitC c hc, List.takeWhile, List.dropWhile, hc, ih]

theorem digitsVal_map_digitOf (l : Str) : digitsVal (l.map digitOf) = positional l := by
  induction l with
  | nil => rfl
  | cons c cs ih => simp [digitsVal_cons, positional, ih]

/-- characters of a decimal literal -/
def decChar (c : Char) : Bool := isDigitC c || c == '.' || c == ',' || c == '+' || c == '-'

theorem decChar_cases (c : Char) (h : decChar c = true) :
    (48 ≤ c.toNat ∧ c.toNat ≤ 57) ∨ c = '.' ∨ c = ',' ∨ c = '+' ∨ c = '-' := by
  simp only [decChar, Bool.or_eq_true, beq_iff_eq] at h
  rcases h with (((h | h) | h) | h) | h
  · exact Or.inl (isDigitC_bounds c h)
  all_goals simp [h]

theorem decChar_plainOk (c : Char) (h : decChar c = true) : plainOk c = true := by
  rcases decChar_cases c h with h | h | h | h | h
  · have h1 : c ≠ '_' := by intro e; subst e; simp at h
    simp only [plainOk, isSpace, pySpaceCodepoints, Bool.and_eq_true, bne_iff_ne, ne_eq, decide_eq_true_eq,
      Bool.not_eq_true', List.contains_eq_mem, List.mem_cons, List.not_mem_nil, or_false, decide_eq_false_iff_not]
    refine ⟨⟨⟨h1, by omega⟩, by omega⟩, by omega⟩
  all_goals (subst h; decide)

theorem decChar_lower (c : Char) (h : decChar c = true) : asciiLower c = c := by
  rcases decChar_cases c h with h | h | h | h | h
  · unfold asciiLower
    have : ¬ ('A' ≤ c ∧ c ≤ 'Z') := by
      intro ⟨h1, _⟩
      have : (65 : Nat) ≤ c.toNat := h1
      omega
    simp [this]
  all_goals (subst h; decide)

theorem takeSign_eq (s : Str) : takeSign s = (isNegative s, dropSign s) := by
  unfold takeSign isNegative dropSign
  split <;> simp_all

/-! ### shape of the lexical space -/

abbrev intDigits (s : Str) : Str := (dropSign s).takeWhile isDigitC
abbrev fracDigits (s : Str) : Str := ((dropSign s).dropWhile isDigitC).drop 1

theorem all_takeWhile (b : Str) : (b.takeWhile isDigitC).all isDigitC = true := by
  induction b with
  | nil => rfl
  | cons c cs ih =>
    cases hc : isDigitC c <;> simp [List.takeWhile, hc, ih]

theorem mem_takeWhile_digit (b : Str) (c : Char) (h : c ∈ b.takeWhile isDigitC) : isDigitC c = true :=
  List.all_eq_true.mp (all_takeWhile b) c h

/-- a body of the lexical space: digits, then nothing or one separator and digits; at least one digit -/
theorem lexBody_shape (b : Str) (h : lexDecimalBody b = true) :
    (b.dropWhile isDigitC = [] ∧ b.takeWhile isDigitC ≠ []) ∨
    (∃ fp, (b.dropWhile isDigitC = '.' :: fp ∨ b.dropWhile isDigitC = ',' :: fp) ∧ fp.all isDigitC = true ∧
      (b.takeWhile isDigitC ≠ [] ∨ fp ≠ [])) := by
  unfold lexDecimalBody at h
  cases hr : b.dropWhile isDigitC with
  | nil =>
    rw [hr] at h
    left
    simpa using h
  | cons c fp =>
    rw [hr] at h
    right
    simp only [Bool.and_eq_true, Bool.or_eq_true, decide_eq_true_eq, Bool.not_eq_true',
      List.isEmpty_eq_false_iff] at h
    refine ⟨fp, ?_, h.1.2, h.2⟩
    rcases h.1.1 with rfl | rfl
    · exact Or.inl rfl
    · exact Or.inr rfl

theorem mem_dropSign (s : Str) (c : Char) (h : c ∈ s) : c ∈ dropSign s ∨ c = '+' ∨ c = '-' := by
  unfold dropSign
  split
  · simp at h; rcases h with h | h
    · simp [h]
    · exact Or.inl h
  · simp at h; rcases h with h | h
    · simp [h]
    · exact Or.inl h
  · exact Or.inl h

theorem dropSign_sub (s : Str) (c : Char) (h : c ∈ dropSign s) : c ∈ s := by
  unfold dropSign at h
  split at h
  · simp [h]
  · simp [h]
  · exact h

theorem lexDecimal_decChars (s : Str) (h : lexDecimal s = true) : ∀ c ∈ s, decChar c = true := by
  intro c hc
  rcases mem_dropSign s c hc with hc | rfl | rfl
  · have hb := List.takeWhile_append_dropWhile (p := isDigitC) (l := dropSign s)
    rw [← hb] at hc
    rcases List.mem_append.mp hc with hc | hc
    · simp [decChar, mem_takeWhile_digit _ c hc]
    · rcases lexBody_shape _ h with ⟨h0, _⟩ | ⟨fp, hsep, hfp, _⟩
      · rw [h0] at hc; simp at hc
      · rcases hsep with hsep | hsep <;> rw [hsep] at hc <;> simp at hc <;> rcases hc with rfl | hc
        · decide
        · simp [decChar, List.all_eq_true.mp hfp c hc]
        · decide
        · simp [decChar, List.all_eq_true.mp hfp c hc]
  · decide
  · decide

/-! ### `Decimal(text)` on texts made of literal characters -/

theorem decParse_of_decChars (s : Str) (hall : ∀ c ∈ s, decChar c = true) :
    decParse s = decNumeric (isNegative s) (dropSign s) := by
  unfold decParse
  rw [decClean_plain s (fun c hc => decChar_plainOk c (hall c hc))]
  have hb : ∀ c ∈ dropSign s, decChar c = true := fun c hc => hall c (dropSign_sub s c hc)
  have hl : lower (dropSign s) = dropSign s := by
    unfold lower
    conv => rhs; rw [← List.map_id (dropSign s)]
    exact List.map_congr_left (fun c hc => decChar_lower c (hb c hc))
  simp only [decParseAscii, takeSign_eq, hl]
  have e1 : ¬ (dropSign s = "inf".toList ∨ dropSign s = "infinity".toList) := by
    intro h
    have : 'i' ∈ dropSign s := by rcases h with h | h <;> (rw [h]; decide)
    exact absurd (hb _ this) (by decide)
  simp only [e1, if_false]
  split
  · rename_i r h
    exact absurd (hb 'n' (by rw [h]; simp)) (by decide)
  · rename_i r h
    exact absurd (hb 's' (by rw [h]; simp)) (by decide)
  · rfl

theorem decNumeric_lex_point (neg : Bool) (b : Str) (h : lexDecimalBody b = true)
    (hnc : ∀ fp, b.dropWhile isDigitC ≠ ',' :: fp) :
    decNumeric neg b = some (.fin neg (positional (b.takeWhile isDigitC ++ (b.dropWhile isDigitC).drop 1))
      (-((((b.dropWhile isDigitC).drop 1).length : Nat) : Int))) := by
  unfold decNumeric
  simp only [spanDigits_eq_takeWhile]
  rcases lexBody_shape b h with ⟨h0, hne⟩ | ⟨fp, hsep, hfp, hne⟩
  · simp [h0, hne, digitsVal_map_digitOf]
  · rcases hsep with hsep | hsep
    · have hf := takeWhile_digits_all fp hfp
      have : ¬ (b.takeWhile isDigitC = [] ∧ fp = []) := by
        intro hh; rcases hne with h' | h'
        · exact h' hh.1
        · exact h' hh.2
      simp [hsep, hf.1, hf.2, this, ← List.map_append, digitsVal_map_digitOf]
    · exact absurd hsep (hnc fp)

theorem decNumeric_lex_comma (neg : Bool) (b fp : Str) (hr : b.dropWhile isDigitC = ',' :: fp) :
    decNumeric neg b = none := by
  unfold decNumeric
  simp [spanDigits_eq_takeWhile, hr]

/-! ### the comma fallback -/

/-- the separator-replacing map of `str.replace(",", ".")` -/
def commaToPoint (c : Char) : Char := if c = ',' then '.' else c

theorem replaceGo_comma (s : Str) : replaceGo [','] ['.'] 0 s = s.map commaToPoint := by
  induction s with
  | nil => rfl
  | cons c cs ih =>
    by_cases hc : c = ','
    · subst hc
      simp [replaceGo, ih, commaToPoint]
    · have : ([','] : Str).isPrefixOf (c :: cs) = false := by
        simp [List.isPrefixOf]; exact fun h => hc h.symm
      simp [replaceGo, this, ih, commaToPoint, hc]

theorem replace_comma (s : Str) : replace [','] ['.'] s = s.map commaToPoint := replaceGo_comma s


theorem commaToPoint_digit (c : Char) (h : isDigitC c = true) : commaToPoint c = c := by
  have : c ≠ ',' := by intro e; subst e; exact absurd h (by decide)
  simp [commaToPoint, this]

theorem map_commaToPoint_digits (l : Str) (h : l.all isDigitC = true) : l.map commaToPoint = l := by
  conv => rhs; rw [← List.map_id l]
  exact List.map_congr_left (fun c hc => commaToPoint_digit c (List.all_eq_true.mp h c hc))

theorem commaToPoint_not_sign (c : Char) (h1 : c ≠ '-') (h2 : c ≠ '+') :
    commaToPoint c ≠ '-' ∧ commaToPoint c ≠ '+' := by
  unfold commaToPoint
  split
  · exact ⟨by decide, by decide⟩
  · exact ⟨h1, h2⟩

theorem dropSign_other (c : Char) (r : Str) (h1 : c ≠ '-') (h2 : c ≠ '+') : dropSign (c :: r) = c :: r := by
  unfold dropSign
  split <;> simp_all

theorem isNegative_other (c : Char) (r : Str) (h1 : c ≠ '-') : isNegative (c :: r) = false := by
  unfold isNegative
  split <;> simp_all

/-- replacing the comma leaves the sign alone -/
theorem sign_map_commaToPoint (s : Str) :
    dropSign (s.map commaToPoint) = (dropSign s).map commaToPoint ∧
    isNegative (s.map commaToPoint) = isNegative s := by
  cases s with
  | nil => exact ⟨rfl, rfl⟩
  | cons c r =>
    by_cases h1 : c = '-'
    · subst h1; exact ⟨rfl, rfl⟩
    · by_cases h2 : c = '+'
      · subst h2; exact ⟨rfl, rfl⟩
      · have h := commaToPoint_not_sign c h1 h2
        simp only [List.map_cons]
        rw [dropSign_other _ _ h.1 h.2, dropSign_other _ _ h1 h2, isNegative_other _ _ h.1,
          isNegative_other _ _ h1]
        exact ⟨rfl, rfl⟩

theorem lexDecimalBody_point' (ip fp : Str) (hi : ip.all isDigitC = true) (hf : fp.all isDigitC = true)
    (hne : ip ≠ [] ∨ fp ≠ []) : lexDecimalBody (ip ++ '.' :: fp) = true := by
  unfold lexDecimalBody
  have := takeWhile_digits_stop ip fp '.' hi (by decide)
  simp only [this.1, this.2, hf]
  rcases hne with h | h <;> simp [h]

/-- a text of the lexical space written with a comma: after `replace(",", ".")` it is the same literal written
    with a point — same sign, same integer digits, same fraction digits -/
theorem comma_replaced (s fp : Str) (h : lexDecimal s = true)
    (hr : (dropSign s).dropWhile isDigitC = ',' :: fp) :
    lexDecimal (replace [','] ['.'] s) = true ∧
    isNegative (replace [','] ['.'] s) = isNegative s ∧
    (dropSign (replace [','] ['.'] s)).takeWhile isDigitC = (dropSign s).takeWhile isDigitC ∧
    (dropSign (replace [','] ['.'] s)).dropWhile isDigitC = '.' :: fp := by
  have hsg := sign_map_commaToPoint s
  have hip := all_takeWhile (dropSign s)
  have hshape := lexBody_shape _ h
  rw [hr] at hshape
  have hfp : fp.all isDigitC = true ∧ ((dropSign s).takeWhile isDigitC ≠ [] ∨ fp ≠ []) := by
    rcases hshape with ⟨h0, _⟩ | ⟨fp', hsep, hf, hne⟩
    · simp at h0
    · rcases hsep with hsep | hsep <;> simp at hsep
      subst hsep; exact ⟨hf, hne⟩
  have hb : (dropSign s).map commaToPoint = (dropSign s).takeWhile isDigitC ++ '.' :: fp := by
    conv => lhs; rw [← List.takeWhile_append_dropWhile (p := isDigitC) (l := dropSign s), hr]
    rw [List.map_append, List.map_cons, map_commaToPoint_digits _ hip, map_commaToPoint_digits _ hfp.1]
    rfl
  have hst := takeWhile_digits_stop ((dropSign s).takeWhile isDigitC) fp '.' hip (by decide)
  rw [replace_comma]
  refine ⟨?_, hsg.2, ?_, ?_⟩
  · unfold lexDecimal
    rw [hsg.1, hb]
    exact lexDecimalBody_point' _ _ hip hfp.1 hfp.2
  · rw [hsg.1, hb]; exact hst.1
  · rw [hsg.1, hb]; exact hst.2

/-! ### `Decimal(text)` on the lexical space -/

/-- written with a point (or without separator): the first `Decimal(text)` succeeds -/
theorem decParse_of_lex_point (s : Str) (h : lexDecimal s = true)
    (hnc : ∀ fp, (dropSign s).dropWhile isDigitC ≠ ',' :: fp) :
    decParse s = some (.fin (isNegative s) (positional (intDigits s ++ fracDigits s))
      (-((fracDigits s).length : Int))) := by
  rw [decParse_of_decChars s (lexDecimal_decChars s h)]
  exact decNumeric_lex_point _ _ h hnc

/-- written with a comma: the first `Decimal(text)` raises -/
theorem decParse_of_lex_comma (s fp : Str) (h : lexDecimal s = true)
    (hr : (dropSign s).dropWhile isDigitC = ',' :: fp) : decParse s = none := by
  rw [decParse_of_decChars s (lexDecimal_decChars s h)]
  exact decNumeric_lex_comma _ _ fp hr

/-- **`Decimal(text)` with the comma fallback**, for every text of the lexical space: the sign of the text, the
    digits read as one number, minus the number of fraction digits -/
theorem decOfTextRaw_of_lex (s : Str) (h : lexDecimal s = true) :
    Ofx.Types.decOfTextRaw s = .ok (.fin (isNegative s) (positional (intDigits s ++ fracDigits s))
      (-((fracDigits s).length : Int))) := by
  unfold Ofx.Types.decOfTextRaw
  by_cases hc : ∃ fp, (dropSign s).dropWhile isDigitC = ',' :: fp
  · obtain ⟨fp, hr⟩ := hc
    obtain ⟨hl', hn', hi', hd'⟩ := comma_replaced s fp h hr
    rw [decParse_of_lex_comma s fp h hr]
    have hnc' : ∀ fp', (dropSign (replace [','] ['.'] s)).dropWhile isDigitC ≠ ',' :: fp' := by
      intro fp' e; rw [hd'] at e; simp at e
    rw [decParse_of_lex_point _ hl' hnc']
    simp only [intDigits, fracDigits, hn', hi', hd', hr]
    rfl
  · have hnc : ∀ fp, (dropSign s).dropWhile isDigitC ≠ ',' :: fp := fun fp e => hc ⟨fp, e⟩
    rw [decParse_of_lex_point s h hnc]

theorem decOfText_of_lex (s : Str) (h : lexDecimal s = true) :
    Ofx.Types.decOfText s = .ok (.fin (isNegative s) (positional (intDigits s ++ fracDigits s))
      (-((fracDigits s).length : Int))) := by
  unfold Ofx.Types.decOfText
  rw [decOfTextRaw_of_lex s h]
  rfl

/-! ### the converter -/

/-- the value the decimal rule assigns, as the converter reports it (refusal = `decimal.InvalidOperation`) -/
def denoteDecResult (o : Option Dec) : PyM Val :=
  match o with
  | some d => .ok (.dec d)
  | none => .error .decimal

theorem denoteDecimal_of_lex (q : Option Int) (s : Str) (h : lexDecimal s = true) :
    denoteDecimal q s =
      (match q with
       | none => some (.fin (isNegative s) (positional (intDigits s ++ fracDigits s)) (-((fracDigits s).length : Int)))
       | some qe => atQuantum (isNegative s) (positional (intDigits s ++ fracDigits s))
          (-((fracDigits s).length : Int)) qe) := by
  unfold denoteDecimal
  rw [h]
  rfl

/-- **C03, type part, decimals**: for every text of the lexical space `[+-]?[0-9]*[.,]?[0-9]*` (≥ 1 digit; both
    separators, both signs or none), every declared scale (or none) and `required` flag, `Decimal.convert` returns
    exactly the value the OFX rule assigns, and raises `InvalidOperation` exactly when there is none -/
theorem convert_denotes_decimal (enums : List (List Str)) (q : Option Int) (r : Bool) (s : Str)
    (h : lexDecimal s = true) :
    Ofx.Types.convert enums (.decimal q) r (.str s) = denoteDecResult (denoteDecimal q s) := by
  rw [denoteDecimal_of_lex q s h]
  simp only [Ofx.Types.convert, Ofx.Types.decimalConvert, decOfText_of_lex s h, bind, Except.bind]
  cases q with
  | none => rfl
  | some qe =>
    simp only [Ofx.Types.applyScale, quantize_eq_atQuantum]
    cases atQuantum (isNegative s) (positional (intDigits s ++ fracDigits s)) (-((fracDigits s).length : Int)) qe <;> rfl

/-- the same, stated against `Spec.denote` (the denotation of an element text of kind `decimal`) -/
theorem convert_denotes_decimal_denote (ext : DenoteExt) (enums : List (List Str)) (q : Option Int) (r : Bool)
    (s : Str) (h : lexDecimal s = true) :
    Ofx.Types.convert enums (.decimal q) r (.str s) =
      (match denote ext enums (.decimal q) s with
       | some v => .ok v
       | none => .error .decimal) := by
  have hne : s ≠ [] := by intro e; subst e; exact absurd h (by decide)
  obtain ⟨c, cs, rfl⟩ := List.exists_cons_of_ne_nil hne
  rw [convert_denotes_decimal enums q r _ h]
  simp only [denote]
  cases denoteDecimal q (c :: cs) <;> rfl

/-- the same, split: value equality when the denotation exists, `InvalidOperation` when it does not -/
theorem convert_denotes_decimal_cases (enums : List (List Str)) (q : Option Int) (r : Bool) (s : Str)
    (h : lexDecimal s = true) :
    (∀ d, denoteDecimal q s = some d → Ofx.Types.convert enums (.decimal q) r (.str s) = .ok (.dec d)) ∧
    (denoteDecimal q s = none → Ofx.Types.convert enums (.decimal q) r (.str s) = .error .decimal) := by
  rw [convert_denotes_decimal enums q r s h]
  constructor
  · intro d hd; rw [hd]; rfl
  · intro hd; rw [hd]; rfl

/-- without a declared scale every text of the lexical space is converted (no refusal) -/
theorem convert_decimal_noscale_ok (enums : List (List Str)) (r : Bool) (s : Str) (h : lexDecimal s = true) :
    ∃ d, denoteDecimal none s = some d ∧ Ofx.Types.decOfText s = .ok d ∧
      Ofx.Types.convert enums (.decimal none) r (.str s) = .ok (.dec d) := by
  refine ⟨_, denoteDecimal_of_lex none s h, decOfText_of_lex s h, ?_⟩
  rw [convert_denotes_decimal enums none r s h, denoteDecimal_of_lex none s h]
  rfl

/-! ### the guard is satisfiable; worked values -/

example : lexDecimal "-1,50".toList = true := by decide
example : lexDecimal "+.5".toList = true := by decide
example : lexDecimal "5,".toList = true := by decide

example : Ofx.Types.decOfText "-1,50".toList = .ok (.fin true 150 (-2)) :=
  decOfText_of_lex "-1,50".toList (by decide)
example : Ofx.Types.decOfText "+.5".toList = .ok (.fin false 5 (-1)) :=
  decOfText_of_lex "+.5".toList (by decide)

/-- `-1,505` at scale 2: the tie `150.5` goes to the even neighbour -/
example : Ofx.Types.convert [] (.decimal (some (-2))) false (.str "-1,505".toList) = .ok (.dec (.fin true 150 (-2))) := by
  have hd : denoteDecimal (some (-2)) "-1,505".toList = some (.fin true 150 (-2)) := by decide
  rw [convert_denotes_decimal [] (some (-2)) false _ (by decide), hd]
  rfl

/-- the same value by evaluating the model alone -/
example : Ofx.Types.convert [] (.decimal (some (-2))) false (.str "-1,505".toList) = .ok (.dec (.fin true 150 (-2))) := rfl

/-- 29 significant digits at the quantum: refused -/
example : Ofx.Types.convert [] (.decimal (some (-2))) true (.str "123456789012345678901234567,5".toList)
    = .error .decimal := by
  have hd : denoteDecimal (some (-2)) "123456789012345678901234567,5".toList = none := by decide
  rw [convert_denotes_decimal [] (some (-2)) true _ (by decide), hd]
  rfl

end Ofx
