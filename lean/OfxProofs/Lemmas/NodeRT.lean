/-
The per-node round trip (`NodeOk` → `RT`) for plain aggregates, `ElementList`s and classes with a `groom` /
`ungroom` rename, and its lift to whole instances (`Valid` → `RT`).
-/
import OfxProofs.Lemmas.Groom
namespace Ofx.Agg
open Ofx

section
variable (S : Schema) (cv : Conv) (esc : Str → Str) (Dom : Kind → Bool → Val → Prop)

/-- what makes `agg ci fields items` a valid instance of class `c` (one level) -/
structure NodeOk (c : Cls) (ci : Nat) (fields : List (Str × Node)) (items : List Node) : Prop where
  hc : S.cls? ci = some c
  concrete : c.abstract = false
  hfind : S.findIdx? c.name = some ci
  wf : ClsWF S c
  gr : GroomOk c
  fm : FieldsMatch (FieldOk Dom) (specNoList c) fields
  /-- members of a plain aggregate: instances of its list classes -/
  itemsEx : c.elementList = false → ∀ m ∈ items, ∃ cj f i cjc, m = .agg cj f i ∧ S.cls? cj = some cjc ∧
    (listAggNames c).contains (lower cjc.name) = true ∧ '.' ∉ cjc.name
  /-- members of an `ElementList`: values of its list element's type -/
  elItems : c.elementList = true → ∀ a ∈ c.spec, ∀ inner ireq, a.kind = .listElem inner ireq →
    ∀ m ∈ items, ∃ x, m = .val x ∧ x ≠ .none ∧ Dom inner ireq x
  noList : c.spec.any (·.kind.isList) = false → items = []
  validate : validateArgs S c (rawItemsOf S cv esc c items) (rawKwOf S cv esc fields c.spec) = .ok ()

theorem specNoList_nodup (c : Cls) (h : (c.spec.map (·.name)).Nodup) :
    ((specNoList c).map (·.name)).Nodup := by
  unfold specNoList
  exact List.Nodup.sublist (List.Sublist.map _ List.filter_sublist) h

/-- the per-node context of the round trip (for the class without its rename hooks), from `NodeOk` and the
    induction hypotheses -/
theorem NodeOk.ctx {c : Cls} {ci : Nat} {fields : List (Str × Node)} {items : List Node}
    (ok : NodeOk S cv esc Dom c ci fields items) (laws : ConvLaws cv S.enums esc Dom)
    (ihF : ∀ n v, (n, v) ∈ fields → v.isAgg = true → RT S cv esc v)
    (ihI : ∀ m ∈ items, m.isAgg = true → RT S cv esc m) : RTCtx S cv esc Dom (noGroom c) fields items :=
  { wf := clsWF_noGroom S c ok.wf, hg := rfl, laws := laws
    fieldOk := fun a ha hl hu =>
      ok.fm.lookup (specNoList_nodup c ok.wf.nodup) a (by simp [specNoList]; exact ⟨ha, hl⟩) hu
    subRT := fun a _ v hv hagg => ihF a.name v (lookup_mem hv) hagg
    itemsOk := fun hel m hm => ⟨ok.itemsEx hel m hm, ihI m hm (by
      obtain ⟨cj, f, i, _, rfl, _⟩ := ok.itemsEx hel m hm; rfl)⟩
    elItems := ok.elItems }

theorem FieldsMatch.mem {P : Attr → Node → Prop} {L : List Attr} {fs : List (Str × Node)}
    (h : FieldsMatch P L fs) : ∀ n w, (n, w) ∈ fs → ∃ a ∈ L, a.name = n ∧ a.kind.isUnsupported = false ∧ P a w := by
  induction h with
  | nil => intro n w hm; simp at hm
  | unsup b L fs hb _ ih =>
    intro n w hm
    obtain ⟨a, ha, h1⟩ := ih n w hm
    exact ⟨a, by simp [ha], h1⟩
  | field b v L fs hb hp _ ih =>
    intro n w hm
    simp only [List.mem_cons, Prod.mk.injEq] at hm
    rcases hm with ⟨rfl, rfl⟩ | hm
    · exact ⟨b, by simp, rfl, hb, hp⟩
    · obtain ⟨a, ha, h1⟩ := ih n w hm
      exact ⟨a, by simp [ha], h1⟩

/-- what the rename needs to know about a written child: its tag lower-cases to an attribute name, and if that
    attribute is a non-repeated data element the child is a leaf whose wire text is non-empty -/
theorem NodeOk.child_facts {c : Cls} {ci : Nat} {fields : List (Str × Node)} {items : List Node}
    (ok : NodeOk S cv esc Dom c ci fields items) (laws : ConvLaws cv S.enums esc Dom) (ch : Tree)
    (hch : ChildOk S cv (noGroom c) fields items ch) :
    lower ch.tag ∈ c.spec.map (·.name) ∧
    (∀ a ∈ c.spec, a.name = lower ch.tag → a.kind.isList = false → Kind.subTarget a.kind = none →
      ∃ s, ch.text = some s ∧ esc s ≠ []) := by
  have hnd := ok.wf.nodup
  have hnd' := specNoList_nodup c hnd
  rcases hch with ⟨a', ha', x, s, hl, hu, hx, hv, hunc, rfl⟩ | ⟨v, hvmem, hagg, hvt⟩ |
    ⟨a', ha', inner, ireq, x, s, hel, hk, hxi, hx, hunc, rfl⟩
  · have ha'' : a' ∈ c.spec := ha'
    obtain ⟨hname, _⟩ := ok.wf.nameOk a' ha''
    refine ⟨by simp only [Tree.tag, hname]; exact List.mem_map_of_mem ha'', ?_⟩
    intro a _ _ _ _
    obtain ⟨w, hw, hfo⟩ := ok.fm.lookup hnd' a' (by simp [specNoList]; exact ⟨ha'', hl⟩) hu
    rw [hv] at hw; injection hw with hw; subst hw
    have hdom : Dom a'.kind a'.required x := by
      unfold FieldOk at hfo
      cases hst : Kind.subTarget a'.kind with
      | some t =>
        rw [hst] at hfo
        rcases hfo with ⟨h, _⟩ | ⟨f, i, h⟩
        · injection h with h; exact absurd h hx
        · cases h
      | none =>
        rw [hst] at hfo
        obtain ⟨y, hy, _, hd⟩ := hfo
        injection hy with hy; subst hy
        exact hd hx
    obtain ⟨s', hunc', hne, _⟩ := laws.round a'.kind a'.required x hdom hx
    rw [hunc] at hunc'; injection hunc' with h1; injection h1 with h1; subst h1
    exact ⟨s, rfl, hne⟩
  · cases v with
    | val y => simp [Node.isAgg] at hagg
    | agg cj f i =>
      rcases hvmem with ⟨n, hn⟩ | hi
      · -- a sub-aggregate field
        obtain ⟨a', ha', han, _, hfo⟩ := ok.fm.mem n _ hn
        have ha'' : a' ∈ c.spec := (List.mem_filter.mp ha').1
        unfold FieldOk at hfo
        cases hst : Kind.subTarget a'.kind with
        | none =>
          rw [hst] at hfo
          obtain ⟨y, hy, _⟩ := hfo
          cases hy
        | some t =>
          rw [hst] at hfo
          rcases hfo with ⟨h, _⟩ | ⟨f', i', h⟩
          · cases h
          · injection h with h1 h2 h3; subst h1; subst h2; subst h3
            have hkind : a'.kind = .sub cj := by cases hk : a'.kind <;> simp_all [Kind.subTarget]
            obtain ⟨tc, htc, hlow, _, _⟩ := ok.wf.subOk a' ha'' cj (Or.inl hkind)
            obtain ⟨htag, _⟩ := toEtree_shape S cv cj f i tc ch htc hvt
            refine ⟨by rw [htag, hlow]; exact List.mem_map_of_mem ha'', ?_⟩
            intro a ha hname _ hsub
            have : a = a' := nodup_map_inj hnd ha ha'' (by rw [hname, htag, hlow])
            subst this
            rw [hst] at hsub; cases hsub
      · -- a list member of a plain aggregate
        cases hel : c.elementList with
        | true =>
          obtain ⟨a0, inner, ireq, hfilt, hk0, _⟩ := ok.wf.elOk hel
          have ha0 : a0 ∈ c.spec := by
            have : a0 ∈ c.spec.filter (fun a => a.kind.isListElem) := by rw [hfilt]; simp
            exact (List.mem_filter.mp this).1
          obtain ⟨y, hy, _⟩ := ok.elItems hel a0 ha0 inner ireq hk0 _ hi
          cases hy
        | false =>
          obtain ⟨cj', f', i', cjc, heq, hcj, hin, _⟩ := ok.itemsEx hel _ hi
          injection heq with h1 h2 h3; subst h1; subst h2; subst h3
          obtain ⟨htag, _⟩ := toEtree_shape S cv cj f i cjc ch hcj hvt
          have hmem : lower cjc.name ∈ listAggNames c := by simpa using hin
          simp only [listAggNames, hel, Bool.false_eq_true, if_false, List.mem_map, List.mem_filter] at hmem
          obtain ⟨a', ⟨ha', hk'⟩, hname'⟩ := hmem
          refine ⟨by rw [htag, ← hname']; exact List.mem_map_of_mem ha', ?_⟩
          intro a ha hname hl _
          have : a = a' := nodup_map_inj hnd ha ha' (by rw [hname, htag, hname'])
          subst this
          have : a.kind.isList = true := by cases hkk : a.kind <;> simp_all [Kind.isListAgg, Kind.isList]
          rw [this] at hl; cases hl
  · have ha'' : a' ∈ c.spec := ha'
    obtain ⟨hname, _⟩ := ok.wf.nameOk a' ha''
    refine ⟨by simp only [Tree.tag, hname]; exact List.mem_map_of_mem ha'', ?_⟩
    intro a ha hn hl _
    simp only [Tree.tag, hname] at hn
    have : a = a' := nodup_map_inj hnd ha ha'' hn
    subst this
    rw [hk] at hl; simp [Kind.isList] at hl

theorem node_rt (laws : ConvLaws cv S.enums esc Dom) (c : Cls) (ci : Nat) (fields : List (Str × Node))
    (items : List Node) (ok : NodeOk S cv esc Dom c ci fields items)
    (ihF : ∀ n v, (n, v) ∈ fields → v.isAgg = true → RT S cv esc v)
    (ihI : ∀ m ∈ items, m.isAgg = true → RT S cv esc m) : RT S cv esc (.agg ci fields items) := by
  have hnd := specNoList_nodup c ok.wf.nodup
  have ctx : RTCtx S cv esc Dom (noGroom c) fields items := ok.ctx S cv esc Dom laws ihF ihI
  obtain ⟨ts, acc', hemit0, hfold, hkw, hargs, hch⟩ :=
    emit_fold S cv esc Dom (noGroom c) fields items ctx c.spec [] true Accum.init (by simp [noGroom])
      (by simp) (by intro k hk; simp [Accum.init, hasKey, lookup] at hk) (by simp [PrevOk, Accum.init])
  have hemit : emitSpec S cv c fields (fieldTrees S cv fields) items (itemTrees S cv items) c.spec true = .ok ts := by
    rw [← emitSpec_noGroom]; exact hemit0
  have hargs0 : acc'.args = Accum.init.args ++
      (if true && c.spec.any (·.kind.isList) then rawItemsOf S cv esc c items else []) := hargs
  have hkw0 : acc'.kwargs = Accum.init.kwargs ++ rawKwOf S cv esc fields c.spec := hkw
  have hargs' : acc'.args = rawItemsOf S cv esc c items := by
    simp only [Accum.init, List.nil_append, Bool.true_and] at hargs0
    rw [hargs0]
    cases hany : c.spec.any (·.kind.isList) with
    | true => simp
    | false => simp [ok.noList hany, rawItemsOf_nil]
  have hkw' : acc'.kwargs = rawKwOf S cv esc fields c.spec := by simpa [Accum.init] using hkw0
  -- reading the raw kwargs back
  have hfm2 : FieldsMatch (fun a v => FieldOk Dom a v ∧
      lookup a.name (rawKwOf S cv esc fields c.spec) = rawField S cv esc a v) (specNoList c) fields := by
    refine (ok.fm.withLookup hnd).imp ?_
    intro a ha v ⟨hfo, hu, hlk⟩
    refine ⟨hfo, ?_⟩
    have hmem : a ∈ c.spec ∧ a.kind.isList = false := by
      simpa [specNoList] using ha
    exact lookup_rawKwOf S cv esc fields c.spec ok.wf.nodup a hmem.1 hmem.2 hu v hlk
  have hset := setAttrs_rt S cv esc Dom laws (rawKwOf S cv esc fields c.spec) hfm2
    (fun a ha => by have : a ∈ c.spec ∧ a.kind.isList = false := by simpa [specNoList] using ha
                    exact ⟨this.2, ok.wf.enumOk a this.1⟩)
  have hitems : c.elementList = false → ∀ m ∈ items, ItemOk S cv esc c m :=
    fun hel m hm => ⟨(ctx.itemsOk hel m hm).ex, (ctx.itemsOk hel m hm).rt⟩
  have hconstruct : construct S cv ci (rawItemsOf S cv esc c items) (rawKwOf S cv esc fields c.spec) =
      .ok (.agg ci fields items) := by
    simp [construct, ok.hc, ok.validate, hset, applyArgs_rt S cv esc Dom laws c items ok.wf hitems ok.elItems,
      applyResidual_rt S cv esc c fields, bind, Except.bind, pure, Except.pure]
  rcases ok.gr with ⟨hg, hug⟩ | ⟨r, u, hg, hug, hinv1, hinv2, hdot, hsrc, a, ha, han, hal, hasub⟩
  · -- no rename hooks
    rw [noGroom_eq c hg hug] at hfold
    refine ⟨Tree.node c.name none none ts, ?_, ?_⟩
    · simp [toEtree, assemble, ok.hc, hemit, hug, bind, Except.bind, pure, Except.pure]
    · simp only [mapText, Option.map, fromEtree, convertNode, ok.hfind, ok.hc]
      by_cases hemp : (mapTextList esc ts).isEmpty = true
      · have hts : ts = [] := by
          cases ts with
          | nil => rfl
          | cons t ts => simp [mapTextList] at hemp
        subst hts
        simp only [mapTextList, childInsts, foldChildren] at hfold
        have : acc' = Accum.init := by simpa using hfold.symm
        subst this
        simp only [Accum.init] at hargs' hkw'
        simp only [hemp, if_true]
        rw [hargs', hkw']; exact hconstruct
      · simp only [hemp, Bool.false_eq_true, if_false, hfold, bind, Except.bind, hargs', hkw']
        exact hconstruct
  · -- a pair of inverse renames
    refine ⟨Tree.node c.name none none (renameFirst u ts), ?_, ?_⟩
    · simp [toEtree, assemble, ok.hc, hemit, hug, bind, Except.bind, pure, Except.pure]
    · simp only [mapText, Option.map, fromEtree, convertNode, ok.hfind, ok.hc]
      rw [mapTextList_renameFirst]
      -- the written children carry no tag of the rename's source, and the renamed one is a data element
      have hfacts : ∀ ch ∈ mapTextList esc ts, ch.tag ≠ r.fromTag ∧
          (ch.tag = u.fromTag → ∃ t0 tsx, ch.text = some (t0 :: tsx)) := by
        intro ch' hch'
        obtain ⟨ch, hmem, htag, htext⟩ : ∃ ch ∈ ts, ch'.tag = ch.tag ∧ ch'.text = ch.text.map esc := by
          clear hfold hemit hemit0 hch
          induction ts with
          | nil => simp [mapTextList] at hch'
          | cons t rest ih =>
            simp only [mapTextList, List.mem_cons] at hch'
            rcases hch' with rfl | h
            · exact ⟨t, by simp, mapText_tag esc t, mapText_text esc t⟩
            · obtain ⟨ch, hm, h1, h2⟩ := ih h
              exact ⟨ch, by simp [hm], h1, h2⟩
        obtain ⟨hin, hleaf⟩ := ok.child_facts S cv esc Dom laws ch (hch ch hmem)
        refine ⟨?_, ?_⟩
        · intro heq
          apply hsrc
          rw [← heq, htag]; exact hin
        · intro heq
          obtain ⟨s, hs, hne⟩ := hleaf a ha (by rw [han, ← heq, htag]) hal hasub
          rw [htext, hs]
          cases hes : esc s with
          | nil => exact absurd hes hne
          | cons t0 tsx => exact ⟨t0, tsx, by simp [hes]⟩
      obtain ⟨acc'', hfold', hsame⟩ := fold_groom S cv c r u hg hinv1 hinv2 hdot (mapTextList esc ts)
        Accum.init Accum.init acc' (SameBut.refl _) rfl (fun ch h => (hfacts ch h).1) (fun ch h => (hfacts ch h).2) hfold
      rw [renameFirst_isEmpty]
      by_cases hemp : (mapTextList esc ts).isEmpty = true
      · have hts : ts = [] := by
          cases ts with
          | nil => rfl
          | cons t ts => simp [mapTextList] at hemp
        subst hts
        simp only [mapTextList, childInsts, foldChildren] at hfold
        have : acc' = Accum.init := by simpa using hfold.symm
        subst this
        simp only [Accum.init] at hargs' hkw'
        simp only [hemp, if_true]
        rw [hargs', hkw']; exact hconstruct
      · simp only [hemp, Bool.false_eq_true, if_false, hfold', bind, Except.bind, hsame.1, hsame.2.1, hargs', hkw']
        exact hconstruct


end

section
variable (S : Schema) (cv : Conv) (esc : Str → Str) (Dom : Kind → Bool → Val → Prop)

mutual
  /-- a valid model instance, all the way down -/
  def Valid : Node → Prop
    | .val _ => False
    | .agg ci fields items =>
      (∃ c, NodeOk S cv esc Dom c ci fields items) ∧ ValidFields fields ∧ ValidItems items
  def ValidFields : List (Str × Node) → Prop
    | [] => True
    | (_, v) :: r => (v.isAgg = true → Valid v) ∧ ValidFields r
  def ValidItems : List Node → Prop
    | [] => True
    | v :: r => (v.isAgg = true → Valid v) ∧ ValidItems r
end

mutual
  theorem rt_node (laws : ConvLaws cv S.enums esc Dom) : ∀ n, Valid S cv esc Dom n → RT S cv esc n
    | .val _, h => by simp [Valid] at h
    | .agg ci fields items, h => by
      obtain ⟨⟨c, ok⟩, hf, hi⟩ := h
      exact node_rt S cv esc Dom laws c ci fields items ok
        (rt_fields laws fields hf) (rt_items laws items hi)
  theorem rt_fields (laws : ConvLaws cv S.enums esc Dom) :
      ∀ fs, ValidFields S cv esc Dom fs → ∀ n v, (n, v) ∈ fs → v.isAgg = true → RT S cv esc v
    | [], _, n, v, hm, _ => by simp at hm
    | (k, w) :: r, h, n, v, hm, hagg => by
      obtain ⟨hw, hr⟩ := h
      simp only [List.mem_cons, Prod.mk.injEq] at hm
      rcases hm with ⟨_, rfl⟩ | hm
      · exact rt_node laws v (hw hagg)
      · exact rt_fields laws r hr n v hm hagg
  theorem rt_items (laws : ConvLaws cv S.enums esc Dom) :
      ∀ is, ValidItems S cv esc Dom is → ∀ m ∈ is, m.isAgg = true → RT S cv esc m
    | [], _, m, hm, _ => by simp at hm
    | w :: r, h, m, hm, hagg => by
      obtain ⟨hw, hr⟩ := h
      simp only [List.mem_cons] at hm
      rcases hm with rfl | hm
      · exact rt_node laws m (hw hagg)
      · exact rt_items laws r hr m hm hagg
end


end

end Ofx.Agg
