/-
The tree `to_etree` writes for a valid instance satisfies the premises of the wire theorems
(`wireTree`, `htmlSafe`, `g3Ok`), given class/attribute names that are legal tags (`TagWF`, discharged
for the generated schema by kernel evaluation) and converters that write non-empty trimmed texts.
-/
import OfxProofs.Props.C01
import OfxProofs.Props.SerializeRenders
namespace Ofx.Pipeline
open Ofx Ofx.Agg Ofx.Spec.Wire Ofx.Serialize

mutual
  /-- everything the wire theorems ask of a written tree, as one recursive predicate -/
  def Good (he : List Str) : Tree → Bool
    | .node t x tl cs =>
      tagOk t && !isRaw (lower t) && !he.contains (lower t) && tl.isNone &&
      (match x with
       | some d => cs.isEmpty && !d.isEmpty && trimmedB d
       | none => true) &&
      (match cs.getLast? with | some c => Spec.leafTag c != some t | none => true) &&
      GoodList he cs
  def GoodList (he : List Str) : List Tree → Bool
    | [] => true
    | c :: cs => Good he c && GoodList he cs
end

theorem goodList_iff (he : List Str) : ∀ cs, GoodList he cs = true ↔ ∀ c ∈ cs, Good he c = true
  | [] => by simp [GoodList]
  | c :: cs => by simp [GoodList, goodList_iff he cs]

/-- `Good` implies the three premises of the wire theorems -/
theorem good_facts (he : List Str) : ∀ t, Good he t = true →
    parserShaped t = true ∧ tagsOk t = true ∧ (texts t).all (fun d => !d.isEmpty && trimmedB d) = true ∧
      htmlSafe he t = true ∧ g3Ok t = true := by
  intro t
  induction t using Tree.rec (motive_2 := fun cs => GoodList he cs = true →
      parserShapedList cs = true ∧ tagsOkList cs = true ∧
      (textsList cs).all (fun d => !d.isEmpty && trimmedB d) = true ∧ htmlSafeList he cs = true ∧
      g3OkList cs = true) with
  | node tag x tl cs ih =>
    intro h
    simp only [Good, Bool.and_eq_true] at h
    obtain ⟨⟨⟨⟨⟨⟨h1, h2⟩, h3⟩, h4⟩, h5⟩, h6⟩, h7⟩ := h
    obtain ⟨i1, i2, i3, i4, i5⟩ := ih h7
    cases x with
    | none =>
      refine ⟨?_, ?_, ?_, ?_, ?_⟩
      · simp [parserShaped, h4, i1]
      · simp [tagsOk, h1, i2]
      · simpa [texts] using i3
      · simp only [htmlSafe, h2, h3, i4, Bool.and_self]
      · simp only [g3Ok, i5, Bool.and_true]
        cases hl : cs.getLast? with
        | none => rfl
        | some c => simpa [hl] using h6
    | some d =>
      simp only [Bool.and_eq_true] at h5
      obtain ⟨⟨hc, hd1⟩, hd2⟩ := h5
      have hcs : cs = [] := by simpa using hc
      subst hcs
      refine ⟨?_, ?_, ?_, ?_, ?_⟩
      · simp [parserShaped, h4]
      · simp [tagsOk, h1, tagsOkList]
      · simp [texts, textsList, hd1, hd2]
      · simp only [htmlSafe, h2, h3, htmlSafeList, Bool.and_self]
      · simp [g3Ok, g3OkList]
  | nil => simp [parserShapedList, tagsOkList, textsList, htmlSafeList, g3OkList]
  | cons c cs ih1 ih2 =>
    rename_i h
    simp only [GoodList, Bool.and_eq_true] at h
    obtain ⟨a1, a2, a3, a4, a5⟩ := ih1 h.1
    obtain ⟨b1, b2, b3, b4, b5⟩ := ih2 h.2
    refine ⟨?_, ?_, ?_, ?_, ?_⟩
    · simp [parserShapedList, a1, b1]
    · simp [tagsOkList, a2, b2]
    · simp only [textsList, List.all_append, a3, b3, Bool.and_self]
    · simp [htmlSafeList, a4, b4]
    · simp [g3OkList, a5, b5]

theorem good_wire (he : List Str) (t : Tree) (h : Good he t = true) :
    wireTree t = true ∧ htmlSafe he t = true ∧ g3Ok t = true := by
  obtain ⟨h1, h2, h3, h4, h5⟩ := good_facts he t h
  exact ⟨by simp [wireTree, h1, h2, h3], h4, h5⟩


section
variable (S : Schema) (cv : Conv) (esc : Str → Str) (Dom : Kind → Bool → Val → Prop) (he : List Str)

/-- class and attribute names are legal, HTML-harmless tags, and no element attribute upper-cases into
    its own class's name -/
structure TagWF (c : Cls) : Prop where
  clsTag : tagOk c.name = true ∧ isRaw (lower c.name) = false ∧ he.contains (lower c.name) = false
  attrTag : ∀ a ∈ c.spec, tagOk (upper a.name) = true ∧ isRaw (lower (upper a.name)) = false ∧
    he.contains (lower (upper a.name)) = false ∧ upper a.name ≠ c.name
  ungroomTag : ∀ u, c.ungroom = some u → tagOk u.toTag = true ∧ isRaw (lower u.toTag) = false ∧
    he.contains (lower u.toTag) = false ∧ u.toTag ≠ c.name

/-- the converters write non-empty, trimmed texts on the domain -/
def TextOk : Prop :=
  ∀ k r v s, Dom k r v → cv.unconvert S.enums k r v = .ok (.str s) → s ≠ [] ∧ trimmedB s = true

/-- the children `to_etree` ends up with: the emitted ones after the `ungroom` rename -/
def ungroomed (c : Cls) (ts : List Tree) : List Tree :=
  match c.ungroom with
  | some u => renameFirst u ts
  | none => ts

/-- the written form of one node, with its (pre-rename) children described -/
theorem node_written (laws : ConvLaws cv S.enums esc Dom) (c : Cls) (ci : Nat) (fields : List (Str × Node))
    (items : List Node) (ok : NodeOk S cv esc Dom c ci fields items)
    (ihF : ∀ n v, (n, v) ∈ fields → v.isAgg = true → RT S cv esc v)
    (ihI : ∀ m ∈ items, m.isAgg = true → RT S cv esc m) :
    ∃ ts, toEtree S cv (.agg ci fields items) = .ok (Tree.node c.name none none (ungroomed c ts)) ∧
      ∀ ch ∈ ts, ChildOk S cv (noGroom c) fields items ch := by
  have ctx : RTCtx S cv esc Dom (noGroom c) fields items := ok.ctx S cv esc Dom laws ihF ihI
  obtain ⟨ts, acc', hemit0, _, _, _, hch⟩ :=
    emit_fold S cv esc Dom (noGroom c) fields items ctx c.spec [] true Accum.init (by simp [noGroom])
      (by simp) (by intro k hk; simp [Accum.init, hasKey, lookup] at hk) (by simp [PrevOk, Accum.init])
  have hemit : emitSpec S cv c fields (fieldTrees S cv fields) items (itemTrees S cv items) c.spec true = .ok ts := by
    rw [← emitSpec_noGroom]; exact hemit0
  refine ⟨ts, ?_, hch⟩
  cases hu : c.ungroom <;>
    simp [toEtree, assemble, ok.hc, hemit, hu, ungroomed, bind, Except.bind, pure, Except.pure]

theorem mem_renameFirst (u : Rename) : ∀ (L : List Tree) (ch : Tree), ch ∈ renameFirst u L →
    ch ∈ L ∨ ∃ x tl cs, Tree.node u.fromTag x tl cs ∈ L ∧ ch = Tree.node u.toTag x tl cs
  | [], ch, h => by simp [renameFirst] at h
  | .node t x tl cs :: rest, ch, h => by
    by_cases ht : t = u.fromTag
    · simp only [renameFirst, ht, if_true, List.mem_cons] at h
      rcases h with rfl | h
      · exact Or.inr ⟨x, tl, cs, by simp [ht], rfl⟩
      · exact Or.inl (by simp [h])
    · simp only [renameFirst, ht, if_false, List.mem_cons] at h
      rcases h with rfl | h
      · exact Or.inl (by simp)
      · rcases mem_renameFirst u rest ch h with h1 | ⟨x', tl', cs', h1, h2⟩
        · exact Or.inl (by simp [h1])
        · exact Or.inr ⟨x', tl', cs', by simp [h1], h2⟩

theorem leafTag_agg (tag : Str) (tl : Option Str) (cs : List Tree) : Spec.leafTag (.node tag none tl cs) = none := rfl

theorem getLast?_mem {α} : ∀ {l : List α} {a : α}, l.getLast? = some a → a ∈ l
  | [], _, h => by simp at h
  | [x], a, h => by simp at h; subst h; simp
  | x :: y :: r, a, h => by
    have : (x :: y :: r).getLast? = (y :: r).getLast? := by simp [List.getLast?_cons_cons]
    rw [this] at h
    exact List.mem_cons_of_mem _ (getLast?_mem h)

/-- one node: if every child is `Good`, the written node is -/
theorem node_good (laws : ConvLaws cv S.enums esc Dom) (htext : TextOk S cv Dom)
    (c : Cls) (ci : Nat) (fields : List (Str × Node)) (items : List Node)
    (ok : NodeOk S cv esc Dom c ci fields items) (htag : TagWF he c)
    (ihF : ∀ n v, (n, v) ∈ fields → v.isAgg = true → RT S cv esc v)
    (ihI : ∀ m ∈ items, m.isAgg = true → RT S cv esc m)
    (gF : ∀ n v t, (n, v) ∈ fields → v.isAgg = true → toEtree S cv v = .ok t → Good he t = true)
    (gI : ∀ m t, m ∈ items → toEtree S cv m = .ok t → Good he t = true) :
    ∀ t, toEtree S cv (.agg ci fields items) = .ok t → Good he t = true := by
  intro t ht
  obtain ⟨ts, hts, hch⟩ := node_written S cv esc Dom laws c ci fields items ok ihF ihI
  rw [hts] at ht; injection ht with ht; subst ht
  have hnd := specNoList_nodup c ok.wf.nodup
  -- every (pre-rename) child is Good, and a leaf child's tag differs from the class name
  have hchild0 : ∀ ch ∈ ts, Good he ch = true ∧ Spec.leafTag ch ≠ some c.name := by
    intro ch hmem
    rcases hch ch hmem with ⟨a, ha, x, s, hl, hu, hx, hv, hunc, rfl⟩ | ⟨v, hvmem, hagg, hvt⟩ |
      ⟨a, ha, inner, ireq, x, s, hel, hk, hxi, hx, hunc, rfl⟩
    · have ha : a ∈ c.spec := ha
      obtain ⟨t1, t2, t3, t4⟩ := htag.attrTag a ha
      obtain ⟨w, hw, hfo⟩ := ok.fm.lookup hnd a (by simp [specNoList]; exact ⟨ha, hl⟩) hu
      rw [hv] at hw; injection hw with hw; subst hw
      have hdom : Dom a.kind a.required x := by
        unfold FieldOk at hfo
        cases hst : Kind.subTarget a.kind with
        | some t =>
          rw [hst] at hfo
          rcases hfo with ⟨h, _⟩ | ⟨f, i, h⟩
          · injection h with h; exact absurd h hx
          · cases h
        | none =>
          rw [hst] at hfo
          obtain ⟨y, hy, _, hd⟩ := hfo
          injection hy with hy; subst hy
          exact hd hx
      obtain ⟨hs1, hs2⟩ := htext a.kind a.required x s hdom hunc
      refine ⟨?_, ?_⟩
      · have hne : s.isEmpty = false := by cases s <;> simp_all
        have t3' : lower (upper a.name) ∉ he := by simpa using t3
        simp [Good, GoodList, t1, t2, t3', hne, hs2, Spec.leafTag]
      · simp only [Spec.leafTag]
        intro h; injection h with h; exact t4 h
    · cases v with
      | val x => simp [Node.isAgg] at hagg
      | agg cj f i =>
        have hgood : Good he ch = true := by
          rcases hvmem with ⟨n, hn⟩ | hi
          · exact gF n _ ch hn rfl hvt
          · exact gI _ ch hi hvt
        refine ⟨hgood, ?_⟩
        -- a written aggregate carries no text
        have hrt : RT S cv esc (.agg cj f i) := by
          rcases hvmem with ⟨n, hn⟩ | hi
          · exact ihF n _ hn rfl
          · exact ihI _ hi rfl
        -- its root has text none by the shape of `assemble`
        have : ch.text = none := by
          simp only [toEtree, assemble] at hvt
          cases hcj : S.cls? cj with
          | none => simp [hcj] at hvt
          | some cc => exact (toEtree_shape S cv cj f i cc ch hcj (by simp [toEtree, assemble, hcj]; simpa [hcj] using hvt)).2
        cases ch with
        | node tg tx tl cs =>
          simp only [Tree.text] at this; subst this
          simp [Spec.leafTag]
    · -- a member of an `ElementList`: a leaf under the list element's tag
      obtain ⟨t1, t2, t3, t4⟩ := htag.attrTag a ha
      obtain ⟨y, hy, _, hdom⟩ := ok.elItems hel a ha inner ireq hk _ hxi
      injection hy with hy; subst hy
      obtain ⟨hs1, hs2⟩ := htext inner ireq x s hdom hunc
      refine ⟨?_, ?_⟩
      · have hne : s.isEmpty = false := by cases s <;> simp_all
        have t3' : lower (upper a.name) ∉ he := by simpa using t3
        simp [Good, GoodList, t1, t2, t3', hne, hs2, Spec.leafTag]
      · simp only [Spec.leafTag]
        intro h; injection h with h; exact t4 h
  -- … and so is every child after the rename
  have hchild : ∀ ch ∈ ungroomed c ts, Good he ch = true ∧ Spec.leafTag ch ≠ some c.name := by
    rcases ok.gr with ⟨_, hug⟩ | ⟨r, u, hg, hug, hinv1, hinv2, hdot, hsrc, a, ha, han, hal, hasub⟩
    · simp only [ungroomed, hug]; exact hchild0
    · simp only [ungroomed, hug]
      intro ch' hmem
      rcases mem_renameFirst u ts ch' hmem with h0 | ⟨x, tl, cs, h0, rfl⟩
      · exact hchild0 ch' h0
      · obtain ⟨g0, _⟩ := hchild0 _ h0
        obtain ⟨_, hleaf⟩ := ok.child_facts S cv esc Dom laws _ (hch _ h0)
        obtain ⟨s, hs, _⟩ := hleaf a ha (by simp [Tree.tag, han]) hal hasub
        simp only [Tree.text] at hs; subst hs
        obtain ⟨u1, u2, u3, u4⟩ := htag.ungroomTag u hug
        simp only [Good, Bool.and_eq_true] at g0
        obtain ⟨⟨⟨⟨⟨⟨_, _⟩, _⟩, g4⟩, g5⟩, _⟩, g7⟩ := g0
        have hcs : cs = [] := by simpa using g5.1.1
        subst hcs
        have u3' : lower u.toTag ∉ he := by simpa using u3
        refine ⟨?_, ?_⟩
        · simp only [Good, Bool.and_eq_true]
          refine ⟨⟨⟨⟨⟨⟨u1, by simp [u2]⟩, by simp [u3']⟩, g4⟩, g5⟩, by simp⟩, g7⟩
        · simp only [Spec.leafTag]
          intro h; injection h with h; exact u4 h
  obtain ⟨h1, h2, h3⟩ := htag.clsTag
  simp only [Good, h1, h2, h3, Bool.not_false, Bool.and_self, Option.isNone_none, Bool.true_and]
  rw [Bool.and_eq_true]
  constructor
  · cases hl : (ungroomed c ts).getLast? with
    | none => rfl
    | some last =>
      have := (hchild last (getLast?_mem hl)).2
      simp only [bne_iff_ne, ne_eq]
      exact this
  · rw [goodList_iff]; exact fun ch hm => (hchild ch hm).1

mutual
  theorem good_node (laws : ConvLaws cv S.enums esc Dom) (htext : TextOk S cv Dom)
      (htag : ∀ ci c, S.cls? ci = some c → c.abstract = false → TagWF he c) :
      ∀ n, Valid S cv esc Dom n → ∀ t, toEtree S cv n = .ok t → Good he t = true
    | .val _, h, _, _ => by simp [Valid] at h
    | .agg ci fields items, h, t, ht => by
      obtain ⟨⟨c, ok⟩, hf, hi⟩ := h
      exact node_good S cv esc Dom he laws htext c ci fields items ok (htag ci c ok.hc ok.concrete)
        (rt_fields S cv esc Dom laws fields hf) (rt_items S cv esc Dom laws items hi)
        (good_fields laws htext htag fields hf) (good_items laws htext htag items hi) t ht
  theorem good_fields (laws : ConvLaws cv S.enums esc Dom) (htext : TextOk S cv Dom)
      (htag : ∀ ci c, S.cls? ci = some c → c.abstract = false → TagWF he c) :
      ∀ fs, ValidFields S cv esc Dom fs → ∀ n v t, (n, v) ∈ fs → v.isAgg = true →
        toEtree S cv v = .ok t → Good he t = true
    | [], _, n, v, t, hm, _, _ => by simp at hm
    | (k, w) :: r, h, n, v, t, hm, hagg, ht => by
      obtain ⟨hw, hr⟩ := h
      simp only [List.mem_cons, Prod.mk.injEq] at hm
      rcases hm with ⟨_, rfl⟩ | hm
      · exact good_node laws htext htag v (hw hagg) t ht
      · exact good_fields laws htext htag r hr n v t hm hagg ht
  theorem good_items (laws : ConvLaws cv S.enums esc Dom) (htext : TextOk S cv Dom)
      (htag : ∀ ci c, S.cls? ci = some c → c.abstract = false → TagWF he c) :
      ∀ is, ValidItems S cv esc Dom is → ∀ m t, m ∈ is → toEtree S cv m = .ok t → Good he t = true
    | [], _, m, t, hm, _ => by simp at hm
    | w :: r, h, m, t, hm, ht => by
      obtain ⟨hw, hr⟩ := h
      simp only [List.mem_cons] at hm
      rcases hm with rfl | hm
      · cases m with
        | val x => simp [toEtree] at ht
        | agg cj f i => exact good_node laws htext htag _ (hw rfl) t ht
      · exact good_items laws htext htag r hr m t hm ht
end

/-- the tree written for a valid instance satisfies the premises of the wire theorems -/
theorem written_wire (laws : ConvLaws cv S.enums esc Dom) (htext : TextOk S cv Dom)
    (htag : ∀ ci c, S.cls? ci = some c → c.abstract = false → TagWF he c) (i : Node) (hv : Valid S cv esc Dom i) (t : Tree)
    (ht : toEtree S cv i = .ok t) : wireTree t = true ∧ htmlSafe he t = true ∧ g3Ok t = true :=
  good_wire he t (good_node S cv esc Dom he laws htext htag i hv t ht)

end

/-- `TagWF` in decidable form, for the generated schema -/
def tagWFb (he : List Str) (c : Cls) : Bool :=
  tagOk c.name && !isRaw (lower c.name) && !he.contains (lower c.name) &&
  c.spec.all (fun a => tagOk (upper a.name) && !isRaw (lower (upper a.name)) &&
    !he.contains (lower (upper a.name)) && upper a.name != c.name) &&
  (match c.ungroom with
   | some u => tagOk u.toTag && !isRaw (lower u.toTag) && !he.contains (lower u.toTag) && u.toTag != c.name
   | none => true)

theorem tagWFb_tagWF (he : List Str) (c : Cls) (h : tagWFb he c = true) : TagWF he c := by
  simp only [tagWFb, Bool.and_eq_true, Bool.not_eq_true', List.all_eq_true, bne_iff_ne, ne_eq] at h
  obtain ⟨⟨⟨⟨h1, h2⟩, h3⟩, h4⟩, h5⟩ := h
  refine ⟨⟨h1, h2, h3⟩, fun a ha => ?_, fun u hu => ?_⟩
  · obtain ⟨⟨⟨a1, a2⟩, a3⟩, a4⟩ := h4 a ha
    exact ⟨a1, a2, a3, a4⟩
  · rw [hu] at h5
    simp only [Bool.and_eq_true, Bool.not_eq_true', bne_iff_ne, ne_eq] at h5
    obtain ⟨⟨⟨b1, b2⟩, b3⟩, b4⟩ := h5
    exact ⟨b1, b2, b3, b4⟩

end Ofx.Pipeline
