/-
Bridge from the serializer layer's `Rendering` (OfxModel/Spec/Wire.lean) to the parser layer's wire grammar
`Ofx.Spec.Renders false` (OfxModel/Spec/Renders.lean): constructor for constructor the same relation, minus CDATA.
-/
import OfxProofs.Lemmas.Serialize
import OfxModel.Spec.Renders

namespace Ofx.Serialize
open Ofx Ofx.Spec.Wire

theorem isTagChar_eq_isNameChar : isTagChar = Ofx.Lexer.isNameChar := rfl

theorem tagOk_eq (t : Str) : Spec.Wire.tagOk t = Spec.tagOk t := by
  simp [Spec.Wire.tagOk, Spec.tagOk, isTagChar_eq_isNameChar]

theorem ws_bridge {w : Str} (h : Ws w) : Spec.ws w = true := by
  simp only [Spec.ws, List.all_eq_true]
  exact h

theorem startTag_bridge (t : Str) : Spec.Wire.startTag t = Spec.startTag t := rfl
theorem endTag_bridge (t : Str) : Spec.Wire.endTag t = Spec.endTag t := rfl

theorem dataOk_bridge {d : Str} (h : DataWF d) : Spec.dataOk d = true := by
  obtain ⟨h1, h2, h3⟩ := h
  have ht : Spec.trimmed d = true := trimmedB_iff.2 h2
  simp only [Spec.dataOk, Bool.and_eq_true, List.all_eq_true, ht, and_true]
  refine ⟨?_, ?_⟩
  · cases d with
    | nil => exact absurd rfl h1
    | cons _ _ => rfl
  · intro c hc
    simp only [Ofx.Lexer.notLt, bne_iff_ne, ne_eq]
    rintro rfl
    exact h3 hc

mutual
  theorem rendering_renders : ∀ {t : Tree} {s : Str}, Rendering t s → Spec.Renders false t s
    | _, _, .leafOpen t d w₁ h1 h2 h3 =>
      Spec.Renders.leafOpen t d w₁ ((tagOk_eq t).symm.trans h1) (dataOk_bridge h2) (ws_bridge h3)
    | _, _, .leafClosed t d w₁ w₂ h1 h2 h3 h4 =>
      Spec.Renders.leafClosed t d w₁ w₂ ((tagOk_eq t).symm.trans h1) (dataOk_bridge h2) (ws_bridge h3) (ws_bridge h4)
    | _, _, .agg t cs w s h1 h2 h3 =>
      Spec.Renders.agg t w cs s ((tagOk_eq t).symm.trans h1) (ws_bridge h2) (renderingList_renders h3)
        (fun h => Bool.noConfusion h)
  theorem renderingList_renders : ∀ {cs : List Tree} {s : Str}, RenderingList cs s → Spec.RendersList false cs s
    | _, _, .nil => Spec.RendersList.nil
    | _, _, .cons c cs s w ss h1 h2 h3 =>
      Spec.RendersList.cons c cs s w ss (rendering_renders h1) (ws_bridge h2) (renderingList_renders h3)
end

mutual
  /-- guard G3 of the strict grammar as a predicate of the tree: the last child of an aggregate is not a data
      element bearing the aggregate's own tag -/
  def g3Ok : Tree → Bool
    | .node t _ _ cs =>
      (match cs.getLast? with | some c => Spec.leafTag c != some t | none => true) && g3OkList cs
  def g3OkList : List Tree → Bool
    | [] => true
    | c :: cs => g3Ok c && g3OkList cs
end

mutual
  /-- the serializers write no CDATA, so of the strict grammar's side conditions only G3 remains -/
  theorem rendering_renders_strict : ∀ {t : Tree} {s : Str}, Rendering t s → g3Ok t = true → Spec.Renders true t s
    | _, _, .leafOpen t d w₁ h1 h2 h3, _ =>
      Spec.Renders.leafOpen t d w₁ ((tagOk_eq t).symm.trans h1) (dataOk_bridge h2) (ws_bridge h3)
    | _, _, .leafClosed t d w₁ w₂ h1 h2 h3 h4, _ =>
      Spec.Renders.leafClosed t d w₁ w₂ ((tagOk_eq t).symm.trans h1) (dataOk_bridge h2) (ws_bridge h3) (ws_bridge h4)
    | _, _, .agg t cs w s h1 h2 h3, hg => by
      simp only [g3Ok, Bool.and_eq_true] at hg
      refine Spec.Renders.agg t w cs s ((tagOk_eq t).symm.trans h1) (ws_bridge h2)
        (renderingList_renders_strict h3 hg.2) (fun _ c hc => ?_)
      have := hg.1
      rw [hc] at this
      simpa using this
  theorem renderingList_renders_strict :
      ∀ {cs : List Tree} {s : Str}, RenderingList cs s → g3OkList cs = true → Spec.RendersList true cs s
    | _, _, .nil, _ => Spec.RendersList.nil
    | _, _, .cons c cs s w ss h1 h2 h3, hg => by
      simp only [g3OkList, Bool.and_eq_true] at hg
      exact Spec.RendersList.cons c cs s w ss (rendering_renders_strict h1 hg.1) (ws_bridge h2)
        (renderingList_renders_strict h3 hg.2)
end

theorem renderingDoc_rendersDoc_strict {t : Tree} {s : Str} (h : RenderingDoc t s) (hg : g3Ok t = true) :
    Spec.RendersDoc true t s := by
  obtain ⟨r, w, hr, hw, e⟩ := h
  exact ⟨[], r, w, rfl, ws_bridge hw, rendering_renders_strict hr hg, by simpa using e⟩

/-- what the serializer theorems establish is a document of the parser's grammar -/
theorem renderingDoc_rendersDoc {t : Tree} {s : Str} (h : RenderingDoc t s) : Spec.RendersDoc false t s := by
  obtain ⟨r, w, hr, hw, e⟩ := h
  exact ⟨[], r, w, rfl, ws_bridge hw, rendering_renders hr, by simpa using e⟩

theorem escapeTreeList_eq_map (cs : List Tree) : escapeTreeList cs = cs.map escapeTree := by
  induction cs with
  | nil => rfl
  | cons c cs ih => simp [escapeTreeList, ih]

theorem leafTag_escapeTree (c : Tree) : Spec.leafTag (escapeTree c) = Spec.leafTag c := by
  cases c with
  | node t x tl cs =>
    cases x with
    | none => simp [escapeTree, Spec.leafTag]
    | some d =>
      cases cs with
      | nil => simp [escapeTree, escapeTreeList, Spec.leafTag]
      | cons c' cs' => simp [escapeTree, escapeTreeList, Spec.leafTag]

theorem g3Ok_escapeTree_both :
    (∀ t, g3Ok (escapeTree t) = g3Ok t) ∧ (∀ cs, g3OkList (escapeTreeList cs) = g3OkList cs) := by
  apply tree_induction
  · intro t x tl cs ih
    simp only [escapeTree, g3Ok, ih]
    congr 1
    rw [escapeTreeList_eq_map, List.getLast?_map]
    cases cs.getLast? with
    | none => rfl
    | some c => simp [leafTag_escapeTree]
  · rfl
  · intro c cs hc hcs
    simp only [escapeTreeList, g3OkList, hc, hcs]

end Ofx.Serialize
