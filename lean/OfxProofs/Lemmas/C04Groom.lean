/-
Lemmas for `Props/C04Groom.lean`: the tree-route rejections of C04 for EVERY class, the three whose reader renames a
child (`groom`: STOCKINFO / MFINFO `YIELD→YLD`, MAIL `FROM→FRM`) included.

* `renamedAfter`: whether the reader's one-off rename has been used up after a prefix of the children, so that
  `effTag c (renamedAfter c false pre) ch.tag` is the tag the child `ch` standing after `pre` is read under;
* the reader's flag follows it (`foldChildren_renamed`);
* one reader step on a child, by its effective tag (`updateArgs_eff`), and the facts about `stepCore` the order and
  duplicate theorems need;
* where a child stands among the addressed children of the specification (`slots_mid`, `slots_split`).
-/
import OfxProofs.Lemmas.C03Deep
import OfxProofs.Props.C04Ext

namespace Ofx.Agg
open Ofx Ofx.Spec

/-- has the class's one-off rename been used up once the children `ts` have been read (flag `rn` before them) -/
def renamedAfter (c : Cls) : Bool → List Tree → Bool
  | rn, [] => rn
  | rn, t :: ts => renamedAfter c (effTag c rn t.tag).2 ts

theorem renamedAfter_append (c : Cls) : ∀ (l1 l2 : List Tree) (rn : Bool),
    renamedAfter c rn (l1 ++ l2) = renamedAfter c (renamedAfter c rn l1) l2
  | [], _, _ => rfl
  | t :: l1, l2, rn => by simp only [List.cons_append, renamedAfter]; exact renamedAfter_append c l1 l2 _

/-- without a rename hook every child is read under its own tag -/
theorem effTag_noGroom (c : Cls) (hg : c.groom = none) (rn : Bool) (tag : Str) : effTag c rn tag = (tag, rn) := by
  unfold effTag; rw [hg]

theorem renamedAfter_noGroom (c : Cls) (hg : c.groom = none) : ∀ (ts : List Tree) (rn : Bool),
    renamedAfter c rn ts = rn
  | [], _ => rfl
  | t :: ts, rn => by simp only [renamedAfter, effTag_noGroom c hg]; exact renamedAfter_noGroom c hg ts rn

/-- the rename has not been used before a child if no earlier child carries the source tag -/
theorem renamedAfter_noHit (c : Cls) (r : Rename) (hg : c.groom = some r) : ∀ (ts : List Tree),
    (∀ t ∈ ts, t.tag ≠ r.fromTag) → renamedAfter c false ts = false
  | [], _ => rfl
  | t :: ts, h => by
    have ht : t.tag ≠ r.fromTag := h t (by simp)
    have : effTag c false t.tag = (t.tag, false) := by unfold effTag; rw [hg]; simp [ht]
    simp only [renamedAfter, this]
    exact renamedAfter_noHit c r hg ts (fun u hu => h u (by simp [hu]))

/-- the first child carrying the source tag is read under the target tag -/
theorem effTag_hit (c : Cls) (r : Rename) (hg : c.groom = some r) (pre : List Tree) (ch : Tree)
    (hpre : ∀ t ∈ pre, t.tag ≠ r.fromTag) (hch : ch.tag = r.fromTag) :
    (effTag c (renamedAfter c false pre) ch.tag).1 = r.toTag := by
  rw [renamedAfter_noHit c r hg pre hpre]; unfold effTag; rw [hg]; simp [hch]

/-- a child not carrying the source tag is read under its own tag -/
theorem effTag_other (c : Cls) (r : Rename) (hg : c.groom = some r) (rn : Bool) (tag : Str) (h : tag ≠ r.fromTag) :
    (effTag c rn tag).1 = tag := by
  unfold effTag; rw [hg]; simp [h]

/-! ### one step of the reader, by the effective tag -/

theorem updateArgs_eff (c : Cls) (acc : Accum) (ch : Tree) (sub : PyM Node)
    (hdot : '.' ∉ (effTag c acc.renamed ch.tag).1) :
    updateArgs c acc ch sub =
      stepCore c { acc with renamed := (effTag c acc.renamed ch.tag).2 } (effTag c acc.renamed ch.tag).1
        (childValue ch sub) := by
  rw [updateArgs_core, groomTag_eff]
  have hd : (effTag c acc.renamed ch.tag).1.contains '.' = false := by simpa using hdot
  simp only [hd, Bool.false_eq_true, if_false]

theorem stepCore_renamed (c : Cls) (acc acc' : Accum) (tag : Str) (v : PyM Node)
    (h : stepCore c acc tag v = .ok acc') : acc'.renamed = acc.renamed := by
  unfold stepCore at h
  split at h
  · injection h with h; subst h; rfl
  · split at h
    · cases h
    · generalize (if unsupportedAt c _ = true then (Except.ok (Node.val Val.none) : PyM Node) else v) = rv at h
      cases rv with
      | error e => cases h
      | ok w =>
        simp only [Except.bind] at h
        split at h
        · injection h with h; subst h; rfl
        · split at h
          · cases h
          · injection h with h; subst h; rfl

/-- the reader's flag after a step is the specification's -/
theorem updateArgs_renamed (c : Cls) (acc acc' : Accum) (ch : Tree) (sub : PyM Node)
    (h : updateArgs c acc ch sub = .ok acc') : acc'.renamed = (effTag c acc.renamed ch.tag).2 := by
  rw [updateArgs_core, groomTag_eff] at h
  split at h
  · injection h with h; subst h
    rename_i heq; injection heq with _ h2; exact h2.symm
  · rename_i heq
    injection heq with _ h2
    rw [stepCore_renamed c _ acc' _ _ h]; exact h2.symm

theorem foldChildren_renamed (c : Cls) : ∀ (ts : List Tree) (ss : List (PyM Node)) (acc acc' : Accum),
    ss.length = ts.length → foldChildren c ts ss acc = .ok acc' → acc'.renamed = renamedAfter c acc.renamed ts
  | [], ss, acc, acc', _, h => by
    cases ss <;> simp [foldChildren] at h <;> subst h <;> rfl
  | t :: ts, [], acc, acc', hl, _ => by simp at hl
  | t :: ts, s :: ss, acc, acc', hl, h => by
    simp only [foldChildren] at h
    cases hu : updateArgs c acc t s with
    | error e => simp [hu, bind, Except.bind] at h
    | ok acc1 =>
      simp only [hu, bind, Except.bind] at h
      rw [foldChildren_renamed c ts ss acc1 acc' (by simpa using hl) h, updateArgs_renamed c acc acc1 t s hu]
      rfl

/-! ### `stepCore` on a known tag -/

theorem stepCore_prev (c : Cls) (acc acc' : Accum) (tag : Str) (v : PyM Node) (idx : Nat)
    (hidx : specIndex c (lower tag) = some idx) (h : stepCore c acc tag v = .ok acc') :
    acc'.prev = some idx ∧ acc'.prevIsList = isListMember c (lower tag) := by
  simp only [stepCore, hidx] at h
  split at h
  · cases h
  · generalize (if unsupportedAt c idx = true then (Except.ok (Node.val Val.none) : PyM Node) else v) = rv at h
    cases rv with
    | error e => cases h
    | ok w =>
      simp only [Except.bind] at h
      split at h
      · rename_i hl
        injection h with h; subst h; exact ⟨rfl, hl.symm⟩
      · rename_i hl
        split at h
        · cases h
        · injection h with h; subst h
          exact ⟨rfl, by simpa using hl⟩

theorem stepCore_order_error (c : Cls) (acc : Accum) (tag : Str) (v : PyM Node) (idx p : Nat)
    (hidx : specIndex c (lower tag) = some idx) (hp : acc.prev = some p) (hle : idx ≤ p)
    (hnb : ¬ (isListMember c (lower tag) = true ∧ acc.prevIsList = true)) :
    stepCore c acc tag v = .error .spec := by
  have hoo : outOfOrder acc.prev idx = true := by simp [outOfOrder, hp, hle]
  have hb : (isListMember c (lower tag) && acc.prevIsList) = false := by
    cases h1 : isListMember c (lower tag) <;> cases h2 : acc.prevIsList <;> simp_all
  simp [stepCore, hidx, hoo, hb]

theorem stepCore_known_key (c : Cls) (acc acc' : Accum) (tag : Str) (v : PyM Node) (idx : Nat)
    (hidx : specIndex c (lower tag) = some idx) (hnl : isListMember c (lower tag) = false)
    (h : stepCore c acc tag v = .ok acc') : hasKey (lower tag) acc'.kwargs = true := by
  simp only [stepCore, hidx, hnl] at h
  split at h
  · cases h
  · generalize (if unsupportedAt c idx = true then (Except.ok (Node.val Val.none) : PyM Node) else v) = rv at h
    cases rv with
    | error e => cases h
    | ok w =>
      simp only [Except.bind, Bool.false_eq_true, if_false] at h
      split at h
      · cases h
      · injection h with h; subst h
        simp [hasKey_append]

theorem stepCore_dup_error (c : Cls) (acc : Accum) (tag : Str) (v : PyM Node) (idx : Nat)
    (hidx : specIndex c (lower tag) = some idx) (hnl : isListMember c (lower tag) = false)
    (hk : hasKey (lower tag) acc.kwargs = true) : ∃ e, stepCore c acc tag v = .error e := by
  apply not_ok_error
  intro acc' h
  simp only [stepCore, hidx, hnl, hk] at h
  split at h
  · cases h
  · generalize (if unsupportedAt c idx = true then (Except.ok (Node.val Val.none) : PyM Node) else v) = rv at h
    cases rv <;> simp [Except.bind] at h

theorem stepCore_hasKey (c : Cls) (acc acc' : Accum) (tag : Str) (v : PyM Node)
    (h : stepCore c acc tag v = .ok acc') (k : Str) (hk : hasKey k acc.kwargs = true) :
    hasKey k acc'.kwargs = true := by
  unfold stepCore at h
  split at h
  · injection h with h; subst h; exact hk
  · split at h
    · cases h
    · generalize (if unsupportedAt c _ = true then (Except.ok (Node.val Val.none) : PyM Node) else v) = rv at h
      cases rv with
      | error e => cases h
      | ok w =>
        simp only [Except.bind] at h
        split at h
        · injection h with h; subst h; exact hk
        · split at h
          · cases h
          · injection h with h; subst h
            simp [hasKey_append, hk]

/-- keys collected by the reader stay (any class) -/
theorem updateArgs_hasKey' (c : Cls) (acc acc' : Accum) (ch : Tree) (sub : PyM Node)
    (h : updateArgs c acc ch sub = .ok acc') (k : Str) (hk : hasKey k acc.kwargs = true) :
    hasKey k acc'.kwargs = true := by
  rw [updateArgs_core] at h
  split at h
  · injection h with h; subst h; exact hk
  · exact stepCore_hasKey c _ acc' _ _ h k hk

theorem foldChildren_hasKey' (c : Cls) : ∀ (ts : List Tree) (ss : List (PyM Node)) (acc acc' : Accum),
    foldChildren c ts ss acc = .ok acc' → ∀ k, hasKey k acc.kwargs = true → hasKey k acc'.kwargs = true
  | [], ss, acc, acc', h, k, hk => by
    cases ss <;> simp [foldChildren] at h <;> subst h <;> exact hk
  | t :: ts, [], acc, acc', h, k, hk => by simp [foldChildren] at h; subst h; exact hk
  | t :: ts, s :: ss, acc, acc', h, k, hk => by
    simp only [foldChildren] at h
    cases hu : updateArgs c acc t s with
    | error e => simp [hu, bind, Except.bind] at h
    | ok acc1 =>
      simp only [hu, bind, Except.bind] at h
      exact foldChildren_hasKey' c ts ss acc1 acc' h k (updateArgs_hasKey' c acc acc1 t s hu k hk)

/-! ### where a child stands among the addressed children -/

theorem repeated_of_nonlist (c : Cls) (a : Attr) (hl : a.kind.isList = false) : repeated c a = false := by
  cases hk : a.kind <;> simp_all [repeated, Kind.isList, Kind.isListElem, Kind.isListAgg]

/-- a known, supported, non-repeated child is addressed as the field of its attribute -/
theorem slotOf_field_of (c : Cls) (hnd : (c.spec.map (·.name)).Nodup) (rn : Bool) (tag : Str) (a : Attr)
    (ha : a ∈ c.spec) (hname : a.name = lower (effTag c rn tag).1) (hdot : '.' ∉ (effTag c rn tag).1)
    (hl : a.kind.isList = false) (hu : a.kind.isUnsupported = false) :
    slotOf c rn tag = (.field a, (effTag c rn tag).2) := by
  unfold slotOf
  have hd : (effTag c rn tag).1.contains '.' = false := by simpa using hdot
  obtain ⟨pa, ra, hspec⟩ := List.append_of_mem ha
  have hidx := specIndex_at c pa ra a hspec hnd
  have hf := specIndex_find c a.name
  rw [hidx] at hf
  obtain ⟨a', hfa, _, hn', hm'⟩ := hf
  have : a' = a := nodup_map_inj hnd hm' ha hn'
  subst this
  simp only [hd, Bool.false_eq_true, if_false, ← hname, hfa, hu, repeated_of_nonlist c a' hl]

theorem slots_mid (c : Cls) (ch : Tree) (post : List Tree) (a : Attr) (r2 : Bool) :
    ∀ (pre : List Tree) (rn : Bool) (pos : Nat),
    slotOf c (renamedAfter c rn pre) ch.tag = (.field a, r2) →
    (Step.attr a.name, a, ch) ∈ slots c rn pos (pre ++ ch :: post)
  | [], rn, pos, h => by
    simp only [renamedAfter] at h
    simp [slots, h]
  | t :: pre, rn, pos, h => by
    simp only [renamedAfter] at h
    have hrn : (slotOf c rn t.tag).2 = (effTag c rn t.tag).2 := by
      unfold slotOf; dsimp only
      split
      · rfl
      · split
        · rfl
        · split
          · rfl
          · split <;> rfl
    simp only [List.cons_append, slots]
    cases hs : slotOf c rn t.tag with
    | mk sl rn' =>
      rw [hs] at hrn; simp only at hrn; subst hrn
      cases sl with
      | skip => exact slots_mid c ch post a r2 pre _ pos h
      | unsup b => exact slots_mid c ch post a r2 pre _ pos h
      | field b => exact List.mem_cons_of_mem _ (slots_mid c ch post a r2 pre _ pos h)
      | member b => exact List.mem_cons_of_mem _ (slots_mid c ch post a r2 pre _ (pos + 1) h)

theorem slotOf_snd (c : Cls) (rn : Bool) (tag : Str) : (slotOf c rn tag).2 = (effTag c rn tag).2 := by
  unfold slotOf; dsimp only
  split
  · rfl
  · split
    · rfl
    · split
      · rfl
      · split <;> rfl

/-- the name a field slot is addressed by is the (lower-cased) effective tag -/
theorem slotOf_field_name (c : Cls) (rn rn' : Bool) (tag : Str) (a : Attr) (h : slotOf c rn tag = (.field a, rn')) :
    a.name = lower (effTag c rn tag).1 := by
  unfold slotOf at h
  dsimp only at h
  split at h
  · cases h
  · split at h
    · cases h
    · rename_i b hb
      have hb2 := List.find?_some hb
      split at h
      · cases h
      · split at h
        · cases h
        · injection h with h _; injection h with h; subst h
          simpa using hb2

/-- every addressed field stands somewhere among the children, and is addressed by its effective tag there -/
theorem slots_split (c : Cls) (n : Str) (a : Attr) (ch : Tree) : ∀ (ts : List Tree) (rn : Bool) (pos : Nat),
    (Step.attr n, a, ch) ∈ slots c rn pos ts →
    ∃ pre post, ts = pre ++ ch :: post ∧ n = lower (effTag c (renamedAfter c rn pre) ch.tag).1
  | [], rn, pos, h => by simp [slots] at h
  | t :: rest, rn, pos, h => by
    simp only [slots] at h
    have hrn := slotOf_snd c rn t.tag
    have lift : (∃ pre post, rest = pre ++ ch :: post ∧
        n = lower (effTag c (renamedAfter c (effTag c rn t.tag).2 pre) ch.tag).1) →
        ∃ pre post, t :: rest = pre ++ ch :: post ∧ n = lower (effTag c (renamedAfter c rn pre) ch.tag).1 := by
      rintro ⟨pre, post, h1, h2⟩
      exact ⟨t :: pre, post, by rw [h1]; rfl, by simpa only [renamedAfter] using h2⟩
    cases hs : slotOf c rn t.tag with
    | mk sl rn' =>
      rw [hs] at h hrn; simp only at hrn; subst hrn
      cases sl with
      | skip => exact lift (slots_split c n a ch rest _ pos h)
      | unsup b => exact lift (slots_split c n a ch rest _ pos h)
      | field b =>
        simp only [List.mem_cons, Prod.mk.injEq, Step.attr.injEq] at h
        rcases h with ⟨rfl, rfl, rfl⟩ | h
        · exact ⟨[], rest, rfl, by simpa only [renamedAfter] using slotOf_field_name c rn _ _ _ hs⟩
        · exact lift (slots_split c n a ch rest _ pos h)
      | member b =>
        simp only [List.mem_cons, Prod.mk.injEq, reduceCtorEq, false_and, false_or] at h
        exact lift (slots_split c n a ch rest _ (pos + 1) h)

end Ofx.Agg
