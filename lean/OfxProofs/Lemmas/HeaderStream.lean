/-
The byte-stream half of `parse_header`: reading lines, the reconstructed `rawheader`, and how inserting a
line feed after the first line changes a v1 header text.
-/
import OfxProofs.Lemmas.Header
namespace Ofx.Header
open Ofx Ofx.Codec Ofx.Spec.HeaderLayout

/-! ### `rawheader = line + "\n" + …`: inserting a line feed after the first line -/

def ins : Str → Str
  | [] => ['\n']
  | c :: cs => if c = '\n' then '\n' :: '\n' :: cs else c :: ins cs

def hasLF (s : Str) : Bool := s.any (· == '\n')

def insD (d : Bool) (s : Str) : Str := if d then s else ins s

def insW (d : Bool) (w : Str) : Str × Bool :=
  if d then (w, true) else if hasLF w then (ins w, true) else (w, false)

theorem ins_append_noLF (X Y : Str) (h : hasLF X = false) : ins (X ++ Y) = X ++ ins Y := by
  induction X with
  | nil => rfl
  | cons c cs ih =>
    simp only [hasLF, List.any_cons, Bool.or_eq_false_iff, beq_eq_false_iff_ne] at h
    simp only [List.cons_append, ins, if_neg h.1]
    rw [ih (by simpa [hasLF] using h.2)]

theorem ins_append_LF (X Y : Str) (h : hasLF X = true) : ins (X ++ Y) = ins X ++ Y := by
  induction X with
  | nil => simp [hasLF] at h
  | cons c cs ih =>
    simp only [List.cons_append, ins]
    by_cases hc : c = '\n'
    · simp [hc]
    · simp only [if_neg hc, List.cons_append]
      rw [ih (by simpa [hasLF, hc] using h)]

theorem insD_tx (d : Bool) (X Y : Str) (h : hasLF X = false) : insD d (X ++ Y) = X ++ insD d Y := by
  cases d
  · simp [insD, ins_append_noLF X Y h]
  · simp [insD]

theorem insD_ws (d : Bool) (w Y : Str) : insD d (w ++ Y) = (insW d w).1 ++ insD (insW d w).2 Y := by
  cases d
  · cases h : hasLF w
    · simp [insD, insW, h, ins_append_noLF w Y h]
    · simp [insD, insW, h, ins_append_LF w Y h]
  · simp [insD, insW]

theorem ins_length (s : Str) : (ins s).length = s.length + 1 := by
  induction s with
  | nil => rfl
  | cons c cs ih => by_cases hc : c = '\n' <;> simp [ins, hc, ih]

theorem mem_ins (s : Str) (c : Char) (h : c ∈ ins s) : c = '\n' ∨ c ∈ s := by
  induction s with
  | nil => simp [ins] at h; exact Or.inl h
  | cons d ds ih =>
    by_cases hd : d = '\n'
    · simp only [ins, hd, if_true, List.mem_cons] at h ⊢
      rcases h with h | h | h
      · exact Or.inl h
      · exact Or.inl h
      · exact Or.inr (Or.inr h)
    · simp only [ins, if_neg hd, List.mem_cons] at h ⊢
      rcases h with h | h
      · exact Or.inr (Or.inl h)
      · rcases ih h with h | h
        · exact Or.inl h
        · exact Or.inr (Or.inr h)

theorem allSpace_ins (w : Str) (h : allSpace w) : allSpace (ins w) := by
  intro c hc
  rcases mem_ins w c hc with h1 | h1
  · subst h1; decide
  · exact h c h1

theorem allSpace_insW (d : Bool) (w : Str) (h : allSpace w) : allSpace (insW d w).1 := by
  unfold insW
  split
  · exact h
  · split
    · exact allSpace_ins w h
    · exact h

theorem insD_fld (d : Bool) (nm : String) (b v w T : Str) (hn : hasLF nm.toList = false) (hb : hasLF b = false)
    (hv : hasLF v = false) :
    insD d (fld nm b v w T) = fld nm b v (insW d w).1 (insD (insW d w).2 T) := by
  unfold fld
  have e : nm.toList ++ ':' :: (b ++ (v ++ (w ++ T))) = (nm.toList ++ [':']) ++ (b ++ (v ++ (w ++ T))) := by simp
  rw [e, insD_tx _ _ _ (by simpa [hasLF] using hn), insD_tx _ _ _ hb, insD_tx _ _ _ hv, insD_ws]
  simp

theorem head_ins (s : Str) (p : Char → Bool) (hnl : p '\n' = false) (h : ∀ c ∈ s.head?, p c = false) :
    ∀ c ∈ (ins s).head?, p c = false := by
  cases s with
  | nil => intro c hc; simp [ins] at hc; subst hc; exact hnl
  | cons d ds =>
    intro c hc
    by_cases hd : d = '\n'
    · simp [ins, hd] at hc; subst hc; exact hnl
    · simp [ins, hd] at hc; subst hc; exact h _ (by simp)

/-! ### the v1 text after the insertion -/

def V1W.compIns (t : V1W) (d : Bool) : Option (Str × Str × Str) × Bool :=
  match t.comp with
  | some (b, v, w) => (some (b, v, (insW d w).1), (insW d w).2)
  | none => (none, d)

/-- thread the insertion through the whitespace slots, left to right -/
def V1W.ins (t : V1W) : V1W × Bool :=
  let i := insW false t.indent
  let w1 := insW i.2 t.w1
  let w2 := insW w1.2 t.w2
  let w3 := insW w2.2 t.w3
  let w4 := insW w3.2 t.w4
  let w5 := insW w4.2 t.w5
  let w6 := insW w5.2 t.w6
  let c := t.compIns w6.2
  let w8 := insW c.2 t.w8
  ({ t with indent := i.1, w1 := w1.1, w2 := w2.1, w3 := w3.1, w4 := w4.1, w5 := w5.1, w6 := w6.1, comp := c.1,
            w8 := w8.1 }, w8.2)

theorem hasLF_of_class (p : Char → Bool) (hp : ∀ c, p c = true → isSpace c = false) (v : Str)
    (hv : ∀ c ∈ v, p c = true) : hasLF v = false := by
  induction v with
  | nil => rfl
  | cons c cs ih =>
    have : c ≠ '\n' := by
      intro h
      have := hp c (hv c (by simp))
      rw [h] at this
      exact absurd this (by decide)
    simp only [hasLF, List.any_cons, Bool.or_eq_false_iff, beq_eq_false_iff_ne]
    exact ⟨this, by simpa [hasLF] using ih (fun c hc => hv c (by simp [hc]))⟩

/-- blanks after colons carry no line feed -/
structure V1W.NoLF (t : V1W) : Prop where
  b1 : hasLF t.b1 = false
  b2 : hasLF t.b2 = false
  b3 : hasLF t.b3 = false
  b4 : hasLF t.b4 = false
  b5 : hasLF t.b5 = false
  b6 : hasLF t.b6 = false
  bc : ∀ b v w, t.comp = some (b, v, w) → hasLF b = false
  b8 : hasLF t.b8 = false
  b9 : hasLF t.b9 = false

theorem V1W.ins_text (t : V1W) (R : Str) (ok : t.Ok) (nl : t.NoLF) :
    Header.ins (t.text R) = t.ins.1.text (insD t.ins.2 R) := by
  have h1 := hasLF_of_class _ digit_not_space _ ok.v1.2
  have h2 := hasLF_of_class _ upper_not_space _ ok.v2.2
  have h3 := hasLF_of_class _ digit_not_space _ ok.v3.2
  have h4 := hasLF_of_class _ word_not_space _ ok.v4.2
  have h5 := hasLF_of_class _ upDigDash_not_space _ ok.v5.2
  have h6 := hasLF_of_class _ wordDash_not_space _ ok.v6.2
  have h8 := hasLF_of_class _ wordDash_not_space _ ok.v8.2
  have h9 := hasLF_of_class _ wordDash_not_space _ ok.v9.2
  have e0 : Header.ins (t.text R) = insD false (t.text R) := rfl
  rw [e0, V1W.text, insD_ws,
    insD_fld _ _ _ _ _ _ (by decide) nl.b1 h1, insD_fld _ _ _ _ _ _ (by decide) nl.b2 h2,
    insD_fld _ _ _ _ _ _ (by decide) nl.b3 h3, insD_fld _ _ _ _ _ _ (by decide) nl.b4 h4,
    insD_fld _ _ _ _ _ _ (by decide) nl.b5 h5, insD_fld _ _ _ _ _ _ (by decide) nl.b6 h6]
  have tail : ∀ d, insD d (fld "OLDFILEUID" t.b8 t.v8 t.w8 ("NEWFILEUID".toList ++ ':' :: (t.b9 ++ (t.v9 ++ R)))) =
      fld "OLDFILEUID" t.b8 t.v8 (insW d t.w8).1
        ("NEWFILEUID".toList ++ ':' :: (t.b9 ++ (t.v9 ++ insD (insW d t.w8).2 R))) := by
    intro d
    rw [insD_fld _ _ _ _ _ _ (by decide) nl.b8 h8]
    have e : "NEWFILEUID".toList ++ ':' :: (t.b9 ++ (t.v9 ++ R)) =
        ("NEWFILEUID".toList ++ [':']) ++ (t.b9 ++ (t.v9 ++ R)) := by simp
    rw [e, insD_tx _ _ _ (by decide), insD_tx _ _ _ nl.b9, insD_tx _ _ _ h9]
    simp
  cases hc : t.comp with
  | none =>
    simp only [V1W.compText, hc, tail, V1W.ins, V1W.compIns, V1W.text]
  | some x =>
    obtain ⟨b, v, w⟩ := x
    have hv := hasLF_of_class _ upper_not_space _ (ok.comp b v w hc).2.1.2
    simp only [V1W.compText, hc, insD_fld _ _ _ _ _ _ (by decide : hasLF "COMPRESSION".toList = false) (nl.bc b v w hc) hv,
      tail, V1W.ins, V1W.compIns, V1W.text]

theorem V1W.ins_ok (t : V1W) (ok : t.Ok) : t.ins.1.Ok := by
  refine { ok with indent := ?_, w1 := ?_, w2 := ?_, w3 := ?_, w4 := ?_, w5 := ?_, w6 := ?_, w8 := ?_, comp := ?_ }
  · exact allSpace_insW _ _ ok.indent
  · exact allSpace_insW _ _ ok.w1
  · exact allSpace_insW _ _ ok.w2
  · exact allSpace_insW _ _ ok.w3
  · exact allSpace_insW _ _ ok.w4
  · exact allSpace_insW _ _ ok.w5
  · exact allSpace_insW _ _ ok.w6
  · exact allSpace_insW _ _ ok.w8
  · intro b v w h
    simp only [V1W.ins, V1W.compIns] at h
    cases hc : t.comp with
    | none => simp [hc] at h
    | some x =>
      obtain ⟨b0, v0, w0⟩ := x
      simp [hc] at h
      obtain ⟨hb, hv, hw⟩ := ok.comp b0 v0 w0 hc
      rw [← h.1, ← h.2.1, ← h.2.2]
      exact ⟨hb, hv, allSpace_insW _ _ hw⟩

theorem V1W.ins_caps (t : V1W) : t.ins.1.caps = t.caps := by
  simp only [V1W.ins, V1W.caps, V1W.compIns]
  cases t.comp with
  | none => rfl
  | some x => rfl

/-! ### reading lines -/

def chars (bs : Bytes) : Str := bs.map byteChar

def asciiB (bs : Bytes) : Prop := ∀ b ∈ bs, b.toNat < 128

theorem decodeAscii_of_ascii (bs : Bytes) (h : asciiB bs) : decodeAscii bs = .ok (chars bs) := by
  induction bs with
  | nil => rfl
  | cons b bs ih =>
    rw [decodeAscii, if_pos (h b (by simp)), ih (fun x hx => h x (by simp [hx]))]
    rfl

theorem chars_asciiBytes (s : Str) (hs : isAscii s) : chars (asciiBytes s) = s := by
  induction s with
  | nil => rfl
  | cons c cs ih =>
    have hc := (isAscii_cons.1 hs).1
    simp only [chars, asciiBytes, List.map_cons] at ih ⊢
    rw [ih (isAscii_cons.1 hs).2, byteChar_byteOf c (by omega)]

theorem asciiB_asciiBytes (s : Str) (hs : isAscii s) : asciiB (asciiBytes s) := by
  intro b hb
  simp only [asciiBytes, List.mem_map] at hb
  obtain ⟨c, hc, rfl⟩ := hb
  rw [byteOf_toNat _ (by have := hs c hc; omega)]
  exact hs c hc

theorem chars_append (a b : Bytes) : chars (a ++ b) = chars a ++ chars b := by simp [chars]

theorem splitLine_cons (b : UInt8) (bs : Bytes) :
    splitLine (b :: bs) = if b = 10 then [b] else b :: splitLine bs := rfl

theorem firstLines_nil (n : Nat) : firstLines n [] = [] := by
  induction n with
  | zero => rfl
  | succ n ih => simp [firstLines, splitLine, ih]

theorem firstLines_cons (n : Nat) (b : UInt8) (bs : Bytes) :
    firstLines (n + 1) (b :: bs) = if b = 10 then b :: firstLines n bs else b :: firstLines (n + 1) bs := by
  by_cases hb : b = 10
  · simp [firstLines, splitLine, hb]
  · simp [firstLines, splitLine, hb]

theorem byteChar_lf (b : UInt8) : byteChar b = '\n' ↔ b = 10 := by
  constructor
  · intro h
    have := congrArg Char.toNat h
    have hb : b.toNat < 256 := b.toNat_lt
    have e : (byteChar b).toNat = b.toNat := by
      have hv : b.toNat.isValidChar := Or.inl (by omega)
      unfold byteChar Char.ofNat
      rw [dif_pos hv]
      rfl
    rw [e] at this
    exact UInt8.toNat_inj.1 (by simpa using this)
  · intro h; subst h; rfl

/-- `rawheader` is the first nine lines with a line feed inserted after the first -/
theorem raw_eq_ins (n : Nat) (X : Bytes) :
    chars (splitLine X) ++ '\n' :: chars (firstLines n (X.drop (splitLine X).length)) =
      ins (chars (firstLines (n + 1) X)) := by
  induction X with
  | nil => simp [splitLine, firstLines_nil, chars, ins]
  | cons b bs ih =>
    rw [firstLines_cons, splitLine_cons]
    by_cases hb : b = 10
    · subst hb
      simp [chars, ins]
      rfl
    · have : byteChar b ≠ '\n' := fun h => hb ((byteChar_lf b).1 h)
      simp only [if_neg hb, chars, List.map_cons, List.length_cons, List.drop_succ_cons, List.cons_append, ins,
        if_neg this] at ih ⊢
      rw [ih]

theorem moreLines_eq (file : Bytes) (n pos : Nat) (h : asciiB (firstLines n (file.drop pos))) :
    moreLines file n pos = .ok (chars (firstLines n (file.drop pos))) := by
  induction n generalizing pos with
  | zero => rfl
  | succ n ih =>
    simp only [firstLines] at h ⊢
    have h1 : asciiB (splitLine (file.drop pos)) := fun b hb => h b (by simp [hb])
    have h2 : asciiB (firstLines n (file.drop (pos + (splitLine (file.drop pos)).length))) := by
      intro b hb
      apply h b
      rw [List.drop_drop] at *
      simp [hb]
    simp only [moreLines, readline, decodeAscii_of_ascii _ h1, ih _ h2, bind, Except.bind, pure, Except.pure]
    rw [List.drop_drop, chars_append]

/-- number of line feeds -/
def lfCount (bs : Bytes) : Nat := bs.count 10

theorem firstLines_append (A G : Bytes) : ∀ n, lfCount A < n →
    firstLines n (A ++ G) = A ++ firstLines (n - lfCount A) G := by
  induction A with
  | nil => intro n _; simp [lfCount]
  | cons b bs ih =>
    intro n hn
    cases n with
    | zero => omega
    | succ n =>
      rw [List.cons_append, firstLines_cons]
      by_cases hb : b = 10
      · subst hb
        simp only [lfCount, List.count_cons_self] at hn ⊢
        simp only [if_true]
        rw [ih n (by simp only [lfCount]; omega)]
        simp only [lfCount, List.cons_append]
        have e : n + 1 - (List.count 10 bs + 1) = n - List.count 10 bs := by omega
        rw [e]
      · have : lfCount (b :: bs) = lfCount bs := by simp [lfCount, List.count_cons, hb]
        rw [if_neg hb, ih (n + 1) (by omega), this]
        rfl

/-! ### `strip` -/

theorem lstrip_allSpace (s : Str) (h : allSpace s) : lstrip s = [] := by
  induction s with
  | nil => rfl
  | cons c cs ih => simp [lstrip, h c (by simp), ih (fun x hx => h x (by simp [hx]))]

theorem strip_allSpace (s : Str) (h : allSpace s) : strip s = [] := by
  simp [strip, rstrip, lstrip_allSpace s h, lstrip]

theorem lstrip_append_space (w s : Str) (hw : allSpace w) : lstrip (w ++ s) = lstrip s := by
  induction w with
  | nil => rfl
  | cons c cs ih => simp [lstrip, hw c (by simp), ih (fun x hx => hw x (by simp [hx]))]

theorem lstrip_nonspace (c : Char) (cs : Str) (h : isSpace c = false) : lstrip (c :: cs) = c :: cs := by
  simp [lstrip, h]

/-- text that starts and ends with non-space characters is a fixed point of `strip`, whatever whitespace
    precedes it -/
theorem strip_ws_body (w body : Str) (hw : allSpace w) (c0 : Char) (cs : Str) (hb : body = c0 :: cs)
    (h0 : isSpace c0 = false) (cl : Char) (hl : body.getLast? = some cl) (hls : isSpace cl = false) :
    strip (w ++ body) = body := by
  unfold strip
  rw [lstrip_append_space w body hw, hb, lstrip_nonspace c0 cs h0, ← hb]
  unfold rstrip
  obtain ⟨init, hi⟩ : ∃ init, body = init ++ [cl] := by
    rw [List.getLast?_eq_some_iff] at hl
    exact hl
  rw [hi, List.reverse_append]
  simp only [List.reverse_cons, List.reverse_nil, List.nil_append, List.singleton_append]
  rw [lstrip_nonspace cl _ hls]
  simp

theorem strip_ne_nil_of_mem (s : Str) (c : Char) (hc : c ∈ s) (hs : isSpace c = false) : strip s ≠ [] := by
  have key : ∀ t : Str, (∃ c ∈ t, isSpace c = false) → lstrip t ≠ [] ∧ ∃ c ∈ lstrip t, isSpace c = false := by
    intro t
    induction t with
    | nil => intro ⟨c, hc, _⟩; simp at hc
    | cons d ds ih =>
      intro ⟨c, hc, hs⟩
      cases hd : isSpace d with
      | false => simp only [lstrip, hd]; exact ⟨by simp, d, by simp, hd⟩
      | true =>
        simp only [lstrip, hd, if_true]
        apply ih
        simp only [List.mem_cons] at hc
        rcases hc with hc | hc
        · subst hc; rw [hd] at hs; cases hs
        · exact ⟨c, hc, hs⟩
  obtain ⟨_, c1, hc1, hs1⟩ := key s ⟨c, hc, hs⟩
  unfold strip rstrip
  intro h
  have h' : lstrip (lstrip s).reverse = [] := by simpa using h
  exact (key (lstrip s).reverse ⟨c1, by simpa using hc1, hs1⟩).1 h'

/-! ### skipping the leading blank lines -/

theorem byteOf_lf : byteOf ('\n').toNat = 10 := by decide
theorem byteOf_10 : byteOf 10 = 10 := by decide

theorem byteOf_eq_lf (c : Char) (hc : c.toNat < 128) : byteOf c.toNat = 10 ↔ c = '\n' := by
  constructor
  · intro h
    have := congrArg UInt8.toNat h
    rw [byteOf_toNat _ (by omega)] at this
    exact Char.toNat_inj.1 (by simpa using this)
  · intro h; subst h; decide

theorem splitLine_noLF (l : Str) (Y : Bytes) (ha : isAscii l) (hn : hasLF l = false) :
    splitLine (asciiBytes l ++ Y) = asciiBytes l ++ splitLine Y := by
  induction l with
  | nil => rfl
  | cons c cs ih =>
    simp only [hasLF, List.any_cons, Bool.or_eq_false_iff, beq_eq_false_iff_ne] at hn
    have hc := (isAscii_cons.1 ha).1
    have : byteOf c.toNat ≠ 10 := fun h => hn.1 ((byteOf_eq_lf c hc).1 h)
    simp only [asciiBytes, List.map_cons, List.cons_append, splitLine_cons, if_neg this] at ih ⊢
    rw [ih (isAscii_cons.1 ha).2 (by simpa [hasLF] using hn.2)]

theorem wsNoLF_spec (l : Str) (h : wsNoLF l = true) : allSpace l ∧ isAscii l ∧ hasLF l = false := by
  simp only [wsNoLF, isAsciiSpace, List.all_eq_true, Bool.and_eq_true, decide_eq_true_eq, bne_iff_ne, ne_eq] at h
  refine ⟨fun c hc => (h c hc).1.1, fun c hc => (h c hc).1.2, ?_⟩
  simp only [hasLF, List.any_eq_false, beq_iff_eq]
  exact fun c hc => (h c hc).2

theorem findHeader_leading (file : Bytes) (leading : List Str) (hl : ∀ l ∈ leading, wsNoLF l = true) :
    ∀ fuel pos X, file.drop pos = asciiBytes (leadingText leading) ++ X → leading.length < fuel →
      findHeader file fuel pos = findHeader file (fuel - leading.length) (pos + (leadingText leading).length) := by
  induction leading with
  | nil => intro fuel pos X _ _; simp [leadingText]
  | cons l ls ih =>
    intro fuel pos X hX hf
    obtain ⟨hs, ha, hn⟩ := wsNoLF_spec l (hl l (by simp))
    cases fuel with
    | zero => simp at hf
    | succ f =>
      have e1 : file.drop pos = asciiBytes l ++ (10 :: (asciiBytes (leadingText ls) ++ X)) := by
        rw [hX, leadingText, asciiBytes_append]
        simp [asciiBytes, byteOf_10]
      have hline : splitLine (file.drop pos) = asciiBytes (l ++ ['\n']) := by
        rw [e1, splitLine_noLF l _ ha hn, splitLine_cons, if_pos rfl, asciiBytes_append]
        simp [asciiBytes, byteOf_10]
      have hasc : isAscii (l ++ ['\n']) := isAscii_append.2 ⟨ha, by intro c hc; simp at hc; subst hc; decide⟩
      have hstrip : strip (l ++ ['\n']) = [] := strip_allSpace _ (by
        intro c hc
        simp only [List.mem_append, List.mem_singleton] at hc
        rcases hc with hc | hc
        · exact hs c hc
        · subst hc; decide)
      rw [findHeader]
      simp only [readline, hline, decodeAscii_asciiBytes _ hasc, bind, Except.bind, hstrip, List.isEmpty_nil, if_true]
      have e2 : file.drop (pos + (asciiBytes (l ++ ['\n'])).length) = asciiBytes (leadingText ls) ++ X := by
        rw [← List.drop_drop, e1, asciiBytes_length]
        have : (l ++ ['\n']).length = (asciiBytes l).length + 1 := by simp [asciiBytes_length]
        rw [this, List.drop_append, List.drop_of_length_le (by omega)]
        have : (asciiBytes l).length + 1 - (asciiBytes l).length = 1 := by omega
        rw [this]
        rfl
      rw [ih (fun x hx => hl x (by simp [hx])) f _ X e2 (by simpa using hf)]
      simp only [leadingText, List.length_cons, List.length_append, asciiBytes_length]
      congr 1
      · omega
      · simp; omega

/-! ### numbers, validators, constructors -/

theorem numbers_table : (List.range 1000).all (fun n =>
    !(pyStrNat n).isEmpty && (pyStrNat n).all isDigit && (intOfStr (pyStrNat n) == some (Int.ofNat n))) = true := by
  decide +kernel

theorem pyStrNat_small (n : Nat) (h : n < 1000) :
    inClass isDigit (pyStrNat n) ∧ intOfStr (pyStrNat n) = some (Int.ofNat n) := by
  have := List.all_eq_true.1 numbers_table n (List.mem_range.2 h)
  simp only [Bool.and_eq_true, Bool.not_eq_true', List.isEmpty_eq_false_iff, List.all_eq_true, beq_iff_eq] at this
  exact ⟨⟨this.1.1, this.1.2⟩, this.2⟩

theorem pyStrInt_small (i : Int) (h0 : 0 ≤ i) (h1 : i < 1000) :
    inClass isDigit (pyStrInt i) ∧ intOfStr (pyStrInt i) = some i := by
  have hn : i.natAbs < 1000 := by omega
  have := pyStrNat_small i.natAbs hn
  have e : Int.ofNat i.natAbs = i := by simp; omega
  unfold pyStrInt
  rw [if_neg (by omega), ← e]
  simpa using this

theorem replaceGo_noHead (c0 : Char) (o new s : Str) (h : c0 ∉ s) : replaceGo (c0 :: o) new 0 s = s := by
  induction s with
  | nil => rfl
  | cons c cs ih =>
    have hc : c0 ≠ c := fun e => h (by simp [e])
    have hb : (c0 == c) = false := by simpa using hc
    simp only [replaceGo, List.isPrefixOf, hb, Bool.false_and, Bool.false_eq_true, if_false]
    rw [ih (fun hm => h (by simp [hm]))]

theorem unescape_noamp (s : Str) (h : '&' ∉ s) : unescape s = s := by
  simp only [unescape, replace]
  have e1 : "&lt;".toList = '&' :: "lt;".toList := by decide
  have e2 : "&gt;".toList = '&' :: "gt;".toList := by decide
  have e3 : "&nbsp;".toList = '&' :: "nbsp;".toList := by decide
  have e4 : "&apos;".toList = '&' :: "apos;".toList := by decide
  have e5 : "&quot;".toList = '&' :: "quot;".toList := by decide
  have e6 : "&amp;".toList = '&' :: "amp;".toList := by decide
  rw [e1, e2, e3, e4, e5, e6]
  simp only [replaceGo_noHead _ _ _ _ h]

theorem wordDash_noamp (v : Str) (hv : ∀ c ∈ v, isWordDash c = true) : '&' ∉ v := by
  intro h
  have := hv _ h
  exact absurd this (by decide)

theorem stringConv_uid (len : Option Nat) (u : Str) (hu : ∀ c ∈ u, isWordDash c = true)
    (hl : ∀ n, len = some n → u.length ≤ n) : stringConv len u = .ok u := by
  unfold stringConv
  rw [unescape_noamp u (wordDash_noamp u hu)]
  cases len with
  | none => rfl
  | some n => simp only; rw [if_neg (by have := hl n rfl; omega)]; rfl

/-- the fields of a v1 header lie in their domains and are spelt in the pattern's character classes -/
structure ValidV1 (p : V1P) (h : V1) : Prop where
  oh0 : 0 ≤ h.ofxheader ∧ h.ofxheader < 1000
  oh : pyStrInt h.ofxheader ∈ p.ofxheader
  data : h.data ∈ p.data ∧ inClass isUpper h.data
  ver0 : 0 ≤ h.version ∧ h.version < 1000
  ver : ∀ n, p.versionLen = some n → h.version < (10 : Int) ^ n
  sec : h.security ∈ p.security ∧ inClass isWord h.security
  enc : h.encoding ∈ p.encoding ∧ inClass isUpDigDash h.encoding
  cs : h.charset ∈ p.charset ∧ inClass isWordDash h.charset
  comp : h.compression ∈ p.compression ∧ inClass isUpper h.compression
  old : inClass isWordDash h.oldfileuid ∧ ∀ n, p.oldLen = some n → h.oldfileuid.length ≤ n
  new : inClass isWordDash h.newfileuid ∧ ∀ n, p.newLen = some n → h.newfileuid.length ≤ n

theorem orStr_some (s d : Str) (h : s ≠ []) : orStr (some s) d = s := by
  cases s with
  | nil => exact absurd rfl h
  | cons c cs => rfl

theorem orElse_str (s : Str) (d : Arg) (h : s ≠ []) : (Arg.str s).orElse d = .str s := by
  cases s with
  | nil => exact absurd rfl h
  | cons c cs => rfl

theorem ctorV1_valid (p : V1P) (h : V1) (hv : ValidV1 p h) (comp : Option Str)
    (hc : comp = some h.compression ∨ (comp = none ∧ h.compression = "NONE".toList)) :
    ctorV1 p (.str (pyStrInt h.version)) (.str (pyStrInt h.ofxheader)) (some h.data) (some h.security)
      (some h.encoding) (some h.charset) comp (some h.oldfileuid) (some h.newfileuid) = .ok h := by
  obtain ⟨hoc, hoi⟩ := pyStrInt_small _ hv.oh0.1 hv.oh0.2
  obtain ⟨hvc, hvi⟩ := pyStrInt_small _ hv.ver0.1 hv.ver0.2
  have hcomp : orStr comp "NONE".toList = h.compression := by
    rcases hc with hc | ⟨hc, hn⟩
    · rw [hc, orStr_some _ _ hv.comp.2.1]
    · rw [hc, hn]; rfl
  have hint : integerConv p.versionLen h.version = .ok h.version := by
    unfold integerConv
    cases hl : p.versionLen with
    | none => rfl
    | some n => simp only; rw [if_neg (by have := hv.ver n hl; omega)]; rfl
  unfold ctorV1
  simp only [orElse_str _ _ hoc.1, orElse_str _ _ hvc.1, toInt, hoi, hvi, oneOfInt, hv.oh, if_true,
    orStr_some _ _ hv.data.2.1, oneOfStr, hv.data.1, hint, orStr_some _ _ hv.sec.2.1, hv.sec.1,
    orStr_some _ _ hv.enc.2.1, hv.enc.1, orStr_some _ _ hv.cs.2.1, hv.cs.1, hcomp, hv.comp.1,
    orStr_some _ _ hv.old.1.1, orStr_some _ _ hv.new.1.1, stringConv_uid _ _ hv.old.1.2 hv.old.2,
    stringConv_uid _ _ hv.new.1.2 hv.new.2, bind, Except.bind, pure, Except.pure, wrapValueError]

end Ofx.Header
