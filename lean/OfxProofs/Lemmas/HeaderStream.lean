/-
The byte-stream half of `parse_header`: reading lines, the reconstructed `rawheader`, and how inserting a
line feed after the first line changes a v1 header text.
-/
import OfxProofs.Lemmas.Header
namespace Ofx.Header
open Ofx Ofx.Codec Ofx.Spec.HeaderLayout

/-! ### line feeds -/

def hasLF (s : Str) : Bool := s.any (· == '\n')

theorem hasLF_of_class (p : Char → Bool) (hp : ∀ c, p c = true → isSpace c = false) (v : Str)
    (hv : ∀ c ∈ v, p c = true) : hasLF v = false := by
  induction v with
  | nil => rfl
  | cons c cs ih =>
    have : c ≠ '\n' := by
      intro h
      have := hp c (hv c (by simp))
      rw [h] at this
      exact absurd this (by decide)
    simp only [hasLF, List.any_cons, Bool.or_eq_false_iff, beq_eq_false_iff_ne]
    exact ⟨this, by simpa [hasLF] using ih (fun c hc => hv c (by simp [hc]))⟩

/-- blanks after colons carry no line feed -/
structure V1W.NoLF (t : V1W) : Prop where
  b1 : hasLF t.b1 = false
  b2 : hasLF t.b2 = false
  b3 : hasLF t.b3 = false
  b4 : hasLF t.b4 = false
  b5 : hasLF t.b5 = false
  b6 : hasLF t.b6 = false
  bc : ∀ b v w, t.comp = some (b, v, w) → hasLF b = false
  b8 : hasLF t.b8 = false
  b9 : hasLF t.b9 = false

/-! ### reading lines -/

/-- `bytes.decode("ascii", errors="replace")` -/
def chars (bs : Bytes) : Str := decodeAsciiReplace bs

theorem chars_asciiBytes (s : Str) (hs : isAscii s) : chars (asciiBytes s) = s := by
  induction s with
  | nil => rfl
  | cons c cs ih =>
    have hc := (isAscii_cons.1 hs).1
    simp only [chars, decodeAsciiReplace, asciiBytes, List.map_cons] at ih ⊢
    rw [ih (isAscii_cons.1 hs).2, byteOf_toNat _ (by omega), if_pos hc, byteChar_byteOf c (by omega)]

theorem chars_append (a b : Bytes) : chars (a ++ b) = chars a ++ chars b := by simp [chars, decodeAsciiReplace]

theorem splitLine_cons (b : UInt8) (bs : Bytes) :
    splitLine (b :: bs) = if b = 10 then [b] else b :: splitLine bs := rfl

theorem firstLines_nil (n : Nat) : firstLines n [] = [] := by
  induction n with
  | zero => rfl
  | succ n ih => simp [firstLines, splitLine, ih]

theorem firstLines_cons (n : Nat) (b : UInt8) (bs : Bytes) :
    firstLines (n + 1) (b :: bs) = if b = 10 then b :: firstLines n bs else b :: firstLines (n + 1) bs := by
  by_cases hb : b = 10
  · simp [firstLines, splitLine, hb]
  · simp [firstLines, splitLine, hb]

/-- `rawheader` is the first nine lines, decoded leniently -/
theorem moreLines_eq (file : Bytes) (n pos : Nat) :
    moreLines file n pos = chars (firstLines n (file.drop pos)) := by
  induction n generalizing pos with
  | zero => rfl
  | succ n ih =>
    simp only [firstLines, moreLines, readline, chars_append]
    rw [ih, List.drop_drop]
    rfl

/-- number of line feeds -/
def lfCount (bs : Bytes) : Nat := bs.count 10

theorem firstLines_append (A G : Bytes) : ∀ n, lfCount A < n →
    firstLines n (A ++ G) = A ++ firstLines (n - lfCount A) G := by
  induction A with
  | nil => intro n _; simp [lfCount]
  | cons b bs ih =>
    intro n hn
    cases n with
    | zero => omega
    | succ n =>
      rw [List.cons_append, firstLines_cons]
      by_cases hb : b = 10
      · subst hb
        simp only [lfCount, List.count_cons_self] at hn ⊢
        simp only [if_true]
        rw [ih n (by simp only [lfCount]; omega)]
        simp only [lfCount, List.cons_append]
        have e : n + 1 - (List.count 10 bs + 1) = n - List.count 10 bs := by omega
        rw [e]
      · have : lfCount (b :: bs) = lfCount bs := by simp [lfCount, List.count_cons, hb]
        rw [if_neg hb, ih (n + 1) (by omega), this]
        rfl

/-! ### `strip` -/

theorem lstrip_allSpace (s : Str) (h : allSpace s) : lstrip s = [] := by
  induction s with
  | nil => rfl
  | cons c cs ih => simp [lstrip, h c (by simp), ih (fun x hx => h x (by simp [hx]))]

theorem strip_allSpace (s : Str) (h : allSpace s) : strip s = [] := by
  simp [strip, rstrip, lstrip_allSpace s h, lstrip]

theorem lstrip_append_space (w s : Str) (hw : allSpace w) : lstrip (w ++ s) = lstrip s := by
  induction w with
  | nil => rfl
  | cons c cs ih => simp [lstrip, hw c (by simp), ih (fun x hx => hw x (by simp [hx]))]

theorem lstrip_nonspace (c : Char) (cs : Str) (h : isSpace c = false) : lstrip (c :: cs) = c :: cs := by
  simp [lstrip, h]

/-- text that starts and ends with non-space characters is a fixed point of `strip`, whatever whitespace
    precedes it -/
theorem strip_ws_body (w body : Str) (hw : allSpace w) (c0 : Char) (cs : Str) (hb : body = c0 :: cs)
    (h0 : isSpace c0 = false) (cl : Char) (hl : body.getLast? = some cl) (hls : isSpace cl = false) :
    strip (w ++ body) = body := by
  unfold strip
  rw [lstrip_append_space w body hw, hb, lstrip_nonspace c0 cs h0, ← hb]
  unfold rstrip
  obtain ⟨init, hi⟩ : ∃ init, body = init ++ [cl] := by
    rw [List.getLast?_eq_some_iff] at hl
    exact hl
  rw [hi, List.reverse_append]
  simp only [List.reverse_cons, List.reverse_nil, List.nil_append, List.singleton_append]
  rw [lstrip_nonspace cl _ hls]
  simp

theorem strip_ne_nil_of_mem (s : Str) (c : Char) (hc : c ∈ s) (hs : isSpace c = false) : strip s ≠ [] := by
  have key : ∀ t : Str, (∃ c ∈ t, isSpace c = false) → lstrip t ≠ [] ∧ ∃ c ∈ lstrip t, isSpace c = false := by
    intro t
    induction t with
    | nil => intro ⟨c, hc, _⟩; simp at hc
    | cons d ds ih =>
      intro ⟨c, hc, hs⟩
      cases hd : isSpace d with
      | false => simp only [lstrip, hd]; exact ⟨by simp, d, by simp, hd⟩
      | true =>
        simp only [lstrip, hd, if_true]
        apply ih
        simp only [List.mem_cons] at hc
        rcases hc with hc | hc
        · subst hc; rw [hd] at hs; cases hs
        · exact ⟨c, hc, hs⟩
  obtain ⟨_, c1, hc1, hs1⟩ := key s ⟨c, hc, hs⟩
  unfold strip rstrip
  intro h
  have h' : lstrip (lstrip s).reverse = [] := by simpa using h
  exact (key (lstrip s).reverse ⟨c1, by simpa using hc1, hs1⟩).1 h'

/-! ### skipping the leading blank lines -/

theorem byteOf_lf : byteOf ('\n').toNat = 10 := by decide
theorem byteOf_10 : byteOf 10 = 10 := by decide

theorem byteOf_eq_lf (c : Char) (hc : c.toNat < 128) : byteOf c.toNat = 10 ↔ c = '\n' := by
  constructor
  · intro h
    have := congrArg UInt8.toNat h
    rw [byteOf_toNat _ (by omega)] at this
    exact Char.toNat_inj.1 (by simpa using this)
  · intro h; subst h; decide

theorem splitLine_noLF (l : Str) (Y : Bytes) (ha : isAscii l) (hn : hasLF l = false) :
    splitLine (asciiBytes l ++ Y) = asciiBytes l ++ splitLine Y := by
  induction l with
  | nil => rfl
  | cons c cs ih =>
    simp only [hasLF, List.any_cons, Bool.or_eq_false_iff, beq_eq_false_iff_ne] at hn
    have hc := (isAscii_cons.1 ha).1
    have : byteOf c.toNat ≠ 10 := fun h => hn.1 ((byteOf_eq_lf c hc).1 h)
    simp only [asciiBytes, List.map_cons, List.cons_append, splitLine_cons, if_neg this] at ih ⊢
    rw [ih (isAscii_cons.1 ha).2 (by simpa [hasLF] using hn.2)]

theorem wsNoLF_spec (l : Str) (h : wsNoLF l = true) : allSpace l ∧ isAscii l ∧ hasLF l = false := by
  simp only [wsNoLF, isAsciiSpace, List.all_eq_true, Bool.and_eq_true, decide_eq_true_eq, bne_iff_ne, ne_eq] at h
  refine ⟨fun c hc => (h c hc).1.1, fun c hc => (h c hc).1.2, ?_⟩
  simp only [hasLF, List.any_eq_false, beq_iff_eq]
  exact fun c hc => (h c hc).2

theorem findHeader_leading (file : Bytes) (leading : List Str) (hl : ∀ l ∈ leading, wsNoLF l = true) :
    ∀ fuel pos X, file.drop pos = asciiBytes (leadingText leading) ++ X → leading.length < fuel →
      findHeader file fuel pos = findHeader file (fuel - leading.length) (pos + (leadingText leading).length) := by
  induction leading with
  | nil => intro fuel pos X _ _; simp [leadingText]
  | cons l ls ih =>
    intro fuel pos X hX hf
    obtain ⟨hs, ha, hn⟩ := wsNoLF_spec l (hl l (by simp))
    cases fuel with
    | zero => simp at hf
    | succ f =>
      have e1 : file.drop pos = asciiBytes l ++ (10 :: (asciiBytes (leadingText ls) ++ X)) := by
        rw [hX, leadingText, asciiBytes_append]
        simp [asciiBytes, byteOf_10]
      have hline : splitLine (file.drop pos) = asciiBytes (l ++ ['\n']) := by
        rw [e1, splitLine_noLF l _ ha hn, splitLine_cons, if_pos rfl, asciiBytes_append]
        simp [asciiBytes, byteOf_10]
      have hasc : isAscii (l ++ ['\n']) := isAscii_append.2 ⟨ha, by intro c hc; simp at hc; subst hc; decide⟩
      have hstrip : strip (l ++ ['\n']) = [] := strip_allSpace _ (by
        intro c hc
        simp only [List.mem_append, List.mem_singleton] at hc
        rcases hc with hc | hc
        · exact hs c hc
        · subst hc; decide)
      rw [findHeader]
      simp only [readline, hline, show decodeAsciiReplace (asciiBytes (l ++ ['\n'])) = l ++ ['\n'] from chars_asciiBytes _ hasc, hstrip, List.isEmpty_nil, if_true]
      have e2 : file.drop (pos + (asciiBytes (l ++ ['\n'])).length) = asciiBytes (leadingText ls) ++ X := by
        rw [← List.drop_drop, e1, asciiBytes_length]
        have : (l ++ ['\n']).length = (asciiBytes l).length + 1 := by simp [asciiBytes_length]
        rw [this, List.drop_append, List.drop_of_length_le (by omega)]
        have : (asciiBytes l).length + 1 - (asciiBytes l).length = 1 := by omega
        rw [this]
        rfl
      rw [ih (fun x hx => hl x (by simp [hx])) f _ X e2 (by simpa using hf)]
      simp only [leadingText, List.length_cons, List.length_append, asciiBytes_length]
      congr 1
      · omega
      · simp; omega

/-! ### numbers, validators, constructors -/

theorem numbers_table : (List.range 1000).all (fun n =>
    !(pyStrNat n).isEmpty && (pyStrNat n).all isDigit && (intOfStr (pyStrNat n) == some (Int.ofNat n))) = true := by
  decide +kernel

theorem pyStrNat_small (n : Nat) (h : n < 1000) :
    inClass isDigit (pyStrNat n) ∧ intOfStr (pyStrNat n) = some (Int.ofNat n) := by
  have := List.all_eq_true.1 numbers_table n (List.mem_range.2 h)
  simp only [Bool.and_eq_true, Bool.not_eq_true', List.isEmpty_eq_false_iff, List.all_eq_true, beq_iff_eq] at this
  exact ⟨⟨this.1.1, this.1.2⟩, this.2⟩

theorem pyStrInt_small (i : Int) (h0 : 0 ≤ i) (h1 : i < 1000) :
    inClass isDigit (pyStrInt i) ∧ intOfStr (pyStrInt i) = some i := by
  have hn : i.natAbs < 1000 := by omega
  have := pyStrNat_small i.natAbs hn
  have e : Int.ofNat i.natAbs = i := by simp; omega
  unfold pyStrInt
  rw [if_neg (by omega), ← e]
  simpa using this

theorem replaceGo_noHead (c0 : Char) (o new s : Str) (h : c0 ∉ s) : replaceGo (c0 :: o) new 0 s = s := by
  induction s with
  | nil => rfl
  | cons c cs ih =>
    have hc : c0 ≠ c := fun e => h (by simp [e])
    have hb : (c0 == c) = false := by simpa using hc
    simp only [replaceGo, List.isPrefixOf, hb, Bool.false_and, Bool.false_eq_true, if_false]
    rw [ih (fun hm => h (by simp [hm]))]

theorem unescape_noamp (s : Str) (h : '&' ∉ s) : unescape s = s := by
  simp only [unescape, replace]
  have e1 : "&lt;".toList = '&' :: "lt;".toList := by decide
  have e2 : "&gt;".toList = '&' :: "gt;".toList := by decide
  have e3 : "&nbsp;".toList = '&' :: "nbsp;".toList := by decide
  have e4 : "&apos;".toList = '&' :: "apos;".toList := by decide
  have e5 : "&quot;".toList = '&' :: "quot;".toList := by decide
  have e6 : "&amp;".toList = '&' :: "amp;".toList := by decide
  rw [e1, e2, e3, e4, e5, e6]
  simp only [replaceGo_noHead _ _ _ _ h]

theorem wordDash_noamp (v : Str) (hv : ∀ c ∈ v, isWordDash c = true) : '&' ∉ v := by
  intro h
  have := hv _ h
  exact absurd this (by decide)

theorem stringConv_uid (len : Option Nat) (u : Str) (hu : ∀ c ∈ u, isWordDash c = true)
    (hl : ∀ n, len = some n → u.length ≤ n) : stringConv len u = .ok u := by
  unfold stringConv
  rw [unescape_noamp u (wordDash_noamp u hu)]
  cases len with
  | none => rfl
  | some n => simp only; rw [if_neg (by have := hl n rfl; omega)]; rfl

/-- the fields of a v1 header lie in their domains and are spelt in the pattern's character classes -/
structure ValidV1 (p : V1P) (h : V1) : Prop where
  oh0 : 0 ≤ h.ofxheader ∧ h.ofxheader < 1000
  oh : pyStrInt h.ofxheader ∈ p.ofxheader
  data : h.data ∈ p.data ∧ inClass isUpper h.data
  ver0 : 0 ≤ h.version ∧ h.version < 1000
  ver : ∀ n, p.versionLen = some n → h.version < (10 : Int) ^ n
  sec : h.security ∈ p.security ∧ inClass isWord h.security
  enc : h.encoding ∈ p.encoding ∧ inClass isUpDigDash h.encoding
  cs : h.charset ∈ p.charset ∧ inClass isWordDash h.charset
  comp : h.compression ∈ p.compression ∧ inClass isUpper h.compression
  old : inClass isWordDash h.oldfileuid ∧ ∀ n, p.oldLen = some n → h.oldfileuid.length ≤ n
  new : inClass isWordDash h.newfileuid ∧ ∀ n, p.newLen = some n → h.newfileuid.length ≤ n

theorem orStr_some (s d : Str) (h : s ≠ []) : orStr (some s) d = s := by
  cases s with
  | nil => exact absurd rfl h
  | cons c cs => rfl

theorem orElse_str (s : Str) (d : Arg) (h : s ≠ []) : (Arg.str s).orElse d = .str s := by
  cases s with
  | nil => exact absurd rfl h
  | cons c cs => rfl

theorem ctorV1_valid (p : V1P) (h : V1) (hv : ValidV1 p h) (comp : Option Str)
    (hc : comp = some h.compression ∨ (comp = none ∧ h.compression = "NONE".toList)) :
    ctorV1 p (.str (pyStrInt h.version)) (.str (pyStrInt h.ofxheader)) (some h.data) (some h.security)
      (some h.encoding) (some h.charset) comp (some h.oldfileuid) (some h.newfileuid) = .ok h := by
  obtain ⟨hoc, hoi⟩ := pyStrInt_small _ hv.oh0.1 hv.oh0.2
  obtain ⟨hvc, hvi⟩ := pyStrInt_small _ hv.ver0.1 hv.ver0.2
  have hcomp : orStr comp "NONE".toList = h.compression := by
    rcases hc with hc | ⟨hc, hn⟩
    · rw [hc, orStr_some _ _ hv.comp.2.1]
    · rw [hc, hn]; rfl
  have hint : integerConv p.versionLen h.version = .ok h.version := by
    unfold integerConv
    cases hl : p.versionLen with
    | none => rfl
    | some n => simp only; rw [if_neg (by have := hv.ver n hl; omega)]; rfl
  unfold ctorV1
  simp only [orElse_str _ _ hoc.1, orElse_str _ _ hvc.1, toInt, hoi, hvi, oneOfInt, hv.oh, if_true,
    orStr_some _ _ hv.data.2.1, oneOfStr, hv.data.1, hint, orStr_some _ _ hv.sec.2.1, hv.sec.1,
    orStr_some _ _ hv.enc.2.1, hv.enc.1, orStr_some _ _ hv.cs.2.1, hv.cs.1, hcomp, hv.comp.1,
    orStr_some _ _ hv.old.1.1, orStr_some _ _ hv.new.1.1, stringConv_uid _ _ hv.old.1.2 hv.old.2,
    stringConv_uid _ _ hv.new.1.2 hv.new.2, bind, Except.bind, pure, Except.pure, wrapValueError]

end Ofx.Header
