/-
Lemmas for C18 (`--write`): which options `mk_server_cfg` can touch; the global CLIENTUID.
-/
import OfxProofs.Lemmas.OfxgetFiles

namespace Ofx.Ofxget
open Ofx Ofx.Spec.Ofxget

theorem lookup_mapErase_ne {β : Type} (k k' : Name) (m : List (Name × β)) (h : k' ≠ k) :
    (mapErase k m).lookup k' = m.lookup k' := by
  induction m with
  | nil => rfl
  | cons kv rest ih =>
    obtain ⟨a, b⟩ := kv
    simp only [mapErase]
    by_cases hak : (a == k) = true
    · have hak' : a = k := by simpa using hak
      subst hak'
      have : (k' == a) = false := by simpa using h
      simp [hak, List.lookup_cons, this]
    · have hakf : (a == k) = false := by simpa using hak
      simp only [hakf, Bool.false_eq_true, if_false, List.lookup_cons, ih]

theorem set_look_ne (c : Ini) (sect : Str) (k : Name) (v : Str) (sect' : Str) (k' : Name) (hk : k' ≠ lower k) :
    (c.set sect k v).look sect' k' = c.look sect' k' := by
  unfold Ini.set
  by_cases hd : (sect == defaultSect) = true
  · simp only [hd, if_true, Ini.look, Ini.sect]
    split
    · rw [lookup_mapSet]; simp [hk]
    · rfl
  · have hdf : (sect == defaultSect) = false := by simpa using hd
    simp only [hdf, Bool.false_eq_true, if_false, Ini.look, Ini.sect]
    split
    · rfl
    · rw [sect_mapSet]
      by_cases hs : sect' = sect
      · subst hs
        simp only [if_true, lookup_mapSet, hk, if_false, Ini.sect]
      · simp only [hs, if_false]

theorem removeOption_look_ne (c : Ini) (sect : Str) (k : Name) (sect' : Str) (k' : Name) (hk : k' ≠ lower k) :
    (c.removeOption sect k).look sect' k' = c.look sect' k' := by
  unfold Ini.removeOption
  by_cases hd : (sect == defaultSect) = true
  · simp only [hd, if_true, Ini.look, Ini.sect]
    split
    · rw [lookup_mapErase_ne _ _ _ hk]
    · rfl
  · have hdf : (sect == defaultSect) = false := by simpa using hd
    simp only [hdf, Bool.false_eq_true, if_false, Ini.look, Ini.sect]
    split
    · rfl
    · rw [sect_mapSet]
      by_cases hs : sect' = sect
      · subst hs
        simp only [if_true, lookup_mapErase_ne _ _ _ hk, Ini.sect]
      · simp only [hs, if_false]

/-- one turn of the write loop either leaves the configuration alone or assigns the option in the server's section -/
theorem writeOpt_cases (T : Tables) (args : Chain) (libCfg : Map) (server : Str) (cfg cfg' : Ini) (ot : Name × CfgTy)
    (h : writeOpt T args libCfg server cfg ot = .ok cfg') :
    cfg' = cfg ∨ ∃ txt, cfg' = cfg.set server ot.1 txt := by
  unfold writeOpt at h
  split at h
  · simp only [pure, Except.pure, Except.ok.injEq] at h; exact Or.inl h.symm
  · simp only [bind, Except.bind] at h
    split at h
    · cases h
    · split at h
      · split at h
        · cases h
        · simp only [pure, Except.pure, Except.ok.injEq] at h
          exact Or.inr ⟨_, h.symm⟩
      · simp only [pure, Except.pure, Except.ok.injEq] at h; exact Or.inl h.symm

/-- one turn of the write loop touches at most the option it is about -/
theorem writeOpt_look_ne (T : Tables) (args : Chain) (libCfg : Map) (server : Str) (cfg cfg' : Ini) (ot : Name × CfgTy)
    (h : writeOpt T args libCfg server cfg ot = .ok cfg') (sect' : Str) (k' : Name) (hk : k' ≠ lower ot.1) :
    cfg'.look sect' k' = cfg.look sect' k' := by
  rcases writeOpt_cases T args libCfg server cfg cfg' ot h with rfl | ⟨txt, rfl⟩
  · rfl
  · exact set_look_ne _ _ _ _ _ _ hk

theorem foldlM_preserves {α β : Type} (f : β → α → PyM β) (P : β → Prop) (l : List α)
    (hstep : ∀ b a b', a ∈ l → f b a = .ok b' → P b → P b') (b b' : β) (h : l.foldlM f b = .ok b') (hb : P b) : P b' := by
  induction l generalizing b with
  | nil =>
    simp only [List.foldlM_nil, pure, Except.pure, Except.ok.injEq] at h
    rw [← h]; exact hb
  | cons a l ih =>
    rw [List.foldlM_cons] at h
    simp only [bind, Except.bind] at h
    cases hfa : f b a with
    | error e => rw [hfa] at h; cases h
    | ok b1 =>
      rw [hfa] at h
      exact ih (fun b a' b' ha' => hstep b a' b' (by simp [ha'])) b1 h (hstep b a b1 (by simp) hfa hb)

theorem ensureSection_look (c : Ini) (server sect' : Str) (k : Name) (v : Str)
    (h : (ensureSection c server).look sect' k = some v) : c.look sect' k = some v := by
  unfold ensureSection at h
  split at h
  · exact h
  · split at h
    · rename_i hsd
      have hsd' : server = defaultSect := by simpa using hsd
      simp only [Ini.look, Ini.sect] at h ⊢
      split at h
      · cases h
      · rename_i hne
        simp only [hne, if_false]
        exact h
    · rename_i hns _
      simp only [Ini.look, Ini.sect] at h ⊢
      split
      · rename_i hd; simp only [hd, if_true] at h; exact h
      · rename_i hd
        simp only [hd, if_false] at h
        have hnone : c.sections.lookup server = none := by
          cases hl : c.sections.lookup server with
          | none => rfl
          | some x => simp [Ini.hasSection, hl] at hns
        cases hl : c.sections.lookup sect' with
        | some x =>
          have : (c.sections ++ [(server, [])]).lookup sect' = some x := by
            rw [List.lookup_append, hl]; rfl
          rw [this] at h
          simpa using h
        | none =>
          have : ((c.sections ++ [(server, ([] : Sect))]).lookup sect').getD [] = [] := by
            rw [List.lookup_append, hl]
            simp only [Option.none_or, List.lookup_cons, List.lookup_nil]
            cases sect' == server <;> rfl
          rw [this] at h
          cases h

/-- **`--write` never adds or changes an option that is not CONFIGURABLE** (in particular `password`):
    whatever `mk_server_cfg` leaves under a name `k'` that is not the `optionxform` of a CONFIGURABLE option and is
    not `clientuid`, in any section, was already there after the reload of the user's file. -/
theorem mkServerCfg_untouched (T : Tables) (args : Chain) (mem lib : Ini) (disk : FileC) (uuid : Str) (cfg' : Ini)
    (h : mkServerCfg T args mem lib disk uuid = .ok cfg') (k' : Name)
    (hk : ∀ ot ∈ T.configurable, k' ≠ lower ot.1) (hkc : k' ≠ lower "clientuid".toList)
    (sect' : Str) (v : Str) (hv : cfg'.look sect' k' = some v) :
    (({ mem with sections := [] } : Ini).loadFile disk).look sect' k' = some v := by
  unfold mkServerCfg at h
  simp only [bind, Except.bind] at h
  cases hsn : serverNick args with
  | error e => rw [hsn] at h; cases h
  | ok server =>
    rw [hsn] at h
    simp only at h
    cases hlib : readConfig T lib server with
    | error e => rw [hlib] at h; cases h
    | ok libCfg =>
      rw [hlib] at h
      simp only at h
      have hinv := foldlM_preserves (writeOpt T args libCfg server)
        (fun c => c.look sect' k' = (ensureSection (reloadCfg mem disk uuid) server).look sect' k')
        T.configurable
        (fun b a b' ha hf hb => by
          show b'.look sect' k' = _
          rw [writeOpt_look_ne T args libCfg server b b' a hf sect' k' (hk a ha)]; exact hb)
        _ cfg' h rfl
      rw [hinv] at hv
      have h1 := ensureSection_look _ _ _ _ _ hv
      unfold reloadCfg at h1
      simp only at h1
      split at h1
      · exact h1
      · rw [set_look_ne _ _ _ _ _ _ hkc] at h1
        exact h1

end Ofx.Ofxget
