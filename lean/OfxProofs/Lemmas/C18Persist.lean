/-
Lemmas for `Props/C18Persist.lean`: what `test_cfg_val` answers, what one turn of the write loop and the whole of
`mk_server_cfg` leave in the server's section for one option (all outcomes), and what the next run reads.
-/
import OfxModel.Spec.PersistOk
import OfxProofs.Lemmas.OfxgetPersist

namespace Ofx.Ofxget
open Ofx Ofx.Spec.Ofxget Ofx.Spec.Persist

/-! ### `test_cfg_val`, all outcomes -/

theorem testCfgVal_ok (T : Tables) (g : Str) (libCfg : Map) (k : Name) (v d : CfgVal)
    (hd : T.defaults.lookup k = some d) :
    testCfgVal T (.ok g) libCfg k v = .ok
      (if isNullArg v then CfgAction.skip
       else if (k == "clientuid".toList) && pyEq v (.str g) then CfgAction.skip
       else if pyEq v ((libCfg.lookup k).getD d) then CfgAction.ifStored else CfgAction.write) := by
  unfold testCfgVal
  generalize "clientuid".toList = cu
  by_cases hn : isNullArg v = true
  · simp [hn, pure, Except.pure]
  · have hnf : isNullArg v = false := by simpa using hn
    simp only [hnf, Bool.false_eq_true, if_false, bind, Except.bind, hd]
    by_cases hk : (k == cu) = true
    · simp only [hk, if_true, pure, Except.pure, Bool.true_and]
      by_cases hp : pyEq v (.str g) = true
      · simp [hp]
      · have hpf : pyEq v (.str g) = false := by simpa using hp
        simp [hpf]
    · have hkf : (k == cu) = false := Bool.eq_false_iff.mpr hk
      simp [hkf, pure, Except.pure]

/-- the decision of one turn of the loop, on the configuration as it stands -/
def turnSaves (cfg : Ini) (libCfg : Map) (s : Str) (k : Name) (v d : CfgVal) (g : Str) : Bool :=
  !isNullArg v && !((k == "clientuid".toList) && pyEq v (.str g)) &&
    (!pyEq v ((libCfg.lookup k).getD d) || ((cfg.look s k).isSome || (cfg.defaults.lookup k).isSome))

theorem get_isSome (c : Ini) (s : Str) (hs : s ≠ defaultSect) (k : Name) :
    (c.get s k).isSome = ((c.look s k).isSome || (c.defaults.lookup k).isSome) := by
  simp only [Ini.get, Ini.raw, Ini.look, hs, if_false]
  cases (c.sect s).lookup k <;> simp

/-- **one turn of the write loop, every outcome**: the option is assigned in the server's section exactly when
    `turnSaves`; otherwise the configuration is left alone -/
theorem writeOpt_self (T : Tables) (args : Chain) (libCfg : Map) (s : Str) (hs : s ≠ defaultSect)
    (cfg cfg' : Ini) (hc : Canon cfg) (k : Name) (ty : CfgTy) (hk : lower k = k) (v d : CfgVal) (g : Str)
    (hv : args.get? k = some v) (hd : T.defaults.lookup k = some d)
    (hg : cfg.defaults.lookup "clientuid".toList = some g)
    (h : writeOpt T args libCfg s cfg (k, ty) = .ok cfg') :
    (turnSaves cfg libCfg s k v d g = true → ∃ txt, arg2config ty v = .ok txt ∧ cfg' = cfg.set s k txt) ∧
    (turnSaves cfg libCfg s k v d g = false → cfg' = cfg) := by
  unfold writeOpt at h
  simp only [hv, bind, Except.bind, get_default cfg hc, hg, pure, Except.pure, testCfgVal_ok T g libCfg k v d hd,
    hk, get_isSome cfg s hs k] at h
  unfold turnSaves
  by_cases hn : isNullArg v = true
  · simp only [hn, if_true] at h
    simp only [hn, Bool.not_true, Bool.false_and]
    refine ⟨fun hh => Bool.noConfusion hh, fun _ => ?_⟩
    simpa using h.symm
  · have hnf : isNullArg v = false := by simpa using hn
    simp only [hnf, Bool.false_eq_true, if_false] at h
    simp only [hnf, Bool.not_false, Bool.true_and]
    by_cases hu : ((k == "clientuid".toList) && pyEq v (.str g)) = true
    · simp only [hu, if_true] at h
      simp only [hu, Bool.not_true, Bool.false_and]
      refine ⟨fun hh => Bool.noConfusion hh, fun _ => ?_⟩
      simpa using h.symm
    · have huf : ((k == "clientuid".toList) && pyEq v (.str g)) = false := by simpa using hu
      simp only [huf, Bool.false_eq_true, if_false] at h
      simp only [huf, Bool.not_false, Bool.true_and]
      by_cases hp : pyEq v ((libCfg.lookup k).getD d) = true
      · simp only [hp, if_true] at h
        simp only [hp, Bool.not_true, Bool.false_or]
        by_cases hst : ((cfg.look s k).isSome || (cfg.defaults.lookup k).isSome) = true
        · simp only [hst] at h ⊢
          refine ⟨fun _ => ?_, fun hh => Bool.noConfusion hh⟩
          cases ha : arg2config ty v with
          | error e => rw [ha] at h; simp at h
          | ok txt =>
            rw [ha] at h
            refine ⟨txt, rfl, ?_⟩
            simpa using h.symm
        · have hstf : ((cfg.look s k).isSome || (cfg.defaults.lookup k).isSome) = false :=
            Bool.eq_false_iff.mpr hst
          simp only [hstf] at h ⊢
          refine ⟨fun hh => Bool.noConfusion hh, fun _ => ?_⟩
          simpa using h.symm
      · have hpf : pyEq v ((libCfg.lookup k).getD d) = false := by simpa using hp
        simp only [hpf, Bool.false_eq_true, if_false] at h
        simp only [hpf, Bool.not_false, Bool.true_or]
        refine ⟨fun _ => ?_, fun hh => Bool.noConfusion hh⟩
        cases ha : arg2config ty v with
        | error e => rw [ha] at h; simp at h
        | ok txt =>
          rw [ha] at h
          refine ⟨txt, rfl, ?_⟩
          simpa using h.symm

/-! ### the whole loop -/

theorem ensureSection_look_eq (c : Ini) (s : Str) (hs : s ≠ defaultSect) (s' : Str) (k : Name) :
    (ensureSection c s).look s' k = c.look s' k := by
  unfold ensureSection
  split
  · rfl
  · rename_i hns
    have hsf : (s == defaultSect) = false := by simpa using hs
    simp only [hsf, Bool.false_eq_true, if_false, Ini.look, Ini.sect]
    split
    · rfl
    · cases hl : c.sections.lookup s' with
      | some x =>
        have : (c.sections ++ [(s, [])]).lookup s' = some x := by
          rw [List.lookup_append, hl]; rfl
        rw [this]
      | none =>
        have : ((c.sections ++ [(s, ([] : Sect))]).lookup s').getD [] = [] := by
          rw [List.lookup_append, hl]
          simp only [Option.none_or, List.lookup_cons, List.lookup_nil]
          cases s' == s <;> rfl
        rw [this]
        rfl

theorem turnSaves_congr (c1 c2 : Ini) (libCfg : Map) (s : Str) (k : Name) (v d : CfgVal) (g : Str)
    (h1 : c1.look s k = c2.look s k) (h2 : c1.defaults = c2.defaults) :
    turnSaves c1 libCfg s k v d g = turnSaves c2 libCfg s k v d g := by
  unfold turnSaves
  rw [h1, h2]

/-- **what `mk_server_cfg` leaves in the server's section for one option — every outcome of `test_cfg_val`.**
    Written (the text `arg2config` makes of the value in effect) exactly when `turnSaves` holds of the re-read
    configuration; otherwise the section says what it said. -/
theorem mkServerCfg_look (T : Tables) (hlow : ∀ ot ∈ T.configurable, lower ot.1 = ot.1)
    (hnd : (T.configurable.map (·.1)).Nodup)
    (args : Chain) (mem lib : Ini) (hmem : Canon mem) (disk : FileC) (uuid : Str) (cfg' : Ini) (s : Str)
    (hs : s ≠ defaultSect) (hnick : serverNick args = .ok s)
    (h : mkServerCfg T args mem lib disk uuid = .ok cfg')
    (k : Name) (ty : CfgTy) (hkt : (k, ty) ∈ T.configurable) (v : CfgVal) (hv : args.get? k = some v)
    (libCfg : Map) (hlib : readConfig T lib s = .ok libCfg)
    (d : CfgVal) (hd : T.defaults.lookup k = some d)
    (g : Str) (hg : (reloadCfg mem disk uuid).defaults.lookup "clientuid".toList = some g) :
    (turnSaves (reloadCfg mem disk uuid) libCfg s k v d g = true →
        ∃ txt, arg2config ty v = .ok txt ∧ cfg'.look s k = some txt) ∧
    (turnSaves (reloadCfg mem disk uuid) libCfg s k v d g = false →
        cfg'.look s k = (reloadCfg mem disk uuid).look s k) := by
  unfold mkServerCfg at h
  simp only [bind, Except.bind, hnick, hlib] at h
  obtain ⟨pre, post, hsplit⟩ := List.append_of_mem hkt
  rw [hsplit] at h
  obtain ⟨bm, hpre, hrest⟩ := foldlM_append_ok _ pre ((k, ty) :: post) _ cfg' h
  rw [List.foldlM_cons] at hrest
  simp only [bind, Except.bind] at hrest
  have hnd' : (pre.map (·.1) ++ k :: post.map (·.1)).Nodup := by
    have := hnd
    rw [hsplit] at this
    simpa using this
  have hkpre : ∀ ot ∈ pre, k ≠ lower ot.1 := by
    intro ot hot heq
    have hl : lower ot.1 = ot.1 := hlow ot (by rw [hsplit]; simp [hot])
    rw [hl] at heq
    have h2 := (List.nodup_append.mp hnd').2.2
    exact h2 ot.1 (List.mem_map_of_mem hot) k (by simp) heq.symm
  have hkpost : ∀ ot ∈ post, k ≠ lower ot.1 := by
    intro ot hot heq
    have hl : lower ot.1 = ot.1 := hlow ot (by rw [hsplit]; simp [hot])
    rw [hl] at heq
    have h2 := (List.nodup_append.mp hnd').2.1
    have h3 := (List.nodup_cons.mp h2).1
    exact h3 (heq ▸ List.mem_map_of_mem hot)
  cases hturn : writeOpt T args libCfg s bm (k, ty) with
  | error e => rw [hturn] at hrest; cases hrest
  | ok bk =>
    rw [hturn] at hrest
    simp only at hrest
    have hbm := foldlM_preserves (writeOpt T args libCfg s)
      (fun c => c.defaults = (reloadCfg mem disk uuid).defaults ∧ Canon c ∧
        c.look s k = (reloadCfg mem disk uuid).look s k) pre
      (fun b a b' ha hf hb =>
        ⟨by rw [writeOpt_defaults T args libCfg s hs b b' a hf]; exact hb.1,
         writeOpt_canon T args libCfg s b b' a hf hb.2.1,
         by rw [writeOpt_look_ne T args libCfg s b b' a hf s k (hkpre a ha)]; exact hb.2.2⟩)
      _ bm hpre ⟨ensureSection_defaults _ _ hs, canon_ensureSection _ (canon_reloadCfg mem hmem disk uuid) s hs,
        ensureSection_look_eq _ _ hs _ _⟩
    have hgb : bm.defaults.lookup "clientuid".toList = some g := by rw [hbm.1]; exact hg
    have hself := writeOpt_self T args libCfg s hs bm bk hbm.2.1 k ty (hlow _ hkt) v d g hv hd hgb hturn
    rw [turnSaves_congr bm (reloadCfg mem disk uuid) libCfg s k v d g hbm.2.2 hbm.1] at hself
    have hpost : cfg'.look s k = bk.look s k :=
      foldlM_preserves (writeOpt T args libCfg s) (fun c => c.look s k = bk.look s k) post
        (fun b a b' ha hf hb => by
          show b'.look s k = bk.look s k
          rw [writeOpt_look_ne T args libCfg s b b' a hf s k (hkpost a ha)]; exact hb)
        bk cfg' hrest rfl
    refine ⟨fun hsv => ?_, fun hsv => ?_⟩
    · obtain ⟨txt, htxt, hbk⟩ := hself.1 hsv
      refine ⟨txt, htxt, ?_⟩
      rw [hpost, hbk]
      have := set_look_eq bm s hs k txt
      rwa [hlow _ hkt] at this
    · rw [hpost, hself.2 hsv]
      exact hbm.2.2

/-! ### the next run -/

theorem ohSource_eq_ohRecord (lookup : Str → Option OhRec) (three : Chain) :
    ohSource lookup three = ohRecord lookup (three.get? "ofxhome".toList) := by
  unfold ohSource
  generalize three.get? "ofxhome".toList = o
  cases o with
  | none => rfl
  | some v => cases v <;> rfl

theorem ohRecord_lookup_ofxhome (lookup : Str → Option OhRec) (id : Option CfgVal) :
    (ohRecord lookup id).lookup "ofxhome".toList = none := by
  unfold ohRecord
  split
  · split
    · rfl
    · split
      · rfl
      · rfl
  · rfl

theorem firstSetter_skip (a b o d : Map) (k : Name) (h : o.lookup k = none) :
    firstSetter [a, b, o, d] k = firstSetter [a, b, d] k := by
  simp only [firstSetter, h]

theorem loadLib_look (fidb : FileC) (s : Str) (k : Name) : (loadLib fidb).look s k = fileLookup fidb s k := by
  unfold loadLib
  rw [loadFile_look, empty_look, Option.or_none]

/-- **what the next run has in effect for an option it does not give on the command line**, on the file the save
    produced: the typed reading of the first text found in [server's section of ofxget.cfg, server's section of
    fi.cfg, DEFAULT of ofxget.cfg, DEFAULT of fi.cfg]; nothing there: the OFX Home record under the id in effect at
    that run, else DEFAULTS. -/
theorem rerun_effective (T : Tables) (hwf : T.WF = true) (hnd : (T.configurable.map (·.1)).Nodup)
    (lookup : Str → Option OhRec) (fidb : FileC) (cfg' : Ini) (hcanon : Canon cfg') (s : Str)
    (hs : s ≠ defaultSect) (hhas : cfg'.hasSection s = true)
    (k : Name) (ty : CfgTy) (hkt : (k, ty) ∈ T.configurable)
    (ns2 : Map) (c2 : Chain) (dr : CfgVal)
    (hsrv2 : (extractns ns2).lookup "server".toList = some (.str s))
    (hdry2 : (extractns ns2).lookup "dryrun".toList = some dr) (htd : truthy dr = true)
    (hk2 : (extractns ns2).lookup k = none)
    (h2 : mergeConfig T lookup ns2 (loadUser fidb cfg'.toFile) = .ok c2) :
    match (((cfg'.look s k).map strip).or (fileLookup fidb s k)).or
        (((cfg'.look defaultSect k).map strip).or (fileLookup fidb defaultSect k)) with
    | some t => ∃ tv, typedOfStr T ty t = .ok tv ∧ effective c2 k = some tv
    | none => effective c2 k = lowOf T lookup (effective c2 "ofxhome".toList) k := by
  obtain ⟨userCfg, hu, he⟩ := mergeConfig_effective_dry T hwf lookup ns2 _ c2 dr hdry2 htd h2
  have hrc : readConfig T (loadUser fidb cfg'.toFile) s = .ok userCfg := by
    unfold userCfgOf at hu
    rw [hsrv2] at hu
    exact hu
  have hcont : (loadUser fidb cfg'.toFile).contains s = true := by
    rw [loadUser_contains _ _ _ hs, fileHasSection_toFile _ _ hs, hhas]
    simp
  have hty : T.configurable.lookup k = some ty := by
    apply lookup_of_mem_unique _ _ _ hkt
    intro ty' hmem
    have : ∀ (l : List (Name × CfgTy)), (l.map (·.1)).Nodup → (k, ty) ∈ l → (k, ty') ∈ l → ty' = ty := by
      intro l
      induction l with
      | nil => intro _ h; cases h
      | cons a l ih =>
        intro hn h1 h2
        have hn' : (a.1 :: l.map (·.1)).Nodup := hn
        rw [List.nodup_cons] at hn'
        rcases List.mem_cons.mp h1 with e1 | e1
        · rcases List.mem_cons.mp h2 with e2 | e2
          · rw [← e1] at e2; exact (Prod.mk.inj e2).2
          · exact absurd (List.mem_map_of_mem (f := (·.1)) e2) (by have := hn'.1; rw [← e1] at this; exact this)
        · rcases List.mem_cons.mp h2 with e2 | e2
          · exact absurd (List.mem_map_of_mem (f := (·.1)) e1) (by have := hn'.1; rw [← e2] at this; exact this)
          · exact ih hn'.2 e1 e2
    exact this _ hnd hkt hmem
  have hl := readConfig_lookup T _ s userCfg hs hcont hrc k ty hty
  rw [raw_layering fidb cfg'.toFile s k hs, fileLookup_toFile cfg' hcanon, fileLookup_toFile cfg' hcanon] at hl
  split
  · rename_i t ht
    rw [ht] at hl
    obtain ⟨tv, htv, hlk⟩ := hl
    refine ⟨tv, htv, ?_⟩
    rw [he k]
    simp only [firstSetter, hk2, hlk]
  · rename_i ht
    rw [ht] at hl
    simp only at hl
    have hoh : effective c2 "ofxhome".toList = Chain.get? [extractns ns2, userCfg, T.defaults] "ofxhome".toList := by
      rw [he, ohSource_eq_ohRecord, firstSetter_skip _ _ _ _ _ (ohRecord_lookup_ofxhome _ _), firstSetter_eq_get?]
    rw [he k, hoh]
    simp only [firstSetter, hk2, hl, lowOf, ohSource_eq_ohRecord]

/-! ### the view of a concrete run -/

theorem saves_viewOf (ns1 : Map) (fidb user : FileC) (uuid s : Str) (hs : s ≠ defaultSect) (k : Name) (ty : CfgTy)
    (v d : CfgVal) (libCfg : Map) (lowSave low : Option CfgVal) (g : Str)
    (hg : (reloadCfg (loadUser fidb user) user uuid).defaults.lookup "clientuid".toList = some g) :
    saves (viewOf ns1 fidb user uuid s k ty v ((libCfg.lookup k).getD d) lowSave low) =
      turnSaves (reloadCfg (loadUser fidb user) user uuid) libCfg s k v d g := by
  simp only [saves, uidSkip, stored, viewOf, turnSaves, hg, Ini.look, hs, if_false]

theorem keptText_viewOf (ns1 : Map) (fidb user : FileC) (uuid s : Str) (hs : s ≠ defaultSect) (k : Name) (ty : CfgTy)
    (v ld : CfgVal) (lowSave low : Option CfgVal) :
    keptText (viewOf ns1 fidb user uuid s k ty v ld lowSave low) =
      ((((reloadCfg (loadUser fidb user) user uuid).look s k).map strip).or (fileLookup fidb s k)).or
        ((((reloadCfg (loadUser fidb user) user uuid).look defaultSect k).map strip).or
          (fileLookup fidb defaultSect k)) := by
  rw [← loadLib_look, ← loadLib_look]
  simp only [keptText, viewOf, Ini.look, hs, if_false, if_true]

/-! ### `split(",")` yields one piece more than there are commas -/

theorem splitOn_go_length (sep : Char) (cur s : Str) : (splitOn.go sep cur s).length = s.count sep + 1 := by
  induction s generalizing cur with
  | nil => simp [splitOn.go]
  | cons c cs ih =>
    by_cases hc : c = sep
    · subst hc
      simp [splitOn.go, ih]
    · have hb : (c == sep) = false := by simpa using hc
      simp [splitOn.go, hc, ih]

theorem convertList_length (t : Str) : (convertList t).length = t.count ',' + 1 := by
  simp only [convertList, splitOn, List.length_map, splitOn_go_length]

/-! ### commas survive the way a list is written; a member holding one adds a piece -/

theorem count_lstrip (a : Char) (ha : isSpace a = false) (s : Str) : (lstrip s).count a = s.count a := by
  induction s with
  | nil => rfl
  | cons c cs ih =>
    simp only [lstrip]
    by_cases hc : isSpace c = true
    · have hne : (c == a) = false := by
        simp only [beq_eq_false_iff_ne, ne_eq]
        intro e; rw [e, ha] at hc; cases hc
      simp [hc, ih, List.count_cons, hne]
    · simp [hc]

theorem count_strip (a : Char) (ha : isSpace a = false) (s : Str) : (strip s).count a = s.count a := by
  simp [strip, rstrip, List.count_reverse, count_lstrip a ha]

theorem count_dropWhile (p : Char → Bool) (a : Char) (ha : p a = false) (s : Str) :
    (s.dropWhile p).count a = s.count a := by
  induction s with
  | nil => rfl
  | cons c cs ih =>
    by_cases hc : p c = true
    · have hne : (c == a) = false := by
        simp only [beq_eq_false_iff_ne, ne_eq]
        intro e; rw [e, ha] at hc; cases hc
      simp [hc, ih, List.count_cons, hne]
    · simp [hc]

theorem count_stripChars (chars : List Char) (a : Char) (ha : chars.contains a = false) (s : Str) :
    (stripChars chars s).count a = s.count a := by
  simp [stripChars, List.count_reverse, count_dropWhile _ a ha]

theorem count_writeList (s : Str) : (writeList s).count ',' = s.count ',' := by
  unfold writeList replace
  have : "'".toList = ['\''] := rfl
  rw [this, replaceGo_single, List.count_filter (by decide), count_stripChars _ _ (by decide)]

theorem count_flatMap_ge (f : Char → Str) (a : Char) (h : 1 ≤ (f a).count a) (s : Str) :
    s.count a ≤ (s.flatMap f).count a := by
  induction s with
  | nil => simp
  | cons c cs ih =>
    simp only [List.flatMap_cons, List.count_append, List.count_cons]
    by_cases hc : c = a
    · subst hc; simp; omega
    · have : (c == a) = false := by simpa using hc
      simp [this]; omega

/-- the escaping `repr` applies to one character inside quotes `q` -/
def reprEsc (q c : Char) : Str :=
  if c = '\\' then ['\\', '\\']
  else if c = q then ['\\', q]
  else if c = '\t' then ['\\', 't']
  else if c = '\n' then ['\\', 'n']
  else if c = '\r' then ['\\', 'r']
  else if c.toNat < 32 || c.toNat = 127 then '\\' :: 'x' :: [hexDigit (c.toNat / 16), hexDigit (c.toNat % 16)]
  else [c]

theorem pyReprStr_eq (s : Str) (q : Char) (hq : q = if s.contains '\'' && !s.contains '"' then '"' else '\'') :
    pyReprStr s = q :: (s.flatMap (reprEsc q) ++ [q]) := by
  subst hq
  rfl

theorem count_pyReprStr_ge (m : Str) : m.count ',' ≤ (pyReprStr m).count ',' := by
  by_cases hq : (m.contains '\'' && !m.contains '"') = true
  · rw [pyReprStr_eq m '"' (by simp only [hq, if_true])]
    have := count_flatMap_ge (reprEsc '"') ',' (by decide) m
    simp only [List.count_cons, List.count_append]
    omega
  · have hqf : (m.contains '\'' && !m.contains '"') = false := Bool.eq_false_iff.mpr hq
    rw [pyReprStr_eq m '\'' (by rw [hqf]; rfl)]
    have := count_flatMap_ge (reprEsc '\'') ',' (by decide) m
    simp only [List.count_cons, List.count_append]
    omega

theorem count_join_comma (xs : List Str) :
    xs.length ≤ (join ", ".toList xs).count ',' + 1 ∧
    ((∃ m ∈ xs, 1 ≤ m.count ',') → xs.length ≤ (join ", ".toList xs).count ',') := by
  induction xs with
  | nil => simp [join]
  | cons p ps ih =>
    cases ps with
    | nil =>
      simp only [join, List.length_cons, List.length_nil]
      refine ⟨by omega, ?_⟩
      rintro ⟨m, hm, hc⟩
      simp only [List.mem_singleton] at hm
      subst hm
      omega
    | cons r rest =>
      have hsep : (", ".toList).count ',' = 1 := by decide
      simp only [join, List.count_append, hsep, List.length_cons] at ih ⊢
      refine ⟨by omega, ?_⟩
      rintro ⟨m, hm, hc⟩
      rcases List.mem_cons.mp hm with e | e
      · subst e; omega
      · have := ih.2 ⟨m, e, hc⟩
        omega

/-- what is written for a list with a member containing `,` holds at least as many commas as the list has members -/
theorem count_saved_list (l : List Str) (h : ∃ m ∈ l, ',' ∈ m) :
    l.length ≤ (strip (writeList (pyStrList l))).count ',' := by
  rw [count_strip ',' (by decide), count_writeList]
  unfold pyStrList
  simp only [List.count_cons, List.count_append]
  have hj := (count_join_comma (l.map pyReprStr)).2 (by
    obtain ⟨m, hm, hc⟩ := h
    refine ⟨pyReprStr m, List.mem_map_of_mem hm, ?_⟩
    have h1 : 1 ≤ m.count ',' := List.count_pos_iff.mpr hc
    exact Nat.le_trans h1 (count_pyReprStr_ge m))
  simp only [List.length_map] at hj
  omega

/-- **a saved account list with a member containing `,` never reads back** -/
theorem savedReadsBack_list_comma (T : Tables) (l : List Str) (h : ∃ m ∈ l, ',' ∈ m) :
    savedReadsBack T .list (.list l) = false := by
  cases hr : savedReadsBack T .list (.list l) with
  | false => rfl
  | true =>
    exfalso
    simp only [savedReadsBack, arg2config, pyStr, typedOfStr, beq_iff_eq, CfgVal.list.injEq] at hr
    have hlen := convertList_length (strip (writeList (pyStrList l)))
    rw [hr] at hlen
    have := count_saved_list l h
    omega
/-! ### `strip` is idempotent; the re-read configuration in terms of the two files -/

theorem lstrip_head (s : Str) : lstrip s = [] ∨ ∃ c rest, lstrip s = c :: rest ∧ isSpace c = false := by
  induction s with
  | nil => left; rfl
  | cons c cs ih =>
    simp only [lstrip]
    by_cases hc : isSpace c = true
    · simp only [hc, if_true]; exact ih
    · have hcf : isSpace c = false := Bool.eq_false_iff.mpr hc
      simp only [hcf, Bool.false_eq_true, if_false]
      exact Or.inr ⟨c, cs, rfl, hcf⟩

theorem lstrip_fix (c : Char) (rest : Str) (hc : isSpace c = false) : lstrip (c :: rest) = c :: rest := by
  simp [lstrip, hc]

theorem lstrip_idem (s : Str) : lstrip (lstrip s) = lstrip s := by
  rcases lstrip_head s with h | ⟨c, rest, h, hc⟩
  · rw [h]; rfl
  · rw [h, lstrip_fix c rest hc]

theorem lstrip_append_nonspace (l : Str) (c : Char) (hc : isSpace c = false) : ∃ m, lstrip (l ++ [c]) = m ++ [c] := by
  induction l with
  | nil => exact ⟨[], by simp [lstrip, hc]⟩
  | cons a l ih =>
    by_cases ha : isSpace a = true
    · obtain ⟨m, hm⟩ := ih
      exact ⟨m, by simp [lstrip, ha, hm]⟩
    · have haf : isSpace a = false := Bool.eq_false_iff.mpr ha
      exact ⟨a :: l, by simp [lstrip, haf]⟩

theorem strip_idem (s : Str) : strip (strip s) = strip s := by
  unfold strip
  rcases lstrip_head s with h | ⟨c, rest, h, hc⟩
  · rw [h]; rfl
  · rw [h]
    have hr : ∃ m, rstrip (c :: rest) = c :: m := by
      unfold rstrip
      obtain ⟨m, hm⟩ := lstrip_append_nonspace rest.reverse c hc
      refine ⟨m.reverse, ?_⟩
      simp [List.reverse_cons, hm, List.reverse_append]
    obtain ⟨m, hm⟩ := hr
    rw [hm, lstrip_fix c m hc, ← hm]
    simp only [rstrip, List.reverse_reverse, lstrip_idem]

theorem kvsLookup_strip (kvs : List (Str × Str)) (k : Name) : (kvsLookup kvs k).map strip = kvsLookup kvs k := by
  induction kvs with
  | nil => rfl
  | cons kv rest ih =>
    simp only [kvsLookup]
    cases hr : kvsLookup rest k with
    | some x => rw [hr] at ih; simpa using ih
    | none =>
      simp only [Option.none_or]
      split
      · simp [strip_idem]
      · rfl

theorem fileLookup_strip (f : FileC) (s : Str) (k : Name) : (fileLookup f s k).map strip = fileLookup f s k := by
  induction f with
  | nil => rfl
  | cons sec rest ih =>
    simp only [fileLookup]
    cases hr : fileLookup rest s k with
    | some x => rw [hr] at ih; simpa using ih
    | none =>
      simp only [Option.none_or]
      split
      · exact kvsLookup_strip _ _
      · rfl

theorem reloadCfg_look_sect (mem : Ini) (user : FileC) (uuid s : Str) (hs : s ≠ defaultSect) (k : Name) :
    (reloadCfg mem user uuid).look s k = fileLookup user s k := by
  have hbase : (({ mem with sections := [] } : Ini).loadFile user).look s k = fileLookup user s k := by
    rw [loadFile_look]
    have : ({ mem with sections := [] } : Ini).look s k = none := by
      simp [Ini.look, hs, Ini.sect]
    rw [this, Option.or_none]
  unfold reloadCfg
  simp only
  split
  · exact hbase
  · rw [← hbase]
    simp [Ini.set, Ini.look, hs, Ini.sect]

theorem reloadCfg_look_default (fidb user : FileC) (uuid : Str) (k : Name) (hk : k ≠ "clientuid".toList) :
    (reloadCfg (loadUser fidb user) user uuid).defaults.lookup k =
      (fileLookup user defaultSect k).or (fileLookup fidb defaultSect k) := by
  have hbase : (({ loadUser fidb user with sections := [] } : Ini).loadFile user).defaults.lookup k =
      (fileLookup user defaultSect k).or (fileLookup fidb defaultSect k) := by
    rw [← look_default, loadFile_look]
    have h2 : ({ loadUser fidb user with sections := [] } : Ini).look defaultSect k = (loadUser fidb user).look defaultSect k := by
      simp [Ini.look]
    rw [h2]
    unfold loadUser
    rw [loadFile_look, loadFile_look, empty_look, Option.or_none]
    cases fileLookup user defaultSect k <;> rfl
  unfold reloadCfg
  simp only
  split
  · exact hbase
  · have hl : lower "clientuid".toList = "clientuid".toList := by decide
    simp only [Ini.set, BEq.rfl, if_true, lookup_mapSet, hl, hk, if_false]
    exact hbase
theorem map_strip_or (a b : Option Str) : (a.or b).map strip = (a.map strip).or (b.map strip) := by
  cases a <;> rfl

theorem fileLookup_no_section (f : FileC) (s : Str) (k : Name) (h : fileHasSection f s = false) :
    fileLookup f s k = none := by
  induction f with
  | nil => rfl
  | cons sec rest ih =>
    simp only [fileHasSection, List.any_cons, Bool.or_eq_false_iff] at h
    have hne : ¬ sec.1 = s := by simpa using h.1
    simp only [fileLookup, hne, if_false, Option.or_none]
    exact ih (by simpa [fileHasSection] using h.2)

end Ofx.Ofxget
