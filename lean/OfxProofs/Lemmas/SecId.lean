import OfxModel.Ofx.SecId
import OfxModel.Spec.SecId

namespace Ofx.SecId
open Ofx Ofx.Spec.SecId

theorem natDigits_lt100 : ∀ n, n < 100 → natDigits n = if n < 10 then [n] else [n / 10, n % 10] := by
  decide

theorem digitVal_digitChar : ∀ d, d < 10 → digitVal (digitChar d) = some d := by
  decide

theorem sumDigitChars_append_digits (ds : List Nat) (h : ∀ d ∈ ds, d < 10) (rest : Str) (r : Nat)
    (hr : sumDigitChars rest = .ok r) :
    sumDigitChars (ds.map digitChar ++ rest) = .ok (ds.sum + r) := by
  induction ds with
  | nil => simpa using hr
  | cons d ds ih =>
    have hd : d < 10 := h d (by simp)
    have := ih (fun x hx => h x (by simp [hx]))
    simp only [List.map_cons, List.cons_append, sumDigitChars, digitVal_digitChar d hd, this]
    simp [bind, Except.bind, pure, Except.pure]
    omega

theorem sum_pyStrNat (n : Nat) (hn : n < 100) (rest : Str) (r : Nat) (hr : sumDigitChars rest = .ok r) :
    sumDigitChars (pyStrNat n ++ rest) = .ok (ds n + r) := by
  unfold pyStrNat
  rw [natDigits_lt100 n hn]
  split
  · rename_i h
    have := sumDigitChars_append_digits [n] (by simp; omega) rest r hr
    simp only [ds] at *
    rw [this]; simp; omega
  · have := sumDigitChars_append_digits [n / 10, n % 10] (by simp; omega) rest r hr
    rw [this]; simp [ds]

theorem cusipCharVal_le (c : Char) (v : Nat) (h : cusipCharVal c = some v) : v ≤ 38 := by
  unfold cusipCharVal b36 at h
  split at h
  · simp at h; omega
  · split at h
    · simp at h; omega
    · split at h
      · simp at h; omega
      · split at h
        · rename_i h1; simp at h
          have := h1.2; have : c.toNat ≤ 57 := this
          omega
        · split at h
          · rename_i h1; simp at h
            have : c.toNat ≤ 90 := h1.2
            omega
          · split at h
            · rename_i h1; simp at h
              have : c.toNat ≤ 122 := h1.2
              omega
            · simp at h

theorem b36_le (c : Char) (v : Nat) (h : b36 c = some v) : v ≤ 35 := by
  unfold b36 at h
  split at h
  · rename_i h1; simp at h
    have : c.toNat ≤ 57 := h1.2
    omega
  · split at h
    · rename_i h1; simp at h
      have : c.toNat ≤ 90 := h1.2
      omega
    · split at h
      · rename_i h1; simp at h
        have : c.toNat ≤ 122 := h1.2
        omega
      · simp at h

theorem valsOf_cons {f : Char → Option Nat} {c : Char} {cs : Str} {vals : List Nat}
    (h : valsOf f (c :: cs) = some vals) :
    ∃ v vs, f c = some v ∧ valsOf f cs = some vs ∧ vals = v :: vs := by
  simp only [valsOf] at h
  split at h
  · rename_i v vs hv hvs; exact ⟨v, vs, hv, hvs, by simpa using h.symm⟩
  · simp at h

theorem valsOf_length {f : Char → Option Nat} : ∀ {s : Str} {vals : List Nat},
    valsOf f s = some vals → vals.length = s.length
  | [], vals, h => by simp [valsOf] at h; simp [← h]
  | c :: cs, vals, h => by
    obtain ⟨v, vs, _, hvs, rfl⟩ := valsOf_cons h
    simp [valsOf_length hvs]

theorem cusipParts_sum : ∀ (base : Str) (i : Nat) (vals : List Nat),
    valsOf cusipCharVal base = some vals →
    ∃ parts, cusipParts i base = .ok parts ∧ sumDigitChars parts.flatten = .ok (cusipSum i vals)
  | [], i, vals, h => by
    simp [valsOf] at h; subst h
    exact ⟨[], rfl, rfl⟩
  | c :: cs, i, vals, h => by
    obtain ⟨v, vs, hv, hvs, rfl⟩ := valsOf_cons h
    obtain ⟨ps, hps, hsum⟩ := cusipParts_sum cs (i + 1) vs hvs
    have hle := cusipCharVal_le c v hv
    refine ⟨(if i % 2 = 1 then pyStrNat (v * 2) else pyStrNat v) :: ps, ?_, ?_⟩
    · simp [cusipParts, cusipEncode, hv, hps, bind, Except.bind, pure, Except.pure]
    · simp only [List.flatten_cons, cusipSum]
      split
      · rename_i hi
        rw [sum_pyStrNat (v * 2) (by omega) _ _ hsum]
        simp [hi]
      · rename_i hi
        have : i % 2 = 0 := by omega
        rw [sum_pyStrNat v (by omega) _ _ hsum]
        simp [this]

theorem sedolSum_eq : ∀ (base : Str) (ws : List Nat) (vals : List Nat),
    valsOf b36 base = some vals → base.length ≤ ws.length →
    sedolSum base ws = .ok ((List.zipWith (· * ·) vals ws).sum)
  | [], ws, vals, h, _ => by
    simp [valsOf] at h; subst h; simp [sedolSum]
  | c :: cs, [], vals, h, hl => by simp at hl
  | c :: cs, w :: ws, vals, h, hl => by
    obtain ⟨v, vs, hv, hvs, rfl⟩ := valsOf_cons h
    have := sedolSum_eq cs ws vs hvs (by simpa using hl)
    simp [sedolSum, hv, this, bind, Except.bind, pure, Except.pure]

theorem pyStrNat_lt36 (v : Nat) (h : v ≤ 35) :
    pyStrNat v = (if v < 10 then [v] else [v / 10, v % 10]).map digitChar := by
  unfold pyStrNat; rw [natDigits_lt100 v (by omega)]

theorem isinExpand_eq : ∀ (base : Str) (vals : List Nat), valsOf b36 base = some vals →
    isinExpand base = .ok ((expand vals).map digitChar)
  | [], vals, h => by simp [valsOf] at h; subst h; rfl
  | c :: cs, vals, h => by
    obtain ⟨v, vs, hv, hvs, rfl⟩ := valsOf_cons h
    have := isinExpand_eq cs vs hvs
    have hle := b36_le c v hv
    simp [isinExpand, hv, this, bind, Except.bind, pure, Except.pure, expand, pyStrNat_lt36 v hle]

theorem expand_lt10 : ∀ (vals : List Nat), (∀ v ∈ vals, v ≤ 35) → ∀ d ∈ expand vals, d < 10
  | [], _, d, hd => by simp [expand] at hd
  | v :: vs, h, d, hd => by
    have hv : v ≤ 35 := h v (by simp)
    simp only [expand, List.mem_append] at hd
    rcases hd with hd | hd
    · split at hd
      · simp at hd; omega
      · simp at hd; omega
    · exact expand_lt10 vs (fun x hx => h x (by simp [hx])) d hd

theorem valsOf_b36_le : ∀ (s : Str) (vals : List Nat), valsOf b36 s = some vals → ∀ v ∈ vals, v ≤ 35
  | [], vals, h, v, hv => by simp [valsOf] at h; subst h; simp at hv
  | c :: cs, vals, h, x, hx => by
    obtain ⟨v, vs, hv, hvs, rfl⟩ := valsOf_cons h
    simp at hx
    rcases hx with rfl | hx
    · exact b36_le c _ hv
    · exact valsOf_b36_le cs vs hvs x hx

theorem isinDouble_sum : ∀ (dsr : List Nat) (n : Nat), (∀ d ∈ dsr, d < 10) →
    ∃ out, isinDouble n (dsr.map digitChar) = .ok out ∧ sumDigitChars out = .ok (luhnSumRev n dsr)
  | [], n, _ => ⟨[], rfl, rfl⟩
  | d :: dsr, n, h => by
    have hd : d < 10 := h d (by simp)
    obtain ⟨out, ho, hs⟩ := isinDouble_sum dsr (n + 1) (fun x hx => h x (by simp [hx]))
    by_cases hn : n % 2 = 1
    · refine ⟨digitChar d :: out, ?_, ?_⟩
      · simp [isinDouble, hn, ho, bind, Except.bind, pure, Except.pure]
      · have hn0 : ¬ n % 2 = 0 := by omega
        simp [sumDigitChars, digitVal_digitChar d hd, hs, luhnSumRev, hn0, bind, Except.bind, pure, Except.pure]
    · refine ⟨pyStrNat (d * 2) ++ out, ?_, ?_⟩
      · simp [isinDouble, hn, ho, digitVal_digitChar d hd, bind, Except.bind, pure, Except.pure]
      · have hn0 : n % 2 = 0 := by omega
        rw [sum_pyStrNat (d * 2) (by omega) _ _ hs]
        simp [luhnSumRev, hn0, Nat.mul_comm]


theorem take_append_len {α} (a b : List α) (n : Nat) (h : a.length = n) : (a ++ b).take n = a := by
  subst h; simp

theorem drop_append_len {α} (a b : List α) (n : Nat) (h : a.length = n) : (a ++ b).drop n = b := by
  subst h; simp

theorem checkChar_eq (s : Nat) : checkChar s = digitChar (check s) := rfl

theorem isinChecksum_ok {ag : List Str} {base : Str} {k : Char} (hk : isinChecksum ag base = .ok k) :
    base.length = 11 ∧ base.take 2 ∈ ag := by
  unfold isinChecksum at hk
  split at hk
  · simp at hk
  · rename_i h11
    split at hk
    · simp at hk
    · rename_i h2
      exact ⟨by simpa using h11, by simpa using h2⟩

theorem validateIsin_append {ag : List Str} {base : Str} {k : Char} (hk : isinChecksum ag base = .ok k) :
    validateIsin ag (base ++ [k]) = .ok true := by
  obtain ⟨hlen, hpre⟩ := isinChecksum_ok hk
  have h2 : (base ++ [k]).take 2 = base.take 2 := by
    rw [List.take_append_of_le_length (by omega)]
  simp [validateIsin, hlen, h2, hpre, take_append_len _ _ 11 hlen, drop_append_len _ _ 11 hlen,
    hk, bind, Except.bind, pure, Except.pure]


end Ofx.SecId
