/-
Lemmas about `OfxModel/Py/Int.lean` and `OfxModel/Py/Dec.lean`: decimal digit strings, `int(str(i)) = i`,
`Decimal(str(d)) = d`, `quantize` at the own exponent, and the lexical shape of `str(i)` / `str(d)`.
-/
import OfxModel.Py.Dec
import OfxModel.Spec.Lex

namespace Ofx

/-! ### digit lists -/

theorem digitsVal_foldl (ds : List Nat) (a : Nat) :
    ds.foldl (fun a d => 10 * a + d) a = a * 10 ^ ds.length + digitsVal ds := by
  induction ds generalizing a with
  | nil => simp [digitsVal]
  | cons d ds ih =>
    simp only [List.foldl, digitsVal, List.length_cons]
    rw [ih (10 * a + d), ih (10 * 0 + d)]
    simp [Nat.pow_succ]
    grind

theorem digitsVal_nil : digitsVal [] = 0 := rfl

theorem digitsVal_cons (d : Nat) (ds : List Nat) : digitsVal (d :: ds) = d * 10 ^ ds.length + digitsVal ds := by
  have := digitsVal_foldl ds (10 * 0 + d)
  simp only [digitsVal, List.foldl] at this ⊢
  simpa using this

theorem digitsVal_append (xs ys : List Nat) :
    digitsVal (xs ++ ys) = digitsVal xs * 10 ^ ys.length + digitsVal ys := by
  simp only [digitsVal, List.foldl_append]
  rw [digitsVal_foldl ys]
  rfl

theorem digitsVal_replicate_zero (n : Nat) (ys : List Nat) :
    digitsVal (List.replicate n 0 ++ ys) = digitsVal ys := by
  induction n with
  | zero => simp
  | succ n ih => simp [List.replicate_succ, digitsVal_cons, ih]

theorem natDigitsAux_lt (fuel n : Nat) (acc : List Nat) (h : ∀ d ∈ acc, d < 10) :
    ∀ d ∈ natDigitsAux fuel n acc, d < 10 := by
  induction fuel generalizing n acc with
  | zero => simpa [natDigitsAux] using h
  | succ f ih =>
    simp only [natDigitsAux]
    split
    · intro d hd
      simp at hd
      rcases hd with rfl | hd
      · assumption
      · exact h d hd
    · apply ih
      intro d hd
      simp at hd
      rcases hd with rfl | hd
      · omega
      · exact h d hd

theorem natDigits_lt (n : Nat) : ∀ d ∈ natDigits n, d < 10 :=
  natDigitsAux_lt _ _ [] (by simp)

theorem natDigitsAux_val (fuel n : Nat) (acc : List Nat) (h : n < fuel) :
    digitsVal (natDigitsAux fuel n acc) = n * 10 ^ acc.length + digitsVal acc := by
  induction fuel generalizing n acc with
  | zero => omega
  | succ f ih =>
    simp only [natDigitsAux]
    split
    · rw [digitsVal_cons]
    · rw [ih (n / 10) (n % 10 :: acc) (by omega), digitsVal_cons]
      simp only [List.length_cons, Nat.pow_succ]
      have := Nat.div_add_mod n 10
      grind

theorem natDigits_val (n : Nat) : digitsVal (natDigits n) = n := by
  simpa [natDigits, digitsVal_nil] using natDigitsAux_val (n + 1) n [] (by omega)

theorem natDigitsAux_ne_nil (fuel n : Nat) (acc : List Nat) (h : n < fuel) : natDigitsAux fuel n acc ≠ [] := by
  induction fuel generalizing n acc with
  | zero => omega
  | succ f ih =>
    simp only [natDigitsAux]
    split
    · simp
    · exact ih _ _ (by omega)

theorem natDigits_ne_nil (n : Nat) : natDigits n ≠ [] := natDigitsAux_ne_nil _ _ _ (by omega)

theorem natDigits_zero : natDigits 0 = [0] := by decide

/-! ### digit characters -/

theorem digitVal_digitChar' : ∀ d, d < 10 → digitVal (digitChar d) = some d := by decide
theorem digitChar_not_sign : ∀ d, d < 10 → digitChar d ≠ '-' ∧ digitChar d ≠ '+' := by decide
theorem digitChar_intSpace : ∀ d, d < 10 → intSpace (digitChar d) = false := by decide
theorem digitChar_isDigitC : ∀ d, d < 10 → Spec.isDigitC (digitChar d) = true := by decide
theorem digitChar_lower : ∀ d, d < 10 → asciiLower (digitChar d) = digitChar d := by decide

theorem spanDigits_digits (ds : List Nat) (h : ∀ d ∈ ds, d < 10) (rest : Str)
    (hr : spanDigits rest = ([], rest)) :
    spanDigits (ds.map digitChar ++ rest) = (ds, rest) := by
  induction ds with
  | nil => simpa using hr
  | cons d ds ih =>
    have hd : d < 10 := h d (by simp)
    have := ih (fun x hx => h x (by simp [hx]))
    simp [spanDigits, digitVal_digitChar' d hd, this]

theorem spanDigits_nil : spanDigits [] = ([], []) := rfl

theorem spanDigits_nondigit (c : Char) (cs : Str) (h : digitVal c = none) : spanDigits (c :: cs) = ([], c :: cs) := by
  simp [spanDigits, h]

theorem takeSign_other (c : Char) (r : Str) (h1 : c ≠ '-') (h2 : c ≠ '+') : takeSign (c :: r) = (false, c :: r) := by
  unfold takeSign
  split <;> simp_all

/-! ### `int(str(i)) = i` -/

theorem lstripBy_id (p : Char → Bool) (s : Str) (h : ∀ c ∈ s, p c = false) : lstripBy p s = s := by
  cases s with
  | nil => rfl
  | cons c cs => simp [lstripBy, h c (by simp)]

theorem stripBy_id (p : Char → Bool) (s : Str) (h : ∀ c ∈ s, p c = false) : stripBy p s = s := by
  unfold stripBy
  rw [lstripBy_id p s h, lstripBy_id p s.reverse (by simpa using h)]
  simp

theorem intBody_digits (ds : List Nat) (h : ∀ d ∈ ds, d < 10) (pd : Bool) (acc : Nat) (hne : ds ≠ [] ∨ pd = true) :
    intBody pd acc (ds.map digitChar) = some (acc * 10 ^ ds.length + digitsVal ds) := by
  induction ds generalizing pd acc with
  | nil =>
    rcases hne with h | h
    · exact absurd rfl h
    · subst h; simp [intBody, digitsVal_nil]
  | cons d ds ih =>
    have hd : d < 10 := h d (by simp)
    simp only [List.map_cons, intBody, digitVal_digitChar' d hd]
    rw [ih (fun x hx => h x (by simp [hx])) true (10 * acc + d) (Or.inr rfl), digitsVal_cons]
    simp only [List.length_cons, Nat.pow_succ]
    grind

theorem pyStrNat_ne_nil (n : Nat) : pyStrNat n ≠ [] := by
  simp [pyStrNat, natDigits_ne_nil]

theorem pyStrNat_intSpace (n : Nat) : ∀ c ∈ pyStrNat n, intSpace c = false := by
  intro c hc
  simp only [pyStrNat, List.mem_map] at hc
  obtain ⟨d, hd, rfl⟩ := hc
  exact digitChar_intSpace d (natDigits_lt n d hd)

theorem intBody_pyStrNat (n : Nat) : intBody false 0 (pyStrNat n) = some n := by
  have := intBody_digits (natDigits n) (natDigits_lt n) false 0 (Or.inl (natDigits_ne_nil n))
  simpa [pyStrNat, natDigits_val] using this

/-- `int(str(i)) == i` for every int -/
theorem pyIntParse_pyStrInt (i : Int) : pyIntParse (pyStrInt i) = some i := by
  unfold pyIntParse pyStrInt
  by_cases hi : i < 0
  · simp only [hi, if_true]
    rw [stripBy_id]
    · simp only [takeSign, intBody_pyStrNat]
      simp; omega
    · intro c hc
      simp at hc
      rcases hc with rfl | hc
      · decide
      · exact pyStrNat_intSpace _ c hc
  · simp only [hi, if_false]
    rw [stripBy_id _ _ (pyStrNat_intSpace _)]
    obtain ⟨d, ds, hds⟩ := List.exists_cons_of_ne_nil (natDigits_ne_nil i.natAbs)
    have hd : d < 10 := natDigits_lt i.natAbs d (by simp [hds])
    have e : pyStrNat i.natAbs = digitChar d :: ds.map digitChar := by simp [pyStrNat, hds]
    have hs := digitChar_not_sign d hd
    have := intBody_pyStrNat i.natAbs
    rw [e] at this ⊢
    rw [takeSign_other _ _ hs.1 hs.2]
    simp only [this]
    simp; omega

/-! ### the lexical shape of `str(i)` -/

theorem pyStrNat_all_digits (n : Nat) : (pyStrNat n).all Spec.isDigitC = true := by
  simp only [pyStrNat, List.all_map, List.all_eq_true]
  intro d hd
  exact digitChar_isDigitC d (natDigits_lt n d hd)

theorem lexInteger_pyStrInt (i : Int) : Spec.lexInteger (pyStrInt i) = true := by
  unfold Spec.lexInteger pyStrInt
  by_cases hi : i < 0
  · simp only [hi, if_true, Spec.dropSign]
    simp [pyStrNat_all_digits, pyStrNat_ne_nil]
  · simp only [hi, if_false]
    obtain ⟨d, ds, hds⟩ := List.exists_cons_of_ne_nil (natDigits_ne_nil i.natAbs)
    have hd : d < 10 := natDigits_lt i.natAbs d (by simp [hds])
    have e : pyStrNat i.natAbs = digitChar d :: ds.map digitChar := by simp [pyStrNat, hds]
    have hs := digitChar_not_sign d hd
    have hall := pyStrNat_all_digits i.natAbs
    rw [e] at hall ⊢
    have : Spec.dropSign (digitChar d :: ds.map digitChar) = digitChar d :: ds.map digitChar := by
      unfold Spec.dropSign
      split <;> simp_all
    rw [this]
    simp [hall]

/-! ### `Decimal(str(d)) = d` -/

/-- characters `numeric_as_ascii` passes through unchanged -/
def plainOk (c : Char) : Bool := c != '_' && decide (0 < c.toNat) && decide (c.toNat ≤ 127) && !isSpace c

theorem digitChar_plainOk : ∀ d, d < 10 → plainOk (digitChar d) = true := by decide

theorem lstrip_id (s : Str) (h : ∀ c ∈ s, isSpace c = false) : lstrip s = s := by
  cases s with
  | nil => rfl
  | cons c cs => simp [lstrip, h c (by simp)]

theorem strip_id (s : Str) (h : ∀ c ∈ s, isSpace c = false) : strip s = s := by
  unfold strip rstrip
  rw [lstrip_id s h, lstrip_id s.reverse (by simpa using h)]
  simp

theorem decCleanBody_plain (s : Str) (h : ∀ c ∈ s, plainOk c = true) : decCleanBody s = some s := by
  induction s with
  | nil => rfl
  | cons c cs ih =>
    have hc := h c (by simp)
    simp only [plainOk, Bool.and_eq_true, bne_iff_ne, ne_eq, decide_eq_true_eq, Bool.not_eq_true'] at hc
    obtain ⟨⟨⟨h1, h2⟩, h3⟩, _⟩ := hc
    simp [decCleanBody, h1, h2, h3, ih (fun x hx => h x (by simp [hx]))]

theorem decClean_plain (s : Str) (h : ∀ c ∈ s, plainOk c = true) : decClean s = some s := by
  unfold decClean
  rw [strip_id s, decCleanBody_plain s h]
  intro c hc
  have := h c hc
  simp only [plainOk, Bool.and_eq_true, Bool.not_eq_true'] at this
  exact this.2

theorem lower_digits (ds : List Nat) (h : ∀ d ∈ ds, d < 10) : lower (ds.map digitChar) = ds.map digitChar := by
  simp only [lower, List.map_map]
  apply List.map_congr_left
  intro d hd
  exact digitChar_lower d (h d hd)

theorem lower_append (a b : Str) : lower (a ++ b) = lower a ++ lower b := by simp [lower]

theorem digitVal_point : digitVal '.' = none := by decide
theorem digitVal_e : digitVal 'e' = none := by decide

theorem spanDigits_digits_nil (ds : List Nat) (h : ∀ d ∈ ds, d < 10) :
    spanDigits (ds.map digitChar) = (ds, []) := by
  simpa using spanDigits_digits ds h [] rfl

/-- digits, no point, no exponent -/
theorem decNumeric_int (neg : Bool) (ip : List Nat) (hip : ∀ d ∈ ip, d < 10) (hne : ip ≠ []) :
    decNumeric neg (ip.map digitChar) = some (.fin neg (digitsVal ip) 0) := by
  unfold decNumeric
  simp [spanDigits_digits_nil ip hip, hne]

/-- digits, point, digits -/
theorem decNumeric_point (neg : Bool) (ip fp : List Nat) (hip : ∀ d ∈ ip, d < 10) (hfp : ∀ d ∈ fp, d < 10)
    (hne : ip ≠ [] ∨ fp ≠ []) :
    decNumeric neg (ip.map digitChar ++ '.' :: fp.map digitChar) =
      some (.fin neg (digitsVal (ip ++ fp)) (-(fp.length : Int))) := by
  unfold decNumeric
  rw [spanDigits_digits ip hip _ (spanDigits_nondigit _ _ digitVal_point)]
  simp only [spanDigits_digits_nil fp hfp]
  have : ¬ (ip = [] ∧ fp = []) := by
    intro h; rcases hne with h' | h'
    · exact h' h.1
    · exact h' h.2
  simp [this]

/-- digits, exponent -/
theorem decNumeric_exp (neg eneg : Bool) (ip ed : List Nat) (hip : ∀ d ∈ ip, d < 10) (hed : ∀ d ∈ ed, d < 10)
    (hne : ip ≠ []) (hne' : ed ≠ []) :
    decNumeric neg (ip.map digitChar ++ 'e' :: (if eneg then '-' else '+') :: ed.map digitChar) =
      some (.fin neg (digitsVal ip) (if eneg then -(digitsVal ed : Int) else (digitsVal ed : Int))) := by
  unfold decNumeric
  rw [spanDigits_digits ip hip _ (spanDigits_nondigit _ _ digitVal_e)]
  cases eneg <;> simp [takeSign, spanDigits_digits_nil ed hed, hne, hne']

/-- digits, point, digits, exponent -/
theorem decNumeric_point_exp (neg eneg : Bool) (ip fp ed : List Nat) (hip : ∀ d ∈ ip, d < 10)
    (hfp : ∀ d ∈ fp, d < 10) (hed : ∀ d ∈ ed, d < 10) (hne : ip ≠ []) (hne' : ed ≠ []) :
    decNumeric neg (ip.map digitChar ++ '.' :: (fp.map digitChar ++ 'e' :: (if eneg then '-' else '+') :: ed.map digitChar)) =
      some (.fin neg (digitsVal (ip ++ fp))
        ((if eneg then -(digitsVal ed : Int) else (digitsVal ed : Int)) - (fp.length : Int))) := by
  unfold decNumeric
  rw [spanDigits_digits ip hip _ (spanDigits_nondigit _ _ digitVal_point)]
  simp only [spanDigits_digits fp hfp _ (spanDigits_nondigit _ _ digitVal_e)]
  cases eneg <;> simp [takeSign, spanDigits_digits_nil ed hed, hne, hne']

theorem digitChar_not_special : ∀ d, d < 10 →
    digitChar d ≠ 'i' ∧ digitChar d ≠ 'n' ∧ digitChar d ≠ 's' := by decide

/-- a text starting (after the sign) with a digit is parsed by the numeric branch -/
theorem decParseAscii_numeric (neg : Bool) (d0 : Nat) (hd : d0 < 10) (b : Str) :
    decParseAscii (signStr neg ++ digitChar d0 :: b) = decNumeric neg (lower (digitChar d0 :: b)) := by
  have hs := digitChar_not_sign d0 hd
  have hsp := digitChar_not_special d0 hd
  have hts : takeSign (signStr neg ++ digitChar d0 :: b) = (neg, digitChar d0 :: b) := by
    cases neg
    · simpa [signStr] using takeSign_other _ _ hs.1 hs.2
    · rfl
  unfold decParseAscii
  simp only [hts]
  have hl : lower (digitChar d0 :: b) = digitChar d0 :: lower b := by
    simp [lower, digitChar_lower d0 hd]
  rw [hl]
  have e1 : ¬ (digitChar d0 :: lower b = "inf".toList ∨ digitChar d0 :: lower b = "infinity".toList) := by
    intro h
    rcases h with h | h <;> (simp at h; exact hsp.1 h.1)
  simp only [e1, if_false]
  split
  · rename_i h; simp at h; exact absurd h.1 hsp.2.1
  · rename_i h; simp at h; exact absurd h.1 hsp.2.2
  · rfl

/-! all characters of `str(d)` pass `numeric_as_ascii` unchanged -/

def AllOk (s : Str) : Prop := ∀ c ∈ s, plainOk c = true

theorem AllOk_nil : AllOk [] := by intro c hc; simp at hc
theorem AllOk_append {a b : Str} (ha : AllOk a) (hb : AllOk b) : AllOk (a ++ b) := by
  intro c hc; rcases List.mem_append.mp hc with h | h
  · exact ha c h
  · exact hb c h
theorem AllOk_cons {c : Char} {b : Str} (hc : plainOk c = true) (hb : AllOk b) : AllOk (c :: b) := by
  intro x hx; rcases List.mem_cons.mp hx with h | h
  · subst h; exact hc
  · exact hb x h
theorem AllOk_replicate (n : Nat) {c : Char} (hc : plainOk c = true) : AllOk (List.replicate n c) := by
  intro x hx; rw [(List.mem_replicate.mp hx).2]; exact hc
theorem AllOk_take (n : Nat) {a : Str} (ha : AllOk a) : AllOk (a.take n) :=
  fun c hc => ha c (List.mem_of_mem_take hc)
theorem AllOk_drop (n : Nat) {a : Str} (ha : AllOk a) : AllOk (a.drop n) :=
  fun c hc => ha c (List.mem_of_mem_drop hc)
theorem AllOk_pyStrNat (n : Nat) : AllOk (pyStrNat n) := by
  intro c hc
  simp only [pyStrNat, List.mem_map] at hc
  obtain ⟨d, hd, rfl⟩ := hc
  exact digitChar_plainOk d (natDigits_lt n d hd)
theorem AllOk_signStr (neg : Bool) : AllOk (signStr neg) := by
  cases neg
  · exact AllOk_nil
  · exact AllOk_cons (by decide) AllOk_nil
theorem AllOk_lit (s : Str) (h : s.all plainOk = true) : AllOk s := by
  intro c hc; exact List.all_eq_true.mp h c hc

theorem decToStr_AllOk (d : Dec) : AllOk (decToStr d) := by
  cases d with
  | inf neg => exact AllOk_append (AllOk_signStr neg) (AllOk_lit _ (by decide))
  | nan neg sig p =>
    unfold decToStr
    refine AllOk_append (AllOk_append (AllOk_signStr neg) ?_) ?_
    · cases sig
      · exact AllOk_lit _ (by decide)
      · exact AllOk_lit _ (by decide)
    · split
      · exact AllOk_nil
      · exact AllOk_pyStrNat p
  | fin neg c e =>
    unfold decToStr
    simp only []
    split
    · split
      · exact AllOk_append (AllOk_signStr neg) (AllOk_cons (by decide) (AllOk_cons (by decide)
          (AllOk_append (AllOk_replicate _ (by decide)) (AllOk_pyStrNat c))))
      · split
        · exact AllOk_append (AllOk_append (AllOk_signStr neg) (AllOk_pyStrNat c)) (AllOk_replicate _ (by decide))
        · exact AllOk_append (AllOk_append (AllOk_signStr neg) (AllOk_take _ (AllOk_pyStrNat c)))
            (AllOk_cons (by decide) (AllOk_drop _ (AllOk_pyStrNat c)))
    · refine AllOk_append (AllOk_append (AllOk_append (AllOk_signStr neg) (AllOk_take _ (AllOk_pyStrNat c))) ?_) ?_
      · split
        · exact AllOk_nil
        · exact AllOk_cons (by decide) (AllOk_drop _ (AllOk_pyStrNat c))
      · split
        · exact AllOk_nil
        · refine AllOk_cons (by decide) (AllOk_cons ?_ (AllOk_pyStrNat _))
          split <;> decide

theorem decClean_decToStr (d : Dec) : decClean (decToStr d) = some (decToStr d) :=
  decClean_plain _ (decToStr_AllOk d)

theorem decPayload_pyStrNat (neg sig : Bool) (p : Nat) :
    decPayload neg sig (if p = 0 then [] else pyStrNat p) = some (.nan neg sig p) := by
  unfold decPayload
  split
  · rename_i h; subst h; simp [spanDigits_nil, digitsVal_nil]
  · simp [pyStrNat, spanDigits_digits_nil _ (natDigits_lt p), natDigits_val]

theorem lower_payload (p : Nat) :
    lower (if p = 0 then [] else pyStrNat p) = (if p = 0 then [] else pyStrNat p) := by
  split
  · rfl
  · exact lower_digits _ (natDigits_lt p)

theorem lower_NaN (P : Str) : lower ('N' :: 'a' :: 'N' :: P) = 'n' :: 'a' :: 'n' :: lower P := by
  simp [lower]; decide
theorem lower_sNaN (P : Str) : lower ('s' :: 'N' :: 'a' :: 'N' :: P) = 's' :: 'n' :: 'a' :: 'n' :: lower P := by
  simp [lower]; decide

theorem decParseAscii_NaN (neg : Bool) (P : Str) (hP : lower P = P) :
    decParseAscii (signStr neg ++ 'N' :: 'a' :: 'N' :: P) = decPayload neg false P := by
  have hts : takeSign (signStr neg ++ 'N' :: 'a' :: 'N' :: P) = (neg, 'N' :: 'a' :: 'N' :: P) := by
    cases neg <;> rfl
  unfold decParseAscii
  simp only [hts, lower_NaN, hP]
  have e1 : ¬ ('n' :: 'a' :: 'n' :: P = "inf".toList ∨ 'n' :: 'a' :: 'n' :: P = "infinity".toList) := by
    intro h; rcases h with h | h <;> simp at h
  simp only [e1, if_false]

theorem decParseAscii_sNaN (neg : Bool) (P : Str) (hP : lower P = P) :
    decParseAscii (signStr neg ++ 's' :: 'N' :: 'a' :: 'N' :: P) = decPayload neg true P := by
  have hts : takeSign (signStr neg ++ 's' :: 'N' :: 'a' :: 'N' :: P) = (neg, 's' :: 'N' :: 'a' :: 'N' :: P) := by
    cases neg <;> rfl
  unfold decParseAscii
  simp only [hts, lower_sNaN, hP]
  have e1 : ¬ ('s' :: 'n' :: 'a' :: 'n' :: P = "inf".toList ∨ 's' :: 'n' :: 'a' :: 'n' :: P = "infinity".toList) := by
    intro h; rcases h with h | h <;> simp at h
  simp only [e1, if_false]

theorem decToStr_nan (neg sig : Bool) (p : Nat) : decToStr (.nan neg sig p) =
    signStr neg ++ (if sig then "sNaN".toList else "NaN".toList) ++ (if p = 0 then [] else pyStrNat p) := rfl

theorem decParseAscii_nan (neg sig : Bool) (p : Nat) :
    decParseAscii (decToStr (.nan neg sig p)) = some (.nan neg sig p) := by
  rw [decToStr_nan]
  cases sig
  · have : signStr neg ++ (if false then "sNaN".toList else "NaN".toList) ++ (if p = 0 then [] else pyStrNat p)
        = signStr neg ++ 'N' :: 'a' :: 'N' :: (if p = 0 then [] else pyStrNat p) := by simp
    rw [this, decParseAscii_NaN neg _ (lower_payload p), decPayload_pyStrNat]
  · have : signStr neg ++ (if true then "sNaN".toList else "NaN".toList) ++ (if p = 0 then [] else pyStrNat p)
        = signStr neg ++ 's' :: 'N' :: 'a' :: 'N' :: (if p = 0 then [] else pyStrNat p) := by simp
    rw [this, decParseAscii_sNaN neg _ (lower_payload p), decPayload_pyStrNat]

theorem decParseAscii_inf (neg : Bool) : decParseAscii (decToStr (.inf neg)) = some (.inf neg) := by
  cases neg <;> rfl

theorem decParseAscii_digits_head (neg : Bool) (xs : List Nat) (hxs : ∀ d ∈ xs, d < 10) (hne : xs ≠ []) (rest : Str) :
    decParseAscii (signStr neg ++ (xs.map digitChar ++ rest)) = decNumeric neg (xs.map digitChar ++ lower rest) := by
  obtain ⟨d0, xt, rfl⟩ := List.exists_cons_of_ne_nil hne
  have hd : d0 < 10 := hxs d0 (by simp)
  have hxt : ∀ d ∈ xt, d < 10 := fun d h => hxs d (by simp [h])
  simp only [List.map_cons, List.cons_append]
  rw [decParseAscii_numeric neg d0 hd]
  congr 1
  have : lower (digitChar d0 :: (xt.map digitChar ++ rest)) = lower ([d0].map digitChar) ++ (lower (xt.map digitChar) ++ lower rest) := by
    simp [lower]
  rw [this, lower_digits [d0] (by simpa using hd), lower_digits xt hxt]
  simp

theorem lower_point (ys : Str) : lower ('.' :: ys) = '.' :: lower ys := by simp [lower]; decide

theorem lower_exp (sg : Bool) (M : List Nat) (hM : ∀ d ∈ M, d < 10) :
    lower ('E' :: (if sg then '-' else '+') :: M.map digitChar) = 'e' :: (if sg then '-' else '+') :: M.map digitChar := by
  have := lower_digits M hM
  cases sg <;> simp [lower] at this ⊢ <;> exact ⟨by decide, by decide, this⟩

theorem decToStr_fin (neg : Bool) (c : Nat) (e : Int) : decToStr (.fin neg c e) =
    (if e ≤ 0 ∧ e + ((pyStrNat c).length : Int) > -6 then
      if e + ((pyStrNat c).length : Int) ≤ 0 then
        signStr neg ++ '0' :: '.' :: (List.replicate (-(e + ((pyStrNat c).length : Int))).toNat '0' ++ pyStrNat c)
      else if (e + ((pyStrNat c).length : Int)).toNat ≥ (pyStrNat c).length then
        signStr neg ++ pyStrNat c ++ List.replicate ((e + ((pyStrNat c).length : Int)).toNat - (pyStrNat c).length) '0'
      else signStr neg ++ (pyStrNat c).take (e + ((pyStrNat c).length : Int)).toNat
            ++ '.' :: (pyStrNat c).drop (e + ((pyStrNat c).length : Int)).toNat
    else
      signStr neg ++ (pyStrNat c).take 1 ++ (if 1 ≥ (pyStrNat c).length then [] else '.' :: (pyStrNat c).drop 1)
        ++ (if e + ((pyStrNat c).length : Int) = 1 then []
            else 'E' :: (if e + ((pyStrNat c).length : Int) - 1 < 0 then '-' else '+')
              :: pyStrNat (e + ((pyStrNat c).length : Int) - 1).natAbs)) := rfl

theorem decParseAscii_fin (neg : Bool) (c : Nat) (e : Int) :
    decParseAscii (decToStr (.fin neg c e)) = some (.fin neg c e) := by
  rw [decToStr_fin]
  have hds := natDigits_lt c
  have hne := natDigits_ne_nil c
  have hval := natDigits_val c
  have hD : pyStrNat c = (natDigits c).map digitChar := rfl
  have hlen : (pyStrNat c).length = (natDigits c).length := by simp [hD]
  generalize natDigits c = ds at *
  have hlen1 : 1 ≤ ds.length := by
    cases ds with
    | nil => exact absurd rfl hne
    | cons _ _ => simp
  rw [hlen]
  generalize hL : e + (ds.length : Int) = left
  split
  · rename_i hA
    split
    · -- 0.000ddd
      rename_i h1
      have hz : List.replicate (-left).toNat '0' ++ pyStrNat c
          = (List.replicate (-left).toNat 0 ++ ds).map digitChar := by
        have hc0 : digitChar 0 = '0' := rfl
        rw [hD, List.map_append, List.map_replicate, hc0]
      have : signStr neg ++ '0' :: '.' :: (List.replicate (-left).toNat '0' ++ pyStrNat c)
          = signStr neg ++ ([0].map digitChar ++ '.' :: (List.replicate (-left).toNat 0 ++ ds).map digitChar) := by
        rw [hz]; rfl
      rw [this, decParseAscii_digits_head neg [0] (by simp) (by simp), lower_point,
        lower_digits _ (by intro d hd; simp at hd; rcases hd with ⟨_, rfl⟩ | hd; omega; exact hds d hd)]
      rw [decNumeric_point neg [0] _ (by simp)
        (by intro d hd; simp at hd; rcases hd with ⟨_, rfl⟩ | hd; omega; exact hds d hd) (Or.inl (by simp))]
      have hv : digitsVal ([0] ++ (List.replicate (-left).toNat 0 ++ ds)) = c := by
        have : [0] ++ (List.replicate (-left).toNat 0 ++ ds) = List.replicate ((-left).toNat + 1) 0 ++ ds := by
          simp [List.replicate_succ]
        rw [this, digitsVal_replicate_zero, hval]
      rw [hv]
      congr 2
      simp; omega
    · split
      · -- ddd
        rename_i h1 h2
        have he : e = 0 := by omega
        have : signStr neg ++ pyStrNat c ++ List.replicate (left.toNat - ds.length) '0'
            = signStr neg ++ (ds.map digitChar ++ []) := by
          have : left.toNat - ds.length = 0 := by omega
          rw [this, hD]; simp
        rw [this, decParseAscii_digits_head neg ds hds hne]
        have : lower ([] : Str) = [] := rfl
        rw [this, List.append_nil, decNumeric_int neg ds hds hne, hval, he]
      · -- dd.ddd
        rename_i h1 h2
        have hk1 : 1 ≤ left.toNat := by omega
        have hk2 : left.toNat < ds.length := by omega
        have : signStr neg ++ (pyStrNat c).take left.toNat ++ '.' :: (pyStrNat c).drop left.toNat
            = signStr neg ++ ((ds.take left.toNat).map digitChar ++ '.' :: (ds.drop left.toNat).map digitChar) := by
          rw [hD]; simp [List.map_take, List.map_drop]
        have htake : ∀ d ∈ ds.take left.toNat, d < 10 := fun d h => hds d (List.mem_of_mem_take h)
        have hdrop : ∀ d ∈ ds.drop left.toNat, d < 10 := fun d h => hds d (List.mem_of_mem_drop h)
        have hne' : ds.take left.toNat ≠ [] := by
          intro h
          have := congrArg List.length h
          rw [List.length_take] at this
          simp only [List.length_nil] at this
          omega
        rw [this, decParseAscii_digits_head neg _ htake hne', lower_point, lower_digits _ hdrop,
          decNumeric_point neg _ _ htake hdrop (Or.inl hne'), List.take_append_drop, hval]
        congr 2
        simp; omega
  · rename_i hA
    have hl1 : left ≠ 1 := by omega
    simp only [hl1, if_false]
    have hM := natDigits_lt (left - 1).natAbs
    have hMne := natDigits_ne_nil (left - 1).natAbs
    have hMval := natDigits_val (left - 1).natAbs
    have hMD : pyStrNat (left - 1).natAbs = (natDigits (left - 1).natAbs).map digitChar := rfl
    rw [hMD]
    generalize natDigits (left - 1).natAbs = M at *
    have hsg : (if left - 1 < 0 then '-' else '+') = (if decide (left - 1 < 0) then '-' else '+') := by
      by_cases h : left - 1 < 0 <;> simp [h]
    rw [hsg]
    split
    · -- dE±x
      rename_i h1
      have hl : ds.length = 1 := by omega
      have : signStr neg ++ (pyStrNat c).take 1 ++ [] ++ 'E' :: (if decide (left - 1 < 0) then '-' else '+') :: M.map digitChar
          = signStr neg ++ (ds.map digitChar ++ 'E' :: (if decide (left - 1 < 0) then '-' else '+') :: M.map digitChar) := by
        rw [hD, ← List.map_take, List.take_of_length_le (by omega)]; simp
      rw [this, decParseAscii_digits_head neg ds hds hne, lower_exp _ M hM,
        decNumeric_exp neg _ ds M hds hM hne hMne, hval, hMval]
      congr 2
      by_cases h : left - 1 < 0
      · rw [if_pos (by simpa using h)]
        have hn := Int.ofNat_natAbs_of_nonpos (Int.le_of_lt h)
        generalize ((left - 1).natAbs : Int) = m at *
        omega
      · rw [if_neg (by simpa using h)]
        have hn := Int.natAbs_of_nonneg (Int.not_lt.mp h)
        generalize ((left - 1).natAbs : Int) = m at *
        omega
    · -- d.dddE±x
      rename_i h1
      have htake : ∀ d ∈ ds.take 1, d < 10 := fun d h => hds d (List.mem_of_mem_take h)
      have hdrop : ∀ d ∈ ds.drop 1, d < 10 := fun d h => hds d (List.mem_of_mem_drop h)
      have hne' : ds.take 1 ≠ [] := by
        intro h
        have := congrArg List.length h
        rw [List.length_take] at this
        simp only [List.length_nil] at this
        omega
      have hdl : (ds.drop 1).length = ds.length - 1 := List.length_drop
      have : signStr neg ++ (pyStrNat c).take 1 ++ '.' :: (pyStrNat c).drop 1
            ++ 'E' :: (if decide (left - 1 < 0) then '-' else '+') :: M.map digitChar
          = signStr neg ++ ((ds.take 1).map digitChar ++ '.' :: ((ds.drop 1).map digitChar
              ++ 'E' :: (if decide (left - 1 < 0) then '-' else '+') :: M.map digitChar)) := by
        rw [hD]; simp [List.map_take]
      rw [this, decParseAscii_digits_head neg _ htake hne', lower_point, lower_append, lower_digits _ hdrop,
        lower_exp _ M hM, decNumeric_point_exp neg _ _ _ M htake hdrop hM hne' hMne,
        List.take_append_drop, hval, hMval]
      congr 2
      by_cases h : left - 1 < 0
      · rw [if_pos (by simpa using h)]
        have hn := Int.ofNat_natAbs_of_nonpos (Int.le_of_lt h)
        generalize ((left - 1).natAbs : Int) = m at *
        omega
      · rw [if_neg (by simpa using h)]
        have hn := Int.natAbs_of_nonneg (Int.not_lt.mp h)
        generalize ((left - 1).natAbs : Int) = m at *
        omega

/-- **`Decimal(str(d)) == d`** (same sign, coefficient, exponent; same NaN kind and payload) for every decimal -/
theorem decParse_decToStr (d : Dec) : decParse (decToStr d) = some d := by
  unfold decParse
  rw [decClean_decToStr]
  cases d with
  | fin neg c e => exact decParseAscii_fin neg c e
  | inf neg => exact decParseAscii_inf neg
  | nan neg sig p => exact decParseAscii_nan neg sig p

/-! ### `format(d, "f")`: `Decimal(format(d, "f"))` is `d` renormalised to a non-positive exponent -/

/-- what plain notation can carry: a positive exponent is folded into the coefficient -/
def Dec.renorm : Dec → Dec
  | .fin neg c e => if e > 0 then .fin neg (c * 10 ^ e.toNat) 0 else .fin neg c e
  | d => d

theorem Dec.renorm_of_nonpos (neg : Bool) (c : Nat) (e : Int) (h : e ≤ 0) :
    Dec.renorm (.fin neg c e) = .fin neg c e := by
  simp [Dec.renorm]; omega

theorem decFormatF_fin (neg : Bool) (c : Nat) (e : Int) : decFormatF (.fin neg c e) =
    (if e ≥ 0 then
      if c = 0 then signStr neg ++ ['0'] else signStr neg ++ (pyStrNat c ++ List.replicate e.toNat '0')
    else
      if e + ((pyStrNat c).length : Int) ≤ 0 then
        signStr neg ++ '0' :: '.' :: (List.replicate (-(e + ((pyStrNat c).length : Int))).toNat '0' ++ pyStrNat c)
      else signStr neg ++ ((pyStrNat c).take (e + ((pyStrNat c).length : Int)).toNat
            ++ '.' :: (pyStrNat c).drop (e + ((pyStrNat c).length : Int)).toNat)) := rfl

theorem decFormatF_AllOk (neg : Bool) (c : Nat) (e : Int) : AllOk (decFormatF (.fin neg c e)) := by
  rw [decFormatF_fin]
  split
  · split
    · exact AllOk_append (AllOk_signStr neg) (AllOk_cons (by decide) AllOk_nil)
    · exact AllOk_append (AllOk_signStr neg) (AllOk_append (AllOk_pyStrNat c) (AllOk_replicate _ (by decide)))
  · split
    · exact AllOk_append (AllOk_signStr neg) (AllOk_cons (by decide) (AllOk_cons (by decide)
        (AllOk_append (AllOk_replicate _ (by decide)) (AllOk_pyStrNat c))))
    · exact AllOk_append (AllOk_signStr neg) (AllOk_append (AllOk_take _ (AllOk_pyStrNat c))
        (AllOk_cons (by decide) (AllOk_drop _ (AllOk_pyStrNat c))))

theorem digitsVal_replicate_zero' (k : Nat) : digitsVal (List.replicate k 0) = 0 := by
  simpa [digitsVal_nil] using digitsVal_replicate_zero k []

theorem decParseAscii_formatF (neg : Bool) (c : Nat) (e : Int) :
    decParseAscii (decFormatF (.fin neg c e)) = some (Dec.renorm (.fin neg c e)) := by
  rw [decFormatF_fin]
  have hds := natDigits_lt c
  have hne := natDigits_ne_nil c
  have hval := natDigits_val c
  have hD : pyStrNat c = (natDigits c).map digitChar := rfl
  have hlen : (pyStrNat c).length = (natDigits c).length := by simp [hD]
  generalize natDigits c = ds at *
  have hlen1 : 1 ≤ ds.length := by
    cases ds with
    | nil => exact absurd rfl hne
    | cons _ _ => simp
  rw [hlen]
  split
  · rename_i he
    split
    · -- zero coefficient
      rename_i hc
      have : signStr neg ++ ['0'] = signStr neg ++ ([0].map digitChar ++ []) := rfl
      rw [this, decParseAscii_digits_head neg [0] (by simp) (by simp)]
      have : lower ([] : Str) = [] := rfl
      rw [this, List.append_nil, decNumeric_int neg [0] (by simp) (by simp)]
      subst hc
      simp only [Dec.renorm]
      split
      · simp [digitsVal]
      · have : e = 0 := by omega
        subst this; simp [digitsVal]
    · -- ddd000
      rename_i hc
      have hz : pyStrNat c ++ List.replicate e.toNat '0' = (ds ++ List.replicate e.toNat 0).map digitChar := by
        have hc0 : digitChar 0 = '0' := rfl
        rw [hD, List.map_append, List.map_replicate, hc0]
      have hlt : ∀ d ∈ ds ++ List.replicate e.toNat 0, d < 10 := by
        intro d hd; simp at hd; rcases hd with hd | ⟨_, rfl⟩
        · exact hds d hd
        · omega
      have hne' : ds ++ List.replicate e.toNat 0 ≠ [] := by simp [hne]
      have : signStr neg ++ (pyStrNat c ++ List.replicate e.toNat '0')
          = signStr neg ++ ((ds ++ List.replicate e.toNat 0).map digitChar ++ []) := by rw [hz]; simp
      rw [this, decParseAscii_digits_head neg _ hlt hne']
      have : lower ([] : Str) = [] := rfl
      rw [this, List.append_nil, decNumeric_int neg _ hlt hne', digitsVal_append, hval,
        digitsVal_replicate_zero', List.length_replicate, Nat.add_zero]
      simp only [Dec.renorm]
      split
      · rfl
      · have : e = 0 := by omega
        subst this; simp
  · rename_i he
    rw [Dec.renorm_of_nonpos neg c e (by omega)]
    generalize hL : e + (ds.length : Int) = left
    split
    · -- 0.000ddd
      rename_i h1
      have hz : List.replicate (-left).toNat '0' ++ pyStrNat c
          = (List.replicate (-left).toNat 0 ++ ds).map digitChar := by
        have hc0 : digitChar 0 = '0' := rfl
        rw [hD, List.map_append, List.map_replicate, hc0]
      have : signStr neg ++ '0' :: '.' :: (List.replicate (-left).toNat '0' ++ pyStrNat c)
          = signStr neg ++ ([0].map digitChar ++ '.' :: (List.replicate (-left).toNat 0 ++ ds).map digitChar) := by
        rw [hz]; rfl
      rw [this, decParseAscii_digits_head neg [0] (by simp) (by simp), lower_point,
        lower_digits _ (by intro d hd; simp at hd; rcases hd with ⟨_, rfl⟩ | hd; omega; exact hds d hd)]
      rw [decNumeric_point neg [0] _ (by simp)
        (by intro d hd; simp at hd; rcases hd with ⟨_, rfl⟩ | hd; omega; exact hds d hd) (Or.inl (by simp))]
      have hv : digitsVal ([0] ++ (List.replicate (-left).toNat 0 ++ ds)) = c := by
        have : [0] ++ (List.replicate (-left).toNat 0 ++ ds) = List.replicate ((-left).toNat + 1) 0 ++ ds := by
          simp [List.replicate_succ]
        rw [this, digitsVal_replicate_zero, hval]
      rw [hv]
      congr 2
      simp; omega
    · -- dd.ddd
      rename_i h1
      have hk1 : 1 ≤ left.toNat := by omega
      have hk2 : left.toNat < ds.length := by omega
      have : signStr neg ++ ((pyStrNat c).take left.toNat ++ '.' :: (pyStrNat c).drop left.toNat)
          = signStr neg ++ ((ds.take left.toNat).map digitChar ++ '.' :: (ds.drop left.toNat).map digitChar) := by
        rw [hD]; simp [List.map_take, List.map_drop]
      have htake : ∀ d ∈ ds.take left.toNat, d < 10 := fun d h => hds d (List.mem_of_mem_take h)
      have hdrop : ∀ d ∈ ds.drop left.toNat, d < 10 := fun d h => hds d (List.mem_of_mem_drop h)
      have hne' : ds.take left.toNat ≠ [] := by
        intro h
        have := congrArg List.length h
        rw [List.length_take] at this
        simp only [List.length_nil] at this
        omega
      rw [this, decParseAscii_digits_head neg _ htake hne', lower_point, lower_digits _ hdrop,
        decNumeric_point neg _ _ htake hdrop (Or.inl hne'), List.take_append_drop, hval]
      congr 2
      simp; omega

/-- **`Decimal(format(d, "f"))`** is `d` for every finite decimal with exponent ≤ 0, and `d` rescaled to exponent 0
    (same numeric value) for a positive exponent -/
theorem decParse_decFormatF (neg : Bool) (c : Nat) (e : Int) :
    decParse (decFormatF (.fin neg c e)) = some (Dec.renorm (.fin neg c e)) := by
  unfold decParse
  rw [decClean_plain _ (decFormatF_AllOk neg c e)]
  exact decParseAscii_formatF neg c e

/-! ### `quantize`, `same_quantum` -/

/-- coefficients the default context can hold -/
def fitsPrec (c : Nat) : Bool := c == 0 || decide (ndigits c ≤ defaultPrec)

theorem sameQuantum_iff (d : Dec) (qe : Int) : sameQuantum d qe = true ↔ ∃ n c, d = .fin n c qe := by
  cases d with
  | fin n c e => simp [sameQuantum]
  | inf n => simp [sameQuantum]
  | nan n s p => simp [sameQuantum]

/-- a value already at the quantum and within the precision is unchanged by `quantize` -/
theorem quantize_self (n : Bool) (c : Nat) (qe : Int) (h : fitsPrec c = true) :
    quantize (.fin n c qe) qe = .ok (.fin n c qe) := by
  unfold quantize
  by_cases hc : c = 0
  · subst hc; simp
  · have hp : ndigits c ≤ defaultPrec := by simpa [fitsPrec, hc] using h
    have h1 : ¬ (qe + (ndigits c : Int) - qe > (defaultPrec : Int)) := by omega
    simp [hc, h1]
    omega

/-- what `quantize` returns: a finite value at the quantum within the precision, or the (quiet) NaN it was given -/
theorem quantize_ok (d d' : Dec) (qe : Int) (h : quantize d qe = .ok d') :
    (∃ n c, d' = .fin n c qe ∧ fitsPrec c = true ∧ d.isFinite = true) ∨
    (∃ n p p', d = .nan n false p ∧ d' = .nan n false p') := by
  unfold quantize at h
  cases d with
  | inf n => simp at h
  | nan n s p =>
    cases s
    · simp at h; exact Or.inr ⟨n, p, _, rfl, h.symm⟩
    · simp at h
  | fin n c e =>
    simp only [] at h
    split at h
    · injection h with h; exact Or.inl ⟨n, 0, h.symm, by simp [fitsPrec], rfl⟩
    · split at h
      · simp at h
      · generalize (if e ≥ qe then c * 10 ^ (e - qe).toNat else roundHalfEven c (qe - e).toNat) = c' at h
        split at h
        · simp at h
        · rename_i hp
          injection h with h
          refine Or.inl ⟨n, c', h.symm, ?_, rfl⟩
          simp [fitsPrec]; right; omega

end Ofx
