/-
Helper lemmas for C16 (attribute access): induction over instances, association lists, the `__getattr__` loop.
-/
import OfxModel.Ofx.Getattr
import OfxModel.Spec.Getattr

namespace Ofx.Getattr
open Ofx Ofx.Agg Ofx.Spec.Getattr

/-! ### induction over instances (a nested inductive: once, by mutual structural recursion) -/

section induction
variable {motive : Node → Prop}
  (hval : ∀ v, motive (.val v))
  (hagg : ∀ ci fields items, (∀ k v, (k, v) ∈ fields → motive v) → (∀ v, v ∈ items → motive v) →
    motive (.agg ci fields items))
include hval hagg
set_option linter.unusedSectionVars false

mutual
  theorem Node.induct : (n : Node) → motive n
    | .val v => hval v
    | .agg ci fields items => hagg ci fields items (Node.inductFields fields) (Node.inductItems items)
  theorem Node.inductFields : (fs : List (Str × Node)) → ∀ k v, (k, v) ∈ fs → motive v
    | [] => fun _ _ h => by simp at h
    | (n, x) :: r => fun k v h => by
      rcases List.mem_cons.mp h with h | h
      · have : v = x := by injection h
        rw [this]; exact Node.induct x
      · exact Node.inductFields r k v h
  theorem Node.inductItems : (is : List Node) → ∀ v, v ∈ is → motive v
    | [] => fun _ h => by simp at h
    | x :: r => fun v h => by
      rcases List.mem_cons.mp h with h | h
      · rw [h]; exact Node.induct x
      · exact Node.inductItems r v h
end
end induction

/-! ### association lists -/

theorem lookup_mem {α} (k : Str) : ∀ (l : List (Str × α)) (v : α), Agg.lookup k l = some v → (k, v) ∈ l
  | [], _, h => by simp [Agg.lookup] at h
  | (k', v') :: r, v, h => by
    unfold Agg.lookup at h
    by_cases hk : k' = k
    · simp [hk] at h; subst h; subst hk; exact List.mem_cons_self
    · simp [hk] at h; exact List.mem_cons_of_mem _ (lookup_mem k r v h)

theorem lookup_fieldSubs (S : Schema) (P : Props) (k : Str) : ∀ (fs : List (Str × Node)),
    Agg.lookup k (fieldSubs S P fs) = (Agg.lookup k fs).map (fun v => (v, fun nm => getattr S P v nm))
  | [] => by simp [fieldSubs, Agg.lookup]
  | (n, v) :: r => by
    simp only [fieldSubs, Agg.lookup]
    by_cases hk : n = k
    · simp [hk]
    · simp [hk, lookup_fieldSubs S P k r]

theorem lookup_fieldDefiners (S : Schema) (name k : Str) : ∀ (fs : List (Str × Node)),
    Agg.lookup k (fieldDefiners S fs name) = (Agg.lookup k fs).map (fun v => definers S v name)
  | [] => by simp [fieldDefiners, Agg.lookup]
  | (n, v) :: r => by
    simp only [fieldDefiners, Agg.lookup]
    by_cases hk : n = k
    · simp [hk]
    · simp [hk, lookup_fieldDefiners S name k r]

theorem cleanFields_mem (S : Schema) (P : Props) (name : Str) : ∀ (fs : List (Str × Node)),
    cleanFields S P fs name = true → ∀ k v, (k, v) ∈ fs → clean S P v name = true
  | [], _, _, _, h => by simp at h
  | (n, x) :: r, hc, k, v, h => by
    simp only [cleanFields, Bool.and_eq_true] at hc
    rcases List.mem_cons.mp h with h | h
    · have : v = x := by injection h
      rw [this]; exact hc.1
    · exact cleanFields_mem S P name r hc.2 k v h

theorem hasKey_false_lookup {α} (k : Str) (l : List (Str × α)) (h : hasKey k l = false) : Agg.lookup k l = none := by
  unfold hasKey at h
  cases hl : Agg.lookup k l with
  | none => rfl
  | some v => simp [hl] at h

theorem attr?_name (c : Cls) (name : Str) (a : Attr) (h : c.attr? name = some a) : a.name = name := by
  unfold Cls.attr? at h
  have := List.find?_some h
  simpa using this

/-! ### the `__getattr__` loop -/

/-- a "soft" failure: what `__getattr__` swallows when it comes from a sub-aggregate -/
def Soft (r : PyM Res) : Prop := r = .error .attr ∨ r = .error .key

/-- if every stored sub-aggregate fails softly, the loop ends in AttributeError -/
theorem getattrLoop_soft (S : Schema) (P : Props) (fields : List (Str × Node)) (name : Str) :
    ∀ (l : List Attr),
    (∀ a, a ∈ l → a.kind.isSub = true → ∀ v, Agg.lookup a.name fields = some v → Soft (getattr S P v name)) →
    getattrLoop (fieldSubs S P fields) name l = .error .attr
  | [], _ => rfl
  | a :: rest, h => by
    have ih := getattrLoop_soft S P fields name rest (fun b hb => h b (List.mem_cons_of_mem _ hb))
    unfold getattrLoop
    by_cases hs : a.kind.isSub = true
    · simp only [hs, if_true, lookup_fieldSubs]
      cases hl : Agg.lookup a.name fields with
      | none => simpa using ih
      | some v =>
        have hv := h a List.mem_cons_self hs v hl
        rcases hv with hv | hv <;> simp [hv, ih]
    · simp [hs, ih]

/-- with an empty `__dict__` (what `copy`/`pickle` probe) the loop ends in AttributeError -/
theorem getattrLoop_empty (name : Str) : ∀ (l : List Attr), getattrLoop [] name l = .error .attr
  | [] => rfl
  | a :: rest => by
    unfold getattrLoop
    by_cases hs : a.kind.isSub = true <;> simp [hs, Agg.lookup, getattrLoop_empty name rest]

/-- the loop of the pinned tree raised KeyError on an empty `__dict__` as soon as the class has a sub-aggregate
    or a repeated child -/
theorem getattrLoopPinned_empty (name : Str) : ∀ (l : List Attr), (∃ a, a ∈ l ∧ a.kind.isSub = true) →
    getattrLoopPinned [] name l = .error .key
  | [], h => by obtain ⟨a, ha, _⟩ := h; simp at ha
  | a :: rest, h => by
    unfold getattrLoopPinned
    by_cases hs : a.kind.isSub = true
    · simp [hs, Agg.lookup]
    · simp only [hs]
      obtain ⟨b, hb, hbs⟩ := h
      rcases List.mem_cons.mp hb with hb | hb
      · subst hb; exact absurd hbs hs
      · exact getattrLoopPinned_empty name rest ⟨b, hb, hbs⟩

theorem childDefiners_nil (name : Str) (S : Schema) (fields : List (Str × Node)) : ∀ (l : List Attr),
    childDefiners l (fieldDefiners S fields name) = [] →
    ∀ a, a ∈ l → a.kind.isSub = true → ∀ v, Agg.lookup a.name fields = some v → definers S v name = []
  | [], _, a, ha, _, _, _ => by simp at ha
  | b :: rest, h, a, ha, hs, v, hv => by
    simp only [childDefiners, List.append_eq_nil_iff] at h
    rcases List.mem_cons.mp ha with ha | ha
    · subst ha
      have h1 := h.1
      simp only [hs, if_true, lookup_fieldDefiners, hv, Option.map_some] at h1
      simpa using h1
    · exact childDefiners_nil name S fields rest h.2 a ha hs v hv

/-- the loop returns what the first sub-aggregate (in spec order) holding a definer returns -/
theorem getattrLoop_first (S : Schema) (P : Props) (fields : List (Str × Node)) (name : Str)
    (hsoft : ∀ k v, Agg.lookup k fields = some v → definers S v name = [] → Soft (getattr S P v name))
    (hfirst : ∀ k v q qs w, Agg.lookup k fields = some v → definers S v name = q :: qs →
      valueAt S v q name = some w → getattr S P v name = .ok (.node w)) :
    ∀ (l : List Attr) (p : Path) (ps : List Path) (w : Node) (ci : Nat) (items : List Node),
    childDefiners l (fieldDefiners S fields name) = p :: ps →
    valueAt S (.agg ci fields items) p name = some w →
    getattrLoop (fieldSubs S P fields) name l = .ok (.node w)
  | [], _, _, _, _, _, h, _ => by simp [childDefiners] at h
  | a :: rest, p, ps, w, ci, items, h, hw => by
    unfold getattrLoop
    simp only [childDefiners] at h
    by_cases hs : a.kind.isSub = true
    · simp only [hs, if_true, lookup_fieldSubs, lookup_fieldDefiners] at h ⊢
      cases hl : Agg.lookup a.name fields with
      | none =>
        simp only [hl, Option.map_none, List.nil_append] at h
        simpa using getattrLoop_first S P fields name hsoft hfirst rest p ps w ci items h hw
      | some v =>
        simp only [hl, Option.map_some] at h
        cases hd : definers S v name with
        | nil =>
          simp only [hd, List.map_nil, List.nil_append] at h
          have ih := getattrLoop_first S P fields name hsoft hfirst rest p ps w ci items h hw
          rcases hsoft a.name v hl hd with hv | hv <;> simp [hv, ih]
        | cons q qs =>
          simp only [hd, List.map_cons, List.cons_append, List.cons.injEq] at h
          obtain ⟨hp, _⟩ := h
          subst hp
          have hw' : valueAt S v q name = some w := by
            simpa [valueAt, hl] using hw
          simp [hfirst a.name v q qs w hl hd hw']
    · simp only [hs] at h ⊢
      simpa using getattrLoop_first S P fields name hsoft hfirst rest p ps w ci items (by simpa using h) hw

end Ofx.Getattr
