/-
Lemmas about the date/time scanners and conversions (C09).
-/
import OfxModel.Ofx.DateTime
import OfxModel.Spec.Instant
import OfxProofs.Lemmas.Cal

namespace Ofx.DateTime
open Ofx Ofx.Cal Ofx.Spec.Instant

/-! ### digits -/

theorem lt10_cases (k : Nat) (h : k < 10) :
    k = 0 ∨ k = 1 ∨ k = 2 ∨ k = 3 ∨ k = 4 ∨ k = 5 ∨ k = 6 ∨ k = 7 ∨ k = 8 ∨ k = 9 := by omega

theorem digitVal_dch (n : Nat) : digitVal (dch n) = some (n % 10) := by
  unfold dch
  have h : n % 10 < 10 := Nat.mod_lt _ (by omega)
  generalize n % 10 = k at *
  rcases lt10_cases k h with h | h | h | h | h | h | h | h | h | h <;> subst h <;> decide

theorem isAsciiDigit_dch (n : Nat) : isAsciiDigit (dch n) = true := by
  unfold dch
  have h : n % 10 < 10 := Nat.mod_lt _ (by omega)
  generalize n % 10 = k at *
  rcases lt10_cases k h with h | h | h | h | h | h | h | h | h | h <;> subst h <;> decide

theorem isHoursChar_dch (n : Nat) : isHoursChar (dch n) = true := by
  simp [isHoursChar, isAsciiDigit_dch]

theorem dch_ne_newline (n : Nat) : dch n ≠ '\n' := by
  intro h
  have := isAsciiDigit_dch n
  rw [h] at this
  exact absurd this (by decide)

theorem natOfAscii_d2 (n : Nat) (h : n < 100) : natOfAscii (d2 n) = some n := by
  simp only [natOfAscii, d2, digitsVal, digitVal_dch]
  congr 1; omega

theorem natOfAscii_d3 (n : Nat) (h : n < 1000) : natOfAscii (d3 n) = some n := by
  simp only [natOfAscii, d3, digitsVal, digitVal_dch]
  congr 1; omega

theorem natOfAscii_d4 (n : Nat) (h : n < 10000) : natOfAscii (d4 n) = some n := by
  simp only [natOfAscii, d4, digitsVal, digitVal_dch]
  congr 1; omega

/-! ### field patterns -/

theorem hourOk_d2 : ∀ h, h < 24 → hourOk (dch (h / 10)) (dch h) = true := by decide
theorem minOk_d2 : ∀ m, m < 60 → minOk (dch (m / 10)) (dch m) = true := by decide
theorem secOk_d2 : ∀ m, m < 60 → secOk (dch (m / 10)) (dch m) = true := by decide
theorem monthOk_d2 : ∀ m, m < 13 → 1 ≤ m → monthOk (dch (m / 10)) (dch m) = true := by decide
theorem min2Ok_d2 : ∀ m, m < 60 → min2Ok (dch (m / 10)) (dch m) = true := by decide
theorem dayOk_d2 : ∀ m, m < 32 → 1 ≤ m → dayOk (dch (m / 10)) (dch m) = true := by decide

/-! ### the offset scanner -/

theorem hoursScan_nonhours (acc t : Str) (ht : ∀ c r, t = c :: r → isHoursChar c = false) :
    hoursScan acc t = none := by
  cases t with
  | nil => rfl
  | cons c r => simp [hoursScan, ht c r rfl]

/-- greedy hours: if the continuation after the whole run succeeds, that is the match -/
theorem hoursScan_run (h : Str) : ∀ (acc t : Str) (x : Str × Option Str × Option Str),
    h ≠ [] → (∀ c ∈ h, isHoursChar c = true) → (∀ c r, t = c :: r → isHoursChar c = false) →
    offTail (acc.reverse ++ h) t = some x → hoursScan acc (h ++ t) = some x := by
  induction h with
  | nil => intro _ _ _ h; exact absurd rfl h
  | cons c h' ih =>
    intro acc t x _ hh ht hx
    have hc : isHoursChar c = true := hh c (by simp)
    simp only [List.cons_append, hoursScan, hc, if_true]
    cases h' with
    | nil =>
      simp only [List.nil_append]
      rw [hoursScan_nonhours (c :: acc) t ht]
      simpa using hx
    | cons c' h'' =>
      have := ih (c :: acc) t x (by simp) (fun d hd => hh d (by simp at hd ⊢; exact Or.inr hd)) ht
        (by simpa using hx)
      rw [this]

theorem splitName_render (n : Str) (hn : '\n' ∉ n) : splitName (n ++ [']']) = some n := by
  simp [splitName, hn]

theorem nameTail_none : nameTail [']'] = some none := by decide

theorem nameTail_some (n : Str) (hn : '\n' ∉ n) : nameTail (':' :: (n ++ [']'])) = some (some n) := by
  simp [nameTail, splitName_render n hn]

def minutesText : Option Nat → Str | some m => '.' :: d2 m | none => []
def nameText : Option Str → Str | some n => ':' :: n | none => []

theorem offTail_render (h : Str) (mm : Option Nat) (name : Option Str)
    (hmm : ∀ m, mm = some m → m < 60)
    (hname : ∀ n, name = some n → '\n' ∉ n) :
    offTail h (minutesText mm ++ (nameText name ++ [']'])) = some (h, mm.map d2, name) := by
  have hnt : nameTail (nameText name ++ [']']) = some name := by
    cases name with
    | none => exact nameTail_none
    | some n => exact nameTail_some n (hname n rfl)
  cases mm with
  | some m =>
    simp only [minutesText, d2, List.cons_append, List.nil_append, offTail, min2Ok_d2 m (hmm m rfl), hnt]
    simp [d2]
  | none =>
    simp only [minutesText, List.nil_append, Option.map_none]
    cases name with
    | none => simp [nameText, offTail, nameTail_none]
    | some n =>
      have hn := hnt
      simp only [nameText, List.cons_append] at hn ⊢
      simp only [offTail]
      simpa using hn

def signText : Option Bool → Str | some true => ['-'] | some false => ['+'] | none => []
def hoursText (o : OffText) : Str := signText o.sign ++ o.hdigits.map dch
def msText : Option Nat → Str | some ms => '.' :: d3 ms | none => []
def offText : Option OffText → Str | some o => '[' :: (o.render ++ [']']) | none => []

theorem OffText.render_eq (o : OffText) :
    o.render = hoursText o ++ (minutesText o.minutes ++ nameText o.name) := by
  unfold OffText.render hoursText signText minutesText nameText
  cases o.sign with
  | none => cases o.minutes <;> cases o.name <;> simp
  | some b => cases b <;> cases o.minutes <;> cases o.name <;> simp

/-- what the scanner lemmas need of an offset text -/
structure OffScanOk (o : OffText) : Prop where
  digits : o.hdigits ≠ []
  minutes : ∀ m, o.minutes = some m → m < 60
  name : ∀ n, o.name = some n → '\n' ∉ n

theorem hoursScan_render (o : OffText) (ok : OffScanOk o) :
    hoursScan [] (o.render ++ [']']) = some (hoursText o, o.minutes.map d2, o.name) := by
  rw [OffText.render_eq, List.append_assoc, List.append_assoc]
  apply hoursScan_run
  · unfold hoursText
    have := ok.digits
    cases h : o.hdigits with
    | nil => exact absurd h this
    | cons a r => simp
  · intro c hc
    unfold hoursText signText at hc
    rw [List.mem_append] at hc
    rcases hc with hc | hc
    · cases hs : o.sign with
      | none => rw [hs] at hc; simp at hc
      | some b => rw [hs] at hc; cases b <;> simp at hc <;> subst hc <;> decide
    · rw [List.mem_map] at hc
      obtain ⟨d, _, rfl⟩ := hc
      exact isHoursChar_dch d
  · intro c r hcr
    cases hm : o.minutes with
    | some m =>
      rw [hm] at hcr; simp [minutesText] at hcr
      rw [← hcr.1]; decide
    | none =>
      rw [hm] at hcr
      cases hn : o.name with
      | some n => rw [hn] at hcr; simp [minutesText, nameText] at hcr; rw [← hcr.1]; decide
      | none => rw [hn] at hcr; simp [minutesText, nameText] at hcr; rw [← hcr.1]; decide
  · simpa using offTail_render (hoursText o) o.minutes o.name ok.minutes ok.name

/-- the groups the patterns capture for the tail `(.XXX)?([offset])?` -/
def withTail (g : Groups) (ms : Option Nat) (off : Option OffText) : Groups :=
  { g with ms := ms.map d3, offH := off.map hoursText, offM := off.bind (fun o => o.minutes.map d2),
           name := off.bind (fun o => o.name) }

theorem afterSeconds_render (g : Groups) (ms : Option Nat) (off : Option OffText)
    (hg : g.ms = none ∧ g.offH = none ∧ g.offM = none ∧ g.name = none)
    (hoff : ∀ o, off = some o → OffScanOk o) :
    afterSeconds g (msText ms ++ offText off) = some (withTail g ms off) := by
  obtain ⟨y, mo, d, h, mi, s, ms', oh, om, nm⟩ := g
  simp only at hg
  obtain ⟨rfl, rfl, rfl, rfl⟩ := hg
  cases ms with
  | some m =>
    cases off with
    | none => simp [msText, offText, afterSeconds, withTail, d3, isAsciiDigit_dch]
    | some o =>
      simp [msText, offText, afterSeconds, withTail, d3, isAsciiDigit_dch, hoursScan_render o (hoff o rfl)]
  | none =>
    cases off with
    | none => simp [msText, offText, afterSeconds, withTail]
    | some o =>
      simp [msText, offText, afterSeconds, withTail, hoursScan_render o (hoff o rfl)]

def todText (h mi s : Nat) : Str := d2 h ++ d2 mi ++ d2 s

theorem timePart_render (g : Groups) (h mi s : Nat) (ms : Option Nat) (off : Option OffText)
    (hv : h < 24 ∧ mi < 60 ∧ s < 60)
    (hg : g.ms = none ∧ g.offH = none ∧ g.offM = none ∧ g.name = none)
    (hoff : ∀ o, off = some o → OffScanOk o) :
    timePart g (todText h mi s ++ (msText ms ++ offText off))
      = some (withTail { g with hour := some (d2 h), minute := some (d2 mi), second := some (d2 s) } ms off) := by
  simp only [todText, d2, List.cons_append, List.nil_append, timePart, hmsOk,
    hourOk_d2 h hv.1, minOk_d2 mi hv.2.1, secOk_d2 s hv.2.2, Bool.and_self, if_true]
  exact afterSeconds_render _ ms off hg hoff

theorem tmRegex_render (h mi s : Nat) (ms : Option Nat) (off : Option OffText)
    (hv : h < 24 ∧ mi < 60 ∧ s < 60) (hoff : ∀ o, off = some o → OffScanOk o) :
    tmRegex (todText h mi s ++ (msText ms ++ offText off))
      = some (withTail { hour := some (d2 h), minute := some (d2 mi), second := some (d2 s) } ms off) := by
  unfold tmRegex
  exact timePart_render {} h mi s ms off hv ⟨rfl, rfl, rfl, rfl⟩ hoff

def dateText (y m d : Nat) : Str := d4 y ++ d2 m ++ d2 d

theorem dtRegex_render_date (y m d : Nat) (hm : 1 ≤ m ∧ m ≤ 12) (hd : 1 ≤ d ∧ d ≤ 31) :
    dtRegex (dateText y m d) = some { year := some (d4 y), month := some (d2 m), day := some (d2 d) } := by
  unfold dtRegex
  simp [dateText, d4, d2, isAsciiDigit_dch, mdOk, monthOk_d2 m (by omega) hm.1, dayOk_d2 d (by omega) hd.1]

theorem dtRegex_render_full (y m d h mi s : Nat) (ms : Option Nat) (off : Option OffText)
    (hm : 1 ≤ m ∧ m ≤ 12) (hd : 1 ≤ d ∧ d ≤ 31)
    (hv : h < 24 ∧ mi < 60 ∧ s < 60) (hoff : ∀ o, off = some o → OffScanOk o) :
    dtRegex (dateText y m d ++ (todText h mi s ++ (msText ms ++ offText off)))
      = some (withTail { year := some (d4 y), month := some (d2 m), day := some (d2 d),
                         hour := some (d2 h), minute := some (d2 mi), second := some (d2 s) } ms off) := by
  unfold dtRegex
  have ht := timePart_render { year := some (d4 y), month := some (d2 m), day := some (d2 d) } h mi s ms off hv
    ⟨rfl, rfl, rfl, rfl⟩ hoff
  simp only [dateText, d4, d2, List.cons_append, List.nil_append, isAsciiDigit_dch, mdOk,
    monthOk_d2 m (by omega) hm.1, dayOk_d2 d (by omega) hd.1, Bool.and_self, if_true]
  simp only [d4, d2] at ht
  simp only [todText, d2, List.cons_append, List.nil_append] at ht ⊢
  exact ht

/-! ### `int()` of the offset texts, `gmt_offset` -/

theorem digitsVal_map_dch (ds : List Nat) (hd : ∀ d ∈ ds, d < 10) (acc : Nat) :
    digitsVal digitVal acc (ds.map dch) = some (ds.foldl (fun a d => 10 * a + d) acc) := by
  induction ds generalizing acc with
  | nil => rfl
  | cons d r ih =>
    have hd' : d < 10 := hd d (by simp)
    simp only [List.map_cons, digitsVal, digitVal_dch, List.foldl_cons, Nat.mod_eq_of_lt hd']
    exact ih (fun x hx => hd x (by simp [hx])) _

theorem pyIntSigned_hoursText (o : OffText) (hne : o.hdigits ≠ []) (hd : ∀ d ∈ o.hdigits, d < 10)
    (hlen : o.hdigits.length ≤ intMaxStrDigits) :
    pyIntSigned (hoursText o)
      = some (if o.sign = some true then -((hoursVal o.hdigits : Nat) : Int) else ((hoursVal o.hdigits : Nat) : Int)) := by
  have hbody : ∀ neg : Bool,
      (if (o.hdigits.map dch).isEmpty || (o.hdigits.map dch).length > intMaxStrDigits then none
        else (natOfAscii (o.hdigits.map dch)).map (fun n => if neg then -(n : Int) else (n : Int)))
      = some (if neg then -((hoursVal o.hdigits : Nat) : Int) else ((hoursVal o.hdigits : Nat) : Int)) := by
    intro neg
    have h1 : (o.hdigits.map dch).isEmpty = false := by
      cases h : o.hdigits with
      | nil => exact absurd h hne
      | cons a r => rfl
    have h2 : ¬ (o.hdigits.map dch).length > intMaxStrDigits := by simp; exact hlen
    simp [h1, natOfAscii, digitsVal_map_dch o.hdigits hd 0, hoursVal, hlen]
  unfold hoursText signText
  cases hs : o.sign with
  | some b =>
    cases b with
    | true => simp only [List.cons_append, List.nil_append, pyIntSigned]; simpa using hbody true
    | false => simp only [List.cons_append, List.nil_append, pyIntSigned]; simpa using hbody false
  | none =>
    simp only [List.nil_append]
    cases hh : o.hdigits with
    | nil => exact absurd hh hne
    | cons a r =>
      have hb := hbody false
      rw [hh] at hb
      simp only [List.map_cons] at hb ⊢
      unfold pyIntSigned
      split
      · rename_i ds heq
        have : dch a = '-' := by simpa using (List.cons.inj heq).1
        have h := isAsciiDigit_dch a; rw [this] at h; exact absurd h (by decide)
      · rename_i ds heq
        have : dch a = '+' := by simpa using (List.cons.inj heq).1
        have h := isAsciiDigit_dch a; rw [this] at h; exact absurd h (by decide)
      · simpa using hb

theorem startsMinus_hoursText (o : OffText) (hne : o.hdigits ≠ []) :
    startsMinus (some (hoursText o)) = decide (o.sign = some true) := by
  unfold hoursText signText
  cases hs : o.sign with
  | some b => cases b <;> simp [startsMinus]
  | none =>
    cases hh : o.hdigits with
    | nil => exact absurd hh hne
    | cons a r =>
      simp only [List.nil_append, List.map_cons]
      unfold startsMinus
      split
      · rename_i t heq
        have : dch a = '-' := by
          injection heq with heq
          exact (List.cons.inj heq).1
        have h := isAsciiDigit_dch a; rw [this] at h; exact absurd h (by decide)
      · simp

/-- `gmt_offset` followed by the `-0` correction gives the offset the text denotes -/
theorem gmtOffset_of_wf (o : OffText) (hmm : ∀ m, o.minutes = some m → m < 60)
    (hh : if o.sign = some true then hoursVal o.hdigits ≤ 12 else hoursVal o.hdigits ≤ 14) :
    ∃ X, gmtOffset (if o.sign = some true then -((hoursVal o.hdigits : Nat) : Int) else ((hoursVal o.hdigits : Nat) : Int))
        (o.minutes.getD 0) = .ok X
      ∧ (if (decide (o.sign = some true) &&
            (if o.sign = some true then -((hoursVal o.hdigits : Nat) : Int) else ((hoursVal o.hdigits : Nat) : Int)) == 0) = true
          then -X else X) = o.minutesEast := by
  have hm60 : o.minutes.getD 0 < 60 := by
    cases h : o.minutes with
    | none => simp
    | some m => simpa using hmm m h
  unfold OffText.minutesEast
  generalize hoursVal o.hdigits = hv at *
  generalize o.minutes.getD 0 = mm at *
  unfold gmtOffset
  by_cases hs : o.sign = some true
  · simp only [hs, if_true] at hh ⊢
    have h1 : ¬ (-(hv : Int) < -12 ∨ -(hv : Int) > 14) := by omega
    simp only [h1, if_false]
    by_cases h0 : hv = 0
    · subst h0
      refine ⟨_, rfl, ?_⟩
      simp
    · have hneg : -(hv : Int) < 0 := by omega
      have hnz : ((-(hv : Int)) == 0) = false := by simp; omega
      refine ⟨_, rfl, ?_⟩
      simp only [hneg, if_true, hnz, decide_true, Bool.and_false, Bool.false_eq_true, if_false]
      have : ((-(hv : Int)).natAbs : Int) = hv := by omega
      omega
  · simp only [hs, if_false] at hh ⊢
    have h1 : ¬ ((hv : Int) < -12 ∨ (hv : Int) > 14) := by omega
    have hneg : ¬ (hv : Int) < 0 := by omega
    simp only [h1, if_false, hneg]
    refine ⟨_, rfl, ?_⟩
    simp

/-- offset of an optional `[…]` part, minutes east (absent = GMT) -/
def offMinutes : Option OffText → Int | some o => o.minutesEast | none => 0

/-- everything the read theorems assume about an offset text: well-formed, and within CPython's `int()` limit -/
structure OffReadOk (o : OffText) : Prop where
  wf : o.wf = true
  len : o.hdigits.length ≤ intMaxStrDigits

theorem wf_parts {o : OffText} (hwf : o.wf = true) :
    o.hdigits ≠ [] ∧ (∀ d ∈ o.hdigits, d < 10) ∧ (∀ m, o.minutes = some m → m < 60)
    ∧ (∀ n, o.name = some n → '\n' ∉ n)
    ∧ (if o.sign = some true then hoursVal o.hdigits ≤ 12 else hoursVal o.hdigits ≤ 14) := by
  simp only [OffText.wf, Bool.and_eq_true] at hwf
  obtain ⟨⟨⟨⟨h1, h2⟩, h3⟩, h4⟩, h5⟩ := hwf
  refine ⟨?_, ?_, ?_, ?_, ?_⟩
  · intro he; rw [he] at h1; simp at h1
  · intro d hdm; rw [List.all_eq_true] at h2; simpa using h2 d hdm
  · intro m hm; rw [hm] at h3; simpa using h3
  · intro n hn; rw [hn] at h4; simpa using h4
  · by_cases hs : o.sign = some true
    · simp only [hs, if_true] at h5 ⊢; simpa using h5
    · simp only [hs, if_false] at h5 ⊢; simpa using h5

theorem OffReadOk.scan {o : OffText} (h : OffReadOk o) : OffScanOk o := by
  obtain ⟨a, _, c, d, _⟩ := wf_parts h.wf
  exact ⟨a, c, d⟩

theorem intOfAscii_min (mm : Option Nat) (h : ∀ m, mm = some m → m < 60) :
    intOfAscii (mm.map d2) = .ok (mm.getD 0) := by
  cases mm with
  | none => rfl
  | some m => simp [intOfAscii, natOfAscii_d2 m (by have := h m rfl; omega)]

theorem parseGmtOffset_render (tzs : List (Str × Int)) (off : Option OffText)
    (hoff : ∀ o, off = some o → OffReadOk o) :
    parseGmtOffset tzs (off.map hoursText) (off.bind (fun o => o.minutes.map d2)) (off.bind (fun o => o.name))
      = .ok (offMinutes off) := by
  cases off with
  | none => simp [parseGmtOffset, intOfAscii, gmtOffset, offMinutes, startsMinus, bind, Except.bind, pure, Except.pure]
  | some o =>
    have ok := hoff o rfl
    obtain ⟨hne, hd, hmm, _, hh⟩ := wf_parts ok.wf
    have hint := pyIntSigned_hoursText o hne hd ok.len
    have hmin := intOfAscii_min o.minutes hmm
    obtain ⟨X, hX, hflip⟩ := gmtOffset_of_wf o hmm hh
    simp only [Option.map_some, Option.bind_some, parseGmtOffset, hint, hmin, hX, bind, Except.bind, pure, Except.pure,
      offMinutes, startsMinus_hoursText o hne]
    exact congrArg Except.ok hflip

/-! ### microsecond arithmetic -/

theorem fromUs_spec (t : Int) (h1 : usPerDay ≤ t) (h2 : t < ((maxOrdinal : Nat) + 1 : Int) * usPerDay) :
    ∃ f, fromUs t = .ok f ∧ Cal.validDate f.year f.month f.day = true
      ∧ validTime f.hour f.minute f.second f.us = true
      ∧ toUs f.year f.month f.day f.hour f.minute f.second f.us = t := by
  unfold usPerDay maxOrdinal at *
  have hd1 : 1 ≤ t / 86400000000 := by omega
  have hd2 : t / 86400000000 ≤ 3652059 := by omega
  obtain ⟨n, hn⟩ : ∃ n : Nat, t / 86400000000 = n := ⟨(t / 86400000000).toNat, by omega⟩
  obtain ⟨r, hr⟩ : ∃ r : Nat, t % 86400000000 = r := ⟨(t % 86400000000).toNat, by omega⟩
  have hn1 : 1 ≤ n := by omega
  have hn2 : n ≤ maxOrdinal := by unfold maxOrdinal; omega
  obtain ⟨c1, c2, c3, c4, c5, c6⟩ := ymd2ord_ord2ymd n hn1
  have c7 := ord2ymd_year_le n hn2
  have hrr : r < 86400000000 := by omega
  refine ⟨⟨(ord2ymd n).1, (ord2ymd n).2.1, (ord2ymd n).2.2, r / 1000000 / 3600, r / 1000000 / 60 % 60,
    r / 1000000 % 60, r % 1000000⟩, ?_, ?_, ?_, ?_⟩
  · unfold fromUs usPerDay maxOrdinal
    simp only [hn, hr, Int.toNat_natCast]
    have : ¬ ((n : Int) < 1 ∨ (n : Int) > ((3652059 : Nat) : Int)) := by omega
    simp only [this, if_false]
  · simp only [Cal.validDate, Bool.and_eq_true, decide_eq_true_eq]
    exact ⟨⟨⟨⟨⟨c1, c7⟩, c2⟩, c3⟩, c4⟩, c5⟩
  · simp only [validTime, Bool.and_eq_true, decide_eq_true_eq]
    omega
  · unfold toUs
    simp only [c6]
    omega

theorem toUs_instant (y m d h mi s ms : Nat) (hm : 1 ≤ m ∧ m ≤ 12) (off : Int) :
    toUs y m d h mi s (1000 * ms) - off * 60000000 = 1000 * instantOf y m d h mi s ms off := by
  unfold toUs instantOf
  rw [spec_ordinal_eq y m d hm]
  omega

theorem intOfAscii_d2 (n : Nat) (h : n < 100) : intOfAscii (some (d2 n)) = .ok n := by
  simp [intOfAscii, natOfAscii_d2 n h]
theorem intOfAscii_d4 (n : Nat) (h : n < 10000) : intOfAscii (some (d4 n)) = .ok n := by
  simp [intOfAscii, natOfAscii_d4 n h]
theorem intOfAscii_ms (ms : Option Nat) (h : ∀ x, ms = some x → x < 1000) :
    intOfAscii (ms.map d3) = .ok (ms.getD 0) := by
  cases ms with
  | none => rfl
  | some x => simp [intOfAscii, natOfAscii_d3 x (h x rfl)]

theorem validDate_bounds {y m d : Nat} (h : Spec.Instant.validDate y m d = true) :
    1 ≤ y ∧ y ≤ 9999 ∧ 1 ≤ m ∧ m ≤ 12 ∧ 1 ≤ d ∧ d ≤ 31 := by
  have h' := h
  rw [spec_validDate_eq] at h'
  simp only [Cal.validDate, Bool.and_eq_true, decide_eq_true_eq] at h'
  obtain ⟨⟨⟨⟨⟨a, b⟩, c⟩, e⟩, f⟩, g⟩ := h'
  have := dimL_le (isLeap y) m ⟨c, e⟩
  rw [daysInMonth_eq] at g
  exact ⟨a, b, c, e, f, by omega⟩

theorem intOfAscii_none : intOfAscii none = .ok 0 := rfl

theorem ymd2ord_le_max (y m d : Nat) (y1 : 1 ≤ y) (y2 : y ≤ 9999) (hm : 1 ≤ m ∧ m ≤ 12)
    (hd : d ≤ daysInMonth y m) : ymd2ord y m d ≤ maxOrdinal := by
  obtain ⟨a, b, c, e, hb, hc, he, rfl⟩ := year_decomp y y1
  have hleap := isLeap_decomp a b c e hb hc he
  have hdby := dby_decomp a b c e hb hc he
  have h3 := (dbm_dim_le (isLeap (400 * a + 100 * b + 4 * c + e + 1)) m hm).1
  rw [daysInMonth_eq] at hd
  unfold ymd2ord maxOrdinal
  rw [daysBeforeMonth_eq, hdby]
  generalize isLeap (400 * a + 100 * b + 4 * c + e + 1) = L at *
  have hk : dbmL L m + d ≤ 365 ∨ (dbmL L m + d ≤ 366 ∧ e = 3 ∧ (c ≠ 24 ∨ b = 3)) := by
    cases L
    · left; simp at h3; omega
    · right
      have : e = 3 ∧ (c ≠ 24 ∨ b = 3) := by have := hleap.symm; simpa using this
      simp at h3
      exact ⟨by omega, this⟩
  by_cases ha : a ≤ 23
  · omega
  · have ha24 : a = 24 := by omega
    subst ha24
    by_cases hb2 : b ≤ 2
    · omega
    · have hb3 : b = 3 := by omega
      subst hb3
      by_cases hc23 : c ≤ 23
      · omega
      · have hc24 : c = 24 := by omega
        subst hc24
        omega

theorem range_us (I : Int) (h : minInstant ≤ I ∧ I < endInstant) :
    usPerDay ≤ 1000 * I ∧ 1000 * I < ((maxOrdinal : Nat) + 1 : Int) * usPerDay := by
  unfold minInstant endInstant at h
  unfold usPerDay maxOrdinal
  omega

/-- reading a full date-time text (`YYYYMMDDHHMMSS[.XXX][[offset]]`) -/
theorem dtConvertStr_full (tzs : List (Str × Int)) (y m d h mi s : Nat) (ms : Option Nat) (off : Option OffText)
    (hdate : Spec.Instant.validDate y m d = true) (htod : validTod h mi s = true)
    (hms : ∀ x, ms = some x → x < 1000) (hoff : ∀ o, off = some o → OffReadOk o)
    (hrange : minInstant ≤ instantOf y m d h mi s (ms.getD 0) (offMinutes off)
      ∧ instantOf y m d h mi s (ms.getD 0) (offMinutes off) < endInstant) :
    ∃ f, dtConvertStr tzs (dateText y m d ++ (todText h mi s ++ (msText ms ++ offText off)))
        = .ok (.dt (dtOfFields f (some utcTz)))
      ∧ Cal.validDate f.year f.month f.day = true ∧ validTime f.hour f.minute f.second f.us = true
      ∧ toUs f.year f.month f.day f.hour f.minute f.second f.us
          = 1000 * instantOf y m d h mi s (ms.getD 0) (offMinutes off) := by
  obtain ⟨y1, y2, m1, m2, d1, d2'⟩ := validDate_bounds hdate
  simp only [validTod, Bool.and_eq_true, decide_eq_true_eq] at htod
  obtain ⟨⟨t1, t2⟩, t3⟩ := htod
  have hmsv : ms.getD 0 < 1000 := by
    cases ms with
    | none => simp
    | some x => simpa using hms x rfl
  obtain ⟨u1, u2⟩ := range_us _ hrange
  rw [← toUs_instant y m d h mi s (ms.getD 0) ⟨m1, m2⟩ (offMinutes off)] at u1 u2 ⊢
  obtain ⟨f, hf, v1, v2, v3⟩ := fromUs_spec _ u1 u2
  refine ⟨f, ?_, v1, v2, v3⟩
  have hvd : Cal.validDate y m d = true := by rw [← spec_validDate_eq]; exact hdate
  have hvt : validTime h mi s (1000 * ms.getD 0) = true := by
    simp only [validTime, Bool.and_eq_true, decide_eq_true_eq]; omega
  simp only [dtConvertStr, dtRegex_render_full y m d h mi s ms off ⟨m1, m2⟩ ⟨d1, d2'⟩ ⟨t1, t2, t3⟩
      (fun o ho => (hoff o ho).scan), withTail, parseGmtOffset_render tzs off hoff,
    intOfAscii_d4 y (by omega), intOfAscii_d2 m (by omega), intOfAscii_d2 d (by omega),
    intOfAscii_d2 h (by omega), intOfAscii_d2 mi (by omega), intOfAscii_d2 s (by omega),
    intOfAscii_ms ms hms, bind, Except.bind, pure, Except.pure, hvd, hvt, Bool.and_self, Bool.not_true,
    Bool.false_eq_true, if_false, hf]

/-- reading a date-only text (`YYYYMMDD`): midnight GMT -/
theorem dtConvertStr_date (tzs : List (Str × Int)) (y m d : Nat)
    (hdate : Spec.Instant.validDate y m d = true) :
    ∃ f, dtConvertStr tzs (dateText y m d) = .ok (.dt (dtOfFields f (some utcTz)))
      ∧ Cal.validDate f.year f.month f.day = true ∧ validTime f.hour f.minute f.second f.us = true
      ∧ toUs f.year f.month f.day f.hour f.minute f.second f.us = 1000 * instantOf y m d 0 0 0 0 0 := by
  obtain ⟨y1, y2, m1, m2, d1, d2'⟩ := validDate_bounds hdate
  have hvd : Cal.validDate y m d = true := by rw [← spec_validDate_eq]; exact hdate
  have hr : minInstant ≤ instantOf y m d 0 0 0 0 0 ∧ instantOf y m d 0 0 0 0 0 < endInstant := by
    unfold minInstant endInstant instantOf
    rw [spec_ordinal_eq y m d ⟨m1, m2⟩]
    have hlo : 1 ≤ ymd2ord y m d := by unfold ymd2ord; omega
    have hhi : ymd2ord y m d ≤ maxOrdinal :=
      ymd2ord_le_max y m d y1 y2 ⟨m1, m2⟩ (by
        simp only [Cal.validDate, Bool.and_eq_true, decide_eq_true_eq] at hvd; exact hvd.2)
    unfold maxOrdinal at hhi
    omega
  obtain ⟨u1, u2⟩ := range_us _ hr
  rw [← toUs_instant y m d 0 0 0 0 ⟨m1, m2⟩ 0] at u1 u2 ⊢
  obtain ⟨f, hf, v1, v2, v3⟩ := fromUs_spec _ u1 u2
  refine ⟨f, ?_, v1, v2, v3⟩
  simp only [dtConvertStr, dtRegex_render_date y m d ⟨m1, m2⟩ ⟨d1, d2'⟩, parseGmtOffset, startsMinus, gmtOffset,
    intOfAscii_d4 y (by omega), intOfAscii_d2 m (by omega), intOfAscii_d2 d (by omega), intOfAscii_none,
    bind, Except.bind, pure, Except.pure, hvd]
  simp only [Nat.mul_zero, Int.sub_zero, Int.zero_mul] at hf ⊢
  simp [validTime, hf]

/-- reading a time text (`HHMMSS[.XXX][[offset]]`) -/
theorem tmConvertStr_render (tzs : List (Str × Int)) (h mi s : Nat) (ms : Option Nat) (off : Option OffText)
    (htod : validTod h mi s = true) (hms : ∀ x, ms = some x → x < 1000)
    (hoff : ∀ o, off = some o → OffReadOk o) :
    ∃ t : TM, tmConvertStr tzs (todText h mi s ++ (msText ms ++ offText off)) = .ok (.tm t)
      ∧ tmValid t = true ∧ t.tz = some utcTz
      ∧ tmInstantUs t = some (1000 * todInstantOf h mi s (ms.getD 0) (offMinutes off)) := by
  simp only [validTod, Bool.and_eq_true, decide_eq_true_eq] at htod
  obtain ⟨⟨t1, t2⟩, t3⟩ := htod
  have hmsv : ms.getD 0 < 1000 := by
    cases ms with
    | none => simp
    | some x => simpa using hms x rfl
  have hvt : validTime h mi s (1000 * ms.getD 0) = true := by
    simp only [validTime, Bool.and_eq_true, decide_eq_true_eq]; omega
  generalize hT : toUs 1999 6 8 h mi s (1000 * ms.getD 0) - offMinutes off * 60000000 = T
  refine ⟨⟨(todOfUs T).1, (todOfUs T).2.1, (todOfUs T).2.2.1, (todOfUs T).2.2.2, some utcTz⟩, ?_, ?_, rfl, ?_⟩
  · simp only [tmConvertStr, tmRegex_render h mi s ms off ⟨t1, t2, t3⟩ (fun o ho => (hoff o ho).scan), withTail,
      parseGmtOffset_render tzs off hoff, intOfAscii_d2 h (by omega), intOfAscii_d2 mi (by omega),
      intOfAscii_d2 s (by omega), intOfAscii_ms ms hms, bind, Except.bind, pure, Except.pure, hvt,
      Bool.not_true, Bool.false_eq_true, if_false, hT]
  · unfold todOfUs usPerDay
    simp only [tmValid, validTod, Bool.and_eq_true, decide_eq_true_eq]
    have : ((T % 86400000000).toNat : Int) = T % 86400000000 := by omega
    omega
  · unfold toUs at hT
    generalize ymd2ord 1999 6 8 = N at hT
    unfold tmInstantUs todOfUs todInstantOf utcTz usPerDay
    simp only [Option.map_some, Option.some.injEq]
    have : ((T % 86400000000).toNat : Int) = T % 86400000000 := by omega
    omega

/-! ### inversion: what an accepted text must look like -/

theorem asciiDigit_eq_dch (c : Char) (h : isAsciiDigit c = true) : ∃ k, k < 10 ∧ c = dch k := by
  simp only [isAsciiDigit, Bool.and_eq_true, decide_eq_true_eq] at h
  obtain ⟨h1, h2⟩ := h
  have h1' : 48 ≤ c.toNat := by
    have := UInt32.le_iff_toNat_le.mp (Char.le_def.mp h1)
    have e : ('0' : Char).val.toNat = 48 := by decide
    rw [e] at this; exact this
  have h2' : c.toNat ≤ 57 := by
    have := UInt32.le_iff_toNat_le.mp (Char.le_def.mp h2)
    have e : ('9' : Char).val.toNat = 57 := by decide
    rw [e] at this; exact this
  refine ⟨c.toNat - 48, by omega, ?_⟩
  unfold dch
  have : 48 + (c.toNat - 48) % 10 = c.toNat := by omega
  rw [this, Char.ofNat_toNat]

theorem dch_congr {a b : Nat} (h : a % 10 = b % 10) : dch a = dch b := by unfold dch; rw [h]

theorem digitVal_some (c : Char) (k : Nat) (h : digitVal c = some k) : k < 10 ∧ c = dch k := by
  unfold digitVal at h
  split at h
  · rename_i hc
    have hd : isAsciiDigit c = true := by simp [isAsciiDigit, hc.1, hc.2]
    obtain ⟨k', hk', hc'⟩ := asciiDigit_eq_dch c hd
    have := digitVal_dch k'
    rw [← hc'] at this
    unfold digitVal at this
    simp only [hc, and_self, if_true] at this
    injection h with h
    injection this with this
    rw [Nat.mod_eq_of_lt hk'] at this
    have : k = k' := by omega
    subst this
    exact ⟨hk', hc'⟩
  · exact absurd h (by simp)

theorem natOfAscii2_inv (a b : Char) (n : Nat) (h : natOfAscii [a, b] = some n) : n < 100 ∧ [a, b] = d2 n := by
  simp only [natOfAscii, digitsVal] at h
  cases ha : digitVal a with
  | none => simp [ha] at h
  | some ka =>
    cases hb : digitVal b with
    | none => simp [ha, hb] at h
    | some kb =>
      simp only [ha, hb, Option.some.injEq] at h
      obtain ⟨la, ea⟩ := digitVal_some a ka ha
      obtain ⟨lb, eb⟩ := digitVal_some b kb hb
      subst h
      refine ⟨by omega, ?_⟩
      rw [ea, eb, d2]
      congr 1
      · exact dch_congr (by omega)
      · congr 1; exact dch_congr (by omega)

theorem natOfAscii4_inv (a b c d : Char) (n : Nat) (h : natOfAscii [a, b, c, d] = some n) :
    n < 10000 ∧ [a, b, c, d] = d4 n := by
  simp only [natOfAscii, digitsVal] at h
  cases ha : digitVal a with
  | none => simp [ha] at h
  | some ka =>
    cases hb : digitVal b with
    | none => simp [ha, hb] at h
    | some kb =>
      cases hc : digitVal c with
      | none => simp [ha, hb, hc] at h
      | some kc =>
        cases hd : digitVal d with
        | none => simp [ha, hb, hc, hd] at h
        | some kd =>
          simp only [ha, hb, hc, hd, Option.some.injEq] at h
          obtain ⟨la, ea⟩ := digitVal_some a ka ha
          obtain ⟨lb, eb⟩ := digitVal_some b kb hb
          obtain ⟨lc, ec⟩ := digitVal_some c kc hc
          obtain ⟨ld, ed⟩ := digitVal_some d kd hd
          subst h
          refine ⟨by omega, ?_⟩
          rw [ea, eb, ec, ed, d4]
          congr 1
          · exact dch_congr (by omega)
          · congr 1
            · exact dch_congr (by omega)
            · congr 1
              · exact dch_congr (by omega)
              · congr 1; exact dch_congr (by omega)

theorem intOfAscii_some_ok (t : Str) (n : Nat) (h : intOfAscii (some t) = .ok n) : natOfAscii t = some n := by
  unfold intOfAscii at h
  simp only at h
  split at h
  · rename_i k hk; injection h with h; rw [hk, h]
  · exact absurd h (by simp)

def sameHead (g g' : Groups) : Prop :=
  g'.year = g.year ∧ g'.month = g.month ∧ g'.day = g.day ∧ g'.hour = g.hour ∧ g'.minute = g.minute ∧ g'.second = g.second

theorem afterSeconds_inv (g g' : Groups) (r : Str) (h : afterSeconds g r = some g') :
    sameHead g g' ∧ (r = [] ∨ ∃ c t, r = c :: t ∧ (c = '.' ∨ c = '[')) := by
  unfold afterSeconds at h
  simp only [] at h
  split at h
  · rename_i a b c t
    refine ⟨?_, Or.inr ⟨'.', _, rfl, Or.inl rfl⟩⟩
    split at h
    · split at h
      · injection h with h; subst h; exact ⟨rfl, rfl, rfl, rfl, rfl, rfl⟩
      · rw [Option.map_eq_some_iff] at h
        obtain ⟨x, _, hx⟩ := h
        subst hx; exact ⟨rfl, rfl, rfl, rfl, rfl, rfl⟩
      · exact absurd h (by simp)
    · exact absurd h (by simp)
  · split at h
    · injection h with h; subst h; exact ⟨⟨rfl, rfl, rfl, rfl, rfl, rfl⟩, Or.inl rfl⟩
    · rw [Option.map_eq_some_iff] at h
      obtain ⟨x, _, hx⟩ := h
      subst hx; exact ⟨⟨rfl, rfl, rfl, rfl, rfl, rfl⟩, Or.inr ⟨'[', _, rfl, Or.inr rfl⟩⟩
    · exact absurd h (by simp)

theorem timePart_inv (g g' : Groups) (r : Str) (h : timePart g r = some g') :
    ∃ h1 h2 m1 m2 s1 s2 r', r = h1 :: h2 :: m1 :: m2 :: s1 :: s2 :: r'
      ∧ g'.year = g.year ∧ g'.month = g.month ∧ g'.day = g.day
      ∧ g'.hour = some [h1, h2] ∧ g'.minute = some [m1, m2] ∧ g'.second = some [s1, s2]
      ∧ (r' = [] ∨ ∃ c t, r' = c :: t ∧ (c = '.' ∨ c = '[')) := by
  unfold timePart at h
  split at h
  · rename_i h1 h2 m1 m2 s1 s2 r'
    split at h
    · obtain ⟨⟨a, b, c, d, e, f⟩, hs⟩ := afterSeconds_inv _ _ _ h
      exact ⟨h1, h2, m1, m2, s1, s2, r', rfl, a, b, c, d, e, f, hs⟩
    · exact absurd h (by simp)
  · exact absurd h (by simp)

theorem dtRegex_inv (s : Str) (g : Groups) (h : dtRegex s = some g) :
    ∃ y1 y2 y3 y4 m1 m2 d1 d2 r, s = y1 :: y2 :: y3 :: y4 :: m1 :: m2 :: d1 :: d2 :: r
      ∧ g.year = some [y1, y2, y3, y4] ∧ g.month = some [m1, m2] ∧ g.day = some [d1, d2]
      ∧ ((r = [] ∧ g.hour = none ∧ g.minute = none ∧ g.second = none ∧ g.ms = none) ∨
          ∃ h1 h2 mi1 mi2 s1 s2 r', r = h1 :: h2 :: mi1 :: mi2 :: s1 :: s2 :: r'
            ∧ g.hour = some [h1, h2] ∧ g.minute = some [mi1, mi2] ∧ g.second = some [s1, s2]
            ∧ (r' = [] ∨ ∃ c t, r' = c :: t ∧ (c = '.' ∨ c = '['))) := by
  unfold dtRegex at h
  split at h
  · rename_i y1 y2 y3 y4 m1 m2 d1 d2 r
    refine ⟨y1, y2, y3, y4, m1, m2, d1, d2, r, rfl, ?_⟩
    split at h
    · simp only [] at h
      split at h
      · injection h with h; subst h
        exact ⟨rfl, rfl, rfl, Or.inl ⟨rfl, rfl, rfl, rfl, rfl⟩⟩
      · obtain ⟨h1, h2, mi1, mi2, s1, s2, r', hr, a, b, c, d, e, f, hs⟩ := timePart_inv _ _ _ h
        exact ⟨a, b, c, Or.inr ⟨h1, h2, mi1, mi2, s1, s2, r', hr, d, e, f, hs⟩⟩
    · exact absurd h (by simp)
  · exact absurd h (by simp)

/-! ### inversion of the offset scanner and of `int()` -/

theorem splitName_inv (t n : Str) (h : splitName t = some n) : t = n ++ [']'] ∧ '\n' ∉ n := by
  unfold splitName at h
  split at h
  · rename_i r heq
    split at h
    · exact absurd h (by simp)
    · rename_i hc
      injection h with h
      subst h
      have := congrArg List.reverse heq
      simp only [List.reverse_reverse, List.reverse_cons] at this
      refine ⟨this, ?_⟩
      simpa using hc
  · exact absurd h (by simp)

theorem nameTail_inv (r : Str) (x : Option Str) (h : nameTail r = some x) :
    (x = none ∧ r = [']']) ∨ (∃ n, x = some n ∧ r = ':' :: (n ++ [']']) ∧ '\n' ∉ n) := by
  unfold nameTail at h
  simp only [] at h
  split at h
  · rename_i y hy
    injection h with h
    subst h
    split at hy
    · rename_i t
      rw [Option.map_eq_some_iff] at hy
      obtain ⟨n, hn, rfl⟩ := hy
      obtain ⟨e1, e2⟩ := splitName_inv t n hn
      exact Or.inr ⟨n, rfl, by rw [e1], e2⟩
    · exact absurd hy (by simp)
  · split at h
    · rename_i hr
      injection h with h
      exact Or.inl ⟨h.symm, hr⟩
    · exact absurd h (by simp)

theorem offTail_inv (hh rest : Str) (x : Str × Option Str × Option Str) (hx : offTail hh rest = some x) :
    x.1 = hh ∧ ∃ mt rest', rest = mt ++ rest' ∧ nameTail rest' = some x.2.2
      ∧ ((mt = [] ∧ x.2.1 = none) ∨ ∃ d1 d2, mt = ['.', d1, d2] ∧ min2Ok d1 d2 = true ∧ x.2.1 = some [d1, d2]) := by
  unfold offTail at hx
  simp only [] at hx
  split at hx
  · rename_i y hy
    injection hx with hx
    subst hx
    split at hy
    · rename_i d1 d2 r
      split at hy
      · rename_i hok
        rw [Option.map_eq_some_iff] at hy
        obtain ⟨n, hn, rfl⟩ := hy
        exact ⟨rfl, ['.', d1, d2], r, rfl, hn, Or.inr ⟨d1, d2, rfl, hok, rfl⟩⟩
      · exact absurd hy (by simp)
    · exact absurd hy (by simp)
  · rw [Option.map_eq_some_iff] at hx
    obtain ⟨n, hn, rfl⟩ := hx
    exact ⟨rfl, [], rest, rfl, hn, Or.inl ⟨rfl, rfl⟩⟩

theorem hoursScan_inv (t : Str) : ∀ (acc : Str) (x : Str × Option Str × Option Str),
    hoursScan acc t = some x →
    ∃ h' t', h' ≠ [] ∧ (∀ c ∈ h', isHoursChar c = true) ∧ t = h' ++ t' ∧ offTail (acc.reverse ++ h') t' = some x := by
  induction t with
  | nil => intro acc x h; simp [hoursScan] at h
  | cons c cs ih =>
    intro acc x h
    unfold hoursScan at h
    split at h
    · rename_i hc
      split at h
      · rename_i y hy
        injection h with h
        subst h
        obtain ⟨h'', t', _, hall, hcs, hoff⟩ := ih (c :: acc) y hy
        refine ⟨c :: h'', t', by simp, ?_, by rw [hcs]; rfl, ?_⟩
        · intro d hd
          rcases List.mem_cons.mp hd with rfl | hd
          · exact hc
          · exact hall d hd
        · simpa using hoff
      · exact ⟨[c], cs, by simp, by intro d hd; simp at hd; subst hd; exact hc, rfl, by simpa using h⟩
    · exact absurd h (by simp)

def msRaw : Option Str → Str | some t => '.' :: t | none => []

/-- full structure of what follows the seconds -/
theorem afterSeconds_struct (g0 g : Groups) (r : Str)
    (h0 : g0.ms = none ∧ g0.offH = none ∧ g0.offM = none ∧ g0.name = none)
    (h : afterSeconds g0 r = some g) :
    sameHead g0 g ∧ ∃ r2, r = msRaw g.ms ++ r2
      ∧ (∀ t, g.ms = some t → ∃ a b c, t = [a, b, c] ∧ isAsciiDigit a = true ∧ isAsciiDigit b = true ∧ isAsciiDigit c = true)
      ∧ ((r2 = [] ∧ g.offH = none ∧ g.offM = none ∧ g.name = none)
          ∨ ∃ t hh, r2 = '[' :: t ∧ g.offH = some hh ∧ hoursScan [] t = some (hh, g.offM, g.name)) := by
  obtain ⟨y, mo, d, hr, mi, s, ms', oh, om, nm⟩ := g0
  simp only at h0
  obtain ⟨rfl, rfl, rfl, rfl⟩ := h0
  unfold afterSeconds at h
  simp only [] at h
  split at h
  · rename_i a b c t
    split at h
    · rename_i hdig
      simp only [Bool.and_eq_true] at hdig
      split at h
      · injection h with h; subst h
        exact ⟨⟨rfl, rfl, rfl, rfl, rfl, rfl⟩, [], by simp [msRaw],
          by intro t ht; injection ht with ht; exact ⟨a, b, c, ht.symm, hdig.1.1, hdig.1.2, hdig.2⟩,
          Or.inl ⟨rfl, rfl, rfl, rfl⟩⟩
      · rename_i t'
        rw [Option.map_eq_some_iff] at h
        obtain ⟨x, hx, rfl⟩ := h
        exact ⟨⟨rfl, rfl, rfl, rfl, rfl, rfl⟩, '[' :: t', by simp [msRaw],
          by intro t ht; injection ht with ht; exact ⟨a, b, c, ht.symm, hdig.1.1, hdig.1.2, hdig.2⟩,
          Or.inr ⟨t', x.1, rfl, rfl, by simpa using hx⟩⟩
      · exact absurd h (by simp)
    · exact absurd h (by simp)
  · split at h
    · injection h with h; subst h
      exact ⟨⟨rfl, rfl, rfl, rfl, rfl, rfl⟩, [], by simp [msRaw], by intro t ht; simp at ht, Or.inl ⟨rfl, rfl, rfl, rfl⟩⟩
    · rename_i t' _
      rw [Option.map_eq_some_iff] at h
      obtain ⟨x, hx, rfl⟩ := h
      exact ⟨⟨rfl, rfl, rfl, rfl, rfl, rfl⟩, '[' :: t', by simp [msRaw], by intro t ht; simp at ht,
        Or.inr ⟨t', x.1, rfl, rfl, by simpa using hx⟩⟩
    · exact absurd h (by simp)

theorem min2Ok_inv (d1 d2c : Char) (h : min2Ok d1 d2c = true) : ∃ mm, mm < 60 ∧ [d1, d2c] = d2 mm := by
  simp only [min2Ok, Bool.and_eq_true, decide_eq_true_eq] at h
  obtain ⟨⟨h1, h2⟩, h3⟩ := h
  have hd1 : isAsciiDigit d1 = true := by
    simp only [isAsciiDigit, Bool.and_eq_true, decide_eq_true_eq]
    exact ⟨h1, Char.le_trans h2 (by decide)⟩
  obtain ⟨k1, hk1, e1⟩ := asciiDigit_eq_dch d1 hd1
  obtain ⟨k2, hk2, e2⟩ := asciiDigit_eq_dch d2c h3
  have hk5 : k1 ≤ 5 := by
    rw [e1] at h2
    rcases lt10_cases k1 hk1 with h | h | h | h | h | h | h | h | h | h <;> subst h <;> first | omega | (exact absurd h2 (by decide))
  refine ⟨10 * k1 + k2, by omega, ?_⟩
  rw [e1, e2, d2]
  congr 1
  · exact dch_congr (by omega)
  · congr 1; exact dch_congr (by omega)

theorem digitsVal_inv (t : Str) : ∀ (acc n : Nat), digitsVal digitVal acc t = some n →
    ∃ ds : List Nat, t = ds.map dch ∧ (∀ d ∈ ds, d < 10) ∧ n = ds.foldl (fun a d => 10 * a + d) acc := by
  induction t with
  | nil => intro acc n h; simp [digitsVal] at h; exact ⟨[], rfl, by simp, by simp [h]⟩
  | cons c cs ih =>
    intro acc n h
    unfold digitsVal at h
    split at h
    · rename_i k hk
      obtain ⟨hk10, ec⟩ := digitVal_some c k hk
      obtain ⟨ds, e1, e2, e3⟩ := ih _ _ h
      refine ⟨k :: ds, by rw [e1, ec]; rfl, ?_, by simpa using e3⟩
      intro d hd
      rcases List.mem_cons.mp hd with rfl | hd
      · exact hk10
      · exact e2 d hd
    · exact absurd h (by simp)

/-- `int()` succeeded on a text over `[0-9+-]`: it is sign? digits+ -/
theorem pyIntSigned_inv (t : Str) (v : Int) (h : pyIntSigned t = some v) :
    ∃ (sign : Option Bool) (ds : List Nat), t = signText sign ++ ds.map dch ∧ ds ≠ [] ∧ (∀ d ∈ ds, d < 10)
      ∧ ds.length ≤ intMaxStrDigits
      ∧ v = (if sign = some true then -((hoursVal ds : Nat) : Int) else ((hoursVal ds : Nat) : Int)) := by
  have body : ∀ (neg : Bool) (u : Str),
      (if u.isEmpty || u.length > intMaxStrDigits then none
        else (natOfAscii u).map (fun n => if neg then -(n : Int) else (n : Int))) = some v →
      ∃ ds : List Nat, u = ds.map dch ∧ ds ≠ [] ∧ (∀ d ∈ ds, d < 10) ∧ ds.length ≤ intMaxStrDigits
        ∧ v = (if neg then -((hoursVal ds : Nat) : Int) else ((hoursVal ds : Nat) : Int)) := by
    intro neg u hu
    split at hu
    · exact absurd hu (by simp)
    · rename_i hcond
      simp only [Bool.or_eq_true, decide_eq_true_eq, not_or] at hcond
      cases hn : natOfAscii u with
      | none => simp [hn] at hu
      | some n =>
        obtain ⟨ds, e1, e2, e3⟩ := digitsVal_inv u 0 n hn
        refine ⟨ds, e1, ?_, e2, ?_, ?_⟩
        · intro hds; subst hds; simp at e1; subst e1; simp at hcond
        · have := hcond.2; rw [e1] at this; simpa using this
        · simp [hn] at hu
          rw [← hu, e3, hoursVal]
  unfold pyIntSigned at h
  split at h
  · rename_i ds'
    obtain ⟨ds, e1, e2, e3, e4, e5⟩ := body true ds' h
    exact ⟨some true, ds, by rw [e1]; rfl, e2, e3, e4, by simpa using e5⟩
  · rename_i ds'
    obtain ⟨ds, e1, e2, e3, e4, e5⟩ := body false ds' h
    exact ⟨some false, ds, by rw [e1]; rfl, e2, e3, e4, by simpa using e5⟩
  · rename_i ds' _ _
    obtain ⟨ds, e1, e2, e3, e4, e5⟩ := body false t h
    exact ⟨none, ds, by rw [e1]; rfl, e2, e3, e4, by simpa using e5⟩


/-- what follows the seconds, given the groups the match produced -/
def TailStruct (g : Groups) (r : Str) : Prop :=
  ∃ r2, r = msRaw g.ms ++ r2
    ∧ (∀ t, g.ms = some t → ∃ a b c, t = [a, b, c] ∧ isAsciiDigit a = true ∧ isAsciiDigit b = true ∧ isAsciiDigit c = true)
    ∧ ((r2 = [] ∧ g.offH = none ∧ g.offM = none ∧ g.name = none)
        ∨ ∃ t hh, r2 = '[' :: t ∧ g.offH = some hh ∧ hoursScan [] t = some (hh, g.offM, g.name))

theorem timePart_struct (g0 g : Groups) (r : Str)
    (h0 : g0.ms = none ∧ g0.offH = none ∧ g0.offM = none ∧ g0.name = none)
    (h : timePart g0 r = some g) :
    ∃ h1 h2 m1 m2 s1 s2 r', r = h1 :: h2 :: m1 :: m2 :: s1 :: s2 :: r'
      ∧ g.year = g0.year ∧ g.month = g0.month ∧ g.day = g0.day
      ∧ g.hour = some [h1, h2] ∧ g.minute = some [m1, m2] ∧ g.second = some [s1, s2]
      ∧ TailStruct g r' := by
  unfold timePart at h
  split at h
  · rename_i h1 h2 m1 m2 s1 s2 r'
    split at h
    · obtain ⟨⟨a, b, c, d, e, f⟩, hs⟩ := afterSeconds_struct _ _ _ (by exact h0) h
      exact ⟨h1, h2, m1, m2, s1, s2, r', rfl, a, b, c, d, e, f, hs⟩
    · exact absurd h (by simp)
  · exact absurd h (by simp)

theorem dtRegex_struct (s : Str) (g : Groups) (h : dtRegex s = some g) :
    ∃ y1 y2 y3 y4 m1 m2 d1 d2 r, s = y1 :: y2 :: y3 :: y4 :: m1 :: m2 :: d1 :: d2 :: r
      ∧ g.year = some [y1, y2, y3, y4] ∧ g.month = some [m1, m2] ∧ g.day = some [d1, d2]
      ∧ ((r = [] ∧ g.hour = none ∧ g.minute = none ∧ g.second = none ∧ g.ms = none
            ∧ g.offH = none ∧ g.offM = none ∧ g.name = none) ∨
          ∃ h1 h2 mi1 mi2 s1 s2 r', r = h1 :: h2 :: mi1 :: mi2 :: s1 :: s2 :: r'
            ∧ g.hour = some [h1, h2] ∧ g.minute = some [mi1, mi2] ∧ g.second = some [s1, s2]
            ∧ TailStruct g r') := by
  unfold dtRegex at h
  split at h
  · rename_i y1 y2 y3 y4 m1 m2 d1 d2 r
    refine ⟨y1, y2, y3, y4, m1, m2, d1, d2, r, rfl, ?_⟩
    split at h
    · simp only [] at h
      split at h
      · injection h with h; subst h
        exact ⟨rfl, rfl, rfl, Or.inl ⟨rfl, rfl, rfl, rfl, rfl, rfl, rfl, rfl⟩⟩
      · obtain ⟨h1, h2, mi1, mi2, s1, s2, r', hr, a, b, c, d, e, f, hs⟩ :=
          timePart_struct _ _ _ ⟨rfl, rfl, rfl, rfl⟩ h
        exact ⟨a, b, c, Or.inr ⟨h1, h2, mi1, mi2, s1, s2, r', hr, d, e, f, hs⟩⟩
    · exact absurd h (by simp)
  · exact absurd h (by simp)

/-- an offset body the scanner accepted and whose hours text is an integer in −12 … 14 is a well-formed
    offset text of the notation -/
theorem offset_in_notation (hh : Str) (om nm : Option Str) (t : Str) (hv : Int)
    (hscan : hoursScan [] t = some (hh, om, nm)) (hint : pyIntSigned hh = some hv) (hr : -12 ≤ hv ∧ hv ≤ 14) :
    ∃ o : OffText, o.wf = true ∧ t = o.render ++ [']'] ∧ hoursText o = hh ∧ om = o.minutes.map d2 ∧ nm = o.name := by
  obtain ⟨h', t', _, _, ht, hoff⟩ := hoursScan_inv t [] _ hscan
  simp only [List.reverse_nil, List.nil_append] at hoff
  obtain ⟨e1, mt, rest', hrest, hnt, hmt⟩ := offTail_inv _ _ _ hoff
  simp only at e1 hnt hmt
  subst e1
  obtain ⟨sign, ds, ehh, hne, hlt, _, hval⟩ := pyIntSigned_inv hh hv hint
  have hmin : ∃ mm : Option Nat, (∀ m, mm = some m → m < 60) ∧ mt = minutesText mm ∧ om = mm.map d2 := by
    rcases hmt with ⟨rfl, rfl⟩ | ⟨d1, d2c, rfl, hok, rfl⟩
    · exact ⟨none, by simp, rfl, rfl⟩
    · obtain ⟨mm, hmm, e⟩ := min2Ok_inv d1 d2c hok
      exact ⟨some mm, by intro m hm; injection hm with hm; omega, by simp [minutesText, ← e], by simp [e]⟩
  obtain ⟨mm, hmm, emt, eom⟩ := hmin
  have hname : (∀ n, nm = some n → '\n' ∉ n) ∧ rest' = nameText nm ++ [']'] := by
    rcases nameTail_inv _ _ hnt with ⟨rfl, rfl⟩ | ⟨n, rfl, rfl, hn⟩
    · exact ⟨by simp, rfl⟩
    · exact ⟨by intro n' hn'; injection hn' with hn'; subst hn'; exact hn, rfl⟩
  obtain ⟨hnm, erest⟩ := hname
  refine ⟨⟨sign, ds, mm, nm⟩, ?_, ?_, ehh.symm ▸ rfl, eom, rfl⟩
  · simp only [OffText.wf, Bool.and_eq_true]
    refine ⟨⟨⟨⟨?_, ?_⟩, ?_⟩, ?_⟩, ?_⟩
    · cases ds with
      | nil => exact absurd rfl hne
      | cons a r => rfl
    · rw [List.all_eq_true]; intro d hd; simpa using hlt d hd
    · cases mm with
      | none => rfl
      | some m => simpa using hmm m rfl
    · cases nm with
      | none => rfl
      | some n => simpa using hnm n rfl
    · by_cases hs : sign = some true
      · simp only [hs, if_true] at hval ⊢; simp; omega
      · simp only [hs, if_false] at hval ⊢; simp; omega
  · rw [OffText.render_eq, ht, hrest, emt, erest, ehh]
    simp [hoursText]

/-! ### writing -/

theorem pad2_eq (n : Nat) : pad2 n = d2 n := rfl
theorem pad3_eq (n : Nat) : pad3 n = d3 n := rfl

theorem natDigits_year (y : Nat) (h1 : 1000 ≤ y) (h2 : y < 10000) :
    natDigits y = [y / 1000, y / 100 % 10, y / 10 % 10, y % 10] := by
  obtain ⟨k, rfl⟩ : ∃ k, y = k + 3 := ⟨y - 3, by omega⟩
  unfold natDigits
  rw [natDigitsAux, if_neg (by omega), natDigitsAux, if_neg (by omega), natDigitsAux, if_neg (by omega),
    natDigitsAux, if_pos (by omega)]
  simp only [List.cons.injEq, and_true]
  omega

theorem digitChar_eq_dch (d : Nat) (h : d < 10) : digitChar d = dch d := by
  unfold digitChar dch; rw [Nat.mod_eq_of_lt h]

theorem pyStrNat_year (y : Nat) (h1 : 1000 ≤ y) (h2 : y < 10000) : pyStrNat y = d4 y := by
  unfold pyStrNat
  rw [natDigits_year y h1 h2]
  simp only [List.map, d4]
  rw [digitChar_eq_dch _ (by omega), digitChar_eq_dch _ (by omega), digitChar_eq_dch _ (by omega),
    digitChar_eq_dch _ (by omega)]
  congr 1
  congr 1
  · exact dch_congr (by omega)
  · congr 1
    · exact dch_congr (by omega)
    · congr 1; exact dch_congr (by omega)

theorem natDigits_lt10 (n : Nat) (h : n < 10) : natDigits n = [n] := by
  unfold natDigits
  rw [natDigitsAux, if_pos h]

theorem natDigits_lt100 (n : Nat) (h1 : 10 ≤ n) (h2 : n < 100) : natDigits n = [n / 10, n % 10] := by
  obtain ⟨k, rfl⟩ : ∃ k, n = k + 1 := ⟨n - 1, by omega⟩
  unfold natDigits
  rw [natDigitsAux, if_neg (by omega), natDigitsAux, if_pos (by omega)]

theorem natDigits_small (n : Nat) (hn : n < 25) :
    natDigits n ≠ [] ∧ (natDigits n).all (· < 10) = true ∧ hoursVal (natDigits n) = n
    ∧ (natDigits n).map dch = pyStrNat n ∧ (natDigits n).length ≤ 2 := by
  unfold pyStrNat
  by_cases h : n < 10
  · rw [natDigits_lt10 n h]
    refine ⟨by simp, by simp [h], by simp [hoursVal], ?_, by simp⟩
    simp [digitChar_eq_dch n h]
  · rw [natDigits_lt100 n (by omega) (by omega)]
    refine ⟨by simp, ?_, ?_, ?_, by simp⟩
    · simp; omega
    · simp [hoursVal]; omega
    · simp [digitChar_eq_dch (n / 10) (by omega), digitChar_eq_dch (n % 10) (by omega)]
theorem ord2ymd_year_ge (n : Nat) (h : 364878 ≤ n) : 1000 ≤ (ord2ymd n).1 := by
  unfold ord2ymd
  simp only []
  generalize hr1 : (n - 1) % 146097 = r1
  generalize ha : (n - 1) / 146097 = a
  generalize hr2 : r1 % 36524 = r2
  generalize hb : r1 / 36524 = b
  generalize hr3 : r2 % 1461 = r3
  generalize hc : r2 / 1461 = c
  generalize hk : r3 % 365 = k
  generalize he : r3 / 365 = e
  have hb' : b ≤ 4 := by omega
  have hc' : c ≤ 24 := by omega
  have he' : e ≤ 4 := by omega
  have ha' : 2 ≤ a := by omega
  have f1 : a = 2 → 1 ≤ b := by omega
  have f2 : a = 2 → b = 1 → c = 24 := by omega
  have f3 : a = 2 → b = 1 → 3 ≤ e := by
    intro h2 h1
    have := f2 h2 h1
    omega
  split
  · rename_i hsp
    simp only [Bool.or_eq_true, beq_iff_eq] at hsp
    simp only; omega
  · rename_i hne
    simp only [Bool.or_eq_true, beq_iff_eq, not_or] at hne
    simp only; omega

/-- the offset part the writer produces, structurally: always signed, hours without leading zeros,
    `.MM` only when non-zero, the name as given -/
def canonOff (offMin : Int) (name : Option Str) : OffText :=
  ⟨some (decide (offMin < 0)), natDigits (offMin.natAbs / 60),
   if offMin.natAbs % 60 != 0 then some (offMin.natAbs % 60) else none, name⟩

theorem formatOffset_eq (offUs : Int) (name : Option Str)
    (hr : -usPerDay < offUs ∧ offUs < usPerDay) :
    formatOffset offUs name = (canonOff (offUs / 60000000) name).render := by
  unfold usPerDay at hr
  have hh : (offUs / 60000000).natAbs / 60 < 25 := by omega
  obtain ⟨_, _, _, hmap, _⟩ := natDigits_small _ hh
  unfold formatOffset canonOff OffText.render
  simp only [hmap, pad2_eq]
  by_cases hneg : offUs / 60000000 < 0 <;> by_cases hm : ((offUs / 60000000).natAbs % 60 != 0) = true <;>
    cases name <;> simp [hneg, hm]

theorem canonOff_minutesEast (offMin : Int) (name : Option Str) (hh : offMin.natAbs / 60 < 25) :
    (canonOff offMin name).minutesEast = offMin := by
  obtain ⟨_, _, hv, _, _⟩ := natDigits_small _ hh
  unfold OffText.minutesEast canonOff
  simp only [hv]
  by_cases hm : (offMin.natAbs % 60 != 0) = true
  · simp only [hm, if_true, Option.getD_some]
    by_cases hneg : offMin < 0 <;> simp [hneg] <;> omega
  · have : offMin.natAbs % 60 = 0 := by simpa using hm
    simp only [hm, Bool.false_eq_true, if_false, Option.getD_none]
    by_cases hneg : offMin < 0 <;> simp [hneg] <;> omega

theorem canonOff_wf (offMin : Int) (name : Option Str) (hr : -720 ≤ offMin ∧ offMin ≤ 840)
    (hname : ∀ n, name = some n → '\n' ∉ n) : (canonOff offMin name).wf = true := by
  have hh : offMin.natAbs / 60 < 25 := by omega
  obtain ⟨h1, h2, h3, _, _⟩ := natDigits_small _ hh
  unfold OffText.wf
  simp only [canonOff, Bool.and_eq_true, h3]
  refine ⟨⟨⟨⟨?_, h2⟩, ?_⟩, ?_⟩, ?_⟩
  · cases hd : natDigits (offMin.natAbs / 60) with
    | nil => exact absurd hd h1
    | cons a r => rfl
  · by_cases hm : (offMin.natAbs % 60 != 0) = true
    · simp only [hm, if_true, decide_eq_true_eq]; omega
    · simp [hm]
  · cases name with
    | none => rfl
    | some n => simpa using hname n rfl
  · by_cases hneg : offMin < 0
    · simp [hneg]; omega
    · simp [hneg]; omega

theorem utcoffset_not (tz : Tz) (hr : -usPerDay < tz.offUs ∧ tz.offUs < usPerDay) :
    ¬ (tz.offUs ≤ -usPerDay ∨ tz.offUs ≥ usPerDay) := by omega

theorem utcoffset_some (tz : Tz) (hr : -usPerDay < tz.offUs ∧ tz.offUs < usPerDay) :
    utcoffset (some tz) = .ok (some tz.offUs) := by
  unfold utcoffset
  simp only []
  rw [if_neg (utcoffset_not tz hr)]

/-- (the discriminant `fromUs …` is generalised before rewriting: the kernel must never try to evaluate it) -/
theorem formatDatetime_eq (timeOnly : Bool) (f b : Fields) (tz : Tz)
    (hr : -usPerDay < tz.offUs ∧ tz.offUs < usPerDay)
    (hb : fromUs (toUs f.year f.month f.day f.hour f.minute f.second f.us + 500) = .ok b) :
    formatDatetime timeOnly f (some tz)
      = .ok ((if timeOnly then strftimeHMS b else strftimeYmdHMS b) ++ '.' :: pad3 (b.us / 1000)
              ++ '[' :: formatOffset tz.offUs tz.name ++ [']']) := by
  unfold formatDatetime
  generalize fromUs (toUs f.year f.month f.day f.hour f.minute f.second f.us + 500) = r at hb ⊢
  subst hb
  rw [utcoffset_some tz hr]
  rfl

/-! ### the executable recogniser `Spec.Instant.parse` is sound for `InNotation` -/

theorem dval_eq_digitVal (c : Char) : dval c = digitVal c := rfl

theorem takeNum2_inv (s r : Str) (v : Nat) (h : takeNum 2 0 s = some (v, r)) : s = d2 v ++ r := by
  match s, h with
  | a :: b :: r', h =>
    simp only [takeNum, dval_eq_digitVal] at h
    cases ha : digitVal a with
    | none => simp [ha] at h
    | some ka =>
      cases hb : digitVal b with
      | none => simp [ha, hb] at h
      | some kb =>
        simp only [ha, hb, Option.some.injEq, Prod.mk.injEq] at h
        obtain ⟨hv, hr⟩ := h
        subst hr
        have hn : natOfAscii [a, b] = some v := by
          simp only [natOfAscii, digitsVal, ha, hb]; rw [← hv]
        obtain ⟨_, e⟩ := natOfAscii2_inv a b v hn
        rw [← e]; rfl
  | [a], h => simp [takeNum] at h; cases hd : dval a <;> simp [hd] at h
  | [], h => simp [takeNum] at h

theorem natOfAscii3_inv (a b c : Char) (n : Nat) (h : natOfAscii [a, b, c] = some n) :
    n < 1000 ∧ [a, b, c] = d3 n := by
  simp only [natOfAscii, digitsVal] at h
  cases ha : digitVal a with
  | none => simp [ha] at h
  | some ka =>
    cases hb : digitVal b with
    | none => simp [ha, hb] at h
    | some kb =>
      cases hc : digitVal c with
      | none => simp [ha, hb, hc] at h
      | some kc =>
        simp only [ha, hb, hc, Option.some.injEq] at h
        obtain ⟨la, ea⟩ := digitVal_some a ka ha
        obtain ⟨lb, eb⟩ := digitVal_some b kb hb
        obtain ⟨lc, ec⟩ := digitVal_some c kc hc
        subst h
        refine ⟨by omega, ?_⟩
        rw [ea, eb, ec, d3]
        congr 1
        · exact dch_congr (by omega)
        · congr 1
          · exact dch_congr (by omega)
          · congr 1; exact dch_congr (by omega)

theorem takeNum3_inv (s r : Str) (v : Nat) (h : takeNum 3 0 s = some (v, r)) : s = d3 v ++ r := by
  match s, h with
  | a :: b :: c :: r', h =>
    simp only [takeNum, dval_eq_digitVal] at h
    cases ha : digitVal a with
    | none => simp [ha] at h
    | some ka =>
      cases hb : digitVal b with
      | none => simp [ha, hb] at h
      | some kb =>
        cases hc : digitVal c with
        | none => simp [ha, hb, hc] at h
        | some kc =>
          simp only [ha, hb, hc, Option.some.injEq, Prod.mk.injEq] at h
          obtain ⟨hv, hr⟩ := h
          subst hr
          have hn : natOfAscii [a, b, c] = some v := by
            simp only [natOfAscii, digitsVal, ha, hb, hc]; rw [← hv]
          obtain ⟨_, e⟩ := natOfAscii3_inv a b c v hn
          rw [← e]; rfl
  | [a, b], h =>
    simp [takeNum] at h
    cases hd : dval a <;> simp [hd] at h
    cases he : dval b <;> simp [he] at h
  | [a], h => simp [takeNum] at h; cases hd : dval a <;> simp [hd] at h
  | [], h => simp [takeNum] at h

theorem takeNum4_inv (s r : Str) (v : Nat) (h : takeNum 4 0 s = some (v, r)) : s = d4 v ++ r := by
  match s, h with
  | a :: b :: c :: d :: r', h =>
    simp only [takeNum, dval_eq_digitVal] at h
    cases ha : digitVal a with
    | none => simp [ha] at h
    | some ka =>
      cases hb : digitVal b with
      | none => simp [ha, hb] at h
      | some kb =>
        cases hc : digitVal c with
        | none => simp [ha, hb, hc] at h
        | some kc =>
          cases hd : digitVal d with
          | none => simp [ha, hb, hc, hd] at h
          | some kd =>
            simp only [ha, hb, hc, hd, Option.some.injEq, Prod.mk.injEq] at h
            obtain ⟨hv, hr⟩ := h
            subst hr
            have hn : natOfAscii [a, b, c, d] = some v := by
              simp only [natOfAscii, digitsVal, ha, hb, hc, hd]; rw [← hv]
            obtain ⟨_, e⟩ := natOfAscii4_inv a b c d v hn
            rw [← e]; rfl
  | [a, b, c], h =>
    simp [takeNum] at h
    cases hd : dval a <;> simp [hd] at h
    cases he : dval b <;> simp [he] at h
    cases hf : dval c <;> simp [hf] at h
  | [a, b], h =>
    simp [takeNum] at h
    cases hd : dval a <;> simp [hd] at h
    cases he : dval b <;> simp [he] at h
  | [a], h => simp [takeNum] at h; cases hd : dval a <;> simp [hd] at h
  | [], h => simp [takeNum] at h

theorem spanDigits_inv (t : Str) : t = ((spanDigits t).1.map dch) ++ (spanDigits t).2 := by
  induction t with
  | nil => rfl
  | cons c cs ih =>
    unfold spanDigits
    cases hd : dval c with
    | none => simp
    | some k =>
      simp only
      obtain ⟨_, e⟩ := digitVal_some c k hd
      rw [List.map_cons, List.cons_append, ← ih, ← e]

theorem takeMinutes_inv (t t' : Str) (m : Option Nat) (h : takeMinutes t = some (m, t')) :
    t = minutesText m ++ t' := by
  unfold takeMinutes at h
  split at h
  · rename_i r
    split at h
    · rename_i v r' hv
      simp only [Option.some.injEq, Prod.mk.injEq] at h
      obtain ⟨rfl, rfl⟩ := h
      rw [takeNum2_inv r r' v hv]; rfl
    · exact absurd h (by simp)
  · simp only [Option.some.injEq, Prod.mk.injEq] at h
    obtain ⟨rfl, rfl⟩ := h
    rfl

theorem takeMs_inv (t t' : Str) (m : Option Nat) (h : takeMs t = some (m, t')) :
    t = msText m ++ t' := by
  unfold takeMs at h
  split at h
  · rename_i r
    split at h
    · rename_i v r' hv
      simp only [Option.some.injEq, Prod.mk.injEq] at h
      obtain ⟨rfl, rfl⟩ := h
      rw [takeNum3_inv r r' v hv]; rfl
    · exact absurd h (by simp)
  · simp only [Option.some.injEq, Prod.mk.injEq] at h
    obtain ⟨rfl, rfl⟩ := h
    rfl

theorem offName_inv (sign : Option Bool) (ds : List Nat) (m : Option Nat) (t : Str) (o : OffText)
    (h : offName sign ds m t = some o) :
    o.sign = sign ∧ o.hdigits = ds ∧ o.minutes = m ∧ t = nameText o.name := by
  unfold offName at h
  split at h
  · injection h with h; subst h; exact ⟨rfl, rfl, rfl, rfl⟩
  · injection h with h; subst h; exact ⟨rfl, rfl, rfl, rfl⟩
  · exact absurd h (by simp)

theorem parseOffBody_inv (sign : Option Bool) (t : Str) (o : OffText) (h : parseOffBody sign t = some o) :
    o.sign = sign ∧ t = o.hdigits.map dch ++ (minutesText o.minutes ++ nameText o.name) := by
  unfold parseOffBody at h
  split at h
  · exact absurd h (by simp)
  · rename_i m t' hm
    obtain ⟨h1, h2, h3, h4⟩ := offName_inv _ _ _ _ _ h
    have := takeMinutes_inv _ _ _ hm
    refine ⟨h1, ?_⟩
    rw [h2, h3, ← h4, ← this]
    exact spanDigits_inv t

theorem parseOff_inv (b : Str) (o : OffText) (h : parseOff b = some o) : o.render = b := by
  rw [OffText.render_eq]
  unfold hoursText
  unfold parseOff at h
  split at h
  · obtain ⟨h1, h2⟩ := parseOffBody_inv _ _ _ h; rw [h1, h2]; rfl
  · obtain ⟨h1, h2⟩ := parseOffBody_inv _ _ _ h; rw [h1, h2]; rfl
  · obtain ⟨h1, h2⟩ := parseOffBody_inv _ _ _ h; rw [h1, h2]; rfl

theorem takeOff_inv (t : Str) (off : Option OffText) (h : takeOff t = some off) : t = offText off := by
  unfold takeOff at h
  split at h
  · injection h with h; subst h; rfl
  · rename_i r
    split at h
    · rename_i b hb
      rw [Option.map_eq_some_iff] at h
      obtain ⟨o, ho, rfl⟩ := h
      have := parseOff_inv _ _ ho
      have hr : r = b.reverse ++ [']'] := by
        have := congrArg List.reverse hb
        simpa using this
      rw [hr, ← this]; rfl
    · exact absurd h (by simp)
  · exact absurd h (by simp)

theorem parseTail_inv (t : Str) (ms : Option Nat) (off : Option OffText) (h : parseTail t = some (ms, off)) :
    t = msText ms ++ offText off := by
  unfold parseTail at h
  split at h
  · exact absurd h (by simp)
  · rename_i ms' t' hms
    rw [Option.map_eq_some_iff] at h
    obtain ⟨off', ho, hx⟩ := h
    simp only [Prod.mk.injEq] at hx
    obtain ⟨rfl, rfl⟩ := hx
    rw [takeMs_inv _ _ _ hms, takeOff_inv _ _ ho]

theorem parseTod_inv (t t' : Str) (h mi s : Nat) (hp : parseTod t = some ((h, mi, s), t')) :
    t = todText h mi s ++ t' := by
  unfold parseTod at hp
  simp only [bind, Option.bind] at hp
  split at hp
  · exact absurd hp (by simp)
  · rename_i x1 h1
    obtain ⟨a, r1⟩ := x1
    simp only at hp
    split at hp
    · exact absurd hp (by simp)
    · rename_i x2 h2
      obtain ⟨b, r2⟩ := x2
      simp only at hp
      split at hp
      · exact absurd hp (by simp)
      · rename_i x3 h3
        obtain ⟨c, r3⟩ := x3
        simp only [pure, Option.some.injEq, Prod.mk.injEq] at hp
        obtain ⟨⟨rfl, rfl, rfl⟩, rfl⟩ := hp
        rw [takeNum2_inv _ _ _ h1, takeNum2_inv _ _ _ h2, takeNum2_inv _ _ _ h3]
        simp [todText]

theorem render_time (h mi s : Nat) (ms : Option Nat) (off : Option OffText) :
    Parts.render ⟨none, some (h, mi, s), ms, off⟩ = todText h mi s ++ (msText ms ++ offText off) := by
  cases ms <;> cases off <;> simp [Parts.render, todText, msText, offText]

theorem render_full (y m d h mi s : Nat) (ms : Option Nat) (off : Option OffText) :
    Parts.render ⟨some (y, m, d), some (h, mi, s), ms, off⟩
      = dateText y m d ++ (todText h mi s ++ (msText ms ++ offText off)) := by
  cases ms <;> cases off <;> simp [Parts.render, dateText, todText, msText, offText]

theorem parseShape_inv (isTime : Bool) (s : Str) (p : Parts) (h : parseShape isTime s = some p) : p.render = s := by
  unfold parseShape at h
  cases isTime with
  | true =>
    simp only [if_true, bind, Option.bind] at h
    split at h
    · exact absurd h (by simp)
    · rename_i x1 h1
      obtain ⟨⟨hh, mi, sec⟩, t⟩ := x1
      simp only at h
      split at h
      · exact absurd h (by simp)
      · rename_i x2 h2
        obtain ⟨ms, off⟩ := x2
        simp only [pure, Option.some.injEq] at h
        subst h
        rw [render_time, parseTod_inv _ _ _ _ _ h1, parseTail_inv _ _ _ h2]
  | false =>
    simp only [Bool.false_eq_true, if_false, bind, Option.bind] at h
    split at h
    · exact absurd h (by simp)
    · rename_i x1 h1
      obtain ⟨y, t1⟩ := x1
      simp only at h
      split at h
      · exact absurd h (by simp)
      · rename_i x2 h2
        obtain ⟨m, t2⟩ := x2
        simp only at h
        split at h
        · exact absurd h (by simp)
        · rename_i x3 h3
          obtain ⟨d, t3⟩ := x3
          simp only at h
          have hs : s = dateText y m d ++ t3 := by
            rw [takeNum4_inv _ _ _ h1, takeNum2_inv _ _ _ h2, takeNum2_inv _ _ _ h3]
            simp [dateText]
          split at h
          · simp only [pure, Option.some.injEq] at h
            subst h
            rw [hs]; simp [Parts.render, dateText]
          · split at h
            · exact absurd h (by simp)
            · rename_i x4 h4
              obtain ⟨⟨hh, mi, sec⟩, t4⟩ := x4
              simp only at h
              split at h
              · exact absurd h (by simp)
              · rename_i x5 h5
                obtain ⟨ms, off⟩ := x5
                simp only [pure, Option.some.injEq] at h
                subst h
                rw [render_full, hs, parseTod_inv _ _ _ _ _ h4, parseTail_inv _ _ _ h5]

/-- the executable recogniser is sound for the declarative notation -/
theorem parse_sound (isTime : Bool) (s : Str) (p : Parts) (h : parse isTime s = some p) :
    p.wf isTime = true ∧ p.render = s := by
  unfold parse at h
  split at h
  · rename_i p' hp
    split at h
    · rename_i hw
      injection h with h; subst h
      exact ⟨hw, parseShape_inv _ _ _ hp⟩
    · exact absurd h (by simp)
  · exact absurd h (by simp)

theorem inNotationB_sound (isTime : Bool) (s : Str) (h : inNotationB isTime s = true) : InNotation isTime s := by
  unfold inNotationB at h
  cases hp : parse isTime s with
  | none => rw [hp] at h; simp at h
  | some p => exact ⟨p, parse_sound _ _ _ hp⟩
/-! ### … and complete: `InNotation` is decided by `inNotationB` -/

theorem dval_dch (n : Nat) : dval (dch n) = some (n % 10) := digitVal_dch n

theorem takeNum2_d2 (v : Nat) (r : Str) (h : v < 100) : takeNum 2 0 (d2 v ++ r) = some (v, r) := by
  simp only [d2, List.cons_append, List.nil_append, takeNum, dval_dch]
  congr 2; omega

theorem takeNum3_d3 (v : Nat) (r : Str) (h : v < 1000) : takeNum 3 0 (d3 v ++ r) = some (v, r) := by
  simp only [d3, List.cons_append, List.nil_append, takeNum, dval_dch]
  congr 2; omega

theorem takeNum4_d4 (v : Nat) (r : Str) (h : v < 10000) : takeNum 4 0 (d4 v ++ r) = some (v, r) := by
  simp only [d4, List.cons_append, List.nil_append, takeNum, dval_dch]
  congr 2; omega

/-- the next character is not an ASCII digit (or there is none) -/
def noDigitHead : Str → Prop
  | [] => True
  | c :: _ => dval c = none

theorem spanDigits_map (ds : List Nat) (r : Str) (hd : ∀ d ∈ ds, d < 10) (hr : noDigitHead r) :
    spanDigits (ds.map dch ++ r) = (ds, r) := by
  induction ds with
  | nil =>
    cases r with
    | nil => rfl
    | cons c cs => simp only [List.map_nil, List.nil_append, spanDigits]; simp only [noDigitHead] at hr; rw [hr]
  | cons d ds ih =>
    have hd' : d < 10 := hd d (by simp)
    simp only [List.map_cons, List.cons_append, spanDigits, dval_dch, Nat.mod_eq_of_lt hd']
    rw [ih (fun x hx => hd x (by simp [hx]))]

theorem takeMinutes_text (mm : Option Nat) (r : Str) (hmm : ∀ m, mm = some m → m < 100)
    (hr : mm = none → ∀ t, r ≠ '.' :: t) : takeMinutes (minutesText mm ++ r) = some (mm, r) := by
  cases mm with
  | some m => simp [minutesText, takeMinutes, takeNum2_d2 m r (hmm m rfl)]
  | none =>
    simp only [minutesText, List.nil_append]
    unfold takeMinutes
    split
    · rename_i t; exact absurd rfl (hr rfl t)
    · rfl

theorem takeMs_text (ms : Option Nat) (r : Str) (hms : ∀ m, ms = some m → m < 1000)
    (hr : ms = none → ∀ t, r ≠ '.' :: t) : takeMs (msText ms ++ r) = some (ms, r) := by
  cases ms with
  | some m => simp [msText, takeMs, takeNum3_d3 m r (hms m rfl)]
  | none =>
    simp only [msText, List.nil_append]
    unfold takeMs
    split
    · rename_i t; exact absurd rfl (hr rfl t)
    · rfl

theorem parseOffBody_render (o : OffText) (hne : o.hdigits ≠ []) (hd : ∀ d ∈ o.hdigits, d < 10)
    (hmm : ∀ m, o.minutes = some m → m < 60) :
    parseOffBody o.sign (o.hdigits.map dch ++ (minutesText o.minutes ++ nameText o.name)) = some o := by
  have hnd : noDigitHead (minutesText o.minutes ++ nameText o.name) := by
    cases o.minutes <;> cases o.name <;> simp [minutesText, nameText, noDigitHead] <;> decide
  unfold parseOffBody
  rw [spanDigits_map o.hdigits _ hd hnd]
  simp only
  rw [takeMinutes_text o.minutes (nameText o.name) (fun m hm => by have := hmm m hm; omega)
    (by intro _ t; cases o.name <;> simp [nameText])]
  simp only
  cases hn : o.name <;> simp [nameText, offName] <;>
    (obtain ⟨a, b, c, d⟩ := o; simp_all)

theorem parseOff_render (o : OffText) (hne : o.hdigits ≠ []) (hd : ∀ d ∈ o.hdigits, d < 10)
    (hmm : ∀ m, o.minutes = some m → m < 60) : parseOff o.render = some o := by
  rw [OffText.render_eq]
  unfold hoursText signText
  have hb := parseOffBody_render o hne hd hmm
  cases hs : o.sign with
  | some b =>
    rw [hs] at hb
    cases b <;> simp only [List.cons_append, List.nil_append, parseOff] <;> exact hb
  | none =>
    rw [hs] at hb
    simp only [List.nil_append]
    cases hh : o.hdigits with
    | nil => exact absurd hh hne
    | cons a r =>
      rw [hh] at hb
      simp only [List.map_cons, List.cons_append] at hb ⊢
      unfold parseOff
      split
      · rename_i t heq
        have : dch a = '-' := (List.cons.inj heq).1
        have h := isAsciiDigit_dch a; rw [this] at h; exact absurd h (by decide)
      · rename_i t heq
        have : dch a = '+' := (List.cons.inj heq).1
        have h := isAsciiDigit_dch a; rw [this] at h; exact absurd h (by decide)
      · exact hb

theorem takeOff_text (off : Option OffText)
    (h : ∀ o, off = some o → o.hdigits ≠ [] ∧ (∀ d ∈ o.hdigits, d < 10) ∧ (∀ m, o.minutes = some m → m < 60)) :
    takeOff (offText off) = some off := by
  cases off with
  | none => rfl
  | some o =>
    obtain ⟨a, b, c⟩ := h o rfl
    simp [offText, takeOff, parseOff_render o a b c]

theorem parseTail_text (ms : Option Nat) (off : Option OffText) (hms : ∀ m, ms = some m → m < 1000)
    (h : ∀ o, off = some o → o.hdigits ≠ [] ∧ (∀ d ∈ o.hdigits, d < 10) ∧ (∀ m, o.minutes = some m → m < 60)) :
    parseTail (msText ms ++ offText off) = some (ms, off) := by
  unfold parseTail
  rw [takeMs_text ms (offText off) hms (by intro _ t; cases off <;> simp [offText])]
  simp [takeOff_text off h]

theorem parseTod_text (h mi s : Nat) (r : Str) (hv : h < 100 ∧ mi < 100 ∧ s < 100) :
    parseTod (todText h mi s ++ r) = some ((h, mi, s), r) := by
  unfold parseTod todText
  simp only [List.append_assoc, takeNum2_d2 h _ hv.1, takeNum2_d2 mi _ hv.2.1, takeNum2_d2 s _ hv.2.2, bind, Option.bind,
    pure]

theorem off_parts_ok {p : Parts} {t : Bool} (hwf : p.wf t = true) :
    ∀ o, p.off = some o → o.hdigits ≠ [] ∧ (∀ d ∈ o.hdigits, d < 10) ∧ (∀ m, o.minutes = some m → m < 60) := by
  intro o ho
  have h1 : o.wf = true := by
    simp only [Parts.wf, Bool.and_eq_true] at hwf
    have := hwf.2; rw [ho] at this; exact this
  obtain ⟨a, b, c, _, _⟩ := wf_parts h1
  exact ⟨a, b, c⟩

/-- the recogniser finds the parts of every text of the notation -/
theorem parse_complete (t : Bool) (p : Parts) (hwf : p.wf t = true) : parse t p.render = some p := by
  have hoff := off_parts_ok hwf
  have hwf0 := hwf
  obtain ⟨date, tod, ms, off⟩ := p
  simp only [Parts.wf, Bool.and_eq_true] at hwf
  obtain ⟨⟨⟨hd, ht⟩, hms⟩, _⟩ := hwf
  have hmsv : ∀ x, ms = some x → x < 1000 := by
    intro x hx; rw [hx] at hms; simpa using hms
  have hshape : parseShape t (Parts.render ⟨date, tod, ms, off⟩) = some ⟨date, tod, ms, off⟩ := by
    cases date with
    | none =>
      simp only at hd
      subst hd
      cases tod with
      | none => simp at ht
      | some hms' =>
        obtain ⟨h, mi, s⟩ := hms'
        simp only [validTod, Bool.and_eq_true, decide_eq_true_eq] at ht
        rw [render_time]
        simp only [parseShape, if_true, bind, Option.bind,
          parseTod_text h mi s _ ⟨by omega, by omega, by omega⟩, parseTail_text ms off hmsv hoff, pure]
    | some ymd =>
      obtain ⟨y, m, d⟩ := ymd
      simp only [Bool.and_eq_true, Bool.not_eq_true'] at hd
      obtain ⟨rfl, hvd⟩ := hd
      obtain ⟨y1, y2, m1, m2, d1, d2'⟩ := validDate_bounds hvd
      cases tod with
      | none =>
        simp only [Bool.not_false, Bool.true_and, Bool.and_eq_true, Option.isNone_iff_eq_none] at ht
        obtain ⟨rfl, rfl⟩ := ht
        have hr : Parts.render ⟨some (y, m, d), none, none, none⟩ = d4 y ++ (d2 m ++ (d2 d ++ [])) := by
          simp [Parts.render]
        rw [hr]
        simp only [parseShape, Bool.false_eq_true, if_false, bind, Option.bind,
          takeNum4_d4 y _ (by omega), takeNum2_d2 m _ (by omega), takeNum2_d2 d _ (by omega), pure]
      | some hms' =>
        obtain ⟨h, mi, s⟩ := hms'
        simp only [validTod, Bool.and_eq_true, decide_eq_true_eq] at ht
        rw [render_full]
        have hr : dateText y m d ++ (todText h mi s ++ (msText ms ++ offText off))
            = d4 y ++ (d2 m ++ (d2 d ++ (todText h mi s ++ (msText ms ++ offText off)))) := by
          simp [dateText]
        rw [hr]
        simp only [parseShape, Bool.false_eq_true, if_false, bind, Option.bind,
          takeNum4_d4 y _ (by omega), takeNum2_d2 m _ (by omega), takeNum2_d2 d _ (by omega)]
        have hne : todText h mi s ++ (msText ms ++ offText off)
            = dch (h / 10) :: (dch h :: (d2 mi ++ d2 s ++ (msText ms ++ offText off))) := by
          simp [todText, d2]
        have hpt := parseTod_text h mi s (msText ms ++ offText off) ⟨by omega, by omega, by omega⟩
        rw [hne] at hpt ⊢
        simp only [hpt, parseTail_text ms off hmsv hoff, pure]
  unfold parse
  rw [hshape]
  simp only [hwf0, if_true]

theorem inNotation_iff (t : Bool) (s : Str) : InNotation t s ↔ inNotationB t s = true := by
  constructor
  · rintro ⟨p, hwf, rfl⟩
    simp [inNotationB, parse_complete t p hwf]
  · exact inNotationB_sound t s

/-! ### the Interactive Brokers form -/

/-- the bracket of the Interactive Brokers form: hours text, `:`, name -/
def ibText (hh n : Str) : Str := '[' :: (hh ++ (':' :: (n ++ [']'])))

theorem hoursScan_ib (hh n : Str) (hne : hh ≠ []) (hall : ∀ c ∈ hh, isHoursChar c = true) (hn : '\n' ∉ n) :
    hoursScan [] (hh ++ (':' :: (n ++ [']']))) = some (hh, none, some n) := by
  apply hoursScan_run hh [] _ _ hne hall
  · intro c r hcr
    have := (List.cons.inj hcr).1
    rw [← this]; decide
  · simp only [List.reverse_nil, List.nil_append, offTail]
    simp [nameTail_some n hn]

theorem afterSeconds_ib (g : Groups) (ms : Option Nat) (hh n : Str)
    (hg : g.ms = none ∧ g.offH = none ∧ g.offM = none ∧ g.name = none)
    (hne : hh ≠ []) (hall : ∀ c ∈ hh, isHoursChar c = true) (hn : '\n' ∉ n) :
    afterSeconds g (msText ms ++ ibText hh n)
      = some { g with ms := ms.map d3, offH := some hh, offM := none, name := some n } := by
  obtain ⟨y, mo, d, h, mi, s, ms', oh, om, nm⟩ := g
  simp only at hg
  obtain ⟨rfl, rfl, rfl, rfl⟩ := hg
  cases ms with
  | some m => simp [msText, ibText, afterSeconds, d3, isAsciiDigit_dch, hoursScan_ib hh n hne hall hn]
  | none => simp [msText, ibText, afterSeconds, hoursScan_ib hh n hne hall hn]

theorem dtRegex_ib (y m d h mi s : Nat) (ms : Option Nat) (hh n : Str)
    (hm : 1 ≤ m ∧ m ≤ 12) (hd : 1 ≤ d ∧ d ≤ 31) (hv : h < 24 ∧ mi < 60 ∧ s < 60)
    (hne : hh ≠ []) (hall : ∀ c ∈ hh, isHoursChar c = true) (hn : '\n' ∉ n) :
    dtRegex (dateText y m d ++ (todText h mi s ++ (msText ms ++ ibText hh n)))
      = some { year := some (d4 y), month := some (d2 m), day := some (d2 d),
               hour := some (d2 h), minute := some (d2 mi), second := some (d2 s),
               ms := ms.map d3, offH := some hh, offM := none, name := some n } := by
  unfold dtRegex
  have ha := afterSeconds_ib
    ({ year := some (d4 y), month := some (d2 m), day := some (d2 d), hour := some (d2 h), minute := some (d2 mi), second := some (d2 s) } : Groups)
    ms hh n ⟨rfl, rfl, rfl, rfl⟩ hne hall hn
  simp only [dateText, todText, d4, d2, List.cons_append, List.nil_append, isAsciiDigit_dch, mdOk,
    monthOk_d2 m (by omega) hm.1, dayOk_d2 d (by omega) hd.1, Bool.and_self, if_true, timePart, hmsOk,
    hourOk_d2 h hv.1, minOk_d2 mi hv.2.1, secOk_d2 s hv.2.2]
  simp only [d4, d2] at ha
  exact ha

theorem parseGmtOffset_ib (tzs : List (Str × Int)) (hh n : Str) (z : Int)
    (hint : pyIntSigned hh = none) (hz : tzs.lookup n = some z) (hr : -12 ≤ z ∧ z ≤ 14) :
    parseGmtOffset tzs (some hh) none (some n) = .ok (60 * z) := by
  have h1 : ¬ (z < -12 ∨ z > 14) := by omega
  simp only [parseGmtOffset, hint, hz, intOfAscii, gmtOffset, h1, if_false, bind, Except.bind, pure, Except.pure]
  congr 1
  by_cases hz0 : z = 0
  · subst hz0; simp
  · have : (z == 0) = false := by simpa using hz0
    simp only [this, Bool.and_false, Bool.false_eq_true, if_false]
    by_cases hneg : z < 0
    · simp only [hneg, if_true]; omega
    · simp only [hneg, if_false]; omega

/-- reading the Interactive Brokers form `YYYYMMDDHHMMSS[.XXX][h:NAME]`: the offset is `TZS[NAME]` hours -/
theorem dtConvertStr_ib (tzs : List (Str × Int)) (y m d h mi s : Nat) (ms : Option Nat) (hh n : Str) (z : Int)
    (hdate : Spec.Instant.validDate y m d = true) (htod : validTod h mi s = true)
    (hms : ∀ x, ms = some x → x < 1000)
    (hne : hh ≠ []) (hall : ∀ c ∈ hh, isHoursChar c = true) (hn : '\n' ∉ n)
    (hint : pyIntSigned hh = none) (hz : tzs.lookup n = some z) (hzr : -12 ≤ z ∧ z ≤ 14)
    (hrange : minInstant ≤ instantOf y m d h mi s (ms.getD 0) (60 * z)
      ∧ instantOf y m d h mi s (ms.getD 0) (60 * z) < endInstant) :
    ∃ f, dtConvertStr tzs (dateText y m d ++ (todText h mi s ++ (msText ms ++ ibText hh n)))
        = .ok (.dt (dtOfFields f (some utcTz)))
      ∧ Cal.validDate f.year f.month f.day = true ∧ validTime f.hour f.minute f.second f.us = true
      ∧ toUs f.year f.month f.day f.hour f.minute f.second f.us
          = 1000 * instantOf y m d h mi s (ms.getD 0) (60 * z) := by
  obtain ⟨y1, y2, m1, m2, d1, d2'⟩ := validDate_bounds hdate
  simp only [validTod, Bool.and_eq_true, decide_eq_true_eq] at htod
  obtain ⟨⟨t1, t2⟩, t3⟩ := htod
  have hmsv : ms.getD 0 < 1000 := by
    cases ms with
    | none => simp
    | some x => simpa using hms x rfl
  obtain ⟨u1, u2⟩ := range_us _ hrange
  rw [← toUs_instant y m d h mi s (ms.getD 0) ⟨m1, m2⟩ (60 * z)] at u1 u2 ⊢
  obtain ⟨f, hf, v1, v2, v3⟩ := fromUs_spec _ u1 u2
  refine ⟨f, ?_, v1, v2, v3⟩
  have hvd : Cal.validDate y m d = true := by rw [← spec_validDate_eq]; exact hdate
  have hvt : validTime h mi s (1000 * ms.getD 0) = true := by
    simp only [validTime, Bool.and_eq_true, decide_eq_true_eq]; omega
  simp only [dtConvertStr, dtRegex_ib y m d h mi s ms hh n ⟨m1, m2⟩ ⟨d1, d2'⟩ ⟨t1, t2, t3⟩ hne hall hn,
    parseGmtOffset_ib tzs hh n z hint hz hzr,
    intOfAscii_d4 y (by omega), intOfAscii_d2 m (by omega), intOfAscii_d2 d (by omega),
    intOfAscii_d2 h (by omega), intOfAscii_d2 mi (by omega), intOfAscii_d2 s (by omega),
    intOfAscii_ms ms hms, bind, Except.bind, pure, Except.pure, hvd, hvt, Bool.and_self, Bool.not_true,
    Bool.false_eq_true, if_false, hf]
end Ofx.DateTime
