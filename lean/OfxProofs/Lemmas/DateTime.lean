/-
Lemmas about the date/time scanners and conversions (C09).
-/
import OfxModel.Ofx.DateTime
import OfxModel.Spec.Instant
import OfxProofs.Lemmas.Cal

namespace Ofx.DateTime
open Ofx Ofx.Cal Ofx.Spec.Instant

/-! ### digits -/

theorem lt10_cases (k : Nat) (h : k < 10) :
    k = 0 ∨ k = 1 ∨ k = 2 ∨ k = 3 ∨ k = 4 ∨ k = 5 ∨ k = 6 ∨ k = 7 ∨ k = 8 ∨ k = 9 := by omega

theorem digitVal_dch (n : Nat) : digitVal (dch n) = some (n % 10) := by
  unfold dch
  have h : n % 10 < 10 := Nat.mod_lt _ (by omega)
  generalize n % 10 = k at *
  rcases lt10_cases k h with h | h | h | h | h | h | h | h | h | h <;> subst h <;> decide

theorem isAsciiDigit_dch (n : Nat) : isAsciiDigit (dch n) = true := by
  unfold dch
  have h : n % 10 < 10 := Nat.mod_lt _ (by omega)
  generalize n % 10 = k at *
  rcases lt10_cases k h with h | h | h | h | h | h | h | h | h | h <;> subst h <;> decide

theorem uDigitVal_dch (n : Nat) : uDigitVal (dch n) = some (n % 10) := by
  unfold dch
  have h : n % 10 < 10 := Nat.mod_lt _ (by omega)
  generalize n % 10 = k at *
  rcases lt10_cases k h with h | h | h | h | h | h | h | h | h | h <;> subst h <;> decide

theorem isUDigit_dch (n : Nat) : isUDigit (dch n) = true := by
  simp [isUDigit, uDigitVal_dch]

theorem isHoursChar_dch (n : Nat) : isHoursChar (dch n) = true := by
  simp [isHoursChar, isAsciiDigit_dch]

theorem dch_ne_newline (n : Nat) : dch n ≠ '\n' := by
  intro h
  have := isAsciiDigit_dch n
  rw [h] at this
  exact absurd this (by decide)

theorem natOfAscii_d2 (n : Nat) (h : n < 100) : natOfAscii (d2 n) = some n := by
  simp only [natOfAscii, d2, digitsVal, digitVal_dch]
  congr 1; omega

theorem natOfAscii_d3 (n : Nat) (h : n < 1000) : natOfAscii (d3 n) = some n := by
  simp only [natOfAscii, d3, digitsVal, digitVal_dch]
  congr 1; omega

theorem natOfAscii_d4 (n : Nat) (h : n < 10000) : natOfAscii (d4 n) = some n := by
  simp only [natOfAscii, d4, digitsVal, digitVal_dch]
  congr 1; omega

theorem uDigits_d2 (n : Nat) (h : n < 100) : digitsVal uDigitVal 0 (d2 n) = some n := by
  simp only [d2, digitsVal, uDigitVal_dch]
  congr 1; omega

/-! ### field patterns -/

theorem hourOk_d2 : ∀ h, h < 24 → hourOk (dch (h / 10)) (dch h) = true := by decide
theorem minOk_d2 : ∀ m, m < 60 → minOk (dch (m / 10)) (dch m) = true := by decide
theorem secOk_d2 : ∀ m, m < 60 → secOk (dch (m / 10)) (dch m) = true := by decide
theorem monthOk_d2 : ∀ m, m < 13 → 1 ≤ m → monthOk (dch (m / 10)) (dch m) = true := by decide
theorem dayOk_d2 : ∀ m, m < 32 → 1 ≤ m → dayOk (dch (m / 10)) (dch m) = true := by decide

/-! ### the offset scanner -/

theorem hoursScan_nonhours (acc t : Str) (ht : ∀ c r, t = c :: r → isHoursChar c = false) :
    hoursScan acc t = none := by
  cases t with
  | nil => rfl
  | cons c r => simp [hoursScan, ht c r rfl]

/-- greedy hours: if the continuation after the whole run succeeds, that is the match -/
theorem hoursScan_run (h : Str) : ∀ (acc t : Str) (x : Str × Option Str × Option Str),
    h ≠ [] → (∀ c ∈ h, isHoursChar c = true) → (∀ c r, t = c :: r → isHoursChar c = false) →
    offTail (acc.reverse ++ h) t = some x → hoursScan acc (h ++ t) = some x := by
  induction h with
  | nil => intro _ _ _ h; exact absurd rfl h
  | cons c h' ih =>
    intro acc t x _ hh ht hx
    have hc : isHoursChar c = true := hh c (by simp)
    simp only [List.cons_append, hoursScan, hc, if_true]
    cases h' with
    | nil =>
      simp only [List.nil_append]
      rw [hoursScan_nonhours (c :: acc) t ht]
      simpa using hx
    | cons c' h'' =>
      have := ih (c :: acc) t x (by simp) (fun d hd => hh d (by simp at hd ⊢; exact Or.inr hd)) ht
        (by simpa using hx)
      rw [this]

theorem splitName_render (n : Str) (hn : '\n' ∉ n) : splitName (n ++ [']']) = some n := by
  simp [splitName, hn]

theorem nameTail_none : nameTail [']'] = some none := by decide

theorem nameTail_some (n : Str) (hn : '\n' ∉ n) : nameTail (':' :: (n ++ [']'])) = some (some n) := by
  simp [nameTail, splitName_render n hn]

def minutesText : Option Nat → Str | some m => '.' :: d2 m | none => []
def nameText : Option Str → Str | some n => ':' :: n | none => []

theorem offTail_render (h : Str) (mm : Option Nat) (name : Option Str)
    (hname : ∀ n, name = some n → '\n' ∉ n)
    (hguard : mm = none → ∀ n, name = some n → nameLooksLikeMinutes n = false) :
    offTail h (minutesText mm ++ (nameText name ++ [']'])) = some (h, mm.map d2, name) := by
  have hnt : nameTail (nameText name ++ [']']) = some name := by
    cases name with
    | none => exact nameTail_none
    | some n => exact nameTail_some n (hname n rfl)
  cases mm with
  | some m =>
    simp only [minutesText, d2, List.cons_append, List.nil_append, offTail, isUDigit_dch, hnt]
    simp [d2]
  | none =>
    simp only [minutesText, List.nil_append, Option.map_none]
    cases name with
    | none => simp [nameText, offTail, nameTail_none]
    | some n =>
      have hg := hguard rfl n rfl
      have hn := hnt
      simp only [nameText, List.cons_append] at hn ⊢
      cases n with
      | nil => simp [offTail]; simpa using hn
      | cons a n' =>
        cases n' with
        | nil =>
          have : isUDigit ']' = false := by decide
          simp [offTail, this]; simpa using hn
        | cons b n'' =>
          simp only [nameLooksLikeMinutes] at hg
          simp only [List.cons_append, offTail]
          have : ((':' != '\n') && isUDigit a && isUDigit b) = false := by
            rw [Bool.and_assoc, hg]; simp
          simp only [this]
          simpa using hn

def signText : Option Bool → Str | some true => ['-'] | some false => ['+'] | none => []
def hoursText (o : OffText) : Str := signText o.sign ++ o.hdigits.map dch
def msText : Option Nat → Str | some ms => '.' :: d3 ms | none => []
def offText : Option OffText → Str | some o => '[' :: (o.render ++ [']']) | none => []

theorem OffText.render_eq (o : OffText) :
    o.render = hoursText o ++ (minutesText o.minutes ++ nameText o.name) := by
  unfold OffText.render hoursText signText minutesText nameText
  cases o.sign with
  | none => cases o.minutes <;> cases o.name <;> simp
  | some b => cases b <;> cases o.minutes <;> cases o.name <;> simp

/-- what the offset guards say, as hypotheses of the scanner lemmas -/
structure OffScanOk (o : OffText) : Prop where
  digits : o.hdigits ≠ []
  name : ∀ n, o.name = some n → '\n' ∉ n
  guard : o.minutes = none → ∀ n, o.name = some n → nameLooksLikeMinutes n = false

theorem hoursScan_render (o : OffText) (ok : OffScanOk o) :
    hoursScan [] (o.render ++ [']']) = some (hoursText o, o.minutes.map d2, o.name) := by
  rw [OffText.render_eq, List.append_assoc, List.append_assoc]
  apply hoursScan_run
  · unfold hoursText
    have := ok.digits
    cases h : o.hdigits with
    | nil => exact absurd h this
    | cons a r => simp
  · intro c hc
    unfold hoursText signText at hc
    rw [List.mem_append] at hc
    rcases hc with hc | hc
    · cases hs : o.sign with
      | none => rw [hs] at hc; simp at hc
      | some b => rw [hs] at hc; cases b <;> simp at hc <;> subst hc <;> decide
    · rw [List.mem_map] at hc
      obtain ⟨d, _, rfl⟩ := hc
      exact isHoursChar_dch d
  · intro c r hcr
    cases hm : o.minutes with
    | some m =>
      rw [hm] at hcr; simp [minutesText] at hcr
      rw [← hcr.1]; decide
    | none =>
      rw [hm] at hcr
      cases hn : o.name with
      | some n => rw [hn] at hcr; simp [minutesText, nameText] at hcr; rw [← hcr.1]; decide
      | none => rw [hn] at hcr; simp [minutesText, nameText] at hcr; rw [← hcr.1]; decide
  · simpa using offTail_render (hoursText o) o.minutes o.name ok.name ok.guard

/-- the groups the patterns capture for the tail `(.XXX)?([offset])?` -/
def withTail (g : Groups) (ms : Option Nat) (off : Option OffText) : Groups :=
  { g with ms := ms.map d3, offH := off.map hoursText, offM := off.bind (fun o => o.minutes.map d2),
           name := off.bind (fun o => o.name) }

theorem afterSeconds_render (g : Groups) (ms : Option Nat) (off : Option OffText)
    (hg : g.ms = none ∧ g.offH = none ∧ g.offM = none ∧ g.name = none)
    (hoff : ∀ o, off = some o → OffScanOk o) :
    afterSeconds g (msText ms ++ offText off) = some (withTail g ms off) := by
  obtain ⟨y, mo, d, h, mi, s, ms', oh, om, nm⟩ := g
  simp only at hg
  obtain ⟨rfl, rfl, rfl, rfl⟩ := hg
  cases ms with
  | some m =>
    cases off with
    | none => simp [msText, offText, afterSeconds, withTail, d3, isAsciiDigit_dch]
    | some o =>
      simp [msText, offText, afterSeconds, withTail, d3, isAsciiDigit_dch, hoursScan_render o (hoff o rfl)]
  | none =>
    cases off with
    | none => simp [msText, offText, afterSeconds, withTail]
    | some o =>
      simp [msText, offText, afterSeconds, withTail, hoursScan_render o (hoff o rfl)]

def todText (h mi s : Nat) : Str := d2 h ++ d2 mi ++ d2 s

theorem timePart_render (g : Groups) (h mi s : Nat) (ms : Option Nat) (off : Option OffText)
    (hv : h < 24 ∧ mi < 60 ∧ s < 60)
    (hg : g.ms = none ∧ g.offH = none ∧ g.offM = none ∧ g.name = none)
    (hoff : ∀ o, off = some o → OffScanOk o) :
    timePart g (todText h mi s ++ (msText ms ++ offText off))
      = some (withTail { g with hour := some (d2 h), minute := some (d2 mi), second := some (d2 s) } ms off) := by
  simp only [todText, d2, List.cons_append, List.nil_append, timePart, hmsOk,
    hourOk_d2 h hv.1, minOk_d2 mi hv.2.1, secOk_d2 s hv.2.2, Bool.and_self, if_true]
  exact afterSeconds_render _ ms off hg hoff

theorem stripFinalNewline_snoc (pre : Str) (c : Char) (hc : c ≠ '\n') :
    stripFinalNewline (pre ++ [c]) = pre ++ [c] := by
  unfold stripFinalNewline
  split
  · rename_i r heq
    simp at heq
    exact absurd heq.1 hc
  · rfl

/-- a rendered text never ends in a line feed -/
theorem snoc_of_tail (ms : Option Nat) (off : Option OffText) (pre : Str) (c : Char) (hc : c ≠ '\n') :
    ∃ pre' c', c' ≠ '\n' ∧ pre ++ [c] ++ (msText ms ++ offText off) = pre' ++ [c'] := by
  cases off with
  | some o => exact ⟨pre ++ [c] ++ (msText ms ++ '[' :: o.render), ']', by decide, by simp [offText]⟩
  | none =>
    cases ms with
    | some m =>
      exact ⟨pre ++ [c] ++ ['.', dch (m / 100), dch (m / 10)], dch m, dch_ne_newline m, by simp [msText, offText, d3]⟩
    | none => exact ⟨pre, c, hc, by simp [msText, offText]⟩

theorem tmRegex_render (h mi s : Nat) (ms : Option Nat) (off : Option OffText)
    (hv : h < 24 ∧ mi < 60 ∧ s < 60) (hoff : ∀ o, off = some o → OffScanOk o) :
    tmRegex (todText h mi s ++ (msText ms ++ offText off))
      = some (withTail { hour := some (d2 h), minute := some (d2 mi), second := some (d2 s) } ms off) := by
  unfold tmRegex
  obtain ⟨pre', c', hc', he⟩ := snoc_of_tail ms off (d2 h ++ d2 mi ++ [dch (s / 10)]) (dch s) (dch_ne_newline s)
  have he' : todText h mi s ++ (msText ms ++ offText off) = pre' ++ [c'] := by
    rw [← he]; simp [todText, d2]
  rw [he', stripFinalNewline_snoc pre' c' hc', ← he']
  exact timePart_render {} h mi s ms off hv ⟨rfl, rfl, rfl, rfl⟩ hoff

def dateText (y m d : Nat) : Str := d4 y ++ d2 m ++ d2 d

theorem dtRegex_render_date (y m d : Nat) (hm : 1 ≤ m ∧ m ≤ 12) (hd : 1 ≤ d ∧ d ≤ 31) :
    dtRegex (dateText y m d) = some { year := some (d4 y), month := some (d2 m), day := some (d2 d) } := by
  unfold dtRegex
  have he : dateText y m d = (d4 y ++ d2 m ++ [dch (d / 10)]) ++ [dch d] := by simp [dateText, d2]
  rw [he, stripFinalNewline_snoc _ _ (dch_ne_newline d)]
  simp [d4, d2, isAsciiDigit_dch, mdOk, monthOk_d2 m (by omega) hm.1, dayOk_d2 d (by omega) hd.1]

theorem dtRegex_render_full (y m d h mi s : Nat) (ms : Option Nat) (off : Option OffText)
    (hm : 1 ≤ m ∧ m ≤ 12) (hd : 1 ≤ d ∧ d ≤ 31)
    (hv : h < 24 ∧ mi < 60 ∧ s < 60) (hoff : ∀ o, off = some o → OffScanOk o) :
    dtRegex (dateText y m d ++ (todText h mi s ++ (msText ms ++ offText off)))
      = some (withTail { year := some (d4 y), month := some (d2 m), day := some (d2 d),
                         hour := some (d2 h), minute := some (d2 mi), second := some (d2 s) } ms off) := by
  unfold dtRegex
  obtain ⟨pre', c', hc', he⟩ := snoc_of_tail ms off (dateText y m d ++ d2 h ++ d2 mi ++ [dch (s / 10)]) (dch s) (dch_ne_newline s)
  have he' : dateText y m d ++ (todText h mi s ++ (msText ms ++ offText off)) = pre' ++ [c'] := by
    rw [← he]; simp [todText, d2]
  rw [he', stripFinalNewline_snoc pre' c' hc', ← he']
  have ht := timePart_render { year := some (d4 y), month := some (d2 m), day := some (d2 d) } h mi s ms off hv
    ⟨rfl, rfl, rfl, rfl⟩ hoff
  simp only [dateText, d4, d2, List.cons_append, List.nil_append, isAsciiDigit_dch, mdOk,
    monthOk_d2 m (by omega) hm.1, dayOk_d2 d (by omega) hd.1, Bool.and_self, if_true]
  simp only [d4, d2] at ht
  simp only [todText, d2, List.cons_append, List.nil_append] at ht ⊢
  exact ht

/-! ### `int()` of the offset texts, `gmt_offset` -/

theorem digitsVal_map_dch (ds : List Nat) (hd : ∀ d ∈ ds, d < 10) (acc : Nat) :
    digitsVal digitVal acc (ds.map dch) = some (ds.foldl (fun a d => 10 * a + d) acc) := by
  induction ds generalizing acc with
  | nil => rfl
  | cons d r ih =>
    have hd' : d < 10 := hd d (by simp)
    simp only [List.map_cons, digitsVal, digitVal_dch, List.foldl_cons, Nat.mod_eq_of_lt hd']
    exact ih (fun x hx => hd x (by simp [hx])) _

theorem pyIntSigned_hoursText (o : OffText) (hne : o.hdigits ≠ []) (hd : ∀ d ∈ o.hdigits, d < 10)
    (hlen : o.hdigits.length ≤ intMaxStrDigits) :
    pyIntSigned (hoursText o)
      = some (if o.sign = some true then -((hoursVal o.hdigits : Nat) : Int) else ((hoursVal o.hdigits : Nat) : Int)) := by
  have hbody : ∀ neg : Bool,
      (if (o.hdigits.map dch).isEmpty || (o.hdigits.map dch).length > intMaxStrDigits then none
        else (natOfAscii (o.hdigits.map dch)).map (fun n => if neg then -(n : Int) else (n : Int)))
      = some (if neg then -((hoursVal o.hdigits : Nat) : Int) else ((hoursVal o.hdigits : Nat) : Int)) := by
    intro neg
    have h1 : (o.hdigits.map dch).isEmpty = false := by
      cases h : o.hdigits with
      | nil => exact absurd h hne
      | cons a r => rfl
    have h2 : ¬ (o.hdigits.map dch).length > intMaxStrDigits := by simp; exact hlen
    simp [h1, natOfAscii, digitsVal_map_dch o.hdigits hd 0, hoursVal, hlen]
  unfold hoursText signText
  cases hs : o.sign with
  | some b =>
    cases b with
    | true => simp only [List.cons_append, List.nil_append, pyIntSigned]; simpa using hbody true
    | false => simp only [List.cons_append, List.nil_append, pyIntSigned]; simpa using hbody false
  | none =>
    simp only [List.nil_append]
    cases hh : o.hdigits with
    | nil => exact absurd hh hne
    | cons a r =>
      have hb := hbody false
      rw [hh] at hb
      simp only [List.map_cons] at hb ⊢
      unfold pyIntSigned
      split
      · rename_i ds heq
        have : dch a = '-' := by simpa using (List.cons.inj heq).1
        have h := isAsciiDigit_dch a; rw [this] at h; exact absurd h (by decide)
      · rename_i ds heq
        have : dch a = '+' := by simpa using (List.cons.inj heq).1
        have h := isAsciiDigit_dch a; rw [this] at h; exact absurd h (by decide)
      · simpa using hb

theorem gmtOffset_of_wf (o : OffText) (hmm : ∀ m, o.minutes = some m → m < 60)
    (hr : -720 ≤ o.minutesEast ∧ o.minutesEast ≤ 840) (hg : o.negZeroHour = false) :
    gmtOffset (if o.sign = some true then -((hoursVal o.hdigits : Nat) : Int) else ((hoursVal o.hdigits : Nat) : Int))
      (o.minutes.getD 0) = .ok o.minutesEast := by
  have hm60 : o.minutes.getD 0 < 60 := by
    cases h : o.minutes with
    | none => simp
    | some m => simpa using hmm m h
  unfold OffText.minutesEast at hr ⊢
  unfold OffText.negZeroHour at hg
  generalize hoursVal o.hdigits = hv at *
  generalize o.minutes.getD 0 = mm at *
  unfold gmtOffset
  by_cases hs : o.sign = some true
  · simp only [hs, if_true] at hr hg ⊢
    simp at hg
    have h1 : ¬ (-(hv : Int) < -12 ∨ -(hv : Int) > 14) := by omega
    simp only [h1, if_false]
    by_cases h0 : hv = 0
    · have := hg h0; subst h0; subst this; simp
    · have hneg : -(hv : Int) < 0 := by omega
      simp only [hneg, if_true]
      congr 1
      have : ((-(hv : Int)).natAbs : Int) = hv := by omega
      push_cast; omega
  · simp only [hs, if_false] at hr ⊢
    have h1 : ¬ ((hv : Int) < -12 ∨ (hv : Int) > 14) := by omega
    have hneg : ¬ (hv : Int) < 0 := by omega
    simp only [h1, if_false, hneg]
    simp

/-- offset of an optional `[…]` part, minutes east (absent = GMT) -/
def offMinutes : Option OffText → Int | some o => o.minutesEast | none => 0

/-- everything the read theorems assume about an offset text -/
structure OffReadOk (o : OffText) : Prop where
  wf : o.wf = true
  len : o.hdigits.length ≤ intMaxStrDigits
  notNegZero : o.negZeroHour = false
  nameGuard : o.minutes = none → ∀ n, o.name = some n → nameLooksLikeMinutes n = false

theorem OffReadOk.scan {o : OffText} (h : OffReadOk o) : OffScanOk o := by
  have hwf := h.wf
  simp only [OffText.wf, Bool.and_eq_true] at hwf
  obtain ⟨⟨⟨⟨h1, h2⟩, h3⟩, h4⟩, h5⟩ := hwf
  refine ⟨?_, ?_, h.nameGuard⟩
  · intro he; rw [he] at h1; simp at h1
  · intro n hn; rw [hn] at h4; simpa using h4

theorem parseGmtOffset_render (tzs : List (Str × Int)) (off : Option OffText)
    (hoff : ∀ o, off = some o → OffReadOk o) :
    parseGmtOffset tzs (off.map hoursText) (off.bind (fun o => o.minutes.map d2)) (off.bind (fun o => o.name))
      = .ok (offMinutes off) := by
  cases off with
  | none => simp [parseGmtOffset, intOfUDigits, gmtOffset, offMinutes, bind, Except.bind, pure, Except.pure]
  | some o =>
    have ok := hoff o rfl
    have hwf := ok.wf
    simp only [OffText.wf, Bool.and_eq_true] at hwf
    obtain ⟨⟨⟨⟨h1, h2⟩, h3⟩, h4⟩, h5⟩ := hwf
    have hne : o.hdigits ≠ [] := ok.scan.digits
    have hd : ∀ d ∈ o.hdigits, d < 10 := by
      intro d hdm; rw [List.all_eq_true] at h2; simpa using h2 d hdm
    have hmm : ∀ m, o.minutes = some m → m < 60 := by
      intro m hm; rw [hm] at h3; simpa using h3
    have hr : -720 ≤ o.minutesEast ∧ o.minutesEast ≤ 840 := by simpa using h5
    have hint := pyIntSigned_hoursText o hne hd ok.len
    have hmin : intOfUDigits (o.minutes.map d2) = .ok (o.minutes.getD 0) := by
      cases hm : o.minutes with
      | none => rfl
      | some m => simp [intOfUDigits, uDigits_d2 m (by have := hmm m hm; omega)]
    simp only [Option.map_some, Option.bind_some, parseGmtOffset, hint, hmin, bind, Except.bind, pure, Except.pure,
      offMinutes]
    exact gmtOffset_of_wf o hmm hr ok.notNegZero

/-! ### microsecond arithmetic -/

theorem fromUs_spec (t : Int) (h1 : usPerDay ≤ t) (h2 : t < ((maxOrdinal : Nat) + 1 : Int) * usPerDay) :
    ∃ f, fromUs t = .ok f ∧ Cal.validDate f.year f.month f.day = true
      ∧ validTime f.hour f.minute f.second f.us = true
      ∧ toUs f.year f.month f.day f.hour f.minute f.second f.us = t := by
  unfold usPerDay maxOrdinal at *
  have hd1 : 1 ≤ t / 86400000000 := by omega
  have hd2 : t / 86400000000 ≤ 3652059 := by omega
  obtain ⟨n, hn⟩ : ∃ n : Nat, t / 86400000000 = n := ⟨(t / 86400000000).toNat, by omega⟩
  obtain ⟨r, hr⟩ : ∃ r : Nat, t % 86400000000 = r := ⟨(t % 86400000000).toNat, by omega⟩
  have hn1 : 1 ≤ n := by omega
  have hn2 : n ≤ maxOrdinal := by unfold maxOrdinal; omega
  obtain ⟨c1, c2, c3, c4, c5, c6⟩ := ymd2ord_ord2ymd n hn1
  have c7 := ord2ymd_year_le n hn2
  have hrr : r < 86400000000 := by omega
  refine ⟨⟨(ord2ymd n).1, (ord2ymd n).2.1, (ord2ymd n).2.2, r / 1000000 / 3600, r / 1000000 / 60 % 60,
    r / 1000000 % 60, r % 1000000⟩, ?_, ?_, ?_, ?_⟩
  · unfold fromUs usPerDay maxOrdinal
    simp only [hn, hr, Int.toNat_natCast]
    have : ¬ ((n : Int) < 1 ∨ (n : Int) > ((3652059 : Nat) : Int)) := by omega
    simp only [this, if_false]
  · simp only [Cal.validDate, Bool.and_eq_true, decide_eq_true_eq]
    exact ⟨⟨⟨⟨⟨c1, c7⟩, c2⟩, c3⟩, c4⟩, c5⟩
  · simp only [validTime, Bool.and_eq_true, decide_eq_true_eq]
    omega
  · unfold toUs
    simp only [c6]
    omega

theorem toUs_instant (y m d h mi s ms : Nat) (hm : 1 ≤ m ∧ m ≤ 12) (off : Int) :
    toUs y m d h mi s (1000 * ms) - off * 60000000 = 1000 * instantOf y m d h mi s ms off := by
  unfold toUs instantOf
  rw [spec_ordinal_eq y m d hm]
  omega

theorem intOfAscii_d2 (n : Nat) (h : n < 100) : intOfAscii (some (d2 n)) = .ok n := by
  simp [intOfAscii, natOfAscii_d2 n h]
theorem intOfAscii_d4 (n : Nat) (h : n < 10000) : intOfAscii (some (d4 n)) = .ok n := by
  simp [intOfAscii, natOfAscii_d4 n h]
theorem intOfAscii_ms (ms : Option Nat) (h : ∀ x, ms = some x → x < 1000) :
    intOfAscii (ms.map d3) = .ok (ms.getD 0) := by
  cases ms with
  | none => rfl
  | some x => simp [intOfAscii, natOfAscii_d3 x (h x rfl)]

theorem validDate_bounds {y m d : Nat} (h : Spec.Instant.validDate y m d = true) :
    1 ≤ y ∧ y ≤ 9999 ∧ 1 ≤ m ∧ m ≤ 12 ∧ 1 ≤ d ∧ d ≤ 31 := by
  have h' := h
  rw [spec_validDate_eq] at h'
  simp only [Cal.validDate, Bool.and_eq_true, decide_eq_true_eq] at h'
  obtain ⟨⟨⟨⟨⟨a, b⟩, c⟩, e⟩, f⟩, g⟩ := h'
  have := dimL_le (isLeap y) m ⟨c, e⟩
  rw [daysInMonth_eq] at g
  exact ⟨a, b, c, e, f, by omega⟩

theorem intOfAscii_none : intOfAscii none = .ok 0 := rfl

theorem dby_succ (y : Nat) (hy : 1 ≤ y) :
    daysBeforeYear (y + 1) = daysBeforeYear y + (if isLeap y then 366 else 365) := by
  unfold daysBeforeYear isLeap
  simp only [Nat.add_sub_cancel]
  obtain ⟨Y, rfl⟩ : ∃ Y, y = Y + 1 := ⟨y - 1, by omega⟩
  simp only [Nat.add_sub_cancel]
  by_cases h4 : (Y + 1) % 4 = 0 <;> by_cases h100 : (Y + 1) % 100 = 0 <;> by_cases h400 : (Y + 1) % 400 = 0 <;>
    simp [h4, h100, h400] <;> omega

theorem dby_le (y : Nat) (hy : y ≤ 10000) : daysBeforeYear y ≤ 3652059 := by
  unfold daysBeforeYear
  simp only []
  omega

theorem ymd2ord_le_max (y m d : Nat) (y1 : 1 ≤ y) (y2 : y ≤ 9999) (hm : 1 ≤ m ∧ m ≤ 12)
    (hd : d ≤ daysInMonth y m) : ymd2ord y m d ≤ maxOrdinal := by
  have h1 := dby_succ y y1
  have h2 := dby_le (y + 1) (by omega)
  have h3 := (dbm_dim_le (isLeap y) m hm).1
  rw [daysInMonth_eq] at hd
  unfold ymd2ord maxOrdinal
  rw [daysBeforeMonth_eq]
  cases hl : isLeap y <;> rw [hl] at h1 h3 hd <;> simp at h1 h3 <;> omega

theorem range_us (I : Int) (h : minInstant ≤ I ∧ I < endInstant) :
    usPerDay ≤ 1000 * I ∧ 1000 * I < ((maxOrdinal : Nat) + 1 : Int) * usPerDay := by
  unfold minInstant endInstant at h
  unfold usPerDay maxOrdinal
  omega

/-- reading a full date-time text (`YYYYMMDDHHMMSS[.XXX][[offset]]`) -/
theorem dtConvertStr_full (tzs : List (Str × Int)) (y m d h mi s : Nat) (ms : Option Nat) (off : Option OffText)
    (hdate : Spec.Instant.validDate y m d = true) (htod : validTod h mi s = true)
    (hms : ∀ x, ms = some x → x < 1000) (hoff : ∀ o, off = some o → OffReadOk o)
    (hrange : minInstant ≤ instantOf y m d h mi s (ms.getD 0) (offMinutes off)
      ∧ instantOf y m d h mi s (ms.getD 0) (offMinutes off) < endInstant) :
    ∃ f, dtConvertStr tzs (dateText y m d ++ (todText h mi s ++ (msText ms ++ offText off)))
        = .ok (.dt (dtOfFields f (some utcTz)))
      ∧ Cal.validDate f.year f.month f.day = true ∧ validTime f.hour f.minute f.second f.us = true
      ∧ toUs f.year f.month f.day f.hour f.minute f.second f.us
          = 1000 * instantOf y m d h mi s (ms.getD 0) (offMinutes off) := by
  obtain ⟨y1, y2, m1, m2, d1, d2'⟩ := validDate_bounds hdate
  simp only [validTod, Bool.and_eq_true, decide_eq_true_eq] at htod
  obtain ⟨⟨t1, t2⟩, t3⟩ := htod
  have hmsv : ms.getD 0 < 1000 := by
    cases ms with
    | none => simp
    | some x => simpa using hms x rfl
  obtain ⟨u1, u2⟩ := range_us _ hrange
  rw [← toUs_instant y m d h mi s (ms.getD 0) ⟨m1, m2⟩ (offMinutes off)] at u1 u2 ⊢
  obtain ⟨f, hf, v1, v2, v3⟩ := fromUs_spec _ u1 u2
  refine ⟨f, ?_, v1, v2, v3⟩
  have hvd : Cal.validDate y m d = true := by rw [← spec_validDate_eq]; exact hdate
  have hvt : validTime h mi s (1000 * ms.getD 0) = true := by
    simp only [validTime, Bool.and_eq_true, decide_eq_true_eq]; omega
  simp only [dtConvertStr, dtRegex_render_full y m d h mi s ms off ⟨m1, m2⟩ ⟨d1, d2'⟩ ⟨t1, t2, t3⟩
      (fun o ho => (hoff o ho).scan), withTail, parseGmtOffset_render tzs off hoff,
    intOfAscii_d4 y (by omega), intOfAscii_d2 m (by omega), intOfAscii_d2 d (by omega),
    intOfAscii_d2 h (by omega), intOfAscii_d2 mi (by omega), intOfAscii_d2 s (by omega),
    intOfAscii_ms ms hms, bind, Except.bind, pure, Except.pure, hvd, hvt, Bool.and_self, Bool.not_true,
    Bool.false_eq_true, if_false, hf]

/-- reading a date-only text (`YYYYMMDD`): midnight GMT -/
theorem dtConvertStr_date (tzs : List (Str × Int)) (y m d : Nat)
    (hdate : Spec.Instant.validDate y m d = true) :
    ∃ f, dtConvertStr tzs (dateText y m d) = .ok (.dt (dtOfFields f (some utcTz)))
      ∧ Cal.validDate f.year f.month f.day = true ∧ validTime f.hour f.minute f.second f.us = true
      ∧ toUs f.year f.month f.day f.hour f.minute f.second f.us = 1000 * instantOf y m d 0 0 0 0 0 := by
  obtain ⟨y1, y2, m1, m2, d1, d2'⟩ := validDate_bounds hdate
  have hvd : Cal.validDate y m d = true := by rw [← spec_validDate_eq]; exact hdate
  have hr : minInstant ≤ instantOf y m d 0 0 0 0 0 ∧ instantOf y m d 0 0 0 0 0 < endInstant := by
    unfold minInstant endInstant instantOf
    rw [spec_ordinal_eq y m d ⟨m1, m2⟩]
    have hlo : 1 ≤ ymd2ord y m d := by unfold ymd2ord; omega
    have hhi : ymd2ord y m d ≤ maxOrdinal :=
      ymd2ord_le_max y m d y1 y2 ⟨m1, m2⟩ (by
        simp only [Cal.validDate, Bool.and_eq_true, decide_eq_true_eq] at hvd; exact hvd.2)
    unfold maxOrdinal at hhi
    omega
  obtain ⟨u1, u2⟩ := range_us _ hr
  rw [← toUs_instant y m d 0 0 0 0 ⟨m1, m2⟩ 0] at u1 u2 ⊢
  obtain ⟨f, hf, v1, v2, v3⟩ := fromUs_spec _ u1 u2
  refine ⟨f, ?_, v1, v2, v3⟩
  simp only [dtConvertStr, dtRegex_render_date y m d ⟨m1, m2⟩ ⟨d1, d2'⟩, parseGmtOffset, intOfUDigits, gmtOffset,
    intOfAscii_d4 y (by omega), intOfAscii_d2 m (by omega), intOfAscii_d2 d (by omega), intOfAscii_none,
    bind, Except.bind, pure, Except.pure, hvd]
  simp only [Nat.mul_zero, Int.mul_zero, Int.sub_zero, Int.zero_mul] at hf ⊢
  simp [validTime, hf]

/-- reading a time text (`HHMMSS[.XXX][[offset]]`) -/
theorem tmConvertStr_render (tzs : List (Str × Int)) (h mi s : Nat) (ms : Option Nat) (off : Option OffText)
    (htod : validTod h mi s = true) (hms : ∀ x, ms = some x → x < 1000)
    (hoff : ∀ o, off = some o → OffReadOk o) :
    ∃ t : TM, tmConvertStr tzs (todText h mi s ++ (msText ms ++ offText off)) = .ok (.tm t)
      ∧ tmValid t = true ∧ t.tz = some utcTz
      ∧ tmInstantUs t = some (1000 * todInstantOf h mi s (ms.getD 0) (offMinutes off)) := by
  simp only [validTod, Bool.and_eq_true, decide_eq_true_eq] at htod
  obtain ⟨⟨t1, t2⟩, t3⟩ := htod
  have hmsv : ms.getD 0 < 1000 := by
    cases ms with
    | none => simp
    | some x => simpa using hms x rfl
  have hvt : validTime h mi s (1000 * ms.getD 0) = true := by
    simp only [validTime, Bool.and_eq_true, decide_eq_true_eq]; omega
  generalize hT : toUs 1999 6 8 h mi s (1000 * ms.getD 0) - offMinutes off * 60000000 = T
  refine ⟨⟨(todOfUs T).1, (todOfUs T).2.1, (todOfUs T).2.2.1, (todOfUs T).2.2.2, some utcTz⟩, ?_, ?_, rfl, ?_⟩
  · simp only [tmConvertStr, tmRegex_render h mi s ms off ⟨t1, t2, t3⟩ (fun o ho => (hoff o ho).scan), withTail,
      parseGmtOffset_render tzs off hoff, intOfAscii_d2 h (by omega), intOfAscii_d2 mi (by omega),
      intOfAscii_d2 s (by omega), intOfAscii_ms ms hms, bind, Except.bind, pure, Except.pure, hvt,
      Bool.not_true, Bool.false_eq_true, if_false, hT]
  · unfold todOfUs usPerDay
    simp only [tmValid, validTod, Bool.and_eq_true, decide_eq_true_eq]
    have : ((T % 86400000000).toNat : Int) = T % 86400000000 := by omega
    omega
  · unfold toUs at hT
    generalize ymd2ord 1999 6 8 = N at hT
    unfold tmInstantUs todOfUs todInstantOf utcTz usPerDay
    simp only [Option.map_some, Option.some.injEq]
    have : ((T % 86400000000).toNat : Int) = T % 86400000000 := by omega
    omega

end Ofx.DateTime
