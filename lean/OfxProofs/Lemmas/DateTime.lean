/-
Lemmas about the date/time scanners and conversions (C09).
-/
import OfxModel.Ofx.DateTime
import OfxModel.Spec.Instant
import OfxProofs.Lemmas.Cal

namespace Ofx.DateTime
open Ofx Ofx.Cal Ofx.Spec.Instant

/-! ### digits -/

theorem lt10_cases (k : Nat) (h : k < 10) :
    k = 0 ∨ k = 1 ∨ k = 2 ∨ k = 3 ∨ k = 4 ∨ k = 5 ∨ k = 6 ∨ k = 7 ∨ k = 8 ∨ k = 9 := by omega

theorem digitVal_dch (n : Nat) : digitVal (dch n) = some (n % 10) := by
  unfold dch
  have h : n % 10 < 10 := Nat.mod_lt _ (by omega)
  generalize n % 10 = k at *
  rcases lt10_cases k h with h | h | h | h | h | h | h | h | h | h <;> subst h <;> decide

theorem isAsciiDigit_dch (n : Nat) : isAsciiDigit (dch n) = true := by
  unfold dch
  have h : n % 10 < 10 := Nat.mod_lt _ (by omega)
  generalize n % 10 = k at *
  rcases lt10_cases k h with h | h | h | h | h | h | h | h | h | h <;> subst h <;> decide

theorem uDigitVal_dch (n : Nat) : uDigitVal (dch n) = some (n % 10) := by
  unfold dch
  have h : n % 10 < 10 := Nat.mod_lt _ (by omega)
  generalize n % 10 = k at *
  rcases lt10_cases k h with h | h | h | h | h | h | h | h | h | h <;> subst h <;> decide

theorem isUDigit_dch (n : Nat) : isUDigit (dch n) = true := by
  simp [isUDigit, uDigitVal_dch]

theorem isHoursChar_dch (n : Nat) : isHoursChar (dch n) = true := by
  simp [isHoursChar, isAsciiDigit_dch]

theorem dch_ne_newline (n : Nat) : dch n ≠ '\n' := by
  intro h
  have := isAsciiDigit_dch n
  rw [h] at this
  exact absurd this (by decide)

theorem natOfAscii_d2 (n : Nat) (h : n < 100) : natOfAscii (d2 n) = some n := by
  simp only [natOfAscii, d2, digitsVal, digitVal_dch]
  congr 1; omega

theorem natOfAscii_d3 (n : Nat) (h : n < 1000) : natOfAscii (d3 n) = some n := by
  simp only [natOfAscii, d3, digitsVal, digitVal_dch]
  congr 1; omega

theorem natOfAscii_d4 (n : Nat) (h : n < 10000) : natOfAscii (d4 n) = some n := by
  simp only [natOfAscii, d4, digitsVal, digitVal_dch]
  congr 1; omega

theorem uDigits_d2 (n : Nat) (h : n < 100) : digitsVal uDigitVal 0 (d2 n) = some n := by
  simp only [d2, digitsVal, uDigitVal_dch]
  congr 1; omega

/-! ### field patterns -/

theorem hourOk_d2 : ∀ h, h < 24 → hourOk (dch (h / 10)) (dch h) = true := by decide
theorem minOk_d2 : ∀ m, m < 60 → minOk (dch (m / 10)) (dch m) = true := by decide
theorem secOk_d2 : ∀ m, m < 60 → secOk (dch (m / 10)) (dch m) = true := by decide
theorem monthOk_d2 : ∀ m, m < 13 → 1 ≤ m → monthOk (dch (m / 10)) (dch m) = true := by decide
theorem dayOk_d2 : ∀ m, m < 32 → 1 ≤ m → dayOk (dch (m / 10)) (dch m) = true := by decide

/-! ### the offset scanner -/

theorem hoursScan_nonhours (acc t : Str) (ht : ∀ c r, t = c :: r → isHoursChar c = false) :
    hoursScan acc t = none := by
  cases t with
  | nil => rfl
  | cons c r => simp [hoursScan, ht c r rfl]

/-- greedy hours: if the continuation after the whole run succeeds, that is the match -/
theorem hoursScan_run (h : Str) : ∀ (acc t : Str) (x : Str × Option Str × Option Str),
    h ≠ [] → (∀ c ∈ h, isHoursChar c = true) → (∀ c r, t = c :: r → isHoursChar c = false) →
    offTail (acc.reverse ++ h) t = some x → hoursScan acc (h ++ t) = some x := by
  induction h with
  | nil => intro _ _ _ h; exact absurd rfl h
  | cons c h' ih =>
    intro acc t x _ hh ht hx
    have hc : isHoursChar c = true := hh c (by simp)
    simp only [List.cons_append, hoursScan, hc, if_true]
    cases h' with
    | nil =>
      simp only [List.nil_append]
      rw [hoursScan_nonhours (c :: acc) t ht]
      simpa using hx
    | cons c' h'' =>
      have := ih (c :: acc) t x (by simp) (fun d hd => hh d (by simp at hd ⊢; exact Or.inr hd)) ht
        (by simpa using hx)
      rw [this]

theorem splitName_render (n : Str) (hn : '\n' ∉ n) : splitName (n ++ [']']) = some n := by
  simp [splitName, hn]

theorem nameTail_none : nameTail [']'] = some none := by decide

theorem nameTail_some (n : Str) (hn : '\n' ∉ n) : nameTail (':' :: (n ++ [']'])) = some (some n) := by
  simp [nameTail, splitName_render n hn]

def minutesText : Option Nat → Str | some m => '.' :: d2 m | none => []
def nameText : Option Str → Str | some n => ':' :: n | none => []

theorem offTail_render (h : Str) (mm : Option Nat) (name : Option Str)
    (hname : ∀ n, name = some n → '\n' ∉ n)
    (hguard : mm = none → ∀ n, name = some n → nameLooksLikeMinutes n = false) :
    offTail h (minutesText mm ++ (nameText name ++ [']'])) = some (h, mm.map d2, name) := by
  have hnt : nameTail (nameText name ++ [']']) = some name := by
    cases name with
    | none => exact nameTail_none
    | some n => exact nameTail_some n (hname n rfl)
  cases mm with
  | some m =>
    simp only [minutesText, d2, List.cons_append, List.nil_append, offTail, isUDigit_dch, hnt]
    simp [d2]
  | none =>
    simp only [minutesText, List.nil_append, Option.map_none]
    cases name with
    | none => simp [nameText, offTail, nameTail_none]
    | some n =>
      have hg := hguard rfl n rfl
      have hn := hnt
      simp only [nameText, List.cons_append] at hn ⊢
      cases n with
      | nil => simp [offTail]; simpa using hn
      | cons a n' =>
        cases n' with
        | nil =>
          have : isUDigit ']' = false := by decide
          simp [offTail, this]; simpa using hn
        | cons b n'' =>
          simp only [nameLooksLikeMinutes] at hg
          simp only [List.cons_append, offTail]
          have : ((':' != '\n') && isUDigit a && isUDigit b) = false := by
            rw [Bool.and_assoc, hg]; simp
          simp only [this]
          simpa using hn

def signText : Option Bool → Str | some true => ['-'] | some false => ['+'] | none => []
def hoursText (o : OffText) : Str := signText o.sign ++ o.hdigits.map dch
def msText : Option Nat → Str | some ms => '.' :: d3 ms | none => []
def offText : Option OffText → Str | some o => '[' :: (o.render ++ [']']) | none => []

theorem OffText.render_eq (o : OffText) :
    o.render = hoursText o ++ (minutesText o.minutes ++ nameText o.name) := by
  unfold OffText.render hoursText signText minutesText nameText
  cases o.sign with
  | none => cases o.minutes <;> cases o.name <;> simp
  | some b => cases b <;> cases o.minutes <;> cases o.name <;> simp

/-- what the offset guards say, as hypotheses of the scanner lemmas -/
structure OffScanOk (o : OffText) : Prop where
  digits : o.hdigits ≠ []
  name : ∀ n, o.name = some n → '\n' ∉ n
  guard : o.minutes = none → ∀ n, o.name = some n → nameLooksLikeMinutes n = false

theorem hoursScan_render (o : OffText) (ok : OffScanOk o) :
    hoursScan [] (o.render ++ [']']) = some (hoursText o, o.minutes.map d2, o.name) := by
  rw [OffText.render_eq, List.append_assoc, List.append_assoc]
  apply hoursScan_run
  · unfold hoursText
    have := ok.digits
    cases h : o.hdigits with
    | nil => exact absurd h this
    | cons a r => simp
  · intro c hc
    unfold hoursText signText at hc
    rw [List.mem_append] at hc
    rcases hc with hc | hc
    · cases hs : o.sign with
      | none => rw [hs] at hc; simp at hc
      | some b => rw [hs] at hc; cases b <;> simp at hc <;> subst hc <;> decide
    · rw [List.mem_map] at hc
      obtain ⟨d, _, rfl⟩ := hc
      exact isHoursChar_dch d
  · intro c r hcr
    cases hm : o.minutes with
    | some m =>
      rw [hm] at hcr; simp [minutesText] at hcr
      rw [← hcr.1]; decide
    | none =>
      rw [hm] at hcr
      cases hn : o.name with
      | some n => rw [hn] at hcr; simp [minutesText, nameText] at hcr; rw [← hcr.1]; decide
      | none => rw [hn] at hcr; simp [minutesText, nameText] at hcr; rw [← hcr.1]; decide
  · simpa using offTail_render (hoursText o) o.minutes o.name ok.name ok.guard

/-- the groups the patterns capture for the tail `(.XXX)?([offset])?` -/
def withTail (g : Groups) (ms : Option Nat) (off : Option OffText) : Groups :=
  { g with ms := ms.map d3, offH := off.map hoursText, offM := off.bind (fun o => o.minutes.map d2),
           name := off.bind (fun o => o.name) }

theorem afterSeconds_render (g : Groups) (ms : Option Nat) (off : Option OffText)
    (hg : g.ms = none ∧ g.offH = none ∧ g.offM = none ∧ g.name = none)
    (hoff : ∀ o, off = some o → OffScanOk o) :
    afterSeconds g (msText ms ++ offText off) = some (withTail g ms off) := by
  obtain ⟨y, mo, d, h, mi, s, ms', oh, om, nm⟩ := g
  simp only at hg
  obtain ⟨rfl, rfl, rfl, rfl⟩ := hg
  cases ms with
  | some m =>
    cases off with
    | none => simp [msText, offText, afterSeconds, withTail, d3, isAsciiDigit_dch]
    | some o =>
      simp [msText, offText, afterSeconds, withTail, d3, isAsciiDigit_dch, hoursScan_render o (hoff o rfl)]
  | none =>
    cases off with
    | none => simp [msText, offText, afterSeconds, withTail]
    | some o =>
      simp [msText, offText, afterSeconds, withTail, hoursScan_render o (hoff o rfl)]

def todText (h mi s : Nat) : Str := d2 h ++ d2 mi ++ d2 s

theorem timePart_render (g : Groups) (h mi s : Nat) (ms : Option Nat) (off : Option OffText)
    (hv : h < 24 ∧ mi < 60 ∧ s < 60)
    (hg : g.ms = none ∧ g.offH = none ∧ g.offM = none ∧ g.name = none)
    (hoff : ∀ o, off = some o → OffScanOk o) :
    timePart g (todText h mi s ++ (msText ms ++ offText off))
      = some (withTail { g with hour := some (d2 h), minute := some (d2 mi), second := some (d2 s) } ms off) := by
  simp only [todText, d2, List.cons_append, List.nil_append, timePart, hmsOk,
    hourOk_d2 h hv.1, minOk_d2 mi hv.2.1, secOk_d2 s hv.2.2, Bool.and_self, if_true]
  exact afterSeconds_render _ ms off hg hoff

theorem stripFinalNewline_snoc (pre : Str) (c : Char) (hc : c ≠ '\n') :
    stripFinalNewline (pre ++ [c]) = pre ++ [c] := by
  unfold stripFinalNewline
  split
  · rename_i r heq
    simp at heq
    exact absurd heq.1 hc
  · rfl

/-- a rendered text never ends in a line feed -/
theorem snoc_of_tail (ms : Option Nat) (off : Option OffText) (pre : Str) (c : Char) (hc : c ≠ '\n') :
    ∃ pre' c', c' ≠ '\n' ∧ pre ++ [c] ++ (msText ms ++ offText off) = pre' ++ [c'] := by
  cases off with
  | some o => exact ⟨pre ++ [c] ++ (msText ms ++ '[' :: o.render), ']', by decide, by simp [offText]⟩
  | none =>
    cases ms with
    | some m =>
      exact ⟨pre ++ [c] ++ ['.', dch (m / 100), dch (m / 10)], dch m, dch_ne_newline m, by simp [msText, offText, d3]⟩
    | none => exact ⟨pre, c, hc, by simp [msText, offText]⟩

theorem tmRegex_render (h mi s : Nat) (ms : Option Nat) (off : Option OffText)
    (hv : h < 24 ∧ mi < 60 ∧ s < 60) (hoff : ∀ o, off = some o → OffScanOk o) :
    tmRegex (todText h mi s ++ (msText ms ++ offText off))
      = some (withTail { hour := some (d2 h), minute := some (d2 mi), second := some (d2 s) } ms off) := by
  unfold tmRegex
  obtain ⟨pre', c', hc', he⟩ := snoc_of_tail ms off (d2 h ++ d2 mi ++ [dch (s / 10)]) (dch s) (dch_ne_newline s)
  have he' : todText h mi s ++ (msText ms ++ offText off) = pre' ++ [c'] := by
    rw [← he]; simp [todText, d2]
  rw [he', stripFinalNewline_snoc pre' c' hc', ← he']
  exact timePart_render {} h mi s ms off hv ⟨rfl, rfl, rfl, rfl⟩ hoff

def dateText (y m d : Nat) : Str := d4 y ++ d2 m ++ d2 d

theorem dtRegex_render_date (y m d : Nat) (hm : 1 ≤ m ∧ m ≤ 12) (hd : 1 ≤ d ∧ d ≤ 31) :
    dtRegex (dateText y m d) = some { year := some (d4 y), month := some (d2 m), day := some (d2 d) } := by
  unfold dtRegex
  have he : dateText y m d = (d4 y ++ d2 m ++ [dch (d / 10)]) ++ [dch d] := by simp [dateText, d2]
  rw [he, stripFinalNewline_snoc _ _ (dch_ne_newline d)]
  simp [d4, d2, isAsciiDigit_dch, mdOk, monthOk_d2 m (by omega) hm.1, dayOk_d2 d (by omega) hd.1]

theorem dtRegex_render_full (y m d h mi s : Nat) (ms : Option Nat) (off : Option OffText)
    (hm : 1 ≤ m ∧ m ≤ 12) (hd : 1 ≤ d ∧ d ≤ 31)
    (hv : h < 24 ∧ mi < 60 ∧ s < 60) (hoff : ∀ o, off = some o → OffScanOk o) :
    dtRegex (dateText y m d ++ (todText h mi s ++ (msText ms ++ offText off)))
      = some (withTail { year := some (d4 y), month := some (d2 m), day := some (d2 d),
                         hour := some (d2 h), minute := some (d2 mi), second := some (d2 s) } ms off) := by
  unfold dtRegex
  obtain ⟨pre', c', hc', he⟩ := snoc_of_tail ms off (dateText y m d ++ d2 h ++ d2 mi ++ [dch (s / 10)]) (dch s) (dch_ne_newline s)
  have he' : dateText y m d ++ (todText h mi s ++ (msText ms ++ offText off)) = pre' ++ [c'] := by
    rw [← he]; simp [todText, d2]
  rw [he', stripFinalNewline_snoc pre' c' hc', ← he']
  have ht := timePart_render { year := some (d4 y), month := some (d2 m), day := some (d2 d) } h mi s ms off hv
    ⟨rfl, rfl, rfl, rfl⟩ hoff
  simp only [dateText, d4, d2, List.cons_append, List.nil_append, isAsciiDigit_dch, mdOk,
    monthOk_d2 m (by omega) hm.1, dayOk_d2 d (by omega) hd.1, Bool.and_self, if_true]
  simp only [d4, d2] at ht
  simp only [todText, d2, List.cons_append, List.nil_append] at ht ⊢
  exact ht

/-! ### `int()` of the offset texts, `gmt_offset` -/

theorem digitsVal_map_dch (ds : List Nat) (hd : ∀ d ∈ ds, d < 10) (acc : Nat) :
    digitsVal digitVal acc (ds.map dch) = some (ds.foldl (fun a d => 10 * a + d) acc) := by
  induction ds generalizing acc with
  | nil => rfl
  | cons d r ih =>
    have hd' : d < 10 := hd d (by simp)
    simp only [List.map_cons, digitsVal, digitVal_dch, List.foldl_cons, Nat.mod_eq_of_lt hd']
    exact ih (fun x hx => hd x (by simp [hx])) _

theorem pyIntSigned_hoursText (o : OffText) (hne : o.hdigits ≠ []) (hd : ∀ d ∈ o.hdigits, d < 10)
    (hlen : o.hdigits.length ≤ intMaxStrDigits) :
    pyIntSigned (hoursText o)
      = some (if o.sign = some true then -((hoursVal o.hdigits : Nat) : Int) else ((hoursVal o.hdigits : Nat) : Int)) := by
  have hbody : ∀ neg : Bool,
      (if (o.hdigits.map dch).isEmpty || (o.hdigits.map dch).length > intMaxStrDigits then none
        else (natOfAscii (o.hdigits.map dch)).map (fun n => if neg then -(n : Int) else (n : Int)))
      = some (if neg then -((hoursVal o.hdigits : Nat) : Int) else ((hoursVal o.hdigits : Nat) : Int)) := by
    intro neg
    have h1 : (o.hdigits.map dch).isEmpty = false := by
      cases h : o.hdigits with
      | nil => exact absurd h hne
      | cons a r => rfl
    have h2 : ¬ (o.hdigits.map dch).length > intMaxStrDigits := by simp; exact hlen
    simp [h1, natOfAscii, digitsVal_map_dch o.hdigits hd 0, hoursVal, hlen]
  unfold hoursText signText
  cases hs : o.sign with
  | some b =>
    cases b with
    | true => simp only [List.cons_append, List.nil_append, pyIntSigned]; simpa using hbody true
    | false => simp only [List.cons_append, List.nil_append, pyIntSigned]; simpa using hbody false
  | none =>
    simp only [List.nil_append]
    cases hh : o.hdigits with
    | nil => exact absurd hh hne
    | cons a r =>
      have hb := hbody false
      rw [hh] at hb
      simp only [List.map_cons] at hb ⊢
      unfold pyIntSigned
      split
      · rename_i ds heq
        have : dch a = '-' := by simpa using (List.cons.inj heq).1
        have h := isAsciiDigit_dch a; rw [this] at h; exact absurd h (by decide)
      · rename_i ds heq
        have : dch a = '+' := by simpa using (List.cons.inj heq).1
        have h := isAsciiDigit_dch a; rw [this] at h; exact absurd h (by decide)
      · simpa using hb

theorem gmtOffset_of_wf (o : OffText) (hmm : ∀ m, o.minutes = some m → m < 60)
    (hr : -720 ≤ o.minutesEast ∧ o.minutesEast ≤ 840) (hg : o.negZeroHour = false) :
    gmtOffset (if o.sign = some true then -((hoursVal o.hdigits : Nat) : Int) else ((hoursVal o.hdigits : Nat) : Int))
      (o.minutes.getD 0) = .ok o.minutesEast := by
  have hm60 : o.minutes.getD 0 < 60 := by
    cases h : o.minutes with
    | none => simp
    | some m => simpa using hmm m h
  unfold OffText.minutesEast at hr ⊢
  unfold OffText.negZeroHour at hg
  generalize hoursVal o.hdigits = hv at *
  generalize o.minutes.getD 0 = mm at *
  unfold gmtOffset
  by_cases hs : o.sign = some true
  · simp only [hs, if_true] at hr hg ⊢
    simp at hg
    have h1 : ¬ (-(hv : Int) < -12 ∨ -(hv : Int) > 14) := by omega
    simp only [h1, if_false]
    by_cases h0 : hv = 0
    · have := hg h0; subst h0; subst this; simp
    · have hneg : -(hv : Int) < 0 := by omega
      simp only [hneg, if_true]
      congr 1
      have : ((-(hv : Int)).natAbs : Int) = hv := by omega
      push_cast; omega
  · simp only [hs, if_false] at hr ⊢
    have h1 : ¬ ((hv : Int) < -12 ∨ (hv : Int) > 14) := by omega
    have hneg : ¬ (hv : Int) < 0 := by omega
    simp only [h1, if_false, hneg]
    simp

/-- offset of an optional `[…]` part, minutes east (absent = GMT) -/
def offMinutes : Option OffText → Int | some o => o.minutesEast | none => 0

/-- everything the read theorems assume about an offset text -/
structure OffReadOk (o : OffText) : Prop where
  wf : o.wf = true
  len : o.hdigits.length ≤ intMaxStrDigits
  notNegZero : o.negZeroHour = false
  nameGuard : o.minutes = none → ∀ n, o.name = some n → nameLooksLikeMinutes n = false

theorem OffReadOk.scan {o : OffText} (h : OffReadOk o) : OffScanOk o := by
  have hwf := h.wf
  simp only [OffText.wf, Bool.and_eq_true] at hwf
  obtain ⟨⟨⟨⟨h1, h2⟩, h3⟩, h4⟩, h5⟩ := hwf
  refine ⟨?_, ?_, h.nameGuard⟩
  · intro he; rw [he] at h1; simp at h1
  · intro n hn; rw [hn] at h4; simpa using h4

theorem parseGmtOffset_render (tzs : List (Str × Int)) (off : Option OffText)
    (hoff : ∀ o, off = some o → OffReadOk o) :
    parseGmtOffset tzs (off.map hoursText) (off.bind (fun o => o.minutes.map d2)) (off.bind (fun o => o.name))
      = .ok (offMinutes off) := by
  cases off with
  | none => simp [parseGmtOffset, intOfUDigits, gmtOffset, offMinutes, bind, Except.bind, pure, Except.pure]
  | some o =>
    have ok := hoff o rfl
    have hwf := ok.wf
    simp only [OffText.wf, Bool.and_eq_true] at hwf
    obtain ⟨⟨⟨⟨h1, h2⟩, h3⟩, h4⟩, h5⟩ := hwf
    have hne : o.hdigits ≠ [] := ok.scan.digits
    have hd : ∀ d ∈ o.hdigits, d < 10 := by
      intro d hdm; rw [List.all_eq_true] at h2; simpa using h2 d hdm
    have hmm : ∀ m, o.minutes = some m → m < 60 := by
      intro m hm; rw [hm] at h3; simpa using h3
    have hr : -720 ≤ o.minutesEast ∧ o.minutesEast ≤ 840 := by simpa using h5
    have hint := pyIntSigned_hoursText o hne hd ok.len
    have hmin : intOfUDigits (o.minutes.map d2) = .ok (o.minutes.getD 0) := by
      cases hm : o.minutes with
      | none => rfl
      | some m => simp [intOfUDigits, uDigits_d2 m (by have := hmm m hm; omega)]
    simp only [Option.map_some, Option.bind_some, parseGmtOffset, hint, hmin, bind, Except.bind, pure, Except.pure,
      offMinutes]
    exact gmtOffset_of_wf o hmm hr ok.notNegZero

/-! ### microsecond arithmetic -/

theorem fromUs_spec (t : Int) (h1 : usPerDay ≤ t) (h2 : t < ((maxOrdinal : Nat) + 1 : Int) * usPerDay) :
    ∃ f, fromUs t = .ok f ∧ Cal.validDate f.year f.month f.day = true
      ∧ validTime f.hour f.minute f.second f.us = true
      ∧ toUs f.year f.month f.day f.hour f.minute f.second f.us = t := by
  unfold usPerDay maxOrdinal at *
  have hd1 : 1 ≤ t / 86400000000 := by omega
  have hd2 : t / 86400000000 ≤ 3652059 := by omega
  obtain ⟨n, hn⟩ : ∃ n : Nat, t / 86400000000 = n := ⟨(t / 86400000000).toNat, by omega⟩
  obtain ⟨r, hr⟩ : ∃ r : Nat, t % 86400000000 = r := ⟨(t % 86400000000).toNat, by omega⟩
  have hn1 : 1 ≤ n := by omega
  have hn2 : n ≤ maxOrdinal := by unfold maxOrdinal; omega
  obtain ⟨c1, c2, c3, c4, c5, c6⟩ := ymd2ord_ord2ymd n hn1
  have c7 := ord2ymd_year_le n hn2
  have hrr : r < 86400000000 := by omega
  refine ⟨⟨(ord2ymd n).1, (ord2ymd n).2.1, (ord2ymd n).2.2, r / 1000000 / 3600, r / 1000000 / 60 % 60,
    r / 1000000 % 60, r % 1000000⟩, ?_, ?_, ?_, ?_⟩
  · unfold fromUs usPerDay maxOrdinal
    simp only [hn, hr, Int.toNat_natCast]
    have : ¬ ((n : Int) < 1 ∨ (n : Int) > ((3652059 : Nat) : Int)) := by omega
    simp only [this, if_false]
  · simp only [Cal.validDate, Bool.and_eq_true, decide_eq_true_eq]
    exact ⟨⟨⟨⟨⟨c1, c7⟩, c2⟩, c3⟩, c4⟩, c5⟩
  · simp only [validTime, Bool.and_eq_true, decide_eq_true_eq]
    omega
  · unfold toUs
    simp only [c6]
    omega

theorem toUs_instant (y m d h mi s ms : Nat) (hm : 1 ≤ m ∧ m ≤ 12) (off : Int) :
    toUs y m d h mi s (1000 * ms) - off * 60000000 = 1000 * instantOf y m d h mi s ms off := by
  unfold toUs instantOf
  rw [spec_ordinal_eq y m d hm]
  omega

theorem intOfAscii_d2 (n : Nat) (h : n < 100) : intOfAscii (some (d2 n)) = .ok n := by
  simp [intOfAscii, natOfAscii_d2 n h]
theorem intOfAscii_d4 (n : Nat) (h : n < 10000) : intOfAscii (some (d4 n)) = .ok n := by
  simp [intOfAscii, natOfAscii_d4 n h]
theorem intOfAscii_ms (ms : Option Nat) (h : ∀ x, ms = some x → x < 1000) :
    intOfAscii (ms.map d3) = .ok (ms.getD 0) := by
  cases ms with
  | none => rfl
  | some x => simp [intOfAscii, natOfAscii_d3 x (h x rfl)]

theorem validDate_bounds {y m d : Nat} (h : Spec.Instant.validDate y m d = true) :
    1 ≤ y ∧ y ≤ 9999 ∧ 1 ≤ m ∧ m ≤ 12 ∧ 1 ≤ d ∧ d ≤ 31 := by
  have h' := h
  rw [spec_validDate_eq] at h'
  simp only [Cal.validDate, Bool.and_eq_true, decide_eq_true_eq] at h'
  obtain ⟨⟨⟨⟨⟨a, b⟩, c⟩, e⟩, f⟩, g⟩ := h'
  have := dimL_le (isLeap y) m ⟨c, e⟩
  rw [daysInMonth_eq] at g
  exact ⟨a, b, c, e, f, by omega⟩

theorem intOfAscii_none : intOfAscii none = .ok 0 := rfl

theorem ymd2ord_le_max (y m d : Nat) (y1 : 1 ≤ y) (y2 : y ≤ 9999) (hm : 1 ≤ m ∧ m ≤ 12)
    (hd : d ≤ daysInMonth y m) : ymd2ord y m d ≤ maxOrdinal := by
  obtain ⟨a, b, c, e, hb, hc, he, rfl⟩ := year_decomp y y1
  have hleap := isLeap_decomp a b c e hb hc he
  have hdby := dby_decomp a b c e hb hc he
  have h3 := (dbm_dim_le (isLeap (400 * a + 100 * b + 4 * c + e + 1)) m hm).1
  rw [daysInMonth_eq] at hd
  unfold ymd2ord maxOrdinal
  rw [daysBeforeMonth_eq, hdby]
  generalize isLeap (400 * a + 100 * b + 4 * c + e + 1) = L at *
  have hk : dbmL L m + d ≤ 365 ∨ (dbmL L m + d ≤ 366 ∧ e = 3 ∧ (c ≠ 24 ∨ b = 3)) := by
    cases L
    · left; simp at h3; omega
    · right
      have : e = 3 ∧ (c ≠ 24 ∨ b = 3) := by have := hleap.symm; simpa using this
      simp at h3
      exact ⟨by omega, this⟩
  by_cases ha : a ≤ 23
  · omega
  · have ha24 : a = 24 := by omega
    subst ha24
    by_cases hb2 : b ≤ 2
    · omega
    · have hb3 : b = 3 := by omega
      subst hb3
      by_cases hc23 : c ≤ 23
      · omega
      · have hc24 : c = 24 := by omega
        subst hc24
        omega

theorem range_us (I : Int) (h : minInstant ≤ I ∧ I < endInstant) :
    usPerDay ≤ 1000 * I ∧ 1000 * I < ((maxOrdinal : Nat) + 1 : Int) * usPerDay := by
  unfold minInstant endInstant at h
  unfold usPerDay maxOrdinal
  omega

/-- reading a full date-time text (`YYYYMMDDHHMMSS[.XXX][[offset]]`) -/
theorem dtConvertStr_full (tzs : List (Str × Int)) (y m d h mi s : Nat) (ms : Option Nat) (off : Option OffText)
    (hdate : Spec.Instant.validDate y m d = true) (htod : validTod h mi s = true)
    (hms : ∀ x, ms = some x → x < 1000) (hoff : ∀ o, off = some o → OffReadOk o)
    (hrange : minInstant ≤ instantOf y m d h mi s (ms.getD 0) (offMinutes off)
      ∧ instantOf y m d h mi s (ms.getD 0) (offMinutes off) < endInstant) :
    ∃ f, dtConvertStr tzs (dateText y m d ++ (todText h mi s ++ (msText ms ++ offText off)))
        = .ok (.dt (dtOfFields f (some utcTz)))
      ∧ Cal.validDate f.year f.month f.day = true ∧ validTime f.hour f.minute f.second f.us = true
      ∧ toUs f.year f.month f.day f.hour f.minute f.second f.us
          = 1000 * instantOf y m d h mi s (ms.getD 0) (offMinutes off) := by
  obtain ⟨y1, y2, m1, m2, d1, d2'⟩ := validDate_bounds hdate
  simp only [validTod, Bool.and_eq_true, decide_eq_true_eq] at htod
  obtain ⟨⟨t1, t2⟩, t3⟩ := htod
  have hmsv : ms.getD 0 < 1000 := by
    cases ms with
    | none => simp
    | some x => simpa using hms x rfl
  obtain ⟨u1, u2⟩ := range_us _ hrange
  rw [← toUs_instant y m d h mi s (ms.getD 0) ⟨m1, m2⟩ (offMinutes off)] at u1 u2 ⊢
  obtain ⟨f, hf, v1, v2, v3⟩ := fromUs_spec _ u1 u2
  refine ⟨f, ?_, v1, v2, v3⟩
  have hvd : Cal.validDate y m d = true := by rw [← spec_validDate_eq]; exact hdate
  have hvt : validTime h mi s (1000 * ms.getD 0) = true := by
    simp only [validTime, Bool.and_eq_true, decide_eq_true_eq]; omega
  simp only [dtConvertStr, dtRegex_render_full y m d h mi s ms off ⟨m1, m2⟩ ⟨d1, d2'⟩ ⟨t1, t2, t3⟩
      (fun o ho => (hoff o ho).scan), withTail, parseGmtOffset_render tzs off hoff,
    intOfAscii_d4 y (by omega), intOfAscii_d2 m (by omega), intOfAscii_d2 d (by omega),
    intOfAscii_d2 h (by omega), intOfAscii_d2 mi (by omega), intOfAscii_d2 s (by omega),
    intOfAscii_ms ms hms, bind, Except.bind, pure, Except.pure, hvd, hvt, Bool.and_self, Bool.not_true,
    Bool.false_eq_true, if_false, hf]

/-- reading a date-only text (`YYYYMMDD`): midnight GMT -/
theorem dtConvertStr_date (tzs : List (Str × Int)) (y m d : Nat)
    (hdate : Spec.Instant.validDate y m d = true) :
    ∃ f, dtConvertStr tzs (dateText y m d) = .ok (.dt (dtOfFields f (some utcTz)))
      ∧ Cal.validDate f.year f.month f.day = true ∧ validTime f.hour f.minute f.second f.us = true
      ∧ toUs f.year f.month f.day f.hour f.minute f.second f.us = 1000 * instantOf y m d 0 0 0 0 0 := by
  obtain ⟨y1, y2, m1, m2, d1, d2'⟩ := validDate_bounds hdate
  have hvd : Cal.validDate y m d = true := by rw [← spec_validDate_eq]; exact hdate
  have hr : minInstant ≤ instantOf y m d 0 0 0 0 0 ∧ instantOf y m d 0 0 0 0 0 < endInstant := by
    unfold minInstant endInstant instantOf
    rw [spec_ordinal_eq y m d ⟨m1, m2⟩]
    have hlo : 1 ≤ ymd2ord y m d := by unfold ymd2ord; omega
    have hhi : ymd2ord y m d ≤ maxOrdinal :=
      ymd2ord_le_max y m d y1 y2 ⟨m1, m2⟩ (by
        simp only [Cal.validDate, Bool.and_eq_true, decide_eq_true_eq] at hvd; exact hvd.2)
    unfold maxOrdinal at hhi
    omega
  obtain ⟨u1, u2⟩ := range_us _ hr
  rw [← toUs_instant y m d 0 0 0 0 ⟨m1, m2⟩ 0] at u1 u2 ⊢
  obtain ⟨f, hf, v1, v2, v3⟩ := fromUs_spec _ u1 u2
  refine ⟨f, ?_, v1, v2, v3⟩
  simp only [dtConvertStr, dtRegex_render_date y m d ⟨m1, m2⟩ ⟨d1, d2'⟩, parseGmtOffset, intOfUDigits, gmtOffset,
    intOfAscii_d4 y (by omega), intOfAscii_d2 m (by omega), intOfAscii_d2 d (by omega), intOfAscii_none,
    bind, Except.bind, pure, Except.pure, hvd]
  simp only [Nat.mul_zero, Int.sub_zero, Int.zero_mul] at hf ⊢
  simp [validTime, hf]

/-- reading a time text (`HHMMSS[.XXX][[offset]]`) -/
theorem tmConvertStr_render (tzs : List (Str × Int)) (h mi s : Nat) (ms : Option Nat) (off : Option OffText)
    (htod : validTod h mi s = true) (hms : ∀ x, ms = some x → x < 1000)
    (hoff : ∀ o, off = some o → OffReadOk o) :
    ∃ t : TM, tmConvertStr tzs (todText h mi s ++ (msText ms ++ offText off)) = .ok (.tm t)
      ∧ tmValid t = true ∧ t.tz = some utcTz
      ∧ tmInstantUs t = some (1000 * todInstantOf h mi s (ms.getD 0) (offMinutes off)) := by
  simp only [validTod, Bool.and_eq_true, decide_eq_true_eq] at htod
  obtain ⟨⟨t1, t2⟩, t3⟩ := htod
  have hmsv : ms.getD 0 < 1000 := by
    cases ms with
    | none => simp
    | some x => simpa using hms x rfl
  have hvt : validTime h mi s (1000 * ms.getD 0) = true := by
    simp only [validTime, Bool.and_eq_true, decide_eq_true_eq]; omega
  generalize hT : toUs 1999 6 8 h mi s (1000 * ms.getD 0) - offMinutes off * 60000000 = T
  refine ⟨⟨(todOfUs T).1, (todOfUs T).2.1, (todOfUs T).2.2.1, (todOfUs T).2.2.2, some utcTz⟩, ?_, ?_, rfl, ?_⟩
  · simp only [tmConvertStr, tmRegex_render h mi s ms off ⟨t1, t2, t3⟩ (fun o ho => (hoff o ho).scan), withTail,
      parseGmtOffset_render tzs off hoff, intOfAscii_d2 h (by omega), intOfAscii_d2 mi (by omega),
      intOfAscii_d2 s (by omega), intOfAscii_ms ms hms, bind, Except.bind, pure, Except.pure, hvt,
      Bool.not_true, Bool.false_eq_true, if_false, hT]
  · unfold todOfUs usPerDay
    simp only [tmValid, validTod, Bool.and_eq_true, decide_eq_true_eq]
    have : ((T % 86400000000).toNat : Int) = T % 86400000000 := by omega
    omega
  · unfold toUs at hT
    generalize ymd2ord 1999 6 8 = N at hT
    unfold tmInstantUs todOfUs todInstantOf utcTz usPerDay
    simp only [Option.map_some, Option.some.injEq]
    have : ((T % 86400000000).toNat : Int) = T % 86400000000 := by omega
    omega

/-! ### inversion: what an accepted text must look like -/

theorem asciiDigit_eq_dch (c : Char) (h : isAsciiDigit c = true) : ∃ k, k < 10 ∧ c = dch k := by
  simp only [isAsciiDigit, Bool.and_eq_true, decide_eq_true_eq] at h
  obtain ⟨h1, h2⟩ := h
  have h1' : 48 ≤ c.toNat := by
    have := UInt32.le_iff_toNat_le.mp (Char.le_def.mp h1)
    have e : ('0' : Char).val.toNat = 48 := by decide
    rw [e] at this; exact this
  have h2' : c.toNat ≤ 57 := by
    have := UInt32.le_iff_toNat_le.mp (Char.le_def.mp h2)
    have e : ('9' : Char).val.toNat = 57 := by decide
    rw [e] at this; exact this
  refine ⟨c.toNat - 48, by omega, ?_⟩
  unfold dch
  have : 48 + (c.toNat - 48) % 10 = c.toNat := by omega
  rw [this, Char.ofNat_toNat]

theorem dch_congr {a b : Nat} (h : a % 10 = b % 10) : dch a = dch b := by unfold dch; rw [h]

theorem digitVal_some (c : Char) (k : Nat) (h : digitVal c = some k) : k < 10 ∧ c = dch k := by
  unfold digitVal at h
  split at h
  · rename_i hc
    have hd : isAsciiDigit c = true := by simp [isAsciiDigit, hc.1, hc.2]
    obtain ⟨k', hk', hc'⟩ := asciiDigit_eq_dch c hd
    have := digitVal_dch k'
    rw [← hc'] at this
    unfold digitVal at this
    simp only [hc, and_self, if_true] at this
    injection h with h
    injection this with this
    rw [Nat.mod_eq_of_lt hk'] at this
    have : k = k' := by omega
    subst this
    exact ⟨hk', hc'⟩
  · exact absurd h (by simp)

theorem natOfAscii2_inv (a b : Char) (n : Nat) (h : natOfAscii [a, b] = some n) : n < 100 ∧ [a, b] = d2 n := by
  simp only [natOfAscii, digitsVal] at h
  cases ha : digitVal a with
  | none => simp [ha] at h
  | some ka =>
    cases hb : digitVal b with
    | none => simp [ha, hb] at h
    | some kb =>
      simp only [ha, hb, Option.some.injEq] at h
      obtain ⟨la, ea⟩ := digitVal_some a ka ha
      obtain ⟨lb, eb⟩ := digitVal_some b kb hb
      subst h
      refine ⟨by omega, ?_⟩
      rw [ea, eb, d2]
      congr 1
      · exact dch_congr (by omega)
      · congr 1; exact dch_congr (by omega)

theorem natOfAscii4_inv (a b c d : Char) (n : Nat) (h : natOfAscii [a, b, c, d] = some n) :
    n < 10000 ∧ [a, b, c, d] = d4 n := by
  simp only [natOfAscii, digitsVal] at h
  cases ha : digitVal a with
  | none => simp [ha] at h
  | some ka =>
    cases hb : digitVal b with
    | none => simp [ha, hb] at h
    | some kb =>
      cases hc : digitVal c with
      | none => simp [ha, hb, hc] at h
      | some kc =>
        cases hd : digitVal d with
        | none => simp [ha, hb, hc, hd] at h
        | some kd =>
          simp only [ha, hb, hc, hd, Option.some.injEq] at h
          obtain ⟨la, ea⟩ := digitVal_some a ka ha
          obtain ⟨lb, eb⟩ := digitVal_some b kb hb
          obtain ⟨lc, ec⟩ := digitVal_some c kc hc
          obtain ⟨ld, ed⟩ := digitVal_some d kd hd
          subst h
          refine ⟨by omega, ?_⟩
          rw [ea, eb, ec, ed, d4]
          congr 1
          · exact dch_congr (by omega)
          · congr 1
            · exact dch_congr (by omega)
            · congr 1
              · exact dch_congr (by omega)
              · congr 1; exact dch_congr (by omega)

theorem intOfAscii_some_ok (t : Str) (n : Nat) (h : intOfAscii (some t) = .ok n) : natOfAscii t = some n := by
  unfold intOfAscii at h
  simp only at h
  split at h
  · rename_i k hk; injection h with h; rw [hk, h]
  · exact absurd h (by simp)

def sameHead (g g' : Groups) : Prop :=
  g'.year = g.year ∧ g'.month = g.month ∧ g'.day = g.day ∧ g'.hour = g.hour ∧ g'.minute = g.minute ∧ g'.second = g.second

theorem afterSeconds_inv (g g' : Groups) (r : Str) (h : afterSeconds g r = some g') :
    sameHead g g' ∧ (r = [] ∨ ∃ c t, r = c :: t ∧ (c = '.' ∨ c = '[')) := by
  unfold afterSeconds at h
  simp only [] at h
  split at h
  · rename_i a b c t
    refine ⟨?_, Or.inr ⟨'.', _, rfl, Or.inl rfl⟩⟩
    split at h
    · split at h
      · injection h with h; subst h; exact ⟨rfl, rfl, rfl, rfl, rfl, rfl⟩
      · rw [Option.map_eq_some_iff] at h
        obtain ⟨x, _, hx⟩ := h
        subst hx; exact ⟨rfl, rfl, rfl, rfl, rfl, rfl⟩
      · exact absurd h (by simp)
    · exact absurd h (by simp)
  · split at h
    · injection h with h; subst h; exact ⟨⟨rfl, rfl, rfl, rfl, rfl, rfl⟩, Or.inl rfl⟩
    · rw [Option.map_eq_some_iff] at h
      obtain ⟨x, _, hx⟩ := h
      subst hx; exact ⟨⟨rfl, rfl, rfl, rfl, rfl, rfl⟩, Or.inr ⟨'[', _, rfl, Or.inr rfl⟩⟩
    · exact absurd h (by simp)

theorem timePart_inv (g g' : Groups) (r : Str) (h : timePart g r = some g') :
    ∃ h1 h2 m1 m2 s1 s2 r', r = h1 :: h2 :: m1 :: m2 :: s1 :: s2 :: r'
      ∧ g'.year = g.year ∧ g'.month = g.month ∧ g'.day = g.day
      ∧ g'.hour = some [h1, h2] ∧ g'.minute = some [m1, m2] ∧ g'.second = some [s1, s2]
      ∧ (r' = [] ∨ ∃ c t, r' = c :: t ∧ (c = '.' ∨ c = '[')) := by
  unfold timePart at h
  split at h
  · rename_i h1 h2 m1 m2 s1 s2 r'
    split at h
    · obtain ⟨⟨a, b, c, d, e, f⟩, hs⟩ := afterSeconds_inv _ _ _ h
      exact ⟨h1, h2, m1, m2, s1, s2, r', rfl, a, b, c, d, e, f, hs⟩
    · exact absurd h (by simp)
  · exact absurd h (by simp)

theorem dtRegex_inv (s : Str) (g : Groups) (h : dtRegex s = some g) :
    ∃ y1 y2 y3 y4 m1 m2 d1 d2 r, stripFinalNewline s = y1 :: y2 :: y3 :: y4 :: m1 :: m2 :: d1 :: d2 :: r
      ∧ g.year = some [y1, y2, y3, y4] ∧ g.month = some [m1, m2] ∧ g.day = some [d1, d2]
      ∧ ((r = [] ∧ g.hour = none ∧ g.minute = none ∧ g.second = none ∧ g.ms = none) ∨
          ∃ h1 h2 mi1 mi2 s1 s2 r', r = h1 :: h2 :: mi1 :: mi2 :: s1 :: s2 :: r'
            ∧ g.hour = some [h1, h2] ∧ g.minute = some [mi1, mi2] ∧ g.second = some [s1, s2]
            ∧ (r' = [] ∨ ∃ c t, r' = c :: t ∧ (c = '.' ∨ c = '['))) := by
  unfold dtRegex at h
  split at h
  · rename_i y1 y2 y3 y4 m1 m2 d1 d2 r heq
    refine ⟨y1, y2, y3, y4, m1, m2, d1, d2, r, heq, ?_⟩
    split at h
    · simp only [] at h
      split at h
      · injection h with h; subst h
        exact ⟨rfl, rfl, rfl, Or.inl ⟨rfl, rfl, rfl, rfl, rfl⟩⟩
      · obtain ⟨h1, h2, mi1, mi2, s1, s2, r', hr, a, b, c, d, e, f, hs⟩ := timePart_inv _ _ _ h
        exact ⟨a, b, c, Or.inr ⟨h1, h2, mi1, mi2, s1, s2, r', hr, d, e, f, hs⟩⟩
    · exact absurd h (by simp)
  · exact absurd h (by simp)

theorem stripFinalNewline_cases (s : Str) : s = stripFinalNewline s ∨ s = stripFinalNewline s ++ ['\n'] := by
  unfold stripFinalNewline
  split
  · rename_i r heq
    right
    have := congrArg List.reverse heq
    simpa using this
  · left; rfl

/-! ### writing -/

theorem pad2_eq (n : Nat) : pad2 n = d2 n := rfl
theorem pad3_eq (n : Nat) : pad3 n = d3 n := rfl

theorem natDigits_year (y : Nat) (h1 : 1000 ≤ y) (h2 : y < 10000) :
    natDigits y = [y / 1000, y / 100 % 10, y / 10 % 10, y % 10] := by
  obtain ⟨k, rfl⟩ : ∃ k, y = k + 3 := ⟨y - 3, by omega⟩
  unfold natDigits
  rw [natDigitsAux, if_neg (by omega), natDigitsAux, if_neg (by omega), natDigitsAux, if_neg (by omega),
    natDigitsAux, if_pos (by omega)]
  simp only [List.cons.injEq, and_true]
  omega

theorem digitChar_eq_dch (d : Nat) (h : d < 10) : digitChar d = dch d := by
  unfold digitChar dch; rw [Nat.mod_eq_of_lt h]

theorem pyStrNat_year (y : Nat) (h1 : 1000 ≤ y) (h2 : y < 10000) : pyStrNat y = d4 y := by
  unfold pyStrNat
  rw [natDigits_year y h1 h2]
  simp only [List.map, d4]
  rw [digitChar_eq_dch _ (by omega), digitChar_eq_dch _ (by omega), digitChar_eq_dch _ (by omega),
    digitChar_eq_dch _ (by omega)]
  congr 1
  congr 1
  · exact dch_congr (by omega)
  · congr 1
    · exact dch_congr (by omega)
    · congr 1; exact dch_congr (by omega)

theorem natDigits_lt10 (n : Nat) (h : n < 10) : natDigits n = [n] := by
  unfold natDigits
  rw [natDigitsAux, if_pos h]

theorem natDigits_lt100 (n : Nat) (h1 : 10 ≤ n) (h2 : n < 100) : natDigits n = [n / 10, n % 10] := by
  obtain ⟨k, rfl⟩ : ∃ k, n = k + 1 := ⟨n - 1, by omega⟩
  unfold natDigits
  rw [natDigitsAux, if_neg (by omega), natDigitsAux, if_pos (by omega)]

theorem natDigits_small (n : Nat) (hn : n < 25) :
    natDigits n ≠ [] ∧ (natDigits n).all (· < 10) = true ∧ hoursVal (natDigits n) = n
    ∧ (natDigits n).map dch = pyStrNat n ∧ (natDigits n).length ≤ 2 := by
  unfold pyStrNat
  by_cases h : n < 10
  · rw [natDigits_lt10 n h]
    refine ⟨by simp, by simp [h], by simp [hoursVal], ?_, by simp⟩
    simp [digitChar_eq_dch n h]
  · rw [natDigits_lt100 n (by omega) (by omega)]
    refine ⟨by simp, ?_, ?_, ?_, by simp⟩
    · simp; omega
    · simp [hoursVal]; omega
    · simp [digitChar_eq_dch (n / 10) (by omega), digitChar_eq_dch (n % 10) (by omega)]
theorem ord2ymd_year_ge (n : Nat) (h : 364878 ≤ n) : 1000 ≤ (ord2ymd n).1 := by
  unfold ord2ymd
  simp only []
  generalize hr1 : (n - 1) % 146097 = r1
  generalize ha : (n - 1) / 146097 = a
  generalize hr2 : r1 % 36524 = r2
  generalize hb : r1 / 36524 = b
  generalize hr3 : r2 % 1461 = r3
  generalize hc : r2 / 1461 = c
  generalize hk : r3 % 365 = k
  generalize he : r3 / 365 = e
  have hb' : b ≤ 4 := by omega
  have hc' : c ≤ 24 := by omega
  have he' : e ≤ 4 := by omega
  have ha' : 2 ≤ a := by omega
  have f1 : a = 2 → 1 ≤ b := by omega
  have f2 : a = 2 → b = 1 → c = 24 := by omega
  have f3 : a = 2 → b = 1 → 3 ≤ e := by
    intro h2 h1
    have := f2 h2 h1
    omega
  split
  · rename_i hsp
    simp only [Bool.or_eq_true, beq_iff_eq] at hsp
    simp only; omega
  · rename_i hne
    simp only [Bool.or_eq_true, beq_iff_eq, not_or] at hne
    simp only; omega

/-- the offset part the writer produces, structurally: always signed, hours without leading zeros,
    `.MM` only when non-zero, the name as given -/
def canonOff (offMin : Int) (name : Option Str) : OffText :=
  ⟨some (decide (offMin < 0)), natDigits (offMin.natAbs / 60),
   if offMin.natAbs % 60 != 0 then some (offMin.natAbs % 60) else none, name⟩

theorem formatOffset_eq (offUs : Int) (name : Option Str)
    (hr : -usPerDay < offUs ∧ offUs < usPerDay) :
    formatOffset offUs name = (canonOff (offUs / 60000000) name).render := by
  unfold usPerDay at hr
  have hh : (offUs / 60000000).natAbs / 60 < 25 := by omega
  obtain ⟨_, _, _, hmap, _⟩ := natDigits_small _ hh
  unfold formatOffset canonOff OffText.render
  simp only [hmap, pad2_eq]
  by_cases hneg : offUs / 60000000 < 0 <;> by_cases hm : ((offUs / 60000000).natAbs % 60 != 0) = true <;>
    cases name <;> simp [hneg, hm]

theorem canonOff_minutesEast (offMin : Int) (name : Option Str) (hh : offMin.natAbs / 60 < 25) :
    (canonOff offMin name).minutesEast = offMin := by
  obtain ⟨_, _, hv, _, _⟩ := natDigits_small _ hh
  unfold OffText.minutesEast canonOff
  simp only [hv]
  by_cases hm : (offMin.natAbs % 60 != 0) = true
  · simp only [hm, if_true, Option.getD_some]
    by_cases hneg : offMin < 0 <;> simp [hneg] <;> omega
  · have : offMin.natAbs % 60 = 0 := by simpa using hm
    simp only [hm, Bool.false_eq_true, if_false, Option.getD_none]
    by_cases hneg : offMin < 0 <;> simp [hneg] <;> omega

theorem canonOff_wf (offMin : Int) (name : Option Str) (hr : -720 ≤ offMin ∧ offMin ≤ 840)
    (hname : ∀ n, name = some n → '\n' ∉ n) : (canonOff offMin name).wf = true := by
  have hh : offMin.natAbs / 60 < 25 := by omega
  have hme := canonOff_minutesEast offMin name hh
  obtain ⟨h1, h2, _, _, _⟩ := natDigits_small _ hh
  unfold OffText.wf
  rw [hme]
  simp only [canonOff, Bool.and_eq_true, decide_eq_true_eq]
  refine ⟨⟨⟨⟨?_, h2⟩, ?_⟩, ?_⟩, hr.1, hr.2⟩
  · cases hd : natDigits (offMin.natAbs / 60) with
    | nil => exact absurd hd h1
    | cons a r => rfl
  · by_cases hm : (offMin.natAbs % 60 != 0) = true
    · simp only [hm, if_true, decide_eq_true_eq]; omega
    · simp [hm]
  · cases name with
    | none => rfl
    | some n => simpa using hname n rfl

theorem utcoffset_not (tz : Tz) (hr : -usPerDay < tz.offUs ∧ tz.offUs < usPerDay) :
    ¬ (tz.offUs ≤ -usPerDay ∨ tz.offUs ≥ usPerDay) := by omega

theorem utcoffset_some (tz : Tz) (hr : -usPerDay < tz.offUs ∧ tz.offUs < usPerDay) :
    utcoffset (some tz) = .ok (some tz.offUs) := by
  unfold utcoffset
  simp only []
  rw [if_neg (utcoffset_not tz hr)]

/-- (the discriminant `fromUs …` is generalised before rewriting: the kernel must never try to evaluate it) -/
theorem formatDatetime_eq (timeOnly : Bool) (f b : Fields) (tz : Tz)
    (hr : -usPerDay < tz.offUs ∧ tz.offUs < usPerDay)
    (hb : fromUs (toUs f.year f.month f.day f.hour f.minute f.second f.us + 500) = .ok b) :
    formatDatetime timeOnly f (some tz)
      = .ok ((if timeOnly then strftimeHMS b else strftimeYmdHMS b) ++ '.' :: pad3 (b.us / 1000)
              ++ '[' :: formatOffset tz.offUs tz.name ++ [']']) := by
  unfold formatDatetime
  generalize fromUs (toUs f.year f.month f.day f.hour f.minute f.second f.us + 500) = r at hb ⊢
  subst hb
  rw [utcoffset_some tz hr]
  rfl

/-! ### the executable recogniser `Spec.Instant.parse` is sound for `InNotation` -/

theorem dval_eq_digitVal (c : Char) : dval c = digitVal c := rfl

theorem takeNum2_inv (s r : Str) (v : Nat) (h : takeNum 2 0 s = some (v, r)) : s = d2 v ++ r := by
  match s, h with
  | a :: b :: r', h =>
    simp only [takeNum, dval_eq_digitVal] at h
    cases ha : digitVal a with
    | none => simp [ha] at h
    | some ka =>
      cases hb : digitVal b with
      | none => simp [ha, hb] at h
      | some kb =>
        simp only [ha, hb, Option.some.injEq, Prod.mk.injEq] at h
        obtain ⟨hv, hr⟩ := h
        subst hr
        have hn : natOfAscii [a, b] = some v := by
          simp only [natOfAscii, digitsVal, ha, hb]; rw [← hv]
        obtain ⟨_, e⟩ := natOfAscii2_inv a b v hn
        rw [← e]; rfl
  | [a], h => simp [takeNum] at h; cases hd : dval a <;> simp [hd] at h
  | [], h => simp [takeNum] at h

theorem natOfAscii3_inv (a b c : Char) (n : Nat) (h : natOfAscii [a, b, c] = some n) :
    n < 1000 ∧ [a, b, c] = d3 n := by
  simp only [natOfAscii, digitsVal] at h
  cases ha : digitVal a with
  | none => simp [ha] at h
  | some ka =>
    cases hb : digitVal b with
    | none => simp [ha, hb] at h
    | some kb =>
      cases hc : digitVal c with
      | none => simp [ha, hb, hc] at h
      | some kc =>
        simp only [ha, hb, hc, Option.some.injEq] at h
        obtain ⟨la, ea⟩ := digitVal_some a ka ha
        obtain ⟨lb, eb⟩ := digitVal_some b kb hb
        obtain ⟨lc, ec⟩ := digitVal_some c kc hc
        subst h
        refine ⟨by omega, ?_⟩
        rw [ea, eb, ec, d3]
        congr 1
        · exact dch_congr (by omega)
        · congr 1
          · exact dch_congr (by omega)
          · congr 1; exact dch_congr (by omega)

theorem takeNum3_inv (s r : Str) (v : Nat) (h : takeNum 3 0 s = some (v, r)) : s = d3 v ++ r := by
  match s, h with
  | a :: b :: c :: r', h =>
    simp only [takeNum, dval_eq_digitVal] at h
    cases ha : digitVal a with
    | none => simp [ha] at h
    | some ka =>
      cases hb : digitVal b with
      | none => simp [ha, hb] at h
      | some kb =>
        cases hc : digitVal c with
        | none => simp [ha, hb, hc] at h
        | some kc =>
          simp only [ha, hb, hc, Option.some.injEq, Prod.mk.injEq] at h
          obtain ⟨hv, hr⟩ := h
          subst hr
          have hn : natOfAscii [a, b, c] = some v := by
            simp only [natOfAscii, digitsVal, ha, hb, hc]; rw [← hv]
          obtain ⟨_, e⟩ := natOfAscii3_inv a b c v hn
          rw [← e]; rfl
  | [a, b], h =>
    simp [takeNum] at h
    cases hd : dval a <;> simp [hd] at h
    cases he : dval b <;> simp [he] at h
  | [a], h => simp [takeNum] at h; cases hd : dval a <;> simp [hd] at h
  | [], h => simp [takeNum] at h

theorem takeNum4_inv (s r : Str) (v : Nat) (h : takeNum 4 0 s = some (v, r)) : s = d4 v ++ r := by
  match s, h with
  | a :: b :: c :: d :: r', h =>
    simp only [takeNum, dval_eq_digitVal] at h
    cases ha : digitVal a with
    | none => simp [ha] at h
    | some ka =>
      cases hb : digitVal b with
      | none => simp [ha, hb] at h
      | some kb =>
        cases hc : digitVal c with
        | none => simp [ha, hb, hc] at h
        | some kc =>
          cases hd : digitVal d with
          | none => simp [ha, hb, hc, hd] at h
          | some kd =>
            simp only [ha, hb, hc, hd, Option.some.injEq, Prod.mk.injEq] at h
            obtain ⟨hv, hr⟩ := h
            subst hr
            have hn : natOfAscii [a, b, c, d] = some v := by
              simp only [natOfAscii, digitsVal, ha, hb, hc, hd]; rw [← hv]
            obtain ⟨_, e⟩ := natOfAscii4_inv a b c d v hn
            rw [← e]; rfl
  | [a, b, c], h =>
    simp [takeNum] at h
    cases hd : dval a <;> simp [hd] at h
    cases he : dval b <;> simp [he] at h
    cases hf : dval c <;> simp [hf] at h
  | [a, b], h =>
    simp [takeNum] at h
    cases hd : dval a <;> simp [hd] at h
    cases he : dval b <;> simp [he] at h
  | [a], h => simp [takeNum] at h; cases hd : dval a <;> simp [hd] at h
  | [], h => simp [takeNum] at h

theorem spanDigits_inv (t : Str) : t = ((spanDigits t).1.map dch) ++ (spanDigits t).2 := by
  induction t with
  | nil => rfl
  | cons c cs ih =>
    unfold spanDigits
    cases hd : dval c with
    | none => simp
    | some k =>
      simp only
      obtain ⟨_, e⟩ := digitVal_some c k hd
      rw [List.map_cons, List.cons_append, ← ih, ← e]

theorem takeMinutes_inv (t t' : Str) (m : Option Nat) (h : takeMinutes t = some (m, t')) :
    t = minutesText m ++ t' := by
  unfold takeMinutes at h
  split at h
  · rename_i r
    split at h
    · rename_i v r' hv
      simp only [Option.some.injEq, Prod.mk.injEq] at h
      obtain ⟨rfl, rfl⟩ := h
      rw [takeNum2_inv r r' v hv]; rfl
    · exact absurd h (by simp)
  · simp only [Option.some.injEq, Prod.mk.injEq] at h
    obtain ⟨rfl, rfl⟩ := h
    rfl

theorem takeMs_inv (t t' : Str) (m : Option Nat) (h : takeMs t = some (m, t')) :
    t = msText m ++ t' := by
  unfold takeMs at h
  split at h
  · rename_i r
    split at h
    · rename_i v r' hv
      simp only [Option.some.injEq, Prod.mk.injEq] at h
      obtain ⟨rfl, rfl⟩ := h
      rw [takeNum3_inv r r' v hv]; rfl
    · exact absurd h (by simp)
  · simp only [Option.some.injEq, Prod.mk.injEq] at h
    obtain ⟨rfl, rfl⟩ := h
    rfl

theorem offName_inv (sign : Option Bool) (ds : List Nat) (m : Option Nat) (t : Str) (o : OffText)
    (h : offName sign ds m t = some o) :
    o.sign = sign ∧ o.hdigits = ds ∧ o.minutes = m ∧ t = nameText o.name := by
  unfold offName at h
  split at h
  · injection h with h; subst h; exact ⟨rfl, rfl, rfl, rfl⟩
  · injection h with h; subst h; exact ⟨rfl, rfl, rfl, rfl⟩
  · exact absurd h (by simp)

theorem parseOffBody_inv (sign : Option Bool) (t : Str) (o : OffText) (h : parseOffBody sign t = some o) :
    o.sign = sign ∧ t = o.hdigits.map dch ++ (minutesText o.minutes ++ nameText o.name) := by
  unfold parseOffBody at h
  split at h
  · exact absurd h (by simp)
  · rename_i m t' hm
    obtain ⟨h1, h2, h3, h4⟩ := offName_inv _ _ _ _ _ h
    have := takeMinutes_inv _ _ _ hm
    refine ⟨h1, ?_⟩
    rw [h2, h3, ← h4, ← this]
    exact spanDigits_inv t

theorem parseOff_inv (b : Str) (o : OffText) (h : parseOff b = some o) : o.render = b := by
  rw [OffText.render_eq]
  unfold hoursText
  unfold parseOff at h
  split at h
  · obtain ⟨h1, h2⟩ := parseOffBody_inv _ _ _ h; rw [h1, h2]; rfl
  · obtain ⟨h1, h2⟩ := parseOffBody_inv _ _ _ h; rw [h1, h2]; rfl
  · obtain ⟨h1, h2⟩ := parseOffBody_inv _ _ _ h; rw [h1, h2]; rfl

theorem takeOff_inv (t : Str) (off : Option OffText) (h : takeOff t = some off) : t = offText off := by
  unfold takeOff at h
  split at h
  · injection h with h; subst h; rfl
  · rename_i r
    split at h
    · rename_i b hb
      rw [Option.map_eq_some_iff] at h
      obtain ⟨o, ho, rfl⟩ := h
      have := parseOff_inv _ _ ho
      have hr : r = b.reverse ++ [']'] := by
        have := congrArg List.reverse hb
        simpa using this
      rw [hr, ← this]; rfl
    · exact absurd h (by simp)
  · exact absurd h (by simp)

theorem parseTail_inv (t : Str) (ms : Option Nat) (off : Option OffText) (h : parseTail t = some (ms, off)) :
    t = msText ms ++ offText off := by
  unfold parseTail at h
  split at h
  · exact absurd h (by simp)
  · rename_i ms' t' hms
    rw [Option.map_eq_some_iff] at h
    obtain ⟨off', ho, hx⟩ := h
    simp only [Prod.mk.injEq] at hx
    obtain ⟨rfl, rfl⟩ := hx
    rw [takeMs_inv _ _ _ hms, takeOff_inv _ _ ho]

theorem parseTod_inv (t t' : Str) (h mi s : Nat) (hp : parseTod t = some ((h, mi, s), t')) :
    t = todText h mi s ++ t' := by
  unfold parseTod at hp
  simp only [bind, Option.bind] at hp
  split at hp
  · exact absurd hp (by simp)
  · rename_i x1 h1
    obtain ⟨a, r1⟩ := x1
    simp only at hp
    split at hp
    · exact absurd hp (by simp)
    · rename_i x2 h2
      obtain ⟨b, r2⟩ := x2
      simp only at hp
      split at hp
      · exact absurd hp (by simp)
      · rename_i x3 h3
        obtain ⟨c, r3⟩ := x3
        simp only [pure, Option.some.injEq, Prod.mk.injEq] at hp
        obtain ⟨⟨rfl, rfl, rfl⟩, rfl⟩ := hp
        rw [takeNum2_inv _ _ _ h1, takeNum2_inv _ _ _ h2, takeNum2_inv _ _ _ h3]
        simp [todText]

theorem render_time (h mi s : Nat) (ms : Option Nat) (off : Option OffText) :
    Parts.render ⟨none, some (h, mi, s), ms, off⟩ = todText h mi s ++ (msText ms ++ offText off) := by
  cases ms <;> cases off <;> simp [Parts.render, todText, msText, offText]

theorem render_full (y m d h mi s : Nat) (ms : Option Nat) (off : Option OffText) :
    Parts.render ⟨some (y, m, d), some (h, mi, s), ms, off⟩
      = dateText y m d ++ (todText h mi s ++ (msText ms ++ offText off)) := by
  cases ms <;> cases off <;> simp [Parts.render, dateText, todText, msText, offText]

theorem parseShape_inv (isTime : Bool) (s : Str) (p : Parts) (h : parseShape isTime s = some p) : p.render = s := by
  unfold parseShape at h
  cases isTime with
  | true =>
    simp only [if_true, bind, Option.bind] at h
    split at h
    · exact absurd h (by simp)
    · rename_i x1 h1
      obtain ⟨⟨hh, mi, sec⟩, t⟩ := x1
      simp only at h
      split at h
      · exact absurd h (by simp)
      · rename_i x2 h2
        obtain ⟨ms, off⟩ := x2
        simp only [pure, Option.some.injEq] at h
        subst h
        rw [render_time, parseTod_inv _ _ _ _ _ h1, parseTail_inv _ _ _ h2]
  | false =>
    simp only [Bool.false_eq_true, if_false, bind, Option.bind] at h
    split at h
    · exact absurd h (by simp)
    · rename_i x1 h1
      obtain ⟨y, t1⟩ := x1
      simp only at h
      split at h
      · exact absurd h (by simp)
      · rename_i x2 h2
        obtain ⟨m, t2⟩ := x2
        simp only at h
        split at h
        · exact absurd h (by simp)
        · rename_i x3 h3
          obtain ⟨d, t3⟩ := x3
          simp only at h
          have hs : s = dateText y m d ++ t3 := by
            rw [takeNum4_inv _ _ _ h1, takeNum2_inv _ _ _ h2, takeNum2_inv _ _ _ h3]
            simp [dateText]
          split at h
          · simp only [pure, Option.some.injEq] at h
            subst h
            rw [hs]; simp [Parts.render, dateText]
          · split at h
            · exact absurd h (by simp)
            · rename_i x4 h4
              obtain ⟨⟨hh, mi, sec⟩, t4⟩ := x4
              simp only at h
              split at h
              · exact absurd h (by simp)
              · rename_i x5 h5
                obtain ⟨ms, off⟩ := x5
                simp only [pure, Option.some.injEq] at h
                subst h
                rw [render_full, hs, parseTod_inv _ _ _ _ _ h4, parseTail_inv _ _ _ h5]

/-- the executable recogniser is sound for the declarative notation -/
theorem parse_sound (isTime : Bool) (s : Str) (p : Parts) (h : parse isTime s = some p) :
    p.wf isTime = true ∧ p.render = s := by
  unfold parse at h
  split at h
  · rename_i p' hp
    split at h
    · rename_i hw
      injection h with h; subst h
      exact ⟨hw, parseShape_inv _ _ _ hp⟩
    · exact absurd h (by simp)
  · exact absurd h (by simp)

theorem inNotationB_sound (isTime : Bool) (s : Str) (h : inNotationB isTime s = true) : InNotation isTime s := by
  unfold inNotationB at h
  cases hp : parse isTime s with
  | none => rw [hp] at h; simp at h
  | some p => exact ⟨p, parse_sound _ _ _ hp⟩
end Ofx.DateTime
