/-
From the decidable `WF.roundTripOk` (discharged for the generated schema by kernel evaluation in
`OfxProofs/Gen/WF.lean`) to the propositional `Agg.ClsWF` the round-trip theorem uses.
-/
import OfxModel.Ofx.WF
import OfxProofs.Lemmas.AggRound

namespace Ofx.WF
open Ofx Ofx.Agg

theorem enumRefOk_enumOk (enums : List (List Str)) : ∀ k, enumRefOk enums k = true → Kind.enumOk enums k = true
  | .oneOf e, h => by simpa [enumRefOk, Kind.enumOk] using h
  | .listElem k r, h => by
    simp only [enumRefOk] at h
    simp only [Kind.enumOk]
    exact enumRefOk_enumOk enums k h
  | .bool, _ => rfl
  | .string _ _, _ => rfl
  | .integer _, _ => rfl
  | .decimal _, _ => rfl
  | .datetime, _ => rfl
  | .time, _ => rfl
  | .sub _, _ => rfl
  | .listAgg _, _ => rfl
  | .unsupported, _ => rfl

theorem roundTripOk_clsWF (S : Schema) (c : Cls) (h : roundTripOk S c = true) : ClsWF S c := by
  simp only [roundTripOk, Bool.and_eq_true] at h
  obtain ⟨⟨⟨⟨hnd, henum⟩, hname⟩, hsub⟩, hlb⟩ := h
  refine ⟨by simpa [namesOf] using of_decide_eq_true hnd, ?_, ?_, ?_, ?_⟩
  · intro a ha
    have := (List.all_eq_true.mp hname) a ha
    simp only [Bool.and_eq_true, beq_iff_eq, Bool.not_eq_true', List.contains_eq_mem,
      decide_eq_false_iff_not] at this
    exact this
  · intro a ha t hk
    have := (List.all_eq_true.mp hsub) a ha
    have hst : subTargetOk S a t = true := by
      rcases hk with hk | hk <;> simpa [hk] using this
    unfold subTargetOk at hst
    cases hc : S.cls? t with
    | none => simp [hc] at hst
    | some tc =>
      simp only [hc, Bool.and_eq_true, beq_iff_eq, Bool.not_eq_true', List.contains_eq_mem,
        decide_eq_false_iff_not] at hst
      exact ⟨tc, rfl, hst.1.1, hst.1.2, hst.2⟩
  · intro a ha
    have := (List.all_eq_true.mp henum) a ha
    exact enumRefOk_enumOk S.enums a.kind this
  · intro i j q ai aj aq hi hil hij hj hjl hju hq hql
    have hjn : j < c.spec.length := by
      rcases Nat.lt_or_ge j c.spec.length with h | h
      · exact h
      · rw [List.getElem?_eq_none h] at hj; simp at hj
    have hqn : q < c.spec.length := by
      rcases Nat.lt_or_ge q c.spec.length with h | h
      · exact h
      · rw [List.getElem?_eq_none h] at hq; simp at hq
    have hJ := (List.all_eq_true.mp hlb) j (by simpa using hjn)
    have he : emitAt c j = true := by simp [emitAt, hj, hjl, hju]
    have hany : (List.range j).any (isListAt c) = true := by
      rw [List.any_eq_true]; exact ⟨i, by simpa using hij, by simp [isListAt, hi, hil]⟩
    simp only [he, hany, Bool.not_true, Bool.false_or] at hJ
    have := (List.all_eq_true.mp hJ) q (by simpa using hqn)
    simpa [isListAt, hq, hql] using this

end Ofx.WF
