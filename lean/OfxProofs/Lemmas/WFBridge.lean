/-
From the decidable `WF.roundTripOk` (discharged for the generated schema by kernel evaluation in
`OfxProofs/Gen/WF.lean`) to the propositional `Agg.ClsWF` the round-trip theorem uses.
-/
import OfxModel.Ofx.WF
import OfxProofs.Lemmas.Groom

namespace Ofx.WF
open Ofx Ofx.Agg

theorem enumRefOk_enumOk (enums : List (List Str)) : ∀ k, enumRefOk enums k = true → Kind.enumOk enums k = true
  | .oneOf e, h => by simpa [enumRefOk, Kind.enumOk] using h
  | .listElem k r, h => by
    simp only [enumRefOk] at h
    simp only [Kind.enumOk]
    exact enumRefOk_enumOk enums k h
  | .bool, _ => rfl
  | .string _ _, _ => rfl
  | .integer _, _ => rfl
  | .decimal _, _ => rfl
  | .datetime, _ => rfl
  | .time, _ => rfl
  | .sub _, _ => rfl
  | .listAgg _, _ => rfl
  | .unsupported, _ => rfl

theorem roundTripOk_clsWF (S : Schema) (c : Cls) (h : roundTripOk S c = true) : ClsWF S c := by
  simp only [roundTripOk, Bool.and_eq_true] at h
  obtain ⟨⟨⟨⟨⟨hels, hnd⟩, henum⟩, hname⟩, hsub⟩, hlb⟩ := h
  refine ⟨by simpa [namesOf] using of_decide_eq_true hnd, ?_, ?_, ?_, ?_, ?_⟩
  · intro a ha
    have := (List.all_eq_true.mp hname) a ha
    simp only [Bool.and_eq_true, beq_iff_eq, Bool.not_eq_true', List.contains_eq_mem,
      decide_eq_false_iff_not] at this
    exact this
  · intro a ha t hk
    have := (List.all_eq_true.mp hsub) a ha
    have hst : subTargetOk S a t = true := by
      rcases hk with hk | hk <;> simpa [hk] using this
    unfold subTargetOk at hst
    cases hc : S.cls? t with
    | none => simp [hc] at hst
    | some tc =>
      simp only [hc, Bool.and_eq_true, beq_iff_eq, Bool.not_eq_true', List.contains_eq_mem,
        decide_eq_false_iff_not] at hst
      exact ⟨tc, rfl, hst.1.1, hst.1.2, hst.2⟩
  · intro a ha
    have := (List.all_eq_true.mp henum) a ha
    exact enumRefOk_enumOk S.enums a.kind this
  · intro i j q ai aj aq hi hil hij hj hjl hju hq hql
    have hjn : j < c.spec.length := by
      rcases Nat.lt_or_ge j c.spec.length with h | h
      · exact h
      · rw [List.getElem?_eq_none h] at hj; simp at hj
    have hqn : q < c.spec.length := by
      rcases Nat.lt_or_ge q c.spec.length with h | h
      · exact h
      · rw [List.getElem?_eq_none h] at hq; simp at hq
    have hJ := (List.all_eq_true.mp hlb) j (by simpa using hjn)
    have he : emitAt c j = true := by simp [emitAt, hj, hjl, hju]
    have hany : (List.range j).any (isListAt c) = true := by
      rw [List.any_eq_true]; exact ⟨i, by simpa using hij, by simp [isListAt, hi, hil]⟩
    simp only [he, hany, Bool.not_true, Bool.false_or] at hJ
    have := (List.all_eq_true.mp hJ) q (by simpa using hqn)
    simpa [isListAt, hq, hql] using this
  · intro hel
    rw [hel] at hels
    simp only [Bool.not_true, Bool.false_or, elShapeOk, Bool.and_eq_true] at hels
    obtain ⟨hshape, hall⟩ := hels
    cases hf : c.spec.filter (fun a => a.kind.isListElem) with
    | nil => simp [hf] at hshape
    | cons a rest =>
      cases rest with
      | cons b r => simp [hf] at hshape
      | nil =>
        cases hk : a.kind with
        | listElem inner ireq =>
          refine ⟨a, inner, ireq, rfl, hk, ?_⟩
          intro b hb hbl
          have hb2 := (List.all_eq_true.mp hall) b hb
          simp only [hbl, Bool.not_true, Bool.false_or] at hb2
          have : b ∈ c.spec.filter (fun a => a.kind.isListElem) := List.mem_filter.mpr ⟨hb, hb2⟩
          rw [hf] at this
          simpa using this
        | _ => simp [hf, hk] at hshape

theorem groomOkB_groomOk (c : Cls) (h : groomOkB c = true) : GroomOk c := by
  unfold groomOkB at h
  cases hg : c.groom with
  | none =>
    cases hu : c.ungroom with
    | none => exact Or.inl ⟨hg, hu⟩
    | some u => rw [hg, hu] at h; cases h
  | some r =>
    cases hu : c.ungroom with
    | none => rw [hg, hu] at h; cases h
    | some u =>
      rw [hg, hu] at h
      simp only [Bool.and_eq_true, beq_iff_eq, Bool.not_eq_true', List.any_eq_true] at h
      obtain ⟨⟨⟨⟨h1, h2⟩, h3⟩, h4⟩, a, ha, hprop⟩ := h
      obtain ⟨⟨hn, hl⟩, hs⟩ := hprop
      refine Or.inr ⟨r, u, hg, hu, h1, h2, by simpa using h3, by simpa using h4, a, ha, hn, hl, ?_⟩
      cases hk : a.kind <;> simp_all [Kind.subTarget]

end Ofx.WF
