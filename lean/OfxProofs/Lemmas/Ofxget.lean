/-
Helper lemmas for the ofxget layer (C18, C19).
-/
import OfxModel.Ofx.Ofxget
import OfxModel.Spec.Ofxget

namespace Ofx.Ofxget
open Ofx Ofx.Spec.Ofxget

/-! ### well-formedness of the generated tables (checked by `decide +kernel` in `Gen/Ofxget.lean`) -/

def typeOfVal : CfgVal → Option CfgTy
  | .str _ => some .str
  | .int _ => some .int
  | .bool _ => some .bool
  | .list _ => some .list
  | .null => none

/-- what the hand model assumes of `DEFAULTS` / `CONFIGURABLE` / the argparse defaults -/
def Tables.WF (T : Tables) : Bool :=
  -- the password is not persistable
  !(T.configurable.map (·.1)).contains "password".toList
  -- CONFIGURABLE keys are what `optionxform` makes of them
  && T.configurable.all (fun kt => lower kt.1 == kt.1)
  -- every CONFIGURABLE option has a default, of the recorded type
  && T.configurable.all (fun kt => (T.defaults.lookup kt.1).bind typeOfVal == some kt.2)
  -- no OFX Home lookup unless somebody names an id
  && T.defaults.lookup "ofxhome".toList == some (.str [])
  -- an option not typed on the command line is `None` in the namespace (so lower-ranking places can set it)
  && T.argDefaults.all (fun cmd => cmd.2.all fun kv =>
        kv.1 == "verbose".toList || kv.1 == "request".toList || kv.2 == .null)
  && T.defaultSection == defaultSect

/-! ### ChainMap -/

theorem firstSetter_eq_get? (maps : List Map) (k : Name) : firstSetter maps k = Chain.get? maps k := by
  induction maps with
  | nil => rfl
  | cons m ms ih =>
    simp only [firstSetter, Chain.get?, List.findSome?]
    cases h : List.lookup k m with
    | none => simpa [Chain.get?] using ih
    | some v => rfl

theorem firstSetter_some_iff (ranked : List Map) (k : Name) (v : CfgVal) :
    firstSetter ranked k = some v ↔ IsFirstSetter ranked k v := by
  induction ranked with
  | nil =>
    simp only [firstSetter, IsFirstSetter]
    constructor
    · intro h; cases h
    · rintro ⟨pre, m, post, h, _⟩
      cases pre <;> simp at h
  | cons m ms ih =>
    simp only [firstSetter]
    cases hm : List.lookup k m with
    | some w =>
      constructor
      · intro h
        exact ⟨[], m, ms, rfl, by simp, by simpa [hm] using h⟩
      · rintro ⟨pre, m', post, heq, hpre, hm'⟩
        cases pre with
        | nil =>
          simp only [List.nil_append, List.cons.injEq] at heq
          rw [← heq.1, hm] at hm'
          exact hm'
        | cons p ps =>
          simp only [List.cons_append, List.cons.injEq] at heq
          have := hpre p (by simp)
          rw [← heq.1, hm] at this
          cases this
    | none =>
      rw [ih]
      constructor
      · rintro ⟨pre, m', post, heq, hpre, hm'⟩
        refine ⟨m :: pre, m', post, by simp [heq], ?_, hm'⟩
        intro p hp
        rcases List.mem_cons.mp hp with rfl | hp
        · exact hm
        · exact hpre p hp
      · rintro ⟨pre, m', post, heq, hpre, hm'⟩
        cases pre with
        | nil =>
          simp only [List.nil_append, List.cons.injEq] at heq
          rw [← heq.1, hm] at hm'
          cases hm'
        | cons p ps =>
          simp only [List.cons_append, List.cons.injEq] at heq
          exact ⟨ps, m', post, heq.2, fun q hq => hpre q (by simp [hq]), hm'⟩

theorem firstSetter_none_iff (ranked : List Map) (k : Name) :
    firstSetter ranked k = none ↔ NoSetter ranked k := by
  induction ranked with
  | nil => simp [firstSetter, NoSetter]
  | cons m ms ih =>
    simp only [firstSetter, NoSetter, List.mem_cons, forall_eq_or_imp]
    cases hm : List.lookup k m with
    | some w => simp
    | none => simpa [NoSetter] using ih

/-- `maps.insert(-1, x)` on the three maps of `merge_config` puts `x` just before the defaults -/
theorem pyInsert_before_last (a b c x : α) : pyInsert [a, b, c] (-1) x = [a, b, x, c] := by
  simp [pyInsert]

/-- `maps.insert(1, x)` puts `x` right after the command line -/
theorem pyInsert_one (a : α) (rest : List α) (x : α) : pyInsert (a :: rest) 1 x = a :: x :: rest := by
  have h : ¬ ((rest.length : Int) + 1 < 1) := by omega
  simp [pyInsert, h]

/-! ### dict assignment -/

theorem lookup_mapSet {β : Type} (k k' : Name) (v : β) (m : List (Name × β)) :
    (mapSet k v m).lookup k' = if k' = k then some v else m.lookup k' := by
  induction m with
  | nil =>
    simp only [mapSet, List.lookup_cons, List.lookup_nil]
    by_cases h : k' = k
    · simp [h]
    · have hb : (k' == k) = false := by simpa using h
      simp [h, hb]
  | cons kv rest ih =>
    obtain ⟨a, b⟩ := kv
    simp only [mapSet]
    by_cases hak : (a == k) = true
    · have hak' : a = k := by simpa using hak
      subst hak'
      simp only [hak, if_true, List.lookup_cons]
      by_cases h : k' = a
      · simp [h]
      · have hb : (k' == a) = false := by simpa using h
        simp [h, hb]
    · have hak' : ¬ a = k := by simpa using hak
      have hakf : (a == k) = false := by simpa using hak'
      simp only [hakf, Bool.false_eq_true, if_false, List.lookup_cons, ih]
      by_cases h2 : k' = a
      · have h3 : ¬ k' = k := by rw [h2]; exact hak'
        simp [h2, h3, hak']
      · have hb : (k' == a) = false := by simpa using h2
        simp [hb]

theorem get?_set (m : Map) (ms : List Map) (k k' : Name) (v : CfgVal) :
    Chain.get? (Chain.set (m :: ms) k v) k' = if k' = k then some v else Chain.get? (m :: ms) k' := by
  simp only [Chain.set, Chain.get?, List.findSome?, lookup_mapSet]
  by_cases h : k' = k <;> simp [h]

/-! ### merge_config -/

/-- the OFX Home source: the record found under the id in effect before OFX Home is consulted -/
def ohSource (lookup : Str → Option OhRec) (three : Chain) : Map :=
  match three.get? "ofxhome".toList with
  | some (.str s) => if s.isEmpty then [] else (match lookup s with | some r => r.toMap | none => [])
  | _ => []

theorem get?_skip_empty (a b d : Map) (k : Name) :
    Chain.get? [a, b, [], d] k = Chain.get? [a, b, d] k := by
  simp [Chain.get?, List.findSome?, List.lookup]

/-- `merge_from_ofxhome` either leaves the three maps alone or puts the record before the defaults -/
theorem mergeFromOfxhome_get? (lookup : Str → Option OhRec) (a b d : Map) (c : Chain)
    (h : mergeFromOfxhome lookup [a, b, d] = .ok c) (k : Name) :
    c.get? k = Chain.get? [a, b, ohSource lookup [a, b, d], d] k := by
  unfold mergeFromOfxhome at h
  unfold ohSource
  generalize "ofxhome".toList = key at h ⊢
  simp only [Chain.getItem, bind, Except.bind] at h
  cases hid : Chain.get? [a, b, d] key with
  | none => rw [hid] at h; cases h
  | some id =>
    rw [hid] at h
    simp only at h
    cases id with
    | str s =>
      by_cases hs : s.isEmpty = true
      · simp [truthy, hs, pure, Except.pure] at h
        subst h
        simp [hs, get?_skip_empty]
      · simp only [truthy, hs, Bool.not_false, if_true] at h
        cases hl : lookup s with
        | none =>
          simp [hl, pure, Except.pure] at h
          subst h
          simp [hs, hl, get?_skip_empty]
        | some r =>
          simp [hl, pure, Except.pure, pyInsert_before_last] at h
          subst h
          simp [hs, hl]
    | null =>
      simp [truthy, pure, Except.pure] at h
      subst h
      simp [get?_skip_empty]
    | int i =>
      by_cases hi : i = 0
      · simp [truthy, hi, pure, Except.pure] at h
        subst h
        simp [get?_skip_empty]
      · simp [truthy, hi, pure, Except.pure] at h
        subst h
        simp [get?_skip_empty]
    | bool bb =>
      cases bb <;> simp [truthy, pure, Except.pure] at h <;> subst h <;> simp [get?_skip_empty]
    | list l =>
      cases l <;> simp [truthy, pure, Except.pure] at h <;> subst h <;> simp [get?_skip_empty]

/-- when `merge_config` does not even try OFX Home, no id is in effect (given `DEFAULTS["ofxhome"] == ""`) -/
theorem ohSource_empty_of_not_wanted (T : Tables) (hwf : T.WF = true) (lookup : Str → Option OhRec)
    (args userCfg : Map) (h : wantsOfxhome args userCfg [args, userCfg, T.defaults] = .ok false) :
    ohSource lookup [args, userCfg, T.defaults] = [] := by
  have hd : T.defaults.lookup "ofxhome".toList = some (.str []) := by
    simp only [Tables.WF, Bool.and_eq_true] at hwf
    have := hwf.1.1.2
    exact eq_of_beq this
  unfold wantsOfxhome at h
  unfold ohSource
  generalize "ofxhome".toList = key at h hd ⊢
  cases ha : List.lookup key args with
  | some v => rw [ha] at h; simp [pure, Except.pure] at h
  | none =>
    cases hu : List.lookup key userCfg with
    | some v => rw [ha, hu] at h; simp [pure, Except.pure] at h
    | none => simp [Chain.get?, List.findSome?, ha, hu, hd]

/-- what the "sloppy CLI" tail does to the command-line map: a URL given as the server positional -/
def sloppy (args : Map) (server : Str) : Map :=
  mapSet "server".toList .null (mapSet "url".toList (.str server) args)

theorem finishMerge_get? (T : Tables) (args : Map) (rest : List Map) (c : Chain)
    (h : finishMerge T args (args :: rest) = .ok c) :
    c = args :: rest ∨ ∃ server, args.lookup "server".toList = some (.str server) ∧ c = sloppy args server :: rest := by
  unfold finishMerge at h
  simp only at h
  split at h
  · left; simpa [pure, Except.pure] using h.symm
  · split at h
    · simp only [bind, Except.bind] at h
      split at h
      · cases h
      · split at h
        · split at h <;> cases h
        · cases h
    · rename_i server hsrv
      split at h
      · right
        refine ⟨server, hsrv, ?_⟩
        simp [pure, Except.pure, Chain.set, sloppy] at h
        exact h.symm
      · cases h
    · cases h

/-- **ChainMap precedence of `merge_config`**: the value in effect is what the first of
    [command line, configuration files, OFX Home, defaults] that sets the option says -/
theorem mergeConfig_effective (T : Tables) (hwf : T.WF = true) (lookup : Str → Option OhRec) (ns : Map) (cfg : Ini)
    (c : Chain) (h : mergeConfig T lookup ns cfg = .ok c) :
    ∃ cli userCfg, userCfgOf T cfg (extractns ns) = .ok userCfg ∧
      (cli = extractns ns ∨ ∃ server, (extractns ns).lookup "server".toList = some (.str server) ∧
          cli = sloppy (extractns ns) server) ∧
      ∀ k, effective c k =
        firstSetter [cli, userCfg, ohSource lookup [extractns ns, userCfg, T.defaults], T.defaults] k := by
  unfold mergeConfig at h
  simp only [bind, Except.bind] at h
  cases hu : userCfgOf T cfg (extractns ns) with
  | error e => simp [hu] at h
  | ok userCfg =>
    simp only [hu] at h
    cases hw : wantsOfxhome (extractns ns) userCfg [extractns ns, userCfg, T.defaults] with
    | error e => simp [hw] at h
    | ok go =>
      simp only [hw] at h
      cases go with
      | false =>
        simp only [Bool.false_eq_true, if_false, pure, Except.pure] at h
        have hoh := ohSource_empty_of_not_wanted T hwf lookup _ _ hw
        rcases finishMerge_get? T _ _ c h with hc | ⟨server, hs, hc⟩
        · refine ⟨extractns ns, userCfg, rfl, Or.inl rfl, ?_⟩
          intro k
          rw [firstSetter_eq_get?, hoh, hc, effective, get?_skip_empty]
        · refine ⟨_, userCfg, rfl, Or.inr ⟨server, hs, rfl⟩, ?_⟩
          intro k
          rw [firstSetter_eq_get?, hoh, hc, effective, get?_skip_empty]
      | true =>
        simp only [if_true] at h
        cases hm : mergeFromOfxhome lookup [extractns ns, userCfg, T.defaults] with
        | error e => simp [hm] at h
        | ok merged =>
          simp only [hm] at h
          have hg := mergeFromOfxhome_get? lookup _ _ _ merged hm
          -- the first map of `merged` is still the command line
          have hshape : ∃ rest, merged = extractns ns :: rest := by
            unfold mergeFromOfxhome at hm
            simp only [bind, Except.bind] at hm
            split at hm
            · cases hm
            · split at hm
              · split at hm
                · split at hm
                  · simp [pure, Except.pure, pyInsert_before_last] at hm
                    exact ⟨_, hm.symm⟩
                  · simp [pure, Except.pure] at hm
                    exact ⟨_, hm.symm⟩
                · simp [pure, Except.pure] at hm
                  exact ⟨_, hm.symm⟩
              · simp [pure, Except.pure] at hm
                exact ⟨_, hm.symm⟩
          obtain ⟨rest, hrest⟩ := hshape
          rw [hrest] at h
          rcases finishMerge_get? T _ _ c h with hc | ⟨server, hs, hc⟩
          · refine ⟨extractns ns, userCfg, rfl, Or.inl rfl, ?_⟩
            intro k
            rw [firstSetter_eq_get?, hc, effective, ← hrest, hg]
          · refine ⟨_, userCfg, rfl, Or.inr ⟨server, hs, rfl⟩, ?_⟩
            intro k
            rw [firstSetter_eq_get?, hc, effective]
            have h1 := hg k
            rw [hrest] at h1
            -- both sides: look in the (modified) command line first, then in the same tail
            simp only [Chain.get?, List.findSome?] at h1 ⊢
            simp only [sloppy, lookup_mapSet]
            by_cases hk1 : k = "server".toList
            · simp [hk1]
            · by_cases hk2 : k = "url".toList
              · simp [hk1, hk2]
              · simp only [hk1, hk2, if_false]
                cases hl : List.lookup k (extractns ns) with
                | some v => rfl
                | none => simpa [hl] using h1

end Ofx.Ofxget
