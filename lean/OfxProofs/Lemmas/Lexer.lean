/-
Scanner lemmas for `Ofx.Lexer`, in the normal form of DESIGN 3.4:
`scan (prefix ++ rest) = (prefix, rest)` given `∀ x ∈ prefix, p x` and `rest` empty or starting with a
character that fails `p`.
-/
import OfxModel.Ofx.Lexer
import OfxModel.Spec.Renders

namespace Ofx.Lexer
open Ofx Ofx.Spec

/-- the rest is empty or starts with a character failing `p` -/
def Stops (p : Char → Bool) (rest : Str) : Prop := ∀ c r, rest = c :: r → p c = false

theorem stops_nil (p : Char → Bool) : Stops p [] := by intro c r h; cases h
theorem stops_cons {p : Char → Bool} {c : Char} (r : Str) (h : p c = false) : Stops p (c :: r) := by
  intro c' r' h'; cases h'; exact h

theorem takeWhile_run (p : Char → Bool) (pre rest : Str) (hp : ∀ x ∈ pre, p x = true) (hs : Stops p rest) :
    (pre ++ rest).takeWhile p = pre := by
  induction pre with
  | nil =>
    cases rest with
    | nil => rfl
    | cons c r => simp [hs c r rfl]
  | cons a as ih =>
    have ha : p a = true := hp a (by simp)
    simp only [List.cons_append, List.takeWhile, ha]
    rw [ih (fun x hx => hp x (by simp [hx]))]

theorem dropWhile_run (p : Char → Bool) (pre rest : Str) (hp : ∀ x ∈ pre, p x = true) (hs : Stops p rest) :
    (pre ++ rest).dropWhile p = rest := by
  induction pre with
  | nil =>
    cases rest with
    | nil => rfl
    | cons c r => simp [hs c r rfl]
  | cons a as ih =>
    have ha : p a = true := hp a (by simp)
    simp only [List.cons_append, List.dropWhile, ha]
    exact ih (fun x hx => hp x (by simp [hx]))

theorem dropPrefix_append (p r : Str) : dropPrefix p (p ++ r) = some r := by
  induction p with
  | nil => cases r <;> rfl
  | cons a as ih => simp [dropPrefix, ih]

theorem dropPrefix_nil_right (p : Str) (h : p ≠ []) : dropPrefix p [] = none := by
  cases p with
  | nil => exact absurd rfl h
  | cons a as => rfl

theorem dropPrefix_cons_ne (a c : Char) (as cs : Str) (h : a ≠ c) : dropPrefix (a :: as) (c :: cs) = none := by
  simp [dropPrefix, h]

theorem dropPrefix_cons_eq (a : Char) (as cs : Str) : dropPrefix (a :: as) (a :: cs) = dropPrefix as cs := by
  simp [dropPrefix]

/-! ### character facts -/

theorem isTagChar_of_name {c : Char} (h : isNameChar c = true) : isTagChar c = true := by
  simp [isTagChar, h]

theorem name_ne_slash {c : Char} (h : isNameChar c = true) : c ≠ '/' := by
  intro e; subst e; revert h; decide
theorem name_ne_gt {c : Char} (h : isNameChar c = true) : c ≠ '>' := by
  intro e; subst e; revert h; decide
theorem name_ne_bang {c : Char} (h : isNameChar c = true) : c ≠ '!' := by
  intro e; subst e; revert h; decide
theorem space_ne_lt {c : Char} (h : isSpace c = true) : c ≠ '<' := by
  intro e; subst e; revert h; decide
theorem space_notLt {c : Char} (h : isSpace c = true) : notLt c = true := by
  simp [notLt, space_ne_lt h]
theorem tagChar_gt : isTagChar '>' = false := by decide
theorem tagChar_slash : isTagChar '/' = true := by decide
theorem notLt_lt : notLt '<' = false := by decide

theorem optStr_eq_none (x : Str) : optStr x = none ↔ x = [] := by
  cases x <;> simp [optStr]

theorem optLen_optStr (x : Str) : optLen (optStr x) = x.length := by
  cases x <;> simp [optStr, optLen]

/-! ### `finditer` stepping -/

theorem toksGo_skip (a rest : Str) : toksGo a.length (a ++ rest) = toksGo 0 rest := by
  induction a with
  | nil => rfl
  | cons c cs ih => simpa [toksGo] using ih

/-- a match at the front of the input is emitted and scanning resumes after it -/
theorem toksGo_match (tok rest : Str) (m : Match) (hne : tok ≠ [])
    (hm : matchHere (tok ++ rest) = some m) (hl : m.len = tok.length) :
    toksGo 0 (tok ++ rest) = m :: toksGo 0 rest := by
  cases tok with
  | nil => exact absurd rfl hne
  | cons c cs =>
    simp only [List.cons_append] at hm ⊢
    simp only [toksGo, hm]
    have : m.len - 1 = cs.length := by simp [hl]
    rw [this, toksGo_skip]

theorem matchHere_ne_lt (c : Char) (cs : Str) (h : c ≠ '<') : matchHere (c :: cs) = none := by
  unfold matchHere
  split
  · rename_i r heq; cases heq; exact absurd rfl h
  · rfl

/-- characters other than `<` before the next token are skipped silently -/
theorem toksGo_skip_notLt (w rest : Str) (hw : ∀ c ∈ w, notLt c = true) : toksGo 0 (w ++ rest) = toksGo 0 rest := by
  induction w with
  | nil => rfl
  | cons c cs ih =>
    have hc : c ≠ '<' := by
      have := hw c (by simp); simpa [notLt] using this
    simp only [List.cons_append, toksGo, matchHere_ne_lt c _ hc]
    exact ih (fun x hx => hw x (by simp [hx]))


/-! ### the groups of the regex, one lemma each -/

theorem scanBody_plain (x rest : Str) (hx : ∀ c ∈ x, notLt c = true) (hrest : Stops notLt rest)
    (hcd : dropPrefix cdataOpen (x ++ rest) = none) :
    scanBody (x ++ rest) = (none, optStr x, rest) := by
  simp only [scanBody, hcd, Option.bind_none, takeWhile_run notLt x rest hx hrest, dropWhile_run notLt x rest hx hrest]

theorem scanClose_none (tg r : Str) (h : dropPrefix (endTag tg) r = none) : scanClose tg r = (none, r) := by
  simp only [endTag] at h
  simp only [scanClose, h]

theorem scanClose_some (tg r : Str) : scanClose tg (endTag tg ++ r) = (some tg, r) := by
  have := dropPrefix_append (endTag tg) r
  simp only [endTag] at this ⊢
  simp only [scanClose, this]

theorem scanTail_run (w rest : Str) (hw : ∀ c ∈ w, notLt c = true) (hrest : Stops notLt rest) :
    scanTail (w ++ rest) = optStr w := by
  simp only [scanTail, takeWhile_run notLt w rest hw hrest]

theorem scanTail_stop (rest : Str) (hrest : Stops notLt rest) : scanTail rest = none := by
  have := scanTail_run [] rest (by simp) hrest
  simpa [optStr] using this

/-- the frame of `matchHere`: tag recognised, the three group scanners applied to what follows `>` -/
theorem matchHere_tag (tg r2 : Str) (htg : tg ≠ []) (htc : ∀ c ∈ tg, isTagChar c = true) :
    matchHere (startTag tg ++ r2) =
      some { tag := tg, cdata := (scanBody r2).1, text := (scanBody r2).2.1,
             closetag := (scanClose tg (scanBody r2).2.2).1,
             tail := scanTail (scanClose tg (scanBody r2).2.2).2,
             len := 2 + tg.length + (r2.length - (scanClose tg (scanBody r2).2.2).2.length)
                      + optLen (scanTail (scanClose tg (scanBody r2).2.2).2) } := by
  have hst : Stops isTagChar ('>' :: r2) := stops_cons r2 tagChar_gt
  have e : startTag tg ++ r2 = '<' :: (tg ++ '>' :: r2) := by simp [startTag]
  rw [e]
  unfold matchHere
  simp only [takeWhile_run isTagChar tg _ htc hst, dropWhile_run isTagChar tg _ htc hst]
  cases tg with
  | nil => exact absurd rfl htg
  | cons t ts => rfl

/-- `<tag>` followed by characters other than `<` and then by something that is neither the matching end tag
    nor a CDATA section: start tags of aggregates, SGML-style data elements, end tags (`tag = /NAME`) -/
theorem matchHere_open (tg x rest : Str) (htg : tg ≠ []) (htc : ∀ c ∈ tg, isTagChar c = true)
    (hx : ∀ c ∈ x, notLt c = true) (hrest : Stops notLt rest)
    (hcd : dropPrefix cdataOpen (x ++ rest) = none)
    (hcl : dropPrefix (endTag tg) rest = none) :
    matchHere (startTag tg ++ (x ++ rest)) =
      some { tag := tg, cdata := none, text := optStr x, closetag := none, tail := none,
             len := (startTag tg ++ x).length } := by
  rw [matchHere_tag tg _ htg htc, scanBody_plain x rest hx hrest hcd]
  simp only [scanClose_none tg rest hcl, scanTail_stop rest hrest]
  simp [optLen, startTag]; omega

/-- `<tag>` text? `</tag>` tail? -/
theorem matchHere_closed (tg x w rest : Str) (htg : tg ≠ []) (htc : ∀ c ∈ tg, isTagChar c = true)
    (hx : ∀ c ∈ x, notLt c = true) (hw : ∀ c ∈ w, notLt c = true) (hrest : Stops notLt rest) :
    matchHere (startTag tg ++ (x ++ (endTag tg ++ (w ++ rest)))) =
      some { tag := tg, cdata := none, text := optStr x, closetag := some tg, tail := optStr w,
             len := (startTag tg ++ (x ++ (endTag tg ++ w))).length } := by
  have hst : Stops notLt (endTag tg ++ (w ++ rest)) := by
    simp only [endTag, List.cons_append]; exact stops_cons _ notLt_lt
  have hcd : dropPrefix cdataOpen (x ++ (endTag tg ++ (w ++ rest))) = none := by
    cases x with
    | nil => simp [endTag, cdataOpen, dropPrefix]
    | cons c cs =>
      have : c ≠ '<' := by have := hx c (by simp); simpa [notLt] using this
      simp [cdataOpen, dropPrefix, Ne.symm this]
  rw [matchHere_tag tg _ htg htc, scanBody_plain x _ hx hst hcd]
  simp only [scanClose_some, scanTail_run w rest hw hrest, optLen_optStr]
  simp [startTag, endTag]; omega


/-! ### CDATA: lazy `.+?` up to the first `]]>` of the line -/

theorem takeWhile_append_all (p : Char → Bool) (a b : Str) (ha : ∀ x ∈ a, p x = true) :
    (a ++ b).takeWhile p = a ++ b.takeWhile p := by
  induction a with
  | nil => rfl
  | cons c cs ih =>
    have hc : p c = true := ha c (by simp)
    simp only [List.cons_append, List.takeWhile, hc]
    rw [ih (fun x hx => ha x (by simp [hx]))]

/-- no occurrence of `]]>` straddles the end of data that itself contains none -/
theorem isPrefixOf_close_append (x L : Str) (hne : x ≠ []) (h : cdataClose.isPrefixOf x = false) :
    cdataClose.isPrefixOf (x ++ (cdataClose ++ L)) = false := by
  match x, hne, h with
  | [a], _, _ => simp [cdataClose, List.isPrefixOf]
  | [a, b], _, _ => simp [cdataClose, List.isPrefixOf]
  | a :: b :: c :: r, _, h =>
    simp only [cdataClose, List.cons_append, List.isPrefixOf] at h ⊢
    simpa using h

theorem findFirstClose_run (d L : Str) (h : containsSub cdataClose d = false) :
    findFirstClose (d ++ (cdataClose ++ L)) = some d.length := by
  induction d with
  | nil => simp [findFirstClose, cdataClose, List.isPrefixOf]
  | cons c cs ih =>
    simp only [containsSub, Bool.or_eq_false_iff] at h
    have hp := isPrefixOf_close_append (c :: cs) L (by simp) h.1
    simp only [List.cons_append] at hp ⊢
    simp only [findFirstClose, hp, Bool.false_eq_true, if_false, ih h.2, List.length_cons]

theorem containsSub_tail (sub : Str) (c : Char) (cs : Str) (h : containsSub sub (c :: cs) = false) :
    containsSub sub cs = false := by
  simp only [containsSub, Bool.or_eq_false_iff] at h
  exact h.2

/-- `(?P<cdata>.+?)\]\]>`: data free of `]]>` and of line breaks is read back exactly, whatever follows -/
theorem scanCdata_run (d post : Str) (hd : d ≠ []) (hnl : ∀ c ∈ d, notNl c = true)
    (hcl : containsSub cdataClose d = false) :
    scanCdata (d ++ (cdataClose ++ post)) = some (d, post) := by
  cases d with
  | nil => exact absurd rfl hd
  | cons c0 d' =>
    have hline : ((c0 :: d') ++ (cdataClose ++ post)).takeWhile notNl
        = c0 :: (d' ++ (cdataClose ++ post.takeWhile notNl)) := by
      rw [takeWhile_append_all notNl _ _ hnl, takeWhile_append_all notNl cdataClose post (by decide)]
      rfl
    have hf : findFirstClose (d' ++ (cdataClose ++ post.takeWhile notNl)) = some d'.length :=
      findFirstClose_run d' _ (containsSub_tail _ c0 d' hcl)
    unfold scanCdata
    rw [hline]
    simp only [hf]
    have e1 : ((c0 :: d') ++ (cdataClose ++ post)).take (d'.length + 1) = c0 :: d' := by
      apply List.take_left'; simp
    have e2 : ((c0 :: d') ++ (cdataClose ++ post)).drop (d'.length + 4) = post := by
      have : (c0 :: d') ++ (cdataClose ++ post) = ((c0 :: d') ++ cdataClose) ++ post := by simp
      rw [this]; apply List.drop_left'; simp [cdataClose]
    rw [e1, e2]

/-- white space cannot be `<`: where `[^<]+` stops, `\s*` stops too -/
theorem stops_space_of_notLt {rest : Str} (h : Stops notLt rest) : Stops isSpace rest := by
  intro c r e
  have hc : notLt c = false := h c r e
  have : c = '<' := by simpa [notLt] using hc
  subst this; decide

/-- the CDATA alternative, whatever follows: the data, then the maximal run of white space is passed over -/
theorem scanBody_cdata_raw (d post : Str) (hd : d ≠ []) (hnl : ∀ c ∈ d, notNl c = true)
    (hg : containsSub cdataClose d = false) :
    scanBody (cdataOf d ++ post) = (some d, none, post.dropWhile isSpace) := by
  have e : cdataOf d ++ post = cdataOpen ++ (d ++ (cdataClose ++ post)) := by simp [cdataOf]
  rw [e]
  simp only [scanBody, dropPrefix_append, Option.bind_some, scanCdata_run d post hd hnl hg]

/-- `<![CDATA[d]]>` w: the white space `w` after the section is consumed by `\s*` -/
theorem scanBody_cdata (d w post : Str) (hd : d ≠ []) (hnl : ∀ c ∈ d, notNl c = true)
    (hg : containsSub cdataClose d = false) (hw : ∀ c ∈ w, isSpace c = true) (hpost : Stops isSpace post) :
    scanBody (cdataOf d ++ (w ++ post)) = (some d, none, post) := by
  rw [scanBody_cdata_raw d _ hd hnl hg, dropWhile_run isSpace w post hw hpost]

/-- `<t><![CDATA[d]]>` w, not followed by the matching end tag: the white space belongs to the match, not to `tail` -/
theorem matchHere_cdata_open (tg d w rest : Str) (htg : tg ≠ []) (htc : ∀ c ∈ tg, isTagChar c = true)
    (hd : d ≠ []) (hnl : ∀ c ∈ d, notNl c = true) (hw : ∀ c ∈ w, isSpace c = true) (hrest : Stops notLt rest)
    (hg : containsSub cdataClose d = false)
    (hcl : dropPrefix (endTag tg) rest = none) :
    matchHere (startTag tg ++ (cdataOf d ++ (w ++ rest))) =
      some { tag := tg, cdata := some d, text := none, closetag := none, tail := none,
             len := (startTag tg ++ (cdataOf d ++ w)).length } := by
  rw [matchHere_tag tg _ htg htc, scanBody_cdata d w rest hd hnl hg hw (stops_space_of_notLt hrest)]
  simp only [scanClose_none tg _ hcl, scanTail_stop rest hrest]
  simp [optLen, startTag, cdataOf, cdataOpen, cdataClose]; omega

/-- `<t><![CDATA[d]]>` w x: text that is not white space after the section (and after the white space) is the `tail` -/
theorem matchHere_cdata_tail (tg d w x rest : Str) (c : Char) (htg : tg ≠ []) (htc : ∀ c ∈ tg, isTagChar c = true)
    (hd : d ≠ []) (hnl : ∀ c ∈ d, notNl c = true) (hw : ∀ c ∈ w, isSpace c = true)
    (hc : isSpace c = false) (hx : ∀ a ∈ c :: x, notLt a = true) (hrest : Stops notLt rest)
    (hg : containsSub cdataClose d = false) :
    matchHere (startTag tg ++ (cdataOf d ++ (w ++ (c :: x ++ rest)))) =
      some { tag := tg, cdata := some d, text := none, closetag := none, tail := some (c :: x),
             len := (startTag tg ++ (cdataOf d ++ (w ++ c :: x))).length } := by
  have hcl : dropPrefix (endTag tg) (c :: x ++ rest) = none := by
    have : c ≠ '<' := by have := hx c (by simp); simpa [notLt] using this
    simp [endTag, dropPrefix, Ne.symm this]
  rw [matchHere_tag tg _ htg htc,
    scanBody_cdata d w _ hd hnl hg hw (show Stops isSpace (c :: x ++ rest) from stops_cons (x ++ rest) hc)]
  simp only [scanClose_none tg _ hcl, scanTail_run (c :: x) rest hx hrest, optLen_optStr]
  simp [optStr, startTag, cdataOf, cdataOpen, cdataClose]; omega

/-- `<t><![CDATA[d]]>` w1 `</t>` w: white space may stand between `]]>` and the element's own end tag -/
theorem matchHere_cdata_closed (tg d w1 w rest : Str) (htg : tg ≠ []) (htc : ∀ c ∈ tg, isTagChar c = true)
    (hd : d ≠ []) (hnl : ∀ c ∈ d, notNl c = true) (hw1 : ∀ c ∈ w1, isSpace c = true)
    (hw : ∀ c ∈ w, notLt c = true) (hrest : Stops notLt rest)
    (hg : containsSub cdataClose d = false) :
    matchHere (startTag tg ++ (cdataOf d ++ (w1 ++ (endTag tg ++ (w ++ rest))))) =
      some { tag := tg, cdata := some d, text := none, closetag := some tg, tail := optStr w,
             len := (startTag tg ++ (cdataOf d ++ (w1 ++ (endTag tg ++ w)))).length } := by
  have hst : Stops isSpace (endTag tg ++ (w ++ rest)) := by
    simp only [endTag, List.cons_append]; exact stops_cons _ (by decide)
  rw [matchHere_tag tg _ htg htc, scanBody_cdata d w1 _ hd hnl hg hw1 hst]
  simp only [scanClose_some, scanTail_run w rest hw hrest, optLen_optStr]
  simp [startTag, endTag, cdataOf, cdataOpen, cdataClose]; omega

/-! ### `lex` (offsets) and `toks` are the same scan -/

/-- the `lex` driver op (with offsets) and the token list used by `feed` are the same scan -/
theorem lexGo_toksGo (skip pos : Nat) (s : Str) : (lexGo skip pos s).map Prod.snd = toksGo skip s := by
  induction s generalizing skip pos with
  | nil => cases skip <;> rfl
  | cons c cs ih =>
    cases skip with
    | succ k => simpa [lexGo, toksGo] using ih k (pos + 1)
    | zero =>
      simp only [lexGo, toksGo]
      cases matchHere (c :: cs) with
      | none => exact ih 0 (pos + 1)
      | some m => simp only [List.map_cons]; rw [ih]

theorem lex_toks (s : Str) : (lex s).map Prod.snd = toks s := lexGo_toksGo 0 0 s
/-! ### every regex match is well formed (the two `assert`s of `feed`/`_feedmatch` never fire) -/

/-- tag non-empty; `closetag` absent or equal to the tag; CDATA non-empty and never together with text -/
def WfMatch (m : Match) : Prop :=
  m.tag ≠ [] ∧ (m.closetag = none ∨ m.closetag = some m.tag) ∧
  ((m.cdata = none) ∨ (m.text = none ∧ ∃ c cs, m.cdata = some (c :: cs)))

theorem scanCdata_ne (r d r' : Str) (h : scanCdata r = some (d, r')) : ∃ c cs, d = c :: cs := by
  unfold scanCdata at h
  split at h
  · cases h
  · rename_i c0 l hl
    split at h
    · cases h
    · rename_i i hi
      injection h with h; injection h with h1 h2
      cases r with
      | nil => simp at hl
      | cons a as => exact ⟨a, as.take i, by rw [← h1]; simp⟩

theorem scanBody_wf (r : Str) :
    (scanBody r).1 = none ∨ ((scanBody r).2.1 = none ∧ ∃ c cs, (scanBody r).1 = some (c :: cs)) := by
  unfold scanBody
  split
  · rename_i cd r' h
    refine Or.inr ⟨rfl, ?_⟩
    cases hd : dropPrefix cdataOpen r with
    | none => rw [hd] at h; cases h
    | some r2 =>
      rw [hd] at h
      obtain ⟨c, cs, rfl⟩ := scanCdata_ne r2 cd r' h
      exact ⟨c, cs, rfl⟩
  · exact Or.inl rfl

theorem scanClose_wf (tg r : Str) : (scanClose tg r).1 = none ∨ (scanClose tg r).1 = some tg := by
  unfold scanClose
  split
  · exact Or.inr rfl
  · exact Or.inl rfl

theorem matchHere_wf (s : Str) (m : Match) (h : matchHere s = some m) : WfMatch m := by
  unfold matchHere at h
  split at h
  · rename_i r
    split at h
    · rename_i t ts r2 h1 h2
      injection h with h
      subst h
      exact ⟨by simp, scanClose_wf _ _, scanBody_wf r2⟩
    · cases h
  · cases h

theorem toksGo_wf (skip : Nat) (s : Str) : ∀ m ∈ toksGo skip s, WfMatch m := by
  induction s generalizing skip with
  | nil => intro m hm; cases skip <;> simp [toksGo] at hm
  | cons c cs ih =>
    cases skip with
    | succ k => intro m hm; simp only [toksGo] at hm; exact ih k m hm
    | zero =>
      intro m hm
      simp only [toksGo] at hm
      cases hmh : matchHere (c :: cs) with
      | none => rw [hmh] at hm; exact ih 0 m hm
      | some m0 =>
        rw [hmh] at hm
        rcases List.mem_cons.mp hm with rfl | h
        · exact matchHere_wf _ _ hmh
        · exact ih _ m h

theorem toks_wf (s : Str) : ∀ m ∈ toks s, WfMatch m := toksGo_wf 0 s

end Ofx.Lexer
