/-
Scanner lemmas for `Ofx.Lexer`, in the normal form of DESIGN 3.4:
`scan (prefix ++ rest) = (prefix, rest)` given `∀ x ∈ prefix, p x` and `rest` empty or starting with a
character that fails `p`.
-/
import OfxModel.Ofx.Lexer
import OfxModel.Spec.Renders

namespace Ofx.Lexer
open Ofx Ofx.Spec

/-- the rest is empty or starts with a character failing `p` -/
def Stops (p : Char → Bool) (rest : Str) : Prop := ∀ c r, rest = c :: r → p c = false

theorem stops_nil (p : Char → Bool) : Stops p [] := by intro c r h; cases h
theorem stops_cons {p : Char → Bool} {c : Char} (r : Str) (h : p c = false) : Stops p (c :: r) := by
  intro c' r' h'; cases h'; exact h

theorem takeWhile_run (p : Char → Bool) (pre rest : Str) (hp : ∀ x ∈ pre, p x = true) (hs : Stops p rest) :
    (pre ++ rest).takeWhile p = pre := by
  induction pre with
  | nil =>
    cases rest with
    | nil => rfl
    | cons c r => simp [hs c r rfl]
  | cons a as ih =>
    have ha : p a = true := hp a (by simp)
    simp only [List.cons_append, List.takeWhile, ha]
    rw [ih (fun x hx => hp x (by simp [hx]))]

theorem dropWhile_run (p : Char → Bool) (pre rest : Str) (hp : ∀ x ∈ pre, p x = true) (hs : Stops p rest) :
    (pre ++ rest).dropWhile p = rest := by
  induction pre with
  | nil =>
    cases rest with
    | nil => rfl
    | cons c r => simp [hs c r rfl]
  | cons a as ih =>
    have ha : p a = true := hp a (by simp)
    simp only [List.cons_append, List.dropWhile, ha]
    exact ih (fun x hx => hp x (by simp [hx]))

theorem dropPrefix_append (p r : Str) : dropPrefix p (p ++ r) = some r := by
  induction p with
  | nil => cases r <;> rfl
  | cons a as ih => simp [dropPrefix, ih]

theorem dropPrefix_nil_right (p : Str) (h : p ≠ []) : dropPrefix p [] = none := by
  cases p with
  | nil => exact absurd rfl h
  | cons a as => rfl

theorem dropPrefix_cons_ne (a c : Char) (as cs : Str) (h : a ≠ c) : dropPrefix (a :: as) (c :: cs) = none := by
  simp [dropPrefix, h]

theorem dropPrefix_cons_eq (a : Char) (as cs : Str) : dropPrefix (a :: as) (a :: cs) = dropPrefix as cs := by
  simp [dropPrefix]

/-! ### character facts -/

theorem isTagChar_of_name {c : Char} (h : isNameChar c = true) : isTagChar c = true := by
  simp [isTagChar, h]

theorem name_ne_slash {c : Char} (h : isNameChar c = true) : c ≠ '/' := by
  intro e; subst e; revert h; decide
theorem name_ne_gt {c : Char} (h : isNameChar c = true) : c ≠ '>' := by
  intro e; subst e; revert h; decide
theorem name_ne_bang {c : Char} (h : isNameChar c = true) : c ≠ '!' := by
  intro e; subst e; revert h; decide
theorem space_ne_lt {c : Char} (h : isSpace c = true) : c ≠ '<' := by
  intro e; subst e; revert h; decide
theorem space_notLt {c : Char} (h : isSpace c = true) : notLt c = true := by
  simp [notLt, space_ne_lt h]
theorem tagChar_gt : isTagChar '>' = false := by decide
theorem tagChar_slash : isTagChar '/' = true := by decide
theorem notLt_lt : notLt '<' = false := by decide

theorem optStr_eq_none (x : Str) : optStr x = none ↔ x = [] := by
  cases x <;> simp [optStr]

theorem optLen_optStr (x : Str) : optLen (optStr x) = x.length := by
  cases x <;> simp [optStr, optLen]

/-! ### `finditer` stepping -/

theorem toksGo_skip (a rest : Str) : toksGo a.length (a ++ rest) = toksGo 0 rest := by
  induction a with
  | nil => rfl
  | cons c cs ih => simpa [toksGo] using ih

/-- a match at the front of the input is emitted and scanning resumes after it -/
theorem toksGo_match (tok rest : Str) (m : Match) (hne : tok ≠ [])
    (hm : matchHere (tok ++ rest) = some m) (hl : m.len = tok.length) :
    toksGo 0 (tok ++ rest) = m :: toksGo 0 rest := by
  cases tok with
  | nil => exact absurd rfl hne
  | cons c cs =>
    simp only [List.cons_append] at hm ⊢
    simp only [toksGo, hm]
    have : m.len - 1 = cs.length := by simp [hl]
    rw [this, toksGo_skip]

theorem matchHere_ne_lt (c : Char) (cs : Str) (h : c ≠ '<') : matchHere (c :: cs) = none := by
  unfold matchHere
  split
  · rename_i r heq; cases heq; exact absurd rfl h
  · rfl

/-- characters other than `<` before the next token are skipped silently -/
theorem toksGo_skip_notLt (w rest : Str) (hw : ∀ c ∈ w, notLt c = true) : toksGo 0 (w ++ rest) = toksGo 0 rest := by
  induction w with
  | nil => rfl
  | cons c cs ih =>
    have hc : c ≠ '<' := by
      have := hw c (by simp); simpa [notLt] using this
    simp only [List.cons_append, toksGo, matchHere_ne_lt c _ hc]
    exact ih (fun x hx => hw x (by simp [hx]))


/-! ### the groups of the regex, one lemma each -/

theorem scanBody_plain (x rest : Str) (hx : ∀ c ∈ x, notLt c = true) (hrest : Stops notLt rest)
    (hcd : dropPrefix cdataOpen (x ++ rest) = none) :
    scanBody (x ++ rest) = (none, optStr x, rest) := by
  simp only [scanBody, hcd, Option.bind_none, takeWhile_run notLt x rest hx hrest, dropWhile_run notLt x rest hx hrest]

theorem scanClose_none (tg r : Str) (h : dropPrefix (endTag tg) r = none) : scanClose tg r = (none, r) := by
  simp only [endTag] at h
  simp only [scanClose, h]

theorem scanClose_some (tg r : Str) : scanClose tg (endTag tg ++ r) = (some tg, r) := by
  have := dropPrefix_append (endTag tg) r
  simp only [endTag] at this ⊢
  simp only [scanClose, this]

theorem scanTail_run (w rest : Str) (hw : ∀ c ∈ w, notLt c = true) (hrest : Stops notLt rest) :
    scanTail (w ++ rest) = optStr w := by
  simp only [scanTail, takeWhile_run notLt w rest hw hrest]

theorem scanTail_stop (rest : Str) (hrest : Stops notLt rest) : scanTail rest = none := by
  have := scanTail_run [] rest (by simp) hrest
  simpa [optStr] using this

/-- the frame of `matchHere`: tag recognised, the three group scanners applied to what follows `>` -/
theorem matchHere_tag (tg r2 : Str) (htg : tg ≠ []) (htc : ∀ c ∈ tg, isTagChar c = true) :
    matchHere (startTag tg ++ r2) =
      some { tag := tg, cdata := (scanBody r2).1, text := (scanBody r2).2.1,
             closetag := (scanClose tg (scanBody r2).2.2).1,
             tail := scanTail (scanClose tg (scanBody r2).2.2).2,
             len := 2 + tg.length + (r2.length - (scanClose tg (scanBody r2).2.2).2.length)
                      + optLen (scanTail (scanClose tg (scanBody r2).2.2).2) } := by
  have hst : Stops isTagChar ('>' :: r2) := stops_cons r2 tagChar_gt
  have e : startTag tg ++ r2 = '<' :: (tg ++ '>' :: r2) := by simp [startTag]
  rw [e]
  unfold matchHere
  simp only [takeWhile_run isTagChar tg _ htc hst, dropWhile_run isTagChar tg _ htc hst]
  cases tg with
  | nil => exact absurd rfl htg
  | cons t ts => rfl

/-- `<tag>` followed by characters other than `<` and then by something that is neither the matching end tag
    nor a CDATA section: start tags of aggregates, SGML-style data elements, end tags (`tag = /NAME`) -/
theorem matchHere_open (tg x rest : Str) (htg : tg ≠ []) (htc : ∀ c ∈ tg, isTagChar c = true)
    (hx : ∀ c ∈ x, notLt c = true) (hrest : Stops notLt rest)
    (hcd : dropPrefix cdataOpen (x ++ rest) = none)
    (hcl : dropPrefix (endTag tg) rest = none) :
    matchHere (startTag tg ++ (x ++ rest)) =
      some { tag := tg, cdata := none, text := optStr x, closetag := none, tail := none,
             len := (startTag tg ++ x).length } := by
  rw [matchHere_tag tg _ htg htc, scanBody_plain x rest hx hrest hcd]
  simp only [scanClose_none tg rest hcl, scanTail_stop rest hrest]
  simp [optLen, startTag]; omega

/-- `<tag>` text? `</tag>` tail? -/
theorem matchHere_closed (tg x w rest : Str) (htg : tg ≠ []) (htc : ∀ c ∈ tg, isTagChar c = true)
    (hx : ∀ c ∈ x, notLt c = true) (hw : ∀ c ∈ w, notLt c = true) (hrest : Stops notLt rest) :
    matchHere (startTag tg ++ (x ++ (endTag tg ++ (w ++ rest)))) =
      some { tag := tg, cdata := none, text := optStr x, closetag := some tg, tail := optStr w,
             len := (startTag tg ++ (x ++ (endTag tg ++ w))).length } := by
  have hst : Stops notLt (endTag tg ++ (w ++ rest)) := by
    simp only [endTag, List.cons_append]; exact stops_cons _ notLt_lt
  have hcd : dropPrefix cdataOpen (x ++ (endTag tg ++ (w ++ rest))) = none := by
    cases x with
    | nil => simp [endTag, cdataOpen, dropPrefix]
    | cons c cs =>
      have : c ≠ '<' := by have := hx c (by simp); simpa [notLt] using this
      simp [cdataOpen, dropPrefix, Ne.symm this]
  rw [matchHere_tag tg _ htg htc, scanBody_plain x _ hx hst hcd]
  simp only [scanClose_some, scanTail_run w rest hw hrest, optLen_optStr]
  simp [startTag, endTag]; omega


/-! ### CDATA: greedy `.+` backtracking to the last `]]>` of the line -/

theorem findLastClose_none_iff (l : Str) : findLastClose l = none ↔ containsSub cdataClose l = false := by
  induction l with
  | nil => simp [findLastClose, containsSub, cdataClose]
  | cons c cs ih =>
    simp only [findLastClose, containsSub]
    cases h : findLastClose cs with
    | some i =>
      have : containsSub cdataClose cs ≠ false := fun e => by rw [ih.mpr e] at h; cases h
      simp only [Bool.not_eq_false] at this
      simp [this]
    | none =>
      rw [ih.mp h]
      by_cases hp : cdataClose.isPrefixOf (c :: cs) = true
      · simp [hp]
      · simp only [Bool.not_eq_true] at hp; simp [hp]

theorem findLastClose_append (a b : Str) (i : Nat) (h : findLastClose b = some i) :
    findLastClose (a ++ b) = some (i + a.length) := by
  induction a with
  | nil => simpa using h
  | cons c cs ih => simp only [List.cons_append, findLastClose, ih, List.length_cons]; rfl

theorem findLastClose_close (L : Str) (h : findLastClose L = none) : findLastClose (cdataClose ++ L) = some 0 := by
  simp [cdataClose, findLastClose, h, List.isPrefixOf]

theorem takeWhile_append_all (p : Char → Bool) (a b : Str) (ha : ∀ x ∈ a, p x = true) :
    (a ++ b).takeWhile p = a ++ b.takeWhile p := by
  induction a with
  | nil => rfl
  | cons c cs ih =>
    have hc : p c = true := ha c (by simp)
    simp only [List.cons_append, List.takeWhile, hc]
    rw [ih (fun x hx => ha x (by simp [hx]))]

/-- `(?P<cdata>.+)\]\]>`: the data is everything up to the last `]]>` of the line; with no further `]]>` on
    the line that is the first one -/
theorem scanCdata_run (d post : Str) (hd : d ≠ []) (hnl : ∀ c ∈ d, notNl c = true)
    (hg : lineHasClose post = false) :
    scanCdata (d ++ (cdataClose ++ post)) = some (d, post) := by
  cases d with
  | nil => exact absurd rfl hd
  | cons c0 d' =>
    have hL : findLastClose (post.takeWhile notNl) = none := (findLastClose_none_iff _).mpr hg
    have hline : ((c0 :: d') ++ (cdataClose ++ post)).takeWhile notNl
        = c0 :: (d' ++ (cdataClose ++ post.takeWhile notNl)) := by
      rw [takeWhile_append_all notNl _ _ hnl, takeWhile_append_all notNl cdataClose post (by decide)]
      rfl
    have hf : findLastClose (d' ++ (cdataClose ++ post.takeWhile notNl)) = some (0 + d'.length) :=
      findLastClose_append _ _ _ (findLastClose_close _ hL)
    unfold scanCdata
    rw [hline]
    simp only [hf]
    have e1 : ((c0 :: d') ++ (cdataClose ++ post)).take (0 + d'.length + 1) = c0 :: d' := by
      apply List.take_left'; simp
    have e2 : ((c0 :: d') ++ (cdataClose ++ post)).drop (0 + d'.length + 4) = post := by
      have : (c0 :: d') ++ (cdataClose ++ post) = ((c0 :: d') ++ cdataClose) ++ post := by simp
      rw [this]; apply List.drop_left'; simp [cdataClose]
    rw [e1, e2]

theorem scanBody_cdata (d post : Str) (hd : d ≠ []) (hnl : ∀ c ∈ d, notNl c = true)
    (hg : lineHasClose post = false) :
    scanBody (cdataOf d ++ post) = (some d, none, post) := by
  have e : cdataOf d ++ post = cdataOpen ++ (d ++ (cdataClose ++ post)) := by simp [cdataOf]
  rw [e]
  simp only [scanBody, dropPrefix_append, Option.bind_some, scanCdata_run d post hd hnl hg]

/-- `<t><![CDATA[d]]>` w, not followed by the matching end tag -/
theorem matchHere_cdata_open (tg d w rest : Str) (htg : tg ≠ []) (htc : ∀ c ∈ tg, isTagChar c = true)
    (hd : d ≠ []) (hnl : ∀ c ∈ d, notNl c = true) (hw : ∀ c ∈ w, notLt c = true) (hrest : Stops notLt rest)
    (hg : lineHasClose (w ++ rest) = false)
    (hcl : dropPrefix (endTag tg) (w ++ rest) = none) :
    matchHere (startTag tg ++ (cdataOf d ++ (w ++ rest))) =
      some { tag := tg, cdata := some d, text := none, closetag := none, tail := optStr w,
             len := (startTag tg ++ (cdataOf d ++ w)).length } := by
  rw [matchHere_tag tg _ htg htc, scanBody_cdata d _ hd hnl hg]
  simp only [scanClose_none tg _ hcl, scanTail_run w rest hw hrest, optLen_optStr]
  simp [startTag, cdataOf, cdataOpen, cdataClose]; omega

/-- `<t><![CDATA[d]]></t>` w -/
theorem matchHere_cdata_closed (tg d w rest : Str) (htg : tg ≠ []) (htc : ∀ c ∈ tg, isTagChar c = true)
    (hd : d ≠ []) (hnl : ∀ c ∈ d, notNl c = true) (hw : ∀ c ∈ w, notLt c = true) (hrest : Stops notLt rest)
    (hg : lineHasClose (endTag tg ++ (w ++ rest)) = false) :
    matchHere (startTag tg ++ (cdataOf d ++ (endTag tg ++ (w ++ rest)))) =
      some { tag := tg, cdata := some d, text := none, closetag := some tg, tail := optStr w,
             len := (startTag tg ++ (cdataOf d ++ (endTag tg ++ w))).length } := by
  rw [matchHere_tag tg _ htg htc, scanBody_cdata d _ hd hnl hg]
  simp only [scanClose_some, scanTail_run w rest hw hrest, optLen_optStr]
  simp [startTag, endTag, cdataOf, cdataOpen, cdataClose]; omega

/-! ### guard G1 -/

theorem cdSafe_append_right (a b : Str) (h : cdSafe (a ++ b) = true) : cdSafe b = true := by
  induction a with
  | nil => simpa using h
  | cons c cs ih =>
    simp only [List.cons_append, cdSafe, Bool.and_eq_true] at h
    exact ih h.2

theorem cdSafe_close (post : Str) (h : cdSafe (cdataClose ++ post) = true) : lineHasClose post = false := by
  simp only [cdataClose, List.cons_append, List.nil_append, cdSafe, Bool.and_eq_true] at h
  have := h.1
  simpa [List.isPrefixOf] using this

theorem cdSafe_after (pre post : Str) (h : cdSafe (pre ++ (cdataClose ++ post)) = true) :
    lineHasClose post = false :=
  cdSafe_close post (cdSafe_append_right pre _ h)

/-! ### `lex` (offsets) and `toks` are the same scan -/

/-- the `lex` driver op (with offsets) and the token list used by `feed` are the same scan -/
theorem lexGo_toksGo (skip pos : Nat) (s : Str) : (lexGo skip pos s).map Prod.snd = toksGo skip s := by
  induction s generalizing skip pos with
  | nil => cases skip <;> rfl
  | cons c cs ih =>
    cases skip with
    | succ k => simpa [lexGo, toksGo] using ih k (pos + 1)
    | zero =>
      simp only [lexGo, toksGo]
      cases matchHere (c :: cs) with
      | none => exact ih 0 (pos + 1)
      | some m => simp only [List.map_cons]; rw [ih]

theorem lex_toks (s : Str) : (lex s).map Prod.snd = toks s := lexGo_toksGo 0 0 s
end Ofx.Lexer
