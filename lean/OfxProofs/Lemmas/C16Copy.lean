/-
Helper lemmas for C16 (copy / deepcopy / pickle): dict updates, the generic-`G` core ("if the probes answer
AttributeError, every route rebuilds the instance"), the pickle of an instance as a function (`pkOf`).
-/
import OfxProofs.Lemmas.Getattr
import OfxModel.Ofx.CopyProto

namespace Ofx.CopyProto
open Ofx Ofx.Agg Ofx.Getattr

/-! ### dicts -/

def keys (d : Dict) : List Str := d.map (·.1)

theorem keys_append (a b : Dict) : keys (a ++ b) = keys a ++ keys b := by simp [keys]

theorem setField_fresh (k : Str) (v : Node) : ∀ d : Dict, k ∉ keys d → setField k v d = d ++ [(k, v)]
  | [], _ => rfl
  | (k', v') :: r, h => by
    have hk : ¬ k' = k := by
      intro e; apply h; simp [keys, e]
    have hr : k ∉ keys r := by
      intro e; apply h; simp only [keys, List.map_cons, List.mem_cons]; exact Or.inr e
    simp [setField, hk, setField_fresh k v r hr]

/-- writing the pairs of a dict, in order, into a dict that has none of its keys appends them -/
theorem dictUpdate_append : ∀ (st d : Dict), (keys (d ++ st)).Nodup → dictUpdate d st = d ++ st
  | [], d, _ => by simp [dictUpdate]
  | (k, v) :: r, d, h => by
    have hk : k ∉ keys d := by
      rw [keys_append] at h
      have := (List.nodup_append.mp h).2.2
      intro hm
      exact this k hm k (by simp [keys]) rfl
    have h' : (keys ((d ++ [(k, v)]) ++ r)).Nodup := by simpa using h
    simp only [dictUpdate, setField_fresh k v d hk]
    rw [dictUpdate_append r (d ++ [(k, v)]) h']
    simp

theorem dictUpdate_empty (st : Dict) (h : nodupKeys st = true) : dictUpdate [] st = st := by
  have : (keys ([] ++ st)).Nodup := by simpa [nodupKeys, keys] using h
  simpa using dictUpdate_append st [] this

theorem appendEach_eq : ∀ (l acc : List Node), appendEach acc l = acc ++ l
  | [], acc => by simp [appendEach]
  | x :: r, acc => by simp [appendEach, appendEach_eq r (acc ++ [x])]

/-! ### the probes, for a generic attribute access `G` -/

/-- `G` answers AttributeError to every probe the protocols make on the instance `(ci, fields, items)`: the two on the
    instance itself and `__setstate__` on a freshly created instance of its class (empty dict, any members) -/
def Quiet (G : GA) (ci : Nat) (fields : Dict) (items : List Node) : Prop :=
  G (.agg ci fields items) nDeepcopy = .error .attr ∧ G (.agg ci fields items) nSlots = .error .attr ∧
    ∀ its, G (.agg ci [] its) nSetstate = .error .attr

mutual
  /-- … on every aggregate of the tree -/
  def QuietAll (G : GA) : Node → Prop
    | .val _ => True
    | .agg ci fields items => Quiet G ci fields items ∧ QuietFields G fields ∧ QuietItems G items
  def QuietFields (G : GA) : Dict → Prop
    | [] => True
    | (_, v) :: r => QuietAll G v ∧ QuietFields G r
  def QuietItems (G : GA) : List Node → Prop
    | [] => True
    | v :: r => QuietAll G v ∧ QuietItems G r
end

theorem QuietFields_mem (G : GA) : ∀ (fs : Dict), QuietFields G fs → ∀ k v, (k, v) ∈ fs → QuietAll G v
  | [], _, _, _, h => by simp at h
  | (n, x) :: r, hq, k, v, h => by
    simp only [QuietFields] at hq
    rcases List.mem_cons.mp h with h | h
    · have : v = x := by injection h
      rw [this]; exact hq.1
    · exact QuietFields_mem G r hq.2 k v h

theorem QuietItems_mem (G : GA) : ∀ (is : List Node), QuietItems G is → ∀ v, v ∈ is → QuietAll G v
  | [], _, _, h => by simp at h
  | x :: r, hq, v, h => by
    simp only [QuietItems] at hq
    rcases List.mem_cons.mp h with h | h
    · rw [h]; exact hq.1
    · exact QuietItems_mem G r hq.2 v h

theorem dictsWFFields_mem : ∀ (fs : Dict), dictsWFFields fs = true → ∀ k v, (k, v) ∈ fs → dictsWF v = true
  | [], _, _, _, h => by simp at h
  | (n, x) :: r, hq, k, v, h => by
    simp only [dictsWFFields, Bool.and_eq_true] at hq
    rcases List.mem_cons.mp h with h | h
    · have : v = x := by injection h
      rw [this]; exact hq.1
    · exact dictsWFFields_mem r hq.2 k v h

theorem dictsWFItems_mem : ∀ (is : List Node), dictsWFItems is = true → ∀ v, v ∈ is → dictsWF v = true
  | [], _, _, h => by simp at h
  | x :: r, hq, v, h => by
    simp only [dictsWFItems, Bool.and_eq_true] at hq
    rcases List.mem_cons.mp h with h | h
    · rw [h]; exact hq.1
    · exact dictsWFItems_mem r hq.2 v h

/-! ### `__reduce_ex__` -/

theorem reduceAgg_newobj (G : GA) (proto ci : Nat) (fields : Dict) (items : List Node) (hp : 2 ≤ proto) :
    reduceAgg G proto ci fields items = .ok ⟨.newobj, ci, [], getstate fields, some items⟩ := by
  have : ¬ proto < 2 := by omega
  simp [reduceAgg, this, pure, Except.pure]

theorem reduceAgg_reconstructor (G : GA) (proto ci : Nat) (fields : Dict) (items : List Node) (hp : proto < 2)
    (hs : G (.agg ci fields items) nSlots = .error .attr) :
    reduceAgg G proto ci fields items = .ok ⟨.reconstructor, ci, items, getstate fields, none⟩ := by
  simp [reduceAgg, hp, slotsProbe, hs, bind, Except.bind, pure, Except.pure]

/-! ### rebuilding -/

theorem build_ok (G : GA) (ci : Nat) (its : List Node) (st : Dict)
    (hs : G (.agg ci [] its) nSetstate = .error .attr) (hn : nodupKeys st = true) :
    build G ci [] its st = .ok st := by
  simp [build, setstateProbe, hs, bind, Except.bind, pure, Except.pure, dictUpdate_empty st hn]

/-- `_reconstruct` on the reduce value of protocol 4, handed the (copies of the) state and members -/
theorem reconstruct_newobj (G : GA) (ci : Nat) (fields : Dict) (items : List Node)
    (hs : G (.agg ci [] []) nSetstate = .error .attr) (hn : nodupKeys fields = true) :
    reconstruct G ⟨.newobj, ci, [], getstate fields, some items⟩ (.ok fields) (.ok items) =
      .ok (.agg ci fields items) := by
  cases fields with
  | nil => simp [reconstruct, create, getstate, appendEach_eq, bind, Except.bind, pure, Except.pure]
  | cons kv r =>
    simp [reconstruct, create, getstate, appendEach_eq, bind, Except.bind, pure, Except.pure,
      build_ok G ci [] (kv :: r) hs hn]

/-! ### deepcopy -/

theorem deepcopyDict_ok (G : GA) : ∀ (r y : Dict), (∀ k v, (k, v) ∈ r → deepcopyNode G v = .ok v) →
    (keys (y ++ r)).Nodup → deepcopyDict G r y = .ok (y ++ r)
  | [], y, _, _ => by simp [deepcopyDict]
  | (k, v) :: r, y, hv, hn => by
    have hk : k ∉ keys y := by
      rw [keys_append] at hn
      have := (List.nodup_append.mp hn).2.2
      intro hm
      exact this k hm k (by simp [keys]) rfl
    have hn' : (keys ((y ++ [(k, v)]) ++ r)).Nodup := by simpa using hn
    have ih := deepcopyDict_ok G r (y ++ [(k, v)]) (fun k' v' h => hv k' v' (List.mem_cons_of_mem _ h)) hn'
    simp [deepcopyDict, hv k v List.mem_cons_self, bind, Except.bind, setField_fresh k v y hk, ih]

theorem deepcopyItems_ok (G : GA) : ∀ (l : List Node), (∀ v, v ∈ l → deepcopyNode G v = .ok v) →
    deepcopyItems G l = .ok l
  | [], _ => by simp [deepcopyItems]
  | x :: r, hv => by
    have ih := deepcopyItems_ok G r (fun v h => hv v (List.mem_cons_of_mem _ h))
    simp [deepcopyItems, hv x List.mem_cons_self, ih, bind, Except.bind, pure, Except.pure]

/-- **core, deepcopy.** If `G` answers AttributeError to the probes on every aggregate of the tree, `deepcopy` rebuilds
    the tree. -/
theorem deepcopy_of_quiet (G : GA) : ∀ n, QuietAll G n → dictsWF n = true → deepcopyNode G n = .ok n := by
  intro n
  induction n using Node.induct with
  | hval v => intro _ _; simp [deepcopyNode]
  | hagg ci fields items ihf ihi =>
    intro hq hw
    simp only [QuietAll] at hq
    obtain ⟨⟨hd, _, hs⟩, hqf, hqi⟩ := hq
    simp only [dictsWF, Bool.and_eq_true] at hw
    obtain ⟨⟨hn, hwf⟩, hwi⟩ := hw
    have hfields : deepcopyDict G fields [] = .ok fields := by
      have := deepcopyDict_ok G fields []
        (fun k v h => ihf k v h (QuietFields_mem G fields hqf k v h) (dictsWFFields_mem fields hwf k v h))
        (by simpa [nodupKeys, keys] using hn)
      simpa using this
    have hitems : deepcopyItems G items = .ok items :=
      deepcopyItems_ok G items (fun v h => ihi v h (QuietItems_mem G items hqi v h) (dictsWFItems_mem items hwi v h))
    simp only [deepcopyNode, deepcopyAt, deepcopyProbe, hd, hfields, hitems,
      reduceAgg_newobj G 4 ci fields items (by omega), bind, Except.bind]
    exact reconstruct_newobj G ci fields items (hs []) hn

/-! ### pickle -/

mutual
  /-- the pickle of an instance (what `dumps` produces when no probe fails) -/
  def pkOf (proto : Nat) : Node → Pk
    | .val v => .val v
    | .agg ci fields items =>
      .obj (if proto < 2 then .reconstructor else .newobj) ci (!fields.isEmpty) (pkDict proto fields)
        (pkItems proto items)
  def pkDict (proto : Nat) : Dict → List (Str × Pk)
    | [] => []
    | (k, v) :: r => (k, pkOf proto v) :: pkDict proto r
  def pkItems (proto : Nat) : List Node → List Pk
    | [] => []
    | v :: r => pkOf proto v :: pkItems proto r
end

theorem dumpsDict_ok (G : GA) (p : Nat) : ∀ (r : Dict), (∀ k v, (k, v) ∈ r → dumps G p v = .ok (pkOf p v)) →
    dumpsDict G p r = .ok (pkDict p r)
  | [], _ => by simp [dumpsDict, pkDict]
  | (k, v) :: r, hv => by
    have ih := dumpsDict_ok G p r (fun k' v' h => hv k' v' (List.mem_cons_of_mem _ h))
    simp [dumpsDict, pkDict, hv k v List.mem_cons_self, ih, bind, Except.bind, pure, Except.pure]

theorem dumpsItems_ok (G : GA) (p : Nat) : ∀ (l : List Node), (∀ v, v ∈ l → dumps G p v = .ok (pkOf p v)) →
    dumpsItems G p l = .ok (pkItems p l)
  | [], _ => by simp [dumpsItems, pkItems]
  | x :: r, hv => by
    have ih := dumpsItems_ok G p r (fun v h => hv v (List.mem_cons_of_mem _ h))
    simp [dumpsItems, pkItems, hv x List.mem_cons_self, ih, bind, Except.bind, pure, Except.pure]

/-- **core, dumps.** -/
theorem dumps_of_quiet (G : GA) (p : Nat) : ∀ n, QuietAll G n → dumps G p n = .ok (pkOf p n) := by
  intro n
  induction n using Node.induct with
  | hval v => intro _; simp [dumps, pkOf]
  | hagg ci fields items ihf ihi =>
    intro hq
    simp only [QuietAll] at hq
    obtain ⟨⟨_, hsl, _⟩, hqf, hqi⟩ := hq
    have hfields := dumpsDict_ok G p fields (fun k v h => ihf k v h (QuietFields_mem G fields hqf k v h))
    have hitems := dumpsItems_ok G p items (fun v h => ihi v h (QuietItems_mem G items hqi v h))
    by_cases hp : p < 2
    · simp only [dumps, dumpsAt, reduceAgg_reconstructor G p ci fields items hp hsl, hfields, hitems, bind,
        Except.bind, pkOf, hp, if_true]
      cases fields <;> simp [getstate, pkDict, pure, Except.pure]
    · simp only [dumps, dumpsAt, reduceAgg_newobj G p ci fields items (by omega), hfields, hitems, bind,
        Except.bind, pkOf, hp, if_false]
      cases fields <;> simp [getstate, pkDict, pure, Except.pure]

theorem loadsDict_ok (G : GA) (p : Nat) : ∀ (r y : Dict), (∀ k v, (k, v) ∈ r → loads G (pkOf p v) = .ok v) →
    (keys (y ++ r)).Nodup → loadsDict G (pkDict p r) y = .ok (y ++ r)
  | [], y, _, _ => by simp [loadsDict, pkDict]
  | (k, v) :: r, y, hv, hn => by
    have hk : k ∉ keys y := by
      rw [keys_append] at hn
      have := (List.nodup_append.mp hn).2.2
      intro hm
      exact this k hm k (by simp [keys]) rfl
    have hn' : (keys ((y ++ [(k, v)]) ++ r)).Nodup := by simpa using hn
    have ih := loadsDict_ok G p r (y ++ [(k, v)]) (fun k' v' h => hv k' v' (List.mem_cons_of_mem _ h)) hn'
    simp [loadsDict, pkDict, hv k v List.mem_cons_self, bind, Except.bind, setField_fresh k v y hk, ih]

theorem loadsItems_ok (G : GA) (p : Nat) : ∀ (l : List Node), (∀ v, v ∈ l → loads G (pkOf p v) = .ok v) →
    loadsItems G (pkItems p l) = .ok l
  | [], _ => by simp [loadsItems, pkItems]
  | x :: r, hv => by
    have ih := loadsItems_ok G p r (fun v h => hv v (List.mem_cons_of_mem _ h))
    simp [loadsItems, pkItems, hv x List.mem_cons_self, ih, bind, Except.bind, pure, Except.pure]

/-- **core, loads.** -/
theorem loads_of_quiet (G : GA) (p : Nat) : ∀ n, QuietAll G n → dictsWF n = true → loads G (pkOf p n) = .ok n := by
  intro n
  induction n using Node.induct with
  | hval v => intro _ _; simp [loads, pkOf]
  | hagg ci fields items ihf ihi =>
    intro hq hw
    simp only [QuietAll] at hq
    obtain ⟨⟨_, _, hs⟩, hqf, hqi⟩ := hq
    simp only [dictsWF, Bool.and_eq_true] at hw
    obtain ⟨⟨hn, hwf⟩, hwi⟩ := hw
    have hfields : loadsDict G (pkDict p fields) [] = .ok fields := by
      have := loadsDict_ok G p fields []
        (fun k v h => ihf k v h (QuietFields_mem G fields hqf k v h) (dictsWFFields_mem fields hwf k v h))
        (by simpa [nodupKeys, keys] using hn)
      simpa using this
    have hitems : loadsItems G (pkItems p items) = .ok items :=
      loadsItems_ok G p items (fun v h => ihi v h (QuietItems_mem G items hqi v h) (dictsWFItems_mem items hwi v h))
    simp only [pkOf, loads, loadsAt, hfields, hitems, bind, Except.bind]
    cases fields with
    | nil => by_cases hp : p < 2 <;> simp [hp, extendItems, pure, Except.pure]
    | cons kv r =>
      by_cases hp : p < 2 <;>
        simp [hp, extendItems, pure, Except.pure, build_ok G ci items (kv :: r) (hs items) hn]

end Ofx.CopyProto
