/-
Lemmas for the constructibility theorems of C13 (`Props/C13Exist.lean`):

  * `nodeBeq_sound` — the `Bool` equality of instances used by the table is equality;
  * `build_full` — whatever `Witness.build` returns (a description run through the constructors bottom-up, real
    converters) satisfies every constraint of its class all the way down (`ValidFull`), for *every* description;
  * `pairOk`/`clsPairsOk`/`rangeOk` — the per-(class, child) obligation as a `Bool` and its meaning `Witnessed`;
  * `emitSpec_emits`, `renameFirst_has` — the writer emits a held element under its upper-cased name; `ungroom` then
    renames the first child so tagged.
-/
import OfxModel.Spec.Witness
import OfxProofs.Props.C04Ext
import OfxProofs.Lemmas.AggRound

namespace Ofx.Agg
open Ofx Ofx.Spec.Witness

/-! ### equality of instances -/

mutual
  theorem nodeBeq_sound : ∀ (a b : Node), nodeBeq a b = true → a = b
    | .val a, .val b, h => by simp [nodeBeq] at h; rw [h]
    | .val _, .agg .., h => by simp [nodeBeq] at h
    | .agg .., .val _, h => by simp [nodeBeq] at h
    | .agg c f i, .agg c' f' i', h => by
      simp only [nodeBeq, Bool.and_eq_true, decide_eq_true_eq] at h
      obtain ⟨⟨hc, hf⟩, hi⟩ := h
      rw [hc, fieldsBeq_sound f f' hf, itemsBeq_sound i i' hi]
  theorem fieldsBeq_sound : ∀ (a b : List (Str × Node)), fieldsBeq a b = true → a = b
    | [], [], _ => rfl
    | [], _ :: _, h => by simp [fieldsBeq] at h
    | _ :: _, [], h => by simp [fieldsBeq] at h
    | (n, v) :: r, (n', v') :: r', h => by
      simp only [fieldsBeq, Bool.and_eq_true, decide_eq_true_eq] at h
      obtain ⟨⟨hn, hv⟩, hr⟩ := h
      rw [hn, nodeBeq_sound v v' hv, fieldsBeq_sound r r' hr]
  theorem itemsBeq_sound : ∀ (a b : List Node), itemsBeq a b = true → a = b
    | [], [], _ => rfl
    | [], _ :: _, h => by simp [itemsBeq] at h
    | _ :: _, [], h => by simp [itemsBeq] at h
    | v :: r, v' :: r', h => by
      simp only [itemsBeq, Bool.and_eq_true] at h
      obtain ⟨hv, hr⟩ := h
      rw [nodeBeq_sound v v' hv, itemsBeq_sound r r' hr]
end

/-! ### every built description is valid, all the way down -/

section
variable (S : Schema) (hS : SchemaOk S)
include hS

mutual
  theorem build_full : ∀ (d n : Node), build S Types.conv d = .ok n → n.isAgg = true → ValidFull S n
    | .val v, n, h, hagg => by
      simp only [build, Except.ok.injEq] at h
      subst h
      simp [Node.isAgg] at hagg
    | .agg ci kw args, n, h, _ => by
      cases hk : buildKw S Types.conv kw with
      | error e => simp [build, hk] at h
      | ok kw' =>
        cases ha : buildArgs S Types.conv args with
        | error e => simp [build, hk, ha] at h
        | ok args' =>
          simp only [build, hk, ha] at h
          exact C04_sound_full_kw S hS ci args' kw' n h (buildArgs_full args args' ha) (buildKw_full kw kw' hk)
  theorem buildKw_full : ∀ (kw kw' : List (Str × Node)), buildKw S Types.conv kw = .ok kw' →
      ∀ k v, (k, v) ∈ kw' → v.isAgg = true → ValidFull S v
    | [], kw', h, k, v, hm, _ => by
      simp only [buildKw, Except.ok.injEq] at h
      subst h
      simp at hm
    | (n, d) :: r, kw', h, k, v, hm, hagg => by
      cases hd : build S Types.conv d with
      | error e => simp [buildKw, hd] at h
      | ok d' =>
        cases hr : buildKw S Types.conv r with
        | error e => simp [buildKw, hd, hr] at h
        | ok r' =>
          simp only [buildKw, hd, hr, Except.ok.injEq] at h
          subst h
          simp only [List.mem_cons, Prod.mk.injEq] at hm
          rcases hm with ⟨_, rfl⟩ | hm
          · exact build_full d v hd hagg
          · exact buildKw_full r r' hr k v hm hagg
  theorem buildArgs_full : ∀ (args args' : List Node), buildArgs S Types.conv args = .ok args' →
      ∀ m ∈ args', m.isAgg = true → ValidFull S m
    | [], args', h, m, hm, _ => by
      simp only [buildArgs, Except.ok.injEq] at h
      subst h
      simp at hm
    | d :: r, args', h, m, hm, hagg => by
      cases hd : build S Types.conv d with
      | error e => simp [buildArgs, hd] at h
      | ok d' =>
        cases hr : buildArgs S Types.conv r with
        | error e => simp [buildArgs, hd, hr] at h
        | ok r' =>
          simp only [buildArgs, hd, hr, Except.ok.injEq] at h
          subst h
          simp only [List.mem_cons] at hm
          rcases hm with rfl | hm
          · exact build_full d m hd hagg
          · exact buildArgs_full r r' hr m hm hagg
end

end

/-- what `build` returns for the description of a call is an instance of the described class -/
theorem build_agg (S : Schema) (cv : Conv) (ci : Nat) (kw : List (Str × Node)) (args : List Node) (n : Node)
    (h : build S cv (.agg ci kw args) = .ok n) : ∃ fields items, n = .agg ci fields items := by
  cases hk : buildKw S cv kw with
  | error e => simp [build, hk] at h
  | ok kw' =>
    cases ha : buildArgs S cv args with
    | error e => simp [build, hk, ha] at h
    | ok args' =>
      simp only [build, hk, ha] at h
      obtain ⟨_, fields, items, _, _, _, _, _, hn⟩ := (construct_ok_iff S cv ci args' kw' n).mp h
      exact ⟨fields, items, hn⟩

/-! ### the per-child obligation -/

section
variable (S : Schema) (cv : Conv) (esc : Str → Str)

/-- the instance is written, the wanted child under its tag, and the reader returns the same instance -/
def writtenRead (c : Cls) (a : Attr) (n : Node) : Bool :=
  match toEtree S cv n with
  | .ok t =>
    t.children.any (fun ch => decide (ch.tag = wireTag c a)) &&
      (match fromEtree S cv (mapText esc t) with
       | .ok n' => nodeBeq n' n
       | .error _ => false)
  | .error _ => false

/-- the obligation for one (class, child) pair -/
def pairOk (fuel ci : Nat) (c : Cls) (a : Attr) : Bool :=
  match mkWith S fuel ci a with
  | none => false
  | some d =>
    match build S cv d with
    | .ok n => holds a n && writtenRead S cv esc c a n
    | .error _ => false

/-- … for every supported child of a concrete, exported class -/
def clsPairsOk (fuel ci : Nat) : Bool :=
  match S.cls? ci with
  | some c => c.abstract || !c.exported || (c.spec.filter supported).all (pairOk S cv esc fuel ci c)
  | none => true

/-- … for the classes `lo, …, lo + n − 1` -/
def rangeOk (fuel lo n : Nat) : Bool := (List.range' lo n).all (clsPairsOk S cv esc fuel)

/-- **what the obligation means**: the description exists, the constructors accept it, the instance holds the
    child, is written with the child under its tag, and is read back unchanged -/
def Witnessed (fuel ci : Nat) (c : Cls) (a : Attr) : Prop :=
  ∃ d n, mkWith S fuel ci a = some d ∧ build S cv d = .ok n ∧ holds a n = true ∧
    ∃ t, toEtree S cv n = .ok t ∧ (∃ ch ∈ t.children, ch.tag = wireTag c a) ∧
      fromEtree S cv (mapText esc t) = .ok n

theorem pairOk_sound (fuel ci : Nat) (c : Cls) (a : Attr) (h : pairOk S cv esc fuel ci c a = true) :
    Witnessed S cv esc fuel ci c a := by
  unfold pairOk at h
  cases hd : mkWith S fuel ci a with
  | none => simp [hd] at h
  | some d =>
    cases hb : build S cv d with
    | error e => simp [hd, hb] at h
    | ok n =>
      simp only [hd, hb, Bool.and_eq_true] at h
      obtain ⟨hh, hw⟩ := h
      unfold writtenRead at hw
      cases ht : toEtree S cv n with
      | error e => simp [ht] at hw
      | ok t =>
        cases hf : fromEtree S cv (mapText esc t) with
        | error e => simp [ht, hf] at hw
        | ok n' =>
          simp only [ht, hf, Bool.and_eq_true, List.any_eq_true, decide_eq_true_eq] at hw
          obtain ⟨⟨ch, hch, htag⟩, heq⟩ := hw
          have := nodeBeq_sound n' n heq
          subst this
          exact ⟨d, n', hd, hb, hh, t, ht, ⟨ch, hch, htag⟩, hf⟩

theorem rangeOk_sound (fuel lo n : Nat) (h : rangeOk S cv esc fuel lo n = true) (ci : Nat) (h1 : lo ≤ ci)
    (h2 : ci < lo + n) (c : Cls) (hc : S.cls? ci = some c) (hab : c.abstract = false) (hex : c.exported = true)
    (a : Attr) (ha : a ∈ c.spec) (hs : a.kind.isUnsupported = false) : Witnessed S cv esc fuel ci c a := by
  have hmem : ci ∈ List.range' lo n := by
    rw [List.mem_range'_1]; exact ⟨h1, h2⟩
  have hcl := (List.all_eq_true.mp h) ci hmem
  simp only [clsPairsOk, hc, hab, hex, Bool.not_true, Bool.false_or, List.all_eq_true] at hcl
  exact pairOk_sound S cv esc fuel ci c a (hcl a (List.mem_filter.mpr ⟨ha, by simp [supported, hs]⟩))

end

/-! ### the writer emits a held element under its upper-cased name; `ungroom` renames the first such child -/

theorem emitSpec_emits (S : Schema) (cv : Conv) (c : Cls) (fields : List (Str × Node))
    (fts : List (Str × PyM Tree)) (items : List Node) (its : List (PyM Tree)) :
    ∀ (L : List Attr) (doList : Bool) (out : List Tree),
      emitSpec S cv c fields fts items its L doList = .ok out →
      ∀ a ∈ L, a.kind.isList = false → a.kind.isUnsupported = false →
        ∀ x, lookup a.name fields = some (.val x) → x ≠ .none → ∃ ch ∈ out, ch.tag = upper a.name
  | [], _, _, _, a, ha, _, _, _, _, _ => by simp at ha
  | b :: rest, doList, out, h, a, ha, hl, hu, x, hx, hxn => by
    have ih := emitSpec_emits S cv c fields fts items its rest
    -- membership: either `a = b` or `a ∈ rest`
    rcases List.mem_cons.mp ha with rfl | hrest
    · -- the attribute itself
      simp only [emitSpec, hl, hu, Bool.false_eq_true, if_false, hx] at h
      cases x with
      | none => exact absurd rfl hxn
      | bool v =>
        simp only [bind, Except.bind] at h
        cases h1 : cv.unconvert S.enums a.kind a.required (.bool v) with
        | error e => simp [h1] at h
        | ok t =>
          cases h2 : leafOf a t with
          | error e => simp [h1, h2] at h
          | ok child =>
            cases h3 : emitSpec S cv c fields fts items its rest doList with
            | error e => simp [h1, h2, h3] at h
            | ok more =>
              simp only [h1, h2, h3, pure, Except.pure, Except.ok.injEq] at h
              subst h
              refine ⟨child, by simp, ?_⟩
              cases t <;> simp [leafOf] at h2 <;> (subst h2; rfl)
      | int v =>
        simp only [bind, Except.bind] at h
        cases h1 : cv.unconvert S.enums a.kind a.required (.int v) with
        | error e => simp [h1] at h
        | ok t =>
          cases h2 : leafOf a t with
          | error e => simp [h1, h2] at h
          | ok child =>
            cases h3 : emitSpec S cv c fields fts items its rest doList with
            | error e => simp [h1, h2, h3] at h
            | ok more =>
              simp only [h1, h2, h3, pure, Except.pure, Except.ok.injEq] at h
              subst h
              refine ⟨child, by simp, ?_⟩
              cases t <;> simp [leafOf] at h2 <;> (subst h2; rfl)
      | str v =>
        simp only [bind, Except.bind] at h
        cases h1 : cv.unconvert S.enums a.kind a.required (.str v) with
        | error e => simp [h1] at h
        | ok t =>
          cases h2 : leafOf a t with
          | error e => simp [h1, h2] at h
          | ok child =>
            cases h3 : emitSpec S cv c fields fts items its rest doList with
            | error e => simp [h1, h2, h3] at h
            | ok more =>
              simp only [h1, h2, h3, pure, Except.pure, Except.ok.injEq] at h
              subst h
              refine ⟨child, by simp, ?_⟩
              cases t <;> simp [leafOf] at h2 <;> (subst h2; rfl)
      | dec v =>
        simp only [bind, Except.bind] at h
        cases h1 : cv.unconvert S.enums a.kind a.required (.dec v) with
        | error e => simp [h1] at h
        | ok t =>
          cases h2 : leafOf a t with
          | error e => simp [h1, h2] at h
          | ok child =>
            cases h3 : emitSpec S cv c fields fts items its rest doList with
            | error e => simp [h1, h2, h3] at h
            | ok more =>
              simp only [h1, h2, h3, pure, Except.pure, Except.ok.injEq] at h
              subst h
              refine ⟨child, by simp, ?_⟩
              cases t <;> simp [leafOf] at h2 <;> (subst h2; rfl)
      | dt v =>
        simp only [bind, Except.bind] at h
        cases h1 : cv.unconvert S.enums a.kind a.required (.dt v) with
        | error e => simp [h1] at h
        | ok t =>
          cases h2 : leafOf a t with
          | error e => simp [h1, h2] at h
          | ok child =>
            cases h3 : emitSpec S cv c fields fts items its rest doList with
            | error e => simp [h1, h2, h3] at h
            | ok more =>
              simp only [h1, h2, h3, pure, Except.pure, Except.ok.injEq] at h
              subst h
              refine ⟨child, by simp, ?_⟩
              cases t <;> simp [leafOf] at h2 <;> (subst h2; rfl)
      | tm v =>
        simp only [bind, Except.bind] at h
        cases h1 : cv.unconvert S.enums a.kind a.required (.tm v) with
        | error e => simp [h1] at h
        | ok t =>
          cases h2 : leafOf a t with
          | error e => simp [h1, h2] at h
          | ok child =>
            cases h3 : emitSpec S cv c fields fts items its rest doList with
            | error e => simp [h1, h2, h3] at h
            | ok more =>
              simp only [h1, h2, h3, pure, Except.pure, Except.ok.injEq] at h
              subst h
              refine ⟨child, by simp, ?_⟩
              cases t <;> simp [leafOf] at h2 <;> (subst h2; rfl)
      | other v =>
        simp only [bind, Except.bind] at h
        cases h1 : cv.unconvert S.enums a.kind a.required (.other v) with
        | error e => simp [h1] at h
        | ok t =>
          cases h2 : leafOf a t with
          | error e => simp [h1, h2] at h
          | ok child =>
            cases h3 : emitSpec S cv c fields fts items its rest doList with
            | error e => simp [h1, h2, h3] at h
            | ok more =>
              simp only [h1, h2, h3, pure, Except.pure, Except.ok.injEq] at h
              subst h
              refine ⟨child, by simp, ?_⟩
              cases t <;> simp [leafOf] at h2 <;> (subst h2; rfl)
    · -- a later attribute: whatever `b` contributes is put in front
      have key : ∀ dl out', emitSpec S cv c fields fts items its rest dl = .ok out' →
          ∃ ch ∈ out', ch.tag = upper a.name := fun dl out' h' => ih dl out' h' a hrest hl hu x hx hxn
      have front : ∀ (pre out' : List Tree), (∃ ch ∈ out', ch.tag = upper a.name) →
          ∃ ch ∈ pre ++ out', ch.tag = upper a.name := by
        intro pre out' ⟨ch, hch, ht⟩
        exact ⟨ch, List.mem_append_right _ hch, ht⟩
      unfold emitSpec at h
      split at h
      · split at h
        · simp only [bind, Except.bind] at h
          cases h1 : listAppend S cv c items its with
          | error e => simp [h1] at h
          | ok ms =>
            cases h3 : emitSpec S cv c fields fts items its rest false with
            | error e => simp [h1, h3] at h
            | ok more =>
              simp only [h1, h3, pure, Except.pure, Except.ok.injEq] at h
              subst h
              exact front ms more (key false more h3)
        · exact key false out h
      · split at h
        · exact key doList out h
        · split at h
          · simp at h
          · exact key doList out h
          · simp only [bind, Except.bind] at h
            rename_i heq
            cases h1 : (lookup b.name fts).getD (.error .key) with
            | error e => simp [h1] at h
            | ok child =>
              cases h3 : emitSpec S cv c fields fts items its rest doList with
              | error e => simp [h1, h3] at h
              | ok more =>
                simp only [h1, h3, pure, Except.pure, Except.ok.injEq] at h
                subst h
                exact front [child] more (key doList more h3)
          · simp only [bind, Except.bind] at h
            rename_i v _ heq
            cases h1 : cv.unconvert S.enums b.kind b.required v with
            | error e => simp [h1] at h
            | ok t =>
              cases h2 : leafOf b t with
              | error e => simp [h1, h2] at h
              | ok child =>
                cases h3 : emitSpec S cv c fields fts items its rest doList with
                | error e => simp [h1, h2, h3] at h
                | ok more =>
                  simp only [h1, h2, h3, pure, Except.pure, Except.ok.injEq] at h
                  subst h
                  exact front [child] more (key doList more h3)

theorem renameFirst_has (u : Rename) : ∀ (L : List Tree), (∃ ch ∈ L, ch.tag = u.fromTag) →
    ∃ ch ∈ renameFirst u L, ch.tag = u.toTag
  | [], h => by obtain ⟨_, hm, _⟩ := h; simp at hm
  | (.node t x tl cs) :: rest, h => by
    by_cases ht : t = u.fromTag
    · refine ⟨.node u.toTag x tl cs, ?_, rfl⟩
      simp [renameFirst, ht]
    · obtain ⟨ch, hm, htag⟩ := h
      simp only [List.mem_cons] at hm
      rcases hm with rfl | hm
      · exact absurd htag ht
      · obtain ⟨ch', hm', ht'⟩ := renameFirst_has u rest ⟨ch, hm, htag⟩
        refine ⟨ch', ?_, ht'⟩
        simp [renameFirst, ht, hm']

end Ofx.Agg
