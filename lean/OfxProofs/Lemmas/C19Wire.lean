/-
Lemmas for `Props/C19Wire.lean`: `OfxgetWire.stmtBytes` / `stmtendBytes` taken apart (which `Cfg`, password, dates and
typed request list reach `Compose.requestStatements`), the typed request list of the declarative request tuples, how
the `OFXClient` attributes follow from the mapping, and what `DateTime().convert` makes of a date text of the
notation (from C09).
-/
import OfxModel.Ofx.OfxgetWire
import OfxProofs.Props.C19
import OfxProofs.Props.C09
import OfxProofs.Lemmas.Compose

namespace Ofx.OfxgetWire
open Ofx Ofx.Ofxget Ofx.Compose Ofx.Spec.Ofxget

theorem bindOk {α β : Type} {x : PyM α} {f : α → PyM β} {b : β} (h : (x >>= f) = .ok b) :
    ∃ a, x = .ok a ∧ f a = .ok b := by
  cases x with
  | error e => simp [bind, Except.bind] at h
  | ok a => exact ⟨a, rfl, by simpa [bind, Except.bind] using h⟩

/-! ### the request list on the wire, declaratively -/

/-- `ofxget stmt`: one typed request per configured account — bank accounts by type in the order checking, savings,
    money market, credit line (account type = the upper-cased option name), then credit cards, then investment
    accounts; each with the converted dates and the include flags -/
def wireStmt (a : Accounts) (ds de da : Option DT) (t oo pos bal : Option Bool) : List Req :=
  a.checking.map (fun id => Req.stmt (some id) (some "CHECKING".toList) ds de t) ++
  a.savings.map (fun id => Req.stmt (some id) (some "SAVINGS".toList) ds de t) ++
  a.moneymrkt.map (fun id => Req.stmt (some id) (some "MONEYMRKT".toList) ds de t) ++
  a.creditline.map (fun id => Req.stmt (some id) (some "CREDITLINE".toList) ds de t) ++
  a.creditcard.map (fun id => Req.ccStmt (some id) ds de t) ++
  a.investment.map (fun id => Req.invStmt (some id) ds de da t oo pos bal)

/-- `ofxget stmtend`: bank and credit-card accounts only -/
def wireStmtend (a : Accounts) (ds de : Option DT) : List Req :=
  a.checking.map (fun id => Req.stmtEnd (some id) (some "CHECKING".toList) ds de) ++
  a.savings.map (fun id => Req.stmtEnd (some id) (some "SAVINGS".toList) ds de) ++
  a.moneymrkt.map (fun id => Req.stmtEnd (some id) (some "MONEYMRKT".toList) ds de) ++
  a.creditline.map (fun id => Req.stmtEnd (some id) (some "CREDITLINE".toList) ds de) ++
  a.creditcard.map (fun id => Req.ccStmtEnd (some id) ds de)

/-- all configured account numbers -/
def _root_.Ofx.Spec.Ofxget.Accounts.ids (a : Accounts) : List Str :=
  a.checking ++ a.savings ++ a.moneymrkt ++ a.creditline ++ a.creditcard ++ a.investment

/-- one request per configured account number -/
theorem wireStmt_length (a : Accounts) (ds de da : Option DT) (t oo pos bal : Option Bool) :
    (wireStmt a ds de da t oo pos bal).length = a.ids.length := by
  simp [wireStmt, Accounts.ids]

theorem toReqs_append (l₁ l₂ : List (Rq DT)) (r₁ r₂ : List Req) (h₁ : toReqs l₁ = .ok r₁) (h₂ : toReqs l₂ = .ok r₂) :
    toReqs (l₁ ++ l₂) = .ok (r₁ ++ r₂) := by
  unfold toReqs at *
  rw [List.mapM_append, h₁, h₂]
  rfl

theorem toReqs_map (ids : List Str) (f : Str → Rq DT) (g : Str → Req) (h : ∀ id, toReq (f id) = .ok (g id)) :
    toReqs (ids.map f) = .ok (ids.map g) := by
  unfold toReqs
  induction ids with
  | nil => rfl
  | cons id ids ih => simp [List.mapM_cons, ih, h id, bind, Except.bind, pure, Except.pure]

/-- the typed records of the declarative tuple list (`specStmt`) are the declarative wire list -/
theorem toReqs_specStmt (a : Accounts) (ds de da : Option DT) (t oo pos bal : CfgVal) (tb oob posb balb : Option Bool)
    (ht : optBoolArg t = .ok tb) (hoo : optBoolArg oo = .ok oob) (hpos : optBoolArg pos = .ok posb)
    (hbal : optBoolArg bal = .ok balb) :
    toReqs (specStmt a ⟨ds, de, da, t, oo, pos, bal⟩) = .ok (wireStmt a ds de da tb oob posb balb) := by
  unfold specStmt wireStmt bankStmts
  refine toReqs_append _ _ _ _ (toReqs_append _ _ _ _ (toReqs_append _ _ _ _ (toReqs_append _ _ _ _
    (toReqs_append _ _ _ _ ?_ ?_) ?_) ?_) ?_) ?_
  all_goals
    apply toReqs_map
    intro id
    simp [toReq, ht, hoo, hpos, hbal, bind, Except.bind, pure, Except.pure]

theorem toReqs_specStmtend (a : Accounts) (ds de da : Option DT) (t oo pos bal : CfgVal) :
    toReqs (specStmtend a ⟨ds, de, da, t, oo, pos, bal⟩) = .ok (wireStmtend a ds de) := by
  unfold specStmtend wireStmtend bankStmtends
  refine toReqs_append _ _ _ _ (toReqs_append _ _ _ _ (toReqs_append _ _ _ _ (toReqs_append _ _ _ _ ?_ ?_) ?_) ?_) ?_
  all_goals
    apply toReqs_map
    intro id
    simp [toReq, pure, Except.pure]

/-- texts of the wire list: the account numbers and the four account-type tokens -/
theorem wireStmt_texts (a : Accounts) (ds de da : Option DT) (t oo pos bal : Option Bool) (P : Str → Prop)
    (hids : ∀ id ∈ a.ids, P id) (hty : ∀ ty ∈ requestableBankTypes, P ty) :
    ∀ r ∈ wireStmt a ds de da t oo pos bal, ∀ s ∈ r.texts, P s := by
  intro r hr s hs
  simp only [wireStmt, List.mem_append, List.mem_map] at hr
  have hid : ∀ id, id ∈ a.checking ∨ id ∈ a.savings ∨ id ∈ a.moneymrkt ∨ id ∈ a.creditline ∨ id ∈ a.creditcard ∨
      id ∈ a.investment → P id := by
    intro id h
    apply hids
    simp only [Accounts.ids, List.mem_append]
    grind
  rcases hr with ((((⟨id, hid', rfl⟩ | ⟨id, hid', rfl⟩) | ⟨id, hid', rfl⟩) | ⟨id, hid', rfl⟩) | ⟨id, hid', rfl⟩) |
      ⟨id, hid', rfl⟩ <;>
    simp only [Req.texts, Option.toList, List.mem_append, List.mem_cons, List.mem_nil_iff, or_false] at hs
  · rcases hs with rfl | rfl
    · exact hid _ (by simp [*])
    · exact hty _ (by decide)
  · rcases hs with rfl | rfl
    · exact hid _ (by simp [*])
    · exact hty _ (by decide)
  · rcases hs with rfl | rfl
    · exact hid _ (by simp [*])
    · exact hty _ (by decide)
  · rcases hs with rfl | rfl
    · exact hid _ (by simp [*])
    · exact hty _ (by decide)
  · subst hs; exact hid _ (by simp [*])
  · subst hs; exact hid _ (by simp [*])

theorem wireStmtend_texts (a : Accounts) (ds de : Option DT) (P : Str → Prop)
    (hids : ∀ id ∈ a.ids, P id) (hty : ∀ ty ∈ requestableBankTypes, P ty) :
    ∀ r ∈ wireStmtend a ds de, ∀ s ∈ r.texts, P s := by
  intro r hr s hs
  simp only [wireStmtend, List.mem_append, List.mem_map] at hr
  have hid : ∀ id, id ∈ a.checking ∨ id ∈ a.savings ∨ id ∈ a.moneymrkt ∨ id ∈ a.creditline ∨ id ∈ a.creditcard →
      P id := by
    intro id h
    apply hids
    simp only [Accounts.ids, List.mem_append]
    grind
  rcases hr with (((⟨id, hid', rfl⟩ | ⟨id, hid', rfl⟩) | ⟨id, hid', rfl⟩) | ⟨id, hid', rfl⟩) | ⟨id, hid', rfl⟩ <;>
    simp only [Req.texts, Option.toList, List.mem_append, List.mem_cons, List.mem_nil_iff, or_false] at hs
  · rcases hs with rfl | rfl
    · exact hid _ (by simp [*])
    · exact hty _ (by decide)
  · rcases hs with rfl | rfl
    · exact hid _ (by simp [*])
    · exact hty _ (by decide)
  · rcases hs with rfl | rfl
    · exact hid _ (by simp [*])
    · exact hty _ (by decide)
  · rcases hs with rfl | rfl
    · exact hid _ (by simp [*])
    · exact hty _ (by decide)
  · subst hs; exact hid _ (by simp [*])

/-- the dates of the wire list are among the three converted dates -/
theorem wireStmt_dates (a : Accounts) (ds de da : Option DT) (t oo pos bal : Option Bool) :
    ∀ r ∈ wireStmt a ds de da t oo pos bal, ∀ d ∈ r.dates, d ∈ ds.toList ++ de.toList ++ da.toList := by
  intro r hr d hd
  simp only [wireStmt, List.mem_append, List.mem_map] at hr
  rcases hr with ((((⟨id, _, rfl⟩ | ⟨id, _, rfl⟩) | ⟨id, _, rfl⟩) | ⟨id, _, rfl⟩) | ⟨id, _, rfl⟩) | ⟨id, _, rfl⟩ <;>
    simp only [Req.dates, List.mem_append] at hd ⊢ <;> grind

theorem wireStmtend_dates (a : Accounts) (ds de : Option DT) :
    ∀ r ∈ wireStmtend a ds de, ∀ d ∈ r.dates, d ∈ ds.toList ++ de.toList := by
  intro r hr d hd
  simp only [wireStmtend, List.mem_append, List.mem_map] at hr
  rcases hr with (((⟨id, _, rfl⟩ | ⟨id, _, rfl⟩) | ⟨id, _, rfl⟩) | ⟨id, _, rfl⟩) | ⟨id, _, rfl⟩ <;>
    simp only [Req.dates, List.mem_append] at hd ⊢ <;> grind

/-! ### taking `stmtBytes` apart -/

/-- what `planBytes` hands to `request_statements` -/
theorem planBytes_ok {S : Schema} {cv : Conv} {env : Compose.Env} {plan : Plan DT} {pw : Str} {x : Ext} {text : Str}
    (h : planBytes S cv env plan pw x = .ok text) :
    ∃ cfg nonew reqs, clientOfKw plan.client = .ok cfg ∧ plan.args.getItem "nonewfileuid".toList = .ok nonew ∧
      toReqs plan.requests = .ok reqs ∧
      requestBytes S cv env cfg pw reqs (!truthy nonew) x.uuid x.dtclient = .ok text := by
  unfold planBytes at h
  obtain ⟨cfg, hcfg, h⟩ := bindOk h
  obtain ⟨_, _, h⟩ := bindOk h
  obtain ⟨nonew, hnonew, h⟩ := bindOk h
  obtain ⟨_, _, h⟩ := bindOk h
  obtain ⟨reqs, hreqs, h⟩ := bindOk h
  exact ⟨cfg, nonew, reqs, hcfg, hnonew, hreqs, h⟩

/-- **`ofxget stmt` without `--all`, taken apart**: when the request text is produced, it is the text
    `request_statements` + `serialize` make of the client `init_client(args)` builds, the password `get_passwd`
    delivers, and exactly the declarative wire list of the configured accounts with the converted dates. -/
theorem stmtBytes_configured {S : Schema} {cv : Conv} {env : Compose.Env} (args : Chain) (x : Ext) (a : Accounts)
    (t oo pos bal v : CfgVal) (tb oob posb balb : Option Bool)
    (hall : args.get? "all".toList = some v) (hnot : truthy v = false)
    (ha : HasAccounts args a) (hf : HasFlags args t oo pos bal)
    (ht : optBoolArg t = .ok tb) (hoo : optBoolArg oo = .ok oob) (hpos : optBoolArg pos = .ok posb)
    (hbal : optBoolArg bal = .ok balb)
    {text : Str} (h : stmtBytes S cv env args x = .ok text) :
    ∃ cfg pw dt nonew, clientCfg args = .ok cfg ∧ getPasswd args x.typed = .ok pw ∧
      convertDatetime dateConvert args = .ok dt ∧ args.getItem "nonewfileuid".toList = .ok nonew ∧
      requestBytes S cv env cfg pw (wireStmt a dt.start dt.end dt.asof tb oob posb balb) (!truthy nonew) x.uuid
        x.dtclient = .ok text := by
  unfold stmtBytes at h
  obtain ⟨dt0, hdt0, h⟩ := bindOk h
  obtain ⟨pw, hpw, h⟩ := bindOk h
  obtain ⟨plan, hplan, h⟩ := bindOk h
  obtain ⟨dt, hdt, hrq, hcl, hargs⟩ := requestStmt_configured dateConvert args x.acct a t oo pos bal v hall hnot ha hf
    plan hplan
  obtain ⟨cfg, nonew, reqs, hcfg, hnonew, hreqs, hb⟩ := planBytes_ok h
  rw [hrq, toReqs_specStmt a dt.start dt.end dt.asof t oo pos bal tb oob posb balb ht hoo hpos hbal] at hreqs
  injection hreqs with hreqs
  subst hreqs
  rw [hargs] at hnonew
  refine ⟨cfg, pw, dt, nonew, ?_, hpw, hdt, hnonew, hb⟩
  simp [clientCfg, hcl, hcfg, bind, Except.bind]

/-- likewise `ofxget stmtend` -/
theorem stmtendBytes_configured {S : Schema} {cv : Conv} {env : Compose.Env} (args : Chain) (x : Ext) (a : Accounts)
    (v : CfgVal) (hall : args.get? "all".toList = some v) (hnot : truthy v = false) (ha : HasAccounts args a)
    {text : Str} (h : stmtendBytes S cv env args x = .ok text) :
    ∃ cfg pw dt nonew, clientCfg args = .ok cfg ∧ getPasswd args x.typed = .ok pw ∧
      convertDatetime dateConvert args = .ok dt ∧ args.getItem "nonewfileuid".toList = .ok nonew ∧
      requestBytes S cv env cfg pw (wireStmtend a dt.start dt.end) (!truthy nonew) x.uuid x.dtclient = .ok text := by
  unfold stmtendBytes at h
  obtain ⟨dt0, hdt0, h⟩ := bindOk h
  obtain ⟨pw, hpw, h⟩ := bindOk h
  obtain ⟨plan, hplan, h⟩ := bindOk h
  obtain ⟨dt, hdt, hrq⟩ := C19_configured_stmtend dateConvert args x.acct a v hall hnot ha plan hplan
  -- the client and the mapping of the plan
  have hplan' := hplan
  unfold requestStmtend at hplan'
  obtain ⟨dt1, hdt1, hplan'⟩ := bindOk hplan'
  obtain ⟨_, _, hplan'⟩ := bindOk hplan'
  rw [discover_no_all args x.acct v hall hnot] at hplan'
  obtain ⟨args1, hargs1, hplan'⟩ := bindOk hplan'
  injection hargs1 with hargs1
  subst hargs1
  obtain ⟨rqs, _, hplan'⟩ := bindOk hplan'
  obtain ⟨cl, hcl, hplan'⟩ := bindOk hplan'
  injection hplan' with hplan'
  obtain ⟨cfg, nonew, reqs, hcfg, hnonew, hreqs, hb⟩ := planBytes_ok h
  rw [hrq, toReqs_specStmtend] at hreqs
  injection hreqs with hreqs
  subst hreqs
  subst hplan'
  refine ⟨cfg, pw, dt, nonew, ?_, hpw, hdt, hnonew, hb⟩
  simp [clientCfg, hcl, hcfg, bind, Except.bind]


/-! ### how the client follows from the mapping -/

theorem ok_bind {α β : Type} (a : α) (f : α → PyM β) : ((Except.ok a : PyM α) >>= f) = f a := rfl

/-- the keyword dictionary `init_client` builds, by value -/
def kwOf (url user clientuid org fid version appid appver language pretty unclosed bankid brokerid useragent : CfgVal) :
    Map :=
  [("url".toList, url), ("userid".toList, Ofxget.orNone user), ("clientuid".toList, Ofxget.orNone clientuid),
   ("org".toList, Ofxget.orNone org), ("fid".toList, Ofxget.orNone fid), ("version".toList, version),
   ("appid".toList, Ofxget.orNone appid), ("appver".toList, Ofxget.orNone appver),
   ("language".toList, Ofxget.orNone language), ("prettyprint".toList, pretty),
   ("close_elements".toList, .bool (!truthy unclosed)), ("bankid".toList, Ofxget.orNone bankid),
   ("brokerid".toList, Ofxget.orNone brokerid), ("useragent".toList, Ofxget.orNone useragent)]

theorem initClient_inv (args : Chain) (m : Map) (h : initClient args = .ok m) :
    ∃ url user clientuid org fid version appid appver language pretty unclosed bankid brokerid useragent,
      args.getItem "bankid".toList = .ok bankid ∧ args.getItem "brokerid".toList = .ok brokerid ∧
      args.getItem "unclosedelements".toList = .ok unclosed ∧ args.getItem "version".toList = .ok version ∧
      args.getItem "pretty".toList = .ok pretty ∧
      m = kwOf url user clientuid org fid version appid appver language pretty unclosed bankid brokerid useragent := by
  unfold initClient at h
  obtain ⟨url, _, h⟩ := bindOk h
  obtain ⟨user, _, h⟩ := bindOk h
  obtain ⟨clientuid, _, h⟩ := bindOk h
  obtain ⟨org, _, h⟩ := bindOk h
  obtain ⟨fid, _, h⟩ := bindOk h
  obtain ⟨version, hv, h⟩ := bindOk h
  obtain ⟨appid, _, h⟩ := bindOk h
  obtain ⟨appver, _, h⟩ := bindOk h
  obtain ⟨language, _, h⟩ := bindOk h
  obtain ⟨pretty, hp, h⟩ := bindOk h
  obtain ⟨unclosed, hu, h⟩ := bindOk h
  obtain ⟨bankid, hb, h⟩ := bindOk h
  obtain ⟨brokerid, hk, h⟩ := bindOk h
  obtain ⟨useragent, _, h⟩ := bindOk h
  injection h with h
  exact ⟨url, user, clientuid, org, fid, version, appid, appver, language, pretty, unclosed, bankid, brokerid,
    useragent, hb, hk, hu, hv, hp, h.symm⟩

/-- binding the keyword dictionary to the parameters, by value -/
theorem clientArgs_kwOf (url user clientuid org fid version appid appver language pretty unclosed bankid brokerid
    useragent : CfgVal) (a : InitArgs)
    (h : clientArgs (kwOf url user clientuid org fid version appid appver language pretty unclosed bankid brokerid
      useragent) = .ok a) :
    optStrArg (Ofxget.orNone bankid) = .ok a.bankid ∧ optStrArg (Ofxget.orNone brokerid) = .ok a.brokerid ∧
      a.closeElements = some (!truthy unclosed) ∧ optVersionArg version = .ok a.version ∧
      optBoolArg pretty = .ok a.prettyprint := by
  have e (k : String) (v : CfgVal)
      (hk : kwGet (kwOf url user clientuid org fid version appid appver language pretty unclosed bankid brokerid
        useragent) k = .ok v) : kwGet (kwOf url user clientuid org fid version appid appver language pretty unclosed
        bankid brokerid useragent) k = .ok v := hk
  unfold clientArgs at h
  simp only [e "url" url rfl, e "userid" _ rfl, e "clientuid" _ rfl, e "org" _ rfl, e "fid" _ rfl, e "version" _ rfl,
    e "appid" _ rfl, e "appver" _ rfl, e "language" _ rfl, e "prettyprint" _ rfl, e "close_elements" _ rfl,
    e "bankid" _ rfl, e "brokerid" _ rfl, ok_bind] at h
  obtain ⟨_, _, h⟩ := bindOk h
  obtain ⟨_, _, h⟩ := bindOk h
  obtain ⟨_, _, h⟩ := bindOk h
  obtain ⟨_, _, h⟩ := bindOk h
  obtain ⟨_, _, h⟩ := bindOk h
  obtain ⟨ver, hver, h⟩ := bindOk h
  obtain ⟨_, _, h⟩ := bindOk h
  obtain ⟨_, _, h⟩ := bindOk h
  obtain ⟨_, _, h⟩ := bindOk h
  obtain ⟨pp, hpp, h⟩ := bindOk h
  obtain ⟨ce, hce, h⟩ := bindOk h
  obtain ⟨bid, hbid, h⟩ := bindOk h
  obtain ⟨kid, hkid, h⟩ := bindOk h
  injection h with h
  subst h
  injection hce with hce
  exact ⟨hbid, hkid, hce.symm, hver, hpp⟩

theorem init_inv (a : InitArgs) (cfg : Cfg) (h : init a = .ok cfg) :
    cfg.bankid = a.bankid ∧ cfg.brokerid = a.brokerid ∧ cfg.closeElements = orDefault a.closeElements true ∧
      cfg.version = orDefault a.version 203 ∧ cfg.prettyprint = orDefault a.prettyprint false := by
  unfold init at h
  simp only at h
  split at h
  · cases h
  · injection h with h
    subst h
    exact ⟨rfl, rfl, rfl, rfl, rfl⟩

/-- **how the client follows from the mapping**: bank id and broker id are the configured texts (`None` when empty),
    end tags are written unless `unclosedelements` is set, the version and the pretty-printing flag are the configured
    ones (class defaults 203 / off when `None`) -/
theorem clientCfg_fields (args : Chain) (cfg : Cfg) (h : clientCfg args = .ok cfg) :
    ∃ b k u ver pp verN ppB, args.getItem "bankid".toList = .ok b ∧ args.getItem "brokerid".toList = .ok k ∧
      args.getItem "unclosedelements".toList = .ok u ∧ args.getItem "version".toList = .ok ver ∧
      args.getItem "pretty".toList = .ok pp ∧
      optStrArg (Ofxget.orNone b) = .ok cfg.bankid ∧ optStrArg (Ofxget.orNone k) = .ok cfg.brokerid ∧
      cfg.closeElements = !truthy u ∧
      optVersionArg ver = .ok verN ∧ cfg.version = orDefault verN 203 ∧
      optBoolArg pp = .ok ppB ∧ cfg.prettyprint = orDefault ppB false := by
  unfold clientCfg at h
  obtain ⟨m, hm, h2⟩ := bindOk h
  unfold clientOfKw at h2
  obtain ⟨a, ha, h3⟩ := bindOk h2
  clear h h2
  obtain ⟨url, user, clientuid, org, fid, version, appid, appver, language, pretty, unclosed, bankid, brokerid,
    useragent, hb, hk, hu, hv, hp, rfl⟩ := initClient_inv args m hm
  obtain ⟨a1, a2, a3, a4, a5⟩ := clientArgs_kwOf _ _ _ _ _ _ _ _ _ _ _ _ _ _ a ha
  obtain ⟨i1, i2, i3, i4, i5⟩ := init_inv a cfg h3
  refine ⟨bankid, brokerid, unclosed, version, pretty, a.version, a.prettyprint, hb, hk, hu, hv, hp, ?_, ?_, ?_, a4, i4,
    a5, i5⟩
  · rw [i1]; exact a1
  · rw [i2]; exact a2
  · rw [i3, a3]; rfl


/-! ### the dates -/

section
open Ofx.DateTime Ofx.Spec.Instant

theorem dateConvert_none : dateConvert none = .ok none := rfl

/-- a text of the OFX date-time notation denoting an instant in the years 1000..9999 is converted to the UTC value,
    at millisecond resolution, that denotes the same instant (C09_read) -/
theorem dateConvert_notation (p : Parts) (hwf : p.wf false = true) (hg : lenOk p = true)
    (hr : us1000 ≤ 1000 * p.instant ∧ 1000 * p.instant < usEnd) :
    ∃ d, dateConvert (some p.render) = .ok (some d) ∧ dtUtcMs d ∧ dtInstantUs d = some (1000 * p.instant) := by
  have hrange : minInstant ≤ p.instant ∧ p.instant < endInstant := by
    unfold us1000 usEnd at hr; unfold minInstant endInstant; omega
  obtain ⟨v, hv, d, rfl, hvalid, htz, hinst⟩ := C09_read Ofx.Generated.tzs false p hwf hg hrange
  have hloc := dtInstantUs_local d utc hvalid htz
  rw [hinst] at hloc
  injection hloc with hloc
  have hoff : utc.offUs = 0 := rfl
  rw [hoff] at hloc
  refine ⟨d, ?_, ⟨hvalid, htz, ?_, by omega, by omega⟩, hinst⟩
  · unfold dateConvert
    show (dtConvertWith Ofx.Generated.tzs false (.str p.render) >>= _) = _
    rw [hv]; rfl
  · have : localUs d % 1000 = 0 := by omega
    unfold localUs Ofx.Cal.toUs at this
    omega

end

/-! ### the general case (`--all` included) -/

theorem requestStmt_client {δ : Type} (D : Option Str → PyM (Option δ)) (args : Chain) (acct : PyM (List AcctInfo))
    (plan : Plan δ) (h : requestStmt D args acct = .ok plan) :
    ∃ dt, convertDatetime D args = .ok dt ∧ stmtRequests dt plan.args = .ok plan.requests ∧
      initClient plan.args = .ok plan.client := by
  unfold requestStmt at h
  obtain ⟨dt, hdt, h⟩ := bindOk h
  obtain ⟨_, _, h⟩ := bindOk h
  obtain ⟨args', _, h⟩ := bindOk h
  obtain ⟨rqs, hrqs, h⟩ := bindOk h
  obtain ⟨cl, hcl, h⟩ := bindOk h
  injection h with h
  subst h
  exact ⟨dt, hdt, hrqs, hcl⟩

theorem requestStmtend_client {δ : Type} (D : Option Str → PyM (Option δ)) (args : Chain) (acct : PyM (List AcctInfo))
    (plan : Plan δ) (h : requestStmtend D args acct = .ok plan) :
    ∃ dt, convertDatetime D args = .ok dt ∧ stmtendRequests dt plan.args = .ok plan.requests ∧
      initClient plan.args = .ok plan.client := by
  unfold requestStmtend at h
  obtain ⟨dt, hdt, h⟩ := bindOk h
  obtain ⟨_, _, h⟩ := bindOk h
  obtain ⟨args', _, h⟩ := bindOk h
  obtain ⟨rqs, hrqs, h⟩ := bindOk h
  obtain ⟨cl, hcl, h⟩ := bindOk h
  injection h with h
  subst h
  exact ⟨dt, hdt, hrqs, hcl⟩

/-- **`ofxget stmt`, taken apart (any mapping, `--all` included)** -/
theorem stmtBytes_ok {S : Schema} {cv : Conv} {env : Compose.Env} (args : Chain) (x : Ext) {text : Str}
    (h : stmtBytes S cv env args x = .ok text) :
    ∃ pw plan cfg nonew reqs, getPasswd args x.typed = .ok pw ∧ requestStmt dateConvert args x.acct = .ok plan ∧
      clientCfg plan.args = .ok cfg ∧ plan.args.getItem "nonewfileuid".toList = .ok nonew ∧
      toReqs plan.requests = .ok reqs ∧
      requestBytes S cv env cfg pw reqs (!truthy nonew) x.uuid x.dtclient = .ok text := by
  unfold stmtBytes at h
  obtain ⟨dt0, hdt0, h⟩ := bindOk h
  obtain ⟨pw, hpw, h⟩ := bindOk h
  obtain ⟨plan, hplan, h⟩ := bindOk h
  obtain ⟨cfg, nonew, reqs, hcfg, hnonew, hreqs, hb⟩ := planBytes_ok h
  obtain ⟨_, _, _, hcl⟩ := requestStmt_client dateConvert args x.acct plan hplan
  refine ⟨pw, plan, cfg, nonew, reqs, hpw, hplan, ?_, hnonew, hreqs, hb⟩
  simp [clientCfg, hcl, hcfg, bind, Except.bind]

theorem stmtendBytes_ok {S : Schema} {cv : Conv} {env : Compose.Env} (args : Chain) (x : Ext) {text : Str}
    (h : stmtendBytes S cv env args x = .ok text) :
    ∃ pw plan cfg nonew reqs, getPasswd args x.typed = .ok pw ∧ requestStmtend dateConvert args x.acct = .ok plan ∧
      clientCfg plan.args = .ok cfg ∧ plan.args.getItem "nonewfileuid".toList = .ok nonew ∧
      toReqs plan.requests = .ok reqs ∧
      requestBytes S cv env cfg pw reqs (!truthy nonew) x.uuid x.dtclient = .ok text := by
  unfold stmtendBytes at h
  obtain ⟨dt0, hdt0, h⟩ := bindOk h
  obtain ⟨pw, hpw, h⟩ := bindOk h
  obtain ⟨plan, hplan, h⟩ := bindOk h
  obtain ⟨cfg, nonew, reqs, hcfg, hnonew, hreqs, hb⟩ := planBytes_ok h
  obtain ⟨_, _, _, hcl⟩ := requestStmtend_client dateConvert args x.acct plan hplan
  refine ⟨pw, plan, cfg, nonew, reqs, hpw, hplan, ?_, hnonew, hreqs, hb⟩
  simp [clientCfg, hcl, hcfg, bind, Except.bind]

/-- the account a typed request is for -/
def reqKey : Req → Option AcctKey
  | .stmt (some id) (some ty) _ _ _ => some (.bank id ty)
  | .stmtEnd (some id) (some ty) _ _ => some (.bank id ty)
  | .ccStmt (some id) _ _ _ => some (.cc id)
  | .ccStmtEnd (some id) _ _ => some (.cc id)
  | .invStmt (some id) _ _ _ _ _ _ _ => some (.inv id)
  | _ => none

/-- the texts that designate an account -/
def _root_.Ofx.Spec.Ofxget.AcctKey.texts : AcctKey → List Str
  | .bank id ty => [id, ty]
  | .cc id => [id]
  | .inv id => [id]

/-- the dates of a request tuple -/
def rqDates : Rq DT → List DT
  | .stmt _ _ s e _ => s.toList ++ e.toList
  | .ccstmt _ s e _ => s.toList ++ e.toList
  | .invstmt _ s e a _ _ _ _ => s.toList ++ e.toList ++ a.toList
  | .stmtend _ _ s e => s.toList ++ e.toList
  | .ccstmtend _ s e => s.toList ++ e.toList

/-- the typed record is for the same account, with the same texts and dates, as the tuple -/
theorem toReq_same (r : Rq DT) (q : Req) (h : toReq r = .ok q) :
    reqKey q = some (rqAcct r) ∧ q.texts = (rqAcct r).texts ∧ q.dates = rqDates r := by
  cases r with
  | stmt id ty s e t =>
    simp only [toReq] at h
    obtain ⟨tb, _, h⟩ := bindOk h
    injection h with h; subst h
    exact ⟨rfl, rfl, rfl⟩
  | ccstmt id s e t =>
    simp only [toReq] at h
    obtain ⟨tb, _, h⟩ := bindOk h
    injection h with h; subst h
    exact ⟨rfl, rfl, rfl⟩
  | invstmt id s e a t oo pos bal =>
    simp only [toReq] at h
    obtain ⟨tb, _, h⟩ := bindOk h
    obtain ⟨ob, _, h⟩ := bindOk h
    obtain ⟨pb, _, h⟩ := bindOk h
    obtain ⟨bb, _, h⟩ := bindOk h
    injection h with h; subst h
    exact ⟨rfl, rfl, rfl⟩
  | stmtend id ty s e =>
    simp only [toReq, pure, Except.pure] at h
    injection h with h; subst h
    exact ⟨rfl, rfl, rfl⟩
  | ccstmtend id s e =>
    simp only [toReq, pure, Except.pure] at h
    injection h with h; subst h
    exact ⟨rfl, rfl, rfl⟩

theorem toReqs_keys (l : List (Rq DT)) (qs : List Req) (h : toReqs l = .ok qs) :
    qs.map reqKey = l.map (fun r => some (rqAcct r)) := by
  unfold toReqs at h
  induction l generalizing qs with
  | nil =>
    simp only [List.mapM_nil, pure, Except.pure] at h
    injection h with h; subst h; rfl
  | cons r l ih =>
    rw [List.mapM_cons] at h
    obtain ⟨q, hq, h⟩ := bindOk h
    obtain ⟨qs', hqs', h⟩ := bindOk h
    injection h with h; subst h
    simp only [List.map_cons, (toReq_same r q hq).1, ih qs' hqs']

theorem toReqs_length (l : List (Rq DT)) (qs : List Req) (h : toReqs l = .ok qs) : qs.length = l.length := by
  have := congrArg List.length (toReqs_keys l qs h)
  simpa using this

/-- every typed request comes from a tuple -/
theorem toReqs_mem (l : List (Rq DT)) (qs : List Req) (h : toReqs l = .ok qs) :
    ∀ q ∈ qs, ∃ r ∈ l, toReq r = .ok q :=
  (mapM_ok_mem toReq l qs h).1

/-! ### the request tuples carry none but the converted dates -/

/-- the converted dates of a run -/
def _root_.Ofx.Ofxget.Dates.all (dt : Dates DT) : List DT := dt.start.toList ++ dt.end.toList ++ dt.asof.toList

/-- a request tuple carries none but the converted dates -/
def DatesFrom (dt : Dates DT) (r : Rq DT) : Prop := ∀ d ∈ rqDates r, d ∈ Dates.all dt

theorem bankStep_dates (dt : Dates DT) (args : Chain) (ty : Str) (acc out : List (Rq DT))
    (hacc : ∀ r ∈ acc, DatesFrom dt r)
    (h : (do
      let ids ← acctIds args ty
      let inctran ← args.getItem "inctran".toList
      pure (acc ++ ids.map fun id => Rq.stmt id (upper ty) dt.start dt.end inctran) : PyM (List (Rq DT))) = .ok out) :
    ∀ r ∈ out, DatesFrom dt r := by
  obtain ⟨ids, _, h⟩ := bindOk h
  obtain ⟨t, _, h⟩ := bindOk h
  injection h with h
  subst h
  intro r hr
  rcases List.mem_append.mp hr with hr | hr
  · exact hacc r hr
  · obtain ⟨id, _, rfl⟩ := List.mem_map.mp hr
    intro d hd
    simp only [rqDates, Dates.all, List.mem_append] at hd ⊢
    exact Or.inl hd

theorem stmtRequests_dates (dt : Dates DT) (args : Chain) (rqs : List (Rq DT)) (h : stmtRequests dt args = .ok rqs) :
    ∀ r ∈ rqs, DatesFrom dt r := by
  unfold stmtRequests at h
  obtain ⟨bank, hbank, h⟩ := bindOk h
  obtain ⟨ccIds, _, h⟩ := bindOk h
  obtain ⟨cc, hcc, h⟩ := bindOk h
  obtain ⟨invIds, _, h⟩ := bindOk h
  obtain ⟨inv, hinv, h⟩ := bindOk h
  injection h with h
  subst h
  have hb : ∀ r ∈ bank, DatesFrom dt r := by
    simp only [bankTypes, List.foldlM] at hbank
    obtain ⟨a1, h1, hbank⟩ := bindOk hbank
    obtain ⟨a2, h2, hbank⟩ := bindOk hbank
    obtain ⟨a3, h3, hbank⟩ := bindOk hbank
    obtain ⟨a4, h4, hbank⟩ := bindOk hbank
    injection hbank with hbank
    subst hbank
    have d1 := bankStep_dates dt args _ [] a1 (by intro r hr; cases hr) h1
    have d2 := bankStep_dates dt args _ a1 a2 d1 h2
    have d3 := bankStep_dates dt args _ a2 a3 d2 h3
    exact bankStep_dates dt args _ a3 a4 d3 h4
  intro r hr
  rcases List.mem_append.mp hr with hr | hr
  · rcases List.mem_append.mp hr with hr | hr
    · exact hb r hr
    · obtain ⟨id, _, hid⟩ := (mapM_ok_mem _ ccIds cc hcc).1 r hr
      obtain ⟨t, _, hid⟩ := bindOk hid
      injection hid with hid
      subst hid
      intro d hd
      simp only [rqDates, Dates.all, List.mem_append] at hd ⊢
      exact Or.inl hd
  · obtain ⟨id, _, hid⟩ := (mapM_ok_mem _ invIds inv hinv).1 r hr
    obtain ⟨t, _, hid⟩ := bindOk hid
    obtain ⟨oo, _, hid⟩ := bindOk hid
    obtain ⟨pos, _, hid⟩ := bindOk hid
    obtain ⟨bal, _, hid⟩ := bindOk hid
    injection hid with hid
    subst hid
    intro d hd
    simpa only [rqDates, Dates.all, List.mem_append] using hd

theorem bankEndStep_dates (dt : Dates DT) (args : Chain) (ty : Str) (acc out : List (Rq DT))
    (hacc : ∀ r ∈ acc, DatesFrom dt r)
    (h : (do
      let ids ← acctIds args ty
      pure (acc ++ ids.map fun id => Rq.stmtend id (upper ty) dt.start dt.end) : PyM (List (Rq DT))) = .ok out) :
    ∀ r ∈ out, DatesFrom dt r := by
  obtain ⟨ids, _, h⟩ := bindOk h
  injection h with h
  subst h
  intro r hr
  rcases List.mem_append.mp hr with hr | hr
  · exact hacc r hr
  · obtain ⟨id, _, rfl⟩ := List.mem_map.mp hr
    intro d hd
    simp only [rqDates, Dates.all, List.mem_append] at hd ⊢
    exact Or.inl hd

theorem stmtendRequests_dates (dt : Dates DT) (args : Chain) (rqs : List (Rq DT))
    (h : stmtendRequests dt args = .ok rqs) : ∀ r ∈ rqs, DatesFrom dt r := by
  unfold stmtendRequests at h
  obtain ⟨bank, hbank, h⟩ := bindOk h
  obtain ⟨ccIds, _, h⟩ := bindOk h
  injection h with h
  subst h
  have hb : ∀ r ∈ bank, DatesFrom dt r := by
    simp only [bankTypes, List.foldlM] at hbank
    obtain ⟨a1, h1, hbank⟩ := bindOk hbank
    obtain ⟨a2, h2, hbank⟩ := bindOk hbank
    obtain ⟨a3, h3, hbank⟩ := bindOk hbank
    obtain ⟨a4, h4, hbank⟩ := bindOk hbank
    injection hbank with hbank
    subst hbank
    have d1 := bankEndStep_dates dt args _ [] a1 (by intro r hr; cases hr) h1
    have d2 := bankEndStep_dates dt args _ a1 a2 d1 h2
    have d3 := bankEndStep_dates dt args _ a2 a3 d2 h3
    exact bankEndStep_dates dt args _ a3 a4 d3 h4
  intro r hr
  rcases List.mem_append.mp hr with hr | hr
  · exact hb r hr
  · obtain ⟨id, _, rfl⟩ := List.mem_map.mp hr
    intro d hd
    simp only [rqDates, Dates.all, List.mem_append] at hd ⊢
    exact Or.inl hd

/-! ### reading `RequestSpec`: one wrapper per request, nothing but wrappers -/

section
open Ofx.Spec.Request

theorem all2_length {α β : Type} (p : α → β → Bool) (l : List α) (m : List β) (h : all2 p l m = true) :
    l.length = m.length := by
  induction l generalizing m with
  | nil => cases m with
    | nil => rfl
    | cons b bs => simp [all2] at h
  | cons a as ih => cases m with
    | nil => simp [all2] at h
    | cons b bs =>
      simp only [all2, Bool.and_eq_true] at h
      simp [ih bs h.2]

theorem clause_nil (name : String) (b : Bool) (h : clause name b = []) : b = true := by
  cases b with
  | true => rfl
  | false => simp [clause] at h

theorem isNone_items (n : Node) (h : n.isNone = true) : n.items = [] := by
  cases n with
  | val v => rfl
  | agg c f i => simp [Node.isNone] at h

/-- **one wrapper per request, kind by kind**: in an instance satisfying `RequestSpec` for `reqs`, the wrappers of
    kind `k` inside the message set of `k` are as many as the requests of kind `k` (and correspond to them one to one,
    in order: the `wrappers.K` clause) -/
theorem spec_count (S : Schema) (cfg : Cfg) (pw : Str) (dtc : DT) (reqs : List Req) (hv : Int) (root : Node)
    (h : RequestSpec S cfg pw dtc reqs hv root) (k : RKind) :
    ((fieldVal root k.msgset.attrName).items.filter (isWrapper S k)).length =
      (reqs.filter (fun r => decide (r.kind = k))).length := by
  unfold RequestSpec check at h
  have hm : msgsetClauses S cfg reqs k.msgset root = [] := by
    have h1 := (List.append_eq_nil_iff.mp h).1
    have h2 := (List.append_eq_nil_iff.mp h1).2
    rw [List.flatMap_eq_nil_iff] at h2
    exact h2 k.msgset (by cases k <;> simp [allMsgSets, RKind.msgset])
  unfold msgsetClauses at hm
  simp only at hm
  split at hm
  · rename_i hemp
    have hnone := clause_nil _ _ hm
    rw [isNone_items _ hnone]
    have : reqs.filter (fun r => decide (r.kind = k)) = [] := by
      rw [List.filter_eq_nil_iff]
      intro r hr hk
      have hk' : r.kind = k := by simpa using hk
      have : r ∈ reqs.filter (fun r => decide (r.kind.msgset = k.msgset)) := by
        rw [List.mem_filter]; exact ⟨hr, by simp [hk']⟩
      rw [List.isEmpty_iff.mp hemp] at this
      cases this
    simp [this]
  · have h3 := (List.append_eq_nil_iff.mp hm).2
    rw [List.flatMap_eq_nil_iff] at h3
    have h4 := clause_nil _ _ (h3 k (by cases k <;> simp [kindsUnder, RKind.msgset]))
    exact (all2_length _ _ _ h4).symm


/-- **nothing but statement wrappers**: in an instance satisfying `RequestSpec`, every member of a message set is a
    transaction wrapper of one of that message set's request kinds -/
theorem spec_only_wrappers (S : Schema) (cfg : Cfg) (pw : Str) (dtc : DT) (reqs : List Req) (hv : Int) (root : Node)
    (h : RequestSpec S cfg pw dtc reqs hv root) (m : MsgSet) :
    ∀ w ∈ (fieldVal root m.attrName).items, ∃ k ∈ kindsUnder m, isWrapper S k w = true := by
  unfold RequestSpec check at h
  have hm : msgsetClauses S cfg reqs m root = [] := by
    have h1 := (List.append_eq_nil_iff.mp h).1
    have h2 := (List.append_eq_nil_iff.mp h1).2
    rw [List.flatMap_eq_nil_iff] at h2
    exact h2 m (by cases m <;> simp [allMsgSets])
  unfold msgsetClauses at hm
  simp only at hm
  split at hm
  · rw [isNone_items _ (clause_nil _ _ hm)]
    intro w hw; cases hw
  · have h3 := (List.append_eq_nil_iff.mp hm).1
    have h4 := clause_nil _ _ (List.append_eq_nil_iff.mp h3).2
    intro w hw
    have := List.all_eq_true.mp h4 w hw
    obtain ⟨k, hk, hkw⟩ := List.any_eq_true.mp this
    exact ⟨k, hk, hkw⟩

end

/-! ### how many requests of each kind -/

theorem kindCount (l : List Str) (g : Str → Req) (k k' : RKind) (h : ∀ id, (g id).kind = k') :
    ((l.map g).filter (fun r => decide (r.kind = k))).length = if k' = k then l.length else 0 := by
  induction l with
  | nil => simp
  | cons x xs ih =>
    by_cases hk : k' = k
    · simp only [hk, if_true] at ih ⊢
      simp [h x, hk, ih]
    · simp only [hk, if_false] at ih ⊢
      simp [h x, hk, ih]

/-- how many requests of each kind `ofxget stmt` makes -/
theorem wireStmt_kinds (a : Accounts) (ds de da : Option DT) (t oo pos bal : Option Bool) (k : RKind) :
    ((wireStmt a ds de da t oo pos bal).filter (fun r => decide (r.kind = k))).length =
      match k with
      | .stmt => a.checking.length + a.savings.length + a.moneymrkt.length + a.creditline.length
      | .ccStmt => a.creditcard.length
      | .invStmt => a.investment.length
      | .stmtEnd => 0
      | .ccStmtEnd => 0 := by
  simp only [wireStmt, List.filter_append, List.length_append]
  rw [kindCount a.checking _ k .stmt (fun _ => rfl), kindCount a.savings _ k .stmt (fun _ => rfl),
    kindCount a.moneymrkt _ k .stmt (fun _ => rfl), kindCount a.creditline _ k .stmt (fun _ => rfl),
    kindCount a.creditcard _ k .ccStmt (fun _ => rfl), kindCount a.investment _ k .invStmt (fun _ => rfl)]
  cases k <;> simp

theorem wireStmtend_kinds (a : Accounts) (ds de : Option DT) (k : RKind) :
    ((wireStmtend a ds de).filter (fun r => decide (r.kind = k))).length =
      match k with
      | .stmtEnd => a.checking.length + a.savings.length + a.moneymrkt.length + a.creditline.length
      | .ccStmtEnd => a.creditcard.length
      | .stmt => 0
      | .ccStmt => 0
      | .invStmt => 0 := by
  simp only [wireStmtend, List.filter_append, List.length_append]
  rw [kindCount a.checking _ k .stmtEnd (fun _ => rfl), kindCount a.savings _ k .stmtEnd (fun _ => rfl),
    kindCount a.moneymrkt _ k .stmtEnd (fun _ => rfl), kindCount a.creditline _ k .stmtEnd (fun _ => rfl),
    kindCount a.creditcard _ k .ccStmtEnd (fun _ => rfl)]
  cases k <;> simp

end Ofx.OfxgetWire
