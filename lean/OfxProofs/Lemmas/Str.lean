/-
Lemmas about the Python string primitives (`OfxModel/Py/Str.lean`): `replace`, `saxutils.unescape`,
`ET._escape_cdata`, and the one-pass entity decoder of the specification (`Spec/Denote.lean`).
-/
import OfxModel.Py.Str
import OfxModel.Spec.Denote

namespace Ofx
open Ofx.Spec

/-! ### `replace` -/

theorem replaceGo_skip (old new : Str) :
    ∀ (k : Nat) (s : Str), replaceGo old new k s = replaceGo old new 0 (s.drop k) := by
  intro k
  induction k with
  | zero => intro s; simp
  | succ k ih =>
    intro s
    cases s with
    | nil => simp [replaceGo]
    | cons c cs => simp [replaceGo, ih cs]

/-- unfolding of `replace` at a non-empty string -/
theorem replace_cons (old new : Str) (c : Char) (cs : Str) :
    replace old new (c :: cs) =
      if old.isPrefixOf (c :: cs) then new ++ replace old new (cs.drop (old.length - 1))
      else c :: replace old new cs := by
  unfold replace
  simp only [replaceGo]
  split
  · rw [replaceGo_skip]
  · rfl

@[simp] theorem replace_nil (old new : Str) : replace old new [] = [] := by
  simp [replace, replaceGo]

/-- a character other than the first of `old` is copied -/
theorem replace_cons_ne (a : Char) (o new : Str) (c : Char) (cs : Str) (h : c ≠ a) :
    replace (a :: o) new (c :: cs) = c :: replace (a :: o) new cs := by
  rw [replace_cons]
  have : (a :: o).isPrefixOf (c :: cs) = false := by
    simp [List.isPrefixOf]
    intro h'; exact absurd h'.symm h
  simp [this]

/-- replacing occurrences of a pattern starting with `a` by the one character `r` does not change whether a
    pattern `p` free of `a` and `r` is a prefix -/
theorem isPrefixOf_replace (a r : Char) (o : Str) :
    ∀ (p x : Str), (∀ ch ∈ p, ch ≠ a) → (∀ ch ∈ p, ch ≠ r) →
      p.isPrefixOf (replace (a :: o) [r] x) = p.isPrefixOf x := by
  intro p
  induction p with
  | nil => intro x _ _; simp
  | cons b p ih =>
    intro x ha hr
    cases x with
    | nil => simp
    | cons c cs =>
      by_cases hc : c = a
      · subst hc
        have hb : b ≠ c := ha b (by simp)
        have hbr : b ≠ r := hr b (by simp)
        have e1 : (b == r) = false := by simp [hbr]
        have e2 : (b == c) = false := by simp [hb]
        rw [replace_cons]
        split <;> simp [List.isPrefixOf, e1, e2]
      · rw [replace_cons_ne a o [r] c cs hc]
        simp only [List.isPrefixOf]
        rw [ih cs (fun ch h => ha ch (by simp [h])) (fun ch h => hr ch (by simp [h]))]

/-! ### the one-pass decoder -/

theorem decodeGo_skip : ∀ (k : Nat) (s : Str), decodeGo k s = decodeGo 0 (s.drop k) := by
  intro k
  induction k with
  | zero => intro s; simp
  | succ k ih =>
    intro s
    cases s with
    | nil => simp [decodeGo]
    | cons c cs => simp [decodeGo, ih cs]

@[simp] theorem decodeEntities_nil : decodeEntities [] = [] := by simp [decodeEntities, decodeGo]

/-- unfolding of the one-pass decoder -/
theorem decodeEntities_cons (c : Char) (cs : Str) :
    decodeEntities (c :: cs) =
      match entityAt (c :: cs) with
      | some (ch, n) => ch :: decodeEntities (cs.drop (n - 1))
      | none => c :: decodeEntities cs := by
  cases h : entityAt (c :: cs) with
  | none => simp [decodeEntities, decodeGo, h]
  | some p =>
    obtain ⟨ch, n⟩ := p
    simp [decodeEntities, decodeGo, h, decodeGo_skip (n - 1)]

theorem entityAt_ne_amp (c : Char) (cs : Str) (h : c ≠ '&') : entityAt (c :: cs) = none := by
  have h' : ('&' == c) = false := by simp; exact fun e => h e.symm
  simp [entityAt, entities, List.find?, List.isPrefixOf, h']

/-- the entity at an ampersand, by the text that follows it -/
theorem entityAt_amp (r : Str) :
    entityAt ('&' :: r) =
      if ['l', 't', ';'].isPrefixOf r then some ('<', 4)
      else if ['g', 't', ';'].isPrefixOf r then some ('>', 4)
      else if ['n', 'b', 's', 'p', ';'].isPrefixOf r then some (' ', 6)
      else if ['a', 'p', 'o', 's', ';'].isPrefixOf r then some ('\'', 6)
      else if ['q', 'u', 'o', 't', ';'].isPrefixOf r then some ('"', 6)
      else if ['a', 'm', 'p', ';'].isPrefixOf r then some ('&', 5)
      else none := by
  simp only [entityAt, entities, List.find?]
  repeat' split
  all_goals simp_all

/-! ### `saxutils.unescape` step by step -/

theorem unescape_nil : unescape [] = [] := by simp [unescape]

theorem unescape_cons_ne (c : Char) (r : Str) (h : c ≠ '&') : unescape (c :: r) = c :: unescape r := by
  simp only [unescape]
  simp [replace_cons_ne _ _ _ c _ h]

theorem prefix_split (p r : Str) (h : p.isPrefixOf r = true) : ∃ r', r = p ++ r' := by
  have := List.isPrefixOf_iff_prefix.mp h
  exact ⟨r.drop p.length, (List.prefix_iff_eq_append.mp this).symm⟩

theorem unescape_lt (r : Str) : unescape ('&' :: 'l' :: 't' :: ';' :: r) = '<' :: unescape r := by
  simp only [unescape]
  simp [replace_cons, List.isPrefixOf]

theorem unescape_gt (r : Str) : unescape ('&' :: 'g' :: 't' :: ';' :: r) = '>' :: unescape r := by
  simp only [unescape]
  simp [replace_cons, List.isPrefixOf]

theorem unescape_nbsp (r : Str) : unescape ('&' :: 'n' :: 'b' :: 's' :: 'p' :: ';' :: r) = ' ' :: unescape r := by
  simp only [unescape]
  simp [replace_cons, List.isPrefixOf]

theorem unescape_apos (r : Str) : unescape ('&' :: 'a' :: 'p' :: 'o' :: 's' :: ';' :: r) = '\'' :: unescape r := by
  simp only [unescape]
  simp [replace_cons, List.isPrefixOf]

theorem unescape_quot (r : Str) : unescape ('&' :: 'q' :: 'u' :: 'o' :: 't' :: ';' :: r) = '"' :: unescape r := by
  simp only [unescape]
  simp [replace_cons, List.isPrefixOf]

theorem unescape_amp (r : Str) : unescape ('&' :: 'a' :: 'm' :: 'p' :: ';' :: r) = '&' :: unescape r := by
  simp only [unescape]
  simp [replace_cons, List.isPrefixOf]

theorem unescape_def (s : Str) : unescape s =
    replace ['&', 'a', 'm', 'p', ';'] ['&'] (replace ['&', 'q', 'u', 'o', 't', ';'] ['"']
      (replace ['&', 'a', 'p', 'o', 's', ';'] ['\''] (replace ['&', 'n', 'b', 's', 'p', ';'] [' ']
        (replace ['&', 'g', 't', ';'] ['>'] (replace ['&', 'l', 't', ';'] ['<'] s))))) := rfl

theorem pass_keeps (rr : Char) (o p x : Str) (ha : ∀ ch ∈ p, ch ≠ '&') (hr : ∀ ch ∈ p, ch ≠ rr)
    (h : p.isPrefixOf x = false) : p.isPrefixOf (replace ('&' :: o) [rr] x) = false := by
  rw [isPrefixOf_replace '&' rr o p x ha hr]; exact h

theorem pass_amp (rr : Char) (o x : Str) (h : o.isPrefixOf x = false) :
    replace ('&' :: o) [rr] ('&' :: x) = '&' :: replace ('&' :: o) [rr] x := by
  rw [replace_cons]; simp [List.isPrefixOf, h]

/-- an ampersand that starts none of the six entities is copied -/
theorem unescape_amp_none (r : Str)
    (h1 : ['l', 't', ';'].isPrefixOf r = false) (h2 : ['g', 't', ';'].isPrefixOf r = false)
    (h3 : ['n', 'b', 's', 'p', ';'].isPrefixOf r = false) (h4 : ['a', 'p', 'o', 's', ';'].isPrefixOf r = false)
    (h5 : ['q', 'u', 'o', 't', ';'].isPrefixOf r = false) (h6 : ['a', 'm', 'p', ';'].isPrefixOf r = false) :
    unescape ('&' :: r) = '&' :: unescape r := by
  simp only [unescape_def]
  rw [pass_amp _ _ _ h1]
  have g2 := pass_keeps '<' ['l', 't', ';'] _ r (by simp) (by simp) h2
  have g3 := pass_keeps '<' ['l', 't', ';'] _ r (by simp) (by simp) h3
  have g4 := pass_keeps '<' ['l', 't', ';'] _ r (by simp) (by simp) h4
  have g5 := pass_keeps '<' ['l', 't', ';'] _ r (by simp) (by simp) h5
  have g6 := pass_keeps '<' ['l', 't', ';'] _ r (by simp) (by simp) h6
  generalize replace ['&', 'l', 't', ';'] ['<'] r = x1 at *
  rw [pass_amp _ _ _ g2]
  have k3 := pass_keeps '>' ['g', 't', ';'] _ x1 (by simp) (by simp) g3
  have k4 := pass_keeps '>' ['g', 't', ';'] _ x1 (by simp) (by simp) g4
  have k5 := pass_keeps '>' ['g', 't', ';'] _ x1 (by simp) (by simp) g5
  have k6 := pass_keeps '>' ['g', 't', ';'] _ x1 (by simp) (by simp) g6
  generalize replace ['&', 'g', 't', ';'] ['>'] x1 = x2 at *
  rw [pass_amp _ _ _ k3]
  have m4 := pass_keeps ' ' ['n', 'b', 's', 'p', ';'] _ x2 (by simp) (by simp) k4
  have m5 := pass_keeps ' ' ['n', 'b', 's', 'p', ';'] _ x2 (by simp) (by simp) k5
  have m6 := pass_keeps ' ' ['n', 'b', 's', 'p', ';'] _ x2 (by simp) (by simp) k6
  generalize replace ['&', 'n', 'b', 's', 'p', ';'] [' '] x2 = x3 at *
  rw [pass_amp _ _ _ m4]
  have n5 := pass_keeps '\'' ['a', 'p', 'o', 's', ';'] _ x3 (by simp) (by simp) m5
  have n6 := pass_keeps '\'' ['a', 'p', 'o', 's', ';'] _ x3 (by simp) (by simp) m6
  generalize replace ['&', 'a', 'p', 'o', 's', ';'] ['\''] x3 = x4 at *
  rw [pass_amp _ _ _ n5]
  have q6 := pass_keeps '"' ['q', 'u', 'o', 't', ';'] _ x4 (by simp) (by simp) n6
  generalize replace ['&', 'q', 'u', 'o', 't', ';'] ['"'] x4 = x5 at *
  rw [pass_amp _ _ _ q6]

/-- `saxutils.unescape` obeys the unfolding equation of the one-pass decoder -/
theorem unescape_cons (c : Char) (r : Str) :
    unescape (c :: r) =
      match entityAt (c :: r) with
      | some (ch, n) => ch :: unescape (r.drop (n - 1))
      | none => c :: unescape r := by
  by_cases hc : c = '&'
  · subst hc
    rw [entityAt_amp]
    by_cases h1 : ['l', 't', ';'].isPrefixOf r = true
    · obtain ⟨r', rfl⟩ := prefix_split _ _ h1
      simp [unescape_lt]
    by_cases h2 : ['g', 't', ';'].isPrefixOf r = true
    · obtain ⟨r', rfl⟩ := prefix_split _ _ h2
      simp [unescape_gt, List.isPrefixOf]
    by_cases h3 : ['n', 'b', 's', 'p', ';'].isPrefixOf r = true
    · obtain ⟨r', rfl⟩ := prefix_split _ _ h3
      simp [unescape_nbsp, List.isPrefixOf]
    by_cases h4 : ['a', 'p', 'o', 's', ';'].isPrefixOf r = true
    · obtain ⟨r', rfl⟩ := prefix_split _ _ h4
      simp [unescape_apos, List.isPrefixOf]
    by_cases h5 : ['q', 'u', 'o', 't', ';'].isPrefixOf r = true
    · obtain ⟨r', rfl⟩ := prefix_split _ _ h5
      simp [unescape_quot, List.isPrefixOf]
    by_cases h6 : ['a', 'm', 'p', ';'].isPrefixOf r = true
    · obtain ⟨r', rfl⟩ := prefix_split _ _ h6
      simp [unescape_amp, List.isPrefixOf]
    simp only [Bool.not_eq_true] at h1 h2 h3 h4 h5 h6
    rw [unescape_amp_none r h1 h2 h3 h4 h5 h6]
    simp [h1, h2, h3, h4, h5, h6]
  · rw [entityAt_ne_amp c r hc, unescape_cons_ne c r hc]

/-- **`unescape_onepass`**: the five sequential `replace` calls of `saxutils.unescape` followed by the `&amp;`
    pass coincide, on every string, with decoding the six entities in one left-to-right pass. -/
theorem unescape_onepass (s : Str) : unescape s = decodeEntities s := by
  suffices h : ∀ n (s : Str), s.length ≤ n → unescape s = decodeEntities s from h s.length s (Nat.le_refl _)
  intro n
  induction n with
  | zero =>
    intro s hs
    have : s = [] := List.length_eq_zero_iff.mp (Nat.le_zero.mp hs)
    subst this; simp [unescape_nil]
  | succ n ih =>
    intro s hs
    cases s with
    | nil => simp [unescape_nil]
    | cons c r =>
      rw [unescape_cons, decodeEntities_cons]
      cases entityAt (c :: r) with
      | none => simp only []; rw [ih r (by simpa using hs)]
      | some p =>
        obtain ⟨ch, k⟩ := p
        simp only []
        rw [ih (r.drop (k - 1)) (by simp at hs ⊢; omega)]

/-! ### `_escape_cdata` -/

theorem replace_single (a : Char) (new : Str) (s : Str) :
    replace [a] new s = s.flatMap (fun c => if c = a then new else [c]) := by
  induction s with
  | nil => simp
  | cons c cs ih =>
    rw [replace_cons]
    by_cases h : c = a
    · subst h; simp [List.isPrefixOf, ih]
    · have : (a == c) = false := by simp; exact fun e => h e.symm
      simp [List.isPrefixOf, this, ih, h]

/-- the text `_escape_cdata` writes for one character -/
def escChar (c : Char) : Str :=
  if c = '&' then "&amp;".toList else if c = '<' then "&lt;".toList else if c = '>' then "&gt;".toList else [c]

theorem escapeCdata_cons (c : Char) (s : Str) : escapeCdata (c :: s) = escChar c ++ escapeCdata s := by
  simp only [escapeCdata]
  have e : ("&".toList : Str) = ['&'] := by simp
  have e2 : ("<".toList : Str) = ['<'] := by simp
  have e3 : (">".toList : Str) = ['>'] := by simp
  rw [e, e2, e3]
  simp only [replace_single, List.flatMap_cons, List.flatMap_append, escChar]
  by_cases h1 : c = '&'
  · subst h1; simp
  · by_cases h2 : c = '<'
    · subst h2; simp
    · by_cases h3 : c = '>'
      · subst h3; simp
      · simp [h1, h2, h3]

theorem escapeCdata_nil : escapeCdata [] = [] := by simp [escapeCdata]

theorem decodeEntities_escapeCdata (s : Str) : decodeEntities (escapeCdata s) = s := by
  induction s with
  | nil => simp [escapeCdata_nil]
  | cons c s ih =>
    rw [escapeCdata_cons]
    unfold escChar
    by_cases h1 : c = '&'
    · subst h1
      simp only [if_true]
      show decodeEntities ('&' :: ('a' :: 'm' :: 'p' :: ';' :: escapeCdata s)) = _
      rw [decodeEntities_cons, entityAt_amp]
      simp [List.isPrefixOf, ih]
    · by_cases h2 : c = '<'
      · subst h2
        show decodeEntities ('&' :: ('l' :: 't' :: ';' :: escapeCdata s)) = _
        rw [decodeEntities_cons, entityAt_amp]
        simp [List.isPrefixOf, ih]
      · by_cases h3 : c = '>'
        · subst h3
          show decodeEntities ('&' :: ('g' :: 't' :: ';' :: escapeCdata s)) = _
          rw [decodeEntities_cons, entityAt_amp]
          simp [List.isPrefixOf, ih]
        · simp only [h1, h2, h3, if_false]
          show decodeEntities (c :: escapeCdata s) = _
          rw [decodeEntities_cons, entityAt_ne_amp c _ h1]
          simp [ih]

/-- **`unescape_escapeCdata`**: reading back what `_escape_cdata` wrote gives the original text, for every text. -/
theorem unescape_escapeCdata (s : Str) : unescape (escapeCdata s) = s := by
  rw [unescape_onepass, decodeEntities_escapeCdata]

/-! ### texts without entity spellings -/

/-- no `&` ⇒ `unescape` is the identity -/
theorem unescape_no_amp (s : Str) (h : '&' ∉ s) : unescape s = s := by
  induction s with
  | nil => exact unescape_nil
  | cons c r ih =>
    have hc : c ≠ '&' := fun e => h (by simp [e])
    rw [unescape_cons_ne c r hc, ih (fun m => h (by simp [m]))]

/-- `unescape s` is empty only for the empty text -/
theorem unescape_eq_nil (s : Str) : unescape s = [] ↔ s = [] := by
  constructor
  · intro h
    cases s with
    | nil => rfl
    | cons c r =>
      rw [unescape_cons] at h
      cases hh : entityAt (c :: r) with
      | none => rw [hh] at h; simp at h
      | some p => rw [hh] at h; simp at h
  · intro h; subst h; exact unescape_nil

end Ofx
