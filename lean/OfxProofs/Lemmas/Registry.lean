/-
Lemmas about the shared-state model (`OfxModel/Ofx/Registry.lean`): dictionary facts, the invariant
"every handler that `dispatch` can return is observationally the one the import-time table returns",
its preservation by each atomic action, by the uninterrupted operations (`stepOp`) and by the thread machine.
-/
import OfxModel.Ofx.Registry
import OfxModel.Spec.Purity

namespace Ofx.Registry
open Ofx Ofx.Cal Ofx.DateTime Ofx.Spec.Purity

/-! ### dictionaries -/

theorem lookup_mem {α β} [BEq α] [LawfulBEq α] {l : List (α × β)} {k : α} {v : β}
    (h : l.lookup k = some v) : (k, v) ∈ l := by
  induction l with
  | nil => simp [List.lookup] at h
  | cons e r ih =>
    obtain ⟨a, b⟩ := e
    simp only [List.lookup] at h
    split at h
    · rename_i hk
      have : k = a := by simpa using hk
      subst this
      simp at h; subst h; simp
    · exact List.mem_cons_of_mem _ (ih h)

theorem Dict.lookup_set_eq (d : Dict) (k : Ty) (v : Handler) : (d.set k v).lookup k = some v := by
  simp [Dict.set]

theorem lookup_filter_ne (d : Dict) (k t : Ty) (h : t ≠ k) :
    (d.filter (fun e => e.1 ≠ k)).lookup t = d.lookup t := by
  induction d with
  | nil => rfl
  | cons e r ih =>
    obtain ⟨a, b⟩ := e
    simp only [List.filter]
    split
    · simp only [List.lookup]
      split
      · rfl
      · exact ih
    · rename_i hd
      have hak : a = k := by simpa using hd
      subst hak
      have hta : (t == a) = false := by simpa using h
      simp only [List.lookup, hta]
      exact ih

theorem Dict.lookup_set_ne (d : Dict) (k t : Ty) (v : Handler) (h : t ≠ k) :
    (d.set k v).lookup t = d.lookup t := by
  have hk : (t == k) = false := by simpa using h
  simp only [Dict.set, List.lookup, hk]
  exact lookup_filter_ne d k t h

theorem Dict.mem_set {d : Dict} {k : Ty} {v : Handler} {e : Ty × Handler} (h : e ∈ d.set k v) :
    e = (k, v) ∨ e ∈ d := by
  simp only [Dict.set, List.mem_cons, List.mem_filter] at h
  rcases h with h | h
  · exact .inl h
  · exact .inr h.1

theorem Dict.mem_pop {d d' : Dict} {e : Ty × Handler} (hp : d.pop = some d') (h : e ∈ d') : e ∈ d := by
  cases d with
  | nil => simp [Dict.pop] at hp
  | cons a r =>
    simp [Dict.pop] at hp; subst hp
    exact List.mem_cons_of_mem _ h

theorem findIn_set_of_notin (reg : Dict) (dflt : Handler) (k : Ty) (v : Handler) (ts : List Ty) (h : k ∉ ts) :
    findIn (reg.set k v) dflt ts = findIn reg dflt ts := by
  induction ts with
  | nil => rfl
  | cons t r ih =>
    have ht : t ≠ k := fun e => h (by simp [e])
    have hr : k ∉ r := fun e => h (by simp [e])
    simp only [findIn, Dict.lookup_set_ne reg k t v ht, ih hr]

/-! ### the import-time tables -/

theorem init_dt_find (t : Ty) :
    init.dt.findImpl t = (match t with
      | .datetime => ⟨.dtDatetime, none⟩ | .none => ⟨.dtNone, none⟩ | _ => ⟨.dtDefault, none⟩) := by
  cases t <;> rfl

theorem init_tm_find (t : Ty) :
    init.tm.findImpl t = (match t with
      | .time => ⟨.tmTime, none⟩ | .none => ⟨.tmNone, none⟩ | _ => ⟨.tmDefault, none⟩) := by
  cases t <;> rfl

/-- the import-time `DateTime.unconvert` is the function of the pure model -/
theorem init_dt_call (obj : ConvInst) (v : Val) :
    (init.dt.findImpl (tyOf v)).call obj v = dtUnconvert obj.required v := by
  cases v with
  | other k => by_cases hk : k = "date" <;> simp only [tyOf, hk, ↓reduceIte, init_dt_find, Handler.call, Fn.run, dtUnconvert]
  | _ => simp only [tyOf, init_dt_find, Handler.call, Fn.run, dtUnconvert]

/-- the import-time `Time.unconvert` is the function of the pure model -/
theorem init_tm_call (obj : ConvInst) (v : Val) :
    (init.tm.findImpl (tyOf v)).call obj v = tmUnconvert obj.required v := by
  cases v with
  | other k => by_cases hk : k = "date" <;> simp only [tyOf, hk, ↓reduceIte, init_tm_find, Handler.call, Fn.run, tmUnconvert]
  | _ => simp only [tyOf, init_tm_find, Handler.call, Fn.run, tmUnconvert]

/-- `self._unconvert_datetime`, bound to whichever instance, behaves as the plain function -/
theorem boundHandler_eq (self : ConvInst) : HandlerEq .datetime (boundHandler self) (init.dt.findImpl .datetime) := by
  intro obj v _
  rfl

/-! ### the invariant -/

/-- `h` may stand for class `t` in the generic function whose import-time state is `d₀` -/
def Good (d₀ : Disp) (t : Ty) (h : Handler) : Prop := HandlerEq t h (d₀.findImpl t)

/-- every handler reachable through `d` is good -/
structure DispInv (d₀ d : Disp) : Prop where
  find : ∀ t, Good d₀ t (d.findImpl t)
  cache : ∀ e ∈ d.cache, Good d₀ e.1 e.2

def Inv (R : Registry) : Prop := DispInv init.dt R.dt ∧ DispInv init.tm R.tm

theorem DispInv.refl (d₀ : Disp) (h : d₀.cache = []) : DispInv d₀ d₀ :=
  ⟨fun _ _ _ _ => rfl, by simp [h]⟩

theorem inv_init : Inv init := ⟨DispInv.refl _ rfl, DispInv.refl _ rfl⟩

theorem DispInv.dispatch {d₀ d : Disp} (hd : DispInv d₀ d) (t : Ty) : Good d₀ t (d.dispatch t) := by
  unfold Disp.dispatch
  split
  · rename_i h hl
    exact hd.cache _ (lookup_mem hl)
  · exact hd.find t

theorem DispInv.cacheSet {d₀ d : Disp} (hd : DispInv d₀ d) (t : Ty) (h : Handler) (hg : Good d₀ t h) :
    DispInv d₀ (d.cacheSet t h) :=
  ⟨hd.find, fun e he => by
    rcases Dict.mem_set he with rfl | he
    · exact hg
    · exact hd.cache e he⟩

theorem DispInv.cachePop {d₀ d d' : Disp} (hd : DispInv d₀ d) (hp : d.cachePop = some d') : DispInv d₀ d' := by
  unfold Disp.cachePop at hp
  cases hc : d.cache.pop with
  | none => simp [hc] at hp
  | some c =>
    simp [hc] at hp; subst hp
    exact ⟨hd.find, fun e he => hd.cache e (Dict.mem_pop hc he)⟩

theorem DispInv.clearCache {d₀ d : Disp} (hd : DispInv d₀ d) : DispInv d₀ d.clearCache :=
  ⟨hd.find, by simp [Disp.clearCache]⟩

/-- the one run-time write to a registry: `registry[datetime.datetime] = self._unconvert_datetime` -/
theorem DispInv.regSet_datetime {d : Disp} (hd : DispInv init.dt d) (self : ConvInst) :
    DispInv init.dt (d.regSet .datetime (boundHandler self)) := by
  refine ⟨fun t => ?_, hd.cache⟩
  by_cases ht : t = .datetime
  · subst ht
    have : (d.regSet .datetime (boundHandler self)).findImpl .datetime = boundHandler self := by
      simp [Disp.findImpl, Disp.regSet, Ty.mro, findIn, Dict.lookup_set_eq]
    rw [this]
    exact boundHandler_eq self
  · have hn : Ty.datetime ∉ t.mro := by cases t <;> simp [Ty.mro] at ht ⊢
    have : (d.regSet .datetime (boundHandler self)).findImpl t = d.findImpl t := by
      simp only [Disp.findImpl, Disp.regSet]
      exact findIn_set_of_notin _ _ _ _ _ hn
    rw [this]
    exact hd.find t

theorem DispInv.dispatchStep {d₀ d : Disp} (hd : DispInv d₀ d) (t : Ty) :
    DispInv d₀ (d.dispatchStep t).1 ∧ Good d₀ t (d.dispatchStep t).2 := by
  unfold Disp.dispatchStep
  split
  · rename_i h hl
    exact ⟨hd, hd.cache _ (lookup_mem hl)⟩
  · exact ⟨hd.cacheSet t _ (hd.find t), hd.find t⟩

/-! ### registry-level consequences -/

theorem Inv.disp {R : Registry} (hR : Inv R) (obj : ConvInst) : DispInv (init.disp obj) (R.disp obj) := by
  unfold Registry.disp
  split
  · exact hR.2
  · exact hR.1

theorem Inv.setDisp {R : Registry} (hR : Inv R) (obj : ConvInst) {d : Disp} (hd : DispInv (init.disp obj) d) :
    Inv (R.setDisp obj d) := by
  unfold Registry.setDisp
  unfold Registry.disp at hd
  split
  · rename_i h; simp only [h, if_true] at hd; exact ⟨hR.1, hd⟩
  · rename_i h; simp only [h] at hd; exact ⟨hd, hR.2⟩

/-- calling a good handler gives the pure model's result -/
theorem good_call {obj : ConvInst} {v : Val} {h : Handler} (hg : Good (init.disp obj) (tyOf v) h) :
    h.call obj v = unconvRes obj v := by
  rw [hg obj v rfl]
  unfold Registry.disp unconvRes
  split
  · exact init_tm_call obj v
  · exact init_dt_call obj v

/-- in any state satisfying the invariant `obj.unconvert(v)` is the pure function -/
theorem Inv.unconvert {R : Registry} (hR : Inv R) (obj : ConvInst) (v : Val) :
    R.unconvert obj v = unconvRes obj v :=
  good_call ((hR.disp obj).dispatch (tyOf v))

theorem Inv.obsEq {R : Registry} (hR : Inv R) : R ≈ init := fun obj v => by
  rw [hR.unconvert, inv_init.unconvert]

/-! ### uninterrupted operations -/

theorem stepOp_inv (tzs : List (Str × Int)) {R : Registry} (hR : Inv R) (op : Op) : Inv (stepOp tzs R op).1 := by
  cases op with
  | convert obj v =>
    simp only [stepOp]
    split
    · exact ⟨(hR.1.regSet_datetime obj).clearCache, hR.2⟩
    · exact hR
  | unconvert obj v => exact hR.setDisp obj ((hR.disp obj).dispatchStep (tyOf v)).1
  | setAttr o n v => exact hR
  | getAttr o n => exact hR

theorem runOps_inv (tzs : List (Str × Int)) {R : Registry} (hR : Inv R) (ops : List Op) : Inv (runOps tzs R ops).1 := by
  induction ops generalizing R with
  | nil => exact hR
  | cons op ops ih => exact ih (stepOp_inv tzs hR op)

/-- result of an operation whose value does not involve the heap, in any good state -/
theorem stepOp_pure (tzs : List (Str × Int)) {R : Registry} (hR : Inv R) {op : Op} {r : PyM Val}
    (hp : pureOp tzs op = some r) : (stepOp tzs R op).2 = r := by
  cases op with
  | convert obj v =>
    simp only [pureOp, Option.some.injEq] at hp; subst hp
    simp only [stepOp]; split <;> rfl
  | unconvert obj v =>
    simp only [pureOp, Option.some.injEq] at hp; subst hp
    exact good_call ((hR.disp obj).dispatchStep (tyOf v)).2
  | setAttr o n v => simp only [pureOp, Option.some.injEq] at hp; subst hp; rfl
  | getAttr o n => simp [pureOp] at hp

theorem runOps_append (tzs : List (Str × Int)) (R : Registry) (a b : List Op) :
    runOps tzs R (a ++ b) =
      ((runOps tzs (runOps tzs R a).1 b).1, (runOps tzs R a).2 ++ (runOps tzs (runOps tzs R a).1 b).2) := by
  induction a generalizing R with
  | nil => rfl
  | cons op a ih => simp only [List.cons_append, runOps, ih]

theorem runOps_snoc (tzs : List (Str × Int)) (R : Registry) (a : List Op) (op : Op) :
    runOps tzs R (a ++ [op]) =
      ((stepOp tzs (runOps tzs R a).1 op).1, (runOps tzs R a).2 ++ [(stepOp tzs (runOps tzs R a).1 op).2]) := by
  rw [runOps_append]; rfl

/-! ### the heap -/

theorem stepOp_heap (tzs : List (Str × Int)) (R : Registry) (op : Op) :
    (stepOp tzs R op).1.heap = (match op with | .setAttr o n v => R.heap.put o n v | _ => R.heap) := by
  cases op with
  | convert obj v => simp only [stepOp]; split <;> rfl
  | unconvert obj v => simp only [stepOp, Registry.setDisp]; split <;> rfl
  | setAttr o n v => rfl
  | getAttr o n => rfl

theorem Heap.get_put_same (h : Heap) (o : Nat) (n : Str) (v : Val) : (h.put o n v).get o n = some v := by
  simp [Heap.put, Heap.get]

theorem Heap.get_put_other (h : Heap) (o o' : Nat) (n n' : Str) (v : Val) (hne : (o', n') ≠ (o, n)) :
    (h.put o n v).get o' n' = h.get o' n' := by
  have : ((o', n') == (o, n)) = false := by simpa using hne
  simp [Heap.put, Heap.get, List.lookup, this]

/-! ### soundness of the decidable check `inertB` (what the harness evaluates on the real tables) -/

theorem Fn.selfFree_run {f : Fn} (h : Fn.selfFree f = true) (s₁ s₂ : ConvInst) (v : Val) :
    f.run s₁ v = f.run s₂ v := by
  cases f <;> first | rfl | simp [Fn.selfFree] at h

theorem handlerEq_of_fn {t : Ty} {h h₀ : Handler} (hf : h.fn = h₀.fn) (hb₀ : h₀.bound = none)
    (hb : h.bound = none ∨ Fn.selfFree h.fn = true) : HandlerEq t h h₀ := by
  intro obj v _
  obtain ⟨f, b⟩ := h
  obtain ⟨f₀, b₀⟩ := h₀
  simp only at hf hb₀ hb; subst hf; subst hb₀
  cases b with
  | none => rfl
  | some s =>
    rcases hb with hb | hb
    · cases hb
    · exact Fn.selfFree_run hb s obj v

theorem lookup_isSome_iff {l : Dict} {k : Ty} : (l.lookup k).isSome = true ↔ ∃ e ∈ l, e.1 = k := by
  induction l with
  | nil => simp [List.lookup]
  | cons e r ih =>
    obtain ⟨a, b⟩ := e
    simp only [List.lookup]
    split
    · rename_i hk
      have : k = a := by simpa using hk
      subst this; simp
    · rename_i hk
      have : k ≠ a := by simpa using hk
      rw [ih]
      constructor
      · rintro ⟨e, he, rfl⟩; exact ⟨e, List.mem_cons_of_mem _ he, rfl⟩
      · rintro ⟨e, he, rfl⟩
        rcases List.mem_cons.mp he with rfl | he
        · exact absurd rfl this
        · exact ⟨e, he, rfl⟩

theorem sameKeys_lookup {d₀ d : Dict} (h : sameKeys d₀ d = true) (k : Ty) :
    (d.lookup k).isSome = (d₀.lookup k).isSome := by
  simp only [sameKeys, Bool.and_eq_true, List.all_eq_true] at h
  obtain ⟨h1, h2⟩ := h
  apply Bool.eq_iff_iff.mpr
  rw [lookup_isSome_iff, lookup_isSome_iff]
  constructor
  · rintro ⟨e, he, rfl⟩; exact lookup_isSome_iff.mp (h2 e he)
  · rintro ⟨e, he, rfl⟩; exact lookup_isSome_iff.mp (h1 e he)

theorem findIn_rel {reg reg₀ : Dict} {dflt : Handler}
    (hk : ∀ k, (reg.lookup k).isSome = (reg₀.lookup k).isSome) (ts : List Ty) :
    (findIn reg dflt ts = dflt ∧ findIn reg₀ dflt ts = dflt) ∨
    ∃ c h h₀, reg.lookup c = some h ∧ reg₀.lookup c = some h₀ ∧ findIn reg dflt ts = h ∧ findIn reg₀ dflt ts = h₀ := by
  induction ts with
  | nil => exact .inl ⟨rfl, rfl⟩
  | cons t r ih =>
    have hkt := hk t
    cases h1 : reg.lookup t with
    | some h =>
      cases h2 : reg₀.lookup t with
      | some h₀ => exact .inr ⟨t, h, h₀, h1, h2, by simp [findIn, h1], by simp [findIn, h2]⟩
      | none => simp [h1, h2] at hkt
    | none =>
      cases h2 : reg₀.lookup t with
      | some h₀ => simp [h1, h2] at hkt
      | none => simpa [findIn, h1, h2] using ih

theorem Ty.mro_head (c : Ty) : ∃ r, c.mro = c :: r := by cases c <;> exact ⟨_, rfl⟩

/-- `dispOk d₀ d` implies the invariant, for an import-time table `d₀` whose handlers are all plain functions -/
theorem dispOk_inv {d₀ d : Disp} (h0 : ∀ t, (d₀.findImpl t).bound = none) (h : dispOk d₀ d = true) : DispInv d₀ d := by
  simp only [dispOk, Bool.and_eq_true, beq_iff_eq] at h
  obtain ⟨⟨⟨hdf, hkeys⟩, hreg⟩, hcache⟩ := h
  have ok_good : ∀ t hd, handlerOk d₀ t hd = true → Good d₀ t hd := by
    intro t hd hok
    simp only [handlerOk, Bool.and_eq_true, beq_iff_eq, Bool.or_eq_true, Option.isNone_iff_eq_none] at hok
    exact handlerEq_of_fn hok.1 (h0 t) hok.2
  refine ⟨fun t => ?_, fun e he => ok_good _ _ (List.all_eq_true.mp hcache e he)⟩
  unfold Disp.findImpl
  rw [hdf]
  rcases findIn_rel (dflt := d₀.dflt) (sameKeys_lookup hkeys) t.mro with ⟨h1, h2⟩ | ⟨c, hd, hd₀, hl, hl₀, h1, h2⟩
  · rw [h1]; unfold Good Disp.findImpl; rw [h2]; intro _ _ _; rfl
  · rw [h1]
    have hok := List.all_eq_true.mp hreg (c, hd) (lookup_mem hl)
    simp only [handlerOk, Bool.and_eq_true, beq_iff_eq, Bool.or_eq_true, Option.isNone_iff_eq_none] at hok
    have hc : d₀.findImpl c = hd₀ := by
      obtain ⟨r, hr⟩ := Ty.mro_head c
      simp [Disp.findImpl, hr, findIn, hl₀]
    have ht : d₀.findImpl t = hd₀ := h2
    unfold Good
    rw [ht]
    exact handlerEq_of_fn (hok.1.trans (by rw [hc])) (ht ▸ h0 t) hok.2

/-- the decidable check is sound: a state that passes it is observationally the import state -/
theorem inertB_inv {R : Registry} (h : inertB R = true) : Inv R := by
  simp only [inertB, Bool.and_eq_true] at h
  exact ⟨dispOk_inv (fun t => by rw [init_dt_find]; cases t <;> rfl) h.1,
         dispOk_inv (fun t => by rw [init_tm_find]; cases t <;> rfl) h.2⟩

/-! ### when does a conversion register? -/

/-- every text that `DateTime._convert_str` accepts has passed through `normalize_to_gmt`, i.e. has re-registered the
    handler (the converse fails only for texts that overflow the calendar after registering) -/
theorem dtRegisters_of_ok (tzs : List (Str × Int)) (s : Str) (v : Val) (h : dtConvertStr tzs s = .ok v) :
    dtRegisters tzs s = true := by
  unfold dtConvertStr at h
  unfold dtRegisters
  cases hg : dtRegex s with
  | none => simp [hg, bind, Except.bind] at h
  | some g =>
    simp only [hg, bind, Except.bind, pure, Except.pure] at h ⊢
    cases h1 : parseGmtOffset tzs g.offH g.offM g.name <;> simp only [h1] at h ⊢ <;> try cases h
    cases h2 : intOfAscii g.year <;> simp only [h2] at h ⊢ <;> try cases h
    cases h3 : intOfAscii g.month <;> simp only [h3] at h ⊢ <;> try cases h
    cases h4 : intOfAscii g.day <;> simp only [h4] at h ⊢ <;> try cases h
    cases h5 : intOfAscii g.hour <;> simp only [h5] at h ⊢ <;> try cases h
    cases h6 : intOfAscii g.minute <;> simp only [h6] at h ⊢ <;> try cases h
    cases h7 : intOfAscii g.second <;> simp only [h7] at h ⊢ <;> try cases h
    cases h8 : intOfAscii g.ms <;> simp only [h8] at h ⊢ <;> try cases h
    split at h
    · simp at h
    · rename_i hv
      simpa using hv
/-! ### the thread machine -/

/-- the operation in flight that a program counter stands for, and what it has established so far -/
def PcMatch (tzs : List (Str × Int)) : Pc → List Op → Prop
  | .idle, cur => cur = []
  | .regWrite obj res, cur => ∃ v, cur = [.convert obj v] ∧ res = convRes tzs obj v
  | .clearing res, cur => ∃ obj v, cur = [.convert obj v] ∧ res = convRes tzs obj v
  | .cacheLookup obj v, cur => cur = [.unconvert obj v]
  | .regLookup obj v, cur => cur = [.unconvert obj v]
  | .cacheStore obj v h, cur => cur = [.unconvert obj v] ∧ Good (init.disp obj) (tyOf v) h

/-- thread invariant w.r.t. its initial program `p0` and the current shared heap `H`: the results returned so
    far are those of running the completed prefix alone from the import state, and the instances this thread
    touches look as they would after that run -/
def TInv (tzs : List (Str × Int)) (H : Heap) (p0 : List Op) (T : Thread) : Prop :=
  ∃ done cur, p0 = done ++ cur ++ T.prog ∧ PcMatch tzs T.pc cur ∧ T.out = (runOps tzs init done).2 ∧
    ∀ o n, touches p0 o → H.get o n = (runOps tzs init done).1.heap.get o n

theorem TInv.heap_frame {tzs : List (Str × Int)} {H H' : Heap} {p0 : List Op} {T : Thread}
    (hT : TInv tzs H p0 T) (h : ∀ o n, touches p0 o → H'.get o n = H.get o n) : TInv tzs H' p0 T := by
  obtain ⟨done, cur, h1, h2, h3, h4⟩ := hT
  exact ⟨done, cur, h1, h2, h3, fun o n ht => (h o n ht).trans (h4 o n ht)⟩

/-- completing the operation `op` with result `r` (= its value in the alone-run) -/
theorem tinv_complete {tzs : List (Str × Int)} {H : Heap} {p0 done rest : List Op} {op : Op} {out : List (PyM Val)}
    {r : PyM Val} (hp : p0 = done ++ [op] ++ rest) (hout : out = (runOps tzs init done).2)
    (hr : (stepOp tzs (runOps tzs init done).1 op).2 = r)
    (hh : ∀ o n, touches p0 o → H.get o n = (stepOp tzs (runOps tzs init done).1 op).1.heap.get o n) :
    TInv tzs H p0 { prog := rest, pc := .idle, out := out ++ [r] } := by
  refine ⟨done ++ [op], [], by simp [hp], rfl, ?_, ?_⟩
  · simp only [runOps_snoc, hout, hr]
  · simpa only [runOps_snoc] using hh

theorem Thread.step_inv (tzs : List (Str × Int)) {R : Registry} (hR : Inv R) {p0 : List Op} {T : Thread}
    (hT : TInv tzs R.heap p0 T) :
    Inv (T.step tzs R).1 ∧ TInv tzs (T.step tzs R).1.heap p0 (T.step tzs R).2 ∧
    ((T.step tzs R).1.heap = R.heap ∨ ∃ o n v, writes p0 o ∧ (T.step tzs R).1.heap = R.heap.put o n v) := by
  obtain ⟨prog, pc, out⟩ := T
  obtain ⟨done, cur, hp, hpc, hout, hheap⟩ := hT
  simp only at hp hpc hout
  have hRd : Inv (runOps tzs init done).1 := runOps_inv tzs inv_init done
  cases pc with
  | idle =>
    simp only [PcMatch] at hpc; subst hpc
    simp only [List.append_nil] at hp
    cases prog with
    | nil =>
      simp only [Thread.step]
      exact ⟨hR, ⟨done, [], by simp [hp], rfl, hout, hheap⟩, .inl (by first | rfl | trivial)⟩
    | cons op rest =>
      have hp' : p0 = done ++ [op] ++ rest := by simp [hp]
      cases op with
      | convert obj v =>
        simp only [Thread.step]
        split
        · exact ⟨hR, ⟨done, [.convert obj v], hp', ⟨v, rfl, rfl⟩, hout, hheap⟩, .inl (by first | rfl | trivial)⟩
        · refine ⟨hR, tinv_complete hp' hout (stepOp_pure tzs hRd rfl) ?_, .inl (by first | rfl | trivial)⟩
          intro o n ht
          rw [stepOp_heap]; exact hheap o n ht
      | unconvert obj v =>
        exact ⟨hR, ⟨done, [.unconvert obj v], hp', rfl, hout, hheap⟩, .inl (by first | rfl | trivial)⟩
      | setAttr o n v =>
        simp only [Thread.step]
        refine ⟨hR, tinv_complete hp' hout rfl ?_, .inr ⟨o, n, v, ⟨.setAttr o n v, by simp [hp], rfl⟩, rfl⟩⟩
        intro o' n' ht
        rw [stepOp_heap]
        by_cases he : (o', n') = (o, n)
        · cases he; simp only [Heap.get_put_same]
        · simp only [Heap.get_put_other _ _ _ _ _ _ he]; exact hheap o' n' ht
      | getAttr o n =>
        simp only [Thread.step]
        refine ⟨hR, tinv_complete hp' hout ?_ ?_, .inl (by first | rfl | trivial)⟩
        · have : touches p0 o := ⟨.getAttr o n, by simp [hp], rfl⟩
          simp only [stepOp, Heap.read, hheap o n this]
        · intro o' n' ht
          rw [stepOp_heap]; exact hheap o' n' ht
  | regWrite obj res =>
    obtain ⟨v, hc, hres⟩ := hpc
    exact ⟨⟨hR.1.regSet_datetime obj, hR.2⟩, ⟨done, cur, hp, ⟨obj, v, hc, hres⟩, hout, hheap⟩, .inl (by first | rfl | trivial)⟩
  | clearing res =>
    obtain ⟨obj, v, hc, hres⟩ := hpc
    subst hc
    simp only [Thread.step]
    split
    · rename_i d hd
      exact ⟨⟨hR.1.cachePop hd, hR.2⟩, ⟨done, _, hp, ⟨obj, v, rfl, hres⟩, hout, hheap⟩, .inl (by first | rfl | trivial)⟩
    · refine ⟨hR, tinv_complete hp hout (hres ▸ stepOp_pure tzs hRd rfl) ?_, .inl (by first | rfl | trivial)⟩
      intro o n ht
      rw [stepOp_heap]; exact hheap o n ht
  | cacheLookup obj v =>
    simp only [PcMatch] at hpc; subst hpc
    simp only [Thread.step]
    split
    · rename_i h hl
      have hg : Good (init.disp obj) (tyOf v) h := (hR.disp obj).cache _ (lookup_mem hl)
      refine ⟨hR, tinv_complete hp hout ((stepOp_pure tzs hRd rfl).trans (good_call hg).symm) ?_, .inl (by first | rfl | trivial)⟩
      intro o n ht
      rw [stepOp_heap]; exact hheap o n ht
    · exact ⟨hR, ⟨done, _, hp, rfl, hout, hheap⟩, .inl (by first | rfl | trivial)⟩
  | regLookup obj v =>
    simp only [PcMatch] at hpc; subst hpc
    exact ⟨hR, ⟨done, _, hp, ⟨rfl, (hR.disp obj).find _⟩, hout, hheap⟩, .inl (by first | rfl | trivial)⟩
  | cacheStore obj v h =>
    obtain ⟨hc, hg⟩ := hpc
    subst hc
    simp only [Thread.step]
    refine ⟨hR.setDisp obj ((hR.disp obj).cacheSet _ _ hg),
      tinv_complete hp hout ((stepOp_pure tzs hRd rfl).trans (good_call hg).symm) ?_, .inl ?_⟩
    · intro o n ht
      rw [stepOp_heap]
      have : (R.setDisp obj ((R.disp obj).cacheSet (tyOf v) h)).heap = R.heap := by
        unfold Registry.setDisp; split <;> rfl
      rw [this]; exact hheap o n ht
    · unfold Registry.setDisp; split <;> rfl

/-- system invariant -/
structure SysInv (tzs : List (Str × Int)) (progs : List (List Op)) (S : Sys) : Prop where
  reg : Inv S.reg
  len : S.threads.length = progs.length
  thr : ∀ (i : Nat) (T : Thread) (p : List Op), S.threads[i]? = some T → progs[i]? = some p → TInv tzs S.reg.heap p T

theorem SysInv.start (tzs : List (Str × Int)) (progs : List (List Op)) : SysInv tzs progs (Sys.start init progs) := by
  refine ⟨inv_init, by simp [Sys.start], ?_⟩
  intro i T p hT hp
  simp only [Sys.start, List.getElem?_map, hp, Option.map_some, Option.some.injEq] at hT
  subst hT
  exact ⟨[], [], by simp, rfl, rfl, fun _ _ _ => rfl⟩

theorem SysInv.step {tzs : List (Str × Int)} {progs : List (List Op)} (hd : DisjointInstances progs) {S : Sys}
    (hS : SysInv tzs progs S) (i : Nat) : SysInv tzs progs (S.step tzs i) := by
  unfold Sys.step
  cases hTi : S.threads[i]? with
  | none => exact hS
  | some T =>
    have hi : i < S.threads.length := by
      rcases Nat.lt_or_ge i S.threads.length with h | h
      · exact h
      · simp [List.getElem?_eq_none h] at hTi
    have hip : i < progs.length := hS.len ▸ hi
    have hpi : progs[i]? = some progs[i] := List.getElem?_eq_getElem hip
    obtain ⟨hR', hT', hheap⟩ := Thread.step_inv tzs hS.reg (hS.thr i T _ hTi hpi)
    refine ⟨hR', by simp [hS.len], ?_⟩
    intro j Tj p hj hpj
    by_cases hij : i = j
    · subst hij
      simp only [List.getElem?_set_self hi, Option.some.injEq] at hj
      subst hj
      rw [hpi] at hpj; cases hpj
      exact hT'
    · simp only [List.getElem?_set_ne hij] at hj
      refine (hS.thr j Tj p hj hpj).heap_frame ?_
      intro o n ht
      rcases hheap with h | ⟨o', n', v, hw, h⟩
      · simp only [h]
      · simp only [h]
        have hne : o ≠ o' := fun e => hd i j _ p hij hpi hpj o' hw (e ▸ ht)
        exact Heap.get_put_other _ _ _ _ _ _ (fun e => hne (Prod.mk.inj e).1)

theorem SysInv.run {tzs : List (Str × Int)} {progs : List (List Op)} (hd : DisjointInstances progs) {S : Sys}
    (hS : SysInv tzs progs S) (sched : List Nat) : SysInv tzs progs (S.run tzs sched) := by
  induction sched generalizing S with
  | nil => exact hS
  | cons i sched ih => exact ih (hS.step hd i)

end Ofx.Registry
