/-
Lemmas for C18 (persistence through the file): `_read`, line by line, on the lines `write` produces.
-/
import OfxProofs.Lemmas.IniText

set_option linter.unusedSimpArgs false

namespace Ofx.IniText
open Ofx Ofx.Ofxget

/-! ### the dict `cursect` refers to -/

def curSect (st : RState) : RSect :=
  match st.cur with
  | .none => []
  | .defaults => st.defaults
  | .named n => (st.sections.lookup n).getD []

def setCurSect (st : RState) (s : RSect) : RState :=
  match st.cur with
  | .none => st
  | .defaults => { st with defaults := s }
  | .named n => { st with sections := mapSet n s st.sections }

def CurOk (st : RState) : Prop :=
  match st.cur with
  | .none => False
  | .defaults => True
  | .named n => (st.sections.lookup n).isSome = true

theorem modCur_ok (st : RState) (f : RSect → Except IniErr RSect) (s' : RSect) (hok : CurOk st)
    (hf : f (curSect st) = .ok s') : st.modCur f = .ok (setCurSect st s') := by
  unfold RState.modCur setCurSect
  unfold CurOk at hok
  unfold curSect at hf
  cases hc : st.cur with
  | none => rw [hc] at hok; exact absurd hok id
  | defaults =>
    rw [hc] at hf
    simp only at hf ⊢
    rw [hf]; rfl
  | named n =>
    rw [hc] at hf hok
    simp only at hf hok ⊢
    cases hl : st.sections.lookup n with
    | none => rw [hl] at hok; cases hok
    | some s =>
      rw [hl] at hf
      simp only [Option.getD_some] at hf
      simp only [hf]; rfl

theorem setCurSect_cur (st : RState) (s : RSect) : (setCurSect st s).cur = st.cur := by
  unfold setCurSect; cases h : st.cur <;> simp [h]
theorem setCurSect_bad (st : RState) (s : RSect) : (setCurSect st s).bad = st.bad := by
  unfold setCurSect; cases h : st.cur <;> simp
theorem setCurSect_indent (st : RState) (s : RSect) : (setCurSect st s).indent = st.indent := by
  unfold setCurSect; cases h : st.cur <;> simp
theorem setCurSect_optname (st : RState) (s : RSect) : (setCurSect st s).optname = st.optname := by
  unfold setCurSect; cases h : st.cur <;> simp
theorem setCurSect_seenOpt (st : RState) (s : RSect) : (setCurSect st s).seenOpt = st.seenOpt := by
  unfold setCurSect; cases h : st.cur <;> simp
theorem setCurSect_seenSect (st : RState) (s : RSect) : (setCurSect st s).seenSect = st.seenSect := by
  unfold setCurSect; cases h : st.cur <;> simp

theorem lookup_mapSet_self {β : Type} (k : Name) (v : β) (m : List (Name × β)) : (mapSet k v m).lookup k = some v := by
  rw [lookup_mapSet]; simp

theorem mapSet_mapSet {β : Type} (k : Name) (v v' : β) (m : List (Name × β)) :
    mapSet k v (mapSet k v' m) = mapSet k v m := by
  induction m with
  | nil => simp [mapSet]
  | cons a rest ih =>
    obtain ⟨a1, a2⟩ := a
    simp only [mapSet]
    by_cases h : (a1 == k) = true
    · simp [h, mapSet]
    · simp [h, mapSet, ih]

theorem mapSet_of_lookup {β : Type} (k : Name) (v : β) (m : List (Name × β)) (h : m.lookup k = some v) :
    mapSet k v m = m := by
  induction m with
  | nil => cases h
  | cons a rest ih =>
    obtain ⟨a1, a2⟩ := a
    simp only [List.lookup_cons] at h
    simp only [mapSet]
    by_cases hk : k = a1
    · subst hk
      simp only [BEq.rfl, Option.some.injEq] at h
      simp [h]
    · have h1 : (k == a1) = false := by simpa using hk
      have h2 : (a1 == k) = false := by simpa using fun e : a1 = k => hk e.symm
      simp only [h1] at h
      simp [h2, ih h]

theorem curSect_setCurSect (st : RState) (s : RSect) (hok : CurOk st) : curSect (setCurSect st s) = s := by
  unfold curSect setCurSect
  unfold CurOk at hok
  cases hc : st.cur with
  | none => rw [hc] at hok; exact absurd hok id
  | defaults => simp [hc]
  | named n => simp [hc, lookup_mapSet_self]

theorem setCurSect_setCurSect (st : RState) (s s' : RSect) : setCurSect (setCurSect st s) s' = setCurSect st s' := by
  unfold setCurSect
  cases hc : st.cur with
  | none => simp [hc]
  | defaults => simp [hc]
  | named n => simp [hc, mapSet_mapSet]

theorem curOk_setCurSect (st : RState) (s : RSect) (hok : CurOk st) : CurOk (setCurSect st s) := by
  unfold CurOk setCurSect at *
  cases hc : st.cur with
  | none => rw [hc] at hok; exact absurd hok id
  | defaults => simp [hc]
  | named n => simp [hc, lookup_mapSet_self]

theorem setCurSect_curSect (st : RState) (hok : CurOk st) : setCurSect st (curSect st) = st := by
  obtain ⟨d, ss, sS, sO, cur, on, ind, bad⟩ := st
  unfold CurOk at hok
  unfold setCurSect curSect
  cases cur with
  | none => rfl
  | defaults => rfl
  | named n =>
    simp only at hok ⊢
    cases hl : ss.lookup n with
    | none => rw [hl] at hok; cases hok
    | some x => simp [mapSet_of_lookup n x ss hl]

theorem appendIn_lookup (k : Name) (x : Str) (s : RSect) (acc : List Str) (h : s.lookup k = some (.lines acc)) :
    appendIn k x s = .ok (mapSet k (.lines (acc ++ [x])) s) := by
  induction s with
  | nil => cases h
  | cons a rest ih =>
    obtain ⟨a1, a2⟩ := a
    simp only [List.lookup_cons] at h
    by_cases hk : k = a1
    · subst hk
      simp only [BEq.rfl, Option.some.injEq] at h
      subst h
      simp [appendIn, mapSet]
    · have h1 : (k == a1) = false := by simpa using hk
      have h2 : (a1 == k) = false := by simpa using fun e : a1 = k => hk e.symm
      simp only [h1] at h
      simp [appendIn, mapSet, h2, ih h, bind, Except.bind, pure, Except.pure]

theorem openOpt_some (st : RState) (k : Name) (hc : st.cur ≠ .none) (ho : st.optname = some k) (hk : k ≠ []) :
    st.openOpt = some k := by
  unfold RState.openOpt
  rw [ho]
  cases h : st.cur with
  | none => exact absurd h hc
  | defaults => cases k with | nil => exact absurd rfl hk | cons a b => simp
  | named n => cases k with | nil => exact absurd rfl hk | cons a b => simp

theorem openOpt_none (st : RState) (ho : st.optname = none) : st.openOpt = none := by
  unfold RState.openOpt
  rw [ho]
  cases st.cur <;> rfl

theorem openOpt_spec (st : RState) (k : Name) (h : st.openOpt = some k) :
    st.cur ≠ .none ∧ st.optname = some k ∧ k ≠ [] := by
  unfold RState.openOpt at h
  cases hc : st.cur with
  | none => rw [hc] at h; cases h
  | defaults =>
    rw [hc] at h
    cases ho : st.optname with
    | none => rw [ho] at h; cases h
    | some k' =>
      rw [ho] at h
      simp only at h
      split at h
      · cases h
      · rename_i hk
        cases h
        exact ⟨by simp, rfl, by simpa using hk⟩
  | named n =>
    rw [hc] at h
    cases ho : st.optname with
    | none => rw [ho] at h; cases h
    | some k' =>
      rw [ho] at h
      simp only at h
      split at h
      · cases h
      · rename_i hk
        cases h
        exact ⟨by simp, rfl, by simpa using hk⟩

/-! ### one line -/

theorem indent_self (st : RState) (h : st.indent = 0) : { st with indent := 0 } = st := by
  cases st; simp at h; simp [h]

/-- a line that is neither blank, comment nor indented, read at `indent_level = 0` -/
theorem step_normal (st : RState) (line value : Str) (hv : strip line = value) (hc : isCommentLine value = false)
    (hne : value ≠ []) (hi : indentOf line = 0) (h0 : st.indent = 0) :
    step st line =
      match sectHeader value with
      | some name => st.header name
      | none =>
        match st.cur with
        | .none => .error .missingHeader
        | _ =>
          match optMatch value with
          | some kv => st.option kv.1 kv.2
          | none => .ok { st with bad := true } := by
  have hne' : value.isEmpty = false := by cases value with | nil => exact absurd rfl hne | cons a b => rfl
  unfold step
  simp only [hv, hc, hne', hi, h0, Bool.false_eq_true, if_false, Nat.lt_irrefl]
  generalize st.openOpt = oo
  cases oo <;> simp only [indent_self st h0] <;> rfl

theorem step_blank (st : RState) (line : Str) (hv : strip line = []) :
    step st line = match st.openOpt with
      | some k => st.modCur (appendIn k [])
      | none => .ok st := by
  unfold step
  simp only [hv, isCommentLine, List.isEmpty_nil, Bool.false_eq_true, if_false, if_true]
  rfl

theorem step_cont (st : RState) (line value : Str) (k : Name) (hv : strip line = value)
    (hc : isCommentLine value = false) (hne : value ≠ []) (hi : indentOf line > st.indent) (ho : st.openOpt = some k) :
    step st line = st.modCur (appendIn k value) := by
  have hne' : value.isEmpty = false := by cases value with | nil => exact absurd rfl hne | cons a b => rfl
  unfold step
  simp only [hv, hc, hne', ho, hi, Bool.false_eq_true, if_false, if_true]

theorem indentOf_nonspace (c : Char) (rest : Str) (h : isSpace c = false) : indentOf (c :: rest) = 0 := by
  simp [indentOf, List.takeWhile, h]

theorem indentOf_tab (c : Char) (rest : Str) (h : isSpace c = false) : indentOf ('\t' :: c :: rest) = 1 := by
  simp [indentOf, List.takeWhile, h, isSpace_tab]

theorem beforeLastClose_snoc (name : Str) : beforeLastClose (name ++ [']']) = some name := by
  induction name with
  | nil => simp [beforeLastClose]
  | cons c cs ih => simp [beforeLastClose, ih]

theorem sectHeader_line (name : Str) (hne : name ≠ []) : sectHeader ('[' :: name ++ [']']) = some name := by
  have : name.isEmpty = false := by cases name with | nil => exact absurd rfl hne | cons a b => rfl
  simp only [List.cons_append, sectHeader, beforeLastClose_snoc, this, Bool.false_eq_true, if_false, if_true]

theorem sectHeader_not_bracket (c : Char) (rest : Str) (h : c ≠ '[') : sectHeader (c :: rest) = none := by
  simp [sectHeader, h]

theorem edgeClean_sandwich (a m b : Str) (ha : edgeClean a = true) (hb : edgeClean b = true) (hane : a ≠ []) (hbne : b ≠ []) :
    edgeClean (a ++ m ++ b) = true := by
  cases a with
  | nil => exact absurd rfl hane
  | cons c cs =>
    rcases eq_nil_or_snoc b with rfl | ⟨pre, d, rfl⟩
    · exact absurd rfl hbne
    · have hc := edgeClean_cons c cs ha
      have hd := edgeClean_concat pre d hb
      simp only [edgeClean, List.cons_append, List.head?_cons, hc, Bool.not_false, Bool.true_and]
      rw [← List.cons_append, ← List.cons_append, ← List.append_assoc, List.getLast?_append]
      simp [hd]

theorem splitDelim_prefix (p rest : Str) (h1 : '=' ∉ p) (h2 : ':' ∉ p) :
    splitDelim (p ++ '=' :: rest) = some (p, rest) := by
  induction p with
  | nil => simp [splitDelim]
  | cons c cs ih =>
    have hc1 : c ≠ '=' := fun e => h1 (by simp [e])
    have hc2 : c ≠ ':' := fun e => h2 (by simp [e])
    simp only [List.cons_append, splitDelim, hc1, hc2, decide_false, Bool.or_self, Bool.false_eq_true, if_false]
    rw [ih (fun hm => h1 (by simp [hm])) (fun hm => h2 (by simp [hm]))]

/-- what `cleanKey` says -/
theorem cleanKey_spec (k : Name) (h : cleanKey k = true) :
    ∃ c cs, k = c :: cs ∧ isSpace c = false ∧ c ≠ '#' ∧ c ≠ ';' ∧ c ≠ '[' ∧ lower k = k ∧ edgeClean k = true ∧
      '=' ∉ k ∧ ':' ∉ k ∧ '\n' ∉ k := by
  cases k with
  | nil => simp [cleanKey] at h
  | cons c cs =>
    simp only [cleanKey, Bool.and_eq_true, Bool.not_eq_true', beq_iff_eq, bne_iff_ne, ne_eq,
      List.contains_eq_mem, decide_eq_false_iff_not] at h
    obtain ⟨⟨⟨⟨⟨⟨_, hlow⟩, hedge⟩, heq⟩, hcol⟩, hnl⟩, ⟨hh, hs⟩, hb⟩ := h
    exact ⟨c, cs, rfl, edgeClean_cons c cs hedge, hh, hs, hb, hlow, hedge, heq, hcol, hnl⟩

/-- the first line of an option, stripped -/
def optValue (k l0 : Str) : Str := k ++ [' ', '='] ++ (match l0 with | [] => [] | _ => ' ' :: l0)

theorem strip_optLine (k l0 : Str) (hk : cleanKey k = true) (hl : edgeClean l0 = true) :
    strip (k ++ delim ++ l0 ++ ['\n']) = optValue k l0 := by
  obtain ⟨c, cs, hkc, hsp, _, _, _, _, hedge, _, _, _⟩ := cleanKey_spec k hk
  have hkne : k ≠ [] := by rw [hkc]; simp
  have he : edgeClean [' ', '='] = false := by decide
  cases l0 with
  | nil =>
    have : k ++ delim ++ [] ++ ['\n'] = [] ++ (k ++ [] ++ ['=']) ++ [' ', '\n'] ∨ True := Or.inr trivial
    have h1 : k ++ delim ++ [] ++ ['\n'] = [] ++ (k ++ [' '] ++ ['=']) ++ [' ', '\n'] := by simp [delim]
    rw [h1, strip_pad [] _ _ allSpace_nil allSpace_blank_nl
      (edgeClean_sandwich k [' '] ['='] hedge (by decide) hkne (by simp))]
    simp [optValue]
  | cons a as =>
    have h1 : k ++ delim ++ (a :: as) ++ ['\n'] = [] ++ (k ++ delim ++ (a :: as)) ++ ['\n'] := by simp
    rw [h1, strip_pad [] _ _ allSpace_nil allSpace_nl (edgeClean_sandwich k delim (a :: as) hedge hl hkne (by simp))]
    simp [optValue, delim]

theorem optMatch_optValue (k l0 : Str) (hk : cleanKey k = true) (hl : edgeClean l0 = true) :
    optMatch (optValue k l0) = some (k, l0) := by
  obtain ⟨c, cs, hkc, hsp, _, _, _, _, hedge, heq, hcol, _⟩ := cleanKey_spec k hk
  have hp1 : '=' ∉ k ++ [' '] := by
    intro hm
    rcases List.mem_append.mp hm with hm | hm
    · exact heq hm
    · simp at hm
  have hp2 : ':' ∉ k ++ [' '] := by
    intro hm
    rcases List.mem_append.mp hm with hm | hm
    · exact hcol hm
    · simp at hm
  have hr : rstrip (k ++ [' ']) = k := by
    rw [rstrip_append_allSpace k [' '] allSpace_blank, rstrip_edgeClean k hedge]
  unfold optMatch
  cases l0 with
  | nil =>
    have h1 : optValue k [] = (k ++ [' ']) ++ '=' :: [] := by simp [optValue]
    rw [h1, splitDelim_prefix _ _ hp1 hp2]
    simp only [Option.some.injEq, Prod.mk.injEq]
    exact ⟨hr, by simp [strip, lstrip, rstrip]⟩
  | cons a as =>
    have h1 : optValue k (a :: as) = (k ++ [' ']) ++ '=' :: (' ' :: a :: as) := by simp [optValue]
    rw [h1, splitDelim_prefix _ _ hp1 hp2]
    have := strip_pad [' '] (a :: as) [] allSpace_blank allSpace_nil hl
    simp only [List.append_nil, List.singleton_append] at this
    simp only [Option.some.injEq, Prod.mk.injEq]
    exact ⟨hr, this⟩

theorem optValue_head (k l0 : Str) (c : Char) (cs : Str) (hk : k = c :: cs) :
    ∃ rest, optValue k l0 = c :: rest := by
  subst hk
  exact ⟨_, by simp [optValue]; rfl⟩

/-! ### one option -/

theorem option_ok (st : RState) (k l0 : Str) (hok : CurOk st) (hk : cleanKey k = true)
    (hseen : (st.cur.name, k) ∉ st.seenOpt) :
    st.option k l0 = .ok (setCurSect { st with optname := some k, seenOpt := (st.cur.name, k) :: st.seenOpt }
      (mapSet k (.lines [l0]) (curSect st))) := by
  obtain ⟨c, cs, hkc, hsp, _, _, _, hlow, hedge, _, _, _⟩ := cleanKey_spec k hk
  have hke : k.isEmpty = false := by rw [hkc]; rfl
  have hkey : lower (rstrip k) = k := by rw [rstrip_edgeClean k hedge, hlow]
  have hc : st.seenOpt.contains (st.cur.name, k) = false := by simpa using hseen
  unfold RState.option
  simp only [hke, Bool.or_false, hkey, hc, Bool.false_eq_true, if_false]
  exact modCur_ok _ _ _ hok rfl

/-- the first line of an option -/
theorem step_optFirst (st : RState) (k l0 : Str) (hok : CurOk st) (h0 : st.indent = 0) (hk : cleanKey k = true)
    (hl : edgeClean l0 = true) (hseen : (st.cur.name, k) ∉ st.seenOpt) :
    step st (k ++ delim ++ l0 ++ ['\n']) =
      .ok (setCurSect { st with optname := some k, seenOpt := (st.cur.name, k) :: st.seenOpt }
        (mapSet k (.lines [l0]) (curSect st))) := by
  obtain ⟨c, cs, hkc, hsp, hh, hs, hb, _, _, _, _, _⟩ := cleanKey_spec k hk
  obtain ⟨rest, hrest⟩ := optValue_head k l0 c cs hkc
  have hline : k ++ delim ++ l0 ++ ['\n'] = c :: (cs ++ delim ++ l0 ++ ['\n']) := by rw [hkc]; simp
  rw [step_normal st _ (optValue k l0) (strip_optLine k l0 hk hl)
    (by rw [hrest]; simp [isCommentLine, hh, hs]) (by rw [hrest]; simp)
    (by rw [hline]; exact indentOf_nonspace c _ hsp) h0]
  have hsh : sectHeader (optValue k l0) = none := by rw [hrest]; exact sectHeader_not_bracket c rest hb
  rw [hsh, optMatch_optValue k l0 hk hl]
  simp only
  have hcur : st.cur ≠ .none := by
    intro e
    unfold CurOk at hok
    rw [e] at hok
    exact hok
  cases hc : st.cur with
  | none => exact absurd hc hcur
  | defaults => simp only; rw [← hc]; exact option_ok st k l0 hok hk hseen
  | named n => simp only; rw [← hc]; exact option_ok st k l0 hok hk hseen

theorem openOpt_setCurSect (st : RState) (s : RSect) : (setCurSect st s).openOpt = st.openOpt := by
  unfold RState.openOpt
  rw [setCurSect_cur, setCurSect_optname]

/-- a continuation line (`\\t` + line of the value) or the blank line that ends a section -/
theorem step_append (st : RState) (k : Name) (acc : List Str) (w l : Str) (hok : CurOk st) (h0 : st.indent = 0)
    (hopen : st.openOpt = some k) (hlook : (curSect st).lookup k = some (.lines acc))
    (hw : w = [] ∨ w = ['\t']) (hwl : w = [] → l = [])
    (hl : edgeClean l = true) (hc : isCommentLine l = false) :
    step st (w ++ l ++ ['\n']) = .ok (setCurSect st (mapSet k (.lines (acc ++ [l])) (curSect st))) := by
  have hws : AllSpace w := by
    rcases hw with rfl | rfl
    · exact allSpace_nil
    · exact allSpace_tab
  have hstrip : strip (w ++ l ++ ['\n']) = l := strip_pad w l ['\n'] hws allSpace_nl hl
  cases l with
  | nil =>
    rw [step_blank st _ hstrip, hopen]
    exact modCur_ok st _ _ hok (appendIn_lookup k [] _ acc hlook)
  | cons a as =>
    have hwt : w = ['\t'] := by
      rcases hw with rfl | rfl
      · exact absurd (hwl rfl) (by simp)
      · rfl
    subst hwt
    have hi : indentOf (['\t'] ++ (a :: as) ++ ['\n']) > st.indent := by
      rw [h0]
      have : ['\t'] ++ (a :: as) ++ ['\n'] = '\t' :: a :: (as ++ ['\n']) := by simp
      rw [this, indentOf_tab a _ (edgeClean_cons a as hl)]
      exact Nat.one_pos
    rw [step_cont st _ (a :: as) k hstrip hc (by simp) hi hopen]
    exact modCur_ok st _ _ hok (appendIn_lookup k _ _ acc hlook)

theorem foldlM_cons_ok {α β : Type} (f : β → α → Except IniErr β) (b b' : β) (a : α) (l : List α) (h : f b a = .ok b') :
    (a :: l).foldlM f b = l.foldlM f b' := by
  simp [List.foldlM_cons, h, bind, Except.bind]

/-- the continuation lines of one value -/
theorem contFold (st : RState) (k : Name) (base : RSect) (hok : CurOk st) (h0 : st.indent = 0)
    (hopen : st.openOpt = some k) (ls : List Str) (acc : List Str)
    (hls : ∀ l ∈ ls, edgeClean l = true ∧ isCommentLine l = false) :
    (ls.map (fun l => '\t' :: l ++ ['\n'])).foldlM step (setCurSect st (mapSet k (.lines acc) base)) =
      .ok (setCurSect st (mapSet k (.lines (acc ++ ls)) base)) := by
  induction ls generalizing acc with
  | nil => simp [pure, Except.pure]
  | cons l ls ih =>
    have hS := step_append (setCurSect st (mapSet k (.lines acc) base)) k acc ['\t'] l (curOk_setCurSect st _ hok)
      (by rw [setCurSect_indent]; exact h0) (by rw [openOpt_setCurSect]; exact hopen)
      (by rw [curSect_setCurSect st _ hok]; exact lookup_mapSet_self k _ base) (Or.inr rfl) (by intro h; cases h)
      (hls l (by simp)).1 (hls l (by simp)).2
    rw [curSect_setCurSect st _ hok, setCurSect_setCurSect, mapSet_mapSet] at hS
    simp only [List.map_cons]
    rw [foldlM_cons_ok step _ _ _ _ (by simpa using hS), ih (acc ++ [l]) (fun x hx => hls x (by simp [hx]))]
    simp

theorem cleanValue_spec (v : Str) (h : cleanValue v = true) :
    edgeClean (nlLines v).1 = true ∧ (∀ l ∈ (nlLines v).2, edgeClean l = true ∧ isCommentLine l = false) ∧
      rstrip v = v := by
  simp only [cleanValue, Bool.and_eq_true, List.all_eq_true, Bool.not_eq_true'] at h
  obtain ⟨⟨h1, h2⟩, h3⟩ := h
  refine ⟨h1, h2, ?_⟩
  rcases eq_nil_or_snoc v with rfl | ⟨pre, d, rfl⟩
  · exact rstrip_nil
  · simp only [List.getLast?_append, List.getLast?_singleton, Option.some_or, Bool.not_eq_true'] at h3
    unfold rstrip
    rw [List.reverse_append, List.reverse_singleton, List.singleton_append, lstrip_of_not_space _ _ h3]
    simp

/-- **one option**: all the lines `write` produced for `key = value` -/
theorem optBlock (st : RState) (k : Name) (v : Str) (hok : CurOk st) (h0 : st.indent = 0) (hk : cleanKey k = true)
    (hv : cleanValue v = true) (hseen : (st.cur.name, k) ∉ st.seenOpt) :
    (optLines k v).foldlM step st =
      .ok (setCurSect { st with optname := some k, seenOpt := (st.cur.name, k) :: st.seenOpt }
        (mapSet k (.lines ((nlLines v).1 :: (nlLines v).2)) (curSect st))) := by
  obtain ⟨h1, h2, _⟩ := cleanValue_spec v hv
  obtain ⟨c, cs, hkc, _⟩ := cleanKey_spec k hk
  unfold optLines
  rw [foldlM_cons_ok step _ _ _ _ (step_optFirst st k _ hok h0 hk h1 hseen)]
  have hcur : st.cur ≠ .none := by
    intro e
    unfold CurOk at hok
    rw [e] at hok
    exact hok
  have := contFold { st with optname := some k, seenOpt := (st.cur.name, k) :: st.seenOpt } k (curSect st) hok h0
    (openOpt_some _ k hcur rfl (by rw [hkc]; simp)) (nlLines v).2 [(nlLines v).1] h2
  simpa using this

/-! ### the parser content (`_join_multiline_values` applied) while reading -/

def getSect (I : Ini) (name : Str) : Sect := if name == defaultSect then I.defaults else I.sect name

def setSect (I : Ini) (name : Str) (s : Sect) : Ini :=
  if name == defaultSect then { I with defaults := s } else { I with sections := mapSet name s I.sections }

theorem set_eq_setSect (I : Ini) (name : Str) (k : Name) (v : Str) (hlow : lower k = k) :
    I.set name k v = setSect I name (mapSet k v (getSect I name)) := by
  unfold Ini.set setSect getSect
  split <;> simp [hlow]

theorem map_mapSet {β γ : Type} (f : β → γ) (k : Name) (v : β) (m : List (Name × β)) :
    (mapSet k v m).map (fun kv => (kv.1, f kv.2)) = mapSet k (f v) (m.map (fun kv => (kv.1, f kv.2))) := by
  induction m with
  | nil => simp [mapSet]
  | cons a rest ih =>
    obtain ⟨a1, a2⟩ := a
    simp only [mapSet, List.map_cons]
    split <;> simp [ih]

theorem lookup_map {β γ : Type} (f : β → γ) (k : Name) (m : List (Name × β)) :
    (m.map (fun kv => (kv.1, f kv.2))).lookup k = (m.lookup k).map f := by
  induction m with
  | nil => rfl
  | cons a rest ih =>
    obtain ⟨a1, a2⟩ := a
    simp only [List.map_cons, List.lookup_cons]
    split <;> simp [ih]

/-- a state between two lines of a section -/
structure Mid (st : RState) : Prop where
  curOk : CurOk st
  indent0 : st.indent = 0
  notBad : st.bad = false
  openOk : ∀ k, st.openOpt = some k → ∃ acc, acc ≠ [] ∧ (curSect st).lookup k = some (.lines acc)
  nodef : ∀ n, st.cur = .named n → n ≠ defaultSect

theorem finish_curSect (st : RState) (hok : CurOk st) (hnd : ∀ n, st.cur = .named n → n ≠ defaultSect) :
    RSect.finish (curSect st) = getSect st.finish st.cur.name := by
  obtain ⟨d, ss, sS, sO, cur, on, ind, bad⟩ := st
  unfold CurOk at hok
  cases cur with
  | none => exact absurd hok id
  | defaults => simp [curSect, getSect, Cur.name, RState.finish]
  | named n =>
    have hn : (n == defaultSect) = false := by simpa using hnd n rfl
    simp only at hok
    simp only [curSect, getSect, Cur.name, RState.finish, hn, Bool.false_eq_true, if_false, Ini.sect]
    have := lookup_map RSect.finish n ss
    rw [this]
    cases hl : ss.lookup n with
    | none => rw [hl] at hok; cases hok
    | some x => simp

theorem finish_setCurSect (st : RState) (s : RSect) (hok : CurOk st) (hnd : ∀ n, st.cur = .named n → n ≠ defaultSect) :
    (setCurSect st s).finish = setSect st.finish st.cur.name (RSect.finish s) := by
  obtain ⟨d, ss, sS, sO, cur, on, ind, bad⟩ := st
  unfold CurOk at hok
  cases cur with
  | none => exact absurd hok id
  | defaults => simp [setCurSect, setSect, Cur.name, RState.finish]
  | named n =>
    have hn : (n == defaultSect) = false := by simpa using hnd n rfl
    simp only [setCurSect, setSect, Cur.name, RState.finish, hn, Bool.false_eq_true, if_false]
    have := map_mapSet RSect.finish n s ss
    rw [this]

theorem finish_mapSet (k : Name) (rv : RVal) (s : RSect) :
    RSect.finish (mapSet k rv s) = mapSet k rv.finish (RSect.finish s) := by
  unfold RSect.finish
  exact map_mapSet RVal.finish k rv s

theorem lookup_isSome_mapSet_present {β : Type} (n n' : Name) (x : β) (m : List (Name × β))
    (h : (m.lookup n).isSome = true) : ((mapSet n x m).lookup n').isSome = (m.lookup n').isSome := by
  rw [lookup_mapSet]
  by_cases e : n' = n
  · subst e; simp [h]
  · simp [e]

theorem setCurSect_hasSection (st : RState) (s : RSect) (hok : CurOk st) (n' : Str) :
    ((setCurSect st s).sections.lookup n').isSome = (st.sections.lookup n').isSome := by
  obtain ⟨d, ss, sS, sO, cur, on, ind, bad⟩ := st
  unfold CurOk at hok
  cases cur with
  | none => rfl
  | defaults => rfl
  | named n => exact lookup_isSome_mapSet_present n n' s ss hok

/-- **one option, abstractly**: the state stays a mid-section state, and the parser content gains `key ↦ value` -/
theorem optBlock_spec (st : RState) (k : Name) (v : Str) (hm : Mid st) (hk : cleanKey k = true)
    (hv : cleanValue v = true) (hseen : (st.cur.name, k) ∉ st.seenOpt) :
    ∃ st1, (optLines k v).foldlM step st = .ok st1 ∧ Mid st1 ∧ st1.cur = st.cur ∧ st1.seenSect = st.seenSect ∧
      st1.seenOpt = (st.cur.name, k) :: st.seenOpt ∧ st1.finish = st.finish.set st.cur.name k v ∧
      (∀ n, (st1.sections.lookup n).isSome = (st.sections.lookup n).isSome) := by
  obtain ⟨c, cs, hkc, _, _, _, _, hlow, _, _, _, _⟩ := cleanKey_spec k hk
  obtain ⟨_, _, hrs⟩ := cleanValue_spec v hv
  refine ⟨_, optBlock st k v hm.curOk hm.indent0 hk hv hseen, ?_, ?_, ?_, ?_, ?_, ?_⟩
  · have hok' : CurOk { st with optname := some k, seenOpt := (st.cur.name, k) :: st.seenOpt } := hm.curOk
    refine ⟨curOk_setCurSect _ _ hok', ?_, ?_, ?_, ?_⟩
    · rw [setCurSect_indent]; exact hm.indent0
    · rw [setCurSect_bad]; exact hm.notBad
    · intro k' hk'
      rw [openOpt_setCurSect] at hk'
      have := (openOpt_spec _ k' hk').2.1
      simp only [Option.some.injEq] at this
      subst this
      rw [curSect_setCurSect _ _ hok']
      exact ⟨_, by simp, lookup_mapSet_self k _ _⟩
    · intro n hn
      rw [setCurSect_cur] at hn
      exact hm.nodef n hn
  · rw [setCurSect_cur]
  · rw [setCurSect_seenSect]
  · rw [setCurSect_seenOpt]
  · have hok' : CurOk { st with optname := some k, seenOpt := (st.cur.name, k) :: st.seenOpt } := hm.curOk
    rw [finish_setCurSect _ _ hok' hm.nodef, finish_mapSet, finish_curSect st hm.curOk hm.nodef,
      set_eq_setSect _ _ _ _ hlow]
    have hf : RVal.finish (.lines ((nlLines v).1 :: (nlLines v).2)) = v := by
      simp only [RVal.finish, join_nlLines, hrs]
    rw [hf]
    rfl
  · intro n
    have hok' : CurOk { st with optname := some k, seenOpt := (st.cur.name, k) :: st.seenOpt } := hm.curOk
    rw [setCurSect_hasSection _ _ hok']

/-! ### the options of a section, the blank line after them -/

theorem foldlM_append_ok {α β : Type} (f : β → α → Except IniErr β) (b b' : β) (l l' : List α)
    (h : l.foldlM f b = .ok b') : (l ++ l').foldlM f b = l'.foldlM f b' := by
  simp [List.foldlM_append, h, bind, Except.bind]

theorem optsFold (kvs : Sect) (st : RState) (hm : Mid st)
    (hclean : ∀ kv ∈ kvs, cleanKey kv.1 = true ∧ cleanValue kv.2 = true) (hnd : (kvs.map (·.1)).Nodup)
    (hseen : ∀ kv ∈ kvs, (st.cur.name, kv.1) ∉ st.seenOpt) :
    ∃ st1, (kvs.flatMap fun kv => optLines kv.1 kv.2).foldlM step st = .ok st1 ∧ Mid st1 ∧ st1.cur = st.cur ∧
      st1.seenSect = st.seenSect ∧ (∀ p ∈ st1.seenOpt, p ∈ st.seenOpt ∨ p.1 = st.cur.name) ∧
      st1.finish = kvs.foldl (fun I kv => I.set st.cur.name kv.1 kv.2) st.finish ∧
      (∀ n, (st1.sections.lookup n).isSome = (st.sections.lookup n).isSome) := by
  induction kvs generalizing st with
  | nil => exact ⟨st, by simp [pure, Except.pure], hm, rfl, rfl, fun p hp => Or.inl hp, rfl, fun _ => rfl⟩
  | cons kv rest ih =>
    obtain ⟨st1, hfold, hm1, hcur1, hsS1, hsO1, hfin1, hnames1⟩ :=
      optBlock_spec st kv.1 kv.2 hm (hclean kv (by simp)).1 (hclean kv (by simp)).2 (hseen kv (by simp))
    have hnd' : kv.1 ∉ rest.map (·.1) ∧ (rest.map (·.1)).Nodup := by simpa using hnd
    obtain ⟨st2, hfold2, hm2, hcur2, hsS2, hsO2, hfin2, hnames2⟩ := ih st1 hm1
      (fun x hx => hclean x (by simp [hx])) hnd'.2
      (by
        intro x hx
        rw [hcur1, hsO1]
        intro hmem
        rcases List.mem_cons.mp hmem with e | hmem
        · have : x.1 = kv.1 := (Prod.mk.inj e).2
          exact hnd'.1 (by rw [← this]; exact List.mem_map_of_mem hx)
        · exact hseen x (by simp [hx]) hmem)
    refine ⟨st2, ?_, hm2, by rw [hcur2, hcur1], by rw [hsS2, hsS1], ?_, ?_, fun n => by rw [hnames2, hnames1]⟩
    · rw [List.flatMap_cons, foldlM_append_ok step st st1 _ _ hfold]
      exact hfold2
    · intro p hp
      rcases hsO2 p hp with h | h
      · rw [hsO1] at h
        rcases List.mem_cons.mp h with e | h
        · exact Or.inr (by rw [e])
        · exact Or.inl h
      · exact Or.inr (by rw [h, hcur1])
    · rw [hfin2, hfin1, hcur1]
      rfl

theorem join_snoc_nil (sep : Str) (acc : List Str) (h : acc ≠ []) : join sep (acc ++ [[]]) = join sep acc ++ sep := by
  induction acc with
  | nil => exact absurd rfl h
  | cons a rest ih =>
    cases rest with
    | nil => simp [join]
    | cons b t =>
      have := ih (by simp)
      simp only [List.cons_append] at this ⊢
      simp only [join]
      rw [this]
      simp

theorem finish_snoc_nil (acc : List Str) (h : acc ≠ []) : RVal.finish (.lines (acc ++ [[]])) = RVal.finish (.lines acc) := by
  simp only [RVal.finish, join_snoc_nil _ acc h]
  exact rstrip_append_allSpace _ _ allSpace_nl

/-- the blank line `_write_section` ends with -/
theorem blank_spec (st : RState) (hm : Mid st) :
    ∃ st1, step st ['\n'] = .ok st1 ∧ st1.finish = st.finish ∧ st1.bad = false ∧ st1.indent = 0 ∧
      st1.seenSect = st.seenSect ∧ st1.seenOpt = st.seenOpt ∧
      (∀ n, (st1.sections.lookup n).isSome = (st.sections.lookup n).isSome) := by
  cases hop : st.openOpt with
  | none =>
    refine ⟨st, ?_, rfl, hm.notBad, hm.indent0, rfl, rfl, fun _ => rfl⟩
    have : strip ['\n'] = [] := by simpa using strip_pad [] [] ['\n'] allSpace_nil allSpace_nl rfl
    rw [step_blank st _ this, hop]
  | some k =>
    obtain ⟨acc, hacc, hlook⟩ := hm.openOk k hop
    have hstep := step_append st k acc [] [] hm.curOk hm.indent0 hop hlook (Or.inl rfl) (fun _ => rfl) rfl rfl
    simp only [List.append_nil, List.nil_append] at hstep
    refine ⟨_, hstep, ?_, ?_, ?_, ?_, ?_, ?_⟩
    · have h1 : RSect.finish (mapSet k (.lines (acc ++ [[]])) (curSect st)) = RSect.finish (curSect st) := by
        rw [finish_mapSet, finish_snoc_nil acc hacc]
        apply mapSet_of_lookup
        unfold RSect.finish
        rw [lookup_map, hlook]
        rfl
      rw [finish_setCurSect _ _ hm.curOk hm.nodef, h1, ← finish_setCurSect _ _ hm.curOk hm.nodef,
        setCurSect_curSect st hm.curOk]
    · rw [setCurSect_bad]; exact hm.notBad
    · rw [setCurSect_indent]; exact hm.indent0
    · rw [setCurSect_seenSect]
    · rw [setCurSect_seenOpt]
    · intro n; rw [setCurSect_hasSection _ _ hm.curOk]

/-! ### a section header, a whole section -/

/-- `[name]` on the parser content: a new, empty section unless it exists (DEFAULT always exists) -/
def ensureRaw (I : Ini) (name : Str) : Ini :=
  if (I.sections.lookup name).isSome || name == defaultSect then I
  else { I with sections := I.sections ++ [(name, [])] }

/-- one section of a file on the parser content: the header, then `cursect[key] = value` for each option -/
def loadRaw1 (I : Ini) (sec : Str × Sect) : Ini :=
  sec.2.foldl (fun I kv => I.set sec.1 kv.1 kv.2) (ensureRaw I sec.1)

theorem lookup_append_single {β : Type} (l : List (Name × β)) (n n' : Name) (x : β) :
    (l ++ [(n, x)]).lookup n' = (l.lookup n').or (if n' = n then some x else none) := by
  induction l with
  | nil =>
    simp only [List.nil_append, List.lookup_cons, List.lookup_nil, Option.none_or]
    by_cases h : n' = n
    · simp [h]
    · have : (n' == n) = false := by simpa using h
      simp [h, this]
  | cons a rest ih =>
    obtain ⟨a1, a2⟩ := a
    simp only [List.cons_append, List.lookup_cons]
    split
    · simp
    · exact ih

theorem cleanName_spec (name : Str) (h : cleanName name = true) : name ≠ [] ∧ '\n' ∉ name := by
  simp only [cleanName, Bool.and_eq_true, Bool.not_eq_true', List.contains_eq_mem, decide_eq_false_iff_not] at h
  exact ⟨by intro e; rw [e] at h; simp at h, h.2⟩

theorem header_spec (st : RState) (name : Str) (h0 : st.indent = 0) (hb : st.bad = false)
    (hname : cleanName name = true)
    (hdup : (st.sections.lookup name).isSome = true → name ∉ st.seenSect)
    (hnodef : (st.sections.lookup defaultSect).isSome = false) :
    ∃ st1, step st ('[' :: name ++ [']', '\n']) = .ok st1 ∧ Mid st1 ∧ st1.cur.name = name ∧
      st1.seenOpt = st.seenOpt ∧ (∀ x ∈ st1.seenSect, x = name ∨ x ∈ st.seenSect) ∧
      st1.finish = ensureRaw st.finish name ∧
      (∀ n, (st1.sections.lookup n).isSome =
        ((st.sections.lookup n).isSome || (n == name && name != defaultSect))) := by
  obtain ⟨hne, _⟩ := cleanName_spec name hname
  have hline : '[' :: name ++ [']', '\n'] = [] ++ ('[' :: name ++ [']']) ++ ['\n'] := by simp
  have hedge : edgeClean ('[' :: name ++ [']']) = true := by
    have := edgeClean_sandwich ['['] name [']'] (by decide) (by decide) (by simp) (by simp)
    simpa using this
  have hstrip : strip ('[' :: name ++ [']', '\n']) = '[' :: name ++ [']'] := by
    rw [hline]; exact strip_pad [] _ ['\n'] allSpace_nil allSpace_nl hedge
  rw [step_normal st _ _ hstrip (by simp [isCommentLine]) (by simp)
    (by simpa using indentOf_nonspace '[' (name ++ [']', '\n']) (by decide)) h0, sectHeader_line name hne]
  simp only
  have hfl : (st.finish.sections.lookup name).isSome = (st.sections.lookup name).isSome := by
    unfold RState.finish
    have := lookup_map RSect.finish name st.sections
    rw [this]
    cases st.sections.lookup name <;> rfl
  unfold RState.header
  by_cases hex : (st.sections.lookup name).isSome = true
  · have hnc : st.seenSect.contains name = false := by simpa using hdup hex
    have hnd : name ≠ defaultSect := by
      intro e
      rw [e, hnodef] at hex
      cases hex
    simp only [hex, hnc, if_true, Bool.false_eq_true, if_false, pure, Except.pure]
    refine ⟨_, rfl, ⟨hex, h0, hb, ?_, ?_⟩, rfl, rfl, ?_, ?_, ?_⟩
    · intro k hk
      rw [openOpt_none _ rfl] at hk
      cases hk
    · intro n hn
      cases hn
      exact hnd
    · intro x hx
      simpa using hx
    · unfold ensureRaw
      rw [hfl, hex]
      rfl
    · intro n
      by_cases e : n = name
      · subst e; simp [hex]
      · simp [e]
  · have hex' : (st.sections.lookup name).isSome = false := by
      cases h : (st.sections.lookup name).isSome with
      | false => rfl
      | true => exact absurd h hex
    by_cases hd : name = defaultSect
    · subst hd
      simp only [hex', Bool.false_eq_true, if_false, BEq.rfl, if_true, pure, Except.pure]
      refine ⟨_, rfl, ⟨trivial, h0, hb, ?_, ?_⟩, rfl, rfl, ?_, ?_, ?_⟩
      · intro k hk
        rw [openOpt_none _ rfl] at hk
        cases hk
      · intro n hn
        cases hn
      · intro x hx
        exact Or.inr hx
      · unfold ensureRaw
        simp
        rfl
      · intro n
        simp
    · have hdb : (name == defaultSect) = false := by simpa using hd
      simp only [hex', Bool.false_eq_true, if_false, hdb, pure, Except.pure]
      refine ⟨_, rfl, ⟨?_, h0, hb, ?_, ?_⟩, rfl, rfl, ?_, ?_, ?_⟩
      · show ((st.sections ++ [(name, [])]).lookup name).isSome = true
        rw [lookup_append_single]
        simp
      · intro k hk
        rw [openOpt_none _ rfl] at hk
        cases hk
      · intro n hn
        cases hn
        exact hd
      · intro x hx
        simpa using hx
      · unfold ensureRaw
        rw [hfl, hex']
        simp only [hdb, Bool.or_self, Bool.false_eq_true, if_false]
        simp [RState.finish, RSect.finish]
      · intro n
        show ((st.sections ++ [(name, [])]).lookup n).isSome = _
        rw [lookup_append_single]
        have hdn : (name != defaultSect) = true := by simpa using hd
        by_cases e : n = name
        · subst e
          simp [hdn]
        · simp [e]

theorem cleanSect_spec (s : Sect) (h : cleanSect s = true) :
    (∀ kv ∈ s, cleanKey kv.1 = true ∧ cleanValue kv.2 = true) ∧ (s.map (·.1)).Nodup := by
  simp only [cleanSect, Bool.and_eq_true, List.all_eq_true, decide_eq_true_eq] at h
  exact h

/-- **one section**: header, options, blank line -/
theorem section_spec (st : RState) (sec : Str × Sect) (h0 : st.indent = 0) (hb : st.bad = false)
    (hname : cleanName sec.1 = true) (hsect : cleanSect sec.2 = true)
    (hdup : (st.sections.lookup sec.1).isSome = true → sec.1 ∉ st.seenSect)
    (hnodef : (st.sections.lookup defaultSect).isSome = false)
    (hseenO : ∀ k, (sec.1, k) ∉ st.seenOpt) :
    ∃ st1, (sectLines sec).foldlM step st = .ok st1 ∧ st1.indent = 0 ∧ st1.bad = false ∧
      (∀ p ∈ st1.seenOpt, p ∈ st.seenOpt ∨ p.1 = sec.1) ∧ (∀ x ∈ st1.seenSect, x = sec.1 ∨ x ∈ st.seenSect) ∧
      st1.finish = loadRaw1 st.finish sec ∧
      (∀ n, (st1.sections.lookup n).isSome =
        ((st.sections.lookup n).isSome || (n == sec.1 && sec.1 != defaultSect))) := by
  obtain ⟨hkv, hnd⟩ := cleanSect_spec sec.2 hsect
  obtain ⟨st1, hs1, hm1, hn1, hO1, hS1, hf1, hnames1⟩ := header_spec st sec.1 h0 hb hname hdup hnodef
  obtain ⟨st2, hs2, hm2, hc2, hS2, hO2, hf2, hnames2⟩ := optsFold sec.2 st1 hm1 hkv hnd
    (by intro kv _; rw [hn1, hO1]; exact hseenO kv.1)
  obtain ⟨st3, hs3, hf3, hb3, hi3, hS3, hO3, hnames3⟩ := blank_spec st2 hm2
  refine ⟨st3, ?_, hi3, hb3, ?_, ?_, ?_, ?_⟩
  · unfold sectLines
    rw [List.cons_append, foldlM_cons_ok step _ _ _ _ hs1, foldlM_append_ok step _ _ _ _ hs2]
    simp [List.foldlM_cons, hs3, bind, Except.bind, pure, Except.pure]
  · intro p hp
    rw [hO3] at hp
    rcases hO2 p hp with h | h
    · rw [hO1] at h; exact Or.inl h
    · rw [hn1] at h; exact Or.inr h
  · intro x hx
    rw [hS3, hS2] at hx
    exact hS1 x hx
  · rw [hf3, hf2, hf1, hn1]
    rfl
  · intro n
    rw [hnames3, hnames2, hnames1]

/-- **a whole file** as `write` lays it out -/
theorem file_spec (f : FileC) (st : RState) (h0 : st.indent = 0) (hb : st.bad = false)
    (hclean : ∀ sec ∈ f, cleanName sec.1 = true ∧ cleanSect sec.2 = true) (hnd : (f.map (·.1)).Nodup)
    (hnodef : (st.sections.lookup defaultSect).isSome = false)
    (hS : ∀ sec ∈ f, sec.1 ∉ st.seenSect) (hO : ∀ sec ∈ f, ∀ k, (sec.1, k) ∉ st.seenOpt) :
    ∃ st1, (f.flatMap sectLines).foldlM step st = .ok st1 ∧ st1.bad = false ∧
      st1.finish = f.foldl loadRaw1 st.finish := by
  induction f generalizing st with
  | nil => exact ⟨st, by simp [pure, Except.pure], hb, rfl⟩
  | cons sec rest ih =>
    have hnd' : sec.1 ∉ rest.map (·.1) ∧ (rest.map (·.1)).Nodup := by simpa using hnd
    obtain ⟨st1, hs1, hi1, hb1, hO1, hS1, hf1, hnames1⟩ := section_spec st sec h0 hb (hclean sec (by simp)).1
      (hclean sec (by simp)).2 (fun _ => hS sec (by simp)) hnodef (hO sec (by simp))
    have hne : ∀ x ∈ rest, x.1 ≠ sec.1 := by
      intro x hx e
      exact hnd'.1 (by rw [← e]; exact List.mem_map_of_mem hx)
    obtain ⟨st2, hs2, hb2, hf2⟩ := ih st1 hi1 hb1 (fun x hx => hclean x (by simp [hx])) hnd'.2
      (by
        rw [hnames1, hnodef]
        by_cases e : sec.1 = defaultSect
        · simp [e]
        · have e' : ¬ defaultSect = sec.1 := fun h => e h.symm
          simp [e'])
      (by
        intro x hx hmem
        rcases hS1 x.1 hmem with e | h
        · exact hne x hx e
        · exact hS x (by simp [hx]) h)
      (by
        intro x hx k hmem
        rcases hO1 _ hmem with h | h
        · exact hO x (by simp [hx]) k h
        · exact hne x hx h)
    refine ⟨st2, ?_, hb2, ?_⟩
    · rw [List.flatMap_cons, foldlM_append_ok step _ _ _ _ hs1]
      exact hs2
    · rw [hf2, hf1]
      rfl

/-! ### the text as a whole -/

theorem isLine_of (body : Str) (h : '\n' ∉ body) : IsLine (body ++ ['\n']) := ⟨body, rfl, h⟩

theorem sectLines_isLine (sec : Str × Sect) (hname : cleanName sec.1 = true) (hsect : cleanSect sec.2 = true) :
    ∀ l ∈ sectLines sec, IsLine l := by
  obtain ⟨_, hnl⟩ := cleanName_spec sec.1 hname
  obtain ⟨hkv, _⟩ := cleanSect_spec sec.2 hsect
  intro l hl
  unfold sectLines at hl
  rcases List.mem_cons.mp hl with rfl | hl
  · have : '[' :: sec.1 ++ [']', '\n'] = ('[' :: sec.1 ++ [']']) ++ ['\n'] := by simp
    rw [this]
    apply isLine_of
    intro hm
    simp at hm
    exact hnl hm
  · rcases List.mem_append.mp hl with hl | hl
    · obtain ⟨kv, hkvm, hl⟩ := List.mem_flatMap.mp hl
      obtain ⟨c, cs, _, _, _, _, _, _, _, _, _, hknl⟩ := cleanKey_spec kv.1 (hkv kv hkvm).1
      obtain ⟨hn1, hn2⟩ := nlLines_no_nl kv.2
      unfold optLines at hl
      rcases List.mem_cons.mp hl with rfl | hl
      · apply isLine_of
        intro hm
        simp [delim] at hm
        rcases hm with hm | hm
        · exact hknl hm
        · exact hn1 hm
      · obtain ⟨x, hx, rfl⟩ := List.mem_map.mp hl
        have : '\t' :: x ++ ['\n'] = ('\t' :: x) ++ ['\n'] := by simp
        rw [this]
        apply isLine_of
        intro hm
        simp at hm
        exact hn2 x hx hm
    · simp at hl
      subst hl
      exact isLine_of [] (by simp)

theorem finish_init (c : Ini) : (RState.init c).finish = c := by
  have hs : ∀ s : Sect, RSect.finish (RSect.ofSect s) = s := by
    intro s
    simp [RSect.finish, RSect.ofSect, RVal.finish, List.map_map, Function.comp_def]
  obtain ⟨d, ss⟩ := c
  simp only [RState.finish, RState.init, hs, List.map_map, Function.comp_def, List.map_id']

/-- **reading what `write` wrote**, on top of any parser content without a section called DEFAULT -/
theorem iniReadInto_fileOf (c0 : Ini) (f : FileC) (hc0 : (c0.sections.lookup defaultSect).isSome = false)
    (hclean : ∀ sec ∈ f, cleanName sec.1 = true ∧ cleanSect sec.2 = true) (hnd : (f.map (·.1)).Nodup) :
    iniReadInto c0 ((f.flatMap sectLines).flatten) = .ok (f.foldl loadRaw1 c0) := by
  have hlines : ∀ l ∈ f.flatMap sectLines, IsLine l := by
    intro l hl
    obtain ⟨sec, hsec, hl⟩ := List.mem_flatMap.mp hl
    exact sectLines_isLine sec (hclean sec hsec).1 (hclean sec hsec).2 l hl
  have hnodef : ((RState.init c0).sections.lookup defaultSect).isSome = false := by
    unfold RState.init
    have := lookup_map RSect.ofSect defaultSect c0.sections
    simp only at this ⊢
    rw [this]
    cases h : c0.sections.lookup defaultSect with
    | none => rfl
    | some x => rw [h] at hc0; cases hc0
  obtain ⟨st1, hs1, hb1, hf1⟩ := file_spec f (RState.init c0) rfl rfl hclean hnd hnodef
    (by intro sec _ h; cases h) (by intro sec _ k h; cases h)
  unfold iniReadInto
  rw [splitLines_flatten _ hlines, hs1]
  simp only [bind, Except.bind, hb1, Bool.false_eq_true, if_false, pure, Except.pure]
  rw [hf1, finish_init]

end Ofx.IniText
