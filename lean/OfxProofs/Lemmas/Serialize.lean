/-
Lemmas for the serializer layer: `_escape_cdata` as a character-wise map, the wire clause under concatenation,
`indent` as a whitespace-only re-decoration (`Frame`), and the shape of the three writers' output.
-/
import OfxModel.Ofx.Serialize
import OfxModel.Spec.Wire

namespace Ofx.Serialize
open Ofx Ofx.Spec.Wire

/-! ### `str.replace` of one character, `_escape_cdata` -/

/-- what `_escape_cdata` does to one character -/
def escChar (c : Char) : Str :=
  if c = '&' then ['&', 'a', 'm', 'p', ';']
  else if c = '<' then ['&', 'l', 't', ';']
  else if c = '>' then ['&', 'g', 't', ';']
  else [c]

theorem replaceGo_single (a : Char) (new s : Str) :
    replaceGo [a] new 0 s = s.flatMap (fun c => if c = a then new else [c]) := by
  induction s with
  | nil => simp [replaceGo]
  | cons c cs ih =>
    by_cases h : c = a
    · subst h; simp [replaceGo, ih]
    · have h' : ¬ a = c := fun e => h e.symm
      simp [replaceGo, ih, h, h']

/-- the three sequential `replace` calls of `_escape_cdata` amount to one character-wise substitution -/
theorem escapeCdata_eq (s : Str) : escapeCdata s = s.flatMap escChar := by
  have e1 : "&".toList = ['&'] := rfl
  have e2 : "<".toList = ['<'] := rfl
  have e3 : ">".toList = ['>'] := rfl
  have a1 : "&amp;".toList = ['&', 'a', 'm', 'p', ';'] := rfl
  have a2 : "&lt;".toList = ['&', 'l', 't', ';'] := rfl
  have a3 : "&gt;".toList = ['&', 'g', 't', ';'] := rfl
  simp only [escapeCdata, replace, e1, e2, e3, a1, a2, a3, replaceGo_single, List.flatMap_assoc]
  congr 1
  funext c
  by_cases h1 : c = '&'
  · subst h1; simp [escChar]
  · by_cases h2 : c = '<'
    · subst h2; simp [escChar]
    · by_cases h3 : c = '>'
      · subst h3; simp [escChar]
      · simp [escChar, h1, h2, h3]

/-- `xml.sax.saxutils.escape` (`&`, `>`, `<`) and `ET._escape_cdata` (`&`, `<`, `>`) are the same function -/
theorem saxEscape_eq (s : Str) : saxEscape s = escapeCdata s := by
  rw [escapeCdata_eq]
  have e1 : "&".toList = ['&'] := rfl
  have e2 : "<".toList = ['<'] := rfl
  have e3 : ">".toList = ['>'] := rfl
  have a1 : "&amp;".toList = ['&', 'a', 'm', 'p', ';'] := rfl
  have a2 : "&lt;".toList = ['&', 'l', 't', ';'] := rfl
  have a3 : "&gt;".toList = ['&', 'g', 't', ';'] := rfl
  simp only [saxEscape, replace, e1, e2, e3, a1, a2, a3, replaceGo_single, List.flatMap_assoc]
  congr 1
  funext c
  by_cases h1 : c = '&'
  · subst h1; simp [escChar]
  · by_cases h2 : c = '<'
    · subst h2; simp [escChar]
    · by_cases h3 : c = '>'
      · subst h3; simp [escChar]
      · simp [escChar, h1, h2, h3]

theorem escapeCdata_nil : escapeCdata [] = [] := by simp [escapeCdata_eq]

theorem escapeCdata_cons (c : Char) (cs : Str) : escapeCdata (c :: cs) = escChar c ++ escapeCdata cs := by
  simp [escapeCdata_eq]

theorem escapeCdata_append (a b : Str) : escapeCdata (a ++ b) = escapeCdata a ++ escapeCdata b := by
  simp [escapeCdata_eq]

theorem escChar_plain {c : Char} (h1 : c ≠ '&') (h2 : c ≠ '<') (h3 : c ≠ '>') : escChar c = [c] := by
  simp [escChar, h1, h2, h3]

theorem escChar_cases (c : Char) :
    escChar c = ['&', 'a', 'm', 'p', ';'] ∨ escChar c = ['&', 'l', 't', ';'] ∨ escChar c = ['&', 'g', 't', ';']
      ∨ (escChar c = [c] ∧ c ≠ '&' ∧ c ≠ '<' ∧ c ≠ '>') := by
  by_cases h1 : c = '&'
  · subst h1; simp [escChar]
  · by_cases h2 : c = '<'
    · subst h2; simp [escChar]
    · by_cases h3 : c = '>'
      · subst h3; simp [escChar]
      · simp [escChar, h1, h2, h3]

theorem isSpace_not_special {c : Char} (h : isSpace c = true) : c ≠ '&' ∧ c ≠ '<' ∧ c ≠ '>' := by
  refine ⟨?_, ?_, ?_⟩ <;> (rintro rfl; revert h; decide)

/-- whitespace is written unchanged -/
theorem escapeCdata_ws {w : Str} (h : Ws w) : escapeCdata w = w := by
  induction w with
  | nil => exact escapeCdata_nil
  | cons c cs ih =>
    have hc := isSpace_not_special (h c (by simp))
    rw [escapeCdata_cons, escChar_plain hc.1 hc.2.1 hc.2.2, ih (fun x hx => h x (by simp [hx]))]
    rfl

/-! ### what `_escape_cdata` guarantees -/

/-- rest of one of the three entities `_escape_cdata` produces -/
def escAhead (cs : Str) : Bool :=
  ['a', 'm', 'p', ';'].isPrefixOf cs || ['l', 't', ';'].isPrefixOf cs || ['g', 't', ';'].isPrefixOf cs

/-- every `&` starts `&amp;`, `&lt;` or `&gt;` -/
def ampOk : Str → Bool
  | [] => true
  | c :: cs => (if c = '&' then escAhead cs else true) && ampOk cs

theorem ampOk_escChar_append (c : Char) (rest : Str) : ampOk (escChar c ++ rest) = ampOk rest := by
  rcases escChar_cases c with h | h | h | ⟨h, h1, _, _⟩ <;> rw [h]
  · simp [ampOk, escAhead, List.isPrefixOf]
  · simp [ampOk, escAhead, List.isPrefixOf]
  · simp [ampOk, escAhead, List.isPrefixOf]
  · simp [ampOk, h1]

theorem ampOk_escapeCdata (s : Str) : ampOk (escapeCdata s) = true := by
  induction s with
  | nil => simp [escapeCdata_nil, ampOk]
  | cons c cs ih => rw [escapeCdata_cons, ampOk_escChar_append, ih]

theorem ampOk_spec {s : Str} (h : ampOk s = true) (pre post : Str) (e : s = pre ++ '&' :: post) :
    escAhead post = true := by
  induction pre generalizing s with
  | nil =>
    subst e
    simp only [List.nil_append, ampOk, Bool.and_eq_true] at h
    simpa using h.1
  | cons p ps ih =>
    subst e
    simp only [List.cons_append, ampOk, Bool.and_eq_true] at h
    exact ih h.2 rfl

theorem not_mem_escapeCdata_lt (s : Str) : '<' ∉ escapeCdata s := by
  rw [escapeCdata_eq]
  simp only [List.mem_flatMap, not_exists, not_and]
  intro c _ hc
  rcases escChar_cases c with h | h | h | ⟨h, _, h2, _⟩ <;> rw [h] at hc <;> simp at hc
  exact h2 hc.symm

theorem not_mem_escapeCdata_gt (s : Str) : '>' ∉ escapeCdata s := by
  rw [escapeCdata_eq]
  simp only [List.mem_flatMap, not_exists, not_and]
  intro c _ hc
  rcases escChar_cases c with h | h | h | ⟨h, _, _, h3⟩ <;> rw [h] at hc <;> simp at hc
  exact h3 hc.symm

/-! ### the wire clause (`dataOk`, `wireLex`) -/

theorem entityAhead_append {cs : Str} (b : Str) (h : entityAhead cs = true) : entityAhead (cs ++ b) = true := by
  simp only [entityAhead, List.any_eq_true, List.isPrefixOf_iff_prefix] at h ⊢
  obtain ⟨e, he, hp⟩ := h
  exact ⟨e, he, hp.trans (List.prefix_append _ _)⟩

theorem tagRest_append {cs : Str} (b : Str) (h : tagRest cs = true) : tagRest (cs ++ b) = true := by
  induction cs with
  | nil => simp [tagRest] at h
  | cons c cs ih =>
    simp only [List.cons_append, tagRest] at h ⊢
    split at h
    · simp [*]
    · simp only [*, if_false]
      simp only [Bool.and_eq_true] at h ⊢
      exact ⟨h.1, ih h.2⟩

theorem tagAhead_append {cs : Str} (b : Str) (h : tagAhead cs = true) : tagAhead (cs ++ b) = true := by
  cases cs with
  | nil => simp [tagAhead] at h
  | cons c cs =>
    simp only [List.cons_append, tagAhead] at h ⊢
    split at h
    · rename_i hc
      simp only [hc, if_true]
      cases cs with
      | nil => simp at h
      | cons d ds =>
        simp only [List.cons_append, Bool.and_eq_true] at h ⊢
        exact ⟨h.1, tagRest_append b h.2⟩
    · rename_i hc
      simp only [hc, if_false]
      simp only [Bool.and_eq_true] at h ⊢
      exact ⟨h.1, tagRest_append b h.2⟩

theorem wireLex_append {a b : Str} (ha : wireLex a = true) (hb : wireLex b = true) : wireLex (a ++ b) = true := by
  induction a with
  | nil => simpa using hb
  | cons c cs ih =>
    simp only [List.cons_append, wireLex, Bool.and_eq_true] at ha ⊢
    refine ⟨?_, ih ha.2⟩
    have h1 := ha.1
    split at h1
    · simp only [*, if_true]; exact tagAhead_append b h1
    · split at h1
      · simp only [*, if_true]; exact entityAhead_append b h1
      · simp [*]

theorem dataOk_imp_wireLex {s : Str} (h : dataOk s = true) : wireLex s = true := by
  induction s with
  | nil => rfl
  | cons c cs ih =>
    simp only [dataOk, wireLex, Bool.and_eq_true] at h ⊢
    refine ⟨?_, ih h.2⟩
    have h1 := h.1
    split at h1
    · simp at h1
    · rename_i hc; simp only [hc, if_false]; exact h1

theorem wireLex_plain {s : Str} (h : ∀ c ∈ s, c ≠ '<' ∧ c ≠ '&') : wireLex s = true := by
  induction s with
  | nil => rfl
  | cons c cs ih =>
    have hc := h c (by simp)
    simp only [wireLex, hc.1, hc.2, if_false, Bool.true_and]
    exact ih (fun x hx => h x (by simp [hx]))

theorem dataOk_escChar_append (c : Char) (rest : Str) : dataOk (escChar c ++ rest) = dataOk rest := by
  rcases escChar_cases c with h | h | h | ⟨h, h1, h2, _⟩ <;> rw [h]
  · simp [dataOk, entityAhead, entities, List.isPrefixOf]
  · simp [dataOk, entityAhead, entities, List.isPrefixOf]
  · simp [dataOk, entityAhead, entities, List.isPrefixOf]
  · simp [dataOk, h1, h2]

/-- whatever the text, what `_escape_cdata` writes satisfies the wire clause -/
theorem dataOk_escapeCdata (s : Str) : dataOk (escapeCdata s) = true := by
  induction s with
  | nil => simp [escapeCdata_nil, dataOk]
  | cons c cs ih => rw [escapeCdata_cons, dataOk_escChar_append, ih]

theorem isTagChar_not_special {c : Char} (h : isTagChar c = true) : c ≠ '<' ∧ c ≠ '&' ∧ c ≠ '>' ∧ c ≠ '/' := by
  refine ⟨?_, ?_, ?_, ?_⟩ <;> (rintro rfl; revert h; decide)

theorem tagRest_tag {t : Str} (ht : ∀ c ∈ t, isTagChar c = true) : tagRest (t ++ ['>']) = true := by
  induction t with
  | nil => simp [tagRest]
  | cons c cs ih =>
    have hc := ht c (by simp)
    simp only [List.cons_append, tagRest, (isTagChar_not_special hc).2.2.1, if_false, hc, Bool.true_and]
    exact ih (fun x hx => ht x (by simp [hx]))

theorem tagOk_iff {t : Str} : tagOk t = true ↔ t ≠ [] ∧ ∀ c ∈ t, isTagChar c = true := by
  simp [tagOk, List.all_eq_true]

theorem wireLex_startTag {t : Str} (h : tagOk t = true) : wireLex (Serialize.startTag t) = true := by
  obtain ⟨hne, hall⟩ := tagOk_iff.1 h
  cases t with
  | nil => exact absurd rfl hne
  | cons c cs =>
    have hc := hall c (by simp)
    have hr : tagRest (cs ++ ['>']) = true := tagRest_tag (fun x hx => hall x (by simp [hx]))
    simp only [Serialize.startTag, wireLex, if_true, List.cons_append, tagAhead, (isTagChar_not_special hc).2.2.2,
      if_false, hc, hr, Bool.true_and]
    apply wireLex_plain (s := c :: (cs ++ ['>']))
    intro x hx
    simp only [List.mem_cons, List.mem_append, List.not_mem_nil, or_false] at hx
    rcases hx with rfl | hx | rfl
    · exact ⟨(isTagChar_not_special hc).1, (isTagChar_not_special hc).2.1⟩
    · have := isTagChar_not_special (hall x (by simp [hx])); exact ⟨this.1, this.2.1⟩
    · decide

theorem wireLex_endTag {t : Str} (h : tagOk t = true) : wireLex (Serialize.endTag t) = true := by
  obtain ⟨hne, hall⟩ := tagOk_iff.1 h
  cases t with
  | nil => exact absurd rfl hne
  | cons c cs =>
    have hc := hall c (by simp)
    have hr : tagRest (cs ++ ['>']) = true := tagRest_tag (fun x hx => hall x (by simp [hx]))
    simp only [Serialize.endTag, wireLex, if_true, List.cons_append, tagAhead, hc, hr, Bool.true_and]
    apply wireLex_plain (s := '/' :: c :: (cs ++ ['>']))
    intro x hx
    simp only [List.mem_cons, List.mem_append, List.not_mem_nil, or_false] at hx
    rcases hx with rfl | rfl | hx | rfl
    · decide
    · exact ⟨(isTagChar_not_special hc).1, (isTagChar_not_special hc).2.1⟩
    · have := isTagChar_not_special (hall x (by simp [hx])); exact ⟨this.1, this.2.1⟩
    · decide

/-! ### induction over trees -/

/-- mutual induction over `Tree` / `List Tree` -/
theorem tree_induction {P : Tree → Prop} {Q : List Tree → Prop}
    (node : ∀ t x tl cs, Q cs → P (.node t x tl cs)) (nil : Q [])
    (cons : ∀ c cs, P c → Q cs → Q (c :: cs)) : (∀ t, P t) ∧ (∀ cs, Q cs) :=
  ⟨fun t => Tree.rec (motive_1 := P) (motive_2 := Q) node nil cons t,
   fun cs => Tree.rec_1 (motive_1 := P) (motive_2 := Q) node nil cons cs⟩

/-! ### `indent` re-decorates with whitespace only -/

/-- how `indent` may change a text or a tail: not at all, or a blank one into whitespace -/
def OptFrame (a b : Option Str) : Prop := b = a ∨ (blank a = true ∧ ∃ w, b = some w ∧ Ws w)

mutual
  /-- `t'` is `t` up to whitespace decoration: same tags, same children structure, a text/tail differs only where
      the original was blank (`None`, empty or whitespace only) and is then whitespace; the text of a childless
      element is untouched -/
  def Frame : Tree → Tree → Prop
    | .node t x tl cs, .node t' x' tl' cs' =>
      t' = t ∧ OptFrame x x' ∧ (cs = [] → x' = x) ∧ OptFrame tl tl' ∧ FrameList cs cs'
  def FrameList : List Tree → List Tree → Prop
    | [], [] => True
    | c :: cs, c' :: cs' => Frame c c' ∧ FrameList cs cs'
    | [], _ :: _ => False
    | _ :: _, [] => False
end

theorem OptFrame.refl (a : Option Str) : OptFrame a a := Or.inl rfl

theorem ws_spaces (n : Nat) : Ws (spaces n) := by
  induction n with
  | zero => intro c hc; simp [spaces] at hc
  | succ n ih =>
    intro c hc
    simp only [spaces, List.mem_cons] at hc
    rcases hc with rfl | rfl | hc
    · decide
    · decide
    · exact ih c hc

theorem ws_indentStr (n : Nat) : Ws (indentStr n) := by
  intro c hc
  simp only [indentStr, List.mem_cons] at hc
  rcases hc with rfl | hc
  · decide
  · exact ws_spaces n c hc

theorem ws_append {a b : Str} (ha : Ws a) (hb : Ws b) : Ws (a ++ b) := by
  intro c hc
  rcases List.mem_append.1 hc with h | h
  · exact ha c h
  · exact hb c h

theorem ws_nil : Ws [] := by intro c hc; simp at hc

theorem lstrip_ws {w : Str} (h : Ws w) : lstrip w = [] := by
  induction w with
  | nil => rfl
  | cons c cs ih =>
    simp only [lstrip, h c (by simp), if_true]
    exact ih (fun x hx => h x (by simp [hx]))

theorem blank_some_ws {w : Str} (h : Ws w) : blank (some w) = true := by
  simp [blank, strip, rstrip, lstrip_ws h, lstrip]

/-- `if blank a then some i else a` is a frame step -/
theorem optFrame_set (a : Option Str) {i : Str} (hi : Ws i) : OptFrame a (if blank a then some i else a) := by
  by_cases h : blank a = true
  · simp only [h, if_true]; exact Or.inr ⟨h, i, rfl, hi⟩
  · simp only [h]; exact Or.inl rfl

/-- setting the tail once more keeps the frame -/
theorem optFrame_set_trans {a b : Option Str} {i : Str} (hi : Ws i) (h : OptFrame a b) :
    OptFrame a (if blank b then some i else b) := by
  by_cases hb : blank b = true
  · simp only [hb, if_true]
    rcases h with rfl | ⟨ha, _⟩
    · exact Or.inr ⟨hb, i, rfl, hi⟩
    · exact Or.inr ⟨ha, i, rfl, hi⟩
  · simp only [hb]; exact h

theorem frame_setTail {c c' : Tree} {i : Str} (hi : Ws i) (h : Frame c c') : Frame c (setTail i c') := by
  cases c with
  | node t x tl cs =>
    cases c' with
    | node t' x' tl' cs' =>
      simp only [setTail, Frame] at h ⊢
      exact ⟨h.1, h.2.1, h.2.2.1, optFrame_set_trans hi h.2.2.2.1, h.2.2.2.2⟩

theorem frameList_setLastTail {i : Str} (hi : Ws i) :
    ∀ {cs cs' : List Tree}, FrameList cs cs' → FrameList cs (setLastTail i cs')
  | [], [], _ => by simp [setLastTail, FrameList]
  | [], _ :: _, h => by simp [FrameList] at h
  | _ :: _, [], h => by simp [FrameList] at h
  | [c], [c'], h => by
    simp only [FrameList, setLastTail, and_true] at h ⊢
    exact frame_setTail hi h
  | [_], _ :: _ :: _, h => by simp [FrameList] at h
  | _ :: _ :: _, [_], h => by simp [FrameList] at h
  | c :: d :: cs, c' :: d' :: cs', h => by
    simp only [FrameList, setLastTail] at h ⊢
    exact ⟨h.1, frameList_setLastTail hi (cs := d :: cs) (cs' := d' :: cs') (by simpa [FrameList] using h.2)⟩

theorem indentList_eq_nil {cs : List Tree} {l : Nat} : indentList cs l = [] ↔ cs = [] := by
  cases cs <;> simp [indentList]

/-- `indent` changes only blank texts and tails, into whitespace; tags, structure and the text of every childless
    element are untouched (at every level) -/
theorem indent_frame_both :
    (∀ t l, Frame t (indent t l)) ∧ (∀ cs l, FrameList cs (indentList cs l)) := by
  apply tree_induction (P := fun t => ∀ l, Frame t (indent t l)) (Q := fun cs => ∀ l, FrameList cs (indentList cs l))
  · intro t x tl cs ih l
    by_cases hcs : cs = []
    · subst hcs
      have e : indent (.node t x tl []) l
          = .node t x (if (l != 0 && blank tl) = true then some (indentStr l) else tl) [] := by
        simp [indent]
      rw [e]
      simp only [Frame, FrameList]
      refine ⟨trivial, OptFrame.refl _, fun _ => trivial, ?_⟩
      by_cases hl : (l != 0 && blank tl) = true
      · rw [if_pos hl]
        simp only [Bool.and_eq_true] at hl
        exact ⟨Or.inr ⟨hl.2, _, rfl, ws_indentStr l⟩, trivial⟩
      · rw [if_neg hl]; exact ⟨Or.inl rfl, trivial⟩
    · have he : cs.isEmpty = false := by
        cases cs with
        | nil => exact absurd rfl hcs
        | cons _ _ => rfl
      have e : indent (.node t x tl cs) l
          = .node t (if blank x = true then some (indentStr l ++ [' ', ' ']) else x)
              (if blank tl = true then some (indentStr l) else tl)
              (setLastTail (indentStr l) (indentList cs (l + 1))) := by
        simp [indent, he]
      rw [e]
      unfold Frame
      have w2 : Ws [' ', ' '] := by
        intro c hc
        simp only [List.mem_cons, List.not_mem_nil, or_false] at hc
        rcases hc with rfl | rfl <;> decide
      exact ⟨rfl, optFrame_set x (ws_append (ws_indentStr l) w2), fun h => absurd h hcs,
        optFrame_set tl (ws_indentStr l), frameList_setLastTail (ws_indentStr l) (ih (l + 1))⟩
  · intro l; simp [indentList, FrameList]
  · intro c cs hc hcs l
    simp only [indentList, FrameList]
    exact ⟨hc l, hcs l⟩

/-! ### HTML_EMPTY / script / style are irrelevant on safe tags -/

mutual
  /-- no tag lower-cases to `script` / `style` (whose text `_serialize_html` writes raw) -/
  def rawFree : Tree → Bool
    | .node t _ _ cs => !isRaw (lower t) && rawFreeList cs
  def rawFreeList : List Tree → Bool
    | [] => true
    | c :: cs => rawFree c && rawFreeList cs
end

mutual
  /-- no tag lower-cases into `HTML_EMPTY ∪ {script, style}` -/
  def htmlSafe (he : List Str) : Tree → Bool
    | .node t _ _ cs => !isRaw (lower t) && !he.contains (lower t) && htmlSafeList he cs
  def htmlSafeList (he : List Str) : List Tree → Bool
    | [] => true
    | c :: cs => htmlSafe he c && htmlSafeList he cs
end

mutual
  /-- the writer one expects: every text and tail escaped, every element closed -/
  def toStringXml : Tree → Str
    | .node tag text tail cs =>
      startTag tag ++ (escapeCdata (orEmpty text) ++ (toStringXmlList cs ++ (endTag tag ++ escapeCdata (orEmpty tail))))
  def toStringXmlList : List Tree → Str
    | [] => []
    | c :: cs => toStringXml c ++ toStringXmlList cs
end

theorem html_eq_xml_both (he : List Str) :
    (∀ t, htmlSafe he t = true → toStringHtml he t = toStringXml t) ∧
    (∀ cs, htmlSafeList he cs = true → toStringHtmlList he cs = toStringXmlList cs) := by
  apply tree_induction
  · intro t x tl cs ih h
    simp only [htmlSafe, Bool.and_eq_true, Bool.not_eq_true'] at h
    simp only [toStringHtml, toStringXml, htmlText, htmlEnd, h.1.1, h.1.2, ih h.2]
    simp
  · intro _; rfl
  · intro c cs hc hcs h
    simp only [htmlSafeList, Bool.and_eq_true] at h
    simp only [toStringHtmlList, toStringXmlList, hc h.1, hcs h.2]

theorem htmlSafe_rawFree_both (he : List Str) :
    (∀ t, htmlSafe he t = true → rawFree t = true) ∧ (∀ cs, htmlSafeList he cs = true → rawFreeList cs = true) := by
  apply tree_induction
  · intro t x tl cs ih h
    simp only [htmlSafe, Bool.and_eq_true, Bool.not_eq_true'] at h
    simp only [rawFree, h.1.1, ih h.2]; rfl
  · intro _; rfl
  · intro c cs hc hcs h
    simp only [htmlSafeList, Bool.and_eq_true] at h
    simp only [rawFreeList, hc h.1, hcs h.2]; rfl

/-! ### the wire clause holds for everything the html writer produces -/

theorem wireLex_html_both (he : List Str) :
    (∀ t, tagsOk t = true → rawFree t = true → wireLex (toStringHtml he t) = true) ∧
    (∀ cs, tagsOkList cs = true → rawFreeList cs = true → wireLex (toStringHtmlList he cs) = true) := by
  apply tree_induction
  · intro t x tl cs ih h1 h2
    simp only [tagsOk, Bool.and_eq_true] at h1
    simp only [rawFree, Bool.and_eq_true, Bool.not_eq_true'] at h2
    simp only [toStringHtml, htmlText, h2.1]
    refine wireLex_append (wireLex_startTag h1.1) (wireLex_append (dataOk_imp_wireLex (dataOk_escapeCdata _))
      (wireLex_append (ih h1.2 h2.2) (wireLex_append ?_ (dataOk_imp_wireLex (dataOk_escapeCdata _)))))
    simp only [htmlEnd]
    split
    · rfl
    · exact wireLex_endTag h1.1
  · intro _ _; rfl
  · intro c cs hc hcs h1 h2
    simp only [tagsOkList, Bool.and_eq_true] at h1
    simp only [rawFreeList, Bool.and_eq_true] at h2
    simp only [toStringHtmlList]
    exact wireLex_append (hc h1.1 h2.1) (hcs h1.2 h2.2)

/-! ### the output is a `Rendering` -/

theorem startTag_eq (t : Str) : Serialize.startTag t = Spec.Wire.startTag t := rfl
theorem endTag_eq (t : Str) : Serialize.endTag t = Spec.Wire.endTag t := rfl

theorem frameList_nil_left {cs' : List Tree} (h : FrameList [] cs') : cs' = [] := by
  cases cs' with
  | nil => rfl
  | cons _ _ => simp [FrameList] at h

theorem frameList_cons_left {c : Tree} {cs l' : List Tree} (h : FrameList (c :: cs) l') :
    ∃ c' cs', l' = c' :: cs' ∧ Frame c c' ∧ FrameList cs cs' := by
  cases l' with
  | nil => simp [FrameList] at h
  | cons c' cs' =>
    unfold FrameList at h
    exact ⟨c', cs', rfl, h.1, h.2⟩

theorem ws_of_optFrame_none {b : Option Str} (h : OptFrame none b) : Ws (orEmpty b) := by
  rcases h with rfl | ⟨_, w, rfl, hw⟩
  · exact ws_nil
  · exact hw

theorem frame_refl_both : (∀ t, Frame t t) ∧ (∀ cs, FrameList cs cs) := by
  apply tree_induction
  · intro t x tl cs ih
    unfold Frame
    exact ⟨rfl, OptFrame.refl _, fun _ => rfl, OptFrame.refl _, ih⟩
  · unfold FrameList; trivial
  · intro c cs hc hcs
    unfold FrameList
    exact ⟨hc, hcs⟩

theorem trimmedB_iff {d : Str} : trimmedB d = true ↔ Trimmed d := by
  unfold trimmedB Trimmed
  cases h1 : d.head? <;> cases h2 : d.getLast? <;> simp

theorem escChar_ne_nil (c : Char) : escChar c ≠ [] := by
  rcases escChar_cases c with h | h | h | ⟨h, _⟩ <;> rw [h] <;> simp

theorem escChar_head (c : Char) (h : isSpace c = false) : ∀ x, (escChar c).head? = some x → isSpace x = false := by
  intro x hx
  rcases escChar_cases c with e | e | e | ⟨e, _⟩ <;> rw [e] at hx <;> simp at hx <;> subst hx
  · decide
  · decide
  · decide
  · exact h

theorem escChar_last (c : Char) (h : isSpace c = false) (pre : Str) :
    ∀ x, (pre ++ escChar c).getLast? = some x → isSpace x = false := by
  intro x hx
  rcases escChar_cases c with e | e | e | ⟨e, _⟩ <;> rw [e] at hx <;> simp at hx <;> subst hx
  · decide
  · decide
  · decide
  · exact h

/-- escaping keeps element data non-empty, trimmed, and leaves no `<` -/
theorem dataWF_escape {d : Str} (hne : d ≠ []) (ht : Trimmed d) : DataWF (escapeCdata d) := by
  refine ⟨?_, ⟨?_, ?_⟩, not_mem_escapeCdata_lt d⟩
  · cases d with
    | nil => exact absurd rfl hne
    | cons c cs =>
      rw [escapeCdata_cons]
      intro h
      exact escChar_ne_nil c (List.append_eq_nil_iff.1 h).1
  · cases d with
    | nil => exact absurd rfl hne
    | cons c cs =>
      rw [escapeCdata_cons]
      intro x hx
      have hc : isSpace c = false := ht.1 c rfl
      have : (escChar c ++ escapeCdata cs).head? = (escChar c).head? := by
        cases h : escChar c with
        | nil => exact absurd h (escChar_ne_nil c)
        | cons _ _ => rfl
      rw [this] at hx
      exact escChar_head c hc x hx
  · have hd : d = d.dropLast ++ [d.getLast hne] := (List.dropLast_concat_getLast hne).symm
    have hc : isSpace (d.getLast hne) = false := ht.2 _ (List.getLast?_eq_some_getLast hne)
    rw [hd, escapeCdata_append, escapeCdata_cons, escapeCdata_nil, List.append_nil]
    exact escChar_last _ hc _

/-- leaf texts as the domain has them -/
def TextsOk (ds : List Str) : Prop := ∀ d ∈ ds, d ≠ [] ∧ Trimmed d

theorem textsOk_append {a b : List Str} (h : TextsOk (a ++ b)) : TextsOk a ∧ TextsOk b :=
  ⟨fun d hd => h d (List.mem_append.2 (Or.inl hd)), fun d hd => h d (List.mem_append.2 (Or.inr hd))⟩

/-- html writer on a whitespace-decorated parser-shaped tree: a rendering of the escaped tree, then the tail -/
theorem html_rendering_both (he : List Str) :
    (∀ t0 t, parserShaped t0 = true → tagsOk t0 = true → htmlSafe he t0 = true → TextsOk (texts t0) → Frame t0 t →
      ∃ r, Rendering (escapeTree t0) r ∧ toStringHtml he t = r ++ orEmpty t.tail ∧ Ws (orEmpty t.tail)) ∧
    (∀ cs0 cs, parserShapedList cs0 = true → tagsOkList cs0 = true → htmlSafeList he cs0 = true →
      TextsOk (textsList cs0) → FrameList cs0 cs →
      ∃ s, RenderingList (escapeTreeList cs0) s ∧ toStringHtmlList he cs = s) := by
  apply tree_induction
  · intro tag x tl cs0 ih t hp htag hsafe htx hf
    cases t with
    | node tag' x' tl' cs' =>
    unfold Frame at hf
    obtain ⟨rfl, hx, hx0, htl, hcs⟩ := hf
    simp only [tagsOk, Bool.and_eq_true] at htag
    simp only [htmlSafe, Bool.and_eq_true, Bool.not_eq_true'] at hsafe
    cases x with
    | some d =>
      simp only [parserShaped, Bool.and_eq_true, Option.isNone_iff_eq_none, List.isEmpty_iff] at hp
      obtain ⟨rfl, rfl⟩ := hp
      have hcs' := frameList_nil_left hcs
      subst hcs'
      have hx' := hx0 rfl
      subst hx'
      have hw := ws_of_optFrame_none htl
      have hd := htx d (by simp [texts])
      refine ⟨Spec.Wire.startTag tag' ++ ([] ++ (escapeCdata d ++ ([] ++ Spec.Wire.endTag tag'))), ?_, ?_, hw⟩
      · simp only [escapeTree, escapeTreeList, Option.map_some]
        exact Rendering.leafClosed tag' (escapeCdata d) [] [] htag.1 (dataWF_escape hd.1 hd.2) ws_nil ws_nil
      · simp only [toStringHtml, toStringHtmlList, htmlText, htmlEnd, hsafe.1.1, hsafe.1.2, Tree.tail,
          escapeCdata_ws hw, startTag_eq, endTag_eq]
        simp [orEmpty]
    | none =>
      simp only [parserShaped, Bool.and_eq_true, Option.isNone_iff_eq_none] at hp
      obtain ⟨rfl, hpl⟩ := hp
      have hw := ws_of_optFrame_none htl
      have hwx := ws_of_optFrame_none hx
      have htx' : TextsOk (textsList cs0) := by simpa [texts] using htx
      obtain ⟨s, hs, es⟩ := ih cs' hpl htag.2 hsafe.2 htx' hcs
      refine ⟨Spec.Wire.startTag tag' ++ (orEmpty x' ++ (s ++ Spec.Wire.endTag tag')), ?_, ?_, hw⟩
      · simp only [escapeTree, Option.map_none]
        exact Rendering.agg tag' (escapeTreeList cs0) (orEmpty x') s htag.1 hwx hs
      · simp only [toStringHtml, htmlText, htmlEnd, hsafe.1.1, hsafe.1.2, Tree.tail, es,
          escapeCdata_ws hw, escapeCdata_ws hwx, startTag_eq, endTag_eq]
        simp
  · intro cs _ _ _ _ hf
    have := frameList_nil_left hf
    subst this
    exact ⟨[], RenderingList.nil, rfl⟩
  · intro c0 cs0 hc hcs l' hp htag hsafe htx hf
    obtain ⟨c', cs', rfl, hfc, hfcs⟩ := frameList_cons_left hf
    simp only [parserShapedList, Bool.and_eq_true] at hp
    simp only [tagsOkList, Bool.and_eq_true] at htag
    simp only [htmlSafeList, Bool.and_eq_true] at hsafe
    have htx2 := textsOk_append (by simpa [textsList] using htx)
    obtain ⟨r, hr, er, hw⟩ := hc c' hp.1 htag.1 hsafe.1 htx2.1 hfc
    obtain ⟨ss, hss, ess⟩ := hcs cs' hp.2 htag.2 hsafe.2 htx2.2 hfcs
    refine ⟨r ++ (orEmpty c'.tail ++ ss), ?_, ?_⟩
    · simp only [escapeTreeList]
      exact RenderingList.cons _ _ r _ ss hr hw hss
    · simp only [toStringHtmlList, er, ess, List.append_assoc]

/-- `tostring_unclosed_elements` on a whitespace-decorated parser-shaped tree without childless aggregate:
    a rendering of the escaped tree (leaves without end tag), then the tail -/
theorem unclosed_rendering_both :
    (∀ t0 t, parserShaped t0 = true → tagsOk t0 = true → hasEmptyAgg t0 = false → TextsOk (texts t0) →
      Frame t0 t →
      ∃ r, Rendering (escapeTree t0) r ∧ toStringUnclosed t = r ++ orEmpty t.tail ∧ Ws (orEmpty t.tail)) ∧
    (∀ cs0 cs, parserShapedList cs0 = true → tagsOkList cs0 = true → hasEmptyAggList cs0 = false →
      TextsOk (textsList cs0) → FrameList cs0 cs →
      ∃ s, RenderingList (escapeTreeList cs0) s ∧ toStringUnclosedList cs = s) := by
  apply tree_induction
  · intro tag x tl cs0 ih t hp htag hne htx hf
    cases t with
    | node tag' x' tl' cs' =>
    unfold Frame at hf
    obtain ⟨rfl, hx, hx0, htl, hcs⟩ := hf
    simp only [tagsOk, Bool.and_eq_true] at htag
    simp only [hasEmptyAgg, Bool.or_eq_false_iff, Bool.and_eq_false_iff] at hne
    cases x with
    | some d =>
      simp only [parserShaped, Bool.and_eq_true, Option.isNone_iff_eq_none, List.isEmpty_iff] at hp
      obtain ⟨rfl, rfl⟩ := hp
      have hcs' := frameList_nil_left hcs
      subst hcs'
      have hx' := hx0 rfl
      subst hx'
      have hw := ws_of_optFrame_none htl
      have hd := htx d (by simp [texts])
      refine ⟨Spec.Wire.startTag tag' ++ ([] ++ escapeCdata d), ?_, ?_, hw⟩
      · simp only [escapeTree, escapeTreeList, Option.map_some]
        exact Rendering.leafOpen tag' (escapeCdata d) [] htag.1 (dataWF_escape hd.1 hd.2) ws_nil
      · simp [toStringUnclosed, Tree.tail, startTag_eq, orEmpty, saxEscape_eq]
    | none =>
      simp only [parserShaped, Bool.and_eq_true, Option.isNone_iff_eq_none] at hp
      obtain ⟨rfl, hpl⟩ := hp
      have hw := ws_of_optFrame_none htl
      have htx' : TextsOk (textsList cs0) := by simpa [texts] using htx
      obtain ⟨s, hs, es⟩ := ih cs' hpl htag.2 hne.2 htx' hcs
      have hcs0 : cs0 ≠ [] := by
        rcases hne.1 with h | h
        · simp at h
        · intro e; subst e; simp at h
      have he' : cs'.isEmpty = false := by
        cases cs0 with
        | nil => exact absurd rfl hcs0
        | cons c0 cs0 =>
          obtain ⟨c', cs'', rfl, _, _⟩ := frameList_cons_left hcs
          rfl
      refine ⟨Spec.Wire.startTag tag' ++ (orEmpty tl' ++ (s ++ Spec.Wire.endTag tag')), ?_, ?_, hw⟩
      · simp only [escapeTree, Option.map_none]
        exact Rendering.agg tag' (escapeTreeList cs0) (orEmpty tl') s htag.1 hw hs
      · simp [toStringUnclosed, he', Tree.tail, es, startTag_eq, endTag_eq]
  · intro cs _ _ _ _ hf
    have := frameList_nil_left hf
    subst this
    exact ⟨[], RenderingList.nil, rfl⟩
  · intro c0 cs0 hc hcs l' hp htag hne htx hf
    obtain ⟨c', cs', rfl, hfc, hfcs⟩ := frameList_cons_left hf
    simp only [parserShapedList, Bool.and_eq_true] at hp
    simp only [tagsOkList, Bool.and_eq_true] at htag
    simp only [hasEmptyAggList, Bool.or_eq_false_iff] at hne
    have htx2 := textsOk_append (by simpa [textsList] using htx)
    obtain ⟨r, hr, er, hw⟩ := hc c' hp.1 htag.1 hne.1 htx2.1 hfc
    obtain ⟨ss, hss, ess⟩ := hcs cs' hp.2 htag.2 hne.2 htx2.2 hfcs
    refine ⟨r ++ (orEmpty c'.tail ++ ss), ?_, ?_⟩
    · simp only [escapeTreeList]
      exact RenderingList.cons _ _ r _ ss hr hw hss
    · simp only [toStringUnclosedList, er, ess, List.append_assoc]

/-! ### the wire clause holds for everything the unclosed writer produces, tails permitting -/

mutual
  /-- every tail is wire-safe data (`None`, whitespace, …): `tostring_unclosed_elements` writes tails raw -/
  def tailsOk : Tree → Bool
    | .node _ _ tl cs => dataOk (orEmpty tl) && tailsOkList cs
  def tailsOkList : List Tree → Bool
    | [] => true
    | c :: cs => tailsOk c && tailsOkList cs
end

theorem dataOk_ws {w : Str} (h : Ws w) : dataOk w = true := by
  induction w with
  | nil => rfl
  | cons c cs ih =>
    have hc := isSpace_not_special (h c (by simp))
    simp only [dataOk, hc.2.1, hc.1, if_false, Bool.true_and]
    exact ih (fun x hx => h x (by simp [hx]))

theorem wireLex_unclosed_both :
    (∀ t, tagsOk t = true → tailsOk t = true → wireLex (toStringUnclosed t) = true) ∧
    (∀ cs, tagsOkList cs = true → tailsOkList cs = true → wireLex (toStringUnclosedList cs) = true) := by
  apply tree_induction
  · intro t x tl cs ih h1 h2
    simp only [tagsOk, Bool.and_eq_true] at h1
    simp only [tailsOk, Bool.and_eq_true] at h2
    have htl := dataOk_imp_wireLex h2.1
    by_cases hc : cs.isEmpty = true
    · simp only [toStringUnclosed, hc, if_true, saxEscape_eq]
      exact wireLex_append (wireLex_startTag h1.1)
        (wireLex_append (dataOk_imp_wireLex (dataOk_escapeCdata _)) htl)
    · simp only [toStringUnclosed, hc]
      exact wireLex_append (wireLex_startTag h1.1) (wireLex_append htl
        (wireLex_append (ih h1.2 h2.2) (wireLex_append (wireLex_endTag h1.1) htl)))
  · intro _ _; rfl
  · intro c cs hc hcs h1 h2
    simp only [tagsOkList, Bool.and_eq_true] at h1
    simp only [tailsOkList, Bool.and_eq_true] at h2
    simp only [toStringUnclosedList]
    exact wireLex_append (hc h1.1 h2.1) (hcs h1.2 h2.2)

theorem frame_tailsOk_both :
    (∀ t t', Frame t t' → tailsOk t = true → tailsOk t' = true) ∧
    (∀ cs cs', FrameList cs cs' → tailsOkList cs = true → tailsOkList cs' = true) := by
  apply tree_induction
  · intro tag x tl cs ih t' hf h
    cases t' with
    | node tag' x' tl' cs' =>
    unfold Frame at hf
    obtain ⟨rfl, _, _, htl, hcs⟩ := hf
    simp only [tailsOk, Bool.and_eq_true] at h ⊢
    refine ⟨?_, ih cs' hcs h.2⟩
    rcases htl with rfl | ⟨_, w, rfl, hw⟩
    · exact h.1
    · exact dataOk_ws hw
  · intro cs' hf _
    have := frameList_nil_left hf
    subst this
    rfl
  · intro c cs hc hcs l' hf h
    obtain ⟨c', cs', rfl, hfc, hfcs⟩ := frameList_cons_left hf
    simp only [tailsOkList, Bool.and_eq_true] at h ⊢
    exact ⟨hc c' hfc h.1, hcs cs' hfcs h.2⟩

/-- parser-shaped trees have no tails at all -/
theorem parserShaped_tailsOk_both :
    (∀ t, parserShaped t = true → tailsOk t = true) ∧ (∀ cs, parserShapedList cs = true → tailsOkList cs = true) := by
  apply tree_induction
  · intro tag x tl cs ih h
    cases x with
    | some d =>
      simp only [parserShaped, Bool.and_eq_true, Option.isNone_iff_eq_none, List.isEmpty_iff] at h
      obtain ⟨rfl, rfl⟩ := h
      rfl
    | none =>
      simp only [parserShaped, Bool.and_eq_true, Option.isNone_iff_eq_none] at h
      obtain ⟨rfl, hl⟩ := h
      simp only [tailsOk, ih hl, Bool.and_true]
      rfl
  · intro _; rfl
  · intro c cs hc hcs h
    simp only [parserShapedList, Bool.and_eq_true] at h
    simp only [tailsOkList, hc h.1, hcs h.2]
    rfl

/-! ### frames keep the tags; escaping nothing -/

theorem frame_tags_both :
    (∀ t t', Frame t t' → tagsOk t' = tagsOk t ∧ rawFree t' = rawFree t) ∧
    (∀ cs cs', FrameList cs cs' → tagsOkList cs' = tagsOkList cs ∧ rawFreeList cs' = rawFreeList cs) := by
  apply tree_induction
  · intro tag x tl cs ih t' hf
    cases t' with
    | node tag' x' tl' cs' =>
    unfold Frame at hf
    obtain ⟨rfl, _, _, _, hcs⟩ := hf
    have := ih cs' hcs
    simp only [tagsOk, rawFree, this.1, this.2, and_self]
  · intro cs' hf
    have := frameList_nil_left hf
    subst this
    exact ⟨rfl, rfl⟩
  · intro c cs hc hcs l' hf
    obtain ⟨c', cs', rfl, hfc, hfcs⟩ := frameList_cons_left hf
    have h1 := hc c' hfc
    have h2 := hcs cs' hfcs
    simp only [tagsOkList, rawFreeList, h1.1, h1.2, h2.1, h2.2, and_self]

theorem escapeCdata_id {d : Str} (h : ∀ c ∈ d, c ≠ '&' ∧ c ≠ '<' ∧ c ≠ '>') : escapeCdata d = d := by
  induction d with
  | nil => exact escapeCdata_nil
  | cons c cs ih =>
    have hc := h c (by simp)
    rw [escapeCdata_cons, escChar_plain hc.1 hc.2.1 hc.2.2, ih (fun x hx => h x (by simp [hx]))]
    rfl

theorem escapeTree_id_both :
    (∀ t, (∀ d ∈ texts t, ∀ c ∈ d, c ≠ '&' ∧ c ≠ '<' ∧ c ≠ '>') → escapeTree t = t) ∧
    (∀ cs, (∀ d ∈ textsList cs, ∀ c ∈ d, c ≠ '&' ∧ c ≠ '<' ∧ c ≠ '>') → escapeTreeList cs = cs) := by
  apply tree_induction
  · intro tag x tl cs ih h
    cases x with
    | none =>
      have := ih (by simpa [texts] using h)
      simp only [escapeTree, this, Option.map_none]
    | some d =>
      have h1 := escapeCdata_id (h d (by simp [texts]))
      have := ih (fun d' hd' => h d' (by simp [texts, hd']))
      simp only [escapeTree, this, Option.map_some, h1]
  · intro _; rfl
  · intro c cs hc hcs h
    have h1 := hc (fun d hd => h d (by simp [textsList, hd]))
    have h2 := hcs (fun d hd => h d (by simp [textsList, hd]))
    simp only [escapeTreeList, h1, h2]

theorem texts_escapeTree_both :
    (∀ t, texts (escapeTree t) = (texts t).map escapeCdata) ∧
    (∀ cs, textsList (escapeTreeList cs) = (textsList cs).map escapeCdata) := by
  apply tree_induction
  · intro tag x tl cs ih
    cases x <;> simp [escapeTree, texts, ih]
  · rfl
  · intro c cs hc hcs
    simp [escapeTreeList, textsList, hc, hcs]

theorem wireTree_iff {t : Tree} :
    wireTree t = true ↔ parserShaped t = true ∧ tagsOk t = true ∧ TextsOk (texts t) := by
  simp only [wireTree, Bool.and_eq_true, List.all_eq_true, TextsOk, Bool.not_eq_true', trimmedB_iff, and_assoc]
  constructor
  · rintro ⟨h1, h2, h3⟩
    exact ⟨h1, h2, fun d hd => ⟨by have := (h3 d hd).1; intro e; subst e; simp at this, (h3 d hd).2⟩⟩
  · rintro ⟨h1, h2, h3⟩
    refine ⟨h1, h2, fun d hd => ⟨?_, (h3 d hd).2⟩⟩
    cases d with
    | nil => exact absurd rfl (h3 _ hd).1
    | cons _ _ => rfl

/-! ### `Trimmed` is `s.strip() == s` -/

theorem lstrip_length_le (s : Str) : (lstrip s).length ≤ s.length := by
  induction s with
  | nil => simp [lstrip]
  | cons c cs ih =>
    simp only [lstrip]
    split
    · simp only [List.length_cons]; omega
    · exact Nat.le_refl _

theorem rstrip_length_le (s : Str) : (rstrip s).length ≤ s.length := by
  have := lstrip_length_le s.reverse
  simpa [rstrip] using this

theorem lstrip_eq_self_iff (s : Str) : lstrip s = s ↔ ∀ c, s.head? = some c → isSpace c = false := by
  cases s with
  | nil => simp [lstrip]
  | cons c cs =>
    simp only [lstrip, List.head?_cons, Option.some.injEq, forall_eq']
    constructor
    · intro h
      cases hc : isSpace c with
      | false => rfl
      | true =>
        rw [if_pos hc] at h
        have := lstrip_length_le cs
        rw [h] at this
        simp at this
        omega
    · intro h; simp [h]

theorem rstrip_eq_self_iff (s : Str) : rstrip s = s ↔ ∀ c, s.getLast? = some c → isSpace c = false := by
  have := lstrip_eq_self_iff s.reverse
  simp only [List.head?_reverse] at this
  rw [← this, rstrip]
  constructor
  · intro h; have := congrArg List.reverse h; simpa using this
  · intro h; rw [h]; simp

/-- `Trimmed d` says exactly `d.strip() == d` -/
theorem trimmed_iff_strip (d : Str) : Trimmed d ↔ strip d = d := by
  unfold Trimmed strip
  constructor
  · rintro ⟨h1, h2⟩
    rw [(lstrip_eq_self_iff d).2 h1]
    exact (rstrip_eq_self_iff d).2 h2
  · intro h
    have hl : lstrip d = d := by
      have h1 := lstrip_length_le d
      have h2 := rstrip_length_le (lstrip d)
      rw [h] at h2
      cases d with
      | nil => rfl
      | cons c cs =>
        cases hc : isSpace c with
        | false => simp [lstrip, hc]
        | true =>
          have h3 := lstrip_length_le cs
          simp only [lstrip, hc, if_true] at h2
          simp only [List.length_cons] at h2
          omega
    rw [hl] at h
    exact ⟨(lstrip_eq_self_iff d).1 hl, (rstrip_eq_self_iff d).1 h⟩

/-! ### guards from the list of tags (for a Gen-obligation over the schema's names) -/

theorem guards_of_tags_both (he : List Str) :
    (∀ t, (∀ tag ∈ tags t, tagOk tag = true ∧ isRaw (lower tag) = false ∧ he.contains (lower tag) = false) →
      tagsOk t = true ∧ htmlSafe he t = true) ∧
    (∀ cs, (∀ tag ∈ tagsList cs, tagOk tag = true ∧ isRaw (lower tag) = false ∧ he.contains (lower tag) = false) →
      tagsOkList cs = true ∧ htmlSafeList he cs = true) := by
  apply tree_induction
  · intro tag x tl cs ih h
    have h0 := h tag (by simp [tags])
    have h1 := ih (fun t ht => h t (by simp [tags, ht]))
    have h3 := h0.2.2
    simp only [tagsOk, htmlSafe, h0.1, h0.2.1, h3, h1.1, h1.2]
    exact ⟨rfl, rfl⟩
  · intro _; exact ⟨rfl, rfl⟩
  · intro c cs hc hcs h
    have h1 := hc (fun t ht => h t (by simp [tagsList, ht]))
    have h2 := hcs (fun t ht => h t (by simp [tagsList, ht]))
    simp [tagsOkList, htmlSafeList, h1.1, h1.2, h2.1, h2.2]

end Ofx.Serialize
