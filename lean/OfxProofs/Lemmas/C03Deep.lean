/-
Lemmas for the whole-document form of C03 (`Props/C03Deep.lean`).

* the reader's treatment of one child (`update_args` after `groom`) is the slot the specification assigns to it
  (`updateArgs_slot`) — for every class, including the three whose reader renames a child;
* hence what the reader's fold collects is exactly what the addressed children (`slots`) supply, position by
  position (`fold_slots`);
* the specification's element list is the concatenation over the addressed children (`docElemsIn_eq`);
* membership in `instValues`.
-/
import OfxProofs.Lemmas.Groom
import OfxProofs.Props.C03Sub
import OfxModel.Spec.DocValues
namespace Ofx.Agg
open Ofx Ofx.Spec

/-! ### the slot of a child: model = specification -/

theorem groomTag_eff (c : Cls) (rn : Bool) (tag : Str) :
    groomTag c rn tag =
      (if (effTag c rn tag).1.contains '.' then none else some (effTag c rn tag).1, (effTag c rn tag).2) := by
  unfold groomTag effTag
  cases c.groom with
  | none => rfl
  | some r =>
    cases rn with
    | true => simp
    | false =>
      by_cases h : tag = r.fromTag
      · simp [h]
      · simp [h]

theorem find_of_findIdx {α} (p : α → Bool) : ∀ (l : List α),
    match l.findIdx? p with
    | none => l.find? p = none
    | some i => ∃ a, l.find? p = some a ∧ l[i]? = some a ∧ p a = true
  | [] => by simp
  | x :: l => by
    have ih := find_of_findIdx p l
    by_cases hx : p x = true
    · simp [List.findIdx?_cons, hx]
    · have hx' : p x = false := by simpa using hx
      simp only [List.findIdx?_cons, List.find?_cons, hx']
      cases hl : l.findIdx? p with
      | none => rw [hl] at ih; simpa using ih
      | some i =>
        rw [hl] at ih
        obtain ⟨a, h1, h2, h3⟩ := ih
        simp only [Option.map_some]
        exact ⟨a, h1, by simpa using h2, h3⟩

theorem specIndex_find (c : Cls) (n : Str) :
    match specIndex c n with
    | none => c.spec.find? (fun a => a.name = n) = none
    | some i => ∃ a, c.spec.find? (fun a => a.name = n) = some a ∧ c.spec[i]? = some a ∧ a.name = n ∧ a ∈ c.spec := by
  have h := find_of_findIdx (fun a : Attr => decide (a.name = n)) c.spec
  unfold specIndex
  cases hi : List.findIdx? (fun a : Attr => decide (a.name = n)) c.spec with
  | none => rw [hi] at h; exact h
  | some i =>
    rw [hi] at h
    obtain ⟨a, h1, h2, h3⟩ := h
    exact ⟨a, h1, h2, by simpa using h3, List.mem_of_getElem? h2⟩

theorem filter_names_contains (c : Cls) (hnd : (c.spec.map (·.name)).Nodup) (a : Attr) (ha : a ∈ c.spec)
    (p : Attr → Bool) : ((c.spec.filter p).map (·.name)).contains a.name = p a := by
  cases hp : p a with
  | true =>
    rw [List.contains_iff_mem, List.mem_map]
    exact ⟨a, List.mem_filter.mpr ⟨ha, hp⟩, rfl⟩
  | false =>
    cases hcon : ((c.spec.filter p).map (·.name)).contains a.name with
    | false => rfl
    | true =>
      exfalso
      rw [List.contains_iff_mem, List.mem_map] at hcon
      obtain ⟨b, hb, hbn⟩ := hcon
      obtain ⟨hbs, hpb⟩ := List.mem_filter.mp hb
      have : b = a := nodup_map_inj hnd hbs ha hbn
      subst this
      rw [hp] at hpb; cases hpb

/-- with distinct attribute names, "repeated" by name (the reader) is "repeated" by declaration -/
theorem isListMember_eq_repeated (c : Cls) (hnd : (c.spec.map (·.name)).Nodup) (a : Attr) (ha : a ∈ c.spec) :
    isListMember c a.name = repeated c a := by
  unfold isListMember listAggNames listElemNames repeated
  cases hel : c.elementList with
  | true =>
    simp only [if_true, filter_names_contains c hnd a ha]
    cases a.kind.isListElem <;> simp
  | false =>
    simp only [Bool.false_eq_true, if_false, filter_names_contains c hnd a ha]
    cases a.kind.isListElem <;> cases a.kind.isListAgg <;> simp

theorem repeated_of_unsupported (c : Cls) (a : Attr) (h : a.kind.isUnsupported = true) : repeated c a = false := by
  cases hk : a.kind <;> simp_all [repeated, Kind.isUnsupported, Kind.isListElem, Kind.isListAgg]

/-- what one successful step of the reader did, by the slot of the child -/
def SlotStep (acc acc1 : Accum) (ch : Tree) (sub : PyM Node) : Slot × Bool → Prop
  | (.skip, rn) => acc1.kwargs = acc.kwargs ∧ acc1.args = acc.args ∧ acc1.renamed = rn
  | (.unsup a, rn) =>
    acc1.kwargs = acc.kwargs ++ [(a.name, .val .none)] ∧ hasKey a.name acc.kwargs = false ∧
      acc1.args = acc.args ∧ acc1.renamed = rn
  | (.field a, rn) =>
    ∃ raw, childValue ch sub = .ok raw ∧ acc1.kwargs = acc.kwargs ++ [(a.name, raw)] ∧
      hasKey a.name acc.kwargs = false ∧ acc1.args = acc.args ∧ acc1.renamed = rn
  | (.member _, rn) =>
    ∃ raw, childValue ch sub = .ok raw ∧ acc1.kwargs = acc.kwargs ∧ acc1.args = acc.args ++ [raw] ∧
      acc1.renamed = rn

/-- **one step of the reader = the slot the specification assigns** (any class, rename hook or not) -/
theorem updateArgs_slot (c : Cls) (hnd : (c.spec.map (·.name)).Nodup) (acc acc1 : Accum) (ch : Tree)
    (sub : PyM Node) (h : updateArgs c acc ch sub = .ok acc1) :
    SlotStep acc acc1 ch sub (slotOf c acc.renamed ch.tag) := by
  rw [updateArgs_core, groomTag_eff] at h
  unfold slotOf
  generalize effTag c acc.renamed ch.tag = et at h
  obtain ⟨tg, rn⟩ := et
  simp only at h ⊢
  by_cases hd : tg.contains '.' = true
  · simp only [hd, if_true] at h ⊢
    injection h with h; subst h
    exact ⟨rfl, rfl, rfl⟩
  · simp only [hd, Bool.false_eq_true, if_false] at h ⊢
    have hf := specIndex_find c (lower tg)
    unfold stepCore at h
    cases hidx : specIndex c (lower tg) with
    | none =>
      rw [hidx] at hf h
      simp only [hf]
      injection h with h; subst h
      exact ⟨rfl, rfl, rfl⟩
    | some idx =>
      rw [hidx] at hf h
      obtain ⟨a, hfa, hget, hname, hmem⟩ := hf
      simp only [hfa]
      have hun : unsupportedAt c idx = a.kind.isUnsupported := by simp [unsupportedAt, hget]
      have hlm : isListMember c (lower tg) = repeated c a := by
        rw [← hname]; exact isListMember_eq_repeated c hnd a hmem
      simp only [hun, hlm] at h
      split at h
      · cases h
      · cases hu : a.kind.isUnsupported with
        | true =>
          have hr := repeated_of_unsupported c a hu
          simp only [hu, hr, if_true, Except.bind, Bool.false_eq_true, if_false] at h ⊢
          split at h
          · cases h
          · rename_i hk
            injection h with h; subst h
            exact ⟨by rw [hname], by rw [hname]; simpa using hk, rfl, rfl⟩
        | false =>
          simp only [hu, Bool.false_eq_true, if_false] at h ⊢
          cases hv : childValue ch sub with
          | error e => rw [hv] at h; cases h
          | ok raw =>
            rw [hv] at h
            simp only [Except.bind] at h
            cases hr : repeated c a with
            | true =>
              simp only [hr, if_true] at h ⊢
              injection h with h; subst h
              exact ⟨raw, hv, rfl, rfl, rfl⟩
            | false =>
              simp only [hr, Bool.false_eq_true, if_false] at h ⊢
              split at h
              · cases h
              · rename_i hk
                injection h with h; subst h
                exact ⟨raw, hv, by rw [hname], by rw [hname]; simpa using hk, rfl, rfl⟩

/-- what the slot says about its attribute -/
theorem slotOf_field (c : Cls) (rn rn' : Bool) (tag : Str) (a : Attr) (h : slotOf c rn tag = (.field a, rn')) :
    a ∈ c.spec ∧ a.kind.isUnsupported = false ∧ repeated c a = false := by
  unfold slotOf at h
  dsimp only at h
  split at h
  · cases h
  · split at h
    · cases h
    · rename_i b hb
      have hbm : b ∈ c.spec := List.mem_of_find?_eq_some hb
      split at h
      · cases h
      · split at h
        · cases h
        · rename_i h1 h2
          injection h with h _; injection h with h; subst h
          exact ⟨hbm, by simpa using h1, by simpa using h2⟩

theorem slotOf_member (c : Cls) (rn rn' : Bool) (tag : Str) (a : Attr) (h : slotOf c rn tag = (.member a, rn')) :
    a ∈ c.spec ∧ a.kind.isUnsupported = false ∧ repeated c a = true := by
  unfold slotOf at h
  dsimp only at h
  split at h
  · cases h
  · split at h
    · cases h
    · rename_i b hb
      have hbm : b ∈ c.spec := List.mem_of_find?_eq_some hb
      split at h
      · cases h
      · split at h
        · rename_i h1 h2
          injection h with h _; injection h with h; subst h
          exact ⟨hbm, by simpa using h1, h2⟩
        · cases h

/-! ### the addressed children of a node -/

theorem docElemsIn_eq (S : Schema) (c : Cls) : ∀ (ts : List Tree) (rn : Bool) (pos : Nat),
    docElemsIn S c rn pos ts = (slots c rn pos ts).flatMap (slotElems S c)
  | [], rn, pos => by simp [docElemsIn, slots]
  | ch :: rest, rn, pos => by
    simp only [docElemsIn, slots]
    cases h : slotOf c rn ch.tag with
    | mk sl rn' =>
      cases sl <;> simp [slotElems, docElemsIn_eq S c rest]

theorem slots_facts (c : Cls) : ∀ (ts : List Tree) (rn : Bool) (pos : Nat) (st : Step) (a : Attr) (ch : Tree),
    (st, a, ch) ∈ slots c rn pos ts →
    ch ∈ ts ∧ a ∈ c.spec ∧ a.kind.isUnsupported = false ∧
      ((st = .attr a.name ∧ repeated c a = false) ∨ (∃ j, st = .item j ∧ pos ≤ j ∧ repeated c a = true))
  | [], rn, pos, st, a, ch, h => by simp [slots] at h
  | t :: rest, rn, pos, st, a, ch, h => by
    simp only [slots] at h
    cases hs : slotOf c rn t.tag with
    | mk sl rn' =>
      rw [hs] at h
      cases sl with
      | skip =>
        obtain ⟨h1, h2⟩ := slots_facts c rest rn' pos st a ch h
        exact ⟨by simp [h1], h2⟩
      | unsup b =>
        obtain ⟨h1, h2⟩ := slots_facts c rest rn' pos st a ch h
        exact ⟨by simp [h1], h2⟩
      | field b =>
        simp only [List.mem_cons, Prod.mk.injEq] at h
        rcases h with ⟨rfl, rfl, rfl⟩ | h
        · obtain ⟨k1, k2, k3⟩ := slotOf_field c rn rn' _ _ hs
          exact ⟨by simp, k1, k2, Or.inl ⟨rfl, k3⟩⟩
        · obtain ⟨h1, h2⟩ := slots_facts c rest rn' pos st a ch h
          exact ⟨by simp [h1], h2⟩
      | member b =>
        simp only [List.mem_cons, Prod.mk.injEq] at h
        rcases h with ⟨rfl, rfl, rfl⟩ | h
        · obtain ⟨k1, k2, k3⟩ := slotOf_member c rn rn' _ _ hs
          exact ⟨by simp, k1, k2, Or.inr ⟨pos, rfl, Nat.le_refl _, k3⟩⟩
        · obtain ⟨h1, h2, h3, h4⟩ := slots_facts c rest rn' (pos + 1) st a ch h
          refine ⟨by simp [h1], h2, h3, ?_⟩
          rcases h4 with h4 | ⟨j, hj, hle, hr⟩
          · exact Or.inl h4
          · exact Or.inr ⟨j, hj, by omega, hr⟩

/-! ### what the reader's fold collects is what the addressed children supply -/

theorem not_mem_keys_of_hasKey {α} (k : Str) : ∀ (l : List (Str × α)), hasKey k l = false → k ∉ l.map (·.1)
  | [], _ => by simp
  | (k', v) :: r, h => by
    simp only [hasKey, lookup] at h
    by_cases hk : k' = k
    · simp [hk] at h
    · simp only [hk, if_false] at h
      have := not_mem_keys_of_hasKey k r (by simpa [hasKey] using h)
      simp only [List.map_cons, List.mem_cons, not_or]
      exact ⟨fun e => hk e.symm, this⟩

/-- the facts about a successful fold over `ts` started from (rename flag `rn`, positional arguments `args0`,
    keywords `kw0`) and ending in `acc'` -/
structure FoldFacts (S : Schema) (cv : Conv) (c : Cls) (ts : List Tree) (rn : Bool) (args0 : List Node)
    (kw0 : List (Str × Node)) (acc' : Accum) : Prop where
  fwd_attr : ∀ n a ch, (Step.attr n, a, ch) ∈ slots c rn args0.length ts →
    ∃ raw, childValue ch (fromEtree S cv ch) = .ok raw ∧ (n, raw) ∈ acc'.kwargs
  fwd_item : ∀ j a ch, (Step.item j, a, ch) ∈ slots c rn args0.length ts →
    ∃ raw, childValue ch (fromEtree S cv ch) = .ok raw ∧ acc'.args[j]? = some raw
  bwd_kw : ∀ n raw, (n, raw) ∈ acc'.kwargs → (n, raw) ∈ kw0 ∨ raw = .val .none ∨
    ∃ a ch, (Step.attr n, a, ch) ∈ slots c rn args0.length ts ∧ childValue ch (fromEtree S cv ch) = .ok raw
  bwd_arg : ∀ j raw, acc'.args[j]? = some raw → args0[j]? = some raw ∨
    ∃ a ch, (Step.item j, a, ch) ∈ slots c rn args0.length ts ∧ childValue ch (fromEtree S cv ch) = .ok raw
  kw_ext : ∃ kws, acc'.kwargs = kw0 ++ kws
  arg_ext : ∃ as, acc'.args = args0 ++ as
  nodup : (kw0.map (·.1)).Nodup → (acc'.kwargs.map (·.1)).Nodup

theorem fold_slots (S : Schema) (cv : Conv) (c : Cls) (hnd : (c.spec.map (·.name)).Nodup) :
    ∀ (ts : List Tree) (acc acc' : Accum), foldChildren c ts (childInsts S cv ts) acc = .ok acc' →
    FoldFacts S cv c ts acc.renamed acc.args acc.kwargs acc'
  | [], acc, acc', h => by
    simp only [foldChildren] at h
    injection h with h; subst h
    exact ⟨by simp [slots], by simp [slots], fun n raw hm => Or.inl hm, fun j raw hj => Or.inl hj,
      ⟨[], by simp⟩, ⟨[], by simp⟩, id⟩
  | t :: rest, acc, acc', h => by
    simp only [childInsts, foldChildren] at h
    cases hu : updateArgs c acc t (fromEtree S cv t) with
    | error e => simp [hu, bind, Except.bind] at h
    | ok acc1 =>
      simp only [hu, bind, Except.bind] at h
      have ih := fold_slots S cv c hnd rest acc1 acc' h
      have hs := updateArgs_slot c hnd acc acc1 t _ hu
      cases hsl : slotOf c acc.renamed t.tag with
      | mk sl rn' =>
        rw [hsl] at hs
        cases sl with
        | skip =>
          obtain ⟨hk, ha, hr⟩ := hs
          rw [hk, ha, hr] at ih
          have hsl' : slots c acc.renamed acc.args.length (t :: rest) = slots c rn' acc.args.length rest := by
            simp only [slots, hsl]
          obtain ⟨f1, f2, b1, b2, e1, e2, nd⟩ := ih
          exact ⟨by rw [hsl']; exact f1, by rw [hsl']; exact f2, by rw [hsl']; exact b1, by rw [hsl']; exact b2,
            e1, e2, nd⟩
        | unsup b =>
          obtain ⟨hk, hkey, ha, hr⟩ := hs
          rw [hk, ha, hr] at ih
          have hsl' : slots c acc.renamed acc.args.length (t :: rest) = slots c rn' acc.args.length rest := by
            simp only [slots, hsl]
          obtain ⟨f1, f2, b1, b2, ⟨kws, e1⟩, e2, nd⟩ := ih
          refine ⟨by rw [hsl']; exact f1, by rw [hsl']; exact f2, ?_, by rw [hsl']; exact b2,
            ⟨(b.name, .val .none) :: kws, by rw [e1]; simp⟩, e2, ?_⟩
          · rw [hsl']
            intro n raw hm
            rcases b1 n raw hm with h0 | h0 | h0
            · simp only [List.mem_append, List.mem_singleton, Prod.mk.injEq] at h0
              rcases h0 with h0 | ⟨_, rfl⟩
              · exact Or.inl h0
              · exact Or.inr (Or.inl rfl)
            · exact Or.inr (Or.inl h0)
            · exact Or.inr (Or.inr h0)
          · intro hn
            apply nd
            rw [List.map_append, List.nodup_append]
            refine ⟨hn, by simp, ?_⟩
            intro x hx y hy
            simp only [List.map_cons, List.map_nil, List.mem_singleton] at hy
            subst hy
            intro e; subst e
            exact not_mem_keys_of_hasKey _ _ hkey hx
        | field b =>
          obtain ⟨raw0, hv, hk, hkey, ha, hr⟩ := hs
          rw [hk, ha, hr] at ih
          have hsl' : slots c acc.renamed acc.args.length (t :: rest) =
              (.attr b.name, b, t) :: slots c rn' acc.args.length rest := by
            simp only [slots, hsl]
          obtain ⟨f1, f2, b1, b2, ⟨kws, e1⟩, e2, nd⟩ := ih
          refine ⟨?_, ?_, ?_, ?_, ⟨(b.name, raw0) :: kws, by rw [e1]; simp⟩, e2, ?_⟩
          · rw [hsl']
            intro n a ch hm
            simp only [List.mem_cons, Prod.mk.injEq, Step.attr.injEq] at hm
            rcases hm with ⟨rfl, rfl, rfl⟩ | hm
            · exact ⟨raw0, hv, by rw [e1]; simp⟩
            · exact f1 n a ch hm
          · rw [hsl']
            intro j a ch hm
            simp only [List.mem_cons, Prod.mk.injEq, reduceCtorEq, false_and, false_or] at hm
            exact f2 j a ch hm
          · rw [hsl']
            intro n raw hm
            rcases b1 n raw hm with h0 | h0 | ⟨a, ch, h0, h1⟩
            · simp only [List.mem_append, List.mem_singleton, Prod.mk.injEq] at h0
              rcases h0 with h0 | ⟨rfl, rfl⟩
              · exact Or.inl h0
              · exact Or.inr (Or.inr ⟨b, t, by simp, hv⟩)
            · exact Or.inr (Or.inl h0)
            · exact Or.inr (Or.inr ⟨a, ch, by simp [h0], h1⟩)
          · rw [hsl']
            intro j raw hj
            rcases b2 j raw hj with h0 | ⟨a, ch, h0, h1⟩
            · exact Or.inl h0
            · exact Or.inr ⟨a, ch, by simp [h0], h1⟩
          · intro hn
            apply nd
            rw [List.map_append, List.nodup_append]
            refine ⟨hn, by simp, ?_⟩
            intro x hx y hy
            simp only [List.map_cons, List.map_nil, List.mem_singleton] at hy
            subst hy
            intro e; subst e
            exact not_mem_keys_of_hasKey _ _ hkey hx
        | member b =>
          obtain ⟨raw0, hv, hk, ha, hr⟩ := hs
          rw [hk, ha, hr] at ih
          have hlen : (acc.args ++ [raw0]).length = acc.args.length + 1 := by simp
          have hsl' : slots c acc.renamed acc.args.length (t :: rest) =
              (.item acc.args.length, b, t) :: slots c rn' (acc.args.length + 1) rest := by
            simp only [slots, hsl]
          obtain ⟨f1, f2, b1, b2, e1, ⟨as, e2⟩, nd⟩ := ih
          rw [hlen] at f1 f2 b1 b2
          refine ⟨?_, ?_, ?_, ?_, e1, ⟨raw0 :: as, by rw [e2]; simp⟩, nd⟩
          · rw [hsl']
            intro n a ch hm
            simp only [List.mem_cons, Prod.mk.injEq, reduceCtorEq, false_and, false_or] at hm
            exact f1 n a ch hm
          · rw [hsl']
            intro j a ch hm
            simp only [List.mem_cons, Prod.mk.injEq, Step.item.injEq] at hm
            rcases hm with ⟨rfl, rfl, rfl⟩ | hm
            · exact ⟨raw0, hv, by rw [e2]; simp⟩
            · exact f2 j a ch hm
          · rw [hsl']
            intro n raw hm
            rcases b1 n raw hm with h0 | h0 | ⟨a, ch, h0, h1⟩
            · exact Or.inl h0
            · exact Or.inr (Or.inl h0)
            · exact Or.inr (Or.inr ⟨a, ch, by simp [h0], h1⟩)
          · rw [hsl']
            intro j raw hj
            rcases b2 j raw hj with h0 | ⟨a, ch, h0, h1⟩
            · by_cases hlt : j < acc.args.length
              · left
                rw [List.getElem?_append_left hlt] at h0
                exact h0
              · right
                rw [List.getElem?_append_right (by omega)] at h0
                have hj0 : j - acc.args.length = 0 := by
                  cases hd : j - acc.args.length with
                  | zero => rfl
                  | succ k => rw [hd] at h0; simp at h0
                have hje : j = acc.args.length := by omega
                rw [hj0] at h0
                simp only [List.getElem?_cons_zero, Option.some.injEq] at h0
                subst h0
                exact ⟨b, t, by simp [hje], hv⟩
            · exact Or.inr ⟨a, ch, by simp [h0], h1⟩

/-! ### membership in `instValues` -/

theorem mem_instValues_val (v : Val) (p : Path) (w : Val) :
    (p, w) ∈ instValues (.val v) ↔ p = [] ∧ w = v ∧ v ≠ .none := by
  cases v <;> simp [instValues]

theorem mem_fieldValues : ∀ (fields : List (Str × Node)) (p : Path) (v : Val),
    (p, v) ∈ fieldValues fields ↔ ∃ n x p', (n, x) ∈ fields ∧ (p', v) ∈ instValues x ∧ p = .attr n :: p'
  | [], p, v => by simp [fieldValues]
  | (n, x) :: r, p, v => by
    simp only [fieldValues, List.mem_append, List.mem_map, underP, mem_fieldValues r]
    constructor
    · rintro (⟨⟨p', v'⟩, hm, he⟩ | ⟨m, y, p', hm, hv, hp⟩)
      · simp only [Prod.mk.injEq] at he
        obtain ⟨rfl, rfl⟩ := he
        exact ⟨n, x, p', by simp, hm, rfl⟩
      · exact ⟨m, y, p', by simp [hm], hv, hp⟩
    · rintro ⟨m, y, p', hm, hv, hp⟩
      simp only [List.mem_cons, Prod.mk.injEq] at hm
      rcases hm with ⟨rfl, rfl⟩ | hm
      · exact Or.inl ⟨(p', v), hv, by simp [hp]⟩
      · exact Or.inr ⟨m, y, p', hm, hv, hp⟩

theorem mem_itemValues : ∀ (items : List Node) (i : Nat) (p : Path) (v : Val),
    (p, v) ∈ itemValues i items ↔ ∃ j x p', items[j]? = some x ∧ (p', v) ∈ instValues x ∧ p = .item (i + j) :: p'
  | [], i, p, v => by simp [itemValues]
  | x :: r, i, p, v => by
    simp only [itemValues, List.mem_append, List.mem_map, underP, mem_itemValues r]
    constructor
    · rintro (⟨⟨p', v'⟩, hm, he⟩ | ⟨j, y, p', hm, hv, hp⟩)
      · simp only [Prod.mk.injEq] at he
        obtain ⟨rfl, rfl⟩ := he
        exact ⟨0, x, p', by simp, hm, rfl⟩
      · exact ⟨j + 1, y, p', by simpa using hm, hv, by rw [hp]; congr 2; omega⟩
    · rintro ⟨j, y, p', hm, hv, hp⟩
      cases j with
      | zero =>
        simp only [List.getElem?_cons_zero, Option.some.injEq] at hm
        subst hm
        exact Or.inl ⟨(p', v), hv, by simp [hp]⟩
      | succ j =>
        simp only [List.getElem?_cons_succ] at hm
        exact Or.inr ⟨j, y, p', hm, hv, by rw [hp]; congr 2; omega⟩

theorem mem_instValues_agg (ci : Nat) (fields : List (Str × Node)) (items : List Node) (p : Path) (v : Val) :
    (p, v) ∈ instValues (.agg ci fields items) ↔
      (∃ n x p', (n, x) ∈ fields ∧ (p', v) ∈ instValues x ∧ p = .attr n :: p') ∨
      (∃ j x p', items[j]? = some x ∧ (p', v) ∈ instValues x ∧ p = .item j :: p') := by
  simp only [instValues, List.mem_append, mem_fieldValues, mem_itemValues, Nat.zero_add]

/-! ### the constructor's treatment of one collected value -/

theorem childValue_text (ch : Tree) (sub : PyM Node) (x : Char) (xs : Str) (h : ch.text = some (x :: xs)) :
    childValue ch sub = .ok (.val (.str (x :: xs))) := by
  simp [childValue, h]

theorem childValue_notext (ch : Tree) (sub : PyM Node) (h : ch.text = none ∨ ch.text = some []) :
    childValue ch sub = sub := by
  rcases h with h | h <;> simp [childValue, h]

/-- `from_etree` returns an instance or fails -/
theorem fromEtree_agg (S : Schema) (cv : Conv) (t : Tree) (n : Node) (h : fromEtree S cv t = .ok n) :
    ∃ ck f i, n = .agg ck f i := by
  cases t with
  | node tag x tl children =>
    obtain ⟨ci, args, kw, _, hc⟩ := fromEtree_is_construct S cv tag x tl children n h
    obtain ⟨_, f, i, _, _, _, _, _, hn⟩ := (construct_ok_iff S cv ci args kw n).mp hc
    exact ⟨ci, f, i, hn⟩

/-- a text stored under an attribute: the attribute is an element and the value is its converter's -/
theorem setAttr_str (S : Schema) (cv : Conv) (a : Attr) (s : Str) (w : Node)
    (h : setAttr S cv a (.val (.str s)) = .ok (some w)) :
    isElemKind a.kind = true ∧ ∃ v, w = .val v ∧ cv.convert S.enums a.kind a.required (.str s) = .ok v := by
  cases hk : a.kind <;> simp only [setAttr, hk, convertSub, Except.map, Node.toVal] at h <;>
    first
    | cases h
    | (refine ⟨rfl, ?_⟩
       rw [hk] at *
       split at h
       · cases h
       · rename_i v hv
         injection h with h; injection h with h
         exact ⟨v, h.symm, hv⟩)

/-- an instance stored under a sub-aggregate attribute is stored as it is -/
theorem setAttr_agg_sub (S : Schema) (cv : Conv) (a : Attr) (t ck : Nat) (f : List (Str × Node)) (i : List Node)
    (w : Node) (hk : a.kind = .sub t) (h : setAttr S cv a (.agg ck f i) = .ok (some w)) : w = .agg ck f i := by
  simp only [setAttr, hk, convertSub] at h
  split at h
  · simp only [Except.map] at h
    injection h with h; injection h with h; exact h.symm
  · simp [Except.map] at h

/-- an instance can only be stored under a sub-aggregate attribute (the element converters refuse objects) -/
theorem setAttr_agg (S : Schema) (cv : Conv) (hother : ∀ k r s v, cv.convert S.enums k r (.other s) ≠ .ok v)
    (a : Attr) (ck : Nat) (f : List (Str × Node)) (i : List Node) (w : Node)
    (h : setAttr S cv a (.agg ck f i) = .ok (some w)) : (∃ t, a.kind = .sub t) ∧ w = .agg ck f i := by
  cases hk : a.kind with
  | sub t => exact ⟨⟨t, rfl⟩, setAttr_agg_sub S cv a t ck f i w hk h⟩
  | unsupported => simp [setAttr, hk] at h
  | listAgg _ => simp [setAttr, hk] at h
  | listElem _ _ => simp [setAttr, hk] at h
  | _ =>
    exfalso
    simp only [setAttr, hk, Node.toVal] at h
    generalize hc : cv.convert S.enums _ a.required (.other "Aggregate") = r at h
    cases r with
    | error e => simp [Except.map] at h
    | ok v => exact hother _ _ _ _ hc

theorem setAttr_none (S : Schema) (cv : Conv) (hnone : ∀ k r v, cv.convert S.enums k r .none = .ok v → v = .none)
    (a : Attr) (w : Node) (h : setAttr S cv a (.val .none) = .ok (some w)) : w = .val .none := by
  cases hk : a.kind with
  | sub t =>
    simp only [setAttr, hk] at h
    cases hcs : convertSub S t a.required (.val .none) with
    | error e => simp [hcs, Except.map] at h
    | ok w' =>
      simp only [hcs, Except.map] at h
      injection h with h; injection h with h
      exact h ▸ convertSub_none S t _ w' hcs
  | unsupported => simp [setAttr, hk] at h
  | listAgg _ => simp [setAttr, hk] at h
  | listElem _ _ => simp [setAttr, hk] at h
  | _ =>
    simp only [setAttr, hk, Node.toVal] at h
    cases hcv : cv.convert S.enums a.kind a.required .none with
    | error e => simp [hk] at hcv; simp [hcv, Except.map] at h
    | ok v =>
      have := hnone _ _ v hcv
      subst this
      simp only [hk] at hcv
      simp only [hcv, Except.map] at h
      injection h with h; injection h with h; exact h.symm

/-- a text among the positional arguments: only an `ElementList` takes it, as its one list element's conversion -/
theorem applyOne_str (S : Schema) (cv : Conv) (c : Cls) (s : Str) (m : Node)
    (h : applyOne S cv c (.val (.str s)) = .ok m) :
    c.elementList = true ∧ ∃ a' inner ireq v, c.spec.filter (fun a => a.kind.isListElem) = [a'] ∧
      a'.kind = .listElem inner ireq ∧ m = .val v ∧ cv.convert S.enums inner ireq (.str s) = .ok v := by
  unfold applyOne at h
  cases hel : c.elementList with
  | false => simp [hel, applyArg] at h
  | true =>
    refine ⟨rfl, ?_⟩
    simp only [hel, if_true] at h
    split at h
    · rename_i a' hf
      split at h
      · rename_i inner ireq hk
        simp only [Node.toVal] at h
        cases hc : cv.convert S.enums inner ireq (.str s) with
        | error e => simp [hc, Except.map] at h
        | ok v =>
          simp only [hc, Except.map] at h
          injection h with h
          exact ⟨a', inner, ireq, v, hf, hk, h.symm, hc⟩
      · cases h
    · cases h

/-- an instance among the positional arguments: a plain aggregate keeps it as it is; an `ElementList` would have
    to convert an object -/
theorem applyOne_agg (S : Schema) (cv : Conv) (c : Cls) (ck : Nat) (f : List (Str × Node)) (i : List Node) (m : Node)
    (h : applyOne S cv c (.agg ck f i) = .ok m) :
    (c.elementList = false ∧ m = .agg ck f i) ∨
    (c.elementList = true ∧ ∃ k r v, cv.convert S.enums k r (.other "Aggregate") = .ok v) := by
  unfold applyOne at h
  cases hel : c.elementList with
  | false =>
    left
    simp only [hel, Bool.false_eq_true, if_false, applyArg] at h
    split at h
    · injection h with h; exact ⟨rfl, h.symm⟩
    · cases h
  | true =>
    right
    refine ⟨rfl, ?_⟩
    simp only [hel, if_true] at h
    split at h
    · split at h
      · rename_i inner ireq hk
        simp only [Node.toVal] at h
        cases hc : cv.convert S.enums inner ireq (.other "Aggregate") with
        | error e => simp [hc, Except.map] at h
        | ok v => exact ⟨inner, ireq, v, hc⟩
      · cases h
    · cases h

/-! ### positions through `mapM` -/

theorem mapM_getElem {α β} (f : α → PyM β) : ∀ (l : List α) (r : List β), l.mapM (m := PyM) f = .ok r →
    ∀ (j : Nat), (∀ x, l[j]? = some x → ∃ y, r[j]? = some y ∧ f x = .ok y) ∧
         (∀ y, r[j]? = some y → ∃ x, l[j]? = some x ∧ f x = .ok y)
  | [], r, h, j => by
    simp [List.mapM_nil, pure, Except.pure] at h; subst h; simp
  | x :: l, r, h, j => by
    rw [List.mapM_cons] at h
    cases hx : f x with
    | error e => simp [hx, bind, Except.bind] at h
    | ok x' =>
      cases hl : l.mapM (m := PyM) f with
      | error e => simp [hx, hl, bind, Except.bind] at h
      | ok l' =>
        simp only [hx, hl, bind, Except.bind, pure, Except.pure] at h
        injection h with h; subst h
        cases j with
        | zero => simp [hx]
        | succ j => simpa using mapM_getElem f l l' hl j

theorem lookup_of_mem_nodup {α} (k : Str) (v : α) : ∀ (l : List (Str × α)), (l.map (·.1)).Nodup → (k, v) ∈ l →
    lookup k l = some v
  | [], _, h => by simp at h
  | (k', v') :: r, hn, h => by
    simp only [List.map_cons, List.nodup_cons] at hn
    simp only [List.mem_cons, Prod.mk.injEq] at h
    rcases h with ⟨rfl, rfl⟩ | h
    · simp [lookup]
    · have hne : k' ≠ k := by
        intro e; subst e
        exact hn.1 (List.mem_map.mpr ⟨(k', v), h, rfl⟩)
      simp only [lookup, hne, if_false]
      exact lookup_of_mem_nodup k v r hn.2 h

/-! ### induction over documents -/

mutual
  theorem tree_ind (P : Tree → Prop)
      (step : ∀ tag x tl children, (∀ ch ∈ children, P ch) → P (.node tag x tl children)) : ∀ t, P t
    | .node tag x tl children => step tag x tl children (tree_ind_list P step children)
  theorem tree_ind_list (P : Tree → Prop)
      (step : ∀ tag x tl children, (∀ ch ∈ children, P ch) → P (.node tag x tl children)) :
      ∀ (ts : List Tree), ∀ ch ∈ ts, P ch
    | [], ch, h => by simp at h
    | t :: ts, ch, h => by
      rcases List.mem_cons.mp h with e | h
      · exact e ▸ tree_ind P step t
      · exact tree_ind_list P step ts ch h
end

end Ofx.Agg
