/-
Calendar facts: CPython's `_ord2ymd` and `_ymd2ord` are mutually inverse on all valid dates (direct
arithmetic proof over the 400/100/4/1-year decomposition; the month step is a finite table closed by
`decide +kernel` and lifted), and the closed forms agree with the counting definitions of the Spec.
-/
import OfxModel.Py.Cal
import OfxModel.Spec.Instant

namespace Ofx.Cal

theorem div_mod_of (m a r : Nat) (h : r < m) : (m * a + r) / m = a ∧ (m * a + r) % m = r := by
  have hm : 0 < m := by omega
  constructor
  · rw [Nat.mul_add_div hm, Nat.div_eq_of_lt h]; rfl
  · rw [Nat.mul_add_mod, Nat.mod_eq_of_lt h]

/-- every year ≥ 1 is `400a + 100b + 4c + e + 1` -/
theorem year_decomp (y : Nat) (hy : 1 ≤ y) :
    ∃ a b c e, b < 4 ∧ c < 25 ∧ e < 4 ∧ y = 400 * a + 100 * b + 4 * c + e + 1 :=
  ⟨(y - 1) / 400, (y - 1) % 400 / 100, (y - 1) % 400 % 100 / 4, (y - 1) % 400 % 100 % 4,
    by omega, by omega, by omega, by omega⟩

theorem dby_decomp (a b c e : Nat) (hb : b < 4) (hc : c < 25) (he : e < 4) :
    daysBeforeYear (400 * a + 100 * b + 4 * c + e + 1) = 146097 * a + 36524 * b + 1461 * c + 365 * e := by
  unfold daysBeforeYear
  simp only [Nat.add_sub_cancel]
  omega

theorem isLeap_decomp (a b c e : Nat) (hb : b < 4) (hc : c < 25) (he : e < 4) :
    isLeap (400 * a + 100 * b + 4 * c + e + 1) = (e == 3 && (c != 24 || b == 3)) := by
  rw [Bool.eq_iff_iff]
  simp [isLeap]
  omega

theorem yearPart_reg (a b c e k : Nat) (hb : b < 4) (hc : c < 25) (he : e < 4) (hk : k < 365) :
    let n0 := 146097 * a + 36524 * b + 1461 * c + 365 * e + k
    n0 / 146097 = a ∧ n0 % 146097 / 36524 = b ∧ n0 % 146097 % 36524 / 1461 = c
    ∧ n0 % 146097 % 36524 % 1461 / 365 = e ∧ n0 % 146097 % 36524 % 1461 % 365 = k := by
  intro n0
  have e0 : n0 = 146097 * a + (36524 * b + (1461 * c + (365 * e + k))) := by omega
  obtain ⟨d1, m1⟩ := div_mod_of 146097 a (36524 * b + (1461 * c + (365 * e + k))) (by omega)
  obtain ⟨d2, m2⟩ := div_mod_of 36524 b (1461 * c + (365 * e + k)) (by omega)
  obtain ⟨d3, m3⟩ := div_mod_of 1461 c (365 * e + k) (by omega)
  obtain ⟨d4, m4⟩ := div_mod_of 365 e k hk
  rw [e0, m1, m2, m3]
  exact ⟨d1, d2, d3, d4, m4⟩

/-! ### the month step: finite tables -/

def dimL (leap : Bool) (m : Nat) : Nat := if m == 2 && leap then 29 else dimTable m
def dbmL (leap : Bool) (m : Nat) : Nat := dbmTable m + (if m > 2 && leap then 1 else 0)

def monthFwdOk (leap : Bool) : Bool :=
  (List.range 13).all fun m => (List.range 32).all fun d =>
    !(1 ≤ m && 1 ≤ d && d ≤ dimL leap m && dbmL leap m + d - 1 < 365) ||
      monthDay leap (dbmL leap m + d - 1) == (m, d)

def monthBwdOk (leap : Bool) : Bool :=
  (List.range 365).all fun k =>
    let (m, d) := monthDay leap k
    1 ≤ m && m ≤ 12 && 1 ≤ d && d ≤ dimL leap m && dbmL leap m + d == k + 1

theorem monthFwd_table : monthFwdOk true = true ∧ monthFwdOk false = true := by decide +kernel
theorem monthBwd_table : monthBwdOk true = true ∧ monthBwdOk false = true := by decide +kernel

theorem dimL_le (leap : Bool) (m : Nat) (hm : 1 ≤ m ∧ m ≤ 12) : dimL leap m ≤ 31 := by
  obtain ⟨h1, h2⟩ := hm
  have : m = 1 ∨ m = 2 ∨ m = 3 ∨ m = 4 ∨ m = 5 ∨ m = 6 ∨ m = 7 ∨ m = 8 ∨ m = 9 ∨ m = 10 ∨ m = 11 ∨ m = 12 := by omega
  rcases this with h | h | h | h | h | h | h | h | h | h | h | h <;> subst h <;> cases leap <;> decide

theorem monthDay_fwd (leap : Bool) (m d : Nat) (hm : 1 ≤ m ∧ m ≤ 12) (hd : 1 ≤ d ∧ d ≤ dimL leap m)
    (hk : dbmL leap m + d - 1 < 365) : monthDay leap (dbmL leap m + d - 1) = (m, d) := by
  have hd31 : d < 32 := by have := dimL_le leap m hm; omega
  have h : monthFwdOk leap = true := by cases leap <;> simp [monthFwd_table.1, monthFwd_table.2]
  unfold monthFwdOk at h
  rw [List.all_eq_true] at h
  have h1 := h m (List.mem_range.mpr (by omega))
  rw [List.all_eq_true] at h1
  have h2 := h1 d (List.mem_range.mpr hd31)
  have hc : (1 ≤ m && 1 ≤ d && d ≤ dimL leap m && dbmL leap m + d - 1 < 365) = true := by
    simp [hm.1, hd.1, hd.2, hk]
  rw [hc] at h2
  simpa using h2

theorem monthDay_bwd (leap : Bool) (k : Nat) (hk : k < 365) :
    1 ≤ (monthDay leap k).1 ∧ (monthDay leap k).1 ≤ 12 ∧ 1 ≤ (monthDay leap k).2
    ∧ (monthDay leap k).2 ≤ dimL leap (monthDay leap k).1
    ∧ dbmL leap (monthDay leap k).1 + (monthDay leap k).2 = k + 1 := by
  have h : monthBwdOk leap = true := by cases leap <;> simp [monthBwd_table.1, monthBwd_table.2]
  unfold monthBwdOk at h
  rw [List.all_eq_true] at h
  have h1 := h k (List.mem_range.mpr hk)
  simp only [Bool.and_eq_true, decide_eq_true_eq, beq_iff_eq] at h1
  obtain ⟨⟨⟨⟨a, b⟩, c⟩, d⟩, e⟩ := h1
  exact ⟨a, b, c, d, e⟩

theorem dbm_dim_le (leap : Bool) (m : Nat) (hm : 1 ≤ m ∧ m ≤ 12) :
    dbmL leap m + dimL leap m ≤ (if leap then 366 else 365)
    ∧ (dbmL leap m + dimL leap m = 366 → m = 12) := by
  obtain ⟨h1, h2⟩ := hm
  have : m = 1 ∨ m = 2 ∨ m = 3 ∨ m = 4 ∨ m = 5 ∨ m = 6 ∨ m = 7 ∨ m = 8 ∨ m = 9 ∨ m = 10 ∨ m = 11 ∨ m = 12 := by omega
  rcases this with h | h | h | h | h | h | h | h | h | h | h | h <;> subst h <;> cases leap <;> decide

theorem daysInMonth_eq (y m : Nat) : daysInMonth y m = dimL (isLeap y) m := rfl
theorem daysBeforeMonth_eq (y m : Nat) : daysBeforeMonth y m = dbmL (isLeap y) m := rfl

/-- `_ord2ymd(_ymd2ord(y, m, d)) == (y, m, d)` for every valid date (no upper bound on the year) -/
theorem ord2ymd_ymd2ord (y m d : Nat) (hy : 1 ≤ y) (hm : 1 ≤ m ∧ m ≤ 12)
    (hd : 1 ≤ d ∧ d ≤ daysInMonth y m) : ord2ymd (ymd2ord y m d) = (y, m, d) := by
  obtain ⟨a, b, c, e, hb, hc, he, rfl⟩ := year_decomp y hy
  have hleap := isLeap_decomp a b c e hb hc he
  have hdby := dby_decomp a b c e hb hc he
  rw [daysInMonth_eq] at hd
  generalize hL : isLeap (400 * a + 100 * b + 4 * c + e + 1) = L at *
  have hle := dbm_dim_le L m hm
  have hord : ymd2ord (400 * a + 100 * b + 4 * c + e + 1) m d - 1
      = 146097 * a + 36524 * b + 1461 * c + 365 * e + (dbmL L m + d - 1) := by
    unfold ymd2ord; rw [daysBeforeMonth_eq, hL, hdby]; omega
  by_cases hk : dbmL L m + d - 1 < 365
  · obtain ⟨h1, h2, h3, h4, h5⟩ := yearPart_reg a b c e (dbmL L m + d - 1) hb hc he hk
    unfold ord2ymd
    simp only [hord, h1, h2, h3, h4, h5]
    have hne : (e == 4 || b == 4) = false := by simp; omega
    simp only [hne, Bool.false_eq_true, if_false, ← hleap, monthDay_fwd L m d hm hd hk]
    congr 1; omega
  · -- last day of a leap year
    have hL' : L = true := by
      cases L
      · simp at hle; omega
      · rfl
    subst hL'
    simp at hle
    have hm12 : m = 12 := hle.2 (by omega)
    have hkk : dbmL true m + d - 1 = 365 := by omega
    have hd31 : d = 31 := by subst hm12; simp [dbmL, dbmTable] at hkk; omega
    subst hm12 hd31
    have hlp : e = 3 ∧ (c ≠ 24 ∨ b = 3) := by
      have := hleap.symm; simp at this; exact this
    obtain ⟨he3, hcb⟩ := hlp
    subst he3
    unfold ord2ymd
    simp only [hord, hkk]
    by_cases hc24 : c = 24
    · have hb3 : b = 3 := by
        rcases hcb with h | h
        · exact absurd hc24 h
        · exact h
      subst hc24 hb3
      have e0 : 146097 * a + 36524 * 3 + 1461 * 24 + 365 * 3 + 365 = 146097 * a + 146096 := by omega
      obtain ⟨d1, m1⟩ := div_mod_of 146097 a 146096 (by omega)
      rw [e0, d1, m1]
      simp
      omega
    · have hc' : c < 24 := by omega
      have e0 : 146097 * a + 36524 * b + 1461 * c + 365 * 3 + 365
          = 146097 * a + (36524 * b + (1461 * c + 1460)) := by omega
      obtain ⟨d1, m1⟩ := div_mod_of 146097 a (36524 * b + (1461 * c + 1460)) (by omega)
      obtain ⟨d2, m2⟩ := div_mod_of 36524 b (1461 * c + 1460) (by omega)
      obtain ⟨d3, m3⟩ := div_mod_of 1461 c 1460 (by omega)
      rw [e0]
      simp only [d1, m1, d2, m2, d3, m3]
      simp
      omega

/-- `_ord2ymd(n)` is a valid date whose ordinal is `n`, for every `n ≥ 1` -/
theorem ymd2ord_ord2ymd (n : Nat) (hn : 1 ≤ n) :
    1 ≤ (ord2ymd n).1 ∧ 1 ≤ (ord2ymd n).2.1 ∧ (ord2ymd n).2.1 ≤ 12 ∧ 1 ≤ (ord2ymd n).2.2
    ∧ (ord2ymd n).2.2 ≤ daysInMonth (ord2ymd n).1 (ord2ymd n).2.1
    ∧ ymd2ord (ord2ymd n).1 (ord2ymd n).2.1 (ord2ymd n).2.2 = n := by
  unfold ord2ymd
  simp only []
  generalize hr1 : (n - 1) % 146097 = r1
  generalize ha : (n - 1) / 146097 = a
  generalize hr2 : r1 % 36524 = r2
  generalize hb : r1 / 36524 = b
  generalize hr3 : r2 % 1461 = r3
  generalize hc : r2 / 1461 = c
  generalize hk : r3 % 365 = k
  generalize he : r3 / 365 = e
  by_cases hb4 : b = 4
  · -- last day of a 400-year cycle
    subst hb4
    have hc0 : c = 0 := by omega
    have he0 : e = 0 := by omega
    subst hc0 he0
    simp only [beq_self_eq_true, Bool.or_true, if_true]
    have hy : a * 400 + 1 + 4 * 100 + 0 * 4 + 0 - 1 = 400 * a + 100 * 3 + 4 * 24 + 3 + 1 := by omega
    rw [hy]
    have hdby := dby_decomp a 3 24 3 (by omega) (by omega) (by omega)
    have hleap := isLeap_decomp a 3 24 3 (by omega) (by omega) (by omega)
    refine ⟨by omega, by omega, by omega, by omega, ?_, ?_⟩
    · rw [daysInMonth_eq, hleap]; decide
    · unfold ymd2ord; rw [daysBeforeMonth_eq, hleap, hdby]
      have : dbmL (3 == 3 && (24 != 24 || 3 == 3)) 12 = 335 := by decide
      rw [this]; omega
  · by_cases he4 : e = 4
    · -- last day of an ordinary leap year
      subst he4
      have hb' : b < 4 := by omega
      have hc' : c < 24 := by omega
      simp only [beq_self_eq_true, Bool.true_or, if_true]
      have hy : a * 400 + 1 + b * 100 + c * 4 + 4 - 1 = 400 * a + 100 * b + 4 * c + 3 + 1 := by omega
      rw [hy]
      have hdby := dby_decomp a b c 3 hb' (by omega) (by omega)
      have hleap := isLeap_decomp a b c 3 hb' (by omega) (by omega)
      have hl : (3 == 3 && (c != 24 || b == 3)) = true := by simp; omega
      rw [hl] at hleap
      refine ⟨by omega, by omega, by omega, by omega, ?_, ?_⟩
      · rw [daysInMonth_eq, hleap]; decide
      · unfold ymd2ord; rw [daysBeforeMonth_eq, hleap, hdby]
        have : dbmL true 12 = 335 := by decide
        rw [this]; omega
    · have hb' : b < 4 := by omega
      have he' : e < 4 := by omega
      have hc' : c < 25 := by omega
      have hk' : k < 365 := by omega
      have hne : (e == 4 || b == 4) = false := by simp; exact ⟨he4, hb4⟩
      simp only [hne, Bool.false_eq_true, if_false]
      have hy : a * 400 + 1 + b * 100 + c * 4 + e = 400 * a + 100 * b + 4 * c + e + 1 := by omega
      rw [hy]
      have hdby := dby_decomp a b c e hb' hc' he'
      have hleap := isLeap_decomp a b c e hb' hc' he'
      rw [← hleap]
      generalize hL : isLeap (400 * a + 100 * b + 4 * c + e + 1) = L at *
      obtain ⟨m1, m2, d1, d2, hs⟩ := monthDay_bwd L k hk'
      rcases hmd : monthDay L k with ⟨mm, dd⟩
      rw [hmd] at m1 m2 d1 d2 hs
      simp only at m1 m2 d1 d2 hs ⊢
      refine ⟨by omega, m1, m2, d1, ?_, ?_⟩
      · rw [daysInMonth_eq, hL]; exact d2
      · unfold ymd2ord; rw [daysBeforeMonth_eq, hL, hdby]; omega

/-- ordinals up to `_MAXORDINAL` have years up to 9999 -/
theorem ord2ymd_year_le (n : Nat) (h : n ≤ maxOrdinal) : (ord2ymd n).1 ≤ 9999 := by
  unfold maxOrdinal at h
  unfold ord2ymd
  simp only []
  generalize hr1 : (n - 1) % 146097 = r1
  generalize ha : (n - 1) / 146097 = a
  generalize hr2 : r1 % 36524 = r2
  generalize hb : r1 / 36524 = b
  generalize hr3 : r2 % 1461 = r3
  generalize hc : r2 / 1461 = c
  generalize hk : r3 % 365 = k
  generalize he : r3 / 365 = e
  have ha' : a ≤ 24 := by omega
  have hb' : b ≤ 4 := by omega
  have hc' : c ≤ 24 := by omega
  have he' : e ≤ 4 := by omega
  split
  · simp only; omega
  · rename_i hne
    simp only [Bool.or_eq_true, beq_iff_eq, not_or] at hne
    simp only; omega

/-! ### the counting definitions of the Spec agree with the closed forms -/

open Ofx.Spec.Instant in
theorem spec_leap_eq (y : Nat) : leap y = isLeap y := by
  rw [Bool.eq_iff_iff]; simp [leap, isLeap]; omega

open Ofx.Spec.Instant in
theorem spec_daysInYearsUpTo (k : Nat) : daysInYearsUpTo k = k * 365 + k / 4 - k / 100 + k / 400 := by
  induction k with
  | zero => rfl
  | succ k ih =>
    rw [daysInYearsUpTo, ih, yearLen, spec_leap_eq]
    unfold isLeap
    by_cases h4 : (k + 1) % 4 = 0 <;> by_cases h100 : (k + 1) % 100 = 0 <;> by_cases h400 : (k + 1) % 400 = 0 <;>
      simp [h4, h100, h400] <;> omega

open Ofx.Spec.Instant in
theorem spec_monthLen_eq (y m : Nat) (hm : 1 ≤ m ∧ m ≤ 12) : monthLen y m = daysInMonth y m := by
  obtain ⟨h1, h2⟩ := hm
  rw [daysInMonth_eq]
  have : m = 1 ∨ m = 2 ∨ m = 3 ∨ m = 4 ∨ m = 5 ∨ m = 6 ∨ m = 7 ∨ m = 8 ∨ m = 9 ∨ m = 10 ∨ m = 11 ∨ m = 12 := by omega
  rcases this with h | h | h | h | h | h | h | h | h | h | h | h <;> subst h <;> simp [monthLen, dimL, dimTable, spec_leap_eq]

open Ofx.Spec.Instant in
theorem spec_daysInMonthsUpTo (y m : Nat) (hm : 1 ≤ m ∧ m ≤ 12) :
    daysInMonthsUpTo y (m - 1) = daysBeforeMonth y m := by
  obtain ⟨h1, h2⟩ := hm
  have : m = 1 ∨ m = 2 ∨ m = 3 ∨ m = 4 ∨ m = 5 ∨ m = 6 ∨ m = 7 ∨ m = 8 ∨ m = 9 ∨ m = 10 ∨ m = 11 ∨ m = 12 := by omega
  rcases this with h | h | h | h | h | h | h | h | h | h | h | h <;> subst h <;>
    simp [daysInMonthsUpTo, monthLen, daysBeforeMonth, dbmTable, spec_leap_eq] <;> cases isLeap y <;> rfl

open Ofx.Spec.Instant in
/-- the ordinal by counting equals CPython's closed form -/
theorem spec_ordinal_eq (y m d : Nat) (hm : 1 ≤ m ∧ m ≤ 12) : ordinal y m d = ymd2ord y m d := by
  unfold ordinal ymd2ord
  rw [spec_daysInYearsUpTo, spec_daysInMonthsUpTo y m hm]
  rfl

open Ofx.Spec.Instant in
theorem spec_validDate_eq (y m d : Nat) : Spec.Instant.validDate y m d = Cal.validDate y m d := by
  unfold Spec.Instant.validDate Cal.validDate
  by_cases hm : 1 ≤ m ∧ m ≤ 12
  · rw [spec_monthLen_eq y m hm]
  · rw [Bool.eq_iff_iff]; simp; omega

end Ofx.Cal
