/-
Lemmas about the header model (`OfxModel/Ofx/Header.lean`): the matcher, the three patterns on rendered
header text, `int()` on rendered numbers, the validators, the byte stream.
-/
import OfxModel.Ofx.Header
import OfxModel.Spec.HeaderLayout
import OfxProofs.Lemmas.Codec
namespace Ofx.Header
open Ofx

theorem tryDown_skip (f : Nat → Option α) (m : Nat) : ∀ (n : Nat), m ≤ n →
    (∀ k, m < k → k ≤ n → f k = none) → tryDown f n = tryDown f m := by
  intro n
  induction n with
  | zero => intro h _; have : m = 0 := by omega
            subst this; rfl
  | succ n ih =>
    intro h hf
    by_cases hm : m = n + 1
    · subst hm; rfl
    · rw [tryDown, hf (n + 1) (by omega) (by omega)]
      exact ih (by omega) (fun k h1 h2 => hf k h1 (by omega))

theorem tryDown_hit (f : Nat → Option α) (m : Nat) (r : α) (h : f (m + 1) = some r) : tryDown f (m + 1) = some r := by
  rw [tryDown, h]

theorem step_lit (l s : Str) (k : St → Str → Option Res) (st : St) :
    stepItem (.lit l) k st (l ++ s) = k st s := by
  simp [stepItem]

theorem dropWhile_space (w s : Str) (hw : ∀ c ∈ w, isSpace c = true)
    (hs : ∀ c ∈ s.head?, isSpace c = false) : (w ++ s).dropWhile isSpace = s := by
  induction w with
  | nil =>
    cases s with
    | nil => rfl
    | cons c cs => simp at hs; simp [List.dropWhile, hs]
  | cons c cs ih =>
    simp only [List.cons_append, List.dropWhile, hw c (by simp)]
    exact ih (fun c hc => hw c (by simp [hc]))

theorem step_ws0 (w s : Str) (k : St → Str → Option Res) (st : St) (hw : ∀ c ∈ w, isSpace c = true)
    (hs : ∀ c ∈ s.head?, isSpace c = false) : stepItem .ws0 k st (w ++ s) = k st s := by
  simp only [stepItem, dropWhile_space w s hw hs]

theorem step_ws1 (w s : Str) (k : St → Str → Option Res) (st : St) (hne : w ≠ []) (hw : ∀ c ∈ w, isSpace c = true)
    (hs : ∀ c ∈ s.head?, isSpace c = false) : stepItem .ws1 k st (w ++ s) = k st s := by
  cases w with
  | nil => exact absurd rfl hne
  | cons c cs =>
    simp only [stepItem, List.cons_append, hw c (by simp), if_true]
    rw [dropWhile_space cs s (fun c hc => hw c (by simp [hc])) hs]

theorem takeWhile_append_all (p : Char → Bool) (v s : Str) (hp : ∀ c ∈ v, p c = true) :
    (v ++ s).takeWhile p = v ++ s.takeWhile p := by
  induction v with
  | nil => rfl
  | cons c cs ih =>
    simp only [List.cons_append, List.takeWhile, hp c (by simp)]
    rw [ih (fun c hc => hp c (by simp [hc]))]

theorem step_cap (p : Char → Bool) (k : St → Str → Option Res) (st : St) (v s : Str) (r : Res)
    (hv : v ≠ []) (hp : ∀ c ∈ v, p c = true)
    (hfail : ∀ j, 0 < j → j ≤ (s.takeWhile p).length →
      k { st with caps := some (v ++ s.take j) :: st.caps } (s.drop j) = none)
    (hok : k { st with caps := some v :: st.caps } s = some r) :
    stepItem (.cap p) k st (v ++ s) = some r := by
  simp only [stepItem, takeWhile_append_all p v s hp, List.length_append]
  rw [tryDown_skip _ v.length _ (by omega)]
  · have hl : v.length = (v.length - 1) + 1 := by
      cases v with
      | nil => exact absurd rfl hv
      | cons _ _ => simp
    rw [hl]
    apply tryDown_hit
    rw [← hl]
    simpa using hok
  · intro n h1 h2
    have e : n = v.length + (n - v.length) := by omega
    rw [e]
    have := hfail (n - v.length) (by omega) (by omega)
    have t1 : List.take (v.length + (n - v.length)) v = v := List.take_of_length_le (by omega)
    have t2 : List.drop (v.length + (n - v.length)) v = [] := List.drop_of_length_le (by omega)
    simpa [List.take_append, List.drop_append, t1, t2] using this

/-! ### fields -/

theorem matchSegs_item (i : Item) (segs : List Seg) : matchSegs (.item i :: segs) = stepItem i (matchSegs segs) := rfl

/-- `a ++ ':' :: x = b ++ ':' :: y` with no colon in `a`, `b` forces `a = b` -/
theorem colon_split {a b x y : Str} (ha : ':' ∉ a) (hb : ':' ∉ b) (h : a ++ ':' :: x = b ++ ':' :: y) : a = b := by
  induction a generalizing b with
  | nil =>
    cases b with
    | nil => rfl
    | cons c cs =>
      simp at h
      exact absurd h.1.symm (by simpa using (fun hc : c = ':' => hb (by simp [hc])))
  | cons c cs ih =>
    cases b with
    | nil =>
      simp at h
      exact absurd h.1 (by simpa using (fun hc : c = ':' => ha (by simp [hc])))
    | cons d ds =>
      simp at h
      rw [h.1, ih (fun hc => ha (by simp [hc])) (fun hc => hb (by simp [hc])) h.2]

/-- the literal `a:` does not start a text whose first colon comes after a different word -/
theorem lit_colon_fail (a b rest : Str) (ha : ':' ∉ a) (hb : ':' ∉ b) (hne : a ≠ b) :
    (a ++ [':']).isPrefixOf (b ++ ':' :: rest) = false := by
  cases h : (a ++ [':']).isPrefixOf (b ++ ':' :: rest) with
  | false => rfl
  | true =>
    rw [List.isPrefixOf_iff_prefix] at h
    obtain ⟨t, ht⟩ := h
    have : a ++ ':' :: t = b ++ ':' :: rest := by simpa using ht
    exact absurd (colon_split ha hb this) hne

theorem step_lit_fail (a b rest : Str) (k : St → Str → Option Res) (st : St)
    (ha : ':' ∉ a) (hb : ':' ∉ b) (hne : a ≠ b) :
    stepItem (.lit (a ++ [':'])) k st (b ++ ':' :: rest) = none := by
  simp only [stepItem, lit_colon_fail a b rest ha hb hne]
  rfl

theorem takeWhile_stop_le (p : Char → Bool) (a rest : Str) (c : Char) (hc : p c = false) :
    ((a ++ c :: rest).takeWhile p).length ≤ a.length := by
  induction a with
  | nil => simp [List.takeWhile, hc]
  | cons d ds ih =>
    simp only [List.cons_append, List.takeWhile]
    split
    · simp only [List.length_cons]; omega
    · simp

/-- a word of non-space, non-colon characters -/
def isName (nm : Str) : Prop := nm ≠ [] ∧ ':' ∉ nm ∧ ∀ c ∈ nm, isSpace c = false

theorem drop_name_head (nm rest : Str) (j : Nat) (hn : ∀ c ∈ nm, isSpace c = false) :
    ∀ c ∈ (nm.drop j ++ ':' :: rest).head?, isSpace c = false := by
  intro c hc
  cases hd : nm.drop j with
  | nil => simp [hd] at hc; subst hc; decide
  | cons d ds =>
    simp [hd] at hc
    subst hc
    exact hn _ (List.mem_of_mem_drop (by rw [hd]; simp))

/-- after a glued value, starting the next field `nm2:` inside the name fails -/
theorem glue_fail_lit (nm2 rest2 : Str) (k2 : St → Str → Option Res) (st' : St) (j : Nat)
    (hn : isName nm2) (hj : 0 < j) (hj2 : j ≤ nm2.length) :
    stepItem .ws0 (stepItem (.lit (nm2 ++ [':'])) k2) st' ((nm2 ++ ':' :: rest2).drop j) = none := by
  have e : (nm2 ++ ':' :: rest2).drop j = nm2.drop j ++ ':' :: rest2 := by
    rw [List.drop_append_of_le_length hj2]
  rw [e]
  have := step_ws0 [] (nm2.drop j ++ ':' :: rest2) (stepItem (.lit (nm2 ++ [':'])) k2) st' (by simp)
    (drop_name_head nm2 rest2 j hn.2.2)
  simp only [List.nil_append] at this
  rw [this]
  apply step_lit_fail _ _ _ _ _ hn.2.1 (fun h => hn.2.1 (List.mem_of_mem_drop h))
  intro h
  have := congrArg List.length h
  simp at this
  omega

/-- one `NAME:\s*(class+)\s*` block in front of a continuation -/
theorem field_stepK (nm : Str) (p : Char → Bool) (k : St → Str → Option Res) (st : St)
    (blank v w T : Str) (r : Res)
    (hb : ∀ c ∈ blank, isSpace c = true) (hv : v ≠ []) (hp : ∀ c ∈ v, p c = true)
    (hpns : ∀ c, p c = true → isSpace c = false) (hw : ∀ c ∈ w, isSpace c = true)
    (hT : ∀ c ∈ T.head?, isSpace c = false)
    (hfail : w = [] → ∀ st' j, 0 < j → j ≤ (T.takeWhile p).length → stepItem .ws0 k st' (T.drop j) = none)
    (hok : k { st with caps := some v :: st.caps } T = some r) :
    stepItem (.lit (nm ++ [':'])) (stepItem .ws0 (stepItem (.cap p) (stepItem .ws0 k))) st
      (nm ++ ':' :: (blank ++ (v ++ (w ++ T)))) = some r := by
  have e : nm ++ ':' :: (blank ++ (v ++ (w ++ T))) = (nm ++ [':']) ++ (blank ++ (v ++ (w ++ T))) := by simp
  rw [e, step_lit, step_ws0 blank _ _ _ hb]
  · apply step_cap p _ st v (w ++ T) r hv hp
    · intro j hj hj2
      cases w with
      | nil => exact hfail rfl _ j hj (by simpa using hj2)
      | cons c cs =>
        have : p c = false := by
          cases hpc : p c with
          | false => rfl
          | true => have := hpns c hpc; rw [hw c (by simp)] at this; cases this
        simp [List.takeWhile, this] at hj2
        omega
    · rw [step_ws0 w T _ _ hw hT]; exact hok
  · intro c hc
    cases v with
    | nil => exact absurd rfl hv
    | cons d ds => simp at hc; subst hc; exact hpns _ (hp _ (by simp))

/-- the last block `NAME:\s*(class+)` at the end of the pattern -/
theorem last_field (nm : Str) (p : Char → Bool) (st : St) (blank v R : Str)
    (hb : ∀ c ∈ blank, isSpace c = true) (hv : v ≠ []) (hp : ∀ c ∈ v, p c = true)
    (hpns : ∀ c, p c = true → isSpace c = false) (hR : ∀ c ∈ R.head?, p c = false) :
    stepItem (.lit (nm ++ [':'])) (stepItem .ws0 (stepItem (.cap p) finish)) st
      (nm ++ ':' :: (blank ++ (v ++ R))) = some ((some v :: st.caps).reverse, R) := by
  have e : nm ++ ':' :: (blank ++ (v ++ R)) = (nm ++ [':']) ++ (blank ++ (v ++ R)) := by simp
  rw [e, step_lit, step_ws0 blank _ _ _ hb]
  · apply step_cap p _ st v R _ hv hp
    · intro j hj hj2
      cases R with
      | nil => simp at hj2; omega
      | cons c cs =>
        simp [List.takeWhile, hR c (by simp)] at hj2
        omega
    · rfl
  · intro c hc
    cases v with
    | nil => exact absurd rfl hv
    | cons d ds => simp at hc; subst hc; exact hpns _ (hp _ (by simp))

/-! ### character-class facts -/

def spaceChars : List Char := pySpaceCodepoints.map Char.ofNat

theorem mem_spaceChars {c : Char} (h : isSpace c = true) : c ∈ spaceChars := by
  simp only [isSpace, List.contains_eq_mem, decide_eq_true_eq] at h
  have : Char.ofNat c.toNat ∈ spaceChars := List.mem_map_of_mem h
  rwa [Char.ofNat_toNat] at this

theorem wordDash_not_space (c : Char) (h : isWordDash c = true) : isSpace c = false := by
  cases hs : isSpace c with
  | false => rfl
  | true =>
    have hm := mem_spaceChars hs
    have : ∀ d ∈ spaceChars, isWordDash d = false := by decide
    rw [this c hm] at h
    cases h

theorem digit_wordDash (c : Char) (h : isDigit c = true) : isWordDash c = true := by
  simp [isWordDash, isWord, h]
theorem upper_wordDash (c : Char) (h : isUpper c = true) : isWordDash c = true := by
  simp [isWordDash, isWord, h]
theorem word_wordDash (c : Char) (h : isWord c = true) : isWordDash c = true := by
  simp [isWordDash, h]
theorem upDigDash_wordDash (c : Char) (h : isUpDigDash c = true) : isWordDash c = true := by
  simp only [isUpDigDash, Bool.or_eq_true] at h
  rcases h with (h | h) | h <;> simp [isWordDash, isWord, h]

theorem digit_not_space (c : Char) (h : isDigit c = true) : isSpace c = false :=
  wordDash_not_space c (digit_wordDash c h)
theorem upper_not_space (c : Char) (h : isUpper c = true) : isSpace c = false :=
  wordDash_not_space c (upper_wordDash c h)
theorem word_not_space (c : Char) (h : isWord c = true) : isSpace c = false :=
  wordDash_not_space c (word_wordDash c h)
theorem upDigDash_not_space (c : Char) (h : isUpDigDash c = true) : isSpace c = false :=
  wordDash_not_space c (upDigDash_wordDash c h)

/-! ### the v1 pattern on header text with arbitrary whitespace after each value -/

def fieldSegs (nm : Str) (p : Char → Bool) (next : List Seg) : List Seg :=
  .item (.lit (nm ++ [':'])) :: W0 :: C p :: W0 :: next

def lastSegs : List Seg := [.item (.lit ("NEWFILEUID".toList ++ [':'])), W0, C isWordDash]

def compItems : List Item := [.lit ("COMPRESSION".toList ++ [':']), .ws0, .cap isUpper, .ws0]

def tail8 : List Seg := fieldSegs "OLDFILEUID".toList isWordDash lastSegs

theorem v1Regex_eq : v1Regex = W0 ::
    fieldSegs "OFXHEADER".toList isDigit (fieldSegs "DATA".toList isUpper (fieldSegs "VERSION".toList isDigit
    (fieldSegs "SECURITY".toList isWord (fieldSegs "ENCODING".toList isUpDigDash
    (fieldSegs "CHARSET".toList isWordDash (.opt compItems :: tail8)))))) := by
  rfl

/-- `NAME:` blank value whitespace, then the rest -/
def fld (nm : String) (blank v w T : Str) : Str := nm.toList ++ ':' :: (blank ++ (v ++ (w ++ T)))

/-- a block followed by a block that starts with the literal `nm2:` -/
theorem field_step_lit (nm : Str) (p : Char → Bool) (nm2 : Str) (k2 : St → Str → Option Res) (st : St)
    (blank v w rest2 : Str) (r : Res)
    (hb : ∀ c ∈ blank, isSpace c = true) (hv : v ≠ []) (hp : ∀ c ∈ v, p c = true)
    (hpns : ∀ c, p c = true → isSpace c = false) (hpc : p ':' = false) (hw : ∀ c ∈ w, isSpace c = true)
    (hn2 : isName nm2)
    (hok : stepItem (.lit (nm2 ++ [':'])) k2 { st with caps := some v :: st.caps } (nm2 ++ ':' :: rest2) = some r) :
    stepItem (.lit (nm ++ [':'])) (stepItem .ws0 (stepItem (.cap p) (stepItem .ws0
      (stepItem (.lit (nm2 ++ [':'])) k2)))) st (nm ++ ':' :: (blank ++ (v ++ (w ++ (nm2 ++ ':' :: rest2))))) = some r := by
  apply field_stepK nm p _ st blank v w _ r hb hv hp hpns hw
  · intro c hc
    have := drop_name_head nm2 rest2 0 hn2.2.2
    simpa using this c (by simpa using hc)
  · intro _ st' j hj hj2
    exact glue_fail_lit nm2 rest2 k2 st' j hn2 hj (Nat.le_trans hj2 (takeWhile_stop_le p nm2 rest2 ':' hpc))
  · exact hok

theorem matchSegs_opt (is : List Item) (segs : List Seg) (st : St) (s : Str) :
    matchSegs (.opt is :: segs) st s =
      match matchItems is (matchSegs segs) st s with
      | some r => some r
      | none => matchSegs segs { st with caps := List.replicate (capCount is) none ++ st.caps } s := rfl

theorem matchItems_comp (k : St → Str → Option Res) :
    matchItems compItems k = stepItem (.lit ("COMPRESSION".toList ++ [':'])) (stepItem .ws0
      (stepItem (.cap isUpper) (stepItem .ws0 k))) := rfl

/-- after a glued CHARSET value, neither `COMPRESSION:` nor `OLDFILEUID:` can start inside the next name -/
theorem glue_fail_opt (nm2 rest2 : Str) (st' : St) (j : Nat) (hn : isName nm2) (hj2 : j ≤ nm2.length)
    (h1 : "COMPRESSION".toList ≠ nm2.drop j) (h2 : "OLDFILEUID".toList ≠ nm2.drop j) :
    stepItem .ws0 (matchSegs (.opt compItems :: tail8)) st' ((nm2 ++ ':' :: rest2).drop j) = none := by
  have e : (nm2 ++ ':' :: rest2).drop j = nm2.drop j ++ ':' :: rest2 := by
    rw [List.drop_append_of_le_length hj2]
  rw [e]
  have := step_ws0 [] (nm2.drop j ++ ':' :: rest2) (matchSegs (.opt compItems :: tail8)) st' (by simp)
    (drop_name_head nm2 rest2 j hn.2.2)
  simp only [List.nil_append] at this
  rw [this, matchSegs_opt, matchItems_comp,
    step_lit_fail _ _ _ _ _ (by decide) (fun h => hn.2.1 (List.mem_of_mem_drop h)) h1]
  simp only [tail8, fieldSegs, W0, C, matchSegs_item]
  exact step_lit_fail _ _ _ _ _ (by decide) (fun h => hn.2.1 (List.mem_of_mem_drop h)) h2

theorem name_COMPRESSION : isName "COMPRESSION".toList := by
  refine ⟨by decide, by decide, by decide⟩
theorem name_OLDFILEUID : isName "OLDFILEUID".toList := by
  refine ⟨by decide, by decide, by decide⟩
theorem name_NEWFILEUID : isName "NEWFILEUID".toList := by
  refine ⟨by decide, by decide, by decide⟩

theorem drop_ne_of_pos (a : Str) (j : Nat) (hj : 0 < j) (ha : a ≠ []) : a ≠ a.drop j := by
  intro h
  have := congrArg List.length h
  simp at this
  have : 0 < a.length := List.length_pos_iff.2 ha
  omega

theorem comp_drop_ne_old (j : Nat) (hj : 0 < j) : "OLDFILEUID".toList ≠ "COMPRESSION".toList.drop j := by
  intro h
  have hl := congrArg List.length h
  have e1 : "OLDFILEUID".toList.length = 10 := by decide
  have e2 : "COMPRESSION".toList.length = 11 := by decide
  rw [List.length_drop, e1, e2] at hl
  have : j = 1 := by omega
  subst this
  revert h
  decide

theorem old_drop_ne_comp (j : Nat) : "COMPRESSION".toList ≠ "OLDFILEUID".toList.drop j := by
  intro h
  have hl := congrArg List.length h
  have e1 : "OLDFILEUID".toList.length = 10 := by decide
  have e2 : "COMPRESSION".toList.length = 11 := by decide
  rw [List.length_drop, e1, e2] at hl
  omega

/-- the text of a v1 header: values and arbitrary whitespace -/
structure V1W where
  indent : Str
  b1 : Str
  v1 : Str
  w1 : Str
  b2 : Str
  v2 : Str
  w2 : Str
  b3 : Str
  v3 : Str
  w3 : Str
  b4 : Str
  v4 : Str
  w4 : Str
  b5 : Str
  v5 : Str
  w5 : Str
  b6 : Str
  v6 : Str
  w6 : Str
  comp : Option (Str × Str × Str)     -- blanks, value, whitespace of the COMPRESSION field when written
  b8 : Str
  v8 : Str
  w8 : Str
  b9 : Str
  v9 : Str

def V1W.compText (t : V1W) (T : Str) : Str :=
  match t.comp with
  | some (b, v, w) => fld "COMPRESSION" b v w T
  | none => T

def V1W.text (t : V1W) (R : Str) : Str :=
  t.indent ++ fld "OFXHEADER" t.b1 t.v1 t.w1 (fld "DATA" t.b2 t.v2 t.w2 (fld "VERSION" t.b3 t.v3 t.w3
    (fld "SECURITY" t.b4 t.v4 t.w4 (fld "ENCODING" t.b5 t.v5 t.w5 (fld "CHARSET" t.b6 t.v6 t.w6
    (t.compText (fld "OLDFILEUID" t.b8 t.v8 t.w8 ("NEWFILEUID".toList ++ ':' :: (t.b9 ++ (t.v9 ++ R))))))))))

def allSpace (s : Str) : Prop := ∀ c ∈ s, isSpace c = true
def inClass (p : Char → Bool) (v : Str) : Prop := v ≠ [] ∧ ∀ c ∈ v, p c = true

structure V1W.Ok (t : V1W) : Prop where
  indent : allSpace t.indent
  b1 : allSpace t.b1
  b2 : allSpace t.b2
  b3 : allSpace t.b3
  b4 : allSpace t.b4
  b5 : allSpace t.b5
  b6 : allSpace t.b6
  b8 : allSpace t.b8
  b9 : allSpace t.b9
  w1 : allSpace t.w1
  w2 : allSpace t.w2
  w3 : allSpace t.w3
  w4 : allSpace t.w4
  w5 : allSpace t.w5
  w6 : allSpace t.w6
  w8 : allSpace t.w8
  v1 : inClass isDigit t.v1
  v2 : inClass isUpper t.v2
  v3 : inClass isDigit t.v3
  v4 : inClass isWord t.v4
  v5 : inClass isUpDigDash t.v5
  v6 : inClass isWordDash t.v6
  comp : ∀ b v w, t.comp = some (b, v, w) → allSpace b ∧ inClass isUpper v ∧ allSpace w
  v8 : inClass isWordDash t.v8
  v9 : inClass isWordDash t.v9

def V1W.caps (t : V1W) : List (Option Str) :=
  [some t.v1, some t.v2, some t.v3, some t.v4, some t.v5, some t.v6, t.comp.map (fun x => x.2.1), some t.v8, some t.v9]

theorem tail8_match (st : St) (b8 v8 w8 b9 v9 R : Str) (hb8 : allSpace b8) (hv8 : inClass isWordDash v8)
    (hw8 : allSpace w8) (hb9 : allSpace b9) (hv9 : inClass isWordDash v9)
    (hR : ∀ c ∈ R.head?, isWordDash c = false) :
    matchSegs tail8 st (fld "OLDFILEUID" b8 v8 w8 ("NEWFILEUID".toList ++ ':' :: (b9 ++ (v9 ++ R)))) =
      some ((some v9 :: some v8 :: st.caps).reverse, R) := by
  simp only [tail8, fieldSegs, lastSegs, W0, C, matchSegs_item, fld]
  apply field_step_lit _ _ _ _ _ _ _ _ _ _ hb8 hv8.1 hv8.2 wordDash_not_space (by decide) hw8 name_NEWFILEUID
  exact last_field _ _ _ _ _ _ hb9 hv9.1 hv9.2 wordDash_not_space hR

/-- **the v1 pattern lands every capture on its field value**, whatever whitespace (including none) follows
    each value -/
theorem v1_match (t : V1W) (R : Str) (ok : t.Ok) (hR : ∀ c ∈ R.head?, isWordDash c = false) :
    reMatch v1Regex (t.text R) = some (t.caps, R) := by
  -- the tail after CHARSET, in both forms
  have htail : ∀ st : St, matchSegs (.opt compItems :: tail8) st
      (t.compText (fld "OLDFILEUID" t.b8 t.v8 t.w8 ("NEWFILEUID".toList ++ ':' :: (t.b9 ++ (t.v9 ++ R))))) =
      some ((some t.v9 :: some t.v8 :: t.comp.map (fun x => x.2.1) :: st.caps).reverse, R) := by
    intro st
    rw [matchSegs_opt, matchItems_comp]
    cases hc : t.comp with
    | none =>
      simp only [V1W.compText, hc, fld]
      rw [step_lit_fail _ _ _ _ _ (by decide) (by decide) (by decide)]
      exact tail8_match _ _ _ _ _ _ _ ok.b8 ok.v8 ok.w8 ok.b9 ok.v9 hR
    | some x =>
      obtain ⟨b, v, w⟩ := x
      obtain ⟨hb, hv, hw⟩ := ok.comp b v w hc
      simp only [V1W.compText, hc]
      have : stepItem (.lit ("COMPRESSION".toList ++ [':'])) (stepItem .ws0 (stepItem (.cap isUpper) (stepItem .ws0
          (matchSegs tail8)))) st (fld "COMPRESSION" b v w (fld "OLDFILEUID" t.b8 t.v8 t.w8
            ("NEWFILEUID".toList ++ ':' :: (t.b9 ++ (t.v9 ++ R))))) =
          some ((some t.v9 :: some t.v8 :: some v :: st.caps).reverse, R) := by
        simp only [tail8, fieldSegs, W0, C, matchSegs_item]
        apply field_step_lit _ _ _ _ _ _ _ _ _ _ hb hv.1 hv.2 upper_not_space (by decide) hw name_OLDFILEUID
        have := tail8_match { st with caps := some v :: st.caps } t.b8 t.v8 t.w8 t.b9 t.v9 R
          ok.b8 ok.v8 ok.w8 ok.b9 ok.v9 hR
        simpa only [tail8, fieldSegs, lastSegs, W0, C, matchSegs_item, fld] using this
      rw [this]
      rfl
  -- head of the tail: a name followed by a colon
  have hhead : ∃ nm2 rest2, isName nm2 ∧ (nm2 = "COMPRESSION".toList ∨ nm2 = "OLDFILEUID".toList) ∧
      t.compText (fld "OLDFILEUID" t.b8 t.v8 t.w8 ("NEWFILEUID".toList ++ ':' :: (t.b9 ++ (t.v9 ++ R)))) =
        nm2 ++ ':' :: rest2 := by
    cases hc : t.comp with
    | none =>
      exact ⟨_, t.b8 ++ (t.v8 ++ (t.w8 ++ ("NEWFILEUID".toList ++ ':' :: (t.b9 ++ (t.v9 ++ R))))),
        name_OLDFILEUID, Or.inr rfl, by simp only [V1W.compText, hc, fld]⟩
    | some x =>
      obtain ⟨b, v, w⟩ := x
      exact ⟨_, b ++ (v ++ (w ++ fld "OLDFILEUID" t.b8 t.v8 t.w8 ("NEWFILEUID".toList ++ ':' :: (t.b9 ++ (t.v9 ++ R))))),
        name_COMPRESSION, Or.inl rfl, by simp only [V1W.compText, hc, fld]⟩
  obtain ⟨nm2, rest2, hn2, hnm2, hT⟩ := hhead
  unfold reMatch
  rw [v1Regex_eq, W0, matchSegs_item, V1W.text]
  rw [step_ws0 t.indent _ _ _ ok.indent (by intro c hc; simp [fld] at hc; subst hc; decide)]
  simp only [fieldSegs, W0, C, matchSegs_item, fld]
  apply field_step_lit _ _ _ _ _ _ _ _ _ _ ok.b1 ok.v1.1 ok.v1.2 digit_not_space (by decide) ok.w1
    ⟨by decide, by decide, by decide⟩
  apply field_step_lit _ _ _ _ _ _ _ _ _ _ ok.b2 ok.v2.1 ok.v2.2 upper_not_space (by decide) ok.w2
    ⟨by decide, by decide, by decide⟩
  apply field_step_lit _ _ _ _ _ _ _ _ _ _ ok.b3 ok.v3.1 ok.v3.2 digit_not_space (by decide) ok.w3
    ⟨by decide, by decide, by decide⟩
  apply field_step_lit _ _ _ _ _ _ _ _ _ _ ok.b4 ok.v4.1 ok.v4.2 word_not_space (by decide) ok.w4
    ⟨by decide, by decide, by decide⟩
  apply field_step_lit _ _ _ _ _ _ _ _ _ _ ok.b5 ok.v5.1 ok.v5.2 upDigDash_not_space (by decide) ok.w5
    ⟨by decide, by decide, by decide⟩
  -- CHARSET, followed by the optional group
  have hT' := hT
  simp only [fld] at hT'
  apply field_stepK _ _ _ _ _ _ _ _ _ ok.b6 ok.v6.1 ok.v6.2 wordDash_not_space ok.w6
  · rw [hT']
    intro c hc
    have := drop_name_head nm2 rest2 0 hn2.2.2
    simpa using this c (by simpa using hc)
  · intro _ st' j hj hj2
    rw [hT'] at hj2 ⊢
    have hle := Nat.le_trans hj2 (takeWhile_stop_le isWordDash nm2 rest2 ':' (by decide))
    apply glue_fail_opt nm2 rest2 st' j hn2 hle
    · rcases hnm2 with h | h
      · subst h; exact drop_ne_of_pos _ j hj (by decide)
      · subst h; exact old_drop_ne_comp j
    · rcases hnm2 with h | h
      · subst h; exact comp_drop_ne_old j hj
      · subst h; exact drop_ne_of_pos _ j hj (by decide)
  · have := htail { caps := [some t.v6, some t.v5, some t.v4, some t.v3, some t.v2, some t.v1], quote := none }
    simp only [fld] at this
    rw [this]
    rfl

theorem reSearch_of_match (segs : List Seg) (s : Str) (r : Res) (h : reMatch segs s = some r) :
    reSearch segs s = some r := by
  cases s with
  | nil => simpa [reSearch] using h
  | cons c cs => simp [reSearch, h]

end Ofx.Header
