/-
Lemmas for C18 (persistence, value level): what `arg2config` writes reads back through the INI reader (`strip`)
and the typed getter — integers, and lists of clean account numbers.
-/
import OfxProofs.Lemmas.Ofxget

namespace Ofx.Ofxget
open Ofx

theorem digit_facts : ∀ d, d < 10 →
    digitVal (digitChar d) = some d ∧ digitChar d ≠ '_' ∧ digitChar d ≠ '-' ∧ digitChar d ≠ '+' ∧
      isSpace (digitChar d) = false := by decide

theorem natDigitsAux_append (f n : Nat) (acc : List Nat) :
    natDigitsAux f n acc = natDigitsAux f n [] ++ acc := by
  induction f generalizing n acc with
  | zero => simp [natDigitsAux]
  | succ f ih =>
    simp only [natDigitsAux]
    by_cases h : n < 10
    · simp [h]
    · simp only [h, if_false]
      rw [ih (n / 10) (n % 10 :: acc), ih (n / 10) [n % 10]]
      simp

def valDigits (a : Nat) (ds : List Nat) : Nat := ds.foldl (fun a d => a * 10 + d) a

theorem natDigitsAux_spec (f n : Nat) (h : n < f) :
    valDigits 0 (natDigitsAux f n []) = n ∧ (∀ d ∈ natDigitsAux f n [], d < 10) ∧ natDigitsAux f n [] ≠ [] := by
  induction f generalizing n with
  | zero => omega
  | succ f ih =>
    simp only [natDigitsAux]
    by_cases h10 : n < 10
    · simp [h10, valDigits]
    · simp only [h10, if_false]
      rw [natDigitsAux_append]
      have hlt : n / 10 < f := by omega
      obtain ⟨hv, hd, hne⟩ := ih (n / 10) hlt
      refine ⟨?_, ?_, ?_⟩
      · simp only [valDigits, List.foldl_append, List.foldl_cons, List.foldl_nil]
        simp only [valDigits] at hv
        rw [hv]
        omega
      · intro d hd'
        rcases List.mem_append.mp hd' with h' | h'
        · exact hd d h'
        · simp only [List.mem_singleton] at h'
          omega
      · simp

theorem parseDigits_digits (ds : List Nat) (hd : ∀ d ∈ ds, d < 10) (a : Nat) (p : Bool) :
    parseDigits a p (ds.map digitChar) =
      if ds = [] then (if p then some a else none) else some (valDigits a ds) := by
  induction ds generalizing a p with
  | nil => simp [parseDigits]
  | cons d ds ih =>
    have hd0 : d < 10 := hd d (by simp)
    obtain ⟨hv, hu, _, _, _⟩ := digit_facts d hd0
    simp only [List.map_cons, parseDigits, hu, if_false, hv]
    rw [ih (fun x hx => hd x (by simp [hx]))]
    by_cases hds : ds = []
    · subst hds; simp [valDigits]
    · simp [hds, valDigits]

theorem lstrip_of_not_space (c : Char) (cs : Str) (h : isSpace c = false) : lstrip (c :: cs) = c :: cs := by
  simp [lstrip, h]

theorem strip_digits (pre : Str) (ds : List Nat) (hd : ∀ d ∈ ds, d < 10) (hne : ds ≠ [])
    (hpre : ∀ c ∈ pre, isSpace c = false) :
    strip (pre ++ ds.map digitChar) = pre ++ ds.map digitChar := by
  -- first character is not a blank, last character is a digit
  have hall : ∀ c ∈ pre ++ ds.map digitChar, isSpace c = false := by
    intro c hc
    rcases List.mem_append.mp hc with h | h
    · exact hpre c h
    · obtain ⟨d, hdm, rfl⟩ := List.mem_map.mp h
      exact (digit_facts d (hd d hdm)).2.2.2.2
  have hnil : pre ++ ds.map digitChar ≠ [] := by
    cases ds with
    | nil => exact absurd rfl hne
    | cons d ds => simp
  generalize pre ++ ds.map digitChar = s at hall hnil
  have hl : ∀ t : Str, t ≠ [] → (∀ c ∈ t, isSpace c = false) → lstrip t = t := by
    intro t ht hc
    cases t with
    | nil => exact absurd rfl ht
    | cons c cs => exact lstrip_of_not_space c cs (hc c (by simp))
  unfold strip rstrip
  rw [hl s hnil hall, hl s.reverse (by simpa using hnil) (fun c hc => hall c (by simpa using hc))]
  simp

/-- **integers read back**: `int(str(i)) == i` through the INI reader -/
theorem pyInt_roundtrip (i : Int) : pyIntOfStr (strip (pyStrInt i)) = some i := by
  obtain ⟨hv, hd0, hne0⟩ := natDigitsAux_spec (i.natAbs + 1) i.natAbs (by omega)
  have hval : valDigits 0 (natDigits i.natAbs) = i.natAbs := hv
  have hd : ∀ d ∈ natDigits i.natAbs, d < 10 := hd0
  have hne : natDigits i.natAbs ≠ [] := hne0
  have hparse := parseDigits_digits (natDigits i.natAbs) hd 0 false
  simp only [hne, if_false, hval] at hparse
  unfold pyStrInt pyStrNat
  by_cases hneg : i < 0
  · simp only [hneg, if_true]
    have hs := strip_digits ['-'] (natDigits i.natAbs) hd hne (by decide)
    simp only [List.cons_append, List.nil_append] at hs
    rw [hs]
    unfold pyIntOfStr
    rw [hs]
    simp only [hparse]
    show some (-(i.natAbs : Int)) = some i
    congr 1
    omega
  · simp only [hneg, if_false]
    have hs := strip_digits [] (natDigits i.natAbs) hd hne (by simp)
    simp only [List.nil_append] at hs
    rw [hs]
    unfold pyIntOfStr
    rw [hs]
    cases hds : natDigits i.natAbs with
    | nil => exact absurd hds hne
    | cons d ds =>
      have hd0 : d < 10 := hd d (by rw [hds]; simp)
      obtain ⟨_, _, hm, hp, _⟩ := digit_facts d hd0
      rw [hds] at hparse
      simp only [List.map_cons] at hparse ⊢
      split
      · rename_i r heq; exact absurd (List.cons.inj heq).1 hm
      · rename_i r heq; exact absurd (List.cons.inj heq).1 hp
      · rw [hparse]
        show some ((i.natAbs : Int)) = some i
        congr 1
        omega

/-! ### lists -/

/-- account numbers that survive `write_list` / `convert_list`: printable, no `,` `'` `\`, no blank at either end,
    not empty -/
def cleanChar (c : Char) : Bool :=
  c != ',' && c != '\'' && c != '\\' && decide (32 ≤ c.toNat) && c.toNat != 127

structure CleanMember (m : Str) : Prop where
  chars : ∀ c ∈ m, cleanChar c = true
  nonempty : m ≠ []
  head : ∀ c rest, m = c :: rest → isSpace c = false
  last : ∀ c pre, m = pre ++ [c] → isSpace c = false

theorem cleanChar_facts (c : Char) (h : cleanChar c = true) :
    c ≠ ',' ∧ c ≠ '\'' ∧ c ≠ '\\' ∧ 32 ≤ c.toNat ∧ c.toNat ≠ 127 := by
  simp only [cleanChar, Bool.and_eq_true, bne_iff_ne, ne_eq, decide_eq_true_eq] at h
  exact ⟨h.1.1.1.1, h.1.1.1.2, h.1.1.2, h.1.2, h.2⟩

def quoted (m : Str) : Str := '\'' :: (m ++ ['\''])

theorem pyReprStr_clean (m : Str) (h : ∀ c ∈ m, cleanChar c = true) : pyReprStr m = quoted m := by
  have hq : m.contains '\'' = false := by
    cases hc : m.contains '\'' with
    | false => rfl
    | true =>
      have : '\'' ∈ m := by simpa using hc
      exact absurd rfl (cleanChar_facts _ (h _ this)).2.1
  unfold pyReprStr quoted
  simp only [hq, Bool.false_and, Bool.false_eq_true, if_false]
  congr 2
  induction m with
  | nil => rfl
  | cons c cs ih =>
    obtain ⟨_, h2, h3, h4, h5⟩ := cleanChar_facts c (h c (by simp))
    have hcs : cs.contains '\'' = false := by
      cases hc : cs.contains '\'' with
      | false => rfl
      | true =>
        have : '\'' ∈ cs := by simpa using hc
        exact absurd rfl (cleanChar_facts _ (h _ (by simp [this]))).2.1
    have ht : c ≠ '\t' := fun e => by subst e; revert h4; decide
    have hn : c ≠ '\n' := fun e => by subst e; revert h4; decide
    have hr : c ≠ '\r' := fun e => by subst e; revert h4; decide
    have h32 : ¬ c.toNat < 32 := by omega
    simp only [List.flatMap_cons, h3, h2, ht, hn, hr, h32, h5, if_false, decide_false, Bool.false_or,
      Bool.false_eq_true, List.cons_append, List.nil_append, beq_iff_eq]
    rw [ih (fun x hx => h x (by simp [hx])) hcs]

theorem replaceGo_single (q : Char) (s : Str) : replaceGo [q] [] 0 s = s.filter (· != q) := by
  induction s with
  | nil => rfl
  | cons c cs ih =>
    by_cases h : c = q
    · subst h
      simp [replaceGo, List.isPrefixOf, ih]
    · have : (q == c) = false := by simpa using fun e : q = c => h e.symm
      simp [replaceGo, List.isPrefixOf, this, ih, h]

theorem filter_quoted (m : Str) (h : ∀ c ∈ m, cleanChar c = true) :
    (quoted m).filter (· != '\'') = m := by
  have : m.filter (· != '\'') = m := by
    rw [List.filter_eq_self]
    intro c hc
    simpa using (cleanChar_facts c (h c hc)).2.1
  simp [quoted, List.filter_append, this]

theorem filter_join_quoted (l : List Str) (h : ∀ m ∈ l, ∀ c ∈ m, cleanChar c = true) :
    (join ", ".toList (l.map quoted)).filter (· != '\'') = join ", ".toList l := by
  induction l with
  | nil => rfl
  | cons m ms ih =>
    cases ms with
    | nil => simpa [join] using filter_quoted m (h m (by simp))
    | cons m2 ms =>
      have ih' := ih (fun x hx => h x (by simp [hx]))
      simp only [List.map_cons, join] at ih' ⊢
      rw [List.filter_append, List.filter_append, filter_quoted m (h m (by simp)), ih']
      rfl

theorem join_quoted_ends (l : List Str) (hne : l ≠ []) :
    (∃ t, join ", ".toList (l.map quoted) = '\'' :: t) ∧ (∃ t, join ", ".toList (l.map quoted) = t ++ ['\'']) := by
  induction l with
  | nil => exact absurd rfl hne
  | cons m ms ih =>
    cases ms with
    | nil =>
      exact ⟨⟨m ++ ['\''], rfl⟩, ⟨'\'' :: m, by simp [join, quoted]⟩⟩
    | cons m2 ms =>
      obtain ⟨_, t, ht⟩ := ih (by simp)
      refine ⟨⟨m ++ ['\''] ++ ", ".toList ++ join ", ".toList ((m2 :: ms).map quoted), by simp [join, quoted]⟩, ?_⟩
      refine ⟨quoted m ++ ", ".toList ++ t, ?_⟩
      simp only [List.map_cons, join] at ht ⊢
      rw [ht]
      simp [List.append_assoc]

theorem stripChars_brackets (j : Str) (h1 : ∃ t, j = '\'' :: t) (h2 : ∃ t, j = t ++ ['\'']) :
    stripChars ['[', ']'] ('[' :: (j ++ [']'])) = j := by
  obtain ⟨t1, ht1⟩ := h1
  obtain ⟨t2, ht2⟩ := h2
  unfold stripChars
  have hd : ('[' :: (j ++ [']'])).dropWhile ['[', ']'].contains = j ++ [']'] := by
    rw [ht1]
    simp [List.dropWhile]
  rw [hd]
  have hr : (j ++ [']']).reverse = ']' :: j.reverse := by simp
  rw [hr]
  have hj : j.reverse = '\'' :: t2.reverse := by rw [ht2]; simp
  rw [hj]
  have : (']' :: '\'' :: t2.reverse).dropWhile ['[', ']'].contains = '\'' :: t2.reverse := by
    simp [List.dropWhile]
  rw [this, ← hj]
  simp

/-- what `write_list` makes of a non-empty list of clean members: the members joined by `", "` -/
theorem writeList_clean (l : List Str) (hne : l ≠ []) (h : ∀ m ∈ l, ∀ c ∈ m, cleanChar c = true) :
    writeList (pyStrList l) = join ", ".toList l := by
  have hrepr : l.map pyReprStr = l.map quoted := by
    apply List.map_congr_left
    intro m hm
    exact pyReprStr_clean m (h m hm)
  unfold writeList pyStrList
  rw [hrepr]
  obtain ⟨e1, e2⟩ := join_quoted_ends l hne
  rw [stripChars_brackets _ e1 e2]
  show replaceGo ['\''] [] 0 _ = _
  rw [replaceGo_single, filter_join_quoted l h]


theorem strip_of_ends (s : Str) (c : Char) (rest : Str) (hs : s = c :: rest) (hc : isSpace c = false)
    (d : Char) (pre : Str) (hs2 : s = pre ++ [d]) (hd : isSpace d = false) : strip s = s := by
  unfold strip rstrip
  have h1 : lstrip s = s := by rw [hs]; exact lstrip_of_not_space c rest hc
  rw [h1]
  have h2 : s.reverse = d :: pre.reverse := by rw [hs2]; simp
  rw [h2, lstrip_of_not_space d _ hd, ← h2]
  simp

theorem cleanMember_strip (m : Str) (h : CleanMember m) : strip m = m := by
  cases hm : m with
  | nil => exact absurd hm h.nonempty
  | cons c rest =>
    obtain ⟨pre, d, hpd⟩ : ∃ pre d, m = pre ++ [d] := by
      have hne : m ≠ [] := h.nonempty
      exact ⟨m.dropLast, m.getLast hne, (List.dropLast_concat_getLast hne).symm⟩
    rw [← hm]
    exact strip_of_ends m c rest hm (h.head c rest hm) d pre hpd (h.last d pre hpd)

theorem strip_blank_cleanMember (m : Str) (h : CleanMember m) : strip (' ' :: m) = m := by
  have : lstrip (' ' :: m) = lstrip m := by
    have hsp : isSpace ' ' = true := by decide
    simp [lstrip, hsp]
  have hl : lstrip m = m := by
    cases hm : m with
    | nil => exact absurd hm h.nonempty
    | cons c rest => exact lstrip_of_not_space c rest (h.head c rest hm)
  have hs := cleanMember_strip m h
  unfold strip at hs ⊢
  rw [this, hl]
  rw [hl] at hs
  exact hs

theorem splitOn_go_nosep (sep : Char) (cur m : Str) (h : ∀ c ∈ m, c ≠ sep) :
    splitOn.go sep cur m = [cur.reverse ++ m] := by
  induction m generalizing cur with
  | nil => simp [splitOn.go]
  | cons c cs ih =>
    have hc : c ≠ sep := h c (by simp)
    simp only [splitOn.go, hc, if_false]
    rw [ih (c :: cur) (fun x hx => h x (by simp [hx]))]
    simp

theorem splitOn_go_sep (sep : Char) (cur m rest : Str) (h : ∀ c ∈ m, c ≠ sep) :
    splitOn.go sep cur (m ++ sep :: rest) = (cur.reverse ++ m) :: splitOn.go sep [] rest := by
  induction m generalizing cur with
  | nil => simp [splitOn.go]
  | cons c cs ih =>
    have hc : c ≠ sep := h c (by simp)
    simp only [List.cons_append, splitOn.go, hc, if_false]
    rw [ih (c :: cur) (fun x hx => h x (by simp [hx]))]
    simp

/-- splitting the joined members at the commas gives the first member and the others with a leading blank -/
theorem splitOn_join (l : List Str) (h : ∀ m ∈ l, ∀ c ∈ m, c ≠ ',') (m0 : Str) (h0 : ∀ c ∈ m0, c ≠ ',') (cur : Str) :
    splitOn.go ',' cur (join ", ".toList (m0 :: l)) = (cur.reverse ++ m0) :: l.map (fun m => ' ' :: m) := by
  induction l generalizing m0 cur with
  | nil => simpa [join] using splitOn_go_nosep ',' cur m0 h0
  | cons m1 ms ih =>
    have hj : join ", ".toList (m0 :: m1 :: ms) = m0 ++ ',' :: (' ' :: join ", ".toList (m1 :: ms)) := by
      simp [join]
    rw [hj, splitOn_go_sep ',' cur m0 _ h0]
    congr 1
    -- the blank starts the next piece
    have hsp : (' ' : Char) ≠ ',' := by decide
    simp only [splitOn.go, hsp, if_false]
    have := ih (fun m hm => h m (by simp [hm])) m1 (h m1 (by simp)) [' ']
    simpa using this

theorem join_last_member (ms : List Str) (m0 : Str) :
    ∃ ml, ml ∈ m0 :: ms ∧ ∃ pre, join ", ".toList (m0 :: ms) = pre ++ ml := by
  induction ms generalizing m0 with
  | nil => exact ⟨m0, by simp, [], by simp [join]⟩
  | cons m1 ms ih =>
    obtain ⟨ml, hml, pre, hpre⟩ := ih m1
    refine ⟨ml, List.mem_cons_of_mem _ hml, m0 ++ ", ".toList ++ pre, ?_⟩
    simp only [join] at hpre ⊢
    rw [hpre]
    simp [List.append_assoc]

/-- **lists read back**: a non-empty list of clean account numbers, written by `arg2config` and read by
    `convert_list` through the INI reader, is the same list -/
theorem list_roundtrip (l : List Str) (hne : l ≠ []) (h : ∀ m ∈ l, CleanMember m) :
    convertList (strip (writeList (pyStrList l))) = l := by
  have hch : ∀ m ∈ l, ∀ c ∈ m, cleanChar c = true := fun m hm => (h m hm).chars
  have hcomma : ∀ m ∈ l, ∀ c ∈ m, c ≠ ',' := fun m hm c hc => (cleanChar_facts c (hch m hm c hc)).1
  rw [writeList_clean l hne hch]
  cases l with
  | nil => exact absurd rfl hne
  | cons m0 ms =>
    -- the joined text begins and ends with characters of members: no edge blanks
    have hstrip : strip (join ", ".toList (m0 :: ms)) = join ", ".toList (m0 :: ms) := by
      have hm0 := h m0 (by simp)
      cases hm : m0 with
      | nil => exact absurd hm hm0.nonempty
      | cons c rest =>
        -- last character: of the last member
        have hlastm := join_last_member ms m0
        obtain ⟨ml, hml, pre, hpre⟩ := hlastm
        have hml' := h ml hml
        obtain ⟨pre2, d, hpd⟩ : ∃ pre2 d, ml = pre2 ++ [d] :=
          ⟨ml.dropLast, ml.getLast hml'.nonempty, (List.dropLast_concat_getLast hml'.nonempty).symm⟩
        have hhead : join ", ".toList (m0 :: ms) = c :: (rest ++ (join ", ".toList (m0 :: ms)).drop (m0.length)) := by
          cases ms with
          | nil => simp [join, hm]
          | cons m1 ms => simp [join, hm]
        rw [← hm]
        exact strip_of_ends _ c _ hhead (hm0.head c rest hm) d (pre ++ pre2) (by rw [hpre, hpd]; simp)
          (hml'.last d pre2 hpd)
    rw [hstrip]
    unfold convertList splitOn
    rw [splitOn_join ms (fun m hm => hcomma m (by simp [hm])) m0 (hcomma m0 (by simp)) []]
    simp only [List.reverse_nil, List.nil_append, List.map_cons, List.map_map]
    rw [cleanMember_strip m0 (h m0 (by simp))]
    congr 1
    rw [List.map_congr_left (g := id)]
    · simp
    · intro m hm
      exact strip_blank_cleanMember m (h m (by simp [hm]))


end Ofx.Ofxget
