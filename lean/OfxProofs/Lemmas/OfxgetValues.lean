/-
Lemmas for C18 (persistence, value level): what `arg2config` writes reads back through the INI reader (`strip`)
and the typed getter — integers.
-/
import OfxProofs.Lemmas.Ofxget

namespace Ofx.Ofxget
open Ofx

theorem digit_facts : ∀ d, d < 10 →
    digitVal (digitChar d) = some d ∧ digitChar d ≠ '_' ∧ digitChar d ≠ '-' ∧ digitChar d ≠ '+' ∧
      isSpace (digitChar d) = false := by decide

theorem natDigitsAux_append (f n : Nat) (acc : List Nat) :
    natDigitsAux f n acc = natDigitsAux f n [] ++ acc := by
  induction f generalizing n acc with
  | zero => simp [natDigitsAux]
  | succ f ih =>
    simp only [natDigitsAux]
    by_cases h : n < 10
    · simp [h]
    · simp only [h, if_false]
      rw [ih (n / 10) (n % 10 :: acc), ih (n / 10) [n % 10]]
      simp

def valDigits (a : Nat) (ds : List Nat) : Nat := ds.foldl (fun a d => a * 10 + d) a

theorem natDigitsAux_spec (f n : Nat) (h : n < f) :
    valDigits 0 (natDigitsAux f n []) = n ∧ (∀ d ∈ natDigitsAux f n [], d < 10) ∧ natDigitsAux f n [] ≠ [] := by
  induction f generalizing n with
  | zero => omega
  | succ f ih =>
    simp only [natDigitsAux]
    by_cases h10 : n < 10
    · simp [h10, valDigits]
    · simp only [h10, if_false]
      rw [natDigitsAux_append]
      have hlt : n / 10 < f := by omega
      obtain ⟨hv, hd, hne⟩ := ih (n / 10) hlt
      refine ⟨?_, ?_, ?_⟩
      · simp only [valDigits, List.foldl_append, List.foldl_cons, List.foldl_nil]
        simp only [valDigits] at hv
        rw [hv]
        omega
      · intro d hd'
        rcases List.mem_append.mp hd' with h' | h'
        · exact hd d h'
        · simp only [List.mem_singleton] at h'
          omega
      · simp

theorem parseDigits_digits (ds : List Nat) (hd : ∀ d ∈ ds, d < 10) (a : Nat) (p : Bool) :
    parseDigits a p (ds.map digitChar) =
      if ds = [] then (if p then some a else none) else some (valDigits a ds) := by
  induction ds generalizing a p with
  | nil => simp [parseDigits]
  | cons d ds ih =>
    have hd0 : d < 10 := hd d (by simp)
    obtain ⟨hv, hu, _, _, _⟩ := digit_facts d hd0
    simp only [List.map_cons, parseDigits, hu, if_false, hv]
    rw [ih (fun x hx => hd x (by simp [hx]))]
    by_cases hds : ds = []
    · subst hds; simp [valDigits]
    · simp [hds, valDigits]

theorem lstrip_of_not_space (c : Char) (cs : Str) (h : isSpace c = false) : lstrip (c :: cs) = c :: cs := by
  simp [lstrip, h]

theorem strip_digits (pre : Str) (ds : List Nat) (hd : ∀ d ∈ ds, d < 10) (hne : ds ≠ [])
    (hpre : ∀ c ∈ pre, isSpace c = false) :
    strip (pre ++ ds.map digitChar) = pre ++ ds.map digitChar := by
  -- first character is not a blank, last character is a digit
  have hall : ∀ c ∈ pre ++ ds.map digitChar, isSpace c = false := by
    intro c hc
    rcases List.mem_append.mp hc with h | h
    · exact hpre c h
    · obtain ⟨d, hdm, rfl⟩ := List.mem_map.mp h
      exact (digit_facts d (hd d hdm)).2.2.2.2
  have hnil : pre ++ ds.map digitChar ≠ [] := by
    cases ds with
    | nil => exact absurd rfl hne
    | cons d ds => simp
  generalize pre ++ ds.map digitChar = s at hall hnil
  have hl : ∀ t : Str, t ≠ [] → (∀ c ∈ t, isSpace c = false) → lstrip t = t := by
    intro t ht hc
    cases t with
    | nil => exact absurd rfl ht
    | cons c cs => exact lstrip_of_not_space c cs (hc c (by simp))
  unfold strip rstrip
  rw [hl s hnil hall, hl s.reverse (by simpa using hnil) (fun c hc => hall c (by simpa using hc))]
  simp

/-- **integers read back**: `int(str(i)) == i` through the INI reader -/
theorem pyInt_roundtrip (i : Int) : pyIntOfStr (strip (pyStrInt i)) = some i := by
  obtain ⟨hv, hd0, hne0⟩ := natDigitsAux_spec (i.natAbs + 1) i.natAbs (by omega)
  have hval : valDigits 0 (natDigits i.natAbs) = i.natAbs := hv
  have hd : ∀ d ∈ natDigits i.natAbs, d < 10 := hd0
  have hne : natDigits i.natAbs ≠ [] := hne0
  have hparse := parseDigits_digits (natDigits i.natAbs) hd 0 false
  simp only [hne, if_false, hval] at hparse
  unfold pyStrInt pyStrNat
  by_cases hneg : i < 0
  · simp only [hneg, if_true]
    have hs := strip_digits ['-'] (natDigits i.natAbs) hd hne (by decide)
    simp only [List.cons_append, List.nil_append] at hs
    rw [hs]
    unfold pyIntOfStr
    rw [hs]
    simp only [hparse]
    show some (-(i.natAbs : Int)) = some i
    congr 1
    omega
  · simp only [hneg, if_false]
    have hs := strip_digits [] (natDigits i.natAbs) hd hne (by simp)
    simp only [List.nil_append] at hs
    rw [hs]
    unfold pyIntOfStr
    rw [hs]
    cases hds : natDigits i.natAbs with
    | nil => exact absurd hds hne
    | cons d ds =>
      have hd0 : d < 10 := hd d (by rw [hds]; simp)
      obtain ⟨_, _, hm, hp, _⟩ := digit_facts d hd0
      rw [hds] at hparse
      simp only [List.map_cons] at hparse ⊢
      split
      · rename_i r heq; exact absurd (List.cons.inj heq).1 hm
      · rename_i r heq; exact absurd (List.cons.inj heq).1 hp
      · rw [hparse]
        show some ((i.natAbs : Int)) = some i
        congr 1
        omega

end Ofx.Ofxget
